/-
  C17 — Comment stripping never changes what a JSON document means.
  Only property statements, their proofs from the helper lemmas (Oryx/Proofs/Json/*.lean), gating
  obligations on the generated tables/facts, and non-vacuity examples.

  Reading of the property in the model's terms (model = the REPAIRED json.go, see F13/K4 below)
  * `strip jsonPlus input`         = everything `ioutil.ReadAll(NewJsonPlusReader(r))` returns (bytes, final
                                     status) when `r` delivers `input` in one read followed by EOF;
    `stripChunks jsonPlus chunks`  = the same when `r` delivers the input as the reads `chunks`
                                     (bufio.Scanner: split on growing prefixes, `atEOF = false`, then EOF);
  * a decorated document is a list of `Piece`s — tokens (`plain`: bytes with none of `" ' /`; `str body`:
    `"` (escape pair | byte ∉ {`"`,`\`})* `"`) and comments (`line c` = `//c\n`, `block c` = `/*c*/`) in
    ANY order — optionally ended by a line comment that runs into EOF. Comment texts are arbitrary bytes
    (quotes, apostrophes, backslashes, comment openers) except `\n` resp. `*/`;
  * equal bytes ⇒ the standard decoder yields the same value, so `encoding/json` is outside the
    argument (the harness additionally compares decoded values on every generated document).

  Defects found by the proof obligations and repaired in the library (regression inputs in corr c17):
  * F13 `{"a":"x\""}` → "comment not match"; `{"a":"x\"//y","b":1}` → silently truncated: the end of a
    string was searched with `bytes.Index`, ignoring escapes (`old_search_witness` below). Fixed by
    `indexEnd` (model: `indexEsc`).
  * K4 any region of more than 64 KiB between markers → `bufio.Scanner: token too long`. Fixed by
    `Scanner.Buffer(nil, maxInt)`.

  PARTIAL (outside the model, exercised by the harness only): bufio.Scanner's buffer management — after
  the K4 fix the only size limit is max int / available memory; `ErrNoProgress` after 100 consecutive
  empty reads; underlying read errors other than EOF.
-/
import Oryx.Proofs.Json.Decorate
import Oryx.Proofs.Json.Read
namespace Oryx.Props.C17
open Oryx Oryx.Json

/-! ### gating obligations: generated tables and facts the model and the theorems rely on -/

example : Gen.Json.startMatches = [[39], [34], [47, 47], [47, 42]] := by decide      -- '  "  //  /*
example : Gen.Json.endMatches = [[39], [34], [10], [42, 47]] := by decide            -- '  "  \n  */
example : Gen.Json.isComments = [false, false, true, true] := by decide
example : Gen.Json.requiredMatches = [true, true, false, true] := by decide
example : Gen.Json.endSearch = "indexEnd(_:[]byte, _:[][]byte[_], !_:[]bool[_])" := by decide
example : Gen.Json.escapeByte = some 92 ∧ escByte = 92 := by decide
example : Gen.Json.scannerMax ≠ "default" := by decide

/-! ### segmentation_free -/

/-- For EVERY segmentation of the input into reads (any number of reads, of any sizes, empty reads
included) the comment reader emits the same bytes and ends in the same state as for one single read. -/
theorem segmentation_free (chunks : List Bytes) :
    stripChunks jsonPlus chunks = strip jsonPlus chunks.flatten := by
  unfold stripChunks strip
  have := scan_eq (2 * chunks.flatten.length + chunks.length + 2) [] chunks (by simp)
  simpa using this

/-- Two segmentations of the same input are indistinguishable. -/
theorem segmentation_free_pair (c₁ c₂ : List Bytes) (h : c₁.flatten = c₂.flatten) :
    stripChunks jsonPlus c₁ = stripChunks jsonPlus c₂ := by
  rw [segmentation_free, segmentation_free, h]

/-- The engine: a token delivered before EOF is delivered unchanged whatever follows
(prefix stability of `firstMatch` and of the end search: a longer prefix never reveals an earlier match). -/
theorem split_prefix_stable (d x : Bytes) (adv : Nat) (tok : Bytes) (atEOF : Bool)
    (h : split jsonPlus d false = .token adv tok) : split jsonPlus (d ++ x) atEOF = .token adv tok :=
  (split_stable h x atEOF).1

/-- The Scanner always makes progress: on no input is the model's fuel exhausted or a zero advance
returned (Go: no "too many empty tokens" panic, no endless loop), in one read or in any segmentation. -/
theorem never_stuck (chunks : List Bytes) :
    (strip jsonPlus chunks.flatten).2 ≠ .stuck ∧ (stripChunks jsonPlus chunks).2 ≠ .stuck := by
  have h : (strip jsonPlus chunks.flatten).2 ≠ .stuck := scanEOF_not_stuck _ _ (Nat.lt_succ_self _)
  exact ⟨h, by rw [segmentation_free]; exact h⟩

/-! ### strip_decorated -/

/-- For every token list and every decoration of it — comments `//…\n` and `/*…*/` in any number
between any two tokens, before the first and after the last, optionally a final `//…` running into EOF
— the reader emits exactly the concatenation of the tokens and ends cleanly. String literals may
contain escaped quotes, backslashes, comment markers and apostrophes. -/
theorem strip_decorated (ps : List Piece) (tail : Option Bytes)
    (hps : ∀ p ∈ ps, p.WF) (htail : TailWF tail) :
    strip jsonPlus (renderDoc ps tail) = (keptDoc ps, .ok) := by
  have := strip_doc_aux tail htail ps [] ((renderDoc ps tail).length + 1) plain_nil hps (by simp)
  simpa [strip] using this

/-- … and the same under every segmentation of the decorated text into reads. -/
theorem strip_decorated_chunked (ps : List Piece) (tail : Option Bytes) (chunks : List Bytes)
    (hps : ∀ p ∈ ps, p.WF) (htail : TailWF tail) (hc : chunks.flatten = renderDoc ps tail) :
    stripChunks jsonPlus chunks = (keptDoc ps, .ok) := by
  rw [segmentation_free, hc, strip_decorated ps tail hps htail]

/-- Only the tokens matter: decorations of the same token list all strip to the same bytes
("strip (decorate toks) = concat toks" with `toks = ps.filter (¬ isComment)`). -/
theorem kept_is_tokens (ps : List Piece) : keptDoc ps = keptDoc (ps.filter fun p => !p.isComment) := by
  induction ps with
  | nil => rfl
  | cons p ps ih =>
    cases p <;> simp [keptDoc, Piece.isComment, Piece.kept] at ih ⊢ <;> exact ih

theorem strip_decorated_tokens (toks ps : List Piece) (tail : Option Bytes)
    (hdec : ps.filter (fun p => !p.isComment) = toks)
    (hps : ∀ p ∈ ps, p.WF) (htail : TailWF tail) :
    strip jsonPlus (renderDoc ps tail) = (keptDoc toks, .ok) := by
  rw [strip_decorated ps tail hps htail, kept_is_tokens, hdec]

/-- The token grammar covers every RFC 8259 string literal: any sequence of unescaped bytes (not `"`,
not `\`) and backslash escapes is a well-formed `str` piece — `"\""`, `"\\"`, `"a//b"`, `"/*"`, `"it's"`,
`"\u0022"` included. -/
theorem json_strings_are_tokens (items : List StrItem) : (Piece.str (strItems items)).WF :=
  strBody_items items

/-! ### no_comment_identity -/

/-- A document without comments passes through byte for byte. -/
theorem no_comment_identity (ps : List Piece) (hps : ∀ p ∈ ps, p.WF) (hnc : ∀ p ∈ ps, p.isComment = false) :
    strip jsonPlus (renderDoc ps none) = (renderDoc ps none, .ok) := by
  have e : keptDoc ps = renderDoc ps none := by
    simp only [renderDoc, tailText, List.append_nil, keptDoc]
    congr 1
    apply List.map_congr_left
    intro p hp
    have := hnc p hp
    cases p <;> simp_all [Piece.kept, Piece.render, Piece.isComment]
  rw [strip_decorated ps none hps trivial, e]

/-! ### F13: why the unrepaired end search was wrong (kept as the regression witness) -/

/-- In `"x\""` the plain `bytes.Index` search ends the string at the escaped quote (offset 2 of the body
`x\"`), the repaired escape-aware search at the real closing quote (offset 3 = length of the body). -/
theorem old_search_witness :
    index [34] ([120, 92, 34] ++ [34]) = some 2 ∧ indexEsc [34] ([120, 92, 34] ++ [34]) = some 3 := by decide

/-! ### consumer_free: the buffer between the Scanner and the consumer (`commentReader.Read`) -/

/-- For EVERY sequence of `Read` calls — slices of any lengths, zero included, in any order of sizes — on the comment
reader over ANY input: the bytes handed out so far followed by what the reader still owes are exactly what `strip`
emits (nothing lost, duplicated or reordered between two calls). -/
theorem consumer_free (input : Bytes) (sizes : List Nat) :
    outBytes ((Rd.ofInput jsonPlus input).reads sizes).2 ++ ((Rd.ofInput jsonPlus input).reads sizes).1.remaining =
      (strip jsonPlus input).1 := by
  rw [reads_remaining, (ofInput_remaining jsonPlus input).1]

/-- ... and a sequence that runs into `io.EOF` (or the scanner's error) has handed out all of it. -/
theorem consumer_complete (input : Bytes) (sizes : List Nat) (o : ROut) (ho : o = .eof ∨ o = .err)
    (h : ((Rd.ofInput jsonPlus input).reads sizes).2.getLast? = some o) :
    outBytes ((Rd.ofInput jsonPlus input).reads sizes).2 = (strip jsonPlus input).1 := by
  rw [reads_complete _ _ o ho h, (ofInput_remaining jsonPlus input).1]

/-- EOF / the error are reported only when nothing is owed; a Read with a non-empty slice makes progress otherwise -/
theorem consumer_progress (r : Rd) (n : Nat) :
    ((r.read n).2 = .eof ∨ (r.read n).2 = .err → r.remaining = []) ∧
    (0 < n → r.remaining ≠ [] → ∃ b, (r.read n).2 = .data b ∧ b ≠ []) :=
  ⟨read_end_nothing_left r n, read_progress r n⟩

/-- the variant of a seeded change (a `WriteTo` that drains the Scanner and forgets the reader's buffer) loses the rest of
the token a short Read has cut: `[1]` read one byte at a time, then "the rest". -/
theorem consumer_forgetful_variant_breaks :
    let r := ((Rd.ofInput jsonPlus [91, 49, 93]).read 1).1
    r.remaining = [49, 93] ∧ r.writeToForgetful = [] := by decide +kernel

/-! ### non-vacuity: the hypotheses are inhabited by documents with every feature the property names -/

instance : DecidablePred Piece.WF := fun p => by
  cases p <;> simp only [Piece.WF, Plain] <;> exact inferInstance

/-- `{"a\"":"x\\\"//y/*'"}` decorated: `/*"q'*/{"a\"": //c"\n "x\\\"//y/*'" /**/ }` + tail `// t'"` -/
instance : DecidablePred TailWF := fun t => by
  cases t <;> simp only [TailWF] <;> exact inferInstance

def exDoc : List Piece :=
  [.block [34, 113, 39], .plain [123], .str [97, 92, 34], .plain [58, 32], .line [99, 34],
   .plain [32], .str [120, 92, 92, 92, 34, 47, 47, 121, 47, 42, 39], .plain [32], .block [], .plain [32, 125, 32]]
def exTail : Option Bytes := some [32, 116, 39, 34]

example : (∀ p ∈ exDoc, p.WF) ∧ TailWF exTail := by decide
example : strip jsonPlus (renderDoc exDoc exTail) = (keptDoc exDoc, .ok) := by decide +kernel
example : (renderDoc exDoc exTail).length = 48 ∧ (keptDoc exDoc).length = 26 := by decide
-- one-byte reads of the F13 input `{"a":"x\""}` give the document back
example : stripChunks jsonPlus ([123, 34, 97, 34, 58, 34, 120, 92, 34, 34, 125].map fun b => [b]) =
    ([123, 34, 97, 34, 58, 34, 120, 92, 34, 34, 125], .ok) := by decide +kernel
-- consumer side: `[1,/*c*/2]` read with slices of 1, 0, 2, 100 bytes and once more
example : ((Rd.ofInput jsonPlus [91, 49, 44, 47, 42, 99, 42, 47, 50, 93]).reads [1, 0, 2, 100, 5]).2 =
    [.data [91], .data [], .data [49, 44], .data [50, 93], .eof] := by decide +kernel
-- error branch (not part of the property's domain): an unterminated block comment is refused
example : strip jsonPlus [49, 47, 42, 50] = ([], .err) := by decide +kernel
-- no_comment_identity hypothesis
example : ∀ p ∈ [Piece.plain [91], .str [92, 34, 47, 47], .plain [93]], p.WF ∧ p.isComment = false := by decide

end Oryx.Props.C17
