/-
  C06 — the AMF0 wire format is the one defined by the AMF0 specification.
  Only property statements, their proofs from the helper lemmas (Oryx/Proofs/Amf0*.lean), and
  non-vacuity examples. Library model: Oryx/Model/Amf0.lean; independent specification codec:
  Oryx/Spec/Amf0.lean (written from amf0_spec_121207 §2.2–2.12); value relation: Oryx/Spec/Amf0Rel.lean.

  Result: the property holds for every value whose strict arrays are empty (`C06_partial`) and for
  all 256 marker bytes (`markers_total`, `unsupported_never_skipped`); it is FALSE for strict arrays
  with elements (`strict_array_witness`, `C06_statement_false`): the library uses a keyed layout,
  pinned by the existing test TestAmf0StrictArray_UnmarshalBinary — open known finding K1.
-/
import Oryx.Proofs.Amf0Markers
namespace Oryx.Props.C06
open Oryx Oryx.Res Oryx.Amf0 Oryx.Spec.Amf0

/-- The whole property: library bytes of any supported value decode, under the independent
specification decoder, to the same value; and any specification-conformant encoding of a supported
value is decoded by the library to that value. -/
def C06_statement : Prop :=
  (∀ v : Val, v.WF → ∃ s, toSpec v = some s ∧ Spec.Amf0.decode (encode v) = some (s, [])) ∧
  (∀ s : SVal, swf s = true → ∃ v, Amf0.decode (enc s) = ok (v, []) ∧ toSpec v = some s)

/-- Library → specification, for every well-formed value without strict-array elements: the bytes the
library produces ARE the specification's bytes for that value, and the independent decoder reads the
same value back (leaving exactly the trailing bytes). -/
theorem lib_to_spec (v : Val) (h : v.WF) (hc : compat v = true) (rest : Bytes) :
    ∃ s, toSpec v = some s ∧ enc s = encode v ∧ Spec.Amf0.decode (encode v ++ rest) = some (s, rest) := by
  obtain ⟨s, h1, h2, _, h4⟩ := lib_is_spec v h hc
  exact ⟨s, h1, h4, by rw [← h4]; exact spec_roundtrip s h2 rest⟩

/-- Specification → library, for every specification value without strict-array elements (any
associative-count on ECMA arrays): the library decodes the specification's bytes to that value, consuming
exactly them, and re-marshals to the same bytes. -/
theorem spec_to_lib (s : SVal) (h : swf s = true) (hc : scompat s = true) (rest : Bytes) :
    Amf0.decode (enc s ++ rest) = ok (ofSpec s, rest) ∧ toSpec (ofSpec s) = some s ∧
    encode (ofSpec s) = enc s := by
  obtain ⟨h1, _, h3, h4⟩ := spec_is_lib s h hc
  exact ⟨by rw [← h4]; exact rtVal _ rest _ h1 (Nat.lt_succ_self _), h3, h4⟩

/-- C06 restricted to values without strict-array elements (`compat` / `scompat`; empty strict arrays
are included). Missing for the full statement: strict arrays with ≥ 1 element — see
`strict_array_witness` (finding K1). -/
theorem C06_partial :
    (∀ v : Val, v.WF → compat v = true →
      ∃ s, toSpec v = some s ∧ Spec.Amf0.decode (encode v) = some (s, [])) ∧
    (∀ s : SVal, swf s = true → scompat s = true →
      ∃ v, Amf0.decode (enc s) = ok (v, []) ∧ toSpec v = some s) := by
  constructor
  · intro v h hc
    obtain ⟨s, h1, _, h3⟩ := lib_to_spec v h hc []
    exact ⟨s, h1, by simpa using h3⟩
  · intro s h hc
    obtain ⟨h1, h2, _⟩ := spec_to_lib s h hc []
    exact ⟨ofSpec s, by simpa using h1, h2⟩

/-! ### K1: the strict array -/

/-- The specification value `[1.0]` (§2.12: count, then the values). -/
def specOne : SVal := .strictArray (.cons (.number 0x3FF0000000000000) .nil)

/-- The specification encoding of `[1.0]` is `0A 00000001 00 3FF0000000000000`; the library does not
decode it (it reads `00 3F` as a key length), and whatever key the library's one-element strict array
has, its bytes are not the specification's; nor does the specification decoder read the library's bytes
of a keyed one-element array back as `[1.0]`. -/
theorem strict_array_witness :
    enc specOne = [0x0A, 0, 0, 0, 1, 0x00, 0x3F, 0xF0, 0, 0, 0, 0, 0, 0] ∧
    Amf0.decode (enc specOne) = .err .generic ∧
    (∀ k : Bytes, encode (.strict (.cons k (.num 0x3FF0000000000000) .nil)) ≠ enc specOne) ∧
    Spec.Amf0.decode (encode (.strict (.cons [] (.num 0x3FF0000000000000) .nil))) ≠ some (specOne, []) := by
  refine ⟨by rfl, by rfl, ?_, ?_⟩
  · intro k hk
    have := congrArg List.length hk
    rw [encode_length] at this
    simp [size, sizeP, utf8Size, specOne, enc, encVals, SVals.length] at this
    omega
  · -- the specification decoder reads `00 00 00 3F F0 00 00 00 00` as a number and leaves `00 00`
    have : Spec.Amf0.decode (encode (.strict (.cons [] (.num 0x3FF0000000000000) .nil))) =
        some (.strictArray (.cons (.number 0x00003FF000000000) .nil), [0, 0]) := by rfl
    rw [this]
    intro h
    injection h with h
    injection h with _ h
    cases h

/-- The full property is false for the code as it is (and must stay, the layout being pinned by an
existing test): `[1.0]` is a supported, well-formed specification value that the library rejects. -/
theorem C06_statement_false : ¬ C06_statement := by
  intro ⟨_, h2⟩
  obtain ⟨v, hv, _⟩ := h2 specOne (by rfl)
  have : Amf0.decode (enc specOne) = .err .generic := strict_array_witness.2.1
  rw [this] at hv
  cases hv

/-! ### all 256 marker bytes -/

/-- §2.1: the markers of the supported types (number, boolean, string, object, null, undefined,
ECMA array, strict array). Everything else — movieclip 4, reference 7, object-end 9 on its own,
date 11, long string 12, unsupported 13, recordset 14, XML 15, typed object 16, AVM+ 17, 18…255 — is not. -/
def supported (m : UInt8) : Bool :=
  m = 0x00 || m = 0x01 || m = 0x02 || m = 0x03 || m = 0x05 || m = 0x06 || m = 0x08 || m = 0x0A

/-- §2.1: the marker of each type. -/
def specMarker : Val → UInt8
  | .num _ => 0x00
  | .bool _ => 0x01
  | .str _ => 0x02
  | .obj _ => 0x03
  | .null => 0x05
  | .undef => 0x06
  | .ecma _ _ => 0x08
  | .eof => 0x09
  | .strict _ => 0x0A

def armMarker : Gen.Amf0.DiscoveryResult → Option UInt8
  | .NewNumber => some 0x00
  | .NewBoolean => some 0x01
  | .NewString => some 0x02
  | .NewObject => some 0x03
  | .NewNull => some 0x05
  | .NewUndefined => some 0x06
  | .NewEcmaArray => some 0x08
  | .objectEOF => some 0x09
  | .NewStrictArray => some 0x0A
  | .rejected => none

/-- The extracted `Discovery` table against the specification's marker table, all 256 bytes: a marker
is dispatched to the type the specification assigns to it, or rejected; the unsupported ones are
exactly the rejected ones plus object-end. -/
theorem discovery_table_all256 : ∀ m : UInt8,
    (armMarker (Gen.Amf0.discovery m.toNat) = some m ∨ Gen.Amf0.discovery m.toNat = .rejected) ∧
    (supported m = false → m = 9 ∨ Gen.Amf0.discovery m.toNat = .rejected) := by
  apply forall_u8; decide +kernel

/-- All 256 marker bytes, any continuation: an unsupported marker is an error; and whenever a value
is decoded, its marker is supported and the value is of the type the specification assigns to it. -/
theorem markers_total (m : UInt8) (tl : Bytes) :
    (supported m = false → Amf0.decode (m :: tl) = .err .generic) ∧
    (∀ v r, Amf0.decode (m :: tl) = ok (v, r) → supported m = true ∧ specMarker v = m) := by
  obtain ⟨h1, h2⟩ := discovery_table_all256 m
  have hbad : supported m = false → Amf0.decode (m :: tl) = .err .generic := fun hs =>
    decodeVal_bad_marker (h2 hs) tl _
  refine ⟨hbad, ?_⟩
  intro v r h
  have hk := decodeVal_kind h
  have hm : specMarker v = m := by
    rcases h1 with h1 | h1
    · rw [← hk] at h1
      cases v <;> simpa [kindOf, armMarker, specMarker] using h1
    · rw [h1] at hk
      cases v <;> simp [kindOf] at hk
  refine ⟨?_, hm⟩
  cases hs : supported m with
  | true => rfl
  | false => rw [hbad hs] at h; cases h

/-- Never silently skipped: an unsupported marker (or an object-end marker after a non-empty key) in
the value position of a property fails the whole object, ECMA array or strict array. -/
theorem unsupported_never_skipped (m : UInt8) (hm : supported m = false) (k : Bytes)
    (hk : k.length ≤ 65535) (hk9 : m = 9 → k ≠ []) (c : Nat) (tl : Bytes) :
    Amf0.decode (0x03 :: (utf8Enc k ++ m :: tl)) = .err .generic ∧
    Amf0.decode (0x08 :: (be 4 c ++ (utf8Enc k ++ m :: tl))) = .err .generic ∧
    (0 < c → c < 4294967296 → Amf0.decode (0x0A :: (be 4 c ++ (utf8Enc k ++ m :: tl))) = .err .generic) := by
  have hb := (discovery_table_all256 m).2 hm
  have hne : ¬ (k.length = 0 ∧ Gen.Amf0.discovery m.toNat = .objectEOF) := by
    intro ⟨h0, he⟩
    rcases hb with h9 | hr
    · exact hk9 h9 (List.eq_nil_of_length_eq_zero h0)
    · rw [hr] at he; cases he
  have hlen : ∀ pre : Bytes, ∃ n, (pre ++ (utf8Enc k ++ m :: tl)).length = n + 1 :=
    fun pre => ⟨pre.length + (utf8Enc k).length + tl.length, by simp; omega⟩
  have h4 : (be 4 c).length = 4 := be_length 4 c
  refine ⟨?_, ?_, ?_⟩
  · obtain ⟨n, hn⟩ := hlen []
    simp only [List.nil_append] at hn
    simp only [Amf0.decode, List.length_cons, hn, decodeVal, UInt8.reduceToNat, disc3, mObject_eq]
    rw [decodeProps_child_err hk hne (decodeVal_bad_marker hb tl n)]
    simp
  · obtain ⟨n, hn⟩ := hlen (be 4 c)
    have h5 : ¬ (n + 1 + 1 < 5) := by
      simp only [List.length_append, h4, utf8Enc_length, utf8Size, List.length_cons] at hn; omega
    simp only [Amf0.decode, List.length_cons, hn, decodeVal, UInt8.reduceToNat, disc8, mEcmaArray_eq, h5,
      if_false]
    rw [drop_append_len _ _ h4, decodeProps_child_err hk hne (decodeVal_bad_marker hb tl n)]
    simp
  · intro hc0 hc
    obtain ⟨n, hn⟩ := hlen (be 4 c)
    have h5 : ¬ (n + 1 + 1 < 5) := by
      simp only [List.length_append, h4, utf8Enc_length, utf8Size, List.length_cons] at hn; omega
    have hc1 : ¬ (c = 0) := by omega
    obtain ⟨c', rfl⟩ : ∃ c', c = c' + 1 := ⟨c - 1, by omega⟩
    simp only [Amf0.decode, List.length_cons, hn, decodeVal, UInt8.reduceToNat, disc10, mStrictArray_eq, h5,
      if_false]
    rw [take_append_len _ _ h4, drop_append_len _ _ h4, ofBE_be_of_lt (by omega)]
    simp only [hc1, if_false, decodeElems, utf8Dec_enc hk, Res.bind_ok, decodeVal_bad_marker hb tl n, Res.bind_err]
    simp

/-! ### non-vacuity: concrete inhabitants of the hypotheses -/

/-- FFmpeg-style metadata: an ECMA array with an approximate count holding numbers, a boolean, a
string, a nested object and an EMPTY strict array. -/
def exMeta : SVal :=
  .ecmaArray 13 (.cons [100, 117, 114] (.number 0x4024000000000000)
    (.cons [115, 116, 101, 114, 101, 111] (.boolean true)
    (.cons [101, 110, 99] (.string [76, 97, 118, 102])
    (.cons [] (.object (.cons [107] .null .nil))
    (.cons [99, 117, 101] (.strictArray .nil) .nil)))))

example : swf exMeta = true ∧ scompat exMeta = true := by decide
example : (ofSpec exMeta).WF ∧ compat (ofSpec exMeta) = true := by decide
example : Amf0.decode (enc exMeta ++ [7]) = ok (ofSpec exMeta, [7]) := (spec_to_lib exMeta (by decide) (by decide) [7]).1
example : swf specOne = true ∧ scompat specOne = false := by decide
example : supported 4 = false ∧ ([97] : Bytes).length ≤ 65535 ∧ ((4 : UInt8) = 9 → ([97] : Bytes) ≠ []) := by decide
example : supported 9 = false ∧ ((9 : UInt8) = 9 → ([97] : Bytes) ≠ []) := by decide
example : ∃ v r, Amf0.decode (0x0A :: [0, 0, 0, 0, 5]) = ok (v, r) ∧ specMarker v = 0x0A := ⟨_, _, rfl, rfl⟩
example : (0 : Nat) < 1 ∧ (1 : Nat) < 4294967296 := by decide

end Oryx.Props.C06
