/-
  C14 — the websocket reader enforces the RFC 6455 framing rules and the read limit.
  Only property statements, their proofs from the helper lemmas of `Oryx.Proofs.WsRead`, and
  non-vacuity examples. Model: `Oryx.WsRead` (conn.go read side, repaired tree); spec: `Oryx.Spec.Ws`.
-/
import Oryx.Proofs.WsRead
namespace Oryx.Props.C14
open Oryx Oryx.WsRead Oryx.Gen.Websocket
open Oryx.Spec.Ws (Frame Role serialise serialiseAll recv End)

/-- gate: the reader model starts on the byte string `serialiseAll fs` — ALL the bytes the peer sent after the opening
handshake. For a client obtained from `Dial` that is so because the handshake response is read through the buffered
reader the session keeps using: whatever the server sent right behind its 101 response is still in that reader
(regenerated from client.go on every run; the driver reads through dialled connections whose first transport read
carries the response and the frames together). -/
example : dialReadsThroughSessionReader = true := by decide

/-- The role of the endpoint that runs the reader. -/
abbrev role (isServer : Bool) : Role := roleOf isServer

/-- **C14_refines.** For EVERY sequence of well-formed frames a peer may send (any opcodes, FIN/RSV
bits, mask bits and keys, length forms — non-minimal ones included — and announced lengths up to
2^64−1), both roles, deflate negotiated or not, any read limit: reading the wire image of the
sequence with `ReadMessage` until it fails
* delivers exactly the messages the conformant receiver `Spec.Ws.recv` delivers up to its first
  violation (type, compressed flag, payload), and writes back exactly its replies (a pong with the
  same payload for every ping, the close echo, Close 1002 / 1009);
* ends with the error that corresponds to how the spec receiver stops — protocol error for a
  violation (then a Close 1002 frame is among the replies), the limit error above the cap (the
  configured limit, or 2^63−1), the peer's close code and reason, unexpected EOF when the frames
  simply end;
* and that error is sticky: every later `ReadMessage` returns it, reads nothing, writes nothing. -/
theorem C14_refines (isServer deflate : Bool) (L : Int) (hL0 : 0 ≤ L) (hL1 : L < 2 ^ 63)
    (fs : List Frame) (hwf : ∀ f ∈ fs, f.WF) :
    ∃ t, session (init isServer deflate L (serialiseAll fs)) = some t ∧
      t.msgs = (recv (role isServer) deflate (capOf L) fs).msgs.map conv ∧
      t.final.replies = (recv (role isServer) deflate (capOf L) fs).replies ∧
      EndErr (recv (role isServer) deflate (capOf L) fs).fin t.err ∧
      ((recv (role isServer) deflate (capOf L) fs).fin = .fail 1002 →
          t.err = .proto ∧ (8, be 2 1002) ∈ t.final.replies) ∧
      readMessage t.final = .fail t.err { t.final with readLength := 0 } := by
  have hb : Bnd (init isServer deflate L (serialiseAll fs)) :=
    ⟨rfl, rfl, rfl, by show (0 : Int) ≤ 0; decide, by show (0 : Int) < 2 ^ 63; decide, hL0, hL1⟩
  obtain ⟨t, t1, t2, t3, t4, t5⟩ := sessionLoop_frames fs.length fs (Nat.le_refl _) hwf
    (init isServer deflate L (serialiseAll fs)) _ [] hb rfl rfl (Nat.le_refl _)
  have e0 : specRecv (init isServer deflate L (serialiseAll fs)) none fs = recv (role isServer) deflate (capOf L) fs := rfl
  have e1 : (init isServer deflate L (serialiseAll fs)).replies = [] := rfl
  rw [e0] at t2 t3 t4
  rw [e1, List.nil_append] at t3
  rw [List.nil_append] at t2
  refine ⟨t, t1, t2, t3, t4, ?_, readMessage_sticky _ _ t5⟩
  intro hf
  have hrep := recvFrom_fail_reply (roleOf isServer) deflate (capOf L) fs none hf
  refine ⟨?_, ?_⟩
  · have h4 : EndErr (recv (role isServer) deflate (capOf L) fs).fin t.err := t4
    rw [hf] at h4
    rcases h4 with ⟨_, h⟩ | ⟨h, _⟩
    · exact h
    · cases h
  · rw [t3]; exact hrep

/-- **ping_pong.** A ping that violates nothing is consumed and answered with a pong carrying the same
payload (unmasked application data), whatever the state of an open fragmented message; a pong is
consumed silently. -/
theorem ping_pong (s : RState) (f : Frame) (rest : Bytes) (hwf : f.WF) (hb : Bnd s)
    (hin : s.input = serialise f ++ rest) (hv : violOf s f = false) (hop : f.opcode = 9 ∨ f.opcode = 10) :
    ∃ s', advanceFrame s = .ok f.opcode s' ∧ s'.input = rest ∧
      s'.replies = (if f.opcode = 9 then s.replies ++ [(10, f.payload)] else s.replies) ∧
      s'.readFinal = s.readFinal ∧ s'.readLength = s.readLength := by
  obtain ⟨s', h1, h2, h3, _, _, h6, h7⟩ := step_pingpong s f rest hwf hb hin hv hop
  exact ⟨s', h1, h2, h3, h6, h7⟩

/-- **len64_top_bit.** A frame whose 64-bit length field has the most significant bit set is never
accepted as a frame: for every state (no frame pending), every first header byte, every mask bit,
every 8 length octets with value ≥ 2^63 and every continuation of the stream, `advanceFrame` does
not return a frame. (RFC 6455 §5.2; F14.) -/
theorem len64_top_bit (s : RState) (b0 b1 : UInt8) (ext rest : Bytes)
    (hrem : s.readRemaining ≤ 0) (hin : s.input = b0 :: b1 :: (ext ++ rest))
    (h7 : (decodeHdr b0 b1).len7 = 127) (hext : ext.length = 8) (htop : 2 ^ 63 ≤ ofBE ext) :
    ∀ ft s', advanceFrame s ≠ .ok ft s' :=
  advanceFrame_top_bit s b0 b1 ext rest hrem hin h7 hext htop

/-- **read_limit.** With a read limit `L > 0`, for EVERY byte stream the peer may send — every framing
of a message, every 7/16/64-bit length, any interleaving of control frames, any prior state of the
connection — `ReadMessage` never hands out more than `L` payload bytes: neither as a delivered
message (`e = none`) nor as the partial data returned next to an error. The proof carries the
invariant `0 ≤ readRemaining ∧ handedOut + readRemaining ≤ readLength ≤ L` with `readLength`
never wrapping (`int64` additions are modelled with explicit wrap). -/
theorem read_limit (s s' : RState) (m : Msg) (e : Option RErr) (hL : 0 < s.readLimit)
    (h : readMessage s = .ok (m, e) s') : (m.data.length : Int) ≤ s.readLimit :=
  readMessage_limit s s' m e hL h

/-- … and over a whole session (repeated `ReadMessage` until it fails): every delivered message and
the partial data of the failing call respect the limit. -/
theorem read_limit_session (isServer deflate : Bool) (L : Int) (hL : 0 < L) (input : Bytes) (t : Trace)
    (h : session (init isServer deflate L input) = some t) :
    (∀ m ∈ t.msgs, (m.data.length : Int) ≤ L) ∧ (t.partialLen : Int) ≤ L :=
  sessionLoop_limit L hL _ _ [] t rfl (by simp) h

/-- **sticky.** Once a read has failed, every later `ReadMessage` returns the same error, consumes
nothing and writes nothing. -/
theorem sticky (s : RState) (e : RErr) (h : s.readErr = some e) :
    readMessage s = .fail e { s with readLength := 0 } :=
  readMessage_sticky s e h

/-- **cut_never_short.** For EVERY byte stream — in particular one cut at any offset inside a frame or
between the fragments of a message — (1) reading ends in an error (a `Trace` always carries one; the
session loop always terminates), and (2) from a state with no message in progress, `ReadMessage`
delivers a message only when every byte announced by every frame of it has been read
(`data.length = readLength`, the never-wrapped sum of the announced frame lengths) and the last
frame was final, leaving the connection between messages again. A stream that ends inside a frame
cannot supply the announced bytes, one that ends inside a fragmented message has no final frame:
neither can end in a short message. -/
theorem cut_never_short :
    (∀ s : RState, ∃ t, session s = some t) ∧
    (∀ (s s' : RState) (m : Msg), s.readFinal = true → readMessage s = .ok (m, none) s' →
      (m.data.length : Int) = s'.readLength ∧ s'.readFinal = true ∧ s'.readRemaining = 0 ∧ s'.readErr = none) :=
  ⟨session_total, fun s s' m hrf h => readMessage_complete s s' m hrf h⟩

/-- **no_panic.** For all byte strings and all states the frame reader does not panic, `ReadMessage`
does not panic, the loops' fuel is never exhausted, and every finite stream ends the session in an
error (`Trace` always carries one) — so a cut stream can never end in a silently short message. -/
theorem no_panic (s : RState) :
    advanceFrame s ≠ .panic ∧ nextReader s ≠ .panic ∧ readMessage s ≠ .panic ∧ ∃ t, session s = some t :=
  ⟨advanceFrame_ne_panic s, nextReader_ne_panic s, readMessage_ne_panic s, session_total s⟩

/-! ### regression witnesses (F14 and its overflow sibling), evaluated on the model of the repaired code -/

/-- F14: text frame announcing 2^63 (non-final), then a final 11-byte continuation, limit 10. -/
def f14Stream : Bytes :=
  [0x01, 0x7f, 0x80, 0, 0, 0, 0, 0, 0, 0, 0x80, 11, 1, 2, 3, 4, 5, 6, 7, 8, 9, 10, 11]

/-- F14b: 10-byte first fragment, then a continuation announcing 2^63−1 (the int64 sum wraps). -/
def f14bStream : Bytes :=
  [0x01, 10, 1, 2, 3, 4, 5, 6, 7, 8, 9, 10, 0x80, 0x7f, 0x7f, 0xff, 0xff, 0xff, 0xff, 0xff, 0xff, 0xff, 1, 2, 3]

example : (session (init false false 10 f14Stream)).map (fun t => (t.msgs.length, t.err, t.final.replies)) =
    some (0, .proto, [(8, [0x03, 0xea])]) := by decide +kernel
example : (session (init false false 10 f14bStream)).map (fun t => (t.msgs.length, t.err, t.final.replies)) =
    some (0, .limit, [(8, [0x03, 0xf1])]) := by decide +kernel
example : (session (init false false 10 f14bStream)).map (fun t => t.partialLen) = some 10 := by decide +kernel

/-! ### non-vacuity -/

-- cut_never_short on a concrete cut: a 3-byte text frame cut after 2 payload bytes, and a fragmented
-- message cut between its fragments: an error, no message
example : (session (init false false 0 [0x81, 3, 97, 98])).map (fun t => (t.msgs, t.err, t.partialLen)) =
    some ([], .ueof, 2) := by decide +kernel
example : (session (init false false 0 [0x01, 2, 97, 98])).map (fun t => (t.msgs, t.err, t.partialLen)) =
    some ([], .ueof, 2) := by decide +kernel

-- a fragmented text message with a ping in the middle, then a frame with a reserved opcode: well-formed
-- frames; the spec receiver delivers "abc", answers the ping, fails with 1002 — and so does the model.
def exFrames : List Frame :=
  [ { fin := false, rsv1 := false, rsv2 := false, rsv3 := false, opcode := 1, masked := false, key := [],
      lenForm := 0, len := 2, payload := [97, 98] },
    { fin := true, rsv1 := false, rsv2 := false, rsv3 := false, opcode := 9, masked := false, key := [],
      lenForm := 0, len := 1, payload := [7] },
    { fin := true, rsv1 := false, rsv2 := false, rsv3 := false, opcode := 0, masked := false, key := [],
      lenForm := 1, len := 1, payload := [99] },
    { fin := true, rsv1 := false, rsv2 := false, rsv3 := false, opcode := 3, masked := false, key := [],
      lenForm := 0, len := 0, payload := [] } ]

example : ∀ f ∈ exFrames, f.WF := by decide
example : recv (role false) false (capOf 0) exFrames =
    { msgs := [{ ty := 1, compressed := false, data := [97, 98, 99] }],
      replies := [(10, [7]), (8, [0x03, 0xea])], fin := .fail 1002 } := by decide +kernel
example : (session (init false false 0 (serialiseAll exFrames))).map (fun t => (t.msgs, t.final.replies, t.err)) =
    some ([{ ty := 1, compressed := false, data := [97, 98, 99] }], [(10, [7]), (8, [0x03, 0xea])], .proto) := by
  decide +kernel

-- a state and stream satisfying the hypotheses of `len64_top_bit`
example : (decodeHdr 0x01 0x7f).len7 = 127 := by decide
example : (2 : Nat) ^ 63 ≤ ofBE [0x80, 0, 0, 0, 0, 0, 0, 0] := by decide
-- `read_limit` is not vacuous: a 3-byte message is delivered under limit 3, refused under limit 2
example : (session (init false false 3 [0x81, 3, 97, 98, 99])).map (fun t => (t.msgs, t.err)) =
    some ([{ ty := 1, compressed := false, data := [97, 98, 99] }], .ueof) := by decide +kernel
example : (session (init false false 2 [0x81, 3, 97, 98, 99])).map (fun t => (t.msgs, t.err)) =
    some ([], .limit) := by decide +kernel

end Oryx.Props.C14
