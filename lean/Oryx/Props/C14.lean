/-
  C14 — the websocket reader enforces the RFC 6455 framing rules and the read limit.
  Only property statements, their proofs from the helper lemmas of `Oryx.Proofs.WsRead`, and
  non-vacuity examples. Model: `Oryx.WsRead` (conn.go read side, repaired tree); spec: `Oryx.Spec.Ws`.
-/
import Oryx.Proofs.WsRead
namespace Oryx.Props.C14
open Oryx Oryx.WsRead Oryx.Gen.Websocket

/-- **len64_top_bit.** A frame whose 64-bit length field has the most significant bit set is never
accepted as a frame: for every state (no frame pending), every first header byte, every mask bit,
every 8 length octets with value ≥ 2^63 and every continuation of the stream, `advanceFrame` does
not return a frame. (RFC 6455 §5.2; F14.) -/
theorem len64_top_bit (s : RState) (b0 b1 : UInt8) (ext rest : Bytes)
    (hrem : s.readRemaining ≤ 0) (hin : s.input = b0 :: b1 :: (ext ++ rest))
    (h7 : (decodeHdr b0 b1).len7 = 127) (hext : ext.length = 8) (htop : 2 ^ 63 ≤ ofBE ext) :
    ∀ ft s', advanceFrame s ≠ .ok ft s' :=
  advanceFrame_top_bit s b0 b1 ext rest hrem hin h7 hext htop

/-- **read_limit.** With a read limit `L > 0`, for EVERY byte stream the peer may send — every framing
of a message, every 7/16/64-bit length, any interleaving of control frames, any prior state of the
connection — `ReadMessage` never hands out more than `L` payload bytes: neither as a delivered
message (`e = none`) nor as the partial data returned next to an error. The proof carries the
invariant `0 ≤ readRemaining ∧ handedOut + readRemaining ≤ readLength ≤ L` with `readLength`
never wrapping (`int64` additions are modelled with explicit wrap). -/
theorem read_limit (s s' : RState) (m : Msg) (e : Option RErr) (hL : 0 < s.readLimit)
    (h : readMessage s = .ok (m, e) s') : (m.data.length : Int) ≤ s.readLimit :=
  readMessage_limit s s' m e hL h

/-- … and over a whole session (repeated `ReadMessage` until it fails): every delivered message and
the partial data of the failing call respect the limit. -/
theorem read_limit_session (isServer deflate : Bool) (L : Int) (hL : 0 < L) (input : Bytes) (t : Trace)
    (h : session (init isServer deflate L input) = some t) :
    (∀ m ∈ t.msgs, (m.data.length : Int) ≤ L) ∧ (t.partialLen : Int) ≤ L :=
  sessionLoop_limit L hL _ _ [] t rfl (by simp) h

/-- **sticky.** Once a read has failed, every later `ReadMessage` returns the same error, consumes
nothing and writes nothing. -/
theorem sticky (s : RState) (e : RErr) (h : s.readErr = some e) :
    readMessage s = .fail e { s with readLength := 0 } :=
  readMessage_sticky s e h

/-- **no_panic.** For all byte strings and all states the frame reader does not panic, `ReadMessage`
does not panic, the loops' fuel is never exhausted, and every finite stream ends the session in an
error (`Trace` always carries one) — so a cut stream can never end in a silently short message. -/
theorem no_panic (s : RState) :
    advanceFrame s ≠ .panic ∧ nextReader s ≠ .panic ∧ readMessage s ≠ .panic ∧ ∃ t, session s = some t :=
  ⟨advanceFrame_ne_panic s, nextReader_ne_panic s, readMessage_ne_panic s, session_total s⟩

/-! ### regression witnesses (F14 and its overflow sibling), evaluated on the model of the repaired code -/

/-- F14: text frame announcing 2^63 (non-final), then a final 11-byte continuation, limit 10. -/
def f14Stream : Bytes :=
  [0x01, 0x7f, 0x80, 0, 0, 0, 0, 0, 0, 0, 0x80, 11, 1, 2, 3, 4, 5, 6, 7, 8, 9, 10, 11]

/-- F14b: 10-byte first fragment, then a continuation announcing 2^63−1 (the int64 sum wraps). -/
def f14bStream : Bytes :=
  [0x01, 10, 1, 2, 3, 4, 5, 6, 7, 8, 9, 10, 0x80, 0x7f, 0x7f, 0xff, 0xff, 0xff, 0xff, 0xff, 0xff, 0xff, 1, 2, 3]

example : (session (init false false 10 f14Stream)).map (fun t => (t.msgs.length, t.err, t.final.replies)) =
    some (0, .proto, [(8, [0x03, 0xea])]) := by decide +kernel
example : (session (init false false 10 f14bStream)).map (fun t => (t.msgs.length, t.err, t.final.replies)) =
    some (0, .limit, [(8, [0x03, 0xf1])]) := by decide +kernel
example : (session (init false false 10 f14bStream)).map (fun t => t.partialLen) = some 10 := by decide +kernel

/-! ### non-vacuity -/

-- a state and stream satisfying the hypotheses of `len64_top_bit`
example : (decodeHdr 0x01 0x7f).len7 = 127 := by decide
example : (2 : Nat) ^ 63 ≤ ofBE [0x80, 0, 0, 0, 0, 0, 0, 0] := by decide
-- `read_limit` is not vacuous: a 3-byte message is delivered under limit 3, refused under limit 2
example : (session (init false false 3 [0x81, 3, 97, 98, 99])).map (fun t => (t.msgs, t.err)) =
    some ([{ ty := 1, compressed := false, data := [97, 98, 99] }], .ueof) := by decide +kernel
example : (session (init false false 2 [0x81, 3, 97, 98, 99])).map (fun t => (t.msgs, t.err)) =
    some ([], .limit) := by decide +kernel

end Oryx.Props.C14
