/-
  C18 — connection ids are unique and log lines whole under concurrency.
  Partial by nature: data races and the wholeness of one `log.Logger.Output` are runtime facts
  (assumptions: the Go memory model for sync/atomic; `log.Logger` writes one line per call under
  its mutex). The theorems carry the logic: uniqueness over every interleaving of any number of
  goroutines for the extracted allocation discipline, and the exact text of every line.
-/
import Oryx.Proofs.Logger
namespace Oryx.Props.C18
open Oryx Oryx.Logger
open Oryx.Gen.Logger (CidAlloc)

/-! ### gates -/

/-- The repair of F16 is in place: `WithContext` increments the counter with a sync/atomic add (or
under a mutex) and nothing else touches it. With `plainRMW` (the code as it was) this fails. -/
example : Gen.Logger.cidAlloc = .atomicAdd := by decide
example : Gen.Logger.cidAlloc ≠ .plainRMW := by decide
example : Gen.Logger.aliasCopiesSourceCid = true ∧ Gen.Logger.aliasFallsBackToWithContext = true := by decide
example : Gen.Logger.cidInitial = 999 := by decide
/-- The repair of F20 is in place: a value that is not a context.Context reaches `format` itself. -/
example : Gen.Logger.fallbackPassesOriginalCtx = true := by decide
example : Gen.Logger.switchLevels =
    [("Info", "[info] ", false, 7), ("Trace", "[trace] ", true, 7), ("Warn", "[warn] ", true, 7),
     ("Error", "[error] ", true, 7)] := by decide

/-! ### ids -/

/-- Atomic disciplines: in every reachable state of every interleaving of any number of goroutines,
all ids handed out by `WithContext` are pairwise distinct, and every context made by `AliasContext`
from a source with an id carries exactly that id (and the source exists). -/
theorem ids_unique (m : CidAlloc) (hm : m ≠ .plainRMW) (s : St) (h : Reach m s) :
    s.ids.Nodup ∧ (∀ p ∈ s.aliases, p.2 = p.1 ∧ p.1 ∈ s.ids) :=
  let ⟨_, h2, h3⟩ := allocInv_reach hm h
  ⟨h2, h3⟩

/-- The same for the discipline the current source has (gate above). -/
theorem ids_unique_current (s : St) (h : Reach Gen.Logger.cidAlloc s) :
    s.ids.Nodup ∧ (∀ p ∈ s.aliases, p.2 = p.1 ∧ p.1 ∈ s.ids) :=
  ids_unique _ (by decide) s h

/-- Every schedule (list of actions of arbitrary goroutines) that runs from the initial state ends
in a state with pairwise distinct ids — the executable form the harness replays. -/
theorem ids_unique_run (m : CidAlloc) (hm : m ≠ .plainRMW) (ops : List Op) (s : St)
    (h : run m St.init ops = some s) : s.ids.Nodup :=
  (ids_unique m hm s (reach_of_run ops _ _ .init h)).1

/-- ids are handed out in increasing order starting after the initial value (what the sequential
trace comparison of the harness checks). -/
theorem ids_bounded (m : CidAlloc) (hm : m ≠ .plainRMW) (s : St) (h : Reach m s) :
    ∀ id ∈ s.ids, id ≤ s.counter :=
  (allocInv_reach hm h).1

/-- F16 (repaired; regression witness). With the unsynchronised read-modify-write the code had,
two goroutines obtain the same id: both load 999, both store 1000 and hand out 1000. -/
theorem ids_dup_witness :
    ∃ s, run .plainRMW St.init [.load 1, .load 2, .store 1, .store 2] = some s ∧
      s.issued = [(2, 1000), (1, 1000)] ∧ ¬ s.ids.Nodup := by
  refine ⟨_, rfl, by decide, by decide⟩

/-- … and that schedule is a reachable state of the plainRMW system. -/
theorem ids_dup_reachable : ∃ s, Reach .plainRMW s ∧ ¬ s.ids.Nodup := by
  obtain ⟨s, hr, _, hn⟩ := ids_dup_witness
  exact ⟨s, reach_of_run _ _ _ .init hr, hn⟩

/-! ### lines -/

/-- The text the application supplies, as it reaches `log.Logger` when nothing is prepended. -/
def userText : Call → List Char
  | .println ops => sprintln ops
  | .printf msg => ensureNl msg

/-- Parsing the prefix of any line gives back exactly the id of the context that was passed:
`[pid][cid]` for an id-carrying object and for a context.Context with an id, just `[pid]` for a nil
context — for every level, both Println and Printf, every pid, every id (negative too), every
message. For the two kinds without a prefix (context without id, other values) the line carries no
prefix, provided the message itself does not start with `[`. -/
theorem prefix_parse (lvl : Level) (ts : List Char) (hts : ts.length = 26) (pid : Nat) (ctx : Ctx) (call : Call)
    (hmsg : ctx.expected pid = .none → (userText call).head? ≠ some '[') :
    parseCid (formatLine lvl ts pid ctx call) = ctx.expected pid := by
  have hstrip : stripLabel (lvl.label ++ (ts ++ ' ' :: body pid ctx call)) = some (ts ++ ' ' :: body pid ctx call) := by
    cases lvl <;>
      simp [stripLabel, Level.label, Gen.Logger.logInfoLabel, Gen.Logger.logTraceLabel,
        Gen.Logger.logWarnLabel, Gen.Logger.logErrorLabel, stripPrefix, List.findSome?]
  have hdrop : (ts ++ ' ' :: body pid ctx call).drop 26 = ' ' :: body pid ctx call := by
    rw [← hts]; exact List.drop_left
  simp only [parseCid, formatLine, List.append_assoc, hstrip, hdrop]
  cases ctx with
  | nil =>
    cases call with
    | println ops =>
      obtain ⟨c, rest, hs, hc⟩ := sprintln_cons ('[' :: (dec pid ++ [']', ' '])) ops
      simp only [body, printlnPrefix_nil, hs, Ctx.expected, List.cons_append, List.append_assoc, List.nil_append]
      exact parseBody_pid pid ' ' _ (by decide)
    | printf msg =>
      obtain ⟨rest, hr⟩ := ensureNl_prefix ('[' :: (dec pid ++ [']', ' '])) msg
      rw [show body pid _ (.printf msg) = ensureNl (printfPrefix pid _ ++ msg) from rfl, printfPrefix_nil, hr]
      simp only [Ctx.expected, List.cons_append, List.append_assoc, List.nil_append]
      exact parseBody_pid pid ' ' _ (by decide)
  | obj cid =>
    cases call with
    | println ops =>
      obtain ⟨c, rest, hs, hc⟩ := sprintln_cons ('[' :: (dec pid ++ ']' :: '[' :: (decInt cid ++ [']', ' ']))) ops
      simp only [body, printlnPrefix_obj, hs, Ctx.expected, List.cons_append, List.append_assoc, List.nil_append]
      exact parseBody_pidCid pid cid _
    | printf msg =>
      obtain ⟨rest, hr⟩ := ensureNl_prefix ('[' :: (dec pid ++ ']' :: '[' :: (decInt cid ++ [']', ' ']))) msg
      rw [show body pid _ (.printf msg) = ensureNl (printfPrefix pid _ ++ msg) from rfl, printfPrefix_obj, hr]
      simp only [Ctx.expected, List.cons_append, List.append_assoc, List.nil_append]
      exact parseBody_pidCid pid cid _
  | ctxWith cid =>
    cases call with
    | println ops =>
      obtain ⟨c, rest, hs, hc⟩ := sprintln_cons ('[' :: (dec pid ++ ']' :: '[' :: (decInt cid ++ [']']))) ops
      simp only [body, printlnPrefix_ctx, hs, Ctx.expected, List.cons_append, List.append_assoc, List.nil_append]
      exact parseBody_pidCid pid cid _
    | printf msg =>
      obtain ⟨rest, hr⟩ := ensureNl_prefix ('[' :: (dec pid ++ ']' :: '[' :: (decInt cid ++ [']', ' ']))) msg
      rw [show body pid _ (.printf msg) = ensureNl (printfPrefix pid _ ++ msg) from rfl, printfPrefix_ctx, hr]
      simp only [Ctx.expected, List.cons_append, List.append_assoc, List.nil_append]
      exact parseBody_pidCid pid cid _
  | ctxWithout =>
    have h := hmsg rfl
    cases call <;> simp only [body, printlnPrefix, printfPrefix, printlnPrefixSeen, printfPrefixSeen, Ctx.seen,
      Gen.Logger.fallbackPassesOriginalCtx, if_true, List.nil_append, Ctx.expected] <;>
      exact parseBody_none _ h
  | other =>
    have h := hmsg rfl
    cases call <;> simp only [body, printlnPrefix, printfPrefix, printlnPrefixSeen, printfPrefixSeen, Ctx.seen,
      Gen.Logger.fallbackPassesOriginalCtx, if_true, List.nil_append, Ctx.expected] <;>
      exact parseBody_none _ h

/-- F20 (repaired; regression witness). On go1.7+ `contextFormat` shadowed `ctx`, so `format` saw a
nil context for every value that is not a context.Context: the example of the package's own
documentation, `Trace.Println(cidContext(100), "The log text.")`, was logged with `[pid]` only —
the connection id of the object was lost. -/
theorem f20_witness_unrepaired :
    printlnPrefixSeen 4242 Ctx.nil = some "[4242] ".toList ∧
    parseBody "[4242]  The log text.\n".toList = .pid 4242 ∧
    (Ctx.obj 100).expected 4242 = .pidCid 4242 100 := by decide

/-- … with the repair the same call carries the object's id. -/
theorem f20_repaired :
    parseCid (formatLine .trace "2026/09/29 12:34:56.000123".toList 4242 (.obj 100) (.println ["The log text.".toList]))
      = .pidCid 4242 100 := by decide

/-- Every log call produces exactly one complete line: text without a newline followed by one
newline — for every level, context kind, Println/Printf and every message without a newline. -/
theorem one_line (lvl : Level) (ts : List Char) (hts : '\n' ∉ ts) (pid : Nat) (ctx : Ctx) (call : Call)
    (h : call.NoNl) :
    ∃ pre, formatLine lvl ts pid ctx call = pre ++ ['\n'] ∧ '\n' ∉ pre := by
  obtain ⟨pre, hp, hn⟩ := body_line pid ctx call h
  refine ⟨lvl.label ++ ts ++ ' ' :: pre, by simp [formatLine, hp], ?_⟩
  simp only [List.mem_append, List.mem_cons, not_or]
  exact ⟨⟨label_noNl lvl, hts⟩, by decide, hn⟩

/-- Under the `log.Logger` assumption (each call appends its whole line in one write), whatever the
interleaving of the calls of any number of goroutines, a reader that splits the writer's bytes at
newlines recovers exactly the lines of the calls, in the order the writes happened: no line is
interleaved with another. -/
theorem writer_sees_whole_lines (lines : List (List Char)) (h : ∀ l ∈ lines, '\n' ∉ l) :
    splitNl [] (lines.map (· ++ ['\n'])).flatten = lines :=
  splitNl_lines lines h

/-- Levels: after `Switch(w)` trace, warn and error lines go to `w`; info goes to a discard writer
(as the source has it), so an info call emits nothing to `w`. -/
theorem emit_levels (ts : List Char) (pid : Nat) (ctx : Ctx) (call : Call) :
    emit .info ts pid ctx call = [] ∧
    ∀ l, l ≠ .info → emit l ts pid ctx call = formatLine l ts pid ctx call := by
  refine ⟨by simp [emit, Level.toWriter, Level.var, Gen.Logger.switchLevels], ?_⟩
  intro l hl
  cases l <;> first | exact absurd rfl hl | simp [emit, Level.toWriter, Level.var, Gen.Logger.switchLevels]

/-! ### non-vacuity -/

def exTs : List Char := "2026/09/29 12:34:56.000123".toList

example : exTs.length = 26 ∧ '\n' ∉ exTs := by decide
example : (Call.println ["hello".toList, "world".toList]).NoNl := by
  intro o ho; simp at ho; rcases ho with rfl | rfl <;> decide
example : formatLine .trace exTs 4242 (.ctxWith 1000) (.println ["hello".toList, "world".toList])
    = "[trace] 2026/09/29 12:34:56.000123 [4242][1000] hello world\n".toList := by decide
example : formatLine .warn exTs 4242 .nil (.println ["hi".toList])
    = "[warn] 2026/09/29 12:34:56.000123 [4242]  hi\n".toList := by decide
example : formatLine .error exTs 4242 (.obj (-7)) (.printf "x=1".toList)
    = "[error] 2026/09/29 12:34:56.000123 [4242][-7] x=1\n".toList := by decide
example : formatLine .trace exTs 4242 .ctxWithout (.printf "plain".toList)
    = "[trace] 2026/09/29 12:34:56.000123 plain\n".toList := by decide
example : parseCid (formatLine .error exTs 4242 (.obj (-7)) (.printf "[x]".toList)) = .pidCid 4242 (-7) := by decide
example : ∃ s, run .atomicAdd St.init [.add 1, .add 2, .alias 3 1000, .add 1] = some s ∧ s.ids = [1002, 1001, 1000] ∧
    s.aliases = [(1000, 1000)] := ⟨_, rfl, by decide, by decide⟩
/-- the message hypothesis of `prefix_parse` for the prefix-less kinds is necessary -/
example : parseCid (formatLine .trace exTs 4242 .ctxWithout (.printf "[1][2] forged".toList)) = .pidCid 1 2 := by decide

end Oryx.Props.C18
