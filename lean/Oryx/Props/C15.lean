/-
  C15 — concurrent control frames never corrupt the websocket frame stream.
  Only property statements, their proofs from `Oryx.Proofs.WsConc`, the gating obligations on the
  structural facts extracted from the Go source, and non-vacuity examples.
  Model: `Oryx.WsConc` (small-step system: lock, latch, transport, any number of senders, a closer).
-/
import Oryx.Proofs.WsConc
namespace Oryx.Props.C15
open Oryx Oryx.WsConc

/-! ### gating obligations: the step shapes of the model are those of the current source -/

example : Gen.Websocket.allConnWritesUnderMu = true := by decide
example : Gen.Websocket.writeErrCheckedUnderMuBeforeWrite = true := by decide
example : Gen.Websocket.closeLatchSetBeforeRelease = true := by decide
example : Gen.Websocket.dataFrameBuffersWrittenInOneLockHold = true := by decide

theorem gen_facts : genFacts = Facts.allTrue :=
  genFacts_allTrue_of (by decide) (by decide) (by decide) (by decide)

/-- **C15_wire.** In every state reachable under ANY interleaving of any number of sender threads
(one of them the data writer, with one- and two-buffer frames), lock-acquisition timeouts, transport
failures after any prefix and the closer:
* the wire is the concatenation of WHOLE frames followed by at most one frame in progress;
* a non-empty frame in progress exists only while its writer holds `mu` and is inside its transport
  writes, or after a transport failure cut it (then the latch is `failed` and nothing follows);
  hence a control frame never lands inside a data frame;
* each sender's completed frames appear in the sender's program order, and are frames of its program. -/
theorem C15_wire (s0 s : Sys) (h0 : Init s0) (h : Reach genFacts s0 s) :
    s.wire = (s.done.map (·.2)).flatten ++ s.cur ∧
    (s.cur ≠ [] → (∃ t k, s.mu = some t ∧ (s.threads t).pc = .writing k) ∨ s.latch = some .failed) ∧
    (∀ t, (s.done.filter (fun p => p.1 == t)).map (·.2) = (s.threads t).okFrames ∧
          List.Sublist (s.threads t).okFrames ((s.threads t).prog.map Job.bytes)) := by
  rw [gen_facts] at h
  have inv := reach_inv (init_inv s0 h0) h
  refine ⟨inv.wire, ?_, fun t => ⟨inv.proj t, ?_⟩⟩
  · intro hc
    by_cases hw : ∃ t k, (s.threads t).pc = .writing k
    · obtain ⟨t, k, hk⟩ := hw
      exact Or.inl ⟨t, k, inv.holder t (by rw [hk]; intro h; cases h), hk⟩
    · rcases inv.curIdle (fun t k hk => hw ⟨t, k, hk⟩) with h | h
      · exact absurd h hc
      · exact Or.inr h
  · exact (inv.order t).trans (List.Sublist.map _ (List.take_sublist _ _))

/-- **after_close.** Once a Close frame has been completed on the wire the latch is set, and from then
on — under every continuation of the schedule — the wire never grows, no frame is ever completed
again, no thread enters its transport writes (each attempt takes the `latchErr` step, i.e. returns
the latched `ErrCloseSent`), and the latch stays. -/
theorem after_close (s0 s s' : Sys) (h0 : Init s0) (h : Reach genFacts s0 s) (hc : s.closeDone = true)
    (h' : Reach genFacts s s') :
    s.latch ≠ none ∧ s'.wire = s.wire ∧ s'.done = s.done ∧ s'.latch = s.latch ∧
    (∀ t, (s'.threads t).okFrames = (s.threads t).okFrames) ∧ (∀ t k, (s'.threads t).pc ≠ .writing k) := by
  rw [gen_facts] at h h'
  have inv := reach_inv (init_inv s0 h0) h
  have hl := inv.closeLatch hc
  obtain ⟨a, b, c, _, e, inv'⟩ := frozen_reach inv hl h'
  exact ⟨hl, a, b, c, e, inv'.frozen (by rw [c]; exact hl)⟩

/-- The same freeze after a transport failure (the `failed` latch): what is on the wire then is whole
frames plus the cut one, and it never changes again. -/
theorem after_failure (s0 s s' : Sys) (h0 : Init s0) (h : Reach genFacts s0 s) (hl : s.latch ≠ none)
    (h' : Reach genFacts s s') : s'.wire = s.wire ∧ s'.latch = s.latch := by
  rw [gen_facts] at h h'
  obtain ⟨a, _, c, _⟩ := frozen_reach (reach_inv (init_inv s0 h0) h) hl h'
  exact ⟨a, c⟩

/-- **accepts_sound.** The acceptance test the correspondence driver applies to every wire it observes
(`wsconc.accepts`) only accepts a concatenation of WHOLE frames, each one a frame of one of the senders,
optionally followed by a proper prefix of a frame whose write failed — the shape `C15_wire` gives. A
control frame inside a data frame is therefore rejected. -/
theorem accepts_is_sound (wire : Bytes) (senders : List Sender) (partials : List Bytes)
    (h : accepts wire senders partials = true) :
    ∃ (frames : List Bytes) (p : Bytes), wire = frames.flatten ++ p ∧
      (∀ f ∈ frames, ∃ s ∈ senders, f ∈ s.frames) ∧
      (p = [] ∨ ∃ f ∈ partials, p.length < f.length ∧ f.take p.length = p) :=
  accepts_sound wire senders partials h

/-! ### non-vacuity: a concrete system and a reachable interleaving -/

def ping : Job := { bufs := [[0x89, 0x00]], isClose := false }
def dataFrame : Job := { bufs := [[0x82, 0x03], [1, 2, 3]], isClose := false }   -- header+payload, `extra`
def closeJob : Job := { bufs := [[0x88, 0x00]], isClose := true }

def sys0 : Sys :=
  { mu := none, latch := none, wire := [], isOpen := true, done := [], cur := [], closeDone := false,
    threads := fun t => { prog := if t = 0 then [dataFrame] else if t = 1 then [ping, closeJob] else [],
                          pos := 0, pc := .idle, okFrames := [] } }

example : Init sys0 := ⟨rfl, rfl, rfl, rfl, rfl, rfl, fun _ => ⟨rfl, rfl, rfl⟩⟩

/-- thread 1 gets the lock first and writes its ping: one step of a real interleaving. -/
example : ∃ s, Step genFacts sys0 s ∧ s.mu = some 1 :=
  ⟨_, Step.acquire sys0 1 ping rfl rfl rfl, rfl⟩

/-- the bad shapes are really excluded by the facts, not by the model: with a fact false the step exists. -/
example : ∃ s, Step { Facts.allTrue with allConnWritesUnderMu := false } sys0 s ∧ s.mu = none ∧
    (s.threads 0).pc = .writing 0 :=
  ⟨_, Step.badNoLock sys0 0 dataFrame rfl rfl rfl, rfl, by simp⟩

/-- the acceptance test used by the correspondence driver, on an interleaving and on a torn frame -/
example : accepts [0x89, 0x00, 0x82, 0x03, 1, 2, 3, 0x88, 0x00]
    [⟨[dataFrame.bytes], true⟩, ⟨[ping.bytes, closeJob.bytes], true⟩] [] = true := by decide
example : accepts [0x82, 0x03, 0x89, 0x00, 1, 2, 3] [⟨[dataFrame.bytes], true⟩, ⟨[ping.bytes], true⟩] [] = false := by decide

end Oryx.Props.C15
