/-
  C04 — RTMP request/response matching holds with concurrent reader and writer.
  Statements only; the invariant is in Oryx/Proofs/RtmpTxn.lean.
-/
import Oryx.Proofs.RtmpTxn
namespace Oryx.Props.C04
open Oryx Oryx.RtmpTxn Gen.Rtmp

/-! Gating obligations on the facts extracted from the CURRENT source (rtmp/rtmp.go):
the request is registered before it can reach the transport; registration, and lookup+delete, are
each done under the one mutex; nothing else touches the table. The model's step shapes (atomic `reg`,
atomic `resp`) are justified by exactly these facts. -/
example : Gen.Rtmp.txnOrder = .registerThenWrite := by decide
example : Gen.Rtmp.txnRegisterUnderLock = true := by decide
example : Gen.Rtmp.txnLookupDeleteUnderOneLock = true := by decide
example : Gen.Rtmp.txnOtherAccessors = [] := by decide

/-- **C04**: for every sequence of requests with distinct transaction ids and EVERY interleaving of the
writer's steps with the reader's processing of responses (a response is processed only after its
request was handed to the transport — including "the peer answers before the writer's call has
returned"), in every reachable state: no spurious "no matched request"; every response processed so
far was matched to its request; no response was matched twice; and nothing is lost — every request on
the wire is either still outstanding in the table or already matched. -/
theorem C04_matching (reqs : List Nat) (hnd : reqs.Nodup) (acts : List Act) (s : St)
    (hr : run (init Gen.Rtmp.txnOrder reqs) acts = some s) :
    s.failed = [] ∧ s.matched = s.responded ∧ s.matched.Nodup ∧
    (∀ t ∈ s.wire, t ∈ s.table ∨ t ∈ s.matched) ∧ (∀ t ∈ s.matched, t ∈ s.wire) := by
  have hg := good_run acts (good_init reqs hnd) hr
  refine ⟨hg.failed_nil, hg.matched_eq, hg.matched_eq ▸ hg.responded_nodup, ?_, ?_⟩
  · intro t ht; rw [hg.matched_eq]; exact hg.wire_ok t ht
  · intro t ht; rw [hg.matched_eq] at ht; exact hg.responded_on_wire t ht

/-- … and the next response to arrive, whichever it is, is matched: in every reachable state the
reader's step for any request that is on the wire and not yet answered succeeds as a match. -/
theorem C04_next_response_matches (reqs : List Nat) (hnd : reqs.Nodup) (acts : List Act) (s : St)
    (hr : run (init Gen.Rtmp.txnOrder reqs) acts = some s) (t : Nat) (hw : t ∈ s.wire) (hn : t ∉ s.responded) :
    ∃ s', step s (.r t) = some s' ∧ s'.failed = [] ∧ t ∈ s'.matched := by
  have hg := good_run acts (good_init reqs hnd) hr
  have htab : t ∈ s.table := by
    rcases hg.wire_ok t hw with h | h
    · exact h
    · exact absurd h hn
  exact ⟨{ s with table := s.table.erase t, responded := t :: s.responded, matched := t :: s.matched },
    by simp [step, hw, hn, htab], hg.failed_nil, by simp⟩

/-- Responses nobody is waiting for — answers to calls the library does not track, duplicated or stray
`_result`s — are refused at any point of any schedule and change nothing: the table and everything matched so
far stay as they were (so they cannot make a later genuine response fail). -/
theorem C04_stray_refused (s : St) (t : Nat) (ht : t ∉ s.table) :
    ∃ s', step s (.stray t) = some s' ∧ s'.table = s.table ∧ s'.matched = s.matched ∧ s'.failed = s.failed ∧
      s'.wire = s.wire ∧ s'.prog = s.prog ∧ s'.refused = t :: s.refused :=
  ⟨{ s with refused := t :: s.refused }, by simp [step, ht], rfl, rfl, rfl, rfl, rfl, rfl⟩

/-- The window of the old order (defect F4, repaired): with write-then-register, the schedule
*write; peer answers; lookup* reaches "No matched request" although the request had been sent. -/
theorem C04_window_witness :
    (run (init .writeThenRegister [7]) [.w, .r 7, .w]).map (·.failed) = some [7] := by
  decide

/-- The same schedule is harmless in the repaired order (it is not even enabled before the write). -/
theorem C04_window_closed :
    (run (init .registerThenWrite [7]) [.w, .w, .r 7]).map (fun s => (s.failed, s.matched)) = some ([], [7]) ∧
    run (init .registerThenWrite [7]) [.w, .r 7] = none := by
  decide

/-! ### non-vacuity: a 3-request schedule where the peer answers inside the writer's calls -/
example : (run (init .registerThenWrite [1, 2, 3]) [.w, .w, .r 1, .w, .w, .w, .w, .r 3, .r 2]).map
    (fun s => (s.failed, s.matched, s.table)) = some ([], [2, 3, 1], []) := by decide
example : ([1, 2, 3] : List Nat).Nodup := by decide
-- strays interleaved: requests 1 (connect) and 4 (createStream) tracked; answers to 2, 3 and a repeated 1 refused
example : (run (init .registerThenWrite [1, 4]) [.w, .w, .w, .w, .stray 2, .stray 3, .r 1, .stray 1, .r 4]).map
    (fun s => (s.failed, s.matched, s.refused)) = some ([], [4, 1], [1, 3, 2]) := by decide

end Oryx.Props.C04
