/-
  C11 — ADTS framing and AudioSpecificConfig round-trip and match the ISO layout.
-/
import Oryx.Proofs.Aac
namespace Oryx.Props.C11
open Oryx Oryx.Res Oryx.Aac

theorem ne_panic_of_isPanic {r : Res α} (h : r.isPanic = false) : r ≠ .panic := by
  intro e; subst e; simp [Res.isPanic] at h

/-- Every enum helper is total over all 256 `uint8` values. -/
theorem enum_helpers_total (v : UInt8) :
    toHz v ≠ .panic ∧ toProfile v ≠ .panic ∧ toObjectType v ≠ .panic := by
  have key : ∀ v : UInt8, (toHz v).isPanic = false ∧ (toProfile v).isPanic = false ∧ (toObjectType v).isPanic = false := by
    apply forall_u8; decide +kernel
  exact ⟨ne_panic_of_isPanic (key v).1, ne_panic_of_isPanic (key v).2.1, ne_panic_of_isPanic (key v).2.2⟩

end Oryx.Props.C11
