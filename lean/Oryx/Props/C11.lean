/-
  C11 — ADTS framing and AudioSpecificConfig round-trip and match the ISO layout.
  Only property statements, their proofs from the helper lemmas (Oryx/Proofs/Aac.lean), and
  non-vacuity examples.

  Vocabulary (defined in Proofs/Aac.lean, Model/Aac.lean, Spec/Adts.lean):
  * `Accepted a`    — the configurations the library accepts: object type ∈ {1 Main, 2 LC, 3 SSR, 5 HE,
                      29 HEv2}, sampling-frequency index 1..12, channel configuration 1..7 (literals).
  * `reported a`    — what a decoder reports for `a`: object type of `a`'s ADTS profile (HE/HEv2 → LC),
                      `a`'s sampling index and channels.
  * `Spec.Adts.Frame`, `Frame.write`, `writeAll` — the independent ISO/IEC 13818-7 §6.2 writer.
  * `Acceptable f`  — a writer frame in the domain: field widths, profile ≤ 2, index 1..12, channels 1..7,
                      ≥ 1 raw byte, aac_frame_length ≤ 8191 (13 bits). Either ID, either protection bit,
                      every value of the private/original/home/copyright bits, buffer fullness and CRC.
  * `adtsDecode st data = (st', r)` — `Decode` on a receiver whose config was `st`: the receiver's config
                      afterwards and `(raw, left)` / the error.
-/
import Oryx.Proofs.Aac
namespace Oryx.Props.C11
open Oryx Oryx.Res Oryx.Aac Oryx.Spec.Adts

/-! ### ADTS: encoder output decodes to the same raw bytes -/

/-- For every accepted configuration and every raw frame of 1..8184 bytes, `Encode` succeeds with a frame
of `len + 7` bytes, and `Decode` of that frame (on a receiver in any prior state) returns exactly the raw
bytes, nothing left over, and reports the configuration's ADTS profile, sampling index and channels. -/
theorem adts_roundtrip (a : Asc) (h : Accepted a) (raw : Bytes) (h1 : 1 ≤ raw.length) (h2 : raw.length ≤ 8184)
    (st : Asc) :
    ∃ frame, adtsEncode a raw = ok frame ∧ frame.length = raw.length + 7 ∧
      adtsDecode st frame = (reported a, ok (raw, [])) ∧
      toProfile (reported a).object = toProfile a.object ∧
      (reported a).sampleRate = a.sampleRate ∧ (reported a).channels = a.channels := by
  obtain ⟨frame, he, hd⟩ := encode_decode a h raw h1 h2 st []
  rw [List.append_nil] at hd
  refine ⟨frame, he, ?_, hd, reported_profile a h, rfl, rfl⟩
  have e := encode_is_spec a h raw h2
  rw [he] at e
  injection e with e
  rw [e, write_length]
  simp [Frame.frameLength, Frame.headerSize, encFrame]; omega

/-- Byte for byte, the encoder's output is the ISO writer's frame (MPEG-4 id, no CRC, buffer fullness
0x03f, all other free bits 0) — "match the ISO layout". -/
theorem adts_encode_is_spec (a : Asc) (h : Accepted a) (raw : Bytes) (hl : raw.length ≤ 8184) :
    adtsEncode a raw = ok (encFrame a raw).write :=
  encode_is_spec a h raw hl

/-! ### ADTS: frames of an independent ISO 13818-7 writer -/

/-- Every acceptable frame of the independent writer — MPEG-2 or MPEG-4 id, with or without the 16-bit
CRC — followed by any bytes, decodes to exactly its raw data block; the remainder is exactly what
followed; the receiver reports object type = profile + 1 (the ISO mapping), the frame's index and
channels. -/
theorem adts_spec (f : Frame) (h : Acceptable f) (st : Asc) (rest : Bytes) :
    adtsDecode st (f.write ++ rest) = (frameAsc f, ok (f.raw, rest)) ∧
    objectTypeOfProfile f.profile = some (frameAsc f).object.toNat ∧
    (frameAsc f).sampleRate.toNat = f.sfi ∧ (frameAsc f).channels.toNat = f.channels := by
  refine ⟨decode_spec f h st rest, ?_, ?_, ?_⟩
  · obtain ⟨_, hp, _⟩ := h
    have : f.profile = 0 ∨ f.profile = 1 ∨ f.profile = 2 := by omega
    rcases this with e | e | e <;> (simp only [frameAsc, e]; rfl)
  · exact toNat_ofNat_lt (by have := h.2.2.1; omega)
  · exact toNat_ofNat_lt (by have := h.2.2.2.1; omega)

/-- The frame on the wire is header (7 or 9 bytes) + raw, and its 13-bit length field is that size. -/
theorem adts_spec_size (f : Frame) : f.write.length = f.frameLength ∧
    f.frameLength = (if f.protectionAbsent = 0 then 9 else 7) + f.raw.length :=
  ⟨write_length f, rfl⟩

/-! ### ADTS: concatenations -/

/-- A concatenation of frames decodes one frame at a time: decoding at the start of any frame returns that
frame's raw block, the remainder is exactly the concatenation of the following frames, and that remainder
starts at the next sync word (or is empty). Induction on the frame list. -/
theorem adts_concat_step (f : Frame) (fs : List Frame) (h : ∀ g ∈ f :: fs, Acceptable g) (st : Asc) :
    adtsDecode st (writeAll (f :: fs)) = (frameAsc f, ok (f.raw, writeAll fs)) ∧ AtSync (writeAll fs) :=
  ⟨decode_spec f (h f (by simp)) st (writeAll fs), writeAll_atSync fs (fun g hg => h g (by simp [hg]))⟩

/-- Hence the documented caller loop ("when left is not nil, decode it again") over a concatenation of
any number of frames returns exactly the raw blocks, in order; it needs no more iterations than bytes. -/
theorem adts_concat (fs : List Frame) (h : ∀ f ∈ fs, Acceptable f) (st : Asc) (fuel : Nat)
    (hfuel : (writeAll fs).length ≤ fuel) :
    decodeStream fuel st (writeAll fs) = ok (fs.map (·.raw)) :=
  decodeStream_writeAll fs h st fuel hfuel

/-- The same for streams produced by the library's own encoder (configurations may change per frame). -/
theorem adts_concat_encoded (items : List (Asc × Bytes)) (h : ∀ i ∈ items, ItemOk i) (st : Asc) :
    ∃ stream, encodeAll items = ok stream ∧
      decodeStream (stream.length + 1) st stream = ok (items.map (·.2)) := by
  refine ⟨_, encodeAll_eq items h, ?_⟩
  have hacc : ∀ f ∈ items.map (fun i => encFrame i.1 i.2), Acceptable f := by
    intro f hf
    obtain ⟨i, hi, rfl⟩ := List.mem_map.mp hf
    exact encFrame_acceptable i.1 (h i hi).1 i.2 (h i hi).2.1 (h i hi).2.2
  rw [decodeStream_writeAll _ hacc st _ (Nat.le_succ _)]
  simp [List.map_map, Function.comp_def, encFrame]

/-! ### AudioSpecificConfig -/

/-- All 65 536 two-byte values (any trailing bytes, any prior receiver state): `UnmarshalBinary` extracts
the ISO bit fields; it accepts iff the predicate `AscOk` holds; if accepted, `MarshalBinary` of the result
gives the two bytes back bit-exactly on the 13 significant bits (3 padding bits cleared); if not, it is
rejected and so is marshalling the parsed fields. -/
theorem asc_exhaustive (t0 t1 : UInt8) (st : Asc) (rest : Bytes) :
    (ascUnmarshal st (t0 :: t1 :: rest)).1 = ascFields t0 t1 ∧
    ((ascFields t0 t1).object.toNat = t0.toNat / 8 ∧
     (ascFields t0 t1).sampleRate.toNat = (t0.toNat % 8) * 2 + t1.toNat / 128 ∧
     (ascFields t0 t1).channels.toNat = t1.toNat / 8 % 16) ∧
    ((ascUnmarshal st (t0 :: t1 :: rest)).2 = ok () ↔ AscOk t0 t1) ∧
    (AscOk t0 t1 → ascMarshal (ascFields t0 t1) = ok [t0, t1 &&& 0xf8]) ∧
    (¬ AscOk t0 t1 → (ascUnmarshal st (t0 :: t1 :: rest)).2 = err .generic ∧
                      ascMarshal (ascFields t0 t1) = err .generic) := by
  have hiff : validate (ascFields t0 t1) = ok () ↔ AscOk t0 t1 :=
    (validate_ok_iff _).trans (ascFields_accepted_iff t0 t1)
  refine ⟨rfl, ascFields_toNat t0 t1, hiff, ascMarshal_ascFields t0 t1, ?_⟩
  intro hn
  have hv : validate (ascFields t0 t1) = err .generic := by
    rw [validate_eq, if_neg (fun h => hn ((ascFields_accepted_iff t0 t1).mp h))]
  exact ⟨hv, by simp only [ascMarshal, hv, Res.bind_err]⟩

/-- Fewer than two bytes: rejected, receiver untouched. -/
theorem asc_short (st : Asc) (data : Bytes) (h : data.length < 2) :
    ascUnmarshal st data = (st, err .generic) := by
  match data, h with
  | [], _ => rfl
  | [_], _ => rfl

/-- Every accepted configuration marshals to two bytes that unmarshal (whatever follows them) to the
same configuration; every other configuration is rejected by `MarshalBinary`. -/
theorem asc_roundtrip (a : Asc) (st : Asc) (rest : Bytes) :
    (Accepted a → ∃ b0 b1, ascMarshal a = ok [b0, b1] ∧ ascUnmarshal st (b0 :: b1 :: rest) = (a, ok ())) ∧
    (¬ Accepted a → ascMarshal a = err .generic) := by
  refine ⟨fun h => asc_marshal_unmarshal a h st rest, fun hn => ?_⟩
  have hv : validate a = err .generic := by rw [validate_eq, if_neg hn]
  simp only [ascMarshal, hv, Res.bind_err]

/-! ### sampling-frequency table -/

/-- Each sampling-frequency index converts to the frequency of the ISO table (indices 0..12); the reserved
indices and every other `uint8` value give 0. -/
theorem sr_table (v : UInt8) : toHz v = ok ((samplingFrequency v.toNat).getD 0) := toHz_eq v

/-! ### no decoder panics; the enum helpers are total (reused by C07) -/

/-- `Decode`, the caller loop (which therefore also terminates: its fuel is never exhausted),
`UnmarshalBinary`, `MarshalBinary` and `Encode` never panic, on any input and receiver state. -/
theorem decoders_never_panic (st : Asc) (bs : Bytes) :
    (adtsDecode st bs).2 ≠ .panic ∧ decodeStream (bs.length + 1) st bs ≠ .panic ∧
    (ascUnmarshal st bs).2 ≠ .panic ∧ ascMarshal st ≠ .panic ∧ adtsEncode st bs ≠ .panic :=
  ⟨adtsDecode_ne_panic st bs, decodeStream_ne_panic _ st bs (Nat.le_succ _), ascUnmarshal_ne_panic st bs,
   ascMarshal_ne_panic st, adtsEncode_ne_panic st bs⟩

/-- Every enum helper returns for all 256 `uint8` values: `ToHz` (true only with the bounds guard),
`ToProfile`, `ToObjectType` and the four `String` methods. -/
theorem enum_helpers_total (v : UInt8) :
    toHz v ≠ .panic ∧ toProfile v ≠ .panic ∧ toObjectType v ≠ .panic ∧
    Gen.Aac.ObjectType_String v.toNat ≠ .panic ∧ Gen.Aac.Profile_String v.toNat ≠ .panic ∧
    Gen.Aac.SampleRateIndex_String v.toNat ≠ .panic ∧ Gen.Aac.Channels_String v.toNat ≠ .panic := by
  have np : ∀ {α} {r : Res α}, r.isOk = true → r ≠ .panic := by
    intro α r h e; subst e; simp [Res.isOk] at h
  obtain ⟨a, b, c⟩ := enum_isOk v
  obtain ⟨d, e, f, g⟩ := strings_isOk v
  exact ⟨np a, np b, np c, np d, np e, np f, np g⟩

/-! ### gating obligations on the generated tables -/

example : "SampleRateIndex_ToHz" ∈ Gen.Aac.translatedHelpers := by decide
example : Gen.Aac.ToHz 12 = .ok 7350 ∧ Gen.Aac.ToHz 13 = .ok 0 ∧ Gen.Aac.ToHz 255 = .ok 0 := by decide
example : Gen.Aac.SampleRateIndexForbidden = 17 := by decide

/-! ### non-vacuity: concrete inhabitants of the hypotheses, concrete instances of the conclusions -/

def exCfg : Asc := { object := 2, sampleRate := 4, channels := 2 }       -- LC 44.1 kHz stereo
def exCfgHE : Asc := { object := 29, sampleRate := 12, channels := 7 }
/-- MPEG-2 id, CRC present (protection_absent = 0), every free bit set. -/
def exFrame : Frame :=
  { id := 1, protectionAbsent := 0, profile := 1, sfi := 4, privateBit := 1, channels := 2, original := 1,
    home := 1, copyrightBit := 1, copyrightStart := 1, bufferFullness := 0x7ff, crc := 0xaabb, raw := [1, 2, 3] }
/-- MPEG-4 id, no CRC. -/
def exFrame2 : Frame :=
  { id := 0, protectionAbsent := 1, profile := 0, sfi := 12, privateBit := 0, channels := 7, original := 0,
    home := 0, copyrightBit := 0, copyrightStart := 0, bufferFullness := 0, crc := 0, raw := [9] }

example : Accepted exCfg := by decide
example : Accepted exCfgHE := by decide
example : ¬ Accepted { object := 2, sampleRate := 0, channels := 2 } := by decide   -- 96 kHz is refused
example : Acceptable exFrame := by decide
example : Acceptable exFrame2 := by decide
example : ItemOk (exCfg, [0x21, 0x00]) := by decide
example : ∀ g ∈ [exFrame, exFrame2], Acceptable g := by decide
example : AscOk 0x12 0x10 := by decide
example : ¬ AscOk 0x12 0x00 := by decide
-- the test vector of aac_test.go, and the formerly failing CRC frame (F10) followed by another frame
example : (adtsEncode exCfg [0]).isOk = true := by decide
example : exFrame.write = [0xff, 0xf8, 0x52, 0xbc, 0x01, 0x9f, 0xfc, 0xaa, 0xbb, 1, 2, 3] := by decide
example : (adtsDecode default (exFrame.write ++ exFrame2.write)).1 = { object := 2, sampleRate := 4, channels := 2 } :=
  by rw [(adts_spec exFrame (by decide) default _).1]; rfl
example : toHz 4 = ok 44100 := sr_table 4
example : toHz 17 = ok 0 := sr_table 17

end Oryx.Props.C11
