/-
  C08 — I/O failures surface as errors that keep their root cause.
  Only property statements, their short proofs from the helper lemmas, and non-vacuity examples.

  Models: Oryx/Model/Errors.lean (errors/errors.go: error values = towers of withMessage / withStack layers over
  opaque roots), Oryx/Model/IoFault.lean (the RTMP reader / handshake / chunk writer and the FLV demuxer / muxer
  over a transport that ENDS — root 0 = io.EOF — or FAILS — any other root — after delivering / accepting
  `k` bytes; every wrap site of rtmp.go / flv.go is a layer, so a swallowed or replaced error would change
  `cause` and the theorems below would not be provable).

  Transport model (recorded assumptions, exercised by `corr C08` at every offset):
    * reading: the reader sees the first `k` bytes of the peer's stream and then the transport's error `t` on
      every further read; `bufio.Reader` + `io.ReadFull`/`binary.Read`/`io.CopyN` make the result independent of
      how those `k` bytes are segmented into transport reads ("error at read call i" = "after the bytes of the
      first i calls");
    * writing: the transport accepts `K` bytes in total (the failing call may accept a part) and then fails with
      `t`; `bufio.Writer` is a parameter `pol` (any buffer size / flushing strategy), `Flush` pushes everything,
      the first failed transport write is sticky ("error at write call i" = `K` = the bytes of the first i calls).
-/
import Oryx.Proofs.Errors
import Oryx.Proofs.IoFault.Boundary
import Oryx.Proofs.IoFault.FlvWrite
import Oryx.Props.C09
import Oryx.Model.Expect
namespace Oryx.Props.C08
open Oryx Oryx.Errors Oryx.IoFault Oryx.Rtmp

/-! ## 1. the errors package -/

/-- `errors.Cause` recovers the root through ANY nesting of `WithMessage / WithStack / Wrap / Wrapf`. -/
theorem cause_any_nesting (ls : List Layer) (r : Nat) :
    causeO (build ls (some (.root r))) = some (.root r) := by
  obtain ⟨e', h, hc, _⟩ := build_some ls (.root r)
  simp [h, causeO, hc, Err.cause]

/-- … and over any non-nil error the tower keeps that error's cause. -/
theorem cause_tower (ls : List Layer) (e : Err) : causeO (build ls (some e)) = some e.cause := by
  obtain ⟨e', h, hc, _⟩ := build_some ls e
  simp [h, causeO, hc]

/-- `Error()` of a tower = the layers' messages, outer to inner, then the root's own text, joined by `": "`
(a bare `WithStack` contributes no message). -/
theorem message_chain (ls : List Layer) (r : Nat) :
    (build ls (some (.root r))).map Err.message =
      some (joinColon ((ls.map Layer.msg).flatten ++ [Err.rootText r])) := by
  obtain ⟨e', h, hc, hm⟩ := build_some ls (.root r)
  rw [h, Option.map_some, message_eq_chain e', hm, hc]
  simp [Err.messages, Err.cause, Err.message]

/-- Same for every error value (whatever built it). -/
theorem message_chain_err (e : Err) : e.message = joinColon (e.messages ++ [e.cause.message]) :=
  message_eq_chain e

/-- Every constructor, and every tower of them, maps nil to nil. -/
theorem wrap_nil :
    Errors.withStack none = none ∧ (∀ m, Errors.withMessage m none = none) ∧ (∀ m, wrap m none = none) ∧
    (∀ m, wrapf m none = none) ∧ causeO none = none ∧ ∀ ls, build ls none = none :=
  ⟨rfl, fun _ => rfl, fun _ => rfl, fun _ => rfl, rfl, build_none⟩

/-- … and a non-nil error to a non-nil error. -/
theorem wrap_some (ls : List Layer) (e : Err) : (build ls (some e)).isSome = true := by
  obtain ⟨e', h, _⟩ := build_some ls e
  simp [h]

theorem cause_idempotent (e : Err) : e.cause.cause = e.cause := cause_cause e

/-- The cause is always a root (an error without a `Cause()` method). -/
theorem cause_root (e : Err) : ∃ r, e.cause = .root r := cause_is_root e

/-! ## 2. the generic cut lemma (what every reader theorem below is built from) -/

/-- Primitives have the cut property: `io.ReadFull` (EOF / unexpected EOF / the transport's error) and
`io.CopyN` (exactly the transport's error). -/
theorem cut_primitives (n : Nat) : Cut (readFullE n) ∧ CutN (copyNE n) := ⟨Cut.readFullE n, CutN.copyNE n⟩

/-- It is closed under sequencing and under every wrap that keeps the cause. -/
theorem cut_closed {E : EndRel} {α β : Type} (p : SP α) (f : α → SP β) (hp : CutG E p) (hf : ∀ a, CutG E (f a)) (msg : String) :
    CutG E (p >>= f) ∧ CutG E (p.wrap msg) ∧ CutG E (p.withMessage msg) :=
  ⟨hp.bind hf, hp.wrap msg, hp.withMessage msg⟩

/-- Prefix-monotone: a reader with the cut property that succeeded on a stream returns the same value on every
prefix that contains what it consumed, for every transport error; on a shorter prefix it returns an error whose
cause is the transport's — never `ok` with a different value. -/
theorem cut_meaning {α : Type} {p : SP α} (hp : Cut p) {t0 : Nat} {bs : Bytes} {a : α} {rest : Bytes}
    (h : p t0 bs = .ok (a, rest)) (t k : Nat) :
    (bs.length - rest.length ≤ k → p t (bs.take k) = .ok (a, rest.take (k - (bs.length - rest.length)))) ∧
    (k < bs.length - rest.length → ∃ e, p t (bs.take k) = .err e ∧
      (t = 0 → e.cause = .root 0 ∨ e.cause = .root 1) ∧ (t ≠ 0 → e.cause = .root t)) := by
  obtain ⟨n, hl, hk⟩ := hp t0 bs a rest h
  have hn : bs.length - rest.length = n := by omega
  rw [hn]
  refine ⟨(hk t k).1, fun hlt => ?_⟩
  obtain ⟨e, he, hc⟩ := (hk t k).2 hlt
  exact ⟨e, he, fun h0 => (h0 ▸ hc).cut, fun hne => hc.inject hne⟩

/-- Every reader of the RTMP path, the handshake and the FLV demuxer has the cut property. -/
theorem readers_cut (st : Reader) (c : ChunkStream) (fmt ic size : Nat) :
    Cut readBasicHeaderE ∧ Cut (readMessageHeaderE c fmt) ∧ Cut (readMessagePayloadE ic c) ∧ Cut (readChunkE st) ∧
    Cut (readMessageE st) ∧ Cut (expectMessageE st) ∧ CutN hsReadE ∧
    CutN flvReadHeaderE ∧ CutN flvReadTagHeaderE ∧ CutN (flvReadTagE size) ∧ CutN flvReadTagFullE :=
  ⟨cut_readBasicHeaderE, cut_readMessageHeaderE c fmt, cut_readMessagePayloadE ic c, cut_readChunkE st,
   cut_readMessageE st, cut_expectMessageE st, cutN_hsReadE, cutN_flvReadHeaderE, cutN_flvReadTagHeaderE,
   cutN_flvReadTagE size, cutN_flvReadTagFullE⟩

/-- With the layers forgotten and a transport that ends, the error-carrying readers ARE the class-only models of
C01 and C09 (so C01's round trip and C09's demuxer theorems speak about them). -/
theorem erasure (st : Reader) (bs : Bytes) :
    (readMessageE st 0 bs).erase = readMessage st bs ∧ (flvReadTagFullE 0 bs).erase = Flv.readTagFull bs ∧
    (flvReadHeaderE 0 bs).erase = Flv.readHeader bs ∧
    (match flvDemuxE 0 bs with
     | .ok (h, tags, st) => Res.ok (h, tags, st.erase)
     | .err e => .err e.cls
     | .panic => .panic) = Flv.demux bs :=
  ⟨erase_readMessageE st bs, erase_flvReadTagFullE bs, erase_flvReadHeaderE bs, erase_flvDemuxE bs⟩

/-- The class-only primitives of the stream model (`Oryx.readFull`, `Oryx.copyN`, `Oryx.Flv.copyN`) are the
`t = 0` (the stream ends) instance of the transport-parametrised primitives, with the error value forgotten. -/
theorem primitives_instance (n : Nat) (bs : Bytes) :
    (readFullE n 0 bs).erase = readFull n bs ∧ (copyNE n 0 bs).erase = copyN n bs ∧
    (copyNE n 0 bs).erase = Flv.copyN n bs :=
  ⟨erase_readFullE n bs, erase_copyNE n bs, erase_copyNE_flv n bs⟩

/-! ## 3. RTMP: a stream that ends or fails at any byte -/

/-- The domain, as in C01: chunk stream 2..63, timestamp < 2^31, payload 1..2^24−1 bytes, well-formed bodies
of the control messages the reader decodes itself, Set Chunk Size ≥ 1 (any position, any number). -/
def MsgOK (m : Msg) : Prop := m.WF ∧ m.ChunkSizeOK

/-- The result of reading a session from the first `k` bytes: the messages and how the loop stopped. -/
def Outcome (t : Nat) (r : List Msg × StopE) (expected : List Msg) (boundary : Prop) : Prop :=
  ∃ e, r = (expected, .err e) ∧
    (t = 0 → e.cause = .root 0 ∨ e.cause = .root 1) ∧ (t ≠ 0 → e.cause = .root t) ∧ (boundary → e.cause = .root t)

/-- **cut_prefix_rtmp / inject_read** in one statement. For every session `msgs` of the domain written at any
chunk size `c ≥ 1` (`W = writeAll c msgs`), every reader at that chunk size without a partial message, every
transport error `t` and every offset `k`: reading from a transport that delivers `take k W` and then reports `t`
returns exactly the messages wholly contained in the first `k` bytes — `wholeMsgs c k msgs`, a prefix
`msgs.take j` of the session, each with identical type, stream id, timestamp and payload — and then a non-nil
error whose root cause is
  * io.EOF or io.ErrUnexpectedEOF if the stream ended (`t = 0`), io.EOF when the cut is on a message boundary,
  * exactly the transport's error if it failed (`t ≠ 0`).
Never a truncated, duplicated or fabricated message; never an incomplete message with a nil error; no panic. -/
theorem cut_session (msgs : List Msg) (hall : ∀ m ∈ msgs, MsgOK m) (c : Nat) (hc : 1 ≤ c)
    (st : Reader) (hic : st.inChunk = c) (hcl : Clean st) :
    ∃ W, writeAll c msgs = .ok W ∧ ∀ (t k fuel : Nat), (W.take k).length < fuel →
      Outcome t (readSessionE fuel st t (W.take k)) ((wholeMsgs c k msgs).map received)
        ((∃ W', writeAll c (wholeMsgs c k msgs) = .ok W' ∧ W'.length = k) ∨ W.length ≤ k) ∧
      wholeMsgs c k msgs = msgs.take (wholeMsgs c k msgs).length ∧
      ((wholeMsgs c k msgs).map received).map Msg.view = (wholeMsgs c k msgs).map Msg.view ∧
      (W.length ≤ k → wholeMsgs c k msgs = msgs) := by
  obtain ⟨W, hw, h⟩ := session_cut msgs hall c st hc hic hcl
  refine ⟨W, hw, fun t k fuel hf => ⟨?_, wholeMsgs_eq_take c k msgs, ?_, fun hk => wholeMsgs_all msgs hall c k W hc hw hk⟩⟩
  · obtain ⟨e, he, hce, hb⟩ := h t k fuel hf
    exact ⟨e, he, fun h0 => (h0 ▸ hce).cut, fun hne => hce.inject hne, hb⟩
  · simp [List.map_map, Function.comp_def, view_received]

/-- `cut_prefix_rtmp`: the stream ENDS after `k` bytes (a fresh reader at the default chunk size). -/
theorem cut_prefix_rtmp (msgs : List Msg) (hall : ∀ m ∈ msgs, MsgOK m) (k : Nat) :
    ∃ W, writeAll 128 msgs = .ok W ∧ ∃ e,
      readSession 128 0 (W.take k) = ((wholeMsgs 128 k msgs).map received, .err e) ∧
      (e.cause = .root 0 ∨ e.cause = .root 1) ∧
      (((∃ W', writeAll 128 (wholeMsgs 128 k msgs) = .ok W' ∧ W'.length = k) ∨ W.length ≤ k) → e.cause = .root 0) ∧
      wholeMsgs 128 k msgs <+: msgs := by
  obtain ⟨W, hw, h⟩ := cut_session msgs hall 128 (by decide) {} rfl (by intro k ch hk; simp [Chunks.get] at hk)
  obtain ⟨⟨e, he, h0, _, hb⟩, _⟩ := h 0 k _ (Nat.lt_succ_self _)
  exact ⟨W, hw, e, he, h0 rfl, hb, wholeMsgs_prefix _ _ _⟩

/-- `inject_read`: the transport FAILS with error `t ≠ 0` after delivering `k` bytes — at any read position. The
error surfaces with exactly that cause, and the messages before it are exactly the complete ones. -/
theorem inject_read (msgs : List Msg) (hall : ∀ m ∈ msgs, MsgOK m) (t : Nat) (ht : t ≠ 0) (k : Nat) :
    ∃ W, writeAll 128 msgs = .ok W ∧ ∃ e,
      readSession 128 t (W.take k) = ((wholeMsgs 128 k msgs).map received, .err e) ∧ e.cause = .root t ∧
      wholeMsgs 128 k msgs <+: msgs := by
  obtain ⟨W, hw, h⟩ := cut_session msgs hall 128 (by decide) {} rfl (by intro k ch hk; simp [Chunks.get] at hk)
  obtain ⟨⟨e, he, _, hi, _⟩, _⟩ := h t k _ (Nat.lt_succ_self _)
  exact ⟨W, hw, e, he, hi ht, wholeMsgs_prefix _ _ _⟩

/-- `ExpectMessage` / `ExpectPacket` add a layer and keep the cause: cut inside the awaited message. -/
theorem expect_cut (c : Nat) (hc : 1 ≤ c) (m : Msg) (hm : m.WF) (st : Reader) (hic : st.inChunk = c) (hcl : Clean st)
    (W : Bytes) (hw : writeMessage c m = .ok W) (t k : Nat) (hk : k < W.length) :
    ∃ e, expectMessageE st t (W.take k) = .err (.withMessage "read message" e) ∧
      (t = 0 → e.cause = .root 0 ∨ e.cause = .root 1) ∧ (t ≠ 0 → e.cause = .root t) := by
  obtain ⟨e, he, hce⟩ := message_cut c hc m hm st hic hcl W hw t k hk
  exact ⟨e, SP.withMessage_err he, fun h0 => (h0 ▸ hce).cut, fun hne => hce.inject hne⟩

section
open Oryx.Model.Expect
/-- the library's loop under the fact the translator reads from rtmp.go on every run -/
def libExpect {ε α : Type} := @expectLoop ε α Oryx.Gen.Rtmp.expectReturnsFirstError

/-- gate: in ExpectPacket and ExpectMessage the branch for a failed `ReadMessage` returns at once -/
theorem expect_fact : Oryx.Gen.Rtmp.expectReturnsFirstError = true := by decide

/-- **A failed read ends `ExpectMessage` / `ExpectPacket` with that failure**, whatever the error says about itself
(temporary, timeout) and whatever the transport would deliver afterwards: for every sequence of read results in which
the reads before the first failure delivered only messages the caller does not wait for. -/
theorem expect_first_error {ε α : Type} (want : α → Bool) (pre : List α) (e : ε) (post : List (Except ε α))
    (hpre : ∀ m ∈ pre, want m = false) :
    libExpect want (pre.map .ok ++ .error e :: post) = .failed e := by
  unfold libExpect; rw [expect_fact]
  induction pre with
  | nil => simp [expectLoop]
  | cons m pre ih =>
    have hm := hpre m (List.mem_cons_self ..)
    simp [expectLoop, hm, ih (fun x hx => hpre x (List.mem_cons_of_mem _ hx))]

/-- ... and the first awaited message is returned when no read before it failed. -/
theorem expect_first_wanted {ε α : Type} (want : α → Bool) (pre : List α) (m : α) (post : List (Except ε α))
    (hpre : ∀ x ∈ pre, want x = false) (hm : want m = true) :
    libExpect want (pre.map .ok ++ .ok m :: post) = (.got m : Out ε α) := by
  unfold libExpect; rw [expect_fact]
  induction pre with
  | nil => simp [expectLoop, hm]
  | cons x pre ih =>
    have hx := hpre x (List.mem_cons_self ..)
    simp [expectLoop, hx, ih (fun y hy => hpre y (List.mem_cons_of_mem _ hy))]

/-- the retrying variant swallows the failure of the transport: the operation in progress returns no error -/
theorem expect_retry_variant_swallows :
    expectLoop false (fun _ => true) [(.error 1 : Except Nat Nat), .ok 2] = .got 2 ∧
    expectLoop true (fun _ => true) [(.error 1 : Except Nat Nat), .ok 2] = .failed 1 := by decide

/-- non-vacuity: two skipped messages, a failure, more results -/
example : libExpect (fun (m : Nat) => m == 9) ([1, 2].map .ok ++ (.error "timeout" : Except String Nat) :: [.ok 9]) = .failed "timeout" := by
  decide
end

/-- The same fact in the class-only model C01 is stated about: `readMessage` on a strict prefix of a written
message is `err eof` or `err ueof` — not `ok`, not another error, not a panic. -/
theorem cut_message_class (c : Nat) (hc : 1 ≤ c) (m : Msg) (hm : m.WF) (st : Reader) (hic : st.inChunk = c) (hcl : Clean st)
    (W : Bytes) (hw : writeMessage c m = .ok W) (k : Nat) (hk : k < W.length) :
    readMessage st (W.take k) = .err .eof ∨ readMessage st (W.take k) = .err .ueof :=
  message_cut_class c hc m hm st hic hcl W hw k hk

/-- **Where the cut falls matters** (the property's own example): right after the basic header the reader polls
the transport afresh — clean io.EOF; anywhere inside the 11-byte message header — io.ErrUnexpectedEOF; a failing
transport's error comes through in both places. -/
theorem cut_header_boundary (c : Nat) (m : Msg) (hm : m.WF) (st : Reader) (hcl : Clean st) (W : Bytes)
    (hw : writeMessage c m = .ok W) (k : Nat) (hk1 : 1 ≤ k) (hk : k ≤ 11) (t : Nat) :
    ∃ e, readMessageE st t (W.take k) = .err e ∧ e.cause = .root (if t = 0 then (if k = 1 then 0 else 1) else t) :=
  first_header_cut c m hm st hcl W hw k hk1 hk t

/-- Handshake: the three `io.CopyN` reads (`Wrap`ped) on the first `k` bytes of the peer's 3073: complete iff
`k ≥ 3073`, else the read in progress returns exactly the transport's error (io.EOF for a cut). -/
theorem handshake_cut (t : Nat) (c0 c1 c2 rest : Bytes) (h0 : c0.length = 1) (h1 : c1.length = 1536) (h2 : c2.length = 1536) (k : Nat) :
    (3073 ≤ k → hsReadE t ((c0 ++ (c1 ++ (c2 ++ rest))).take k) = .ok ((c0, c1, c2), rest.take (k - 3073))) ∧
    (k < 3073 → ∃ e, hsReadE t ((c0 ++ (c1 ++ (c2 ++ rest))).take k) = .err e ∧ e.cause = .root t) :=
  hs_cut t c0 c1 c2 rest h0 h1 h2 k

/-- A whole connection as the reader sees it — the peer's 3073 handshake bytes, then its chunk stream: cut or
failing at any offset `k`, either a handshake read returns the transport's error, or the handshake completes and
the session reader sees exactly `take (k − 3073)` of the chunk stream, to which `cut_session` applies. -/
theorem connection_cut (msgs : List Msg) (hall : ∀ m ∈ msgs, MsgOK m) (t : Nat) (c0 c1 c2 : Bytes)
    (h0 : c0.length = 1) (h1 : c1.length = 1536) (h2 : c2.length = 1536) (k : Nat) :
    ∃ W, writeAll 128 msgs = .ok W ∧
      (k < 3073 → ∃ e, hsReadE t ((c0 ++ (c1 ++ (c2 ++ W))).take k) = .err e ∧ e.cause = .root t) ∧
      (3073 ≤ k → ∃ rest, hsReadE t ((c0 ++ (c1 ++ (c2 ++ W))).take k) = .ok ((c0, c1, c2), rest) ∧
        Outcome t (readSession 128 t rest) ((wholeMsgs 128 (k - 3073) msgs).map received)
          ((∃ W', writeAll 128 (wholeMsgs 128 (k - 3073) msgs) = .ok W' ∧ W'.length = k - 3073) ∨ W.length ≤ k - 3073)) := by
  obtain ⟨W, hw, h⟩ := cut_session msgs hall 128 (by decide) {} rfl (by intro k ch hk; simp [Chunks.get] at hk)
  refine ⟨W, hw, (hs_cut t c0 c1 c2 W h0 h1 h2 k).2, fun hk => ⟨_, (hs_cut t c0 c1 c2 W h0 h1 h2 k).1 hk, ?_⟩⟩
  exact (h t (k - 3073) _ (Nat.lt_succ_self _)).1

/-- Handshake writes over a transport that accepts `K` bytes: the bytes delivered are the first `K` of the 3073;
all three steps return nil iff `K ≥ 3073`, else the step in progress returns an error with the transport's cause. -/
theorem handshake_write_fault (t K : Nat) (c0 c1 c2 : Bytes) :
    (hsWriteW t { budget := K } c0 c1 c2).2.2.out = (c0 ++ (c1 ++ c2)).take K ∧
    ((c0 ++ (c1 ++ c2)).length ≤ K → (hsWriteW t { budget := K } c0 c1 c2).2.1 = none ∧ (hsWriteW t { budget := K } c0 c1 c2).1 = 3) ∧
    (K < (c0 ++ (c1 ++ c2)).length → ∃ e, (hsWriteW t { budget := K } c0 c1 c2).2.1 = some e ∧ e.cause = .root t) := by
  have h0 : Healthy K [] ({ budget := K } : BW) := ⟨rfl, by simp, rfl⟩
  have := hsWritesW_spec (K := K) t [("write c0s0", c0), ("write c0s1", c1), ("write c2s2", c2)] [] _ h0 rfl
  simpa [hsWriteW] using this

/-! ## 4. FLV -/

/-- `cut_prefix_flv` — re-export of C09's `demux_truncated` (class-only model): truncation at any offset gives
exactly the whole tags, then io.EOF. -/
theorem cut_prefix_flv (hasVideo hasAudio : Bool) (tags : List Flv.Tag) (h : ∀ t ∈ tags, t.WF) (k : Nat) :
    Flv.demux ((Flv.mux hasVideo hasAudio tags).take k) =
      (if k < 13 then .err .eof
       else .ok ({ version := 1, hasVideo := hasVideo, hasAudio := hasAudio }, Flv.wholeTags (k - 13) tags, .err .eof)) ∧
    Flv.wholeTags (k - 13) tags <+: tags :=
  Oryx.Props.C09.demux_truncated hasVideo hasAudio tags h k

/-- … and for every transport error `t` (cut: `t = 0` → io.EOF; injected: that error), with the error VALUE:
flv.go returns it unwrapped, so the cause is the transport's error itself. -/
theorem cut_inject_flv (t : Nat) (hv ha : Bool) (tags : List Flv.Tag) (h : ∀ tg ∈ tags, tg.WF) (k : Nat) :
    (k < 13 → ∃ e, flvDemuxE t ((Flv.mux hv ha tags).take k) = .err e ∧ e.cause = .root t) ∧
    (13 ≤ k → ∃ e, flvDemuxE t ((Flv.mux hv ha tags).take k) =
        .ok ({ version := 1, hasVideo := hv, hasAudio := ha }, Flv.wholeTags (k - 13) tags, .err e) ∧ e.cause = .root t) ∧
    Flv.wholeTags (k - 13) tags <+: tags :=
  ⟨(flv_demux_cut t hv ha tags h k).1, (flv_demux_cut t hv ha tags h k).2, Flv.wholeTags_prefix _ _⟩

/-! ## 5. writers over a transport that fails -/

/-- **write_fault** (RTMP). The transport accepts `K` bytes and then fails with `t`; bufio flushes by ANY policy
`pol`. Writing the session message by message until the first error:
  * the bytes delivered are exactly the first `K` bytes of the session's bytes;
  * the number `n` of `WriteMessage` calls that returned nil = the number of messages wholly delivered;
  * if `K` is less than the session's length the call in progress returns an error whose cause is `t`;
    otherwise no call fails and `n` = all;
  * hence (by the cut theorem) the peer, reading what was delivered from a transport that then ends or fails with
    any `t'`, gets exactly the `n` acknowledged messages, then an error with that transport's cause. -/
theorem write_fault (msgs : List Msg) (hall : ∀ m ∈ msgs, MsgOK m) (c : Nat) (hc : 1 ≤ c) (t K : Nat) (pol : Pol)
    (st : Reader) (hic : st.inChunk = c) (hcl : Clean st) :
    ∃ W n e w', writeAll c msgs = .ok W ∧ writeSessionW t pol c { budget := K } msgs = .ok (n, e, w') ∧
      w'.out = W.take K ∧ n = (wholeMsgs c K msgs).length ∧
      (K < W.length → ∃ e', e = some e' ∧ e'.cause = .root t) ∧
      (W.length ≤ K → e = none ∧ n = msgs.length) ∧
      ∀ (t' fuel : Nat), w'.out.length < fuel →
        Outcome t' (readSessionE fuel st t' w'.out) ((msgs.take n).map received)
          ((∃ W', writeAll c (msgs.take n) = .ok W' ∧ W'.length = K) ∨ W.length ≤ K) := by
  obtain ⟨W, hw, hcut⟩ := session_cut msgs hall c st hc hic hcl
  have h0 : Healthy K [] ({ budget := K } : BW) := ⟨rfl, by simp, rfl⟩
  obtain ⟨n, e, w', hs, ho, hn, hnone, hsome⟩ := writeSessionW_spec (K := K) t pol msgs hall c W [] _ hc hw h0 rfl
  simp only [List.nil_append, List.length_nil, Nat.sub_zero] at ho hn hnone hsome
  refine ⟨W, n, e, w', hw, hs, ho, hn, hsome, fun hk => ⟨hnone hk, ?_⟩, fun t' fuel hf => ?_⟩
  · rw [hn, wholeMsgs_all msgs hall c K W hc hw hk]
  · rw [ho] at hf ⊢
    obtain ⟨e'', he, hce, hb⟩ := hcut t' K fuel hf
    rw [hn, ← wholeMsgs_eq_take]
    exact ⟨e'', he, fun h0 => (h0 ▸ hce).cut, fun hne => hce.inject hne, hb⟩

/-- **write_fault** (FLV). `WriteHeader` + `WriteTag`s straight onto a transport that accepts `K` bytes: bytes
delivered = the first `K` bytes of the file; the header call succeeded iff `K ≥ 13`; tags acknowledged = tags wholly
delivered; the call in progress returns the transport's error itself (unwrapped); and the demuxer on the delivered
bytes returns exactly the acknowledged tags (by `cut_inject_flv`). -/
theorem write_fault_flv (t K : Nat) (hv ha : Bool) (tags : List Flv.Tag) (h : ∀ tg ∈ tags, tg.WF) :
    (flvMuxW t { budget := K } hv ha tags).2.2.out = (Flv.mux hv ha tags).take K ∧
    (flvMuxW t { budget := K } hv ha tags).1 = (if K < 13 then none else some (Flv.wholeTags (K - 13) tags).length) ∧
    ((Flv.mux hv ha tags).length ≤ K → (flvMuxW t { budget := K } hv ha tags).2.1 = none) ∧
    (K < (Flv.mux hv ha tags).length → (flvMuxW t { budget := K } hv ha tags).2.1 = some (.root t)) ∧
    (13 ≤ K → ∀ t', ∃ e, flvDemuxE t' (flvMuxW t { budget := K } hv ha tags).2.2.out =
        .ok ({ version := 1, hasVideo := hv, hasAudio := ha }, Flv.wholeTags (K - 13) tags, .err e) ∧ e.cause = .root t') := by
  obtain ⟨h1, h2, h3, h4⟩ := flvMuxW_spec t K hv ha tags
  refine ⟨h1, h2, h3, h4, fun hk t' => ?_⟩
  rw [h1]
  exact (flv_demux_cut t' hv ha tags h K).2 hk

/-- The sticky error: once the transport has failed, every later `Write` and `Flush` of bufio returns that same
error and nothing more is delivered. -/
theorem sticky (t : Nat) (pol : Pol) (w : BW) (e : Err) (h : w.err = some e) (p : Bytes) :
    w.write t pol p = (w, some e) ∧ w.flush t = (w, some e) := by
  simp [BW.write, BW.flush, h]

/-! ## 6. the whole property -/

/-- C08 over the models: (1) the errors algebra; (2) RTMP reads under a cut or an injected error; (3) handshake
reads; (4) FLV reads; (5) RTMP and FLV writes over a failing transport, with what the peer then receives. -/
def C08_statement : Prop :=
  -- (1) errors package: cause through any nesting, message chain, nil stays nil
  (∀ (ls : List Layer) (r : Nat),
      causeO (build ls (some (.root r))) = some (.root r) ∧
      (build ls (some (.root r))).map Err.message = some (joinColon ((ls.map Layer.msg).flatten ++ [Err.rootText r])) ∧
      build ls none = none) ∧
  -- (2) RTMP sessions: every cut offset / injected error at every read offset
  (∀ (msgs : List Msg), (∀ m ∈ msgs, MsgOK m) → ∀ (c : Nat), 1 ≤ c → ∀ (st : Reader), st.inChunk = c → Clean st →
    ∃ W, writeAll c msgs = .ok W ∧ ∀ (t k fuel : Nat), (W.take k).length < fuel →
      Outcome t (readSessionE fuel st t (W.take k)) ((wholeMsgs c k msgs).map received)
        ((∃ W', writeAll c (wholeMsgs c k msgs) = .ok W' ∧ W'.length = k) ∨ W.length ≤ k) ∧
      wholeMsgs c k msgs = msgs.take (wholeMsgs c k msgs).length ∧
      ((wholeMsgs c k msgs).map received).map Msg.view = (wholeMsgs c k msgs).map Msg.view ∧
      (W.length ≤ k → wholeMsgs c k msgs = msgs)) ∧
  -- (3) handshake reads
  (∀ (t : Nat) (c0 c1 c2 rest : Bytes), c0.length = 1 → c1.length = 1536 → c2.length = 1536 → ∀ k,
    (3073 ≤ k → hsReadE t ((c0 ++ (c1 ++ (c2 ++ rest))).take k) = .ok ((c0, c1, c2), rest.take (k - 3073))) ∧
    (k < 3073 → ∃ e, hsReadE t ((c0 ++ (c1 ++ (c2 ++ rest))).take k) = .err e ∧ e.cause = .root t)) ∧
  -- (4) FLV files: every cut offset / injected error at every read offset
  (∀ (t : Nat) (hv ha : Bool) (tags : List Flv.Tag), (∀ tg ∈ tags, tg.WF) → ∀ k,
    (k < 13 → ∃ e, flvDemuxE t ((Flv.mux hv ha tags).take k) = .err e ∧ e.cause = .root t) ∧
    (13 ≤ k → ∃ e, flvDemuxE t ((Flv.mux hv ha tags).take k) =
        .ok ({ version := 1, hasVideo := hv, hasAudio := ha }, Flv.wholeTags (k - 13) tags, .err e) ∧ e.cause = .root t) ∧
    Flv.wholeTags (k - 13) tags <+: tags) ∧
  -- (5a) RTMP writer over a failing transport, any bufio policy
  (∀ (msgs : List Msg), (∀ m ∈ msgs, MsgOK m) → ∀ (c : Nat), 1 ≤ c → ∀ (t K : Nat) (pol : Pol)
      (st : Reader), st.inChunk = c → Clean st →
    ∃ W n e w', writeAll c msgs = .ok W ∧ writeSessionW t pol c { budget := K } msgs = .ok (n, e, w') ∧
      w'.out = W.take K ∧ n = (wholeMsgs c K msgs).length ∧
      (K < W.length → ∃ e', e = some e' ∧ e'.cause = .root t) ∧
      (W.length ≤ K → e = none ∧ n = msgs.length) ∧
      ∀ (t' fuel : Nat), w'.out.length < fuel →
        Outcome t' (readSessionE fuel st t' w'.out) ((msgs.take n).map received)
          ((∃ W', writeAll c (msgs.take n) = .ok W' ∧ W'.length = K) ∨ W.length ≤ K)) ∧
  -- (5b) FLV muxer over a failing transport
  (∀ (t K : Nat) (hv ha : Bool) (tags : List Flv.Tag), (∀ tg ∈ tags, tg.WF) →
    (flvMuxW t { budget := K } hv ha tags).2.2.out = (Flv.mux hv ha tags).take K ∧
    (flvMuxW t { budget := K } hv ha tags).1 = (if K < 13 then none else some (Flv.wholeTags (K - 13) tags).length) ∧
    ((Flv.mux hv ha tags).length ≤ K → (flvMuxW t { budget := K } hv ha tags).2.1 = none) ∧
    (K < (Flv.mux hv ha tags).length → (flvMuxW t { budget := K } hv ha tags).2.1 = some (.root t)) ∧
    (13 ≤ K → ∀ t', ∃ e, flvDemuxE t' (flvMuxW t { budget := K } hv ha tags).2.2.out =
        .ok ({ version := 1, hasVideo := hv, hasAudio := ha }, Flv.wholeTags (K - 13) tags, .err e) ∧ e.cause = .root t'))

/-- **C08** holds of the models, at full strength. (What the theorem does not carry is outside the models: that
`bufio`, `io.ReadFull`, `io.CopyN`, `binary.Read` realise the transport model stated at the top of this file, and
that the hand-written models are rtmp.go / flv.go / errors.go — both exercised by `corr C08` at every offset. The
exact io.EOF-vs-io.ErrUnexpectedEOF split INSIDE a message is fixed by the model and compared with the
implementation at every offset; the theorems give: one of the two, io.EOF on every message boundary and right
after a basic header, io.ErrUnexpectedEOF inside a message header — `cut_header_boundary`.) -/
theorem C08 : C08_statement :=
  ⟨fun ls r => ⟨cause_any_nesting ls r, message_chain ls r, build_none ls⟩,
   fun msgs hall c hc st hic hcl => cut_session msgs hall c hc st hic hcl,
   fun t c0 c1 c2 rest h0 h1 h2 k => hs_cut t c0 c1 c2 rest h0 h1 h2 k,
   fun t hv ha tags h k => cut_inject_flv t hv ha tags h k,
   fun msgs hall c hc t K pol st hic hcl => write_fault msgs hall c hc t K pol st hic hcl,
   fun t K hv ha tags h => write_fault_flv t K hv ha tags h⟩

/-! ## non-vacuity -/

/-- `Wrap` puts the message layer inside and the stack layer outside, as errors.go does. -/
example : wrap "read chunk 128B" (some (.root 1)) = some (.withStack (.withMessage "read chunk 128B" (.root 1))) := rfl

/-- The chain of a real read error of the RTMP path. -/
example : (Err.withMessage "read message payload" (.withStack (.withMessage "read chunk 128B" (.root 1)))).message
    = "read message payload: read chunk 128B: unexpected EOF" := by decide

/-- Stopping one layer early is NOT the cause (what a broken `Cause` would return). -/
example : (Err.withStack (.withMessage "m" (.root 0))).unwrap1 ≠ (Err.withStack (.withMessage "m" (.root 0))).cause := by
  decide

/-- A session of the domain: Set Chunk Size 2, then a 5-byte message at an extended timestamp (3 chunks). -/
def exSet : Msg := { hdr := { cid := 2, ty := 1, sid := 0, ts := 0 }, payload := [0, 0, 0, 2] }
def exMsg : Msg := { hdr := { cid := 7, ty := 9, sid := 1, ts := 0xFFFFFF }, payload := [1, 2, 3, 4, 5] }

theorem ex_ok : ∀ m ∈ [exSet, exMsg], MsgOK m := by
  intro m hm
  simp only [List.mem_cons, List.mem_nil_iff, or_false] at hm
  rcases hm with rfl | rfl
  · refine ⟨⟨by decide, by decide, by decide, by decide, by decide, by decide, by decide, ?_⟩, fun _ => by decide⟩
    exact ⟨fun _ => by decide, fun h => absurd h (by decide), fun h => absurd h (by decide)⟩
  · refine ⟨⟨by decide, by decide, by decide, by decide, by decide, by decide, by decide, ?_⟩, fun h => absurd h (by decide)⟩
    exact ⟨fun h => absurd h (by decide), fun h => absurd h (by decide), fun h => absurd h (by decide)⟩

/-- Its wire is 16 + 31 = 47 bytes; cut at 45 the reader returns the first message only and io.ErrUnexpectedEOF;
cut at 16 (the message boundary) io.EOF; cut at 34 — a chunk boundary INSIDE the second message, where the reader
polls for the next basic header — also io.EOF, still only the first message; an injected error at 30 surfaces as
itself. -/
example : (match writeAll 128 [exSet, exMsg] with
    | .ok W => W.length == 47 &&
        (match readSession 128 0 (W.take 45) with | (ms, .err e) => ms.length == 1 && e.cls == .ueof | _ => false) &&
        (match readSession 128 0 (W.take 34) with | (ms, .err e) => ms.length == 1 && e.cls == .eof | _ => false) &&
        (match readSession 128 0 (W.take 16) with | (ms, .err e) => ms.length == 1 && e.cls == .eof | _ => false) &&
        (match readSession 128 2 (W.take 30) with | (ms, .err e) => ms.length == 1 && e.cls == .inject | _ => false) &&
        (match readSession 128 0 W with | (ms, .err e) => ms.length == 2 && e.cls == .eof | _ => false)
    | _ => false) = true := by decide +kernel

/-- A writer whose transport accepts 40 of the 47 bytes: one write acknowledged, the second fails with the
transport's cause in `Flush` (everything fits bufio's buffer), 40 bytes delivered. -/
example : (match writeSessionW 2 (goBufio 4096) 128 { budget := 40 } [exSet, exMsg] with
    | .ok (n, some e, w) => n == 1 && e.cls == .inject && w.out.length == 40 && e.shape == "SMR2"
    | _ => false) = true := by decide +kernel

end Oryx.Props.C08
