/-
  C08 — I/O failures surface as errors that keep their root cause.
  Only property statements, their short proofs from the helper lemmas, and non-vacuity examples.
  Models: Oryx/Model/Errors.lean (errors/errors.go), Oryx/Model/IoFault.lean (the RTMP / FLV I/O paths over
  a transport that ends or fails, every wrap site a layer).
-/
import Oryx.Proofs.Errors
namespace Oryx.Props.C08
open Oryx Oryx.Errors

/-! ## the errors package -/

/-- `errors.Cause` recovers the root through ANY nesting of `WithMessage / WithStack / Wrap / Wrapf`. -/
theorem cause_any_nesting (ls : List Layer) (r : Nat) :
    causeO (build ls (some (.root r))) = some (.root r) := by
  obtain ⟨e', h, hc, _⟩ := build_some ls (.root r)
  simp [h, causeO, hc, Err.cause]

/-- … and over any non-nil error the tower keeps that error's cause. -/
theorem cause_tower (ls : List Layer) (e : Err) : causeO (build ls (some e)) = some e.cause := by
  obtain ⟨e', h, hc, _⟩ := build_some ls e
  simp [h, causeO, hc]

/-- `Error()` of a tower = the layers' messages, outer to inner, then the root's own text, joined by `": "`
(a bare `WithStack` contributes no message). -/
theorem message_chain (ls : List Layer) (r : Nat) :
    (build ls (some (.root r))).map Err.message =
      some (joinColon ((ls.map Layer.msg).flatten ++ [Err.rootText r])) := by
  obtain ⟨e', h, hc, hm⟩ := build_some ls (.root r)
  rw [h, Option.map_some, message_eq_chain e', hm, hc]
  simp [Err.messages, Err.cause, Err.message]

/-- Same for every error value (whatever built it). -/
theorem message_chain_err (e : Err) : e.message = joinColon (e.messages ++ [e.cause.message]) :=
  message_eq_chain e

/-- Every constructor, and every tower of them, maps nil to nil. -/
theorem wrap_nil :
    Errors.withStack none = none ∧ (∀ m, Errors.withMessage m none = none) ∧ (∀ m, wrap m none = none) ∧
    (∀ m, wrapf m none = none) ∧ causeO none = none ∧ ∀ ls, build ls none = none :=
  ⟨rfl, fun _ => rfl, fun _ => rfl, fun _ => rfl, rfl, build_none⟩

/-- … and a non-nil error to a non-nil error. -/
theorem wrap_some (ls : List Layer) (e : Err) : (build ls (some e)).isSome = true := by
  obtain ⟨e', h, _⟩ := build_some ls e
  simp [h]

theorem cause_idempotent (e : Err) : e.cause.cause = e.cause := cause_cause e

/-- The cause is always a root (an error without a `Cause()` method). -/
theorem cause_root (e : Err) : ∃ r, e.cause = .root r := cause_is_root e

/-- `Wrap` puts the message layer inside and the stack layer outside, as errors.go does. -/
example : wrap "read chunk 128B" (some (.root 1)) = some (.withStack (.withMessage "read chunk 128B" (.root 1))) := rfl

/-- Non-vacuity / sanity: the chain of a real read error of the RTMP path. -/
example : (Err.withMessage "read message payload" (.withStack (.withMessage "read chunk 128B" (.root 1)))).message
    = "read message payload: read chunk 128B: unexpected EOF" := by decide

/-- Stopping one layer early is NOT the cause (what a broken `Cause` would return). -/
example : (Err.withStack (.withMessage "m" (.root 0))).unwrap1 ≠ (Err.withStack (.withMessage "m" (.root 0))).cause := by
  decide

end Oryx.Props.C08
