/-
  C19 — HTTP API responses are a well-formed envelope the client half reads back.
  Statements over ALL codecs satisfying the stated `encoding/json` law, all value trees, all error
  kinds and codes, all callbacks. `encoding/json` / `net/http` are parameters (Codec); partial there.
-/
import Oryx.Model.Http
namespace Oryx.Props.C19
open Oryx Oryx.Http

/-! ### gates: facts extracted from the Go source that the theorems rest on -/

example : Gen.Http.errorDispatch = ["SystemComplexError", "SystemError", "AppError"] := by decide
example : Gen.Http.plainDefaultStatus = 500 ∧ Gen.Http.plainStatusOverride = "HTTPStatus" := by decide
example : Gen.Http.successKeys = ["code", "server", "data"] ∧ Gen.Http.successCode = some 0 := by decide
example : Gen.Http.sysErrorKeys = ["code"] ∧ Gen.Http.appErrorKeys = ["code", "data"] ∧
    Gen.Http.cplxErrorKeys = ["code", "data"] := by decide
example : Gen.Http.clientKeys = ["code", "data"] := by decide
example : Gen.Http.jsonContentType = "application/json" ∧
    Gen.Http.callbackContentType = "application/javascript" := by decide
example : Gen.Http.callbackParam = "callback" ∧ (Gen.Http.jsonpFormat = some "%s(%s)" ∨ Gen.Http.jsonpFormat = none) := by decide
example : Gen.Http.marshalFailureGoesToError = true := by decide
/-- The repair of F18 is in place: the client rejects a status outside [200, 300) before parsing. -/
example : Gen.Http.clientChecksStatus = true ∧ Gen.Http.clientStatusLo = 200 ∧ Gen.Http.clientStatusHi = 300 := by
  decide

/-! ### domain -/

/-- The status a plain error is answered with. -/
def plainStatus (s? : Option Nat) : Nat := (s?.getD 500)

/-- Domain of the error clauses: coded errors carry a non-zero code (any sign); a plain error's own
HTTP status is an error status 300..999 (net/http panics outside 100..999, and turns 1xx into an
informational response followed by 200; an error that declares itself 2xx is not an error answer). -/
def ErrWF : Err → Prop
  | .cplx code _ => code ≠ 0
  | .sys code => code ≠ 0
  | .app code _ _ => code ≠ 0
  | .plain _ s? => 300 ≤ plainStatus s? ∧ plainStatus s? ≤ 999

/-- The code the client must report for an error. -/
def expectedCode : Err → Int
  | .cplx code _ => code
  | .sys code => code
  | .app code _ _ => code
  | .plain _ s? => plainStatus s?

theorem expected_ne_zero (e : Err) (h : ErrWF e) : expectedCode e ≠ 0 := by
  cases e <;> simp only [ErrWF, expectedCode] at * <;> first | exact h | omega

/-! ### helper facts (short; kept here because they are only unfoldings) -/

theorem plainResp_status {T} (c : Codec T) (t : String) (s? : Option Nat) :
    (plainResp c t s?).status = plainStatus s? ∧ (plainResp c t s?).body = c.text t ∧
    (plainResp c t s?).ctype = textPlain := by
  cases s? <;> simp [plainResp, plainStatus, Gen.Http.plainStatusOverride, Gen.Http.plainDefaultStatus]

theorem read_of_error_status {T} (c : Codec T) (r : Resp T) (h : 300 ≤ r.status) :
    r.read c = .fail r.status := by
  have : ¬ r.status < 300 := by omega
  simp [Resp.read, apiRequest, Gen.Http.clientChecksStatus, Gen.Http.clientStatusLo, Gen.Http.clientStatusHi, this]

theorem read_200 {T} (c : Codec T) (r : Resp T) (h : r.status = 200) :
    r.read c = apiParse (c.parse r.body) := by
  simp [Resp.read, apiRequest, Gen.Http.clientChecksStatus, Gen.Http.clientStatusLo, Gen.Http.clientStatusHi, h]

theorem jsonHandler_ok {T} (c : Codec T) (rv : JVal) (t : T) (h : c.marshal rv = some t) :
    jsonHandler c rv "" = { status := 200, ctype := "application/json", server := true, body := t } := by
  simp [jsonHandler, h, Gen.Http.jsonContentType, Gen.Http.HttpJson]

theorem jsonHandler_fail {T} (c : Codec T) (rv : JVal) (cb : String) (h : c.marshal rv = none) :
    jsonHandler c rv cb = plainResp c (c.marshalErr rv) none := by
  simp [jsonHandler, h, Gen.Http.marshalFailureGoesToError]

/-! ### the property -/

/-- Success: 200, `application/json`, `Server` header, body = the marshalled envelope
`{code:0, server:pid, data:v}`, and the client reads it back as code 0 without error. -/
theorem success_reads_zero {T} (c : Codec T) (hc : c.Lawful) (pid : Nat) (v : JVal) (t : T)
    (hm : c.marshal (successEnvelope pid v) = some t) :
    let r := respondData c pid v ""
    r.status = 200 ∧ r.ctype = "application/json" ∧ r.server = true ∧ r.body = t ∧
    c.parse r.body = some (.obj (mkObj [("code", .num 0), ("data", v), ("server", .num pid)])) ∧
    r.read c = .ok 0 := by
  intro r
  have hr : r = { status := 200, ctype := "application/json", server := true, body := t } :=
    jsonHandler_ok c _ t hm
  have hp := hc _ _ hm
  refine ⟨by rw [hr], by rw [hr], by rw [hr], by rw [hr], by rw [hr]; exact hp, ?_⟩
  rw [read_200 c r (by rw [hr]), hr]
  show apiParse (c.parse t) = _
  rw [hp]
  simp [successEnvelope, apiParse, mkObj, JMembers.get?, codeKey, Gen.Http.clientKeys, Gen.Http.successCode]

/-- Every error kind, every non-zero code (negatives included), every plain status in the domain,
whether or not the error body can be marshalled: the client reports an error, never code 0; and
when the body marshals, exactly the error's own code (resp. its HTTP status). -/
theorem error_reads_nonzero {T} (c : Codec T) (hc : c.Lawful) (e : Err) (he : ErrWF e) :
    (∃ k, (respondErr c e "").read c = .fail k ∧ k ≠ 0) ∧
    (c.marshal e.body ≠ none ∨ e.kindName = none → (respondErr c e "").read c = .fail (expectedCode e)) := by
  have hne := expected_ne_zero e he
  -- the plain response (also the landing place of a marshal failure)
  have plainCase : ∀ (t : String) (s? : Option Nat), 300 ≤ plainStatus s? →
      (plainResp c t s?).read c = .fail (plainStatus s?) := by
    intro t s? h
    have := read_of_error_status c (plainResp c t s?) (by rw [(plainResp_status c t s?).1]; exact h)
    rw [this, (plainResp_status c t s?).1]
  have coded : ∀ (code : Int) (rest : List (String × JVal)), code ≠ 0 →
      ∀ t, c.marshal (.obj (mkObj (("code", .num code) :: rest))) = some t →
      (jsonHandler c (.obj (mkObj (("code", .num code) :: rest))) "").read c = .fail code := by
    intro code rest hcode t hm
    rw [jsonHandler_ok c _ t hm, read_200 c _ rfl]
    show apiParse (c.parse t) = _
    rw [hc _ _ hm]
    simp [apiParse, mkObj, JMembers.get?, codeKey, Gen.Http.clientKeys, hcode]
  cases e with
  | plain t s? =>
    have h := plainCase t s? he.1
    have hd : (Err.plain t s?).dispatched = false := rfl
    simp only [respondErr, hd, Err.text, Err.status?, expectedCode] at *
    exact ⟨⟨_, h, hne⟩, fun _ => h⟩
  | cplx code msg =>
    have hd : (Err.cplx code msg).dispatched = true := by
      simp [Err.dispatched, Err.kindName, Gen.Http.errorDispatch]
    simp only [respondErr, hd, if_true, Err.body, expectedCode] at *
    cases hm : c.marshal (.obj (mkObj [("code", .num code), ("data", .str msg)])) with
    | none =>
      rw [jsonHandler_fail c _ _ hm]
      exact ⟨⟨_, plainCase _ none (by decide), by decide⟩, fun h => by simp [Err.kindName] at h⟩
    | some t => exact ⟨⟨_, coded code _ he t hm, he⟩, fun _ => coded code _ he t hm⟩
  | sys code =>
    have hd : (Err.sys code).dispatched = true := by
      simp [Err.dispatched, Err.kindName, Gen.Http.errorDispatch]
    simp only [respondErr, hd, if_true, Err.body, expectedCode] at *
    cases hm : c.marshal (.obj (mkObj [("code", .num code)])) with
    | none =>
      rw [jsonHandler_fail c _ _ hm]
      exact ⟨⟨_, plainCase _ none (by decide), by decide⟩, fun h => by simp [Err.kindName] at h⟩
    | some t => exact ⟨⟨_, coded code _ he t hm, he⟩, fun _ => coded code _ he t hm⟩
  | app code text s? =>
    have hd : (Err.app code text s?).dispatched = true := by
      simp [Err.dispatched, Err.kindName, Gen.Http.errorDispatch]
    simp only [respondErr, hd, if_true, Err.body, expectedCode] at *
    cases hm : c.marshal (.obj (mkObj [("code", .num code), ("data", .str text)])) with
    | none =>
      rw [jsonHandler_fail c _ _ hm]
      exact ⟨⟨_, plainCase _ none (by decide), by decide⟩, fun h => by simp [Err.kindName] at h⟩
    | some t => exact ⟨⟨_, coded code _ he t hm, he⟩, fun _ => coded code _ he t hm⟩

/-- Success and failure are never confused — stated over what the client receives, the pair
(status, body): no pair is at once the answer to a success and the answer to an error of the domain;
the client separates them (code 0 / error). -/
theorem never_confused {T} (c : Codec T) (hc : c.Lawful) (pid : Nat) (v : JVal) (e : Err) (he : ErrWF e)
    (hm : c.marshal (successEnvelope pid v) ≠ none) :
    let rs := respondData c pid v ""
    let re := respondErr c e ""
    rs.read c = .ok 0 ∧ (∃ k, re.read c = .fail k) ∧ ¬ (rs.status = re.status ∧ rs.body = re.body) := by
  intro rs re
  obtain ⟨t, ht⟩ := Option.ne_none_iff_exists'.mp hm
  have h1 : rs.read c = .ok 0 := (success_reads_zero c hc pid v t ht).2.2.2.2.2
  obtain ⟨⟨k, hk, _⟩, _⟩ := error_reads_nonzero c hc e he
  refine ⟨h1, ⟨k, hk⟩, ?_⟩
  rintro ⟨hs, hb⟩
  have : rs.read c = re.read c := by simp [Resp.read, hs, hb]
  rw [h1, hk] at this
  cases this

/-- A value that cannot be marshalled yields the error response — status 500, the marshaller's error
text as the whole body (nothing of the value, no truncated JSON), which the client reads as an
error — for the success handler and for every coded error handler, with or without a callback. -/
theorem unmarshalable_is_error {T} (c : Codec T) (pid : Nat) (v : JVal) (cb : String)
    (hm : c.marshal (successEnvelope pid v) = none) :
    let r := respondData c pid v cb
    r.status = 500 ∧ r.ctype = textPlain ∧ r.body = c.text (c.marshalErr (successEnvelope pid v)) ∧
    r.read c = .fail 500 := by
  intro r
  have hr : r = plainResp c (c.marshalErr (successEnvelope pid v)) none := jsonHandler_fail c _ cb hm
  have hp := plainResp_status c (c.marshalErr (successEnvelope pid v)) none
  refine ⟨by rw [hr]; exact hp.1, by rw [hr]; exact hp.2.2, by rw [hr]; exact hp.2.1, ?_⟩
  have := read_of_error_status c r (by rw [hr, hp.1]; decide)
  rw [this, hr, hp.1]; rfl

/-- With a callback the very same marshalled bytes are wrapped as `callback(json)`, the content type
is the JavaScript one and the status is unchanged — success and coded errors alike. -/
theorem callback_wraps_same_json {T} (c : Codec T) (rv : JVal) (cb : String) (hcb : cb ≠ "") (t : T)
    (hm : c.marshal rv = some t) :
    (jsonHandler c rv "").body = t ∧
    (jsonHandler c rv cb).body = c.jsonp cb (jsonHandler c rv "").body ∧
    (jsonHandler c rv cb).ctype = "application/javascript" ∧
    (jsonHandler c rv cb).status = (jsonHandler c rv "").status ∧
    (jsonHandler c rv cb).server = true := by
  simp [jsonHandler, hm, hcb, Gen.Http.callbackContentType, Gen.Http.HttpJavaScript]

/-- Instances of `callback_wraps_same_json` for the two users of `jsonHandler`. -/
theorem callback_wraps_success {T} (c : Codec T) (pid : Nat) (v : JVal) (cb : String) (hcb : cb ≠ "") (t : T)
    (hm : c.marshal (successEnvelope pid v) = some t) :
    (respondData c pid v cb).body = c.jsonp cb (respondData c pid v "").body :=
  (callback_wraps_same_json c _ cb hcb t hm).2.1

/-! ### non-vacuity and the F18 regression witness -/

/-- A lawful codec: bodies are either a marshalled tree or raw text; raw text that *looks like*
`{"code":0}` parses to that object (as `encoding/json` would), anything else raw does not parse. -/
def exCodec : Codec (JVal ⊕ String) where
  marshal v := match v with
    | .bad => none
    | .obj (.cons _ _ (.cons _ .bad _)) => none     -- `data` is unmarshalable
    | v => some (.inl v)
  parse
    | .inl v => some v
    | .inr s => if s = "{\"code\":0}\n" then some (.obj (mkObj [("code", .num 0)])) else none
  text s := .inr (s ++ "\n")
  jsonp cb t := match t with
    | .inl _ => .inr (cb ++ "(…)")
    | .inr s => .inr (cb ++ "(" ++ s ++ ")")
  marshalErr _ := "json: unsupported type: chan int"

example : exCodec.Lawful := by
  intro v t h
  simp only [exCodec] at h ⊢
  split at h <;> first | (cases h; rfl) | cases h

example : ErrWF (.sys (-7)) ∧ ErrWF (.cplx 100 "x") ∧ ErrWF (.app 3 "{\"code\":0}" (some 200)) ∧
    ErrWF (.plain "{\"code\":0}" none) ∧ ErrWF (.plain "gone" (some 404)) := by
  refine ⟨?_, ?_, ?_, ?_, ?_⟩ <;> (unfold ErrWF; try unfold plainStatus) <;> decide

example : (respondData exCodec 42 (.str "a\"b") "").read exCodec = .ok 0 := by decide
example : (respondErr exCodec (.sys (-7)) "").read exCodec = .fail (-7) := by decide
example : (respondData exCodec 42 .bad "cb").status = 500 := by decide

/-- F18 (repaired; regression witness). The plain error whose text is `{"code":0}` is answered with
status 500 and that text as the body. The client as it was (status ignored) read it as success … -/
theorem f18_witness_unrepaired_client :
    let r := respondErr exCodec (.plain "{\"code\":0}" none) ""
    r.status = 500 ∧ apiRequestIgnoringStatus exCodec r.status r.body = .ok 0 := by decide

/-- … the repaired client (the one modelled, gated by `clientChecksStatus`) reports an error. -/
theorem f18_repaired :
    (respondErr exCodec (.plain "{\"code\":0}" none) "").read exCodec = .fail 500 := by decide

/-- The domain bound on a plain error's own status is necessary: an "error" that declares status 200
and whose text is an envelope is indistinguishable from a success for any client. -/
theorem plain_status_2xx_outside_domain :
    (respondErr exCodec (.plain "{\"code\":0}" (some 200)) "").read exCodec = .ok 0 := by decide

end Oryx.Props.C19
