/-
  C13 — websocket messages arrive intact, in order, on an RFC 6455/7692-valid wire.
  Only property statements, their proofs from the helper lemmas of `Oryx.Proofs.WsWrite`, and
  non-vacuity examples. Model: `Oryx.WsWrite` (write side of conn.go, compression.go, prepared.go);
  spec: `Oryx.Spec.Ws` (`serialise`/`parse`).
-/
import Oryx.Proofs.WsSession
import Oryx.Proofs.WsHandshake
import Oryx.Spec.Sha1
import Oryx.Proofs.WsDeadline
namespace Oryx.Props.C13
open Oryx Oryx.WsWrite Oryx.Spec.Ws Oryx.Gen.Websocket

/-- **mask_involution.** Masking is cyclic XOR with the 4-byte key: applying it twice from the same
key position restores the data, for every key (of any length), position and payload. -/
theorem mask_involution (key : Bytes) (pos : Nat) (bs : Bytes) :
    maskBytes key pos (maskBytes key pos bs) = bs :=
  maskBytes_involution key pos bs

/-- The writer's masking, the reader's unmasking and RFC 6455 §5.3 are the same function; a payload
may be (un)masked in pieces with a running key position. -/
theorem mask_is_spec (key : Bytes) (pos : Nat) (a b : Bytes) :
    maskBytes key pos a = xorMask key pos a ∧ maskBytes key pos a = WsRead.maskBytes key pos a ∧
    maskBytes key pos (a ++ b) = maskBytes key pos a ++ maskBytes key (pos + a.length) b :=
  ⟨maskBytes_eq_spec key pos a, maskBytes_eq_read key pos a, maskBytes_append key pos a b⟩

/-- **trunc_writer.** Over ANY partition of a stream into `Write` calls, what the `truncWriter` has
passed downstream followed by what it still holds is the stream, and it holds exactly the last four
bytes (all of it while the stream is shorter): downstream = input minus its last 4 bytes. -/
theorem trunc_writer (parts : List Bytes) :
    (truncRun [] [] parts).2 ++ (truncRun [] [] parts).1 = parts.flatten ∧
    (truncRun [] [] parts).1.length = min 4 parts.flatten.length := by
  have := truncRun_spec parts [] [] (by simp)
  simpa using this

/-- **control_frames.** `WriteControl` with a payload of at most 125 bytes writes exactly one frame in
one transport write: FIN, no RSV bits, 7-bit length form, masked with a fresh key iff the sender is
the client — byte for byte `Spec.serialise` of that frame. A longer payload is refused and nothing is
written; once the close latch is set nothing is written either and the latched error comes back. -/
theorem control_frames (c : WConn) (ty : Nat) (data : Bytes) (hty : WsWrite.isControl ty = true) :
    (data.length ≤ 125 → c.writeErr = none →
      writeControl c ty data =
        (afterWrite (if c.isServer then c else (nextKey c).2) ty
           (serialise (outFrame c.isServer (nextKey c).1 ty true false data)), none)) ∧
    (125 < data.length → (writeControl c ty data).1 = c ∧ (writeControl c ty data).2 ≠ none) ∧
    (∀ e, data.length ≤ 125 → c.writeErr = some e →
      (writeControl c ty data).1.sent = c.sent ∧ (writeControl c ty data).2 = some e) :=
  ⟨fun hl he => writeControl_frame c ty data hty hl he,
   fun hl => writeControl_too_long c ty data hl,
   fun e hl he => writeControl_after_close c ty data e he hty hl⟩

/-- The frame `flushFrame` writes (server, any `final`/`extra`; client, `extra = []`) is byte for byte
the spec's wire image of: opcode = current frame type, FIN = `final`, RSV1 = pending compress flag,
mask per role, MINIMAL length form, payload = buffered bytes followed by `extra`. This is the
single place where frames are assembled; `writer_wellformed` below builds on it. -/
theorem flush_is_spec_frame (c : WConn) (w : MW) (final : Bool) (extra : Bytes)
    (he : c.writeErr = none) (hft : w.frameType < 16)
    (hctl : (WsWrite.isControl w.frameType && (!final || w.buf.length + extra.length > maxControlFramePayloadSize)) = false)
    (hx : c.isServer = false → extra = []) :
    (flushFrame c w final extra).2.2 = none ∧
    (flushFrame c w final extra).1.sent =
      serialise (outFrame c.isServer (nextKey c).1 w.frameType final w.compress (w.buf ++ extra)) :: c.sent := by
  cases hs : c.isServer
  · have hx' := hx hs; subst hx'
    rw [flushFrame_client c w final hs he hft (by simpa using hctl)]
    cases final <;> simp [afterWrite, nextKey] <;> split <;> simp
  · rw [flushFrame_server c w final extra hs he hft hctl]
    cases final <;> simp [afterWrite, outFrame]

/-- With a sync-flushed deflate stream (`z` followed by `00 00 ff ff`) written through the `truncWriter`
in ANY chunking, exactly `z` goes downstream and the four withheld bytes are the tail the `Close` of
the flate wrapper checks for: the message payload on the wire is `z` (RFC 7692 §7.2.1). -/
theorem trunc_sync_flush (chunks : List Bytes) (z : Bytes) (h : chunks.flatten = z ++ [0, 0, 0xff, 0xff]) :
    truncRun [] [] chunks = ([0, 0, 0xff, 0xff], z) := by
  obtain ⟨h1, h2⟩ := trunc_writer chunks
  rw [h] at h1 h2
  have hl : (truncRun [] [] chunks).1.length = 4 := by rw [h2]; simp
  have hd : (truncRun [] [] chunks).2.length = z.length := by
    have := congrArg List.length h1
    simp only [List.length_append, hl] at this
    simp at this; omega
  have := List.append_inj h1 hd
  exact Prod.ext this.2 this.1

/-- **writer_payload.** For EVERY write-buffer size `B ≥ 1`, either role, text or binary, compressed flag
or not, any masking keys, and EVERY sequence of `Write` / `WriteString` / `ReadFrom` calls — i.e. every
partition of the payload into calls and every chunking of the `io.Reader` — no call fails, `Close`
succeeds, and the concatenated (unmasked) payloads of the frames that reached the transport equal the
concatenation of the writes. -/
theorem writer_payload (c : WConn) (ty : Nat) (cz : Bool) (hty : ty = TextMessage ∨ ty = BinaryMessage)
    (hB : 1 ≤ c.bufSize) (hE : c.writeErr = none) (hK : ∀ k ∈ c.keys, k.length = 4) (ops : List WOp) :
    ∃ c1 w1 c2 w2, ∃ frames : List Frame,
      mwOps c { compress := cz, buf := [], frameType := ty } ops = (c1, w1, none) ∧
      mwClose c1 w1 = (c2, w2, none) ∧
      c2.sent = (frames.map serialise).reverse ++ c.sent ∧
      (frames.map (·.payload)).flatten = (ops.map WOp.data).flatten := by
  obtain ⟨c1, w1, c2, w2, frames, h1, h2, h3, h4, _⟩ := writer_message c ty cz hty hB hE hK ops
  exact ⟨c1, w1, c2, w2, frames, h1, h2, h3, h4⟩

/-- **writer_wellformed.** … and those frames form one well-shaped message: at least one frame; the
first carries the message type (and RSV1 iff the message is compressed), every other frame is a
continuation without RSV1; FIN on the last frame and only there; RSV2/RSV3 clear; masked with a 4-byte
key iff the sender is the client; always the MINIMAL length form; what was appended to the wire is
byte for byte their RFC 6455 wire image, and the independent parser `Spec.Ws.parse` (sender rules for
this role; `deflate` = compression negotiated, required for a compressed message) accepts those bytes
and returns exactly these frames. (Payload below 2^63 bytes, as any Go slice.) -/
theorem writer_wellformed (c : WConn) (ty : Nat) (cz : Bool) (hty : ty = TextMessage ∨ ty = BinaryMessage)
    (hB : 1 ≤ c.bufSize) (hE : c.writeErr = none) (hK : ∀ k ∈ c.keys, k.length = 4) (ops : List WOp)
    (deflate : Bool) (hdef : cz = true → deflate = true) (hlen : (ops.map WOp.data).flatten.length < 2 ^ 63) :
    ∃ c1 w1 c2 w2 frames,
      mwOps c { compress := cz, buf := [], frameType := ty } ops = (c1, w1, none) ∧
      mwClose c1 w1 = (c2, w2, none) ∧
      c2.wire = c.wire ++ serialiseAll frames ∧
      parse (senderRole c.isServer) deflate (serialiseAll frames) = .ok frames ∧
      MsgShape c.isServer ty cz frames := by
  obtain ⟨c1, w1, c2, w2, frames, h1, h2, h3, h4, _, h6, _⟩ :=
    writer_wire c ty cz hty hB hE hK ops deflate hdef hlen
  exact ⟨c1, w1, c2, w2, frames, h1, h2, h3, h4, h6⟩

/-- The server's single-frame fast path of `WriteMessage` (no compression): exactly one final frame with
the whole payload — the part copied into the buffer followed by the `extra` part — for every buffer
size and payload. -/
theorem fastpath_single_frame (c : WConn) (ty : Nat) (data : Bytes) (hs : c.isServer = true) (hd : c.deflate = false)
    (hw : c.writer = none) (hE : c.writeErr = none) (hty : ty = TextMessage ∨ ty = BinaryMessage) :
    (writeMessage c ty data).2 = none ∧
    (writeMessage c ty data).1.sent = serialise (outFrame true [] ty true false data) :: c.sent :=
  writeMessage_fastpath c ty data hs hd hw hE hty

/-- **C13_session.** Any sequence of text/binary messages, each written through any mix and partition of
`Write`/`WriteString`/`ReadFrom` calls, by a client or a server writer with any buffer size ≥ 1 and any
masking keys, compression negotiated or not: the reader model of the PEER (opposite role, same
negotiation), fed exactly the bytes the writer model put on the wire, delivers the same sequence of
(type, payload) — for compressed messages the payload is the deflate output `z` of
`trunc_sync_flush`, flagged `compressed`, which `inflate` turns back into the message by the recorded
assumption `inflate (deflate x) = x` — writes nothing back, and then sees the end of the stream.
(Composition of `writer_wellformed`, the C14 refinement of `Spec.Ws.recv`, and the spec receiver's
behaviour on well-shaped messages.) -/
theorem C13_session (isServer deflate : Bool) (B : Nat) (hB : 1 ≤ B) (keys : List Bytes)
    (hK : ∀ k ∈ keys, k.length = 4) (msgs : List (Nat × List WOp))
    (hall : ∀ m ∈ msgs, (m.1 = TextMessage ∨ m.1 = BinaryMessage) ∧ (m.2.map WOp.data).flatten.length < 2 ^ 63) :
    let c0 : WConn := { isServer := isServer, bufSize := B, deflate := deflate, keys := keys }
    (writeMsgs c0 msgs).2 = none ∧
    ∃ t, WsRead.session (WsRead.init (!isServer) deflate 0 (writeMsgs c0 msgs).1.wire) = some t ∧
      t.msgs = msgs.map (fun m => { ty := m.1, compressed := deflate, data := (m.2.map WOp.data).flatten }) ∧
      t.final.replies = [] ∧ t.err = .ueof :=
  WsSession.session_roundtrip isServer deflate B hB keys hK msgs hall

/-! ### the opening handshake (Dial / Upgrade, accept key, extension negotiation)

Model.WsHandshake: util.go's octet classes and parsers, the decision and response of `Upgrader.Upgrade`, the request of
`Dialer.Dial` and its check of the response. `ak` is `computeAcceptKey` (SHA-1 and base64 are a parameter; the driver
compares the library's value with an independent computation over the GUID gated below). -/

open Oryx.Model.WsHs in
/-- util.go's token octets are exactly RFC 7230's `tchar`. -/
theorem hs_token_octets : ∀ c : UInt8, isTokenOctet c = isTchar c := token_octet_is_tchar

open Oryx.Model.WsHs in
/-- `tokenListContainsValue` on a well-formed `1#token` header value (tokens separated by commas, optional white
space around them) answers whether one of the tokens is `value` up to case. -/
theorem hs_token_list (l : List Elem) (hl : l ≠ []) (hwf : ∀ e ∈ l, e.wf) (value : Bytes) :
    tlcvOne (renderElems l) value = l.any (fun e => eqFoldC e.tok value) := tlcvOne_spec l hl hwf value

open Oryx.Model.WsHs in
/-- **`parseExtensions` reads back what the grammar of RFC 6455 section 9.1 writes**: a non-empty list of extensions
(names and parameter names tokens, parameter values tokens or absent) written `name; key=value; key, name…` — the
spelling the library itself uses in its offer and its answer — parses to exactly those extensions: the name under
`""`, the parameters as a map (a repeated key keeps its last value). -/
theorem hs_extension_list (es : List (Bytes × List (Bytes × Bytes))) (hne : es ≠ []) (hok : ∀ e ∈ es, ExtOK e) :
    parseExtensions [renderExts es] = es.map extOf := parseExtensions_rendered es hne hok

open Oryx.Model.WsHs in
/-- The list parsers of util.go terminate: the fuel of the two loops is never exhausted. -/
theorem hs_parsers_terminate (s value : Bytes) (acc : List Ext) :
    (tlcvOneF (s.length + 1) s value).isSome = true ∧ (parseExtValueF (s.length + 1) s acc).isSome = true :=
  ⟨tlcv_fuel s value, parseExt_fuel s acc⟩

open Oryx.Model.WsHs in
/-- **The server's decision, stated outright.** `Upgrade` sets a session up exactly for a GET request that lists
`upgrade` in Connection, `websocket` in Upgrade and `13` in Sec-Websocket-Version, comes from an allowed origin, has
a non-empty key and has not sent anything after its header block (and the application did not try to set the
extensions header itself). -/
theorem hs_server_decision (ak : Bytes → Bytes) (u : Upgrader) (rh : Option Header) (r : Request) :
    (∃ l c s, upgrade ak u rh r = .accept l c s) ↔ acceptable u rh r = true := upgrade_accept_iff ak u rh r

open Oryx.Model.WsHs in
/-- What an accepted request gets: compression exactly when the server enabled it AND the client offered
permessage-deflate; the accept key of the request's challenge; the selected subprotocol; the fixed response lines. -/
theorem hs_server_response (ak : Bytes → Bytes) (u : Upgrader) (rh : Option Header) (r : Request) (l : Header) (c : Bool) (s : Bytes)
    (h : upgrade ak u rh r = .accept l c s) :
    c = (u.enableCompression && offersPmd r) ∧ s = selectSubprotocol u r rh ∧
    l = fixedLines (ak (hfirst r.header (ascii "Sec-Websocket-Key"))) s c ++
        ((rh.getD []).filter (fun p => p.1 != ascii "Sec-Websocket-Protocol")).map (fun p => (p.1, p.2.map sanitize)) :=
  upgrade_accept_shape ak u rh r l c s h

open Oryx.Model.WsHs in
/-- **The client's decision, stated outright.** `Dial` returns a connection exactly for a 101 response whose Upgrade
and Connection values fold to `websocket` / `upgrade` and whose accept key is the one of ITS challenge; compression is
on exactly when the response carries permessage-deflate, and then only with both no_context_takeover parameters
(otherwise the handshake fails as invalid, see `hs_client_bad`). -/
theorem hs_client_decision (ak : Bytes → Bytes) (key : Bytes) (status : Nat) (h : Header) (c : Bool) (sub : Bytes) :
    clientCheck ak key status h = .accept c sub ↔
      responseOk ak key status h = true ∧ sub = hfirst h (ascii "Sec-Websocket-Protocol") ∧
      (match answeredPmd h with
       | none => c = false
       | some e => c = true ∧ extHas e snct = true ∧ extHas e cnct = true) := client_accept_iff ak key status h c sub

open Oryx.Model.WsHs in
theorem hs_client_bad (ak : Bytes → Bytes) (key : Bytes) (status : Nat) (h : Header) :
    clientCheck ak key status h = .badHandshake ↔ responseOk ak key status h = false := client_bad_iff ak key status h

open Oryx.Model.WsHs in
/-- **The library's client and server agree** (the clause "sessions set up through the library's own opening
handshake obey the same" rests on this): for every pair of configurations, every non-empty challenge key and every
set of extra request headers that does not use one of the handshake's own names, the server accepts the request the
client writes, the client accepts the response the server writes, and both ends hold the SAME compression setting —
on exactly when both sides enabled it — and the same subprotocol. -/
theorem hs_agree (ak : Bytes → Bytes) (d : Dialer) (u : Upgrader) (key : Bytes) (reqHdr : Header)
    (hkey : key ≠ []) (horigin : u.originOk = true)
    (huser : ∀ p ∈ reqHdr, canon p.1 ∉ requestNames ∧ (d.subprotocols.isEmpty = false → canon p.1 ≠ ascii "Sec-Websocket-Protocol")) :
    ∃ lines sub,
      handshake ak d u key reqHdr =
        some (.accept lines (d.enableCompression && u.enableCompression) sub,
              some (.accept (d.enableCompression && u.enableCompression) sub)) :=
  handshake_agree ak d u key reqHdr hkey horigin huser

open Oryx.Model.WsHs in
/-- **`parseURL` on every well-formed ws-URI** (RFC 6455 section 3: `ws:` / `wss:`, `//`, host[:port], a path that is
empty or starts with `/`, optionally `?` and a query) gives back exactly its parts; an absent path becomes `/`. -/
theorem hs_ws_uri (secure : Bool) (host path query : Bytes) (hasQuery : Bool)
    (hh : host.contains 47 = false ∧ host.contains 63 = false ∧ host.contains 64 = false)
    (hp : path = [] ∨ ∃ t, path = 47 :: t) (hpq : path.contains 63 = false) (hq : hasQuery = false → query = []) :
    parseURL (renderURI secure host path query hasQuery) =
      some { scheme := if secure then ascii "wss" else ascii "ws", host := host,
             path := if path.isEmpty then [47] else path, rawQuery := query } :=
  parseURL_renderURI secure host path query hasQuery hh hp hpq hq

open Oryx.Model.WsHs in
/-- The address `Dial` connects to: the URI's own port when it has one, otherwise 80 (`ws`) / 443 (`wss`). -/
theorem hs_dial_address (u : WsURL) :
    (lastIndex 58 u.host ≤ lastIndex 93 u.host →
      (hostPortNoPort u).1 = u.host ++ (if u.scheme == ascii "wss" || u.scheme == ascii "https" then ascii ":443" else ascii ":80")
      ∧ (hostPortNoPort u).2 = u.host) ∧
    (lastIndex 58 u.host > lastIndex 93 u.host → (hostPortNoPort u).1 = u.host) :=
  ⟨hostPort_default u, hostPort_explicit u⟩

/-- The accept key as RFC 6455 section 4.2.2 defines it (Spec.Sha1: SHA-1 from FIPS 180-4 and base64 from RFC 4648,
written from the standards) on the example of RFC 6455 section 1.3. The driver compares `computeAcceptKey` with this
specification on every key it uses. -/
theorem hs_accept_key_rfc_sample :
    Oryx.Spec.Sha1.acceptKey (Oryx.Model.WsHs.ascii "dGhlIHNhbXBsZSBub25jZQ==") = Oryx.Model.WsHs.ascii "s3pPLMBiTxaQ9kYGzzhZRbK+xOo=" := by
  decide +kernel

section
open Oryx.Model.WsDeadline Oryx.Proofs.WsDeadline
/-- the library's write paths under the fact the translator reads from conn.go on every run -/
def libDeadlineRun := run Oryx.Gen.Websocket.writesArmOwnDeadline

/-- gate: every function that writes to the transport arms it with the deadline of its own write, unconditionally -/
theorem ws_deadline_fact : Oryx.Gen.Websocket.writesArmOwnDeadline = true := by decide

/-- **The shared write deadline never leaks from one frame to another**: for EVERY history of data writes (under the
connection's write deadline of the moment, possibly none) and control writes (each under the deadline of its call —
the pongs and close replies the library sends by itself included), from any state of the transport, the outcome of each
write and the frames on the wire are those of the specification in which a write depends only on its own deadline and
on the documented latch (an earlier data write that timed out). -/
theorem ws_deadline_own (c : Conn) (ops : List Op) :
    abs (libDeadlineRun c ops).1 = (specRun (abs c) ops).1 ∧ (libDeadlineRun c ops).2 = (specRun (abs c) ops).2 := by
  unfold libDeadlineRun; rw [ws_deadline_fact]; exact run_refines c ops

/-- ... in particular a history whose writes all respect their own deadlines (none, or not yet passed) succeeds
entirely and reaches the wire in order, whatever deadline an earlier frame had left armed on the transport. -/
theorem ws_deadline_all_delivered (c : Conn) (ops : List Op) (hl : c.latched = false)
    (h : ∀ op ∈ ops, op.ownDeadlineOk = true) :
    (libDeadlineRun c ops).2 = ops.map (fun _ => true) ∧ (libDeadlineRun c ops).1.wire = c.wire ++ ops.map Op.id := by
  unfold libDeadlineRun; rw [ws_deadline_fact]; exact all_ok c ops hl h

/-- the hypothesis of `ws_deadline_fact` matters: the variant that skips arming for "no deadline" loses a message -/
theorem ws_deadline_skip_variant_breaks :
    (run false {} [.control 0 (some 1) 1, .data 5 none 2]).2 = [true, false] ∧
    (specRun {} [.control 0 (some 1) 1, .data 5 none 2]).2 = [true, true] := skip_when_none_breaks

/-- non-vacuity: a transport with an expired deadline armed; a pong, five time units later a data message without a
deadline, a data message whose own deadline has passed (fails and latches), and a ping after that -/
example : libDeadlineRun { armed := some 0 } [.control 10 (some 11) 1, .data 15 none 2, .data 16 (some 15) 3, .control 17 none 4] =
    ({ armed := some 15, latched := true, wire := [1, 2] }, [true, true, false, false]) := by decide
end

/-- gate: the specification's GUID is the one util.go hashes -/
example : Oryx.Spec.Sha1.guid = Oryx.Model.WsHs.ascii Oryx.Gen.Websocket.keyGUID := by decide +kernel

/-- gate: the GUID hashed into the accept key is RFC 6455's (regenerated from util.go on every run) -/
example : Oryx.Gen.Websocket.keyGUID = "258EAFA5-E914-47DA-95CA-C5AB0DC85B11" := by decide
example : Oryx.Gen.Websocket.isTokenOctet = 1 ∧ Oryx.Gen.Websocket.isSpaceOctet = 2 := by decide

section
open Oryx.Model.WsHs
/-- non-vacuity: a concrete handshake (compression on both sides, subprotocol `chat`, an extra Origin header) -/
example :
    handshake (fun k => k ++ ascii "+accept") { enableCompression := true, subprotocols := [ascii "chat", ascii "superchat"] }
      { enableCompression := true, subprotocols := some [ascii "superchat", ascii "chat"] } (ascii "dGhlIHNhbXBsZSBub25jZQ==")
      [(ascii "Origin", [ascii "http://example.com"])] =
    some (.accept (fixedLines (ascii "dGhlIHNhbXBsZSBub25jZQ==+accept") (ascii "superchat") true) true (ascii "superchat"),
          some (.accept true (ascii "superchat"))) := by decide +kernel
/-- the hypotheses of `hs_agree` are met by that configuration -/
example : ∀ p ∈ [(ascii "Origin", [ascii "http://example.com"])],
    canon p.1 ∉ requestNames ∧ ((([ascii "chat"] : List Bytes).isEmpty = false) → canon p.1 ≠ ascii "Sec-Websocket-Protocol") := by
  decide +kernel
/-- ws URIs: an IPv6 literal without a port gets `:80`, `?` in the query stays, user information is refused -/
example : (parseURL (ascii "ws://[::1]/p?a?b")).map (fun u => (requestURI u, hostPortNoPort u)) =
    some (ascii "/p?a?b", (ascii "[::1]:80", ascii "[::1]")) := by decide +kernel
example : parseURL (ascii "ws://user:pw@example.com/") = none := by decide +kernel
/-- an extension list in the grammar's spelling: the hypotheses of `hs_extension_list` hold and the list reads back -/
example : parseExtensions [renderExts [(ascii "foo", [(ascii "a", ascii "1"), (ascii "b", [])]), (pmd, [(ascii "client_max_window_bits", [])])]] =
    [[([], ascii "foo"), (ascii "a", ascii "1"), (ascii "b", [])], [([], pmd), (ascii "client_max_window_bits", [])]] := by decide +kernel
/-- a well-formed token list: `keep-alive , Upgrade` contains `upgrade` -/
example : tlcvOne (renderElems [⟨[], ascii "keep-alive", [32]⟩, ⟨[32], ascii "Upgrade", []⟩]) (ascii "upgrade") = true := by
  decide +kernel
/-- a third-party client that offers another extension first is still answered with compression -/
example : offersPmd { method := ascii "GET", header := [(ascii "Sec-Websocket-Extensions", [ascii "foo; a=\"b,c\", permessage-deflate; client_max_window_bits"])] } = true := by
  decide +kernel
/-- a response with permessage-deflate but without client_no_context_takeover is refused as invalid compression -/
example : clientCheck id (ascii "k") 101
    [(ascii "Upgrade", [ascii "websocket"]), (ascii "Connection", [ascii "Upgrade"]), (ascii "Sec-Websocket-Accept", [ascii "k"]),
     (ascii "Sec-Websocket-Extensions", [ascii "permessage-deflate; server_no_context_takeover"])] = .invalidCompression := by
  decide +kernel
end

/-! ### non-vacuity -/

-- a client with a 4-byte buffer writes "abcdefghij" as Write("abc"), WriteString("defg"), ReadFrom("hij"
-- in 2-byte chunks): three masked frames 4+4+2, first text, then continuations, FIN on the last
def exClient : WConn :=
  { isServer := false, bufSize := 4, deflate := false, keys := [[1, 2, 3, 4], [5, 6, 7, 8], [9, 9, 9, 9]] }
def exOps : List WOp := [.write [97, 98, 99], .writeString [100, 101, 102, 103], .readFrom [2] [104, 105, 106]]
example : (writeMsgs exClient [(1, exOps)]).1.wire =
    [0x01, 0x84, 1, 2, 3, 4, 96, 96, 96, 96,   0x00, 0x84, 5, 6, 7, 8, 96, 96, 96, 96,   0x80, 0x82, 9, 9, 9, 9, 96, 99] := by
  decide +kernel
example : (parse .client false
    [0x01, 0x84, 1, 2, 3, 4, 96, 96, 96, 96,   0x00, 0x84, 5, 6, 7, 8, 96, 96, 96, 96,   0x80, 0x82, 9, 9, 9, 9, 96, 99]).toOption =
    some [ outFrame false [1, 2, 3, 4] 1 false false [97, 98, 99, 100],
           outFrame false [5, 6, 7, 8] 0 false false [101, 102, 103, 104],
           outFrame false [9, 9, 9, 9] 0 true false [105, 106] ] := by decide +kernel
example : truncRun [] [] [[1, 2], [3, 0, 0], [0xff, 0xff]] = ([0, 0, 0xff, 0xff], [1, 2, 3]) := by decide


example : maskBytes [1, 2, 3, 4] 1 [0x61, 0x62, 0x63, 0x64, 0x65] = [0x63, 0x61, 0x67, 0x65, 0x67] := by decide
example : truncRun [] [] [[1], [2, 3], [4, 5, 6, 7], [8]] = ([5, 6, 7, 8], [1, 2, 3, 4]) := by decide
-- a server ping is `89 02 'h' 'i'`, a client pong with key 5,6,7,8 is `8a 80 05 06 07 08`
example : (writeControl { isServer := true, bufSize := 16, deflate := false, keys := [] } 9 [0x68, 0x69]).1.wire =
    [0x89, 0x02, 0x68, 0x69] := by decide
example : (writeControl { isServer := false, bufSize := 16, deflate := false, keys := [[5, 6, 7, 8]] } 10 []).1.wire =
    [0x8a, 0x80, 5, 6, 7, 8] := by decide

end Oryx.Props.C13
