/-
  C13 — websocket messages arrive intact, in order, on an RFC 6455/7692-valid wire.
  Only property statements, their proofs from the helper lemmas of `Oryx.Proofs.WsWrite`, and
  non-vacuity examples. Model: `Oryx.WsWrite` (write side of conn.go, compression.go, prepared.go);
  spec: `Oryx.Spec.Ws` (`serialise`/`parse`).
-/
import Oryx.Proofs.WsWrite
namespace Oryx.Props.C13
open Oryx Oryx.WsWrite Oryx.Spec.Ws Oryx.Gen.Websocket

/-- **mask_involution.** Masking is cyclic XOR with the 4-byte key: applying it twice from the same
key position restores the data, for every key (of any length), position and payload. -/
theorem mask_involution (key : Bytes) (pos : Nat) (bs : Bytes) :
    maskBytes key pos (maskBytes key pos bs) = bs :=
  maskBytes_involution key pos bs

/-- The writer's masking, the reader's unmasking and RFC 6455 §5.3 are the same function; a payload
may be (un)masked in pieces with a running key position. -/
theorem mask_is_spec (key : Bytes) (pos : Nat) (a b : Bytes) :
    maskBytes key pos a = xorMask key pos a ∧ maskBytes key pos a = WsRead.maskBytes key pos a ∧
    maskBytes key pos (a ++ b) = maskBytes key pos a ++ maskBytes key (pos + a.length) b :=
  ⟨maskBytes_eq_spec key pos a, maskBytes_eq_read key pos a, maskBytes_append key pos a b⟩

/-- **trunc_writer.** Over ANY partition of a stream into `Write` calls, what the `truncWriter` has
passed downstream followed by what it still holds is the stream, and it holds exactly the last four
bytes (all of it while the stream is shorter): downstream = input minus its last 4 bytes. -/
theorem trunc_writer (parts : List Bytes) :
    (truncRun [] [] parts).2 ++ (truncRun [] [] parts).1 = parts.flatten ∧
    (truncRun [] [] parts).1.length = min 4 parts.flatten.length := by
  have := truncRun_spec parts [] [] (by simp)
  simpa using this

/-- **control_frames.** `WriteControl` with a payload of at most 125 bytes writes exactly one frame in
one transport write: FIN, no RSV bits, 7-bit length form, masked with a fresh key iff the sender is
the client — byte for byte `Spec.serialise` of that frame. A longer payload is refused and nothing is
written; once the close latch is set nothing is written either and the latched error comes back. -/
theorem control_frames (c : WConn) (ty : Nat) (data : Bytes) (hty : WsWrite.isControl ty = true) :
    (data.length ≤ 125 → c.writeErr = none →
      writeControl c ty data =
        (afterWrite (if c.isServer then c else (nextKey c).2) ty
           (serialise (outFrame c.isServer (nextKey c).1 ty true false data)), none)) ∧
    (125 < data.length → (writeControl c ty data).1 = c ∧ (writeControl c ty data).2 ≠ none) ∧
    (∀ e, data.length ≤ 125 → c.writeErr = some e →
      (writeControl c ty data).1.sent = c.sent ∧ (writeControl c ty data).2 = some e) :=
  ⟨fun hl he => writeControl_frame c ty data hty hl he,
   fun hl => writeControl_too_long c ty data hl,
   fun e hl he => writeControl_after_close c ty data e he hty hl⟩

/-- The frame `flushFrame` writes (server, any `final`/`extra`; client, `extra = []`) is byte for byte
the spec's wire image of: opcode = current frame type, FIN = `final`, RSV1 = pending compress flag,
mask per role, MINIMAL length form, payload = buffered bytes followed by `extra`. This is the
single place where frames are assembled; `writer_wellformed` below builds on it. -/
theorem flush_is_spec_frame (c : WConn) (w : MW) (final : Bool) (extra : Bytes)
    (he : c.writeErr = none) (hft : w.frameType < 16)
    (hctl : (WsWrite.isControl w.frameType && (!final || w.buf.length + extra.length > maxControlFramePayloadSize)) = false)
    (hx : c.isServer = false → extra = []) :
    (flushFrame c w final extra).2.2 = none ∧
    (flushFrame c w final extra).1.sent =
      serialise (outFrame c.isServer (nextKey c).1 w.frameType final w.compress (w.buf ++ extra)) :: c.sent := by
  cases hs : c.isServer
  · have hx' := hx hs; subst hx'
    rw [flushFrame_client c w final hs he hft (by simpa using hctl)]
    cases final <;> simp [afterWrite, nextKey] <;> split <;> simp
  · rw [flushFrame_server c w final extra hs he hft hctl]
    cases final <;> simp [afterWrite, outFrame]

/-! ### non-vacuity -/

example : maskBytes [1, 2, 3, 4] 1 [0x61, 0x62, 0x63, 0x64, 0x65] = [0x63, 0x61, 0x67, 0x65, 0x67] := by decide
example : truncRun [] [] [[1], [2, 3], [4, 5, 6, 7], [8]] = ([5, 6, 7, 8], [1, 2, 3, 4]) := by decide
-- a server ping is `89 02 'h' 'i'`, a client pong with key 5,6,7,8 is `8a 80 05 06 07 08`
example : (writeControl { isServer := true, bufSize := 16, deflate := false, keys := [] } 9 [0x68, 0x69]).1.wire =
    [0x89, 0x02, 0x68, 0x69] := by decide
example : (writeControl { isServer := false, bufSize := 16, deflate := false, keys := [[5, 6, 7, 8]] } 10 []).1.wire =
    [0x8a, 0x80, 5, 6, 7, 8] := by decide

end Oryx.Props.C13
