/-
  C20 — Rate meters report the counter's growth over the last full window.
  Only property statements, their proofs from the helper lemmas (Oryx/Proofs/Kxps.lean), gating
  obligations on the generated facts, and non-vacuity examples.

  Reading of the property in the model's terms
  * history  = any list of operations `start | close | sample now count | avg now count`
               (`sample` = the sampling step `doSample(now)` while the source reads `count`);
  * a window "fires" when it is consulted and a full window length has elapsed since its own
    previous sample; rates are exact rationals `num/den` of the integers Go converts to float64
    (the float rounding is recomputed and compared bit-for-bit by the harness, not modelled);
  * the counter difference is Go's `int64(count - prev)` on `uint64` (`diff64`). Inside the domain
    `counts < 2^63` it is the integer difference; a true wrap past 2^64 still reads as the increase
    (`wrap_reads_increase`); a backward step of more than 2^63 is indistinguishable from a wrap
    (`backward_wrap_witness`) — that is the stated boundary of `stall_or_backward_zero`.
-/
import Oryx.Proofs.Kxps
namespace Oryx.Props.C20
open Oryx Oryx.Res Oryx.Kxps

local notation "I10" => Gen.Kxps.interval_r10s
local notation "I30" => Gen.Kxps.interval_r30s
local notation "I300" => Gen.Kxps.interval_r300s

/-! ### gating obligations: the generated facts the model and the theorems rely on -/

example : Gen.Kxps.windows = [("r10s", 10000000000), ("r30s", 30000000000), ("r300s", 300000000000)] := by decide
example : Gen.Kxps.cascadeOrder = ["r10s", "r30s", "r300s"] := by decide
example : Gen.Kxps.cascadeGated = true := by decide
example : Gen.Kxps.initGuard = "v.r10s.count == 0" ∧ Gen.Kxps.initOrder = ["r10s", "r30s", "r300s"] := by decide
example : Gen.Kxps.fireCond = "v.lastSample.Add(v.interval).After(now)" := by decide
example : Gen.Kxps.diffExpr = "int64(nbRequests - v.count)" := by decide
example : Gen.Kxps.zeroCond = "diff <= 0" := by decide
example : Gen.Kxps.msDivisor = 1000000 ∧ Gen.Kxps.rateScale = 1000 := by decide
example : Gen.Kxps.kbpsMul = 8 ∧ Gen.Kxps.kbpsDiv = 1000 ∧ Gen.Kxps.kbpsUniform = true ∧ Gen.Kxps.krpsPlain = true := by decide
example : Gen.Kxps.startedGuardAll = true := by decide

/-! ### window_rate -/

/-- After ANY scripted life of a fresh meter, the three windows are exactly what the property's
per-window formula (`Ref.step`: a window samples iff it is consulted and a full window length has
elapsed since its own previous sample; it then reports `max 0 diff · 1000 / windowMs` and remembers
`(count, now)`; otherwise it is unchanged) yields over the same history. Induction over the history. -/
theorem window_rate (ops : List Op) :
    let m := Meter.new.exec ops
    let r := Ref.run {} ops
    m.r10s = r.w10 ∧ m.r30s = r.w30 ∧ m.r300s = r.w300 := by
  have h := agrees_exec agrees_new ops
  exact ⟨h.1, h.2.1, h.2.2.1⟩

/-- One step, explicitly: on a non-zero observation after the first one, each window that fires
holds `firedRate` over its own previous count and remembers `(c, now)`; each window that does not
fire keeps rate, previous count and previous time. -/
theorem window_rate_step (m : Meter) (now : Int) (c : Nat) (hc : c ≠ 0) (hi : m.r10s.count ≠ 0) :
    let m' := m.doSample now c
    (m'.r10s = if fired10 m now then { m.r10s with count := c, last := now, rate := firedRate I10 c m.r10s.count } else m.r10s) ∧
    (m'.r30s = if fired30 m now then { m.r30s with count := c, last := now, rate := firedRate I30 c m.r30s.count } else m.r30s) ∧
    (m'.r300s = if fired300 m now then { m.r300s with count := c, last := now, rate := firedRate I300 c m.r300s.count } else m.r300s) := by
  show _ ∧ _ ∧ _
  rw [doSample_spec m now c hc hi]
  exact ⟨rfl, rfl, rfl⟩

/-- The fired rate as a rational number, inside the domain `counts < 2^63`:
`num/den = max 0 (count − prevCount) · 1000 / windowMs` (cross-multiplied; both denominators are positive). -/
theorem fired_rate_value (iv : Nat) (c p : Nat) (hc : c < two63) (hp : p < two63) :
    (firedRate iv c p).num * windowMs iv = max 0 ((c : Int) - (p : Int)) * 1000 * (firedRate iv c p).den := by
  have e : ((Gen.Kxps.rateScale : Nat) : Int) = 1000 := by decide
  unfold firedRate
  rw [diff64_of_lt hc hp, e]
  split
  · rename_i h; simp [Int.max_eq_left h]
  · rename_i h
    have : max 0 ((c : Int) - (p : Int)) = (c : Int) - (p : Int) := Int.max_eq_right (by omega)
    simp [this]

/-- The three window lengths in milliseconds (the denominators). -/
theorem window_ms : windowMs I10 = 10000 ∧ windowMs I30 = 30000 ∧ windowMs I300 = 300000 :=
  ⟨windowMs_r10s, windowMs_r30s, windowMs_r300s⟩

/-- The first non-zero observation only plants `(count, now)` in all three windows; a zero reading changes nothing. -/
theorem first_observation (m : Meter) (now : Int) (c : Nat) :
    (c = 0 → m.doSample now c = m) ∧
    (c ≠ 0 → m.r10s.count = 0 →
      m.doSample now c = { m with r10s := m.r10s.initialize now c, r30s := m.r30s.initialize now c,
                                  r300s := m.r300s.initialize now c }) :=
  ⟨fun h => by subst h; exact doSample_zero m now, fun hc hi => doSample_init m now c hc hi⟩

/-! ### cascade -/

/-- The 30 s window is consulted only if the 10 s window fired, the 300 s window only if the 30 s
window fired: otherwise they are untouched — even if their own window length has long elapsed. -/
theorem cascade (m : Meter) (now : Int) (c : Nat) (hc : c ≠ 0) (hi : m.r10s.count ≠ 0) :
    (fired10 m now = false → (m.doSample now c).r30s = m.r30s ∧ (m.doSample now c).r300s = m.r300s) ∧
    (fired30 m now = false → (m.doSample now c).r300s = m.r300s) := by
  rw [doSample_spec m now c hc hi]
  constructor
  · intro h; simp [winStep, h, fired30]
  · intro h; simp [winStep, h]

/-! ### average -/

/-- After any scripted life of a fresh meter, the average reported at `(now, c)` is 0 until the
average has seen a non-zero count, and afterwards `avgRate` against that first non-zero observation
`(t0, c0)`: `max 0 (c − c0) · 1000 / ⌊(now − t0)/1 ms⌋`. -/
theorem average (ops : List Op) (now : Int) (c : Nat) :
    ((Meter.new.exec ops).sampleAverage now c).2 =
      match avgBase ops with
      | none => Rate.zero
      | some (t0, c0) => avgRate t0 c0 now c := by
  have h : AvgInv (Meter.new.exec ops) (avgBase ops) := by
    have := avgInv_exec (m := Meter.new) (b := none) (by simp [AvgInv, Meter.new]) ops
    simpa using this
  cases hb : avgBase ops with
  | none => rw [hb] at h; exact sampleAverage_none h now c
  | some p => obtain ⟨t0, c0⟩ := p; rw [hb] at h; exact sampleAverage_some h now c

/-- Inside the domain (non-decreasing counts below 2^63, less than 2^63 ns ≈ 292 years elapsed):
total increase · 1000 over whole elapsed milliseconds. -/
theorem average_value (t0 now : Int) (c0 c : Nat) (hc0 : c0 < two63) (hc : c < two63) (hle : c0 < c)
    (ht : t0 + 1000000 ≤ now) (ht' : now - t0 < (two63 : Int)) :
    avgRate t0 c0 now c = ⟨((c : Int) - (c0 : Int)) * 1000, (now - t0) / 1000000⟩ := by
  have e : ((Gen.Kxps.rateScale : Nat) : Int) = 1000 := by decide
  have e2 : ((Gen.Kxps.msDivisor : Nat) : Int) = 1000000 := by decide
  have hcl : clamp64 (now - t0) = now - t0 := by
    unfold clamp64 two63 at *
    split
    · omega
    · split <;> omega
  have hpos : 0 ≤ now - t0 := by omega
  have htd : Int.tdiv (now - t0) 1000000 = (now - t0) / 1000000 := Int.tdiv_eq_ediv_of_nonneg hpos
  have hms : 1 ≤ (now - t0) / 1000000 := by omega
  unfold avgRate
  simp only [diff64_of_lt hc hc0, hcl, e, e2, htd]
  have h1 : ¬ c = 0 := by omega
  have h2 : ¬ ((c : Int) - (c0 : Int) ≤ 0) := by omega
  have h3 : ¬ ((now - t0) / 1000000 ≤ 0) := by omega
  simp [h1, h2, h3]

/-! ### nonneg_finite -/

/-- Every value the meter can report — the three windows, the average, and their kbit/s scalings —
after any scripted life is a non-negative rational with a positive (non-zero) denominator. -/
theorem nonneg_finite (ops : List Op) (now : Int) (c : Nat) :
    let m := Meter.new.exec ops
    m.r10s.rate.Good ∧ m.r30s.rate.Good ∧ m.r300s.rate.Good ∧ (m.sampleAverage now c).2.Good ∧
    m.r10s.rate.kbps.Good ∧ m.r30s.rate.kbps.Good ∧ m.r300s.rate.kbps.Good ∧ (m.sampleAverage now c).2.kbps.Good := by
  intro m
  obtain ⟨h1, h2, h3⟩ := exec_good new_good ops
  have h4 := sampleAverage_good m now c
  exact ⟨h1, h2, h3, h4, Rate.kbps_good h1, Rate.kbps_good h2, Rate.kbps_good h3, Rate.kbps_good h4⟩

/-- kbit/s scaling: bytes/s · 8 / 1000. -/
theorem kbps_scaling (r : Rate) : r.kbps = ⟨r.num * 8, r.den * 1000⟩ := by
  have e1 : ((Gen.Kxps.kbpsMul : Nat) : Int) = 8 := by decide
  have e2 : ((Gen.Kxps.kbpsDiv : Nat) : Int) = 1000 := by decide
  simp [Rate.kbps, e1, e2]

/-! ### stall_or_backward_zero (domain: counts < 2^63) and the boundary -/

/-- A window that fires on a counter that stalled or went backwards reports exactly 0 —
under the explicit domain hypothesis that the previous count is below 2^63. -/
theorem stall_or_backward_zero (iv : Nat) (c p : Nat) (hp : p < two63) (hle : c ≤ p) :
    firedRate iv c p = ⟨0, 1⟩ := by
  have hc : c < two63 := by omega
  unfold firedRate
  rw [diff64_of_lt hc hp]
  have : (c : Int) - (p : Int) ≤ 0 := by omega
  simp [this]

/-- The same for the average. -/
theorem stall_or_backward_zero_average (t0 now : Int) (c0 c : Nat) (hp : c0 < two63) (hle : c ≤ c0) :
    avgRate t0 c0 now c = Rate.zero := by
  have hc : c < two63 := by omega
  unfold avgRate
  simp only [diff64_of_lt hc hp]
  have : (c : Int) - (c0 : Int) ≤ 0 := by omega
  simp [this]

/-- Boundary witness: outside the domain a backward step of more than 2^63 reads as a wrap.
The counter falls from 2^63+5 to 1; the 10 s window reports (2^63−4)·1000/10000 ≈ 9.2·10^17 per second. -/
theorem backward_wrap_witness :
    (Meter.new.run [(0, two63 + 5), (10000000000, 1)]).r10s.rate = ⟨(9223372036854775804 : Int) * 1000, 10000⟩ := by
  decide +kernel

/-- …whereas a non-decreasing 64-bit counter that really wrapped past 2^64 reads as its true increase
(any increase below 2^63), so the subtraction cannot simply be made saturating. -/
theorem wrap_reads_increase (iv : Nat) (prev inc : Nat) (hp : prev < two64) (h0 : 0 < inc) (hi : inc < two63) :
    firedRate iv ((prev + inc) % two64) prev = ⟨(inc : Int) * 1000, windowMs iv⟩ := by
  have e : ((Gen.Kxps.rateScale : Nat) : Int) = 1000 := by decide
  unfold firedRate
  rw [diff64_wrap hp hi, e]
  have : ¬ ((inc : Int) ≤ 0) := by omega
  rw [if_neg this]

/-! ### not_started_refused -/

/-- Reading any rate of a meter that is not started is refused (Go: panic) … -/
theorem not_started_refused (m : Meter) (h : m.started = false) (now : Int) (c : Nat) :
    m.rps10s = .panic ∧ m.rps30s = .panic ∧ m.rps300s = .panic ∧
    m.kbps10s = .panic ∧ m.kbps30s = .panic ∧ m.kbps300s = .panic ∧
    (m.rpsAverage now c).2 = .panic ∧ (m.kbpsAverage now c).2 = .panic := by
  simp [Meter.rps10s, Meter.rps30s, Meter.rps300s, Meter.kbps10s, Meter.kbps30s, Meter.kbps300s,
    Meter.guard, Meter.rpsAverage, Meter.kbpsAverage, h]

/-- … a meter is not started until `start`, and not any more after `close` … -/
theorem not_started_until_start (ops : List Op) (h : ∀ o ∈ ops, o ≠ Op.start) (m : Meter) (hm : m.started = false) :
    (m.exec ops).started = false := by
  induction ops generalizing m with
  | nil => exact hm
  | cons o os ih =>
    apply ih (fun x hx => h x (List.mem_cons_of_mem _ hx))
    cases o with
    | start => exact absurd rfl (h _ List.mem_cons_self)
    | close => rfl
    | sample now c =>
      have : (m.doSample now c).started = m.started := by
        by_cases hc : c = 0
        · subst hc; rw [doSample_zero]
        · by_cases hi : m.r10s.count = 0
          · rw [doSample_init m now c hc hi]
          · rw [doSample_spec m now c hc hi]
      simpa [Meter.exec1, this] using hm
    | avg now c =>
      simp only [Meter.exec1, sampleAverage_fst]
      split <;> exact hm

theorem closed_is_refused (m : Meter) : m.close.started = false := rfl

/-- … and once started, every getter answers with the stored rate. -/
theorem started_answers (m : Meter) (h : m.started = true) :
    m.rps10s = .ok m.r10s.rate ∧ m.rps30s = .ok m.r30s.rate ∧ m.rps300s = .ok m.r300s.rate ∧
    m.kbps10s = .ok m.r10s.rate.kbps ∧ m.kbps30s = .ok m.r30s.rate.kbps ∧ m.kbps300s = .ok m.r300s.rate.kbps := by
  simp [Meter.rps10s, Meter.rps30s, Meter.rps300s, Meter.kbps10s, Meter.kbps30s, Meter.kbps300s, Meter.guard, h]

/-! ### non-vacuity: the hypotheses are inhabited and the formulas produce non-trivial values -/

/-- the repository's scripted walk: +10 every 10 s -/
def walk : List Obs := [(0, 0), (10000000000, 10), (20000000000, 20), (30000000000, 20), (40000000000, 30)]

example : (Meter.new.run walk).r10s.rate = ⟨10000, 10000⟩ ∧ (Meter.new.run walk).r30s.rate = ⟨20000, 30000⟩ ∧
    (Meter.new.run walk).r300s.rate = ⟨0, 1⟩ := by decide +kernel
-- a late sample (25 s gap) fires the 10 s window but not the 30 s one; cascade hypothesis inhabited
example : let m := Meter.new.run [(0, 5), (25000000000, 9)]
    fired10 m 26000000000 = false ∧ m.r10s.count ≠ 0 ∧ m.r10s.rate = ⟨4000, 10000⟩ := by decide +kernel
-- domain hypotheses of fired_rate_value / stall_or_backward_zero / average_value / wrap_reads_increase
example : (1000 : Nat) < two63 ∧ (7 : Nat) ≤ 1000 := by decide
example : firedRate I10 1000 7 = ⟨993000, 10000⟩ := by decide +kernel
example : firedRate I10 7 1000 = ⟨0, 1⟩ := by decide +kernel
example : avgRate 0 10 10000000000 20 = ⟨10000, 10000⟩ := by decide +kernel
example : (two64 - 10 : Nat) < two64 ∧ (0 : Nat) < 100 ∧ (100 : Nat) < two63 ∧ (two64 - 10 + 100) % two64 = 90 := by decide
example : avgBase [.start, .avg 5 0, .sample 6 3, .avg 7 3, .avg 9 4] = some (7, 3) := by decide
example : (Meter.new.exec [.sample 0 5, .close]).started = false ∧ Meter.new.start.started = true := by decide

end Oryx.Props.C20
