/-
  C16 — JOSE objects verify/decrypt only if untampered, for every algorithm.

  Partial by design (DESIGN §8 C16): all cryptographic strength is assumed, as explicit hypotheses
  in the standard idealised form (`IdealSig`, `IdealAead`, `IdealKeyMgmt`, `BlockPerm`,
  `IdealCbc`). What the LIBRARY adds is modelled concretely and proved for all inputs: base64url,
  compact serialisation, signing input and AAD (injective, built from the protected octets as
  received), PKCS#7, the CBC-HMAC tag input, RFC 3394 key wrap as coded, fixed-width ECDSA
  signatures and EC coordinates, header merge precedence, the parameter checks before `Open` and
  the decrypt failure flag. `C16_roundtrip_*` / `C16_tamper_*` combine both.
-/
import Oryx.Proofs.Jose
import Oryx.Proofs.JoseKw
import Oryx.Proofs.JoseB64
import Oryx.Gen.Jose
namespace Oryx.Props.C16
open Oryx Oryx.Res Oryx.Jose

/-! ### gating obligations on the constants regenerated from https/jose on every run

The RFC 7638 thumbprint input is the JSON object with exactly the required members in lexicographic
order and no whitespace: `{"crv","kty","x","y"}` for EC and `{"e","kty","n"}` for RSA; the algorithm
identifiers are the RFC 7518 names (a renamed or mistyped identifier changes what peers negotiate). -/
example : Gen.Jose.ecThumbprintShape = "{\"crv\":\"%s\",\"kty\":\"EC\",\"x\":\"%s\",\"y\":\"%s\"}" := by decide
example : Gen.Jose.rsaThumbprintShape = "{\"e\":\"%s\",\"kty\":\"RSA\",\"n\":\"%s\"}" := by decide
example : [Gen.Jose.HS256, Gen.Jose.HS384, Gen.Jose.HS512, Gen.Jose.RS256, Gen.Jose.RS384, Gen.Jose.RS512,
           Gen.Jose.PS256, Gen.Jose.PS384, Gen.Jose.PS512, Gen.Jose.ES256, Gen.Jose.ES384, Gen.Jose.ES512]
        = ["HS256", "HS384", "HS512", "RS256", "RS384", "RS512", "PS256", "PS384", "PS512", "ES256", "ES384", "ES512"] := by decide
example : [Gen.Jose.RSA1_5, Gen.Jose.RSA_OAEP, Gen.Jose.RSA_OAEP_256, Gen.Jose.A128KW, Gen.Jose.A192KW, Gen.Jose.A256KW,
           Gen.Jose.DIRECT, Gen.Jose.ECDH_ES, Gen.Jose.ECDH_ES_A128KW, Gen.Jose.ECDH_ES_A192KW, Gen.Jose.ECDH_ES_A256KW,
           Gen.Jose.A128GCMKW, Gen.Jose.A192GCMKW, Gen.Jose.A256GCMKW]
        = ["RSA1_5", "RSA-OAEP", "RSA-OAEP-256", "A128KW", "A192KW", "A256KW", "dir", "ECDH-ES", "ECDH-ES+A128KW",
           "ECDH-ES+A192KW", "ECDH-ES+A256KW", "A128GCMKW", "A192GCMKW", "A256GCMKW"] := by decide
example : [Gen.Jose.A128CBC_HS256, Gen.Jose.A192CBC_HS384, Gen.Jose.A256CBC_HS512, Gen.Jose.A128GCM, Gen.Jose.A192GCM,
           Gen.Jose.A256GCM, Gen.Jose.DEFLATE]
        = ["A128CBC-HS256", "A192CBC-HS384", "A256CBC-HS512", "A128GCM", "A192GCM", "A256GCM", "DEF"] := by decide

/-! ### base64url -/

/-- decode ∘ encode = id. -/
theorem b64_roundtrip (b : Bytes) : unb64 (b64 b) = ok b := unb64_b64 b

/-- The encoding is injective. -/
theorem b64_injective (a b : Bytes) (h : b64 a = b64 b) : a = b := b64_inj h

/-- Only the 64 alphabet characters are emitted: never `.`, `=`, a newline or whitespace. -/
theorem b64_alphabet (b : Bytes) : ∀ c ∈ b64 b, c ∈ alphabet ∧ c ≠ '.' ∧ c ≠ '=' ∧ isNl c = false ∧ isWs c = false := by
  intro c hc
  obtain ⟨n, hn, rfl⟩ := b64_chars b c hc
  have hp := encChar_props ⟨n, hn⟩
  exact ⟨(encChar_mem ⟨n, hn⟩).1, hp.1, hp.2.1, hp.2.2.1, hp.2.2.2⟩

/-- The decoder's leniency, exactly: in a final quantum of two (resp. three) characters the low four
(resp. two) bits of the last character are ignored, whatever they are; nothing else is. Stated for
every pair / triple of sextets. -/
theorem b64_leniency_tail2 (i j : Nat) (hi : i < 64) (hj : j < 64) :
    unb64 [encChar i, encChar j] = ok [UInt8.ofNat (i * 4 + j / 16)] := by
  have h1 := sextet_enc hi; have h2 := sextet_enc hj
  have p1 := (encChar_props ⟨i, hi⟩).2.2.1; have p2 := (encChar_props ⟨j, hj⟩).2.2.1
  have hp : sextet '=' = none := by decide
  show decQ (List.filter _ [encChar i, encChar j, '=', '=']) = _
  rw [filter_nl_of _ (by
    intro c hc
    simp only [List.mem_cons, List.mem_nil_iff, or_false] at hc
    rcases hc with rfl | rfl | rfl | rfl <;> first | exact p1 | exact p2 | decide)]
  simp only [decQ, h1, h2, hp, and_self, if_true]

theorem b64_leniency_tail3 (i j k : Nat) (hi : i < 64) (hj : j < 64) (hk : k < 64) :
    unb64 [encChar i, encChar j, encChar k] =
      ok [UInt8.ofNat (i * 4 + j / 16), UInt8.ofNat (j % 16 * 16 + k / 4)] := by
  have h1 := sextet_enc hi; have h2 := sextet_enc hj; have h3 := sextet_enc hk
  have p1 := (encChar_props ⟨i, hi⟩).2.2.1; have p2 := (encChar_props ⟨j, hj⟩).2.2.1
  have p3 := (encChar_props ⟨k, hk⟩).2.2.1
  have hp : sextet '=' = none := by decide
  show decQ (List.filter _ [encChar i, encChar j, encChar k, '=']) = _
  rw [filter_nl_of _ (by
    intro c hc
    simp only [List.mem_cons, List.mem_nil_iff, or_false] at hc
    rcases hc with rfl | rfl | rfl | rfl <;> first | exact p1 | exact p2 | exact p3 | decide)]
  simp only [decQ, h1, h2, h3, hp, and_self, if_true]

/-- Consequence: two-character tails that differ only in the low four bits of the last character
decode to the same octet (these are the "no-op flips" the harness counts separately). -/
theorem b64_leniency_same (i j j' : Nat) (hi : i < 64) (hj : j < 64) (hj' : j' < 64) (h : j / 16 = j' / 16) :
    unb64 [encChar i, encChar j] = unb64 [encChar i, encChar j'] := by
  rw [b64_leniency_tail2 i j hi hj, b64_leniency_tail2 i j' hi hj', h]

/-- The leniency in general, exactly: for any text over the alphabet (any length), if it decodes to
`b` then the encoding of `b` is the text's canonical form — the text with the data-free low bits of
its last character cleared (`canonLast`) — and that canonical form decodes to `b` too. Hence two
texts decode to the same octets only if they agree up to those bits; a 1-character tail never decodes. -/
theorem b64_leniency_exact (s : List Char) (h : ∀ c ∈ s, B64Char c) (b : Bytes) (hb : unb64 s = ok b) :
    b64 b = canonLast s ∧ unb64 (canonLast s) = ok b := by
  have h1 := b64_unb64_canon s h b hb
  exact ⟨h1, by rw [← h1]; exact unb64_b64 b⟩

theorem b64_same_octets_same_canon (s s' : List Char) (h : ∀ c ∈ s, B64Char c) (h' : ∀ c ∈ s', B64Char c)
    (b : Bytes) (hb : unb64 s = ok b) (hb' : unb64 s' = ok b) : canonLast s = canonLast s' := by
  rw [← b64_unb64_canon s h b hb, ← b64_unb64_canon s' h' b hb']

theorem b64_one_char_tail_fails (c : Char) (h : B64Char c) : unb64 [c] = err .generic := unb64_len1_fails c h

/-! ### compact serialisation -/

/-- `parse (serialize parts) = parts` for any non-empty list of parts (JWS: 3, JWE: 5), because no
part's text contains a dot. -/
theorem compact_roundtrip (parts : List Bytes) (hne : parts ≠ []) :
    compactParse parts.length (compactSerialize parts) = ok parts := compactParse_serialize parts hne

/-! ### signing input and AAD -/

/-- The signing input `b64(protected) "." b64(payload)` determines both the protected octets and the
payload. -/
theorem signing_input_injective (p p' m m' : Bytes) (h : signingInput p m = signingInput p' m') :
    p = p' ∧ m = m' := signingInput_inj h

/-- The JWE AAD `b64(protected) [ "." b64(aad) ]` determines the protected octets and whether/what
AAD is present. -/
theorem aad_injective (p p' : Bytes) (a a' : Option Bytes) (h : aadInput p a = aadInput p' a') :
    p = p' ∧ a = a' := aadInput_inj h

/-! ### PKCS#7 -/

theorem pkcs7_roundtrip (k : Nat) (hk : 0 < k) (hk2 : k < 256) (x : Bytes) :
    unpad k (pad k x) = ok x ∧ (pad k x).length % k = 0 ∧
    x.length < (pad k x).length ∧ (pad k x).length ≤ x.length + k := by
  obtain ⟨hl, hm, h1, h2⟩ := pad_length k hk x
  exact ⟨unpad_pad k hk hk2 x, hm, by omega, by omega⟩

/-- Defect F28 (repaired): `unpadBuffer` on the empty buffer indexed `buffer[-1]`. It is reached behind a matching
tag — "with the key" — but the content key of a JWE is chosen by its SENDER: for RSA and ECDH-ES recipients anyone
can build an object with an empty ciphertext and a valid tag. (This theorem stood here as `pkcs7_unpad_empty_panics`
about the then-current code for a whole day with the remark "reached only with the key" before the excluded point
was run on the real code.) -/
theorem f28_witness_unrepaired : unpadUnrepaired 16 [] = .panic := rfl

/-- The repaired `unpadBuffer` returns a value or an error for EVERY buffer, and with it the CBC-HMAC `Open`
whatever the primitives, key, IV, ciphertext (empty included), tag and AAD are. -/
theorem unpad_never_panics (k : Nat) (b : Bytes) : unpad k b ≠ .panic := unpad_ne_panic k b

theorem cbc_open_never_panics (P : CbcPrims) (ek mk iv ct tag aad : Bytes) : cbcOpen P ek mk iv ct tag aad ≠ .panic := by
  unfold cbcOpen
  split
  · simp
  · split
    · simp
    · exact unpad_ne_panic _ _

example : unpad 16 [] = err .generic := rfl

/-! ### CBC-HMAC tag input -/

/-- `aad ‖ iv ‖ ct ‖ len64(aad bits)` is injective in (aad, iv, ct) for IVs of equal length (16). -/
theorem cbc_tag_input_injective (aad aad' iv iv' ct ct' : Bytes) (hiv : iv.length = 16) (hiv' : iv'.length = 16)
    (ha : aad.length * 8 < 2 ^ 64) (ha' : aad'.length * 8 < 2 ^ 64)
    (h : tagInput aad iv ct = tagInput aad' iv' ct') : aad = aad' ∧ iv = iv' ∧ ct = ct' :=
  tagInput_inj (by rw [hiv, hiv']) ha ha' h

/-! ### RFC 3394 key wrap -/

/-- For ANY invertible 16-byte block function and every key of 8·n bytes (n ≥ 0):
`KeyUnwrap (KeyWrap cek) = cek`, and the wrapped key is 8 bytes longer. -/
theorem keywrap_roundtrip (enc dec : Bytes → Bytes) (hp : BlockPerm enc dec) (cek : Bytes)
    (h8 : cek.length % 8 = 0) :
    ∃ w, keyWrap enc cek = ok w ∧ w.length = cek.length + 8 ∧ keyUnwrap dec w = ok cek :=
  keyUnwrap_keyWrap hp cek h8

/-- Inputs that are not whole blocks are errors, never panics (repaired F15b). -/
theorem keyunwrap_never_panics_on_length (dec : Bytes → Bytes) (ct : Bytes) (h : ct.length < 8 ∨ ct.length % 8 ≠ 0) :
    keyUnwrap dec ct = err .generic := by
  simp [keyUnwrap, h]

/-- F15b (repaired; regression witness): the code as it was panics on the empty wrapped key. -/
theorem f15b_witness_unrepaired (dec : Bytes → Bytes) : keyUnwrapUnrepaired dec [] = .panic := rfl

/-! ### fixed-width integers -/

/-- ECDSA `r ‖ s`: fixed width with leading zeros; decoding gives back `(r, s)`. -/
theorem ecsig_roundtrip (size r s : Nat) (hr : r < 256 ^ size) (hs : s < 256 ^ size) :
    ∃ sig, ecSigEncode size r s = ok sig ∧ sig.length = 2 * size ∧ ecSigDecode size sig = ok (r, s) :=
  ecSig_roundtrip size r s hr hs

/-- Different signature octets (of the accepted length) are different `(r, s)`. -/
theorem ecsig_decode_injective (size : Nat) (sig sig' : Bytes) (r s : Nat)
    (h1 : ecSigDecode size sig = ok (r, s)) (h2 : ecSigDecode size sig' = ok (r, s)) : sig = sig' :=
  ecSigDecode_inj size h1 h2

/-- EC coordinates in a JWK: both exactly `size` octets (leading zeros kept), decoding gives the
coordinates back. -/
theorem eccoords_roundtrip (size x y : Nat) (hx : x < 256 ^ size) (hy : y < 256 ^ size) :
    ∃ xb yb, ecCoordsEncode size x y = ok (xb, yb) ∧ xb.length = size ∧ yb.length = size ∧
      ecCoordsDecode xb yb = (x, y) := ecCoords_roundtrip size x y hx hy

theorem curve_sizes : curveSize 256 = 32 ∧ curveSize 384 = 48 ∧ curveSize 521 = 66 := by decide

/-! ### header merge precedence -/

/-- protected wins over unprotected wins over per-recipient, field by field. -/
theorem merge_precedence (p u r : Header) :
    (mergedHeaders (some p) (some u) (some r)).alg = pick p.alg (pick u.alg r.alg) ∧
    (mergedHeaders (some p) (some u) (some r)).enc = pick p.enc (pick u.enc r.enc) ∧
    (mergedHeaders (some p) (some u) (some r)).zip = pick p.zip (pick u.zip r.zip) ∧
    (mergedHeaders (some p) (some u) (some r)).kid = pick p.kid (pick u.kid r.kid) := by
  refine ⟨?_, ?_, ?_, ?_⟩ <;> simp only [mergedHeaders, Header.merge, pick] <;> (repeat' split) <;> simp_all

theorem merge_protected_wins (p u r : Header) (h : p.alg ≠ "") :
    (mergedHeaders (some p) (some u) (some r)).alg = p.alg := by
  simp [mergedHeaders, Header.merge, pick, h]

/-! ### parameter checks before `Open`, decrypt flag -/

/-- With a key of a size the algorithm family accepts, no IV / ciphertext / tag length makes the
content cipher panic: wrong sizes are errors (repaired F15a). -/
theorem precheck_never_panics (e : Enc) (keyLen ivLen ctLen tagLen : Nat)
    (hk : if e.isGcm then True else keyLen % 2 = 0) :
    precheck e keyLen ivLen ctLen tagLen ≠ .panic := by
  unfold precheck
  cases hg : e.isGcm
  · simp only [hg] at hk
    have : keyLen - keyLen / 2 = keyLen / 2 := by simp at hk; omega
    simp only [this, Bool.false_eq_true, if_false]
    split
    · simp
    · split
      · simp
      · split
        · simp
        · rename_i h1 _ _; simp at h1; simp [h1]
  · simp only [if_true]
    split
    · simp
    · split <;> simp

/-- `Open` is entered only with the nonce size of the algorithm and a tag of at least 16 bytes. -/
theorem precheck_ok_lengths (e : Enc) (keyLen ivLen ctLen tagLen : Nat)
    (h : precheck e keyLen ivLen ctLen tagLen = ok ()) :
    ivLen = e.nonceSize ∧ 16 ≤ tagLen := by
  unfold precheck at h
  split at h
  · split at h
    · cases h
    · split at h
      · cases h
      · rename_i hh; simp [Enc.tagBytes] at hh; omega
  · split at h
    · cases h
    · split at h
      · cases h
      · rename_i hh; simp [Enc.tagBytes] at hh
        split at h
        · cases h
        · split at h <;> first | exact hh | cases h

/-- F15a (repaired; regression witness): before the repair a 3-byte GCM IV reached the documented
panic of `cipher.NewGCM(...).Open`. -/
theorem f15a_witness_unrepaired : precheckUnrepaired .a128gcm 16 3 3 16 = .panic ∧
    precheck .a128gcm 16 3 3 16 = err .generic := ⟨rfl, rfl⟩

/-- F19 (repaired; regression witness): `Open` returns an empty (nil) slice for an empty plaintext;
the old failure flag `plaintext == nil` turned that success into an error. -/
theorem f19_witness_unrepaired : decryptResultUnrepaired (some []) = err .generic ∧
    decryptResult (some []) = ok [] := ⟨rfl, rfl⟩

/-! ### idealised primitives (the hypotheses) -/

/-- Idealised signature / MAC: the genuine signature verifies; only the genuine signature of a
message verifies under the genuine key; signatures of different messages differ (collision-free);
a signature made with another key does not verify. -/
structure IdealSig {SK PK : Type} (P : SigPrim SK PK) : Prop where
  verify_sign : ∀ sk m, P.verify (P.pub sk) m (P.sign sk m) = true
  unforgeable : ∀ sk m s, P.verify (P.pub sk) m s = true → s = P.sign sk m
  collision_free : ∀ sk m m', P.sign sk m = P.sign sk m' → m = m'
  key_sep : ∀ sk sk' m, P.pub sk ≠ P.pub sk' → P.verify (P.pub sk') m (P.sign sk m) = false

/-- Idealised AEAD around one genuine sealing `(k, iv, pt, a)`: it opens; anything that opens under
`k` is the genuine (iv, ct, tag, aad); another key opens nothing. -/
structure IdealAead (A : AeadPrim) (k iv pt a : Bytes) : Prop where
  open_seal : A.openF k iv (A.sealF k iv pt a).1 (A.sealF k iv pt a).2 a = some pt
  authentic : ∀ iv' ct' tag' a' p', A.openF k iv' ct' tag' a' = some p' →
    iv' = iv ∧ ct' = (A.sealF k iv pt a).1 ∧ tag' = (A.sealF k iv pt a).2 ∧ a' = a
  wrong_key : ∀ k' iv' ct' tag' a', k' ≠ k → A.openF k' iv' ct' tag' a' = none

/-- Idealised key management around one genuine wrapping of `cek`: unwrap ∘ wrap = id; only the
genuine encrypted key unwraps to the genuine CEK; another private key does not yield the CEK. -/
structure IdealKeyMgmt {EK DK : Type} (K : KeyMgmt EK DK) (dk : DK) (cek : Bytes) : Prop where
  unwrap_wrap : K.unwrap dk (K.wrap (K.pub dk) cek) = some cek
  authentic : ∀ ek', K.unwrap dk ek' = some cek → ek' = K.wrap (K.pub dk) cek
  other_key : ∀ dk' c, K.pub dk' ≠ K.pub dk → K.unwrap dk' (K.wrap (K.pub dk) cek) = some c → c ≠ cek

def ZipLawful (z : Zip) : Prop := ∀ x, z.inflate (z.deflate x) = some x

def zipLawful : Option Zip → Prop
  | none => True
  | some z => ZipLawful z

/-! ### JWS: round trip and tamper -/

/-- Sign, serialise compactly, parse, verify with the right key: exactly the original payload. -/
theorem C16_roundtrip_jws {SK PK : Type} (P : SigPrim SK PK) (hP : IdealSig P) (sk : SK) (prot payload : Bytes) :
    (jwsParse (jwsCompact (jwsSign P sk prot payload))).bind (jwsVerify P (P.pub sk)) = ok payload := by
  have h := compact_roundtrip [prot, payload, P.sign sk (signingInput prot payload)] (by simp)
  simp only [List.length_cons, List.length_nil] at h
  simp only [jwsParse, jwsCompact, jwsSign, h, Res.bind, jwsVerify, hP.verify_sign, if_true]

/-- Tamper: an object that differs from the signed one in the octets of the protected header or of
the payload (signature kept), or in the octets of the signature (rest kept), does not verify; nor
does the genuine object under another key. -/
theorem C16_tamper_jws {SK PK : Type} (P : SigPrim SK PK) (hP : IdealSig P) (sk : SK) (prot payload : Bytes)
    (o' : Jws) :
    let o := jwsSign P sk prot payload
    ((o'.prot ≠ o.prot ∨ o'.payload ≠ o.payload) → o'.sig = o.sig → jwsVerify P (P.pub sk) o' = err .generic) ∧
    (o'.sig ≠ o.sig → o'.prot = o.prot → o'.payload = o.payload → jwsVerify P (P.pub sk) o' = err .generic) ∧
    (∀ sk', P.pub sk ≠ P.pub sk' → jwsVerify P (P.pub sk') o = err .generic) := by
  intro o
  refine ⟨?_, ?_, ?_⟩
  · intro hd hs
    unfold jwsVerify
    cases hv : P.verify (P.pub sk) (signingInput o'.prot o'.payload) o'.sig with
    | false => simp
    | true =>
      exfalso
      have h1 := hP.unforgeable sk _ _ hv
      rw [hs] at h1
      have h2 := hP.collision_free sk _ _ h1
      obtain ⟨e1, e2⟩ := signingInput_inj h2
      rcases hd with hd | hd
      · exact hd e1.symm
      · exact hd e2.symm
  · intro hs hp hm
    unfold jwsVerify
    cases hv : P.verify (P.pub sk) (signingInput o'.prot o'.payload) o'.sig with
    | false => simp
    | true =>
      exfalso
      have h1 := hP.unforgeable sk _ _ hv
      rw [hp, hm] at h1
      exact hs h1
  · intro sk' hk
    simp [jwsVerify, o, jwsSign, hP.key_sep sk sk' _ hk]

/-- ECDSA: tampering with the signature octets changes `(r, s)` (or the length, which is rejected
outright) — so the idealised primitive, which works on `(r, s)`, sees a different signature. -/
theorem C16_tamper_ecdsa_octets (size : Nat) (sig sig' : Bytes) (r s : Nat)
    (h : ecSigDecode size sig = ok (r, s)) (hne : sig' ≠ sig) :
    ecSigDecode size sig' = err .generic ∨ ∃ r' s', ecSigDecode size sig' = ok (r', s') ∧ (r', s') ≠ (r, s) := by
  unfold ecSigDecode
  split
  · exact Or.inl rfl
  · rename_i hl
    right
    refine ⟨_, _, rfl, ?_⟩
    intro heq
    apply hne
    have h2 : ecSigDecode size sig' = ok (r, s) := by
      unfold ecSigDecode; rw [if_neg hl, heq]
    exact (ecSigDecode_inj size h h2).symm

/-- Multi-signature JWS (JSON serialisation): every signer's key verifies the object to the original
payload, whatever the other signers, algorithms and protected headers are. -/
theorem C16_roundtrip_jws_multi {SK PK : Type} (P : SigPrim SK PK) (hP : IdealSig P)
    (signers : List (SK × Bytes)) (payload : Bytes) (sk : SK) (prot : Bytes) (hmem : (sk, prot) ∈ signers) :
    jwsVerifyMulti P (P.pub sk) (jwsSignMulti P signers payload) = ok payload := by
  unfold jwsVerifyMulti jwsSignMulti
  have : (List.map (fun s : SK × Bytes => ({ prot := s.2, sig := P.sign s.1 (signingInput s.2 payload) } : SigEntry)) signers).any
      (fun e => P.verify (P.pub sk) (signingInput e.prot payload) e.sig) = true := by
    rw [List.any_eq_true]
    exact ⟨_, List.mem_map.mpr ⟨(sk, prot), hmem, rfl⟩, hP.verify_sign sk _⟩
  simp only [this, if_true]

/-- … and a change to the protected header octets of ONE signature (its signature octets and all other
entries kept) makes verification under that signer's key fail, provided the other signers' keys are
different keys: a signature is only ever checked against its own protected header as received. -/
theorem C16_tamper_jws_multi {SK PK : Type} (P : SigPrim SK PK) (hP : IdealSig P)
    (pre post : List (SK × Bytes)) (sk : SK) (prot prot' payload : Bytes) (hne : prot' ≠ prot)
    (hkeys : ∀ s ∈ pre ++ post, P.pub s.1 ≠ P.pub sk) :
    let o := jwsSignMulti P (pre ++ (sk, prot) :: post) payload
    let o' : JwsMulti := ⟨payload, (jwsSignMulti P pre payload).sigs ++
      (⟨prot', P.sign sk (signingInput prot payload)⟩ : SigEntry) :: (jwsSignMulti P post payload).sigs⟩
    jwsVerifyMulti P (P.pub sk) o = ok payload ∧ jwsVerifyMulti P (P.pub sk) o' = err .generic := by
  intro o o'
  refine ⟨C16_roundtrip_jws_multi P hP _ payload sk prot (by simp), ?_⟩
  have hother : ∀ l : List (SK × Bytes), (∀ s ∈ l, P.pub s.1 ≠ P.pub sk) →
      (jwsSignMulti P l payload).sigs.any (fun e => P.verify (P.pub sk) (signingInput e.prot payload) e.sig) = false := by
    intro l hl
    rw [List.any_eq_false]
    intro e he
    simp only [jwsSignMulti, List.mem_map] at he
    obtain ⟨s, hs, rfl⟩ := he
    simp [hP.key_sep s.1 sk _ (hl s hs)]
  have hmid : P.verify (P.pub sk) (signingInput prot' payload) (P.sign sk (signingInput prot payload)) = false := by
    cases hv : P.verify (P.pub sk) (signingInput prot' payload) (P.sign sk (signingInput prot payload)) with
    | false => rfl
    | true =>
      exfalso
      have h1 := hP.unforgeable sk _ _ hv
      have h2 := hP.collision_free sk _ _ h1
      exact hne (signingInput_inj h2).1.symm
  unfold jwsVerifyMulti
  have : o'.sigs.any (fun e => P.verify (P.pub sk) (signingInput e.prot o'.payload) e.sig) = false := by
    show (_ ++ _ :: _).any _ = false
    rw [List.any_append, List.any_cons,
        hother pre (fun s hs => hkeys s (List.mem_append_left _ hs)),
        hother post (fun s hs => hkeys s (List.mem_append_right _ hs)), hmid]
    rfl
  simp only [this]
  rfl

/-! ### JWE: round trip and tamper -/

/-- Encrypt (any key management, any AEAD, with or without compression, with or without AAD),
then decrypt with the right key: exactly the original plaintext, and the AAD the object carries is
the (normalised) AAD given. Compact serialisation and parsing give the same object back. -/
theorem C16_roundtrip_jwe {EK DK : Type} (A : AeadPrim) (K : KeyMgmt EK DK) (z : Option Zip) (hz : zipLawful z)
    (dk : DK) (cek iv prot pt : Bytes) (aad : Option Bytes)
    (hK : IdealKeyMgmt K dk cek)
    (hA : IdealAead A cek iv (zipApply z pt)
            (jweEncrypt.bytesOfText (aadInput prot (normAad aad)))) :
    let o := jweEncrypt A K z (K.pub dk) cek iv prot pt aad
    jweDecrypt A K z dk o = ok pt ∧ o.aad = normAad aad ∧
    (aad = none → jweParse (jweCompact o) = ok o) := by
  intro o
  refine ⟨?_, rfl, ?_⟩
  · simp only [o, jweDecrypt, jweEncrypt, hK.unwrap_wrap, hA.open_seal, decryptResult]
    cases z with
    | none => rfl
    | some z => simp only [zipApply]; rw [hz pt]
  · intro ha
    have h := compact_roundtrip [o.prot, o.ek, o.iv, o.ct, o.tag] (by simp)
    simp only [List.length_cons, List.length_nil] at h
    simp only [jweParse, jweCompact, h]
    subst ha
    rfl

/-- Tamper: an object that differs from the genuine one in the octets of the protected header, the
AAD, the IV, the ciphertext or the tag does not decrypt; nor one that differs in the encrypted key;
nor the genuine object under another private key. -/
theorem C16_tamper_jwe {EK DK : Type} (A : AeadPrim) (K : KeyMgmt EK DK) (z : Option Zip)
    (dk : DK) (cek iv prot pt : Bytes) (aad : Option Bytes)
    (hK : IdealKeyMgmt K dk cek)
    (hA : IdealAead A cek iv (zipApply z pt)
            (jweEncrypt.bytesOfText (aadInput prot (normAad aad))))
    (o' : Jwe) :
    let o := jweEncrypt A K z (K.pub dk) cek iv prot pt aad
    ((o'.prot ≠ o.prot ∨ o'.aad ≠ o.aad ∨ o'.iv ≠ o.iv ∨ o'.ct ≠ o.ct ∨ o'.tag ≠ o.tag) → o'.ek = o.ek →
        jweDecrypt A K z dk o' = err .generic) ∧
    (o'.ek ≠ o.ek → jweDecrypt A K z dk o' = err .generic) ∧
    (∀ dk', K.pub dk' ≠ K.pub dk → jweDecrypt A K z dk' o = err .generic) := by
  intro o
  have bytes_inj : ∀ t t' : List Char, (∀ c ∈ t, c.toNat < 256) → (∀ c ∈ t', c.toNat < 256) →
      jweEncrypt.bytesOfText t = jweEncrypt.bytesOfText t' → t = t' := by
    intro t
    induction t with
    | nil => intro t' _ _ h; cases t' with
      | nil => rfl
      | cons _ _ => simp [jweEncrypt.bytesOfText] at h
    | cons c r ih =>
      intro t' h1 h2 h
      cases t' with
      | nil => simp [jweEncrypt.bytesOfText] at h
      | cons c' r' =>
        simp only [jweEncrypt.bytesOfText, List.map_cons, List.cons.injEq] at h
        have hc := h1 c (by simp); have hc' := h2 c' (by simp)
        have e : c.toNat = c'.toNat := by
          have := congrArg UInt8.toNat h.1
          simp only [UInt8.toNat_ofNat'] at this
          omega
        have ec : c = c' := Char.ext (by
          have := congrArg (fun n => UInt32.ofNat n) e
          exact UInt32.toNat_inj.mp e)
        rw [ec, ih r' (fun x hx => h1 x (List.mem_cons_of_mem _ hx)) (fun x hx => h2 x (List.mem_cons_of_mem _ hx)) h.2]
  have ascii : ∀ (p : Bytes) (a : Option Bytes), ∀ c ∈ aadInput p a, c.toNat < 256 := by
    have small : ∀ c, (B64Char c ∨ c = '.') → c.toNat < 256 := by
      intro c hc
      rcases hc with ⟨n, hn, rfl⟩ | rfl
      · have : ∀ i : Fin 64, (encChar i.val).toNat < 256 := by decide
        exact this ⟨n, hn⟩
      · decide
    intro p a c hc
    cases a with
    | none => exact small c (Or.inl (b64_chars p c hc))
    | some x =>
      simp only [aadInput, List.mem_append, List.mem_cons] at hc
      rcases hc with hc | rfl | hc
      · exact small c (Or.inl (b64_chars p c hc))
      · exact small _ (Or.inr rfl)
      · exact small c (Or.inl (b64_chars x c hc))
  refine ⟨?_, ?_, ?_⟩
  · intro hd hek
    unfold jweDecrypt
    rw [hek]
    simp only [o, jweEncrypt, hK.unwrap_wrap]
    cases hop : A.openF cek o'.iv o'.ct o'.tag (jweEncrypt.bytesOfText (aadInput o'.prot o'.aad)) with
    | none => rfl
    | some p' =>
      exfalso
      obtain ⟨e1, e2, e3, e4⟩ := hA.authentic _ _ _ _ _ hop
      have e5 := bytes_inj _ _ (ascii _ _) (ascii _ _) e4
      obtain ⟨e6, e7⟩ := aadInput_inj e5
      rcases hd with hd | hd | hd | hd | hd
      · exact hd e6
      · exact hd e7
      · exact hd e1
      · exact hd e2
      · exact hd e3
  · intro hek
    unfold jweDecrypt
    cases hu : K.unwrap dk o'.ek with
    | none => rfl
    | some c =>
      by_cases hc : c = cek
      · exfalso; subst hc; exact hek (hK.authentic _ hu)
      · simp only [hA.wrong_key c _ _ _ _ hc, decryptResult]
  · intro dk' hk
    unfold jweDecrypt
    cases hu : K.unwrap dk' o.ek with
    | none => rfl
    | some c =>
      have hc := hK.other_key dk' c hk hu
      simp only [hA.wrong_key c _ _ _ _ hc, decryptResult]

/-! ### multi-recipient JWE: one content encryption, one encrypted key per recipient -/

/-- A trivial key management (the CEK is its own encrypted key): used to read `C16_tamper_jwe` as a statement
about the AEAD alone. -/
private def kmId : KeyMgmt Unit Unit := { pub := id, wrap := fun _ c => c, unwrap := fun _ e => some e }

/-- Content that differs from the genuine one is not opened by the genuine CEK (a reading of the first clause of
`C16_tamper_jwe`, which holds the injectivity of the AAD text). -/
theorem open_tampered_none (A : AeadPrim) (z : Option Zip) (cek iv prot pt : Bytes) (aad : Option Bytes)
    (hA : IdealAead A cek iv (zipApply z pt) (jweEncrypt.bytesOfText (aadInput prot (normAad aad))))
    (prot' iv' ct' tag' : Bytes) (aad' : Option Bytes)
    (hd : prot' ≠ prot ∨ aad' ≠ normAad aad ∨ iv' ≠ iv ∨
          ct' ≠ (A.sealF cek iv (zipApply z pt) (jweEncrypt.bytesOfText (aadInput prot (normAad aad)))).1 ∨
          tag' ≠ (A.sealF cek iv (zipApply z pt) (jweEncrypt.bytesOfText (aadInput prot (normAad aad)))).2) :
    A.openF cek iv' ct' tag' (jweEncrypt.bytesOfText (aadInput prot' aad')) = none := by
  have hK : IdealKeyMgmt kmId () cek :=
    ⟨rfl, fun ek' h => by simpa [kmId] using h, fun dk' c h => absurd rfl h⟩
  have h := (C16_tamper_jwe A kmId none () cek iv prot (zipApply z pt) aad hK hA
    { prot := prot', ek := cek, iv := iv', ct := ct', tag := tag', aad := aad' }).1
  have h2 := h (by simpa [jweEncrypt, zipApply] using hd) rfl
  simp only [jweDecrypt, kmId] at h2
  cases hop : A.openF cek iv' ct' tag' (jweEncrypt.bytesOfText (aadInput prot' aad')) with
  | none => rfl
  | some p' => rw [hop] at h2; simp [decryptResult] at h2

/-- Round trip, any position: the recipient's genuine encrypted key may sit ANYWHERE among arbitrary other
entries (`pre`, `post`: other recipients' keys of any algorithm, or garbage). Whatever the caller's key makes of
the entries in front — an error, or a CEK that is not the CEK (RSA1_5 answers a foreign entry with a random
one) — decryption with the recipient's key yields exactly the original plaintext. -/
theorem C16_roundtrip_jwe_multi {EK DK : Type} (A : AeadPrim) (K : KeyMgmt EK DK) (z : Option Zip) (hz : zipLawful z)
    (dk : DK) (cek iv prot pt : Bytes) (aad : Option Bytes) (pre post : List Bytes)
    (hK : IdealKeyMgmt K dk cek)
    (hA : IdealAead A cek iv (zipApply z pt) (jweEncrypt.bytesOfText (aadInput prot (normAad aad)))) :
    let c := A.sealF cek iv (zipApply z pt) (jweEncrypt.bytesOfText (aadInput prot (normAad aad)))
    jweDecryptMulti A K z dk
      { prot := prot, iv := iv, ct := c.1, tag := c.2, aad := normAad aad,
        eks := pre ++ K.wrap (K.pub dk) cek :: post } = ok pt := by
  intro c
  have hloop : ∀ l : List Bytes,
      jweDecryptLoop A K dk ⟨prot, iv, c.1, c.2, normAad aad, pre ++ K.wrap (K.pub dk) cek :: post⟩
        (l ++ K.wrap (K.pub dk) cek :: post) = ok (zipApply z pt) := by
    intro l
    induction l with
    | nil =>
      simp only [List.nil_append, jweDecryptLoop, hK.unwrap_wrap, c, hA.open_seal, decryptResult]
    | cons e l ih =>
      simp only [List.cons_append, jweDecryptLoop]
      cases hu : K.unwrap dk e with
      | none => exact ih
      | some c' =>
        by_cases hc : c' = cek
        · subst hc
          simp only [c, hA.open_seal, decryptResult]
        · simp only [hA.wrong_key c' _ _ _ _ hc, decryptResult]
          exact ih
  show jweDecryptMulti A K z dk ⟨prot, iv, c.1, c.2, normAad aad, pre ++ K.wrap (K.pub dk) cek :: post⟩ = ok pt
  unfold jweDecryptMulti
  simp only [hloop pre]
  cases z with
  | none => rfl
  | some z => simp only [zipApply]; rw [hz pt]

/-- The same for the object `MultiEncrypter.Encrypt` builds: every recipient whose public key was added
decrypts to the original plaintext, whatever the other recipients are and in whatever order they were added. -/
theorem C16_roundtrip_jwe_multi_encrypt {EK DK : Type} (A : AeadPrim) (K : KeyMgmt EK DK) (z : Option Zip) (hz : zipLawful z)
    (dk : DK) (cek iv prot pt : Bytes) (aad : Option Bytes) (ekeys : List EK) (hmem : K.pub dk ∈ ekeys)
    (hK : IdealKeyMgmt K dk cek)
    (hA : IdealAead A cek iv (zipApply z pt) (jweEncrypt.bytesOfText (aadInput prot (normAad aad)))) :
    jweDecryptMulti A K z dk (jweEncryptMulti A K z ekeys cek iv prot pt aad) = ok pt := by
  obtain ⟨s, t, rfl⟩ := List.append_of_mem hmem
  have := C16_roundtrip_jwe_multi A K z hz dk cek iv prot pt aad (s.map (K.wrap · cek)) (t.map (K.wrap · cek)) hK hA
  simpa [jweEncryptMulti] using this

/-- Tamper, multi-recipient: (1) content that differs from the genuine one in the protected header, AAD, IV,
ciphertext or tag decrypts under NO key and NO list of encrypted keys; (2) genuine content whose entries are all
different from the caller's genuine encrypted key (its own entry changed in any bit, the others foreign) does not
decrypt under the caller's key. -/
theorem C16_tamper_jwe_multi {EK DK : Type} (A : AeadPrim) (K : KeyMgmt EK DK) (z : Option Zip)
    (dk : DK) (cek iv prot pt : Bytes) (aad : Option Bytes)
    (hK : IdealKeyMgmt K dk cek)
    (hA : IdealAead A cek iv (zipApply z pt) (jweEncrypt.bytesOfText (aadInput prot (normAad aad))))
    (o' : JweMulti) :
    let c := A.sealF cek iv (zipApply z pt) (jweEncrypt.bytesOfText (aadInput prot (normAad aad)))
    ((o'.prot ≠ prot ∨ o'.aad ≠ normAad aad ∨ o'.iv ≠ iv ∨ o'.ct ≠ c.1 ∨ o'.tag ≠ c.2) →
        ∀ dk' : DK, jweDecryptMulti A K z dk' o' = err .generic) ∧
    (o'.prot = prot → o'.aad = normAad aad → o'.iv = iv → o'.ct = c.1 → o'.tag = c.2 →
        (∀ e ∈ o'.eks, e ≠ K.wrap (K.pub dk) cek) → jweDecryptMulti A K z dk o' = err .generic) := by
  intro c
  constructor
  · intro hd dk'
    have hnone : ∀ k : Bytes, A.openF k o'.iv o'.ct o'.tag (jweEncrypt.bytesOfText (aadInput o'.prot o'.aad)) = none := by
      intro k
      by_cases hk : k = cek
      · subst hk; exact open_tampered_none A z k iv prot pt aad hA _ _ _ _ _ hd
      · exact hA.wrong_key k _ _ _ _ hk
    have hloop : ∀ l : List Bytes, jweDecryptLoop A K dk' o' l = err .generic := by
      intro l
      induction l with
      | nil => rfl
      | cons e l ih =>
        simp only [jweDecryptLoop]
        cases K.unwrap dk' e with
        | none => exact ih
        | some k => simp only [hnone k, decryptResult]; exact ih
    simp only [jweDecryptMulti, hloop]
  · intro e1 e2 e3 e4 e5 hall
    have hloop : ∀ l : List Bytes, (∀ e ∈ l, e ≠ K.wrap (K.pub dk) cek) → jweDecryptLoop A K dk o' l = err .generic := by
      intro l
      induction l with
      | nil => intro _; rfl
      | cons e l ih =>
        intro hl
        simp only [jweDecryptLoop]
        cases hu : K.unwrap dk e with
        | none => exact ih (fun x hx => hl x (List.mem_cons_of_mem _ hx))
        | some k =>
          by_cases hk : k = cek
          · exfalso; subst hk; exact hl e (by simp) (hK.authentic _ hu)
          · simp only [hA.wrong_key k _ _ _ _ hk, decryptResult]
            exact ih (fun x hx => hl x (List.mem_cons_of_mem _ hx))
    simp only [jweDecryptMulti, hloop _ hall]

/-! ### the library's CBC-HMAC composition -/

/-- Idealised CBC mode and MAC: CBC decryption inverts encryption on whole blocks and keeps the
length; the (truncated) MAC is collision-free. -/
structure IdealCbc (P : CbcPrims) : Prop where
  dec_enc : ∀ k iv x, x.length % 16 = 0 → P.cbcDec k iv (P.cbcEnc k iv x) = x ∧ (P.cbcEnc k iv x).length = x.length
  mac_inj : ∀ k x y, P.mac k x = P.mac k y → x = y

/-- Seal then Open with the same keys, IV and AAD returns the plaintext (PKCS#7 + CBC + tag). -/
theorem cbc_hmac_roundtrip (P : CbcPrims) (hP : IdealCbc P) (ek mk iv pt aad : Bytes) :
    cbcOpen P ek mk iv (cbcSeal P ek mk iv pt aad).1 (cbcSeal P ek mk iv pt aad).2 aad = ok pt := by
  obtain ⟨hun, hmod, _, _⟩ := pkcs7_roundtrip 16 (by decide) (by decide) pt
  obtain ⟨hd, hl⟩ := hP.dec_enc ek iv (pad 16 pt) hmod
  simp only [cbcOpen, cbcSeal, ne_eq, not_true_eq_false, if_false, hl, hmod, hd, hun]

/-- Tamper at the level of the library's own AEAD: with the genuine tag, any change to AAD, IV
(16 bytes) or ciphertext is rejected by the tag comparison (the tag input is injective and the MAC
collision-free); with genuine AAD, IV and ciphertext, any change to the tag is rejected. -/
theorem cbc_hmac_tamper (P : CbcPrims) (hP : IdealCbc P) (ek mk iv pt aad : Bytes) (iv' ct' tag' aad' : Bytes)
    (hiv : iv.length = 16) (hiv' : iv'.length = 16) (ha : aad.length * 8 < 2 ^ 64) (ha' : aad'.length * 8 < 2 ^ 64) :
    let ct := (cbcSeal P ek mk iv pt aad).1
    let tag := (cbcSeal P ek mk iv pt aad).2
    ((aad' ≠ aad ∨ iv' ≠ iv ∨ ct' ≠ ct) → cbcOpen P ek mk iv' ct' tag aad' = err .generic) ∧
    (tag' ≠ tag → cbcOpen P ek mk iv ct tag' aad = err .generic) := by
  intro ct tag
  refine ⟨?_, ?_⟩
  · intro hd
    unfold cbcOpen
    by_cases hm : P.mac mk (tagInput aad' iv' ct') = tag
    · exfalso
      obtain ⟨e1, e2, e3⟩ := cbc_tag_input_injective _ _ _ _ _ _ hiv' hiv ha' ha (hP.mac_inj _ _ _ hm)
      rcases hd with hd | hd | hd
      · exact hd e1
      · exact hd e2
      · exact hd e3
    · simp [hm]
  · intro ht
    unfold cbcOpen
    have : P.mac mk (tagInput aad iv ct) ≠ tag' := fun h => ht h.symm
    simp [this]

/-! ### non-vacuity: every hypothesis bundle is inhabited, concrete instances of the statements -/

/-- injective text → octets encoding used by the example signature scheme -/
def exEnc (m : List Char) : Bytes := m.flatMap (fun c => be 4 c.toNat)

theorem exEnc_inj : ∀ m m' : List Char, exEnc m = exEnc m' → m = m' := by
  intro m
  induction m with
  | nil =>
    intro m' h
    cases m' with
    | nil => rfl
    | cons c r =>
      have := congrArg List.length h
      simp [exEnc, List.flatMap_cons, be_length] at this
      omega
  | cons c r ih =>
    intro m' h
    cases m' with
    | nil =>
      have := congrArg List.length h
      simp [exEnc, List.flatMap_cons, be_length] at this
    | cons c' r' =>
      simp only [exEnc, List.flatMap_cons] at h
      obtain ⟨h1, h2⟩ := List.append_inj h (by simp [be_length])
      have hc : c.toNat < 256 ^ 4 := by have := c.val.toNat_lt; show c.val.toNat < 256 ^ 4; omega
      have hc' : c'.toNat < 256 ^ 4 := by have := c'.val.toNat_lt; show c'.val.toNat < 256 ^ 4; omega
      have e := be_inj hc hc' h1
      have ec : c = c' := Char.ext (UInt32.toNat_inj.mp e)
      rw [ec, ih r' h2]

/-- A (toy) signature scheme satisfying `IdealSig`: the signature is the key byte followed by an
injective encoding of the message. -/
def exSig : SigPrim UInt8 UInt8 where
  pub := id
  sign sk m := sk :: exEnc m
  verify pk m s := decide (s = pk :: exEnc m)

example : IdealSig exSig where
  verify_sign := by intro sk m; simp [exSig]
  unforgeable := by intro sk m s h; simpa [exSig] using h
  collision_free := by
    intro sk m m' h
    simp only [exSig, List.cons.injEq, true_and] at h
    exact exEnc_inj _ _ h
  key_sep := by
    intro sk sk' m h
    simp only [exSig, id, ne_eq] at h ⊢
    simp [h]

/-- An AEAD that knows exactly one genuine message satisfies `IdealAead` for it. -/
def exAead (k iv pt a : Bytes) : AeadPrim where
  sealF _ _ p _ := (p.reverse, [0x54])
  openF k' iv' ct' tag' a' := if k' = k ∧ iv' = iv ∧ ct' = pt.reverse ∧ tag' = [0x54] ∧ a' = a then some pt else none

example (k iv pt a : Bytes) : IdealAead (exAead k iv pt a) k iv pt a where
  open_seal := by simp [exAead]
  authentic := by
    intro iv' ct' tag' a' p' h
    simp only [exAead] at h
    split at h
    · rename_i hc; exact ⟨hc.2.1, hc.2.2.1, hc.2.2.2.1, hc.2.2.2.2⟩
    · cases h
  wrong_key := by
    intro k' iv' ct' tag' a' hk
    simp [exAead, hk]

def exKm (dk : UInt8) (cek : Bytes) : KeyMgmt UInt8 UInt8 where
  pub := id
  wrap _ c := 0x77 :: c
  unwrap dk' ek' := if dk' = dk ∧ ek' = 0x77 :: cek then some cek else none

example (dk : UInt8) (cek : Bytes) : IdealKeyMgmt (exKm dk cek) dk cek where
  unwrap_wrap := by simp [exKm]
  authentic := by
    intro ek' h
    simp only [exKm] at h
    split at h
    · rename_i hc; exact hc.2
    · cases h
  other_key := by
    intro dk' c hk h
    simp only [exKm, id, ne_eq] at hk h
    simp [hk] at h

/-- An RSA1_5-like key management: a foreign encrypted key never fails, it yields some other CEK. -/
def exKm15 (dk : UInt8) (cek : Bytes) : KeyMgmt UInt8 UInt8 where
  pub := id
  wrap _ c := 0x77 :: c
  unwrap dk' ek' := if dk' = dk ∧ ek' = 0x77 :: cek then some cek else some [0xBA, 0x0D]

example : IdealKeyMgmt (exKm15 5 [1, 2]) 5 [1, 2] where
  unwrap_wrap := by simp [exKm15]
  authentic := by
    intro ek' h
    simp only [exKm15] at h
    split at h
    · rename_i hc; exact hc.2
    · simp at h
  other_key := by
    intro dk' c hne h
    simp only [exKm15, id] at h hne
    rw [if_neg (by intro hc; exact hne hc.1)] at h
    cases h; decide

/-- The recipient's entry behind two foreign ones (the first answered with a wrong CEK): still the plaintext;
and with the recipient's entry changed in one bit: an error. -/
example : jweDecryptMulti (exAead [1, 2] [9] [7, 7] (jweEncrypt.bytesOfText (aadInput [3] none))) (exKm15 5 [1, 2]) none 5
    ⟨[3], [9], [7, 7], [0x54], none, [[0xAA], [0x77, 0xFF], [0x77, 1, 2]]⟩ = ok [7, 7] ∧
  jweDecryptMulti (exAead [1, 2] [9] [7, 7] (jweEncrypt.bytesOfText (aadInput [3] none))) (exKm15 5 [1, 2]) none 5
    ⟨[3], [9], [7, 7], [0x54], none, [[0xAA], [0x77, 0xFF], [0x77, 1, 3]]⟩ = err .generic := by decide

example : IdealCbc { cbcEnc := fun _ _ x => x, cbcDec := fun _ _ x => x, mac := fun _ x => x } where
  dec_enc := by intro k iv x _; exact ⟨rfl, rfl⟩
  mac_inj := by intro k x y h; exact h

example : ZipLawful { deflate := fun x => 0 :: x, inflate := fun x => some x.tail } := by
  intro x; rfl

example : BlockPerm (toyEnc 3) (toyDec 3) := toy_perm 3

/-- RFC 4648 test vectors through the model. -/
example : b64 [0x66, 0x6f, 0x6f, 0x62, 0x61] = "Zm9vYmE".toList ∧ unb64 "Zm9vYmE".toList = ok [0x66, 0x6f, 0x6f, 0x62, 0x61] ∧
    unb64 "Zm9vYmF".toList = ok [0x66, 0x6f, 0x6f, 0x62, 0x61] ∧ b64 [0xfb, 0xff] = "-_8".toList := by
  refine ⟨by decide, rfl, rfl, by decide⟩
set_option maxRecDepth 8192 in
example : canonLast "Zm9vYmF".toList = "Zm9vYmE".toList := by decide +kernel
example : ∀ c ∈ b64 [0x66, 0x6f], B64Char c := b64_chars _
example : compactSerialize [[1], [], [2, 3]] = "AQ..AgM".toList := by decide
example : pad 16 [1, 2, 3] = [1, 2, 3, 13, 13, 13, 13, 13, 13, 13, 13, 13, 13, 13, 13, 13] := by decide
example : ecSigEncode 4 1 258 = ok [0, 0, 0, 1, 0, 0, 1, 2] := rfl
/-- RFC 3394 shape with the toy cipher: 16-byte key → 24 bytes, and back. -/
example : (keyWrap (toyEnc 3) (List.replicate 16 7)).bind (keyUnwrap (toyDec 3)) = ok (List.replicate 16 7) := by
  obtain ⟨w, h1, _, h2⟩ := keywrap_roundtrip _ _ (toy_perm 3) (List.replicate 16 7) (by decide)
  rw [h1]; exact h2

end Oryx.Props.C16
