/-
  C01 — RTMP session: every message written is read back identically.
  Statements only; proofs are in Oryx/Proofs/Rtmp/*.lean.
-/
import Oryx.Proofs.Rtmp.Session
namespace Oryx.Props.C01
open Oryx Oryx.Res Oryx.Rtmp

/-! Gating obligations on the regenerated tables: the model's header sizes, the extended-timestamp
threshold, the default chunk size and the control-message type ids are what the Go source says now. -/
example : Gen.Rtmp.messageHeaderSizes = [11, 7, 3, 0] := by decide
example : Gen.Rtmp.extendedTimestamp = 0xFFFFFF := by decide
example : Gen.Rtmp.defaultChunkSize = 128 := by decide
example : (Gen.Rtmp.MessageTypeSetChunkSize, Gen.Rtmp.MessageTypeUserControl,
           Gen.Rtmp.MessageTypeWindowAcknowledgementSize) = (1, 4, 5) := by decide
example : Gen.Rtmp.writerFollowsOwnSetChunkSize = true := by decide

/-- The domain of the property: chunk stream 2..63 (the ids the writer can put in a 1-byte basic
header), timestamp below 2^31, non-empty payload below 2^24, well-formed bodies for the
protocol-control types the reader itself decodes, Set Chunk Size ≥ 1. -/
def MsgOK (m : Msg) : Prop := m.WF ∧ m.ChunkSizeOK

/-- The reader's header parser inverts the writer's type-0 header for every well-formed message —
including `ts ∈ {0xFFFFFE, 0xFFFFFF, 0x1000000, 2^31−1}` by the general proof, not by cases. -/
theorem c0_parse (c : ChunkStream) (m : Msg) (hm : m.WF) (hc : c.msg = none) (hcid : c.hdr.cid = m.hdr.cid)
    (rest : Bytes) :
    readBasicHeader (c0Header m ++ rest) = ok ((0, m.hdr.cid), (c0Header m).tail ++ rest) ∧
    readMessageHeader c 0 ((c0Header m).tail ++ rest)
      = ok ({ c with hdr := hdrOf m, msg := some { hdr := hdrOf m, payload := [] },
                     count := c.count + 1, extTs := decide (m.hdr.ts ≥ Gen.Rtmp.extendedTimestamp) }, rest) := by
  rw [c0Header_eq]
  refine ⟨by simpa using c0_basic m hm _, ?_⟩
  simpa [List.append_assoc] using readMessageHeader_c0 c m hm hc hcid rest

/-- … and the type-3 continuation header (with the repeated extended timestamp). -/
theorem c3_parse (c : ChunkStream) (m : Msg) (hm : m.WF) (pre : Bytes)
    (hmsg : c.msg = some { hdr := hdrOf m, payload := pre }) (hh : c.hdr = hdrOf m)
    (hext : c.extTs = decide (m.hdr.ts ≥ Gen.Rtmp.extendedTimestamp)) (hcount : c.count ≠ 0) (rest : Bytes) :
    readBasicHeader (c3Header m ++ rest) = ok ((3, m.hdr.cid), (c3Header m).tail ++ rest) ∧
    readMessageHeader c 3 ((c3Header m).tail ++ rest) = ok ({ c with count := c.count + 1 }, rest) := by
  refine ⟨by simpa [c3Header] using c3_basic m hm _, ?_⟩
  simpa [c3Header] using readMessageHeader_c3 c m hm pre hmsg hh hext hcount rest

/-- The writer's chunk loop terminates for every chunk size ≥ 1 and every payload (with chunk size 0
the Go loop spins forever: that value is outside the property's `[1, 2^31−1]`). -/
theorem writer_terminates (c : Nat) (hc : 1 ≤ c) (m : Msg) : ∃ W, writeMessage c m = ok W :=
  writeChunks_ok c hc m _ true _ (Nat.le_refl _)

/-- One message, any chunk size `c ≥ 1`, any payload length (all of `k·c−1, k·c, k·c+1, 65535, 65536,
2^24−1` by the general induction), any following bytes. -/
theorem write_read_one (c : Nat) (hc : 1 ≤ c) (m : Msg) (hm : m.WF) (st : Reader) (hic : st.inChunk = c)
    (hclean : Clean st) (rest : Bytes) :
    ∃ W st', writeMessage c m = ok W ∧ readMessage st (W ++ rest) = ok ((received m, st'), rest) ∧
      (received m).view = m.view ∧ Clean st' ∧ st'.inChunk = outChunkAfter c m := by
  obtain ⟨W, st', h1, h2, h3, h4⟩ := Rtmp.write_read_one c hc m hm st hic hclean rest
  exact ⟨W, st', h1, h2, rfl, h3, h4⟩

/-- The simple handshake: each side writes 1 + 1536 + 1536 = 3073 bytes and the reads consume exactly
those, leaving the chunk stream untouched. -/
theorem handshake_lengths (c1tail peerC1 rest : Bytes) (h1 : c1tail.length = 1528) (h2 : peerC1.length = 1536) :
    (hsWrite c1tail peerC1).length = 3073 ∧
    (do let (c0, bs) ← hsReadC0 (hsWrite c1tail peerC1 ++ rest)
        let (c1, bs) ← hsReadC1 bs
        let (c2, bs) ← hsReadC2 bs
        pure (c0, c1, c2, bs) : Res (Bytes × Bytes × Bytes × Bytes))
      = ok ([3], List.replicate 8 0 ++ c1tail, peerC1, rest) := by
  have hl : (List.replicate 8 (0 : UInt8) ++ c1tail).length = 1536 := by simp [h1]
  refine ⟨by simp [hsWrite, h1, h2], ?_⟩
  simp only [hsWrite, hsReadC0, hsReadC1, hsReadC2, List.append_assoc]
  rw [copyN_append (n := 1) [3] _ rfl]
  simp only [Res.bind_ok]
  rw [← List.append_assoc (List.replicate 8 0) c1tail, copyN_append _ _ hl]
  simp only [Res.bind_ok]
  rw [copyN_append _ _ h2]
  rfl

/-- **C01**: after the handshake, whatever finite sequence of well-formed messages one endpoint writes
— any types, stream ids, timestamps below 2^31, payload lengths below 2^24, a Set Chunk Size with any
value ≥ 1 at any position — the peer's reader (default chunk size, no partial message) returns exactly
that sequence: same chunk stream, type, stream id, timestamp and payload, in order, and leaves
whatever follows untouched. The model reader is a function of the joined byte stream, so the result
is the same for every segmentation of the transport into reads (that bufio.Reader / io.ReadFull
realise this is trusted and exercised by the correspondence run with 1-byte reads).
Both directions of a duplex session are two independent instances of this theorem. -/
theorem C01_session (c1tail peerC1 : Bytes) (h1 : c1tail.length = 1528) (h2 : peerC1.length = 1536)
    (msgs : List Msg) (hall : ∀ m ∈ msgs, MsgOK m) (rest : Bytes) :
    ∃ W st', writeAll Gen.Rtmp.defaultChunkSize msgs = ok W ∧
      (do let (_, bs) ← hsReadC0 (hsWrite c1tail peerC1 ++ (W ++ rest))
          let (_, bs) ← hsReadC1 bs
          let (_, bs) ← hsReadC2 bs
          readMessages msgs.length {} bs : Res ((List Msg × Reader) × Bytes))
        = ok ((msgs.map received, st'), rest) ∧
      (msgs.map received).map Msg.view = msgs.map Msg.view := by
  obtain ⟨W, st', hw, hr, _⟩ := session msgs hall Gen.Rtmp.defaultChunkSize {} rest (by decide) rfl
    (by intro k ch hk; simp [Chunks.get] at hk)
  refine ⟨W, st', hw, ?_, by simp [List.map_map, Function.comp_def, view_received]⟩
  have hl : (List.replicate 8 (0 : UInt8) ++ c1tail).length = 1536 := by simp [h1]
  simp only [hsWrite, hsReadC0, hsReadC1, hsReadC2, List.append_assoc]
  rw [copyN_append (n := 1) [3] _ rfl]
  simp only [Res.bind_ok]
  rw [← List.append_assoc (List.replicate 8 0) c1tail, copyN_append _ _ hl]
  simp only [Res.bind_ok]
  rw [copyN_append _ _ h2]
  simp only [Res.bind_ok]
  exact hr

/-- Same statement for an arbitrary point of a session: any current chunk size, any reader state
without a partial message. -/
theorem C01_session_from (msgs : List Msg) (hall : ∀ m ∈ msgs, MsgOK m)
    (c : Nat) (st : Reader) (rest : Bytes) (hc : 1 ≤ c) (hic : st.inChunk = c) (hcl : Clean st) :
    ∃ W st', writeAll c msgs = ok W ∧
      readMessages msgs.length st (W ++ rest) = ok ((msgs.map received, st'), rest) ∧ Clean st' :=
  session msgs hall c st rest hc hic hcl

/-- Duplex: ONE endpoint (one `Protocol`) that writes its own messages and reads the peer's in ANY interleaving
puts on the wire exactly what a write-only endpoint would for the same messages, and delivers exactly what a
read-only endpoint would from the same incoming bytes: what it announces with Set Chunk Size governs only what it
writes, what it receives governs only how it reads. Together with `C01_session` (applied once per direction) this
is the round trip of a two-way session in which both sides announce chunk sizes at any point. (Tied to the code by
the duplex sessions of the correspondence run: there the two activities share one `rtmp.Protocol`.) -/
theorem C01_duplex (acts : List EAct) (e : Endpoint) (inb W : Bytes) (ms : List Msg) (rd' : Reader) (rest : Bytes)
    (hw : writeAll e.out (writesOf acts) = ok W)
    (hr : readMessages (readsOf acts) e.rd inb = ok ((ms, rd'), rest)) :
    e.run inb acts = ok (({ rd := rd', out := outAfterAll e.out (writesOf acts) }, W), (ms, rest)) := by
  induction acts generalizing e inb W ms rest with
  | nil =>
    simp only [writesOf, readsOf, writeAll, readMessages, Res.ok.injEq, Prod.mk.injEq] at hw hr
    obtain ⟨⟨rfl, rfl⟩, rfl⟩ := hr
    subst hw
    rfl
  | cons a as ih =>
    cases a with
    | write m =>
      simp only [writesOf, readsOf, writeAll] at hw hr
      obtain ⟨w1, h1, h2⟩ := Res.bind_eq_ok.mp hw
      obtain ⟨w2, h3, h4⟩ := Res.bind_eq_ok.mp h2
      simp only [Res.pure_eq, Res.ok.injEq] at h4
      subst h4
      have := ih { e with out := outChunkAfter e.out m } inb w2 ms rest h3 hr
      simp only [Endpoint.run, Endpoint.step, h1, Res.bind_ok, Res.pure_eq, this, outAfterAll, writesOf,
        Option.toList, List.nil_append]
    | read =>
      simp only [writesOf, readsOf, readMessages] at hw hr
      obtain ⟨⟨⟨m, st1⟩, bs1⟩, h1, h2⟩ := Res.bind_eq_ok.mp hr
      obtain ⟨⟨⟨ms', st2⟩, bs2⟩, h3, h4⟩ := Res.bind_eq_ok.mp h2
      simp only [Res.pure_eq, Res.ok.injEq, Prod.mk.injEq] at h4
      obtain ⟨⟨rfl, rfl⟩, rfl⟩ := h4
      have := ih { e with rd := st1 } bs1 W ms' bs2 hw h3
      simp only [Endpoint.run, Endpoint.step, h1, Res.bind_ok, Res.pure_eq, this, Option.toList,
        List.nil_append, List.singleton_append, writesOf]

/-- Why the writer must follow its own announcement (defect F3, repaired): a writer that keeps the
old chunk size after announcing a new one is NOT read back — concrete witness: Set Chunk Size 2, then
a 3-byte message still written as one 128-byte chunk. -/
def staleWire : Bytes :=
  -- SetChunkSize(2) on cid 2, then cid 5 type 9 payload AA BB CC written with the stale size 128
  [0x02, 0,0,0, 0,0,4, 1, 0,0,0,0, 0,0,0,2,
   0x05, 0,0,0, 0,0,3, 9, 1,0,0,0, 0xAA, 0xBB, 0xCC]

theorem stale_writer_witness :
    (match readMessages 2 {} staleWire with
     | .ok ((ms, _), _) => ms.map (·.payload) == [[0, 0, 0, 2], [0xAA, 0xBB, 0xCC]]
     | _ => false) = false := by
  decide +kernel

/-! ### non-vacuity -/

/-- A 300-byte video message at `ts = 0xFFFFFF` (extended timestamp in C0 and both C3 headers). -/
def exVideo : Msg := { hdr := { cid := 7, ty := 9, sid := 1, ts := 0xFFFFFF }, payload := List.replicate 300 0x17 }
def exSetChunk : Msg := { hdr := { cid := 2, ty := 1, sid := 0, ts := 0 }, payload := [0, 0, 0, 7] }

theorem exVideo_ok : MsgOK exVideo := by
  refine ⟨⟨by decide, by decide, by decide, by simp [exVideo, -List.reduceReplicate], by simp [exVideo, -List.reduceReplicate], by decide, by decide, ?_⟩, ?_⟩
  · refine ⟨?_, ?_, ?_⟩ <;> intro h <;> exact absurd h (by decide)
  · intro h; exact absurd h (by decide)

theorem exSetChunk_ok : MsgOK exSetChunk := by
  refine ⟨⟨by decide, by decide, by decide, by decide, by decide, by decide, by decide, ?_⟩, ?_⟩
  · refine ⟨?_, ?_, ?_⟩
    · intro _; decide
    · intro h; exact absurd h (by decide)
    · intro h; exact absurd h (by decide)
  · intro _; decide

example : ∀ m ∈ [exSetChunk, exVideo], MsgOK m := by
  intro m hm
  simp at hm
  rcases hm with rfl | rfl
  · exact exSetChunk_ok
  · exact exVideo_ok

/-- The example session on the wire: after Set Chunk Size 7 the 300-byte message takes 43 chunks. -/
example : (writeAll 128 [exSetChunk, exVideo]).isOk = true := by decide +kernel

/-- `C01_duplex` on a concrete schedule: the endpoint announces chunk size 7, reads a 300-byte message the peer
wrote with the default size 128, then writes the same message itself — in 7-byte chunks, while what it read came in
128-byte chunks. -/
example :
    (match writeAll 128 [exVideo] with
     | .ok peer =>
       (match Endpoint.run {} peer [.write exSetChunk, .read, .write exVideo] with
        | .ok ((e, w), (ms, rest)) =>
          e.out == 7 && e.rd.inChunk == 128 && ms.map (·.payload) == [exVideo.payload] && rest == [] &&
          decide (ok w = writeAll 128 [exSetChunk, exVideo])
        | _ => false)
     | _ => false) = true := by decide +kernel

end Oryx.Props.C01
