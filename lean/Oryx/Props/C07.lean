/-
  C07 — untrusted bytes never crash or stall a decoder.

  Cross-cutting: this file only collects, per modelled decoder, (a) the no-panic theorem, which also
  says the loop fuel `len + 1` of the model is never exhausted — i.e. the loop runs at most `len + 1`
  times, the iteration bound that is the model-level content of "time linear in the input"
  (every iteration does a bounded amount of work apart from copying bytes it consumes); (b) where a
  decoder pays more than that per iteration (AMF0 re-walking a child with `Size()`), an explicit cost
  function and its bound; (c) totality of the enum helpers over the whole range of their integer types,
  proved on the definitions the translator regenerates from the Go source on every run.

  NOT modelled (covered only by the fuzz/timing support run of `corr C07`, stated in the evidence):
  OCSP / encoding/asn1, JWK key parsing, encoding/json paths, compress/flate, the websocket HTTP
  handshake. Wall-clock linearity and stack depth are runtime facts; the theorem is about the cost model.
-/
import Oryx.Props.C02
import Oryx.Props.C03
import Oryx.Props.C05
import Oryx.Props.C09
import Oryx.Props.C10
import Oryx.Props.C11
import Oryx.Props.C12
import Oryx.Props.C14
import Oryx.Props.C16
import Oryx.Props.C17
namespace Oryx.Props.C07
open Oryx Oryx.Res

/-! ### (a) no decoder panics, on any byte string -/

/-- AMF0: `Discovery` + `UnmarshalBinary` of every supported type, any nesting. -/
theorem amf0_never_panics (bs : Bytes) : Amf0.decode bs ≠ .panic := C05.decode_never_panics bs

/-- RTMP chunk reader: `ReadMessage` on any byte string, from any reachable reader state (the invariant
holds initially and is preserved by every successful read); a whole session of `k` reads likewise.
The `make([]byte, negative)` guard, the nil dereference of `chunk.message` and the exhaustion of the
loop fuel (`len + 1` iterations) are unreachable. -/
theorem rtmp_reader_never_panics (st : Rtmp.Reader) (bs : Bytes) (hst : Rtmp.ReaderInv st) (k : Nat) :
    Rtmp.readMessage st bs ≠ .panic ∧ Rtmp.readMessages k {} bs ≠ .panic :=
  ⟨C02.reader_never_panics st bs hst, C02.reader_never_panics_session k bs⟩

/-- RTMP message decoder: `DecodeMessage`/`parseAMFObject` for every message type and transaction
table, every packet's `UnmarshalBinary`, and the typed waits. -/
theorem rtmp_packets_never_panic (tbl : RtmpPkt.TxnTable) (m : Rtmp.Msg) (k : RtmpPkt.Kind) (data : Bytes) :
    RtmpPkt.dispatch tbl m ≠ .panic ∧ RtmpPkt.unmarshal k data ≠ .panic :=
  ⟨C03.decode_never_panics tbl m, C03.unmarshal_never_panics k data⟩

/-- FLV demuxer (header, tag header, `ReadTag` for ANY size argument, whole-file loop) and both tag
body decoders. -/
theorem flv_never_panics (s : Bytes) :
    Flv.readHeader s ≠ .panic ∧ Flv.readTagHeader s ≠ .panic ∧ (∀ size, Flv.readTag size s ≠ .panic) ∧
    Flv.demux s ≠ .panic ∧ Flv.decodeAudio s ≠ .panic ∧ Flv.decodeVideo s ≠ .panic :=
  ⟨(C09.demux_never_panics s).1, (C09.demux_never_panics s).2.1, (C09.demux_never_panics s).2.2.1,
   (C09.demux_never_panics s).2.2.2.1, (C10.decoders_never_panic s).1, (C10.decoders_never_panic s).2⟩

/-- ADTS `Decode` (any prior receiver state), the frame-by-frame caller loop, and AudioSpecificConfig. -/
theorem aac_never_panics (st : Aac.Asc) (bs : Bytes) :
    (Aac.adtsDecode st bs).2 ≠ .panic ∧ Aac.decodeStream (bs.length + 1) st bs ≠ .panic ∧
    (Aac.ascUnmarshal st bs).2 ≠ .panic :=
  ⟨(C11.decoders_never_panic st bs).1, (C11.decoders_never_panic st bs).2.1, (C11.decoders_never_panic st bs).2.2.1⟩

/-- AVC NAL unit, configuration record, and sample for every NAL length size. -/
theorem avc_never_panics (bs : Bytes) :
    Avc.naluUnmarshal bs ≠ .panic ∧ Avc.recordUnmarshal bs ≠ .panic ∧ ∀ n, 1 ≤ n → n ≤ 7 → Avc.sampleUnmarshal n bs ≠ .panic :=
  C12.decoders_never_panic bs

/-- WebSocket frame reader: `advanceFrame`, `NextReader`, `ReadMessage` from ANY reader state (role, limits,
partial message, whatever bytes are still to come); a whole session always ends (no exhausted fuel). -/
theorem websocket_reader_never_panics (s : WsRead.RState) :
    WsRead.advanceFrame s ≠ .panic ∧ WsRead.nextReader s ≠ .panic ∧ WsRead.readMessage s ≠ .panic ∧
    ∃ t, WsRead.session s = some t :=
  C14.no_panic s

/-- JSON+ reader: the Scanner split function always makes progress (no zero advance, no exhausted
fuel) on every input in every segmentation. -/
theorem jsonplus_never_stuck (chunks : List Bytes) :
    (Json.strip Json.jsonPlus chunks.flatten).2 ≠ .stuck ∧ (Json.stripChunks Json.jsonPlus chunks).2 ≠ .stuck :=
  C17.never_stuck chunks

/-- JOSE glue before the primitives run: the AEAD parameter checks reject wrong IV / tag / key lengths
instead of reaching the documented panics of `cipher.AEAD.Open` / `NewCBCDecrypter`; `KeyUnwrap`
rejects lengths that are not a positive multiple of 8. -/
theorem jose_prechecks_never_panic (e : Jose.Enc) (keyLen ivLen ctLen tagLen : Nat)
    (hk : if e.isGcm then True else keyLen % 2 = 0) :
    Jose.precheck e keyLen ivLen ctLen tagLen ≠ .panic :=
  C16.precheck_never_panics e keyLen ivLen ctLen tagLen hk

/-- … and behind a VALID tag: the CBC-HMAC `Open` of the library (tag check, block-length check, CBC, PKCS#7
unpadding) returns for every key, IV, ciphertext — the empty one included (defect F28, repaired) — tag and AAD,
whatever the block cipher and the MAC are. -/
theorem jose_cbc_open_never_panics (P : Jose.CbcPrims) (ek mk iv ct tag aad : Bytes) :
    Jose.cbcOpen P ek mk iv ct tag aad ≠ .panic :=
  C16.cbc_open_never_panics P ek mk iv ct tag aad

/-! ### (b) cost: AMF0 containers -/

/-- The decoder the source has NOW advances past a decoded child in constant time (fact regenerated
from amf0.go on every run; `false` = the old `Size()` re-walk, whose cost on `d` nested objects is
`d² + 2d + 1`, theorem `C05.nested_cost_quadratic`). -/
example : Gen.Amf0.childAdvanceIsConstant = true := by decide

/-- With that, decoding costs at most three units per byte of input: linear. -/
theorem amf0_cost_linear (bs : Bytes) : Amf0.cost bs ≤ 3 * bs.length := by
  unfold Amf0.cost
  cases h : Amf0.decode bs with
  | ok p =>
    obtain ⟨v, rest⟩ := p
    have h1 := Amf0.costV_le_walk v
    have h2 := Amf0.walk_le_size v
    have h3 := (C05.size_consumed bs v rest h).2.1
    have hc : (!Gen.Amf0.childAdvanceIsConstant) = false := by decide
    simp only [hc]
    omega
  | err k => simp
  | panic => simp

/-- The instrumented cost really distinguishes the two decoders: the same family that is linear now
was quadratic with the re-walk. -/
theorem amf0_cost_family (k : Bytes) (d : Nat) :
    Amf0.costV false (Amf0.nest k d .null) ≤ 3 * Amf0.size (Amf0.nest k d .null) ∧
    Amf0.costV true (Amf0.nest k d .null) = d * d + 2 * d + 1 :=
  ⟨Nat.le_trans (Amf0.costV_le_walk _) (Nat.mul_le_mul_left 3 (Amf0.walk_le_size _)),
   (C05.nested_cost_quadratic k d).2⟩

/-! ### (c) enum helpers are total over the whole range of their integer types -/

theorem enum_helpers_total_avc (v : Nat) :
    (Gen.Avc.NALUType_String v).isPanic = false ∧ (Gen.Avc.AVCLevel_String v).isPanic = false ∧
    (Gen.Avc.AVCProfile_String v).isPanic = false := C12.enum_helpers_total v

/-- AAC: `ToHz`, `ToProfile`, `ToObjectType` and the four `String` methods, all 256 values. -/
theorem enum_helpers_total_aac (v : UInt8) :
    Aac.toHz v ≠ .panic ∧ Aac.toProfile v ≠ .panic ∧ Aac.toObjectType v ≠ .panic ∧
    Gen.Aac.ObjectType_String v.toNat ≠ .panic ∧ Gen.Aac.Profile_String v.toNat ≠ .panic ∧
    Gen.Aac.SampleRateIndex_String v.toNat ≠ .panic ∧ Gen.Aac.Channels_String v.toNat ≠ .panic :=
  C11.enum_helpers_total v

/-- FLV: `ToHz`, `OpusToHz` and the eight `String` methods, all 256 values. -/
theorem enum_helpers_total_flv (v : UInt8) :
    (Flv.toHz v).isPanic = false ∧ (Flv.opusToHz v).isPanic = false ∧
    (Gen.Flv.TagType_String v.toNat).isPanic = false ∧
    (Gen.Flv.AudioChannels_String v.toNat).isPanic = false ∧
    (Gen.Flv.AudioSampleBits_String v.toNat).isPanic = false ∧
    (Gen.Flv.AudioSamplingRate_String v.toNat).isPanic = false ∧
    (Gen.Flv.AudioCodec_String v.toNat).isPanic = false ∧
    (Gen.Flv.VideoFrameType_String v.toNat).isPanic = false ∧
    (Gen.Flv.VideoCodec_String v.toNat).isPanic = false ∧
    (Gen.Flv.VideoFrameTrait_String v.toNat).isPanic = false :=
  C10.enum_helpers_total v

/-- AMF0 marker names. -/
theorem enum_helpers_total_amf0 (v : Nat) : (Gen.Amf0.marker_String v).isPanic = false := by
  simp only [Gen.Amf0.marker_String, Res.isPanic_ite, Res.isPanic_ok, ite_self]

end Oryx.Props.C07
