/-
  C05 — AMF0 values round-trip and report their exact encoded size.
  Only property statements, their proofs from the helper lemmas (Oryx/Proofs/Amf0*.lean), and
  non-vacuity examples. Model: Oryx/Model/Amf0.lean = amf0/amf0.go after the two repairs
  (F5: the decoder keeps properties with a repeated name; F6: a strict array marshals the number of
  its elements as count).
-/
import Oryx.Proofs.Amf0Extra
namespace Oryx.Props.C05
open Oryx Oryx.Res Oryx.Amf0

/-- Marshalling yields exactly `Size()` bytes — for EVERY value tree (no well-formedness needed). -/
theorem encode_len (v : Val) : (encode v).length = size v := encode_length v

/-- Unmarshalling the marshalled bytes (followed by anything) yields an equal tree — keys in the
original order, repeated keys kept — and leaves exactly the trailing bytes. -/
theorem decode_encode (v : Val) (h : v.WF) (rest : Bytes) :
    decode (encode v ++ rest) = ok (v, rest) :=
  rtVal v rest _ h (Nat.lt_succ_self _)

/-- Re-marshalling what was unmarshalled reproduces the bytes. -/
theorem reencode (v : Val) (h : v.WF) (rest : Bytes) :
    ∃ v' r, decode (encode v ++ rest) = ok (v', r) ∧ encode v' = encode v ∧ size v' = size v :=
  ⟨v, rest, decode_encode v h rest, rfl, rfl⟩

/-- For EVERY byte string that decodes, `Size()` of the result is the number of bytes consumed, and
what follows is exactly the input advanced by `Size()`: a caller that advances by `Size()` stays
aligned on the next value. -/
theorem size_consumed (bs : Bytes) (v : Val) (rest : Bytes) (h : decode bs = ok (v, rest)) :
    size v = bs.length - rest.length ∧ size v ≤ bs.length ∧ rest = bs.drop (size v) := by
  obtain ⟨h1, h2⟩ := (decode_good _).1 _ _ _ h
  refine ⟨?_, h1, h2⟩
  rw [h2, List.length_drop]; omega

/-- Numbers are bit-exact: every 64-bit pattern (NaN payloads, signalling NaNs, ±0, ±∞, denormals)
survives the round trip unchanged. (`math.Float64bits`/`Float64frombits` transparency is trusted.) -/
theorem number_bits (bits : UInt64) (rest : Bytes) :
    decode (encode (.num bits) ++ rest) = ok (.num bits, rest) ∧
    encode (.num bits) = 0 :: be 8 bits.toNat :=
  ⟨decode_encode _ (by rfl) rest, rfl⟩

/-- No byte string makes the decoder panic: in particular the slice `p[a.Size():]` in the container
loop is always in range, and the recursion fuel of the model is never exhausted. -/
theorem decode_never_panics (bs : Bytes) : decode bs ≠ .panic := decode_ne_panic bs

/-- Fuel is only a device: any fuel above the input length is enough for every decoder entry. -/
theorem fuel_never_exhausted (fuel : Nat) (bs : Bytes) (h : bs.length < fuel) :
    decodeVal fuel bs ≠ .panic ∧ decodeProps fuel bs ≠ .panic ∧ ∀ n, decodeElems fuel n bs ≠ .panic :=
  ⟨(decode_np fuel).1 bs h, (decode_np fuel).2.1 bs h, fun n => (decode_np fuel).2.2 n bs h⟩

/-- The whole property, as one proposition. -/
def C05_statement : Prop :=
  (∀ v : Val, (encode v).length = size v) ∧
  (∀ v : Val, v.WF → ∀ rest, decode (encode v ++ rest) = ok (v, rest)) ∧
  (∀ bs v rest, decode bs = ok (v, rest) → size v = bs.length - rest.length ∧ rest = bs.drop (size v))

/-- C05 holds in full for the repaired code. -/
theorem C05_holds : C05_statement :=
  ⟨encode_len, decode_encode, fun bs v rest h => ⟨(size_consumed bs v rest h).1, (size_consumed bs v rest h).2.2⟩⟩

/-- Every byte string that decodes yields a well-formed tree; hence it re-marshals to exactly the
consumed bytes' length, and unmarshalling the re-marshalled bytes gives the same tree again. -/
theorem decoded_is_stable (bs : Bytes) (v : Val) (rest : Bytes) (h : decode bs = ok (v, rest)) :
    v.WF ∧ (encode v).length = bs.length - rest.length ∧
    ∀ tail, decode (encode v ++ tail) = ok (v, tail) :=
  ⟨decode_wf h, by rw [encode_len]; exact (size_consumed bs v rest h).1,
   fun tail => decode_encode v (decode_wf h) tail⟩

/-! ### the property bag (`objectBase.Get` / `Set`) -/

/-- `Set` then `Get` of the same key returns the value set (an existing key is replaced in place,
a new one appended at the end); other keys are undisturbed. -/
theorem get_set (ps : Props) (k k' : Bytes) (v : Val) :
    (ps.set k v).get k = some v ∧ (k' ≠ k → (ps.set k v).get k' = ps.get k') :=
  ⟨Props.get_set_same k v ps, fun h => Props.get_set_other k v h ps⟩

/-- A container filled through `Set` alone has no repeated key (repeats arise only from decoding). -/
theorem set_keeps_keys_distinct (ps : Props) (k : Bytes) (v : Val) (h : ps.keys.Nodup) :
    (ps.set k v).keys.Nodup := Props.keys_nodup_set k v ps h

/-! ### instrumented cost (finding K3, reported under C07) -/

/-- `d` objects nested in each other: the encoding is `(6+|k|)·d + 1` bytes long but decoding costs
`(d+1)²` steps when the `a.Size()` re-walk of every child is charged — quadratic in the input length. -/
theorem nested_cost_quadratic (k : Bytes) (d : Nat) :
    size (nest k d .null) = (6 + k.length) * d + 1 ∧ costV true (nest k d .null) = d * d + 2 * d + 1 :=
  ⟨size_nest k d, cost_nest k d⟩

/-! ### regression witnesses of the repaired defects -/

/-- F5: `03 0001'a' 05 0001'a' 05 000009` — both properties are kept, 12 bytes consumed, Size() = 12
(before the repair: one property, Size() = 8). -/
theorem F5_regression :
    decode [3, 0, 1, 97, 5, 0, 1, 97, 5, 0, 0, 9] = ok (.obj (.cons [97] .null (.cons [97] .null .nil)), []) ∧
    size (.obj (.cons [97] .null (.cons [97] .null .nil))) = 12 := ⟨by rfl, by rfl⟩

/-- F5, nested: the outer object's next property is found after an inner object with a repeated key. -/
theorem F5_nested_regression :
    decode [3, 0,1,111, 3,0,1,97,5,0,1,97,5,0,0,9, 0,1,122,5, 0,0,9] =
      ok (.obj (.cons [111] (.obj (.cons [97] .null (.cons [97] .null .nil))) (.cons [122] .null .nil)), []) := by rfl

/-- F6: `NewStrictArray().Set("x", 1.0)` marshals count 1 and decodes back to the same array. -/
theorem F6_regression :
    encode (.strict (.cons [120] (.num 0x3FF0000000000000) .nil)) =
      [0x0a, 0, 0, 0, 1, 0, 1, 120, 0, 0x3f, 0xf0, 0, 0, 0, 0, 0, 0] ∧
    decode (encode (.strict (.cons [120] (.num 0x3FF0000000000000) .nil))) =
      ok (.strict (.cons [120] (.num 0x3FF0000000000000) .nil), []) := ⟨by rfl, by rfl⟩

/-! ### non-vacuity: concrete inhabitants of the hypotheses -/

/-- A nested tree with an empty key, a repeated key, an ECMA array with an approximate count,
a strict array, a NaN with payload and −0. -/
def exTree : Val :=
  .obj (.cons [] (.num 0x7FF8000000000001)
       (.cons [97] (.ecma 7 (.cons [98] (.str [104, 105]) (.cons [98] (.bool true) .nil)))
       (.cons [97] (.strict (.cons [120] (.num 0x8000000000000000) (.cons [] .undef .nil)))
       (.cons [99] .null .nil))))

example : exTree.WF := by decide
example : decode (encode exTree ++ [0, 0, 9]) = ok (exTree, [0, 0, 9]) := decode_encode exTree (by decide) _
example : (encode exTree).length = 66 := by rw [encode_len]; rfl
example : ∃ v rest, decode [0, 0x7f, 0xf8, 0, 0, 0, 0, 0, 1, 0xaa] = ok (v, rest) := ⟨_, _, rfl⟩
example : ([3, 0, 0, 9] : Bytes).length < 5 := by decide
example : (Props.nil.set [97] .null).keys.Nodup := by decide
example : ([98] : Bytes) ≠ [97] := by decide

end Oryx.Props.C05
