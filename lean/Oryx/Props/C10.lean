/-
  C10 — FLV audio/video tag bodies round-trip through the packagers.
  Only property statements, their proofs from the helper lemmas (Oryx/Proofs/FlvBody.lean), and
  non-vacuity examples. Model: Oryx/Model/Flv.lean (flv/flv.go as repaired: F7 ToHz/OpusToHz total,
  F8 rate masked to its 2-bit field, F9 per-codec minimum body length); rate/name tables:
  Oryx/Gen/Flv.lean (regenerated from the Go source on every run).
-/
import Oryx.Proofs.FlvBody
namespace Oryx.Props.C10
open Oryx Oryx.Res Oryx.Flv

/-- Every canonical audio frame — all 16 sound formats, rate/size/channel bits, AAC trait byte, every
Opus trait-flag subset with the optional rate byte (any value, so 8/12/16/24/48) and 16-bit level,
arbitrary raw payload — decodes from its encoding to itself. -/
theorem audio_roundtrip (f : AudioFrame) (h : f.Canonical) : decodeAudio (encodeAudio f) = ok f :=
  audio_rt f h

/-- The first byte of the encoded body is SoundFormat·16 + SoundRate·4 + SoundSize·2 + SoundType
(E.4.2.1; rate bits 0 for Opus), so the codec id readable in it is the frame's. -/
theorem audio_first_byte_fields (f : AudioFrame) (h : f.Canonical) :
    ∃ b, (encodeAudio f).head? = some b ∧
      b = UInt8.ofNat (Spec.Flv.audioByte f.fmt.toNat (if f.fmt = codecOpus then 0 else f.rate.toNat)
            f.size.toNat f.chan.toNat) ∧
      (b >>> 4) &&& 0x0f = f.fmt :=
  ⟨_, encodeAudio_head f, (audioFirstByte_fields f h).1, (audioFirstByte_fields f h).2⟩

/-- Every canonical video frame — all frame types and codec ids, AVC/HEVC trait byte and 24-bit
composition time, arbitrary raw payload — decodes from its encoding to itself. -/
theorem video_roundtrip (f : VideoFrame) (h : f.Canonical) : decodeVideo (encodeVideo f) = ok f :=
  video_rt f h

/-- The first byte is FrameType·16 + CodecID (E.4.3.1): frame type and codec id are readable in it. -/
theorem video_first_byte_fields (f : VideoFrame) (h : f.Canonical) :
    ∃ b, (encodeVideo f).head? = some b ∧
      b = UInt8.ofNat (Spec.Flv.videoByte f.frameType.toNat f.codec.toNat) ∧
      (b >>> 4) &&& 0x0f = f.frameType ∧ b &&& 0x0f = f.codec :=
  ⟨_, encodeVideo_head f, (videoFirstByte_fields f h).1, (videoFirstByte_fields f h).2.1,
   (videoFirstByte_fields f h).2.2⟩

/-- Every canonical tag body the packagers accept re-encodes to the same bytes. Audio: every accepted
body except an Opus body with a non-zero (unused) rate field in the first byte; video: every accepted body.
The decoded video frame is itself canonical. -/
theorem canonical_tag_rt :
    (∀ t f, decodeAudio t = ok f → CanonicalAudioTag t → encodeAudio f = t) ∧
    (∀ t f, decodeVideo t = ok f → encodeVideo f = t ∧ f.Canonical) :=
  ⟨audio_tag_rt, fun t f h => ⟨video_tag_rt t f h, decodeVideo_canonical t f h⟩⟩

/-- The `CanonicalAudioTag` hypothesis is needed: the Opus body `D4 02` (rate field 1, no rate byte)
is accepted with SoundRate 1 and re-encodes to `D0 02`. -/
theorem noncanonical_opus_tag_witness :
    decodeAudio [0xd4, 0x02] = ok ⟨13, 1, 0, 0, 2, 0, []⟩ ∧ encodeAudio ⟨13, 1, 0, 0, 2, 0, []⟩ = [0xd0, 0x02] ∧
    ¬ CanonicalAudioTag [0xd4, 0x02] := by
  refine ⟨rfl, rfl, by decide⟩

/-- Every defined rate code converts to the frequency its definition gives: the FLV SoundRate codes
(E.4.2.1) to 5512/11025/22050/44100 Hz, the Opus codes (RFC 6716 §2) to 8/12/16/24/48 kHz — stated on
the generated constants and tables, and against the independent tables of `Spec.Flv`. -/
theorem rates :
    toHz (UInt8.ofNat Gen.Flv.AudioSamplingRate5kHz) = ok 5512 ∧
    toHz (UInt8.ofNat Gen.Flv.AudioSamplingRate11kHz) = ok 11025 ∧
    toHz (UInt8.ofNat Gen.Flv.AudioSamplingRate22kHz) = ok 22050 ∧
    toHz (UInt8.ofNat Gen.Flv.AudioSamplingRate44kHz) = ok 44100 ∧
    opusToHz (UInt8.ofNat Gen.Flv.AudioSamplingRateNB8kHz) = ok 8000 ∧
    opusToHz (UInt8.ofNat Gen.Flv.AudioSamplingRateMB12kHz) = ok 12000 ∧
    opusToHz (UInt8.ofNat Gen.Flv.AudioSamplingRateWB16kHz) = ok 16000 ∧
    opusToHz (UInt8.ofNat Gen.Flv.AudioSamplingRateSWB24kHz) = ok 24000 ∧
    opusToHz (UInt8.ofNat Gen.Flv.AudioSamplingRateFB48kHz) = ok 48000 ∧
    (∀ p ∈ Spec.Flv.soundRateHz, toHz (UInt8.ofNat p.1) = ok p.2) ∧
    (∀ p ∈ Spec.Flv.opusRateHz, opusToHz (UInt8.ofNat p.1) = ok p.2) := by
  refine ⟨rfl, rfl, rfl, rfl, rfl, rfl, rfl, rfl, rfl, ?_, ?_⟩ <;>
    (intro p hp; simp [Spec.Flv.soundRateHz, Spec.Flv.opusRateHz] at hp; rcases hp with rfl | rfl | rfl | rfl | rfl <;> rfl)

/-- The enum helpers are total over all 256 values of their `uint8` receiver: `ToHz`, `OpusToHz` (fix F7)
and every generated `String()` table return a value, never a panic. -/
theorem enum_helpers_total : ∀ v : UInt8,
    (toHz v).isPanic = false ∧ (opusToHz v).isPanic = false ∧
    (Gen.Flv.TagType_String v.toNat).isPanic = false ∧
    (Gen.Flv.AudioChannels_String v.toNat).isPanic = false ∧
    (Gen.Flv.AudioSampleBits_String v.toNat).isPanic = false ∧
    (Gen.Flv.AudioSamplingRate_String v.toNat).isPanic = false ∧
    (Gen.Flv.AudioCodec_String v.toNat).isPanic = false ∧
    (Gen.Flv.VideoFrameType_String v.toNat).isPanic = false ∧
    (Gen.Flv.VideoCodec_String v.toNat).isPanic = false ∧
    (Gen.Flv.VideoFrameTrait_String v.toNat).isPanic = false := by
  apply forall_u8; decide +kernel

/-- The value of a successful result (for statements decided by evaluation). -/
def okVal : Res Nat → Option Nat
  | .ok n => some n
  | _ => none

/-- Outside the defined codes the rate helpers return 0 (and only there). -/
theorem rates_undefined_zero : ∀ v : UInt8,
    (okVal (toHz v) = some 0 ↔ 4 ≤ v.toNat) ∧
    (okVal (opusToHz v) = some 0 ↔ v.toNat ∉ [8, 12, 16, 24, 48]) := by
  apply forall_u8; decide +kernel

/-- The AAC → FLV conversion helpers over all 256 argument values: every defined AAC sampling-rate index
(0..12) is mapped to a defined FLV code resp. a defined Opus code — so `ToHz`/`OpusToHz` of the result is
one of the definitions' frequencies, never 0 — every other index to `AudioSamplingRateForbidden`; channel
configurations 1..7 to mono/stereo, every other value to `AudioChannelsForbidden`. -/
theorem from_helpers : ∀ a : UInt8,
    (a.toNat ≤ 12 →
      samplingRateFrom a ≤ 3 ∧ (okVal (toHz (UInt8.ofNat (samplingRateFrom a)))) ∈ [some 5512, some 11025, some 22050, some 44100] ∧
      (okVal (opusToHz (UInt8.ofNat (samplingRateOpusFrom a)))) ∈ [some 8000, some 12000, some 16000, some 24000, some 48000]) ∧
    (12 < a.toNat →
      samplingRateFrom a = Gen.Flv.AudioSamplingRateForbidden ∧
      samplingRateOpusFrom a = Gen.Flv.AudioSamplingRateForbidden) ∧
    (1 ≤ a.toNat ∧ a.toNat ≤ 7 → channelsFrom a < 2) ∧
    (a.toNat = 0 ∨ 7 < a.toNat → channelsFrom a = Gen.Flv.AudioChannelsForbidden) := by
  apply forall_u8; decide +kernel

/-- No byte string makes either decoder panic. -/
theorem decoders_never_panic (t : Bytes) : decodeAudio t ≠ .panic ∧ decodeVideo t ≠ .panic :=
  ⟨decodeAudio_ne_panic t, decodeVideo_ne_panic t⟩

/-- Gating obligation: the translator still translates every rate/name helper it is expected to
(an untranslatable rewrite of one of them shows up here, not as a silently stale model). -/
theorem helpers_translated :
    "AudioFrameTrait_String" ∈ Gen.Flv.translatedHelpers ∧
    "AudioSamplingRate_ToHz" ∈ Gen.Flv.translatedHelpers ∧
    "AudioSamplingRate_OpusToHz" ∈ Gen.Flv.translatedHelpers := by decide

/-- `AudioFrameTrait.String()` is not a plain switch: the translator EVALUATES it for all 256 receiver values; the
hand-written `audioTraitString` (flag names joined by `|`) is that table. -/
theorem audioTraitString_is_source : ∀ v : UInt8,
    Gen.Flv.AudioFrameTrait_String v.toNat = .ok (audioTraitString v) := by
  apply forall_u8
  decide +kernel

/-! ### non-vacuity: concrete inhabitants of the hypotheses; the formerly failing inputs F8/F9 -/

/-- Opus, super-wideband (rate code 24), 16-bit level: the F8 input. -/
def exOpus : AudioFrame := { fmt := 13, rate := 24, size := 1, chan := 1, trait := 0x0e, level := 0xabcd, raw := [0xaa] }
def exAAC : AudioFrame := { fmt := 10, rate := 3, size := 1, chan := 1, trait := 1, level := 0, raw := [0x21, 0x10] }
/-- MP3 with an empty payload: a 1-byte body (F9). -/
def exMP3 : AudioFrame := { fmt := 2, rate := 3, size := 1, chan := 1, trait := 0, level := 0, raw := [] }
def exAVC : VideoFrame := { codec := 7, frameType := 1, trait := 1, cts := 0xfedcba, raw := [0, 0, 0, 1, 0x65] }
/-- H.263 info frame `52 00` (F9). -/
def exH263 : VideoFrame := { codec := 2, frameType := 5, trait := 0, cts := 0, raw := [0] }

example : exOpus.Canonical ∧ exAAC.Canonical ∧ exMP3.Canonical := by decide
example : exAVC.Canonical ∧ exH263.Canonical := by decide
example : encodeAudio exOpus = [0xd3, 0x0e, 24, 0xab, 0xcd, 0xaa] := by decide
example : encodeAudio exMP3 = [0x2f] ∧ encodeVideo exH263 = [0x52, 0x00] := by decide
example : encodeVideo exAVC = [0x17, 1, 0xfe, 0xdc, 0xba, 0, 0, 0, 1, 0x65] := by decide
example : CanonicalAudioTag [0xd3, 0x0e, 24, 0xab, 0xcd, 0xaa] ∧ CanonicalAudioTag [0xaf, 0x01] := by decide
example : decodeAudio [0xd3, 0x0e, 24, 0xab, 0xcd, 0xaa] = ok exOpus := by rfl
example : decodeVideo [0x52, 0x00] = ok exH263 := by rfl

end Oryx.Props.C10
