/-
  C02 — RTMP reader decodes every spec-conformant chunk stream.
  Statements only; proofs are in Oryx/Proofs/Rtmp/Spec*.lean. The specification side
  (`Conformant`, `specBytes`, `specMessages`, …) is Oryx/Spec/RtmpChunk.lean, written from RTMP 1.0 §5.3
  and independent of the reader model (Oryx/Model/Rtmp.lean).
-/
import Oryx.Proofs.Rtmp.SpecSim
namespace Oryx.Props.C02
open Oryx Oryx.Res Oryx.Rtmp Oryx.Spec.RtmpChunk

/-! Gating obligations on the regenerated tables / constants the reader model uses. -/
example : Gen.Rtmp.messageHeaderSizes = [11, 7, 3, 0] := by decide
example : Gen.Rtmp.extendedTimestamp = 0xFFFFFF := by decide
example : Gen.Rtmp.defaultChunkSize = 128 := by decide
example : Gen.Rtmp.chunkIDProtocolControl = 2 := by decide
example : (Gen.Rtmp.MessageTypeSetChunkSize, Gen.Rtmp.MessageTypeAbort, Gen.Rtmp.MessageTypeUserControl,
           Gen.Rtmp.MessageTypeWindowAcknowledgementSize) = (1, 2, 4, 5) := by decide
example : (Gen.Rtmp.EventTypeSetBufferLength, Gen.Rtmp.EventTypeFmsEvent0) = (3, 26) := by decide
/-- gate: the chunk size (and window) the reader applies to the peer's stream is state of `readChunk` / `readMessage`
only — the model's `Reader`; the exported message -> packet helper `DecodeMessage`, which applications call on messages
they hold at any later time, assigns nothing there (in the model it is a pure function of the message). -/
example : Gen.Rtmp.decodeMessageLeavesReaderSettings = true := by decide

/-! ### basic header -/

/-- All three basic-header forms of §5.3.1.1 — 1 byte for chunk streams 2..63, 2 bytes for 64..319,
3 bytes for 64..65599 — decode to the format and the chunk stream id the specification assigns
(false for the 3-byte form before fix F1). -/
theorem basic_header_forms (fmt cid form : Nat) (hf : fmt ≤ 3) (hl : FormLegal cid form) (rest : Bytes) :
    readBasicHeader (basicHeader fmt cid form ++ rest) = ok ((fmt, cid), rest) :=
  readBasicHeader_spec fmt cid form hf hl rest

example : FormLegal 2 1 ∧ FormLegal 63 1 ∧ FormLegal 64 2 ∧ FormLegal 319 2 ∧ FormLegal 64 3 ∧ FormLegal 319 3 ∧
    FormLegal 320 3 ∧ FormLegal 65599 3 ∧ ¬ FormLegal 64 1 ∧ ¬ FormLegal 320 2 ∧ ¬ FormLegal 65600 3 ∧ ¬ FormLegal 1 1 := by
  decide

/-- F1 regression: `01 00 01` is chunk stream 64 + 0 + 1·256 = 320. -/
example : readBasicHeader [0x01, 0x00, 0x01, 0xAA] = ok ((0, 320), [0xAA]) := by decide +kernel

/-! ### reject rules (for EVERY reader state — no invariant is needed) -/

/-- Type-0 header while a message is unfinished on that chunk stream: error, whatever follows. -/
theorem C02_reject_type0_inside_message (st : Reader) (cid form : Nat) (hl : FormLegal cid form)
    (ch : ChunkStream) (m : Msg) (hget : st.chunks.get cid = some ch) (hopen : ch.msg = some m) (bs : Bytes) :
    readChunk st (basicHeader 0 cid form ++ bs) = err .generic ∧
    readMessage st (basicHeader 0 cid form ++ bs) = err .generic :=
  ⟨reject_type0_inside st cid form hl ch m hget hopen bs,
   readMessage_of_readChunk_err (reject_type0_inside st cid form hl ch m hget hopen bs)⟩

/-- Message length changed mid-message by a type-1 header: error. -/
theorem C02_reject_length_changed (st : Reader) (cid form : Nat) (hl : FormLegal cid form)
    (ch : ChunkStream) (m : Msg) (hget : st.chunks.get cid = some ch) (hopen : ch.msg = some m)
    (tsf len ty : Nat) (hlen : len < 16777216) (hne : len ≠ ch.hdr.len) (bs : Bytes) :
    readChunk st (basicHeader 1 cid form ++ ((be 3 tsf ++ be 3 len ++ [UInt8.ofNat ty]) ++ bs)) = err .generic ∧
    readMessage st (basicHeader 1 cid form ++ ((be 3 tsf ++ be 3 len ++ [UInt8.ofNat ty]) ++ bs)) = err .generic :=
  ⟨reject_length_changed st cid form hl ch m hget hopen tsf len ty hlen hne bs,
   readMessage_of_readChunk_err (reject_length_changed st cid form hl ch m hget hopen tsf len ty hlen hne bs)⟩

/-- A chunk stream the reader has not seen whose first header is type 1, 2 or 3 — other than the
documented librtmp form (type 1 on chunk stream 2): error. -/
theorem C02_reject_fresh_not_type0 (st : Reader) (cid form fmt : Nat) (hl : FormLegal cid form)
    (h1 : 1 ≤ fmt) (h3 : fmt ≤ 3) (hfresh : st.chunks.get cid = none) (hnp : ¬ (cid = 2 ∧ fmt = 1)) (bs : Bytes) :
    readChunk st (basicHeader fmt cid form ++ bs) = err .generic ∧
    readMessage st (basicHeader fmt cid form ++ bs) = err .generic :=
  ⟨reject_fresh_not_type0 st cid form fmt hl h1 h3 hfresh hnp bs,
   readMessage_of_readChunk_err (reject_fresh_not_type0 st cid form fmt hl h1 h3 hfresh hnp bs)⟩

/-- Non-vacuity of the reject hypotheses: after the first chunk (1 of 2 bytes at chunk size 1) of a
message on chunk stream 320 the table holds an unfinished message. -/
example : (match readChunk { inChunk := 1 } [0x01, 0x00, 0x01, 0,0,5, 0,0,2, 9, 1,0,0,0, 0xAA] with
    | .ok ((st, none), _) =>
      (match st.chunks.get 320 with
       | some ch => ch.msg.isSome && ch.hdr.len == 2
       | none => false)
    | _ => false) = true := by
  decide +kernel

/-- The librtmp ping — `42 000000 000006 04 0006 00000d0f`, a type-1 header on a fresh chunk stream 2 —
IS accepted (false before fix F2), with timestamp 0 + delta and message stream 0. -/
theorem ping_form_accepted :
    (match readMessage {} [0x42, 0,0,0, 0,0,6, 4, 0,6, 0,0,0x0d,0x0f] with
     | .ok ((m, _), rest) =>
       decide (toSpec m = { cid := 2, ty := 4, sid := 0, ts := 0, payload := [0,6, 0,0,0x0d,0x0f] }) && rest.isEmpty
     | _ => false) = true := by
  decide +kernel

/-! ### decoding -/

/-- Messages the model reader returns for a wire (none unless all `k` reads succeed). -/
def readSpec (k : Nat) (wire : Bytes) : Option (List Message) :=
  match readMessages k {} wire with
  | .ok ((ms, _), _) => some (ms.map toSpec)
  | _ => none

/-- **The property at full strength**: every byte stream a conformant sender emits (ending at a message
boundary of the chunk stream that sent the last chunk), followed by anything, is decoded by a fresh
reader into exactly the messages that were chunked — chunk stream, type, message stream, payload,
and the timestamp the specification defines reduced to 31 bits — in completion order, consuming
nothing of what follows. -/
def C02_statement : Prop :=
  ∀ (tr : List ChunkEv) (rest : Bytes), Conformant tr → EndsComplete tr →
    ∃ rms st', readMessages (specMessages tr).length {} (specBytes tr ++ rest) = ok ((rms, st'), rest) ∧
      rms.map toSpec = specMessages tr

/-- K2 witness: type 0 at 1000 ms, then a type-1 header with delta 0x1000000 (extended timestamp field
present, carrying the DELTA per §5.3.1.3), then a type-3 header starting a third message (the delta in
force is the extended one). The specification's timestamps are 1000 / 16 778 216 / 33 555 432; the
reader takes the extended field as an absolute time: 1000 / 16 777 216 / 16 777 216. -/
def extDeltaTrace : List ChunkEv :=
  [ { cid := 3, bhForm := 1, fmt := 0, tsField := 1000, len := 1, ty := 9, sid := 1, data := [0xaa] },
    { cid := 3, bhForm := 1, fmt := 1, tsField := 16777216, len := 1, ty := 9, sid := 1, data := [0xbb] },
    { cid := 3, bhForm := 1, fmt := 3, tsField := 16777216, len := 1, ty := 9, sid := 1, data := [0xcc] } ]

theorem C02_extts_delta_witness :
    Conformant extDeltaTrace ∧ Strict extDeltaTrace ∧ EndsComplete extDeltaTrace ∧ ¬ NoExtendedDelta extDeltaTrace ∧
    (specMessages extDeltaTrace).map (·.ts) = [1000, 16778216, 33555432] ∧
    (readSpec 3 (specBytes extDeltaTrace)).map (·.map (·.ts)) = some [1000, 16777216, 16777216] ∧
    readSpec 3 (specBytes extDeltaTrace) ≠ some (specMessages extDeltaTrace) := by
  decide +kernel

/-- The reader's timestamps on the witness are those of the deviating reading, to which
`C02_reader_is_absext_variant` applies (the witness is conformant and ends at a message boundary). -/
example : (messagesAbsExt extDeltaTrace).map (·.ts) = [1000, 16777216, 16777216] ∧
    readSpec 3 (specBytes extDeltaTrace) = some (messagesAbsExt extDeltaTrace) := by
  decide +kernel

/-- Hence the full-strength statement is FALSE for the code as it is (known finding K2). -/
theorem C02_statement_false : ¬ C02_statement := by
  intro h
  obtain ⟨hc, _, he, _, _, _, hne⟩ := C02_extts_delta_witness
  obtain ⟨rms, st', hr, hm⟩ := h extDeltaTrace [] hc he
  apply hne
  have h3 : (specMessages extDeltaTrace).length = 3 := by decide +kernel
  rw [h3, List.append_nil] at hr
  simp only [readSpec, hr, hm]

/-- **C02 (partial: everything except extended DELTAS)**. For every conformant trace — any chunk stream
ids 2..65599 in any legal basic-header form, any legal mix of type 0/1/2/3 headers, extended
timestamps on type-0 headers (repeated on the continuation chunks), chunks of any number of chunk
streams interleaved in any order, Set Chunk Size anywhere (applied to the chunks after it), the
librtmp form included — that does not use an extended delta, the reader returns exactly
`specMessages tr`, in completion order, leaving `rest` untouched. By induction over the trace with
the abstraction relation `Rtmp.Rel` (reader chunk table ↔ sender per-chunk-stream state), no bound on
the number of chunk streams, messages, chunk sizes or lengths.

What is missing w.r.t. `C02_statement`: exactly the traces with `¬ NoExtendedDelta` (a type-1/2 header
whose delta is ≥ 0xFFFFFF, or a type-3 header starting a message while the delta in force is
≥ 0xFFFFFF). For those the statement is false (`C02_extts_delta_witness`, known finding K2). -/
theorem C02_decode_partial (tr : List ChunkEv) (rest : Bytes)
    (hc : Conformant tr) (hn : NoExtendedDelta tr) (he : EndsComplete tr) :
    ∃ rms st', readMessages (specMessages tr).length {} (specBytes tr ++ rest) = ok ((rms, st'), rest) ∧
      rms.map toSpec = specMessages tr := by
  unfold Conformant at hc
  cases hrun : run false {} tr with
  | none => rw [hrun] at hc; simp at hc
  | some r =>
    obtain ⟨s', ms⟩ := r
    obtain ⟨rms, st', hr, hm, _⟩ := decode_from false tr {} s' {} ms rest rel_init hrun
      (by rw [noExtA_false]; exact hn) (by rw [endsA_false]; exact he)
    have : specMessages tr = ms := by simp [specMessages, hrun]
    rw [this]
    exact ⟨rms, st', hr, hm⟩

/-- The same at chunk level, without the assumption that the trace ends at a message boundary:
`tr.length` iterations of the `ReadMessage` loop body consume exactly `specBytes tr` and complete
exactly `specMessages tr` (messages of chunk streams still inside a message stay in the table). -/
theorem C02_decode_chunks_partial (tr : List ChunkEv) (rest : Bytes) (hc : Conformant tr) (hn : NoExtendedDelta tr) :
    ∃ rms st', readChunks tr.length {} (specBytes tr ++ rest) = ok ((rms, st'), rest) ∧
      rms.map toSpec = specMessages tr := by
  unfold Conformant at hc
  cases hrun : run false {} tr with
  | none => rw [hrun] at hc; simp at hc
  | some r =>
    obtain ⟨s', ms⟩ := r
    obtain ⟨rms, st', hr, hm, _⟩ := decode_chunks_from false tr {} s' {} ms rest rel_init hrun
      (by rw [noExtA_false]; exact hn)
    have : specMessages tr = ms := by simp [specMessages, hrun]
    rw [this]
    exact ⟨rms, st', hr, hm⟩

/-- … and from any point of a session: any sender state and any reader state related by `Rel`
(same chunk size, chunk table representing the sender's chunk streams, messages in flight included). -/
theorem C02_decode_partial_from (tr : List ChunkEv) (s s' : Sender) (st : Reader) (ms : List Message) (rest : Bytes)
    (hrel : Rel s st) (hrun : run false s tr = some (s', ms)) (hn : noExtDeltaFrom s tr = true)
    (he : endsCompleteFrom s tr = true) :
    ∃ rms st', readMessages ms.length st (specBytes tr ++ rest) = ok ((rms, st'), rest) ∧
      rms.map toSpec = ms ∧ Rel s' st' :=
  decode_from false tr s s' st ms rest hrel hrun (by rw [noExtA_false]; exact hn) (by rw [endsA_false]; exact he)

/-- One chunk event (the refinement step): the relation is preserved and the reader hands back exactly
the message the chunk completes — under the specification (`a = false`) for an event without extended
delta, under the deviating reading (`a = true`, see `Spec.RtmpChunk.newTs`) for every event. -/
theorem C02_refinement_step (a : Bool) (s s' : Sender) (st : Reader) (e : ChunkEv) (out : Option Message) (rest : Bytes)
    (hrel : Rel s st) (hstep : step a s e = some (s', out)) (hno : a = true ∨ ¬ UsesExtDelta s e) :
    ∃ st' om, readChunk st (chunkBytes e ++ rest) = ok ((st', om), rest) ∧ Rel s' st' ∧ om.map toSpec = out :=
  readChunk_spec a s s' st e out rest hrel hstep hno

/-! ### K2 stated exactly: what the reader does on ALL conformant traces -/

/-- For EVERY conformant trace (extended deltas included) the reader returns exactly the messages of
the chunker semantics in which an extended timestamp field is always read as an absolute time
(`messagesAbsExt`, i.e. `newTs` with `absExt = true` — NOT the specification). This is the whole of the
deviation K2: nothing else about a conformant stream is decoded differently. -/
theorem C02_reader_is_absext_variant (tr : List ChunkEv) (rest : Bytes) (hc : Conformant tr) (he : EndsComplete tr) :
    ∃ rms st', readMessages (messagesAbsExt tr).length {} (specBytes tr ++ rest) = ok ((rms, st'), rest) ∧
      rms.map toSpec = messagesAbsExt tr := by
  unfold Conformant at hc
  cases hrun : run false {} tr with
  | none => rw [hrun] at hc; simp at hc
  | some r =>
    obtain ⟨s', ms⟩ := r
    obtain ⟨s2, ms2, hrun2, _, _⟩ := run_sim false true tr {} {} s' ms (sameButTs_refl _) hrun
    have he2 : endsA true {} tr = true :=
      endsA_sim false true tr {} {} (sameButTs_refl _) (by rw [endsA_false]; exact he)
    obtain ⟨rms, st', hr, hm, _⟩ := decode_from true tr {} s2 {} ms2 rest rel_init hrun2 (noExtA_true _ _) he2
    have : messagesAbsExt tr = ms2 := by simp [messagesAbsExt, hrun2]
    rw [this]
    exact ⟨rms, st', hr, hm⟩

/-- The deviating reading and the specification give the same messages up to the timestamps … -/
theorem absext_same_but_timestamps (tr : List ChunkEv) (hc : Conformant tr) :
    (messagesAbsExt tr).map noTs = (specMessages tr).map noTs := by
  unfold Conformant at hc
  cases hrun : run false {} tr with
  | none => rw [hrun] at hc; simp at hc
  | some r =>
    obtain ⟨s', ms⟩ := r
    obtain ⟨s2, ms2, hrun2, _, hm⟩ := run_sim false true tr {} {} s' ms (sameButTs_refl _) hrun
    simp only [messagesAbsExt, specMessages, hrun, hrun2, hm]

/-- … and exactly the same messages on traces without extended delta. -/
theorem absext_eq_spec_of_noExtendedDelta (tr : List ChunkEv) (hn : NoExtendedDelta tr) :
    messagesAbsExt tr = specMessages tr := by
  simp only [messagesAbsExt, specMessages, run_noExt tr {} hn]

/-- **Everything but the timestamps, for every conformant trace** (no `NoExtendedDelta` hypothesis): the
reader returns the chunked messages — chunk stream, type, message stream, payload — in completion
order and stays in step with the stream; only timestamps formed from an extended delta differ (K2). -/
theorem C02_decode_all_but_timestamps (tr : List ChunkEv) (rest : Bytes) (hc : Conformant tr) (he : EndsComplete tr) :
    ∃ rms st', readMessages (specMessages tr).length {} (specBytes tr ++ rest) = ok ((rms, st'), rest) ∧
      (rms.map toSpec).map noTs = (specMessages tr).map noTs := by
  obtain ⟨rms, st', hr, hm⟩ := C02_reader_is_absext_variant tr rest hc he
  have hsame := absext_same_but_timestamps tr hc
  have hlen : (messagesAbsExt tr).length = (specMessages tr).length := by
    have := congrArg List.length hsame
    simpa using this
  rw [hlen] at hr
  exact ⟨rms, st', hr, by rw [hm, hsame]⟩

/-! ### the reader never panics (reused by C07) -/

/-- The invariant holds initially … -/
theorem readerInv_init : ReaderInv {} := Rtmp.readerInv_init

/-- … is preserved by every successful read, which consumes at least one byte … -/
theorem readerInv_preserved (st st' : Reader) (m : Msg) (bs bs' : Bytes) (hst : ReaderInv st)
    (h : readMessage st bs = ok ((m, st'), bs')) : ReaderInv st' ∧ bs'.length < bs.length :=
  readMessage_ok hst h

/-- … and under it `ReadMessage` never panics on ANY byte string: the `make([]byte, negative)` guard
of `readMessagePayload`, the nil dereference of `chunk.message` and the exhaustion of the model's loop
fuel are unreachable. -/
theorem reader_never_panics (st : Reader) (bs : Bytes) (hst : ReaderInv st) : readMessage st bs ≠ .panic :=
  readMessage_ne_panic hst bs

theorem reader_never_panics_session (k : Nat) (bs : Bytes) : readMessages k {} bs ≠ .panic :=
  readMessages_ne_panic k {} bs Rtmp.readerInv_init

/-! ### non-vacuity -/

/-- An interleaved conformant trace: Set Chunk Size 4 on chunk stream 2; a 6-byte message on chunk
stream 64 (2-byte basic header, type 0 with EXTENDED timestamp 0x1000000, continued under the 3-byte
form with the extended timestamp repeated) interleaved with a 5-byte message on chunk stream 65599
(3-byte form); then type 1 (delta 20), type 2 (delta 5) and a type-3 header starting a message on
65599, a type-1 on 64, and a zero-length message. -/
def exTrace : List ChunkEv :=
  [ { cid := 2, bhForm := 1, fmt := 0, tsField := 0, len := 4, ty := 1, sid := 0, data := [0, 0, 0, 4] },
    { cid := 64, bhForm := 2, fmt := 0, tsField := 16777216, len := 6, ty := 9, sid := 1, data := [1, 2, 3, 4] },
    { cid := 65599, bhForm := 3, fmt := 0, tsField := 10, len := 5, ty := 8, sid := 1, data := [10, 11, 12, 13] },
    { cid := 64, bhForm := 3, fmt := 3, tsField := 16777216, len := 6, ty := 9, sid := 1, data := [5, 6] },
    { cid := 65599, bhForm := 3, fmt := 3, tsField := 10, len := 5, ty := 8, sid := 1, data := [14] },
    { cid := 65599, bhForm := 3, fmt := 1, tsField := 20, len := 2, ty := 8, sid := 1, data := [20, 21] },
    { cid := 65599, bhForm := 3, fmt := 2, tsField := 5, len := 2, ty := 8, sid := 1, data := [22, 23] },
    { cid := 65599, bhForm := 3, fmt := 3, tsField := 5, len := 2, ty := 8, sid := 1, data := [24, 25] },
    { cid := 64, bhForm := 2, fmt := 1, tsField := 7, len := 0, ty := 9, sid := 1, data := [] } ]

theorem exTrace_ok : Conformant exTrace ∧ NoExtendedDelta exTrace ∧ EndsComplete exTrace ∧ Strict exTrace := by
  decide +kernel

example : specMessages exTrace =
    [ { cid := 2, ty := 1, sid := 0, ts := 0, payload := [0, 0, 0, 4] },
      { cid := 64, ty := 9, sid := 1, ts := 16777216, payload := [1, 2, 3, 4, 5, 6] },
      { cid := 65599, ty := 8, sid := 1, ts := 10, payload := [10, 11, 12, 13, 14] },
      { cid := 65599, ty := 8, sid := 1, ts := 30, payload := [20, 21] },
      { cid := 65599, ty := 8, sid := 1, ts := 35, payload := [22, 23] },
      { cid := 65599, ty := 8, sid := 1, ts := 40, payload := [24, 25] },
      { cid := 64, ty := 9, sid := 1, ts := 16777223, payload := [] } ] := by
  decide +kernel

/-- The theorem applied to the example, and the same computed directly by the kernel. -/
example : ∃ rms st', readMessages 7 {} (specBytes exTrace ++ [0xEE]) = ok ((rms, st'), [0xEE]) ∧
    rms.map toSpec = specMessages exTrace := by
  have h7 : (specMessages exTrace).length = 7 := by decide +kernel
  have := C02_decode_partial exTrace [0xEE] exTrace_ok.1 exTrace_ok.2.1 exTrace_ok.2.2.1
  rwa [h7] at this

example : readSpec 7 (specBytes exTrace) = some (specMessages exTrace) := by decide +kernel

/-- The librtmp form is conformant (not `Strict`), with an extended TIMESTAMP on a later type 0. -/
example : Conformant [{ cid := 2, bhForm := 1, fmt := 1, tsField := 0, len := 6, ty := 4, sid := 0, data := [0,6, 0,0,0x0d,0x0f] },
                      { cid := 2, bhForm := 1, fmt := 0, tsField := 4294967295, len := 4, ty := 5, sid := 0, data := [0,0,0,1] }] ∧
    ¬ Strict [{ cid := 2, bhForm := 1, fmt := 1, tsField := 0, len := 6, ty := 4, sid := 0, data := [0,6, 0,0,0x0d,0x0f] }] := by
  decide +kernel

/-- Rule breaks are not conformant: type 0 inside a message; an Abort message; a fresh chunk stream
starting with type 3; a chunk longer than the chunk size. -/
example :
    ¬ Conformant [{ cid := 3, bhForm := 1, fmt := 0, tsField := 0, len := 200, ty := 9, sid := 1, data := List.replicate 128 0 },
                  { cid := 3, bhForm := 1, fmt := 0, tsField := 0, len := 200, ty := 9, sid := 1, data := List.replicate 72 0 }] ∧
    ¬ Conformant [{ cid := 2, bhForm := 1, fmt := 0, tsField := 0, len := 4, ty := 2, sid := 0, data := [0,0,0,3] }] ∧
    ¬ Conformant [{ cid := 5, bhForm := 1, fmt := 3, tsField := 0, len := 0, ty := 0, sid := 0, data := [] }] ∧
    ¬ Conformant [{ cid := 3, bhForm := 1, fmt := 0, tsField := 0, len := 129, ty := 9, sid := 1, data := List.replicate 129 0 }] := by
  decide +kernel

end Oryx.Props.C02
