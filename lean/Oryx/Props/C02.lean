/-
  C02 — RTMP reader decodes every spec-conformant chunk stream.
  Statements only; proofs are in Oryx/Proofs/Rtmp/Spec*.lean.
-/
import Oryx.Proofs.Rtmp.Session
import Oryx.Spec.RtmpChunk
namespace Oryx.Props.C02
open Oryx Oryx.Res Oryx.Rtmp Oryx.Spec.RtmpChunk

/-- What the reader hands back, as the spec's message. -/
def toSpec (m : Msg) : Message :=
  { cid := m.hdr.cid, ty := m.hdr.ty, sid := m.hdr.sid, ts := m.hdr.ts, payload := m.payload }

/-- Messages the model reader returns for a wire (none unless all `k` reads succeed). -/
def readSpec (k : Nat) (wire : Bytes) : Option (List Message) :=
  match readMessages k {} wire with
  | .ok ((ms, _), _) => some (ms.map toSpec)
  | _ => none

/-- K2 witness: type 0 at 1000 ms, then a type-1 header with delta 0x1000000 (extended), then a
type-3 header starting a third message (the delta in force is the extended one). -/
def extDeltaTrace : List ChunkEv :=
  [ { cid := 3, bhForm := 1, fmt := 0, tsField := 1000, len := 1, ty := 9, sid := 1, data := [0xaa] },
    { cid := 3, bhForm := 1, fmt := 1, tsField := 16777216, len := 1, ty := 9, sid := 1, data := [0xbb] },
    { cid := 3, bhForm := 1, fmt := 3, tsField := 16777216, len := 1, ty := 9, sid := 1, data := [0xcc] } ]

theorem C02_extts_delta_witness :
    Conformant extDeltaTrace ∧ Strict extDeltaTrace ∧
    (specMessages extDeltaTrace).map (·.ts) = [1000, 16778216, 33555432] ∧
    (readSpec 3 (specBytes extDeltaTrace)).map (·.map (·.ts)) = some [1000, 16777216, 16777216] ∧
    readSpec 3 (specBytes extDeltaTrace) ≠ some (specMessages extDeltaTrace) := by
  decide +kernel

end Oryx.Props.C02
