/-
  C09 — FLV files written are read back identically and follow the FLV layout.
  Only property statements, their proofs from the helper lemmas (Oryx/Proofs/Flv.lean), and
  non-vacuity examples. Model: Oryx/Model/Flv.lean (flv/flv.go as repaired, fix F20 included);
  independent writer: Oryx/Spec/Flv.lean (video_file_format_spec_v10, Annex E).

  Reader segmentation: the demuxer touches its `io.Reader` only through `io.CopyN`; the model's stream is
  the byte string the reader still delivers, so "whatever the reader's segmentation" is `io.CopyN`'s
  contract (recorded assumption, exercised by the 1-byte / seeded-cut / data+EOF readers of `corr C09`).
-/
import Oryx.Proofs.Flv
namespace Oryx.Props.C09
open Oryx Oryx.Res Oryx.Flv

/-- The bytes the muxer writes are exactly the FLV version 1 layout of Annex E, as produced by the
independent writer `Spec.Flv.file`: for all four flag combinations, every tag type byte, every `uint32`
timestamp and every body below 2^24 bytes (and each such tag is a well-formed tag of the standard). -/
theorem mux_is_spec (hasVideo hasAudio : Bool) (tags : List Tag) (h : ∀ t ∈ tags, t.WF) :
    (∀ t ∈ tags.map Tag.toSpec, t.WF) ∧
    mux hasVideo hasAudio tags = Spec.Flv.file hasAudio hasVideo (tags.map Tag.toSpec) := by
  refine ⟨?_, mux_eq_spec hasVideo hasAudio tags⟩
  intro t ht
  obtain ⟨x, hx, rfl⟩ := List.mem_map.mp ht
  exact Tag.toSpec_wf (h x hx)

/-- Round trip: any flags and any tag sequence written by the muxer come back from the demuxer in order
with identical type, timestamp, size and body; then the reader ends (`io.EOF`). Version read is 1. -/
theorem demux_mux (hasVideo hasAudio : Bool) (tags : List Tag) (h : ∀ t ∈ tags, t.WF) :
    demux (mux hasVideo hasAudio tags) =
      ok ({ version := 1, hasVideo := hasVideo, hasAudio := hasAudio }, tags, .err .eof) :=
  demux_mux_ok hasVideo hasAudio tags h

/-- Files produced by the independent writer of the layout are demuxed to the same tags. -/
theorem demux_spec (audio video : Bool) (tags : List Spec.Flv.Tag) (h : ∀ t ∈ tags, t.WF) :
    demux (Spec.Flv.file audio video tags) =
      ok ({ version := 1, hasVideo := video, hasAudio := audio }, tags.map Tag.ofSpec, .err .eof) := by
  have e : (tags.map Tag.ofSpec).map Tag.toSpec = tags := by
    rw [List.map_map]
    conv => rhs; rw [← List.map_id tags]
    exact List.map_congr_left (fun t ht => Tag.toSpec_ofSpec (h t ht))
  have hwf : ∀ t ∈ tags.map Tag.ofSpec, t.WF := by
    intro t ht
    obtain ⟨x, hx, rfl⟩ := List.mem_map.mp ht
    exact Tag.ofSpec_wf (h x hx)
  have := demux_mux_ok video audio (tags.map Tag.ofSpec) hwf
  rwa [mux_eq_spec, e] at this

/-- Each muxed tag is framed: the size read from the header is the body length, and reading one tag
from `writeTag t ++ rest` leaves exactly `rest` (so PreviousTagSize is skipped, never misparsed). -/
theorem tag_frame (t : Tag) (rest : Bytes) (h : t.WF) :
    readTagHeader (writeTag t ++ rest) =
      ok ({ ty := t.ty, size := t.body.length, ts := t.ts }, t.body ++ prevTagSize t.body.length ++ rest) ∧
    readTagFull (writeTag t ++ rest) = ok (t, rest) := by
  refine ⟨?_, readTagFull_writeTag t rest h⟩
  unfold writeTag
  rw [List.append_assoc, List.append_assoc, readTagHeader_tagHeader _ _ _ _ h.1 h.2, List.append_assoc]

/-- Truncation at ANY byte offset `k` of a muxed file: fewer than 13 bytes give `io.EOF` from
`ReadHeader`; otherwise the demuxer returns exactly the tags lying wholly inside the first `k` bytes —
a prefix of the written tags, in order — and then `io.EOF`. Nothing truncated, duplicated or fabricated;
an incomplete tag is never returned. (The cut shape C08 reuses.) -/
theorem demux_truncated (hasVideo hasAudio : Bool) (tags : List Tag) (h : ∀ t ∈ tags, t.WF) (k : Nat) :
    demux ((mux hasVideo hasAudio tags).take k) =
      (if k < 13 then err .eof
       else ok ({ version := 1, hasVideo := hasVideo, hasAudio := hasAudio }, wholeTags (k - 13) tags, .err .eof)) ∧
    wholeTags (k - 13) tags <+: tags :=
  ⟨demux_cut hasVideo hasAudio tags h k, wholeTags_prefix _ _⟩

/-- No input makes the demuxer panic: not the header reader, not the tag-header reader, not `ReadTag`
for ANY size argument (fix F20), not the whole-file loop — whose fuel is never exhausted, i.e. it
terminates after at most `len/15` tags with an error class. -/
theorem demux_never_panics (s : Bytes) :
    readHeader s ≠ .panic ∧ readTagHeader s ≠ .panic ∧ (∀ size, readTag size s ≠ .panic) ∧
    demux s ≠ .panic ∧ (∀ h ts st, demux s = ok (h, ts, st) → st ≠ .panic) :=
  ⟨readHeader_ne_panic s, readTagHeader_ne_panic s, fun n => readTag_ne_panic n s, demux_ne_panic s,
   fun _ _ _ e => demux_stop_ne_panic e⟩

/-- Short input is always `io.EOF` (the `io.CopyN` rule), never a value: fewer than 13 / 11 / size+4 bytes. -/
theorem short_input_is_eof (s : Bytes) :
    (s.length < 13 → readHeader s = err .eof) ∧ (s.length < 11 → readTagHeader s = err .eof) ∧
    (∀ size, s.length < size + 4 → readTag size s = err .eof) := by
  refine ⟨fun h => ?_, fun h => ?_, fun n h => ?_⟩
  · simp [readHeader, copyN_short h]
  · simp [readTagHeader, copyN_short h]
  · simp [readTag, copyN_short h]

/-! ### non-vacuity: concrete inhabitants of the hypotheses, boundary values included -/

def exTags : List Tag :=
  [{ ty := 9, ts := 16777216, body := [0x17, 0x00] }, { ty := 8, ts := 4294967295, body := [] },
   { ty := 18, ts := 16777215, body := [1, 2, 3] }]

example : ∀ t ∈ exTags, t.WF := by decide
example : ∀ t ∈ exTags.map Tag.toSpec, t.WF := by decide
example : mux true true [{ ty := 9, ts := 0x01000002, body := [0xaa] }] =
    [0x46, 0x4c, 0x56, 1, 5, 0, 0, 0, 9, 0, 0, 0, 0,
     9, 0, 0, 1, 0, 0, 2, 1, 0, 0, 0, 0xaa, 0, 0, 0, 12] := by decide
example : demux (mux false true exTags) = ok (⟨1, false, true⟩, exTags, .err .eof) := by rfl
example : wholeTags (47 - 13) exTags = exTags.take 2 ∧ (mux false true exTags).length = 63 := by decide
example : demux ((mux false true exTags).take 47) = ok (⟨1, false, true⟩, exTags.take 2, .err .eof) := by rfl

end Oryx.Props.C09
