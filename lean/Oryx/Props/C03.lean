/-
  C03 — RTMP packets survive encode, wire and decode with the right type.
  Only property statements, their short proofs from the helper lemmas (Oryx/Proofs/RtmpPkt*.lean), and
  non-vacuity examples. Model: Oryx/Model/RtmpPkt.lean = the packet layer of rtmp/rtmp.go after the
  repair of F20 (`fix: rtmp: a call packet decoded without a command object has none`).
-/
import Oryx.Proofs.RtmpPktRT
namespace Oryx.Props.C03
open Oryx Oryx.Res Oryx.Amf0 Oryx.Rtmp Oryx.RtmpPkt

/-! ### gating obligations on the regenerated tables

The model is written against the switch arms, constants and facts the translator reads from the Go
source on every run; these examples pin what the theorems below were proved for. -/

-- `DecodeMessage`: message type → constructor (all 256 message types, exhaustively)
example : ∀ t : Fin 256, Gen.Rtmp.decodeMessageArm t.val =
    (if t.val = 1 then .NewSetChunkSize else if t.val = 5 then .NewWindowAcknowledgementSize
     else if t.val = 6 then .NewSetPeerBandwidth else if t.val = 4 then .NewUserControl
     else if t.val = 20 ∨ t.val = 17 ∨ t.val = 18 ∨ t.val = 15 then .parseAMFObject else .rejected) := by decide +kernel
example : ∀ t : Fin 256, Gen.Rtmp.decodeMessageSkipsOneByte t.val = decide (t.val = 17 ∨ t.val = 15) := by decide +kernel
-- `parseAMFObject`: command name → constructor; request name → response constructor
example : Gen.Rtmp.parseCommandArm Gen.Rtmp.commandResultBytes = .response := by decide
example : Gen.Rtmp.parseCommandArm Gen.Rtmp.commandErrorBytes = .response := by decide
example : Gen.Rtmp.parseCommandArm Gen.Rtmp.commandConnectBytes = .NewConnectAppPacket := by decide
example : Gen.Rtmp.parseCommandArm Gen.Rtmp.commandPublishBytes = .NewPublishPacket := by decide
example : Gen.Rtmp.parseCommandArm Gen.Rtmp.commandPlayBytes = .NewCallPacket := by decide
example : Gen.Rtmp.parseCommandArm Gen.Rtmp.commandCreateStreamBytes = .NewCallPacket := by decide
example : Gen.Rtmp.parseCommandArm Gen.Rtmp.commandCloseStreamBytes = .NewCallPacket := by decide
example : Gen.Rtmp.parseResponseArm Gen.Rtmp.commandConnectBytes = .NewConnectAppResPacket := by decide
example : Gen.Rtmp.parseResponseArm Gen.Rtmp.commandCreateStreamBytes = .NewCreateStreamResPacket := by decide
example : Gen.Rtmp.parseResponseArm Gen.Rtmp.commandPlayBytes = .rejected := by decide
-- `BetterCid()` / `Type()` of every packet type
example : (Kind.connect.msgType, Kind.connectRes.msgType, Kind.createStream.msgType, Kind.createStreamRes.msgType,
           Kind.publish.msgType, Kind.play.msgType, Kind.call.msgType) = (20, 20, 20, 20, 20, 20, 20) := by decide
example : (Kind.setChunkSize.msgType, Kind.winAck.msgType, Kind.setPeerBw.msgType, Kind.userControl.msgType) = (1, 5, 6, 4) := by decide
example : ∀ k : Kind, k.cid = (if k.msgType = 20 then 3 else 2) := by intro k; cases k <;> decide
-- `onPacketWriten`: which packets register a transaction, and when
example : (Gen.Rtmp.onPacketWritenRegisters_ConnectAppPacket, Gen.Rtmp.onPacketWritenRegisters_CreateStreamPacket) = (true, true) := by decide
example : (Gen.Rtmp.onPacketWritenRegisters_ConnectAppResPacket, Gen.Rtmp.onPacketWritenRegisters_CreateStreamResPacket,
           Gen.Rtmp.onPacketWritenRegisters_PublishPacket, Gen.Rtmp.onPacketWritenRegisters_PlayPacket,
           Gen.Rtmp.onPacketWritenRegisters_CallPacket) = (false, false, false, false, false) := by decide
example : (Gen.Rtmp.onPacketWritenRegisters_SetChunkSize, Gen.Rtmp.onPacketWritenRegisters_WindowAcknowledgementSize,
           Gen.Rtmp.onPacketWritenRegisters_SetPeerBandwidth, Gen.Rtmp.onPacketWritenRegisters_UserControl) = (false, false, false, false) := by decide
example : Gen.Rtmp.onPacketWritenCondition = "tid > 0 && len(name) > 0" := by decide
example : Gen.Rtmp.txnOrder = .registerThenWrite := by decide
-- the two distinguished user-control events
example : (Gen.Rtmp.EventTypeFmsEvent0, Gen.Rtmp.EventTypeSetBufferLength) = (0x1a, 3) := by decide

/-! ### codec -/

/-- Marshalling yields exactly `Size()` bytes — for EVERY packet value (no well-formedness needed). -/
theorem marshal_len (p : Packet) : p.marshal.length = p.size := marshal_length p

/-- Unmarshalling the marshalled bytes into a fresh packet of the same type yields equal field values
— every well-formed packet: arbitrary well-formed AMF0 trees as command object / arguments (C05's round
trip), arbitrary strings ≤ 65535 bytes, arbitrary transaction-id bit patterns (NaN included), optional
trailing fields present only after the preceding ones. -/
theorem unmarshal_marshal (p : Packet) (h : p.WF) : unmarshal p.kind p.marshal = ok p :=
  RtmpPkt.unmarshal_marshal p h

/-- … hence it re-marshals identically and reports the same `Size()`. -/
theorem remarshal (p : Packet) (h : p.WF) :
    ∃ q, unmarshal p.kind p.marshal = ok q ∧ q.marshal = p.marshal ∧ q.size = p.marshal.length :=
  ⟨p, unmarshal_marshal p h, rfl, (marshal_len p).symm⟩

/-- All 65 536 user-control event types: the body is 1 byte for `EventTypeFmsEvent0` (0x1a), 8 bytes
for `EventTypeSetBufferLength` (3) and 4 bytes otherwise, and the packet round-trips (also when more
bytes follow). Structured proof on the two distinguished constants. -/
theorem userControl_all_events (evt : Nat) (_he : evt < 65536) (d x : Nat) (h : (Packet.userControl evt d x).WF) :
    (Packet.userControl evt d x).marshal.length =
      (if evt = Gen.Rtmp.EventTypeFmsEvent0 then 2 + 1
       else if evt = Gen.Rtmp.EventTypeSetBufferLength then 2 + 8 else 2 + 4) ∧
    ∀ rest, unmarshal .userControl ((Packet.userControl evt d x).marshal ++ rest) = ok (.userControl evt d x) := by
  refine ⟨?_, userControl_roundtrip evt d x h⟩
  rw [userControl_marshal_length]
  unfold userControlSize
  by_cases hf : evt = Gen.Rtmp.EventTypeFmsEvent0
  · subst hf
    have hne : ¬ Gen.Rtmp.EventTypeFmsEvent0 = Gen.Rtmp.EventTypeSetBufferLength := by decide
    simp [hne]
  · by_cases hs : evt = Gen.Rtmp.EventTypeSetBufferLength
    · subst hs
      have hne : ¬ Gen.Rtmp.EventTypeSetBufferLength = Gen.Rtmp.EventTypeFmsEvent0 := by decide
      simp [hne]
    · simp [hf, hs]

/-! ### untrusted bytes -/

/-- No table state and no message make `DecodeMessage` panic (C07 reuses this): every slice
`p[v.Size():]`, `p[1:]`, `data[2:]`, `data[6:]` is in range. True since the repair of F20. -/
theorem decode_never_panics (tbl : TxnTable) (m : Msg) : dispatch tbl m ≠ .panic := dispatch_ne_panic tbl m

/-- Nor does any packet's `UnmarshalBinary` on any byte string. -/
theorem unmarshal_never_panics (k : Kind) (data : Bytes) : unmarshal k data ≠ .panic := unmarshal_ne_panic k data

/-- F20 (repaired): `publish`, transaction id 0, nothing else — `02 0007 "publish" 00 00…00`. The decoder
now reports an error; before the repair the command object preset by `NewPublishPacket` made `Size()`
one more than the payload and `p[v.variantCallPacket.Size():]` panicked. Same for a createStream
response that ends after the id. -/
theorem F20_regression :
    unmarshal .publish [2, 0, 7, 112, 117, 98, 108, 105, 115, 104, 0, 0, 0, 0, 0, 0, 0, 0, 0] = err .generic ∧
    unmarshal .createStreamRes [2, 0, 7, 95, 114, 101, 115, 117, 108, 116, 0, 0x40, 0, 0, 0, 0, 0, 0, 0] = err .generic := by
  constructor <;> rfl

/-! ### non-vacuity -/

/-- A connect request with a nested command object and optional arguments. -/
def exConnect : Packet :=
  .connect { name := Gen.Rtmp.commandConnectBytes, tid := one,
             obj := .cons [97, 112, 112] (.str [108, 105, 118, 101]) (.cons [111] (.obj (.cons [] (.num 0x7FF8000000000001) .nil)) .nil),
             args := some (.cons [120] .null .nil) }
/-- A createStream response with a NaN transaction id. -/
def exCsRes : Packet := .createStreamRes { name := Gen.Rtmp.commandResultBytes, tid := 0x7FF8000000000000, obj := some .null } 0x3FF0000000000000
def exPublish : Packet := .publish { name := Gen.Rtmp.commandPublishBytes, tid := 0, obj := some .null } [108, 105, 118, 101] []
def exCall : Packet := .call { name := Gen.Rtmp.commandCloseStreamBytes, tid := 0, obj := none } none

example : exConnect.WF := by decide
example : exCsRes.WF := by decide
example : exPublish.WF := by decide
example : exCall.WF := by decide
example : (Packet.userControl 0x1a 255 0).WF ∧ (Packet.userControl 3 0xFFFFFFFF 0x80000000).WF ∧ (Packet.userControl 0xFFFF 7 0).WF := by decide
example : exConnect.marshal.length = 61 := by rw [marshal_len]; decide
example : unmarshal .connect exConnect.marshal = ok exConnect := unmarshal_marshal exConnect (by decide)

end Oryx.Props.C03
