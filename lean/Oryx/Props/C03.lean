/-
  C03 — RTMP packets survive encode, wire and decode with the right type.
  Only property statements, their short proofs from the helper lemmas (Oryx/Proofs/RtmpPkt*.lean), and
  non-vacuity examples. Model: Oryx/Model/RtmpPkt.lean = the packet layer of rtmp/rtmp.go after the
  repair of F20 (`fix: rtmp: a call packet decoded without a command object has none`).
-/
/-
  Scope (what the statements do and do not carry):
  * every clause of the property is proved in full for the model (no `_partial` theorem); `C03_holds`
    collects them, `wire_dispatch` is the same over the bytes on the wire (C01's `write_read_one`).
  * `wire_dispatch` assumes a marshalled packet shorter than 2^24 bytes (the 3-byte length field of the
    chunk header; C01's domain) and reports the stream id as `uint32(streamID)`.
  * `ExpectPacket`/`ExpectMessage` are modelled over the list of messages `ReadMessage` delivers (C01: the
    messages written, in order); `reflect` assignability is equality of the concrete packet type.
  * `objectCallPacket.CommandObject` is assumed allocated (a nil pointer panics in `Size()`; both
    constructors allocate it and nothing resets it).
  * the round-trip domain (`Packet.WF`) excludes exactly what the wire cannot carry: strings above 65535
    bytes, a missing command object followed by further fields, a connect whose name / id are not
    `connect` / 1.0 (its decoder rejects them), `EventData ≥ 256` of the 1-byte event, a non-zero
    `ExtraData` of an event that does not carry it.
-/
import Oryx.Proofs.RtmpPktTxn
namespace Oryx.Props.C03
open Oryx Oryx.Res Oryx.Amf0 Oryx.Rtmp Oryx.RtmpPkt

/-- Go type name of each packet kind (for the gate on `ctorKind` below). -/
def goTypeName : Kind → String
  | .connect => "ConnectAppPacket" | .connectRes => "ConnectAppResPacket" | .createStream => "CreateStreamPacket"
  | .createStreamRes => "CreateStreamResPacket" | .publish => "PublishPacket" | .play => "PlayPacket" | .call => "CallPacket"
  | .setChunkSize => "SetChunkSize" | .winAck => "WindowAcknowledgementSize" | .setPeerBw => "SetPeerBandwidth"
  | .userControl => "UserControl"

/-! ### gating obligations on the regenerated tables

The model is written against the switch arms, constants and facts the translator reads from the Go
source on every run; these examples pin what the theorems below were proved for. -/

-- `DecodeMessage`: message type → constructor (all 256 message types, exhaustively)
example : ∀ t : Fin 256, Gen.Rtmp.decodeMessageArm t.val =
    (if t.val = 1 then .NewSetChunkSize else if t.val = 5 then .NewWindowAcknowledgementSize
     else if t.val = 6 then .NewSetPeerBandwidth else if t.val = 4 then .NewUserControl
     else if t.val = 20 ∨ t.val = 17 ∨ t.val = 18 ∨ t.val = 15 then .parseAMFObject else .rejected) := by decide +kernel
example : ∀ t : Fin 256, Gen.Rtmp.decodeMessageSkipsOneByte t.val = decide (t.val = 17 ∨ t.val = 15) := by decide +kernel
-- `parseAMFObject`: command name → constructor; request name → response constructor
example : Gen.Rtmp.parseCommandArm Gen.Rtmp.commandResultBytes = .response := by decide
example : Gen.Rtmp.parseCommandArm Gen.Rtmp.commandErrorBytes = .response := by decide
example : Gen.Rtmp.parseCommandArm Gen.Rtmp.commandConnectBytes = .NewConnectAppPacket := by decide
example : Gen.Rtmp.parseCommandArm Gen.Rtmp.commandPublishBytes = .NewPublishPacket := by decide
example : Gen.Rtmp.parseCommandArm Gen.Rtmp.commandPlayBytes = .NewCallPacket := by decide
example : Gen.Rtmp.parseCommandArm Gen.Rtmp.commandCreateStreamBytes = .NewCallPacket := by decide
example : Gen.Rtmp.parseCommandArm Gen.Rtmp.commandCloseStreamBytes = .NewCallPacket := by decide
example : Gen.Rtmp.parseResponseArm Gen.Rtmp.commandConnectBytes = .NewConnectAppResPacket := by decide
example : Gen.Rtmp.parseResponseArm Gen.Rtmp.commandCreateStreamBytes = .NewCreateStreamResPacket := by decide
example : Gen.Rtmp.parseResponseArm Gen.Rtmp.commandPlayBytes = .rejected := by decide
-- the model's constructor → packet type map is the source's
example : ∀ c : Gen.Rtmp.Ctor, (ctorKind c).map goTypeName = (if Gen.Rtmp.ctorGoType c = "" then none else some (Gen.Rtmp.ctorGoType c)) := by
  intro c; cases c <;> decide
-- `BetterCid()` / `Type()` of every packet type
example : (Kind.connect.msgType, Kind.connectRes.msgType, Kind.createStream.msgType, Kind.createStreamRes.msgType,
           Kind.publish.msgType, Kind.play.msgType, Kind.call.msgType) = (20, 20, 20, 20, 20, 20, 20) := by decide
example : (Kind.setChunkSize.msgType, Kind.winAck.msgType, Kind.setPeerBw.msgType, Kind.userControl.msgType) = (1, 5, 6, 4) := by decide
example : ∀ k : Kind, k.cid = (if k.msgType = 20 then 3 else 2) := by intro k; cases k <;> decide
-- `onPacketWriten`: which packets register a transaction, and when
example : (Gen.Rtmp.onPacketWritenRegisters_ConnectAppPacket, Gen.Rtmp.onPacketWritenRegisters_CreateStreamPacket) = (true, true) := by decide
example : (Gen.Rtmp.onPacketWritenRegisters_ConnectAppResPacket, Gen.Rtmp.onPacketWritenRegisters_CreateStreamResPacket,
           Gen.Rtmp.onPacketWritenRegisters_PublishPacket, Gen.Rtmp.onPacketWritenRegisters_PlayPacket,
           Gen.Rtmp.onPacketWritenRegisters_CallPacket) = (false, false, false, false, false) := by decide
example : (Gen.Rtmp.onPacketWritenRegisters_SetChunkSize, Gen.Rtmp.onPacketWritenRegisters_WindowAcknowledgementSize,
           Gen.Rtmp.onPacketWritenRegisters_SetPeerBandwidth, Gen.Rtmp.onPacketWritenRegisters_UserControl) = (false, false, false, false) := by decide
example : Gen.Rtmp.onPacketWritenCondition = "tid > 0 && len(name) > 0" := by decide
example : Gen.Rtmp.txnOrder = .registerThenWrite := by decide
-- the two distinguished user-control events
example : (Gen.Rtmp.EventTypeFmsEvent0, Gen.Rtmp.EventTypeSetBufferLength) = (0x1a, 3) := by decide

/-! ### codec -/

/-- Marshalling yields exactly `Size()` bytes — for EVERY packet value (no well-formedness needed). -/
theorem marshal_len (p : Packet) : p.marshal.length = p.size := marshal_length p

/-- Unmarshalling the marshalled bytes into a fresh packet of the same type yields equal field values
— every well-formed packet: arbitrary well-formed AMF0 trees as command object / arguments (C05's round
trip), arbitrary strings ≤ 65535 bytes, arbitrary transaction-id bit patterns (NaN included), optional
trailing fields present only after the preceding ones. -/
theorem unmarshal_marshal (p : Packet) (h : p.WF) : unmarshal p.kind p.marshal = ok p :=
  RtmpPkt.unmarshal_marshal p h

/-- … hence it re-marshals identically and reports the same `Size()`. -/
theorem remarshal (p : Packet) (h : p.WF) :
    ∃ q, unmarshal p.kind p.marshal = ok q ∧ q.marshal = p.marshal ∧ q.size = p.marshal.length :=
  ⟨p, unmarshal_marshal p h, rfl, (marshal_len p).symm⟩

/-- All 65 536 user-control event types: the body is 1 byte for `EventTypeFmsEvent0` (0x1a), 8 bytes
for `EventTypeSetBufferLength` (3) and 4 bytes otherwise, and the packet round-trips (also when more
bytes follow). Structured proof on the two distinguished constants. -/
theorem userControl_all_events (evt : Nat) (_he : evt < 65536) (d x : Nat) (h : (Packet.userControl evt d x).WF) :
    (Packet.userControl evt d x).marshal.length =
      (if evt = Gen.Rtmp.EventTypeFmsEvent0 then 2 + 1
       else if evt = Gen.Rtmp.EventTypeSetBufferLength then 2 + 8 else 2 + 4) ∧
    ∀ rest, unmarshal .userControl ((Packet.userControl evt d x).marshal ++ rest) = ok (.userControl evt d x) := by
  refine ⟨?_, userControl_roundtrip evt d x h⟩
  rw [userControl_marshal_length]
  unfold userControlSize
  by_cases hf : evt = Gen.Rtmp.EventTypeFmsEvent0
  · subst hf
    have hne : ¬ Gen.Rtmp.EventTypeFmsEvent0 = Gen.Rtmp.EventTypeSetBufferLength := by decide
    simp [hne]
  · by_cases hs : evt = Gen.Rtmp.EventTypeSetBufferLength
    · subst hs
      have hne : ¬ Gen.Rtmp.EventTypeSetBufferLength = Gen.Rtmp.EventTypeFmsEvent0 := by decide
      simp [hne]
    · simp [hf, hs]

/-! ### untrusted bytes -/

/-- No table state and no message make `DecodeMessage` panic (C07 reuses this): every slice
`p[v.Size():]`, `p[1:]`, `data[2:]`, `data[6:]` is in range. True since the repair of F20. -/
theorem decode_never_panics (tbl : TxnTable) (m : Msg) : dispatch tbl m ≠ .panic := dispatch_ne_panic tbl m

/-- Nor does any packet's `UnmarshalBinary` on any byte string. -/
theorem unmarshal_never_panics (k : Kind) (data : Bytes) : unmarshal k data ≠ .panic := unmarshal_ne_panic k data

/-- The chunk reader's own decoding of control messages inside `ReadMessage` (C01's model of
`onMessageArrivated`) is this model's `DecodeMessage`: the two models agree where they overlap. -/
theorem reader_uses_same_decoder (c : Nat) (m : Msg) (tbl : TxnTable) :
    onMessageArrived c m =
      (if m.hdr.ty = 1 ∨ m.hdr.ty = 4 ∨ m.hdr.ty = 5 then
         match (dispatchSt tbl m).1 with
         | .ok (.setChunkSize v) => ok v
         | .ok _ => ok c
         | .err _ => err .generic
         | .panic => .panic
       else ok c) := onMessageArrived_eq_decode c m tbl

/-- F20 (repaired): `publish`, transaction id 0, nothing else — `02 0007 "publish" 00 00…00`. The decoder
now reports an error; before the repair the command object preset by `NewPublishPacket` made `Size()`
one more than the payload and `p[v.variantCallPacket.Size():]` panicked. Same for a createStream
response that ends after the id. -/
theorem F20_regression :
    unmarshal .publish [2, 0, 7, 112, 117, 98, 108, 105, 115, 104, 0, 0, 0, 0, 0, 0, 0, 0, 0] = err .generic ∧
    unmarshal .createStreamRes [2, 0, 7, 95, 114, 101, 115, 117, 108, 116, 0, 0x40, 0, 0, 0, 0, 0, 0, 0] = err .generic := by
  constructor <;> rfl

/-! ### dispatch on the peer -/

/-- **Encode, wire, decode.** `WritePacket(p, streamID)` on one endpoint with any output chunk size ≥ 1;
`ReadMessage` + `DecodeMessage` on the peer whose reader follows that chunk size and holds no partial
message: exactly the written bytes are consumed (C01's `write_read_one`), the message has `p`'s `Type()`,
stream id and marshalled payload, and it is decoded as the library's dispatch table says
(`Arrives`: control packets, connect, publish as themselves with equal fields; a `_result` as the
response type of the outstanding request with its id, which is consumed; createStream, play and every
other command as a generic call) to a packet that re-marshals to the same payload. The writer's own
table has the request registered. -/
theorem wire_dispatch (p q : Packet) (tbl tbl' : TxnTable) (hp : p.WF) (harr : Arrives tbl p q tbl')
    (streamID : Nat) (hlen : p.marshal.length < 16777216)
    (c : Nat) (hc : 1 ≤ c) (st : Reader) (hic : st.inChunk = c) (hclean : Clean st) (rest : Bytes) (wtbl : TxnTable) :
    ∃ W m st', writePacket c wtbl p streamID = (ok W, onPacketWritten wtbl p) ∧
      readMessage st (W ++ rest) = ok ((m, st'), rest) ∧ Clean st' ∧
      m.hdr.ty = p.msgType ∧ m.hdr.sid = streamID % 4294967296 ∧ m.hdr.ts = 0 ∧ m.payload = p.marshal ∧
      dispatch tbl m = ok (q, tbl') ∧ q.marshal = p.marshal :=
  RtmpPkt.wire_dispatch p q tbl tbl' hp harr streamID hlen c hc st hic hclean rest wtbl

/-- The same without the transport: any message of `p`'s type carrying `p`'s bytes. -/
theorem dispatch_marshalled (p q : Packet) (tbl tbl' : TxnTable) (hp : p.WF) (harr : Arrives tbl p q tbl')
    (m : Msg) (hty : m.hdr.ty = p.msgType) (hpl : m.payload = p.marshal) :
    dispatch tbl m = ok (q, tbl') ∧ q.marshal = p.marshal := by
  obtain ⟨hd, hm⟩ := dispatchSt_arrives tbl tbl' p q hp harr m hty hpl
  exact ⟨by simp [dispatch, hd], hm⟩

/-- The rows of the table for the library's own request names: `play`, `createStream` and `closeStream`
REQUESTS are generic calls on the peer (identical bytes); only connect and publish have a typed arm. -/
theorem requests_arrive_as_calls (tbl : TxnTable) (tid : UInt64) (obj : Option Val) (sn : Bytes) :
    Arrives tbl (.createStream ⟨Gen.Rtmp.commandCreateStreamBytes, tid, obj⟩) (.call ⟨Gen.Rtmp.commandCreateStreamBytes, tid, obj⟩ none) tbl ∧
    Arrives tbl (.play ⟨Gen.Rtmp.commandPlayBytes, tid, obj⟩ sn) (.call ⟨Gen.Rtmp.commandPlayBytes, tid, obj⟩ (some (.str sn))) tbl ∧
    Arrives tbl (.call ⟨Gen.Rtmp.commandCloseStreamBytes, tid, obj⟩ none) (.call ⟨Gen.Rtmp.commandCloseStreamBytes, tid, obj⟩ none) tbl :=
  ⟨.createStream _ (show ctorKind (Gen.Rtmp.parseCommandArm Gen.Rtmp.commandCreateStreamBytes) = _ by decide),
   .play _ _ (show ctorKind (Gen.Rtmp.parseCommandArm Gen.Rtmp.commandPlayBytes) = _ by decide),
   .call _ _ (show ctorKind (Gen.Rtmp.parseCommandArm Gen.Rtmp.commandCloseStreamBytes) = _ by decide)⟩

/-! ### transactions -/

/-- **A `_result` is matched exactly once.** For EVERY history `ops` of packets written and messages
decoded by an endpoint (arbitrary packets, arbitrary transaction ids, arbitrary — also malformed —
messages), and every message `m` that answers id `tid` (an AMF command/data message starting with
`_result`/`_error` and a number):
* the table is a function of the history: looking `tid` up finds exactly the request still awaiting its
  response (`awaiting`: the latest connect/createStream written with that id, a positive id and a
  non-empty name, unless a response with that id was decoded since);
* without such a request decoding `m` is an error — never a guess;
* with one, `m` is decoded — if its body decodes at all — as the response type of THAT request, the
  request is consumed, and any further response with that id is refused. -/
theorem result_once (ops : List Op) (m : Msg) (tid : UInt64) (hm : responseTid m = some tid) :
    (run ops).find tid = awaiting tid ops ∧
    (awaiting tid ops = none → dispatch (run ops) m = err .generic) ∧
    (∀ req, awaiting tid ops = some req →
      (∀ p tbl', dispatch (run ops) m = ok (p, tbl') → respKind req = some p.kind) ∧
      awaiting tid (ops ++ [.recv m]) = none ∧
      (∀ m', responseTid m' = some tid → dispatch (run (ops ++ [.recv m])) m' = err .generic)) := by
  have hnone : ∀ (ops : List Op) (m : Msg), responseTid m = some tid → awaiting tid ops = none →
      dispatch (run ops) m = err .generic := by
    intro ops m hm h
    exact dispatch_err_of_fst ((dispatchSt_response (run ops) m tid hm).1 (by rw [run_find]; exact h))
  refine ⟨run_find ops tid, hnone ops m hm, ?_⟩
  intro req hreq
  have hfind : (run ops).find tid = some req := by rw [run_find]; exact hreq
  have hcons : awaiting tid (ops ++ [.recv m]) = none := by
    have hpos := find_some_pos (run_allPos ops) hfind
    simp [awaiting, List.foldl_append, awaitStep, hm, numEq_self_of_pos hpos]
  refine ⟨?_, hcons, fun m' hm' => hnone _ m' hm' hcons⟩
  intro p tbl' hd
  have := fst_of_dispatch_ok hd
  exact (dispatchSt_response (run ops) m tid hm).2 req hfind p (by rw [this])

/-- The domain made explicit: a request is registered only with a transaction id `> 0` (id 0 is RTMP's
"no reply expected"; a NaN is never equal to itself). With `tid ≤ 0` or NaN nothing is registered, no
history makes such an id outstanding, and a response carrying it is always an error. -/
theorem tid_nonpositive_unregistered (tid : UInt64) (h : isPositive tid = false) :
    (∀ tbl p n, registers p = some (tid, n) → onPacketWritten tbl p = tbl) ∧
    (∀ ops, awaiting tid ops = none) ∧
    (∀ ops m, responseTid m = some tid → dispatch (run ops) m = err .generic) := by
  have haw : ∀ ops, awaiting tid ops = none := fun ops => by
    rw [← run_find]; exact find_none_of_not_pos (run_allPos ops) h
  refine ⟨?_, haw, fun ops m hm => (result_once ops m tid hm).2.1 (haw ops)⟩
  intro tbl p n hr
  simp [onPacketWritten, hr, h]

/-! ### typed waits -/

/-- `ExpectPacket` returns the FIRST message whose decoded kind is the requested one, with its packet,
provided the messages before it decode (control and command traffic of other kinds is skipped, the
transaction table threaded through); a message before it that does not decode ends the wait with that
error; if nothing matches the wait ends with the transport's end-of-stream error.
`ExpectMessage` returns the first message of one of the requested types (any message when none is
requested) without decoding anything. -/
theorem expect_first (k : Kind) (pre : List Msg) (tbl tbl1 tbl2 : TxnTable) (hs : Skips k tbl pre tbl1)
    (m : Msg) (post : List Msg) :
    (∀ p, dispatchSt tbl1 m = (ok p, tbl2) → p.kind = k →
      expectPacket k tbl (pre ++ m :: post) = (ok (m, p, post), tbl2)) ∧
    (∀ e, dispatchSt tbl1 m = (err e, tbl2) → expectPacket k tbl (pre ++ m :: post) = (err e, tbl2)) ∧
    expectPacket k tbl pre = (err .eof, tbl1) ∧
    (∀ types : List Nat, types ≠ [] → (∀ x ∈ pre, x.hdr.ty ∉ types) →
      (m.hdr.ty ∈ types → expectMessage types (pre ++ m :: post) = ok (m, post)) ∧
      expectMessage types pre = err .eof) ∧
    expectMessage [] (m :: post) = ok (m, post) :=
  ⟨fun p hd hk => expectPacket_first k pre tbl tbl1 tbl2 hs m p hd hk post,
   fun e hd => expectPacket_error k pre tbl tbl1 tbl2 hs m e hd post,
   expectPacket_none k pre tbl tbl1 hs,
   fun types hne hpre => ⟨fun hm => expectMessage_first types hne pre hpre m hm post, expectMessage_none types hne pre hpre⟩,
   expectMessage_any m post⟩

/-- Neither wait can panic. -/
theorem expect_never_panics (k : Kind) (types : List Nat) (tbl : TxnTable) (msgs : List Msg) :
    (expectPacket k tbl msgs).1 ≠ .panic ∧ expectMessage types msgs ≠ .panic :=
  ⟨expectPacket_ne_panic k msgs tbl, expectMessage_ne_panic types msgs⟩

/-- The whole property, as one proposition. -/
def C03_statement : Prop :=
  (∀ p : Packet, p.marshal.length = p.size) ∧
  (∀ p : Packet, p.WF → unmarshal p.kind p.marshal = ok p) ∧
  (∀ (p q : Packet) (tbl tbl' : TxnTable), p.WF → Arrives tbl p q tbl' → ∀ m : Msg, m.hdr.ty = p.msgType →
      m.payload = p.marshal → dispatch tbl m = ok (q, tbl') ∧ q.marshal = p.marshal) ∧
  (∀ (ops : List Op) (m : Msg) (tid : UInt64), responseTid m = some tid →
      (awaiting tid ops = none → dispatch (run ops) m = err .generic) ∧
      (∀ req, awaiting tid ops = some req → ∀ m', responseTid m' = some tid →
        dispatch (run (ops ++ [.recv m])) m' = err .generic)) ∧
  (∀ (k : Kind) (pre : List Msg) (tbl tbl1 tbl2 : TxnTable), Skips k tbl pre tbl1 → ∀ (m : Msg) (p : Packet) (post : List Msg),
      dispatchSt tbl1 m = (ok p, tbl2) → p.kind = k → expectPacket k tbl (pre ++ m :: post) = (ok (m, p, post), tbl2))

/-- C03 holds in full for the repaired code (over the wire: `wire_dispatch`). -/
theorem C03_holds : C03_statement :=
  ⟨marshal_len, unmarshal_marshal, fun p q tbl tbl' hp ha m ht hpl => dispatch_marshalled p q tbl tbl' hp ha m ht hpl,
   fun ops m tid hm => ⟨(result_once ops m tid hm).2.1, fun req hr m' hm' => ((result_once ops m tid hm).2.2 req hr).2.2 m' hm'⟩,
   fun k pre tbl tbl1 tbl2 hs m p post hd hk => expectPacket_first k pre tbl tbl1 tbl2 hs m p hd hk post⟩

/-! ### non-vacuity -/

/-- A connect request with a nested command object and optional arguments. -/
def exConnect : Packet :=
  .connect { name := Gen.Rtmp.commandConnectBytes, tid := one,
             obj := .cons [97, 112, 112] (.str [108, 105, 118, 101]) (.cons [111] (.obj (.cons [] (.num 0x7FF8000000000001) .nil)) .nil),
             args := some (.cons [120] .null .nil) }
/-- A createStream response with a NaN transaction id. -/
def exCsRes : Packet := .createStreamRes { name := Gen.Rtmp.commandResultBytes, tid := 0x7FF8000000000000, obj := some .null } 0x3FF0000000000000
def exPublish : Packet := .publish { name := Gen.Rtmp.commandPublishBytes, tid := 0, obj := some .null } [108, 105, 118, 101] []
def exCall : Packet := .call { name := Gen.Rtmp.commandCloseStreamBytes, tid := 0, obj := none } none

example : exConnect.WF := by decide
example : exCsRes.WF := by decide
example : exPublish.WF := by decide
example : exCall.WF := by decide
example : (Packet.userControl 0x1a 255 0).WF ∧ (Packet.userControl 3 0xFFFFFFFF 0x80000000).WF ∧ (Packet.userControl 0xFFFF 7 0).WF := by decide
example : exConnect.marshal.length = 61 := by rw [marshal_len]; decide
example : unmarshal .connect exConnect.marshal = ok exConnect := unmarshal_marshal exConnect (by decide)

/-- A createStream request with id 2, its response, a publish. -/
def exCs : Packet := .createStream { name := Gen.Rtmp.commandCreateStreamBytes, tid := 0x4000000000000000, obj := some .null }
def exRes : Packet := .createStreamRes { name := Gen.Rtmp.commandResultBytes, tid := 0x4000000000000000, obj := some .null } 0x3FF0000000000000
def exResMsg : Msg := { hdr := { ty := 20 }, payload := exRes.marshal }
def exCtl : Msg := { hdr := { ty := 5 }, payload := [0, 0, 16, 0] }

example : exCs.WF ∧ exRes.WF := by decide
-- transport hypotheses of `wire_dispatch`: a fresh reader is clean; the default chunk size is ≥ 1
example : Clean {} := by intro k ch h; simp [Chunks.get] at h
example : exConnect.marshal.length < 16777216 := by rw [marshal_len]; decide
-- the positive / non-positive split of transaction ids
example : isPositive one = true ∧ isPositive 0x7FF0000000000000 = true ∧ isPositive 1 = true := by decide
example : isPositive 0 = false ∧ isPositive 0x8000000000000000 = false ∧ isPositive 0xBFF0000000000000 = false ∧
    isPositive 0x7FF8000000000000 = false ∧ isPositive 0xFFF8000000000001 = false := by decide
example : numEq 0x7FF8000000000000 0x7FF8000000000000 = false ∧ numEq 0 0x8000000000000000 = true := by decide
-- a history: createStream(2) written, its _result decoded once, then refused
example : registers exCs = some (0x4000000000000000, Gen.Rtmp.commandCreateStreamBytes) := by decide
example : responseTid exResMsg = some 0x4000000000000000 := by decide
example : awaiting 0x4000000000000000 [.send exCs] = some Gen.Rtmp.commandCreateStreamBytes := by decide
example : respKind Gen.Rtmp.commandCreateStreamBytes = some .createStreamRes := by decide
example : dispatch (run [.send exCs]) exResMsg = ok (exRes, []) := by decide
example : dispatch (run [.send exCs, .recv exResMsg]) exResMsg = err .generic := by decide
example : Arrives (run [.send exCs]) exRes exRes ((run [.send exCs]).erase 0x4000000000000000) :=
  .createStreamRes _ _ Gen.Rtmp.commandCreateStreamBytes (by decide) (by decide) (by decide)
-- a typed wait that skips a control message and a publish before the response
example : Skips .createStreamRes (run [.send exCs]) [exCtl, { hdr := { ty := 20 }, payload := exPublish.marshal }] (run [.send exCs]) :=
  .cons _ (run [.send exCs]) _ _ _ (.winAck 4096) (by decide) (by decide)
    (.cons _ (run [.send exCs]) _ _ _ exPublish (by decide) (by decide) (.nil _))
example : ∀ x ∈ [exCtl], x.hdr.ty ∉ [20, 18] := by decide

end Oryx.Props.C03
