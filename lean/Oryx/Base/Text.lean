/-
  Text helpers for the oracle line protocol: hex, payload descriptors, result printing.
-/
import Oryx.Base.Bytes
namespace Oryx

def hexDigit (n : Nat) : Char :=
  if n < 10 then Char.ofNat (48 + n) else Char.ofNat (87 + n)

/-- Lower-case hex; the empty byte string prints as `-` so every field is non-empty. -/
def toHex (bs : Bytes) : String :=
  if bs.isEmpty then "-" else
  String.ofList (bs.foldr (fun b acc => hexDigit (b.toNat / 16) :: hexDigit (b.toNat % 16) :: acc) [])

def hexVal (c : Char) : Option Nat :=
  if '0' ≤ c ∧ c ≤ '9' then some (c.toNat - 48)
  else if 'a' ≤ c ∧ c ≤ 'f' then some (c.toNat - 87)
  else if 'A' ≤ c ∧ c ≤ 'F' then some (c.toNat - 55)
  else none

def ofHexChars : List Char → Option Bytes
  | [] => some []
  | a :: b :: rest => do
    let x ← hexVal a
    let y ← hexVal b
    let tl ← ofHexChars rest
    pure (UInt8.ofNat (x * 16 + y) :: tl)
  | _ => none

/-- Byte-string field: `-` (empty), hex, or `p:<len>:<seed>` (LCG-expanded). -/
def parseBytes (s : String) : Option Bytes :=
  if s == "-" then some []
  else if s.startsWith "p:" then
    match s.splitOn ":" with
    | [_, l, sd] => do
      let n ← l.toNat?
      let seed ← sd.toNat?
      pure (lcgBytes n seed)
    | _ => none
  else ofHexChars s.toList

def EK.str : EK → String
  | .generic => "err"
  | .eof => "err-eof"
  | .ueof => "err-ueof"
  | .inject => "err-inject"

def Res.str (f : α → String) : Res α → String
  | .ok a => "ok " ++ f a
  | .err k => k.str
  | .panic => "panic"

def natList (l : List Nat) : String := ",".intercalate (l.map toString)

end Oryx
