/-
  Stream readers: decoders that pull from a transport. The model reader is a function on the
  remaining input (the joined byte stream, so independence from transport segmentation is
  definitional in the model; that bufio.Reader + io.ReadFull realise it is trusted and exercised
  by the correspondence harness).

  `readFull n` is Go's `io.ReadFull(r, make([]byte, n))` / `binary.Read` of an n-byte value on a
  stream that ends after the given bytes: n = 0 succeeds without reading; no byte available = io.EOF;
  some but fewer than n = io.ErrUnexpectedEOF.
  `copyN n` is `io.CopyN(dst, r, n)`: fewer than n bytes available = io.EOF (also when some arrived).
-/
import Oryx.Base.Bytes
namespace Oryx
open Res

def readFull (n : Nat) (bs : Bytes) : Res (Bytes × Bytes) :=
  if n = 0 then ok ([], bs)
  else match bs with
    | [] => err .eof
    | _ :: _ =>
      -- `(bs.take n).length < n` iff `bs.length < n`, without walking the whole stream
      let a := bs.take n
      if a.length < n then err .ueof else ok (a, bs.drop n)

/-- The specification-level reading of `readFull` (what the comment above says). -/
theorem readFull_eq (n : Nat) (bs : Bytes) :
    readFull n bs =
      if n = 0 then ok ([], bs)
      else if bs.length = 0 then err .eof
      else if bs.length < n then err .ueof
      else ok (bs.take n, bs.drop n) := by
  unfold readFull
  split
  · rfl
  · cases bs with
    | nil => simp
    | cons b rest =>
      simp only [List.length_take, List.length_cons]
      have : ¬ (rest.length + 1 = 0) := by omega
      simp only [this, if_false]
      by_cases h : rest.length + 1 < n
      · have : min n (rest.length + 1) < n := by omega
        simp [h, this]
      · have : ¬ min n (rest.length + 1) < n := by omega
        simp [h, this]

def copyN (n : Nat) (bs : Bytes) : Res (Bytes × Bytes) :=
  let a := bs.take n
  if a.length < n then err .eof else ok (a, bs.drop n)

theorem copyN_eq (n : Nat) (bs : Bytes) :
    copyN n bs = if bs.length < n then err .eof else ok (bs.take n, bs.drop n) := by
  unfold copyN
  simp only [List.length_take]
  by_cases h : bs.length < n
  · have : min n bs.length < n := by omega
    simp [h, this]
  · have : ¬ min n bs.length < n := by omega
    simp [h, this]

theorem readFull_append {n : Nat} (a rest : Bytes) (h : a.length = n) :
    readFull n (a ++ rest) = ok (a, rest) := by
  subst h
  rw [readFull_eq]
  by_cases h0 : a.length = 0
  · have : a = [] := List.length_eq_zero_iff.mp h0
    subst this; simp
  · simp [h0]

theorem copyN_append {n : Nat} (a rest : Bytes) (h : a.length = n) :
    copyN n (a ++ rest) = ok (a, rest) := by
  subst h; simp [copyN_eq]

theorem readFull_ne_panic (n : Nat) (bs : Bytes) : readFull n bs ≠ .panic := by
  rw [readFull_eq]
  repeat' split
  all_goals simp

theorem copyN_ne_panic (n : Nat) (bs : Bytes) : copyN n bs ≠ .panic := by
  rw [copyN_eq]; split <;> simp

/-- On success the bytes read have the requested length and input = read ++ rest. -/
theorem readFull_ok {n : Nat} {bs a rest : Bytes} (h : readFull n bs = ok (a, rest)) :
    a.length = n ∧ bs = a ++ rest := by
  rw [readFull_eq] at h
  split at h
  · simp at h; obtain ⟨rfl, rfl⟩ := h; simp [*]
  · split at h
    · simp at h
    · split at h
      · simp at h
      · simp at h
        obtain ⟨rfl, rfl⟩ := h
        refine ⟨?_, (List.take_append_drop n bs).symm⟩
        simp; omega

theorem copyN_ok {n : Nat} {bs a rest : Bytes} (h : copyN n bs = ok (a, rest)) :
    a.length = n ∧ bs = a ++ rest := by
  rw [copyN_eq] at h
  split at h
  · simp at h
  · simp at h
    obtain ⟨rfl, rfl⟩ := h
    refine ⟨?_, (List.take_append_drop n bs).symm⟩
    simp; omega

end Oryx
