/-
  Base: bytes, three-valued results with Go's panic semantics, big/little-endian
  (de)composition with the round-trip lemmas every codec proof uses.
  Core Lean only (linked into the `oracle` executable).
-/
namespace Oryx

abbrev Bytes := List UInt8

/-- Error classes. Error *texts* are never modelled or compared. -/
inductive EK where
  | generic | eof | ueof | inject
  deriving DecidableEq, Repr, Inhabited

/-- Result of a modelled Go call: value, returned error, or run-time panic. -/
inductive Res (α : Type) where
  | ok (a : α)
  | err (k : EK)
  | panic
  deriving Repr, DecidableEq

namespace Res

@[inline] def bind : Res α → (α → Res β) → Res β
  | ok a, f => f a
  | err k, _ => err k
  | panic, _ => panic

instance : Monad Res where
  pure := ok
  bind := Res.bind

def isOk : Res α → Bool | ok _ => true | _ => false
def isErr : Res α → Bool | err _ => true | _ => false
def isPanic : Res α → Bool | panic => true | _ => false

@[simp] theorem isPanic_ok (a : α) : (ok a : Res α).isPanic = false := rfl
@[simp] theorem isPanic_err (k : EK) : (err k : Res α).isPanic = false := rfl
@[simp] theorem isPanic_panic : (panic : Res α).isPanic = true := rfl
theorem isPanic_ite (c : Prop) [Decidable c] (a b : Res α) :
    (if c then a else b).isPanic = if c then a.isPanic else b.isPanic := by split <;> rfl
theorem isPanic_false_iff {x : Res α} : x.isPanic = false ↔ x ≠ panic := by cases x <;> simp [isPanic]

@[simp] theorem bind_ok (a : α) (f : α → Res β) : (ok a >>= f) = f a := rfl
@[simp] theorem bind_err (k : EK) (f : α → Res β) : (err k >>= f) = err k := rfl
@[simp] theorem bind_panic (f : α → Res β) : ((panic : Res α) >>= f) = panic := rfl
@[simp] theorem pure_eq (a : α) : (pure a : Res α) = ok a := rfl

theorem bind_eq_ok {x : Res α} {f : α → Res β} {b : β} :
    (x >>= f) = ok b ↔ ∃ a, x = ok a ∧ f a = ok b := by
  cases x <;> simp

theorem bind_ne_panic {x : Res α} {f : α → Res β}
    (hx : x ≠ panic) (hf : ∀ a, x = ok a → f a ≠ panic) : (x >>= f) ≠ panic := by
  cases x with
  | ok a => simpa using hf a rfl
  | err k => simp
  | panic => exact absurd rfl hx

end Res

open Res

/-- Go `l[i]`: panics out of range. -/
def idx (l : List α) (i : Nat) : Res α :=
  match l[i]? with
  | some a => ok a
  | none => panic

/-- Go `l[lo:]`: panics when `lo > len l`. -/
def sliceFrom (l : List α) (lo : Nat) : Res (List α) :=
  if lo ≤ l.length then ok (l.drop lo) else panic

/-- Go `l[:hi]`: panics when `hi > len l` (capacity is not modelled: callers pass exact slices). -/
def sliceTo (l : List α) (hi : Nat) : Res (List α) :=
  if hi ≤ l.length then ok (l.take hi) else panic

/-- Go `l[lo:hi]`. -/
def slice (l : List α) (lo hi : Nat) : Res (List α) :=
  if lo ≤ hi ∧ hi ≤ l.length then ok ((l.take hi).drop lo) else panic

/-! ### little / big endian over `Nat` -/

/-- `n` bytes little-endian of `v` (value reduced mod 256^n, as Go's `byte(v>>k)` does). -/
def le : Nat → Nat → Bytes
  | 0, _ => []
  | n+1, v => UInt8.ofNat (v % 256) :: le n (v / 256)

def ofLE : Bytes → Nat
  | [] => 0
  | b :: bs => b.toNat + 256 * ofLE bs

/-- `n` bytes big-endian of `v`. -/
def be (n v : Nat) : Bytes := (le n v).reverse

def ofBE (bs : Bytes) : Nat := ofLE bs.reverse

@[simp] theorem le_length (n v : Nat) : (le n v).length = n := by
  induction n generalizing v with
  | zero => rfl
  | succ n ih => simp [le, ih]

@[simp] theorem be_length (n v : Nat) : (be n v).length = n := by simp [be]

theorem u8_toNat_ofNat_mod (v : Nat) : (UInt8.ofNat (v % 256)).toNat = v % 256 := by
  simp [UInt8.toNat_ofNat']

theorem ofLE_le (n v : Nat) : ofLE (le n v) = v % 256 ^ n := by
  induction n generalizing v with
  | zero => simp [le, ofLE, Nat.mod_one]
  | succ n ih =>
    simp only [le, ofLE, ih, u8_toNat_ofNat_mod]
    rw [Nat.pow_succ, Nat.mul_comm (256 ^ n) 256, Nat.mod_mul]

theorem ofBE_be (n v : Nat) : ofBE (be n v) = v % 256 ^ n := by
  simp [ofBE, be, ofLE_le]

theorem ofBE_be_of_lt {n v : Nat} (h : v < 256 ^ n) : ofBE (be n v) = v := by
  rw [ofBE_be, Nat.mod_eq_of_lt h]

theorem ofLE_le_of_lt {n v : Nat} (h : v < 256 ^ n) : ofLE (le n v) = v := by
  rw [ofLE_le, Nat.mod_eq_of_lt h]

theorem ofLE_lt (bs : Bytes) : ofLE bs < 256 ^ bs.length := by
  induction bs with
  | nil => simp [ofLE]
  | cons b bs ih =>
    have hb : b.toNat < 256 := UInt8.toNat_lt b
    simp only [ofLE, List.length_cons, Nat.pow_succ]
    omega

theorem ofBE_lt (bs : Bytes) : ofBE bs < 256 ^ bs.length := by
  have := ofLE_lt bs.reverse
  simpa [ofBE] using this

theorem le_ofLE (bs : Bytes) : le bs.length (ofLE bs) = bs := by
  induction bs with
  | nil => rfl
  | cons b bs ih =>
    have hb : b.toNat < 256 := UInt8.toNat_lt b
    have h1 : (b.toNat + 256 * ofLE bs) % 256 = b.toNat := by omega
    have h2 : (b.toNat + 256 * ofLE bs) / 256 = ofLE bs := by omega
    simp only [ofLE, List.length_cons, le, h1, h2, ih]
    congr 1
    exact UInt8.ofNat_toNat

theorem be_ofBE (bs : Bytes) : be bs.length (ofBE bs) = bs := by
  have := le_ofLE bs.reverse
  simp only [List.length_reverse] at this
  simp [be, ofBE, this]

theorem be_ofBE' {bs : Bytes} {n : Nat} (h : bs.length = n) : be n (ofBE bs) = bs := by
  subst h; exact be_ofBE bs

theorem le_ofLE' {bs : Bytes} {n : Nat} (h : bs.length = n) : le n (ofLE bs) = bs := by
  subst h; exact le_ofLE bs

/-- Injectivity of fixed-width big-endian on the representable range. -/
theorem be_inj {n a b : Nat} (ha : a < 256 ^ n) (hb : b < 256 ^ n) (h : be n a = be n b) : a = b := by
  have := congrArg ofBE h
  rwa [ofBE_be_of_lt ha, ofBE_be_of_lt hb] at this

/-! ### take/drop on appended lists (the shape every decoder proof needs) -/

theorem take_append_len {α} (a b : List α) {n : Nat} (h : a.length = n) : (a ++ b).take n = a := by
  subst h; simp

theorem drop_append_len {α} (a b : List α) {n : Nat} (h : a.length = n) : (a ++ b).drop n = b := by
  subst h; simp

/-! ### deterministic payload descriptor `p:len:seed` (same LCG in the Go harness) -/

def lcgNext (s : Nat) : Nat := (s * 1664525 + 1013904223) % 4294967296

def lcgBytes : Nat → Nat → Bytes
  | 0, _ => []
  | n+1, s => let s' := lcgNext s; UInt8.ofNat ((s' / 65536) % 256) :: lcgBytes n s'

end Oryx

namespace Oryx

/-- Exhaustive reasoning over one byte: reduce `∀ b : UInt8` to `∀ i : Fin 256` (decidable). -/
theorem forall_u8 {P : UInt8 → Prop} (h : ∀ i : Fin 256, P (UInt8.ofNat i.val)) : ∀ b, P b := by
  intro b
  have := h ⟨b.toNat, UInt8.toNat_lt b⟩
  simpa using this

end Oryx
