/-
  C08 — lemmas about the errors-package model (Oryx/Model/Errors.lean).
-/
import Oryx.Model.Errors
namespace Oryx.Errors
open Oryx

/-! ### the algebra -/

theorem Layer.apply_none (l : Layer) : l.apply none = none := by
  cases l <;> rfl

theorem build_none (ls : List Layer) : build ls none = none := by
  induction ls with
  | nil => rfl
  | cons l ls ih => simp [build, ih, Layer.apply_none]

/-- One constructor call on a non-nil error: non-nil, same cause, its message in front of the chain. -/
theorem Layer.apply_some (l : Layer) (e : Err) :
    ∃ e', l.apply (some e) = some e' ∧ e'.cause = e.cause ∧ e'.messages = l.msg ++ e.messages ∧
      e'.message = joinColon (l.msg ++ [e.message]) := by
  cases l <;> exact ⟨_, rfl, rfl, rfl, rfl⟩

theorem joinColon_cons_cons (a b : String) (l : List String) :
    joinColon (a :: b :: l) = a ++ ": " ++ joinColon (b :: l) := rfl

theorem joinColon_append_singleton (l : List String) (m : String) (rest : List String) :
    joinColon (l ++ [joinColon (m :: rest)]) = joinColon (l ++ m :: rest) := by
  induction l with
  | nil => simp [joinColon]
  | cons a l ih =>
    cases l with
    | nil =>
      simp only [List.nil_append, List.cons_append] at ih ⊢
      rw [joinColon_cons_cons, joinColon_cons_cons]
      simp [joinColon]
    | cons b l =>
      simp only [List.cons_append] at ih ⊢
      rw [joinColon_cons_cons, joinColon_cons_cons, ih]

/-- `Error()` of any error value = its message layers, outer to inner, then the root's own text, joined by ": ". -/
theorem message_eq_chain (e : Err) : e.message = joinColon (e.messages ++ [e.cause.message]) := by
  induction e with
  | root r => rfl
  | withMessage m e ih =>
    simp only [Err.message, Err.messages, Err.cause, List.cons_append]
    rw [ih]
    cases h : e.messages ++ [e.cause.message] with
    | nil => simp at h
    | cons a l => rfl
  | withStack e ih => simpa [Err.message, Err.messages, Err.cause] using ih

theorem cause_cause (e : Err) : e.cause.cause = e.cause := by
  induction e with
  | root r => rfl
  | withMessage m e ih => simpa [Err.cause] using ih
  | withStack e ih => simpa [Err.cause] using ih

theorem cause_is_root (e : Err) : ∃ r, e.cause = .root r := by
  induction e with
  | root r => exact ⟨r, rfl⟩
  | withMessage m e ih => simpa [Err.cause] using ih
  | withStack e ih => simpa [Err.cause] using ih

/-- A tower over a non-nil error: non-nil, same cause, the layers' messages in front. -/
theorem build_some (ls : List Layer) (e : Err) :
    ∃ e', build ls (some e) = some e' ∧ e'.cause = e.cause ∧
      e'.messages = (ls.map Layer.msg).flatten ++ e.messages := by
  induction ls with
  | nil => exact ⟨e, rfl, rfl, by simp⟩
  | cons l ls ih =>
    obtain ⟨e1, h1, hc1, hm1⟩ := ih
    obtain ⟨e2, h2, hc2, hm2, _⟩ := l.apply_some e1
    refine ⟨e2, by simp [build, h1, h2], hc2.trans hc1, ?_⟩
    simp [hm2, hm1, List.append_assoc]

/-! ### classes -/

theorem rootOfEK_ekOfRoot (k : EK) : ekOfRoot (rootOfEK k) = k := by
  cases k <;> rfl

theorem cls_root (r : Nat) : (Err.root r).cls = ekOfRoot r := rfl

theorem cls_withMessage (m : String) (e : Err) : (Err.withMessage m e).cls = e.cls := rfl
theorem cls_withStack (e : Err) : (Err.withStack e).cls = e.cls := rfl

theorem cls_of_cause {e : Err} {r : Nat} (h : e.cause = .root r) : e.cls = ekOfRoot r := by
  simp [Err.cls, h]

end Oryx.Errors
