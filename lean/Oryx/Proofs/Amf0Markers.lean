/-
  C06 helpers about marker dispatch: a decoded value has the type `Discovery` selected, a rejected
  marker (and a stray object-end marker) is an error at top level and inside containers.
-/
import Oryx.Proofs.Amf0Spec
namespace Oryx.Amf0
open Oryx Oryx.Res Oryx.Spec.Amf0

/-- The `Discovery` arm a value belongs to. -/
def kindOf : Val → Gen.Amf0.DiscoveryResult
  | .num _ => .NewNumber
  | .bool _ => .NewBoolean
  | .str _ => .NewString
  | .null => .NewNull
  | .undef => .NewUndefined
  | .obj _ => .NewObject
  | .ecma _ _ => .NewEcmaArray
  | .strict _ => .NewStrictArray
  | .eof => .objectEOF

/-- A rejected marker is an error, whatever follows. -/
theorem decodeVal_rejected {m : UInt8} (h : Gen.Amf0.discovery m.toNat = .rejected) (tl : Bytes) (fuel : Nat) :
    decodeVal (fuel+1) (m :: tl) = .err .generic := by
  simp [decodeVal, h]

/-- A decoded value is of the type `Discovery` selected for its marker byte. -/
theorem decodeVal_kind {m : UInt8} {tl : Bytes} {fuel : Nat} {v : Val} {r : Bytes}
    (h : decodeVal (fuel+1) (m :: tl) = ok (v, r)) : kindOf v = Gen.Amf0.discovery m.toNat := by
  simp only [decodeVal] at h
  split at h
  · next he =>
    rw [he]; unfold numberDec at h
    split at h
    · cases h
    · simp only at h; split at h
      · cases h
      · injection h with h; injection h with h _; subst h; rfl
  · next he =>
    rw [he]; unfold booleanDec at h
    split at h
    · split at h
      · cases h
      · injection h with h; injection h with h _; subst h; rfl
    · cases h
  · next he =>
    rw [he]; unfold stringDec at h
    split at h
    · split at h
      · cases h
      · rw [Res.bind_eq_ok] at h
        obtain ⟨⟨s, r'⟩, _, h2⟩ := h
        injection h2 with h2; injection h2 with h2 _; subst h2; rfl
    · cases h
  · next he =>
    rw [he]; unfold singleDec at h
    split at h
    · split at h
      · cases h
      · injection h with h; injection h with h _; subst h; rfl
    · cases h
  · next he =>
    rw [he]; unfold singleDec at h
    split at h
    · split at h
      · cases h
      · injection h with h; injection h with h _; subst h; rfl
    · cases h
  · next he =>
    rw [he]; unfold eofDec at h
    split at h
    · split at h
      · cases h
      · injection h with h; injection h with h _; subst h; rfl
    · cases h
  · cases h
  · next he =>
    rw [he]
    split at h
    · cases h
    · rw [Res.bind_eq_ok] at h
      obtain ⟨⟨ps, r'⟩, _, h2⟩ := h
      injection h2 with h2; injection h2 with h2 _; subst h2; rfl
  · next he =>
    rw [he]
    split at h
    · cases h
    · split at h
      · cases h
      · rw [Res.bind_eq_ok] at h
        obtain ⟨⟨ps, r'⟩, _, h2⟩ := h
        injection h2 with h2; injection h2 with h2 _; subst h2; rfl
  · next he =>
    rw [he]
    split at h
    · cases h
    · split at h
      · cases h
      · split at h
        · injection h with h; injection h with h _; subst h; rfl
        · rw [Res.bind_eq_ok] at h
          obtain ⟨⟨ps, r'⟩, _, h2⟩ := h
          injection h2 with h2; injection h2 with h2 _; subst h2; rfl

/-- Marker 9 (object end) is never a value of its own: `objectEOF.UnmarshalBinary` wants `00 00 09`. -/
theorem decodeVal_objectEnd (tl : Bytes) (fuel : Nat) : decodeVal (fuel+1) (9 :: tl) = .err .generic := by
  simp only [decodeVal, UInt8.reduceToNat, disc9, eofDec]
  split
  · next a b c q he =>
    injection he with h1 _
    subst h1
    simp
  · rfl

/-- Inside an object-like container a property whose value fails to decode fails the container. -/
theorem decodeProps_child_err {k : Bytes} (hk : k.length ≤ 65535) {m : UInt8} {tl : Bytes} {fuel : Nat}
    (hne : ¬ (k.length = 0 ∧ Gen.Amf0.discovery m.toNat = .objectEOF))
    (hv : decodeVal fuel (m :: tl) = .err .generic) :
    decodeProps (fuel+1) (utf8Enc k ++ m :: tl) = .err .generic := by
  simp only [decodeProps, utf8Dec_enc hk, Res.bind_ok, hne, if_false, hv, Res.bind_err]

/-- A marker `Discovery` rejects, or a stray object-end marker, is an error as a value. -/
theorem decodeVal_bad_marker {m : UInt8} (h : m = 9 ∨ Gen.Amf0.discovery m.toNat = .rejected) (tl : Bytes) (fuel : Nat) :
    decodeVal (fuel+1) (m :: tl) = .err .generic := by
  rcases h with h | h
  · subst h; exact decodeVal_objectEnd tl fuel
  · exact decodeVal_rejected h tl fuel

end Oryx.Amf0
