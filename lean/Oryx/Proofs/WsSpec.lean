/-
  Facts about the spec itself (`Oryx.Spec.Ws`): the §5.2 parser inverts the serialiser on well-formed
  frames. Used by C13 (`writer_wellformed`: the writer's wire parses back to the frames it emitted).
-/
import Oryx.Spec.Ws
namespace Oryx.Spec.Ws
open Oryx

theorem xorMask_involution (key : Bytes) (pos : Nat) (bs : Bytes) : xorMask key pos (xorMask key pos bs) = bs := by
  induction bs generalizing pos with
  | nil => rfl
  | cons b bs ih =>
    simp only [xorMask, ih]
    rw [UInt8.xor_assoc, UInt8.xor_self, UInt8.xor_zero]

theorem xorMask_length (key : Bytes) (pos : Nat) (bs : Bytes) : (xorMask key pos bs).length = bs.length := by
  induction bs generalizing pos with
  | nil => rfl
  | cons b bs ih => simp [xorMask, ih]

theorem len7_lt (f : Frame) (h : f.WF) : len7 f < 128 := by
  obtain ⟨_, hf, h0, _, _, _, _⟩ := h
  have hc : f.lenForm = 0 ∨ f.lenForm = 1 ∨ f.lenForm = 2 := by omega
  rcases hc with hc | hc | hc
  · have := h0 hc; simp [len7, hc]; omega
  · simp [len7, hc]
  · simp [len7, hc]

theorem byte0_fields (f : Frame) (h : f.opcode < 16) :
    decide ((byte0 f).toNat / 128 = 1) = f.fin ∧ decide ((byte0 f).toNat / 64 % 2 = 1) = f.rsv1 ∧
    decide ((byte0 f).toNat / 32 % 2 = 1) = f.rsv2 ∧ decide ((byte0 f).toNat / 16 % 2 = 1) = f.rsv3 ∧
    (byte0 f).toNat % 16 = f.opcode := by
  have key : ∀ (a b c d : Bool) (o : Fin 16),
      let n := (UInt8.ofNat (128 * b2n a + 64 * b2n b + 32 * b2n c + 16 * b2n d + o.val)).toNat
      decide (n / 128 = 1) = a ∧ decide (n / 64 % 2 = 1) = b ∧ decide (n / 32 % 2 = 1) = c ∧
      decide (n / 16 % 2 = 1) = d ∧ n % 16 = o.val := by decide
  exact key f.fin f.rsv1 f.rsv2 f.rsv3 ⟨f.opcode, h⟩

theorem byte1_fields (f : Frame) (h : len7 f < 128) :
    (byte1 f).toNat % 128 = len7 f ∧ decide ((byte1 f).toNat / 128 = 1) = f.masked := by
  have key : ∀ (m : Bool) (l : Fin 128),
      let n := (UInt8.ofNat (128 * b2n m + l.val)).toNat
      n % 128 = l.val ∧ decide (n / 128 = 1) = m := by decide
  exact key f.masked ⟨len7 f, h⟩

/-- §5.2 round trip: parsing the wire image of a well-formed frame gives the frame back and leaves the
rest of the octets. -/
theorem parseFrame_serialise (f : Frame) (rest : Bytes) (h : f.WF) :
    parseFrame (serialise f ++ rest) = .ok (f, rest) := by
  have h7 := len7_lt f h
  obtain ⟨hop, hform, h0, h1, h2, hkey, hpl⟩ := h
  obtain ⟨a1, a2, a3, a4, a5⟩ := byte0_fields f hop
  obtain ⟨b1, b2⟩ := byte1_fields f h7
  have hser : serialise f ++ rest =
      byte0 f :: byte1 f :: (extLen f ++ ((if f.masked then f.key else []) ++ (wirePayload f ++ rest))) := by
    simp [serialise, List.append_assoc]
  rw [hser]
  simp only [parseFrame, a1, a2, a3, a4, a5, b1, b2]
  have hwl : (wirePayload f).length = f.len := by
    unfold wirePayload; split <;> simp [xorMask_length, hpl]
  have hkl : (if f.masked then f.key else ([] : Bytes)).length = if f.masked then 4 else 0 := by
    cases hm : f.masked <;> simp [hm] at hkey ⊢ <;> simp [hkey]
  have hcases : f.lenForm = 0 ∨ f.lenForm = 1 ∨ f.lenForm = 2 := by omega
  -- length form
  have hform' : (if len7 f = 126 then 1 else if len7 f = 127 then 2 else 0) = f.lenForm := by
    rcases hcases with hc | hc | hc
    · have := h0 hc
      have h126 : f.len ≠ 126 := by omega
      have h127 : f.len ≠ 127 := by omega
      simp [len7, hc, h126, h127]
    · simp [len7, hc]
    · simp [len7, hc]
  rw [hform']
  have hextlen : (extLen f).length = if f.lenForm = 1 then 2 else if f.lenForm = 2 then 8 else 0 := by
    rcases hcases with hc | hc | hc <;> simp [extLen, hc]
  have htake1 : (extLen f ++ ((if f.masked then f.key else []) ++ (wirePayload f ++ rest))).take
      (if f.lenForm = 1 then 2 else if f.lenForm = 2 then 8 else 0) = extLen f := take_append_len _ _ hextlen
  have hdrop1 : (extLen f ++ ((if f.masked then f.key else []) ++ (wirePayload f ++ rest))).drop
      (if f.lenForm = 1 then 2 else if f.lenForm = 2 then 8 else 0) =
      (if f.masked then f.key else []) ++ (wirePayload f ++ rest) := drop_append_len _ _ hextlen
  have hlenval : (if f.lenForm = 0 then len7 f else ofBE (extLen f)) = f.len := by
    rcases hcases with hc | hc | hc
    · simp [len7, hc]
    · have := h1 hc; simp [extLen, hc]; exact ofBE_be_of_lt (by omega)
    · have := h2 hc; simp [extLen, hc]; exact ofBE_be_of_lt (by omega)
  simp only [htake1, hdrop1, hextlen, Nat.lt_irrefl, if_false, hlenval]
  have htake2 : ((if f.masked then f.key else []) ++ (wirePayload f ++ rest)).take (if f.masked then 4 else 0) =
      (if f.masked then f.key else []) := take_append_len _ _ hkl
  have hdrop2 : ((if f.masked then f.key else []) ++ (wirePayload f ++ rest)).drop (if f.masked then 4 else 0) =
      wirePayload f ++ rest := drop_append_len _ _ hkl
  have hmP : ((byte1 f).toNat / 128 = 1) = (f.masked = true) := by
    apply propext
    rw [← b2]; simp
  simp only [hmP, htake2, hdrop2, hkl, Nat.lt_irrefl, if_false]
  have htake3 : (wirePayload f ++ rest).take f.len = wirePayload f := take_append_len _ _ hwl
  have hdrop3 : (wirePayload f ++ rest).drop f.len = rest := drop_append_len _ _ hwl
  simp only [htake3, hdrop3, hwl, Nat.lt_irrefl, if_false]
  have hkeyEq : (if f.masked then f.key else ([] : Bytes)) = f.key := by
    cases hm : f.masked <;> simp [hm] at hkey ⊢ <;> simp [hkey]
  have hpay : (if f.masked then xorMask (if f.masked then f.key else []) 0 (wirePayload f) else wirePayload f) = f.payload := by
    cases hm : f.masked <;> simp [wirePayload, hm, xorMask_involution]
  rw [hpay, hkeyEq]

/-- … and a whole sequence of frames. -/
theorem parseAllF_serialiseAll (fs : List Frame) (h : ∀ f ∈ fs, f.WF) (fuel : Nat) (hf : fs.length ≤ fuel) :
    parseAllF fuel (serialiseAll fs) = .ok fs := by
  induction fs generalizing fuel with
  | nil => cases fuel <;> simp [serialiseAll, parseAllF]
  | cons f fs ih =>
    obtain ⟨n, rfl⟩ : ∃ n, fuel = n + 1 := ⟨fuel - 1, by simp at hf; omega⟩
    have hwf := h f (by simp)
    have hne : serialise f ++ serialiseAll fs ≠ [] := by simp [serialise]
    simp only [serialiseAll]
    cases hs : serialise f ++ serialiseAll fs with
    | nil => exact absurd hs hne
    | cons b bs =>
      rw [parseAllF]
      · rw [← hs, parseFrame_serialise f _ hwf]
        simp only
        rw [ih (fun g hg => h g (by simp [hg])) n (by simp at hf; omega)]
      · intro hh; cases hh

theorem serialiseAll_length (fs : List Frame) : fs.length ≤ (serialiseAll fs).length := by
  induction fs with
  | nil => simp [serialiseAll]
  | cons f fs ih => simp [serialiseAll, serialise]; omega

theorem parseAll_serialiseAll (fs : List Frame) (h : ∀ f ∈ fs, f.WF) : parseAll (serialiseAll fs) = .ok fs :=
  parseAllF_serialiseAll fs h _ (serialiseAll_length fs)

end Oryx.Spec.Ws
