/-
  Helper lemmas for C13 (writer model `Oryx.WsWrite`): masking, truncWriter, the frame `flushFrame`
  puts on the wire is `Spec.Ws.serialise` of the expected frame, control frames.
-/
import Oryx.Model.WsWrite
import Oryx.Model.WsRead
import Oryx.Spec.Ws
import Oryx.Proofs.WsSpec
namespace Oryx.WsWrite
open Oryx Oryx.Gen.Websocket Oryx.Spec.Ws

/-! ### masking -/

theorem maskBytes_eq_spec (key : Bytes) (pos : Nat) (bs : Bytes) :
    maskBytes key pos bs = Spec.Ws.xorMask key pos bs := by
  induction bs generalizing pos with
  | nil => rfl
  | cons b bs ih => simp [maskBytes, Spec.Ws.xorMask, ih]

theorem maskBytes_eq_read (key : Bytes) (pos : Nat) (bs : Bytes) :
    maskBytes key pos bs = WsRead.maskBytes key pos bs := by
  induction bs generalizing pos with
  | nil => rfl
  | cons b bs ih => simp [maskBytes, WsRead.maskBytes, ih]

theorem xor_xor_cancel (a k : UInt8) : (a ^^^ k) ^^^ k = a := by
  rw [UInt8.xor_assoc, UInt8.xor_self, UInt8.xor_zero]

theorem maskBytes_involution (key : Bytes) (pos : Nat) (bs : Bytes) :
    maskBytes key pos (maskBytes key pos bs) = bs := by
  induction bs generalizing pos with
  | nil => rfl
  | cons b bs ih => simp [maskBytes, ih, xor_xor_cancel]

theorem maskBytes_length (key : Bytes) (pos : Nat) (bs : Bytes) : (maskBytes key pos bs).length = bs.length := by
  induction bs generalizing pos with
  | nil => rfl
  | cons b bs ih => simp [maskBytes, ih]

/-- Masking a payload in two pieces (the reader unmasks chunk by chunk with a running position). -/
theorem maskBytes_append (key : Bytes) (pos : Nat) (a b : Bytes) :
    maskBytes key pos (a ++ b) = maskBytes key pos a ++ maskBytes key (pos + a.length) b := by
  induction a generalizing pos with
  | nil => simp [maskBytes]
  | cons x xs ih =>
    simp only [List.cons_append, maskBytes, ih, List.length_cons]
    congr 3; omega

/-! ### truncWriter -/

theorem truncWrite_spec (held p : Bytes) (h : held.length ≤ 4) :
    held ++ p = (truncWrite held p).2.flatten ++ (truncWrite held p).1 ∧
    (truncWrite held p).1.length = min 4 (held.length + p.length) := by
  unfold truncWrite
  simp only
  split
  · rename_i hemp
    have hle : p.length ≤ 4 - held.length := by
      simp only [List.isEmpty_iff, List.drop_eq_nil_iff] at hemp; omega
    have : p.take (min (4 - held.length) p.length) = p := by
      rw [List.take_of_length_le]; omega
    simp [this]; omega
  · rename_i hne
    have hgt : 4 - held.length < p.length := by
      simp only [List.isEmpty_iff, List.drop_eq_nil_iff] at hne; omega
    have hfill : min (4 - held.length) p.length = 4 - held.length := by omega
    rw [hfill]
    generalize hH : held ++ p.take (4 - held.length) = H
    generalize hP : p.drop (4 - held.length) = P
    have hHP : held ++ p = H ++ P := by
      rw [← hH, ← hP, List.append_assoc, List.take_append_drop]
    have h1len : H.length = 4 := by
      rw [← hH]; simp [List.length_take]; omega
    have hPlen : P.length = p.length - (4 - held.length) := by rw [← hP]; simp
    rw [hHP]
    by_cases h4 : 4 ≤ P.length
    · have hm : min P.length 4 = 4 := by omega
      rw [hm]
      have e1 : H.take 4 = H := List.take_of_length_le (by omega)
      have e2 : H.drop 4 = [] := List.drop_eq_nil_iff.mpr (by omega)
      refine ⟨?_, ?_⟩
      · simp [e1, e2]
      · simp [e2, List.length_drop]; omega
    · have hm : min P.length 4 = P.length := by omega
      rw [hm]
      refine ⟨?_, ?_⟩
      · simp only [Nat.sub_self, List.take_zero, List.drop_zero, List.flatten_cons, List.flatten_nil,
          List.append_nil]
        rw [← List.append_assoc, List.take_append_drop]
      · simp [List.length_drop]; omega

theorem truncWrite_len (held p : Bytes) (h : held.length ≤ 4) : (truncWrite held p).1.length ≤ 4 := by
  rw [(truncWrite_spec held p h).2]; omega

theorem truncRun_spec (parts : List Bytes) (held down : Bytes) (h : held.length ≤ 4) :
    (truncRun held down parts).2 ++ (truncRun held down parts).1 = down ++ held ++ parts.flatten ∧
    (truncRun held down parts).1.length = min 4 (held.length + parts.flatten.length) := by
  induction parts generalizing held down with
  | nil => simp [truncRun]; omega
  | cons p ps ih =>
    obtain ⟨e1, e2⟩ := truncWrite_spec held p h
    obtain ⟨i1, i2⟩ := ih (truncWrite held p).1 (down ++ (truncWrite held p).2.flatten) (truncWrite_len held p h)
    simp only [truncRun]
    refine ⟨?_, ?_⟩
    · rw [i1]
      simp only [List.flatten_cons, List.append_assoc]
      rw [← List.append_assoc (truncWrite held p).2.flatten, ← e1]
      simp
    · rw [i2, e2]; simp only [List.flatten_cons, List.length_append]; omega

/-! ### the frame `flushFrame` emits is the spec's wire image -/

def formOf (n : Nat) : Nat := if n ≥ 65536 then 2 else if n > 125 then 1 else 0

/-- The frame a flush is expected to put on the wire. -/
def outFrame (isServer : Bool) (key : Bytes) (ft : Nat) (final compress : Bool) (payload : Bytes) : Frame :=
  { fin := final, rsv1 := compress, rsv2 := false, rsv3 := false, opcode := ft, masked := !isServer,
    key := if isServer then [] else key, lenForm := formOf payload.length, len := payload.length,
    payload := payload }

theorem b0_eq (ft : Nat) (h : ft < 16) (fin c : Bool) :
    (UInt8.ofNat ft ||| (if fin then UInt8.ofNat finalBit else 0) ||| (if c then UInt8.ofNat rsv1Bit else 0)) =
      UInt8.ofNat (128 * b2n fin + 64 * b2n c + 32 * b2n false + 16 * b2n false + ft) := by
  have key : ∀ (i : Fin 16) (a b : Bool),
      (UInt8.ofNat i.val ||| (if a then UInt8.ofNat finalBit else 0) ||| (if b then UInt8.ofNat rsv1Bit else 0)) =
        UInt8.ofNat (128 * b2n a + 64 * b2n b + 32 * b2n false + 16 * b2n false + i.val) := by decide
  exact key ⟨ft, h⟩ fin c

theorem b1_small (n : Nat) (h : n ≤ 125) (m : Bool) :
    ((if m then UInt8.ofNat maskBit else 0) ||| UInt8.ofNat n) = UInt8.ofNat (128 * b2n m + n) := by
  have key : ∀ (i : Fin 126) (a : Bool),
      ((if a then UInt8.ofNat maskBit else 0) ||| UInt8.ofNat i.val) = UInt8.ofNat (128 * b2n a + i.val) := by decide
  exact key ⟨n, by omega⟩ m

theorem b1_126 (m : Bool) : ((if m then UInt8.ofNat maskBit else 0) ||| 126) = UInt8.ofNat (128 * b2n m + 126) := by
  cases m <;> decide
theorem b1_127 (m : Bool) : ((if m then UInt8.ofNat maskBit else 0) ||| 127) = UInt8.ofNat (128 * b2n m + 127) := by
  cases m <;> decide

/-- Header bytes = the spec's first two octets + extended length, for the minimal length form. -/
theorem frameHeader_eq (f : Frame) (ft : Nat) (hft : ft < 16) (fin c m : Bool) (n : Nat)
    (hf : f.fin = fin ∧ f.rsv1 = c ∧ f.rsv2 = false ∧ f.rsv3 = false ∧ f.opcode = ft ∧ f.masked = m ∧
          f.lenForm = formOf n ∧ f.len = n) :
    frameHeader (UInt8.ofNat ft ||| (if fin then UInt8.ofNat finalBit else 0) ||| (if c then UInt8.ofNat rsv1Bit else 0))
        (if m then UInt8.ofNat maskBit else 0) n
      = byte0 f :: byte1 f :: extLen f := by
  obtain ⟨h1, h2, h3, h4, h5, h6, h7, h8⟩ := hf
  have hb0 : byte0 f = UInt8.ofNat (128 * b2n fin + 64 * b2n c + 32 * b2n false + 16 * b2n false + ft) := by
    unfold byte0; rw [h1, h2, h3, h4, h5]
  rw [b0_eq ft hft fin c, ← hb0]
  unfold frameHeader byte1 len7 extLen formOf at *
  by_cases hbig : n ≥ 65536
  · simp only [hbig, if_true] at h7 ⊢
    rw [h7, h6, h8, b1_127]; rfl
  · by_cases hmid : n > 125
    · simp only [hbig, hmid, if_true, if_false] at h7 ⊢
      rw [h7, h6, h8, b1_126]; rfl
    · simp only [hbig, hmid, if_false] at h7 ⊢
      rw [h7, h6, h8, b1_small n (by omega)]; rfl

/-- The connection after a successful `Conn.write` of one frame. -/
def afterWrite (c : WConn) (ft : Nat) (bytes : Bytes) : WConn :=
  { c with sent := bytes :: c.sent, writeErr := if ft == CloseMessage then some .closeSent else none }

theorem connWrite_ok (c : WConn) (ft : Nat) (bs : Bytes) (h : c.writeErr = none) :
    connWrite c ft bs = (afterWrite c ft bs, none) := by
  unfold connWrite afterWrite
  rw [h]; simp only
  split <;> simp_all

/-- Server: a flush that passes the control-frame check and finds no latched error writes exactly
the spec's wire image of the expected frame (unmasked, minimal length form). -/
theorem flushFrame_server (c : WConn) (w : MW) (final : Bool) (extra : Bytes)
    (hs : c.isServer = true) (he : c.writeErr = none) (hft : w.frameType < 16)
    (hctl : (isControl w.frameType && (!final || w.buf.length + extra.length > maxControlFramePayloadSize)) = false) :
    flushFrame c w final extra =
      (let c' := afterWrite c w.frameType (serialise (outFrame true [] w.frameType final w.compress (w.buf ++ extra)))
       if final then { c' with writer := none } else c',
       if final then { w with compress := false }
       else { w with compress := false, buf := [], frameType := continuationFrame },
       none) := by
  unfold flushFrame
  simp only [hctl, hs, if_true, Bool.false_eq_true, if_false]
  have hhdr := frameHeader_eq (outFrame true [] w.frameType final w.compress (w.buf ++ extra)) w.frameType hft
    final w.compress false (w.buf.length + extra.length)
    ⟨rfl, rfl, rfl, rfl, rfl, rfl, by simp [outFrame], by simp [outFrame]⟩
  simp only [Bool.false_eq_true, if_false] at hhdr
  have hser : frameHeader (UInt8.ofNat w.frameType ||| (if final then UInt8.ofNat finalBit else 0) |||
        (if w.compress then UInt8.ofNat rsv1Bit else 0)) 0 (w.buf.length + extra.length) ++ w.buf ++ extra =
      serialise (outFrame true [] w.frameType final w.compress (w.buf ++ extra)) := by
    rw [hhdr]
    simp [serialise, wirePayload, outFrame]
  rw [hser, connWrite_ok _ _ _ he]
  cases final <;> simp

/-- Client: same, masked with the next key; `extra` is never used in client mode. -/
theorem flushFrame_client (c : WConn) (w : MW) (final : Bool)
    (hs : c.isServer = false) (he : c.writeErr = none) (hft : w.frameType < 16)
    (hctl : (isControl w.frameType && (!final || w.buf.length > maxControlFramePayloadSize)) = false) :
    flushFrame c w final [] =
      (let key := (nextKey c).1
       let c' := afterWrite (nextKey c).2 w.frameType (serialise (outFrame false key w.frameType final w.compress w.buf))
       if final then { c' with writer := none } else c',
       if final then { w with compress := false, buf := maskBytes (nextKey c).1 0 w.buf }
       else { w with compress := false, buf := [], frameType := continuationFrame },
       none) := by
  unfold flushFrame
  simp only [List.length_nil, Nat.add_zero]
  simp only [hctl, hs, Bool.false_eq_true, if_false, Nat.lt_irrefl]
  have hk : (nextKey c).2.writeErr = none := by
    unfold nextKey; split <;> simp [he]
  have hhdr := frameHeader_eq (outFrame false (nextKey c).1 w.frameType final w.compress w.buf) w.frameType hft
    final w.compress true w.buf.length
    ⟨rfl, rfl, rfl, rfl, rfl, rfl, by simp [outFrame], by simp [outFrame]⟩
  simp only [if_true] at hhdr
  have hser : frameHeader (UInt8.ofNat w.frameType ||| (if final then UInt8.ofNat finalBit else 0) |||
        (if w.compress then UInt8.ofNat rsv1Bit else 0)) (UInt8.ofNat maskBit) w.buf.length ++ (nextKey c).1 ++
        maskBytes (nextKey c).1 0 w.buf =
      serialise (outFrame false (nextKey c).1 w.frameType final w.compress w.buf) := by
    rw [hhdr]
    simp [serialise, wirePayload, outFrame, maskBytes_eq_spec]
  rw [hser, connWrite_ok _ _ _ hk]
  cases final <;> simp

/-- **control_frames** (`WriteControl`): a control message of at most 125 bytes goes out as exactly
one frame — FIN set, no RSV bit, 7-bit length, masked iff the sender is the client — in a single
transport write; a longer one is refused and nothing is written. -/
theorem writeControl_frame (c : WConn) (ty : Nat) (data : Bytes)
    (hty : isControl ty = true) (hlen : data.length ≤ 125) (he : c.writeErr = none) :
    writeControl c ty data =
      (afterWrite (if c.isServer then c else (nextKey c).2) ty
         (serialise (outFrame c.isServer (nextKey c).1 ty true false data)), none) := by
  have hft : ty < 16 := by
    simp only [isControl, CloseMessage, PingMessage, PongMessage, Bool.or_eq_true, beq_iff_eq] at hty; omega
  have hnot : ¬ data.length > maxControlFramePayloadSize := by simp [maxControlFramePayloadSize]; omega
  unfold writeControl
  simp only [hty, Bool.not_true, Bool.false_eq_true, if_false, hnot]
  have hb0 := b0_eq ty hft true false
  simp only [if_true, Bool.false_eq_true, if_false, UInt8.or_zero] at hb0
  cases hsrv : c.isServer
  · -- client
    simp only [Bool.false_eq_true, if_false]
    have hk : (nextKey c).2.writeErr = none := by unfold nextKey; split <;> simp [he]
    have hb1 := b1_small data.length (by omega) true
    simp only [if_true] at hb1
    rw [UInt8.or_comm] at hb1
    rw [hb0, hb1, connWrite_ok _ _ _ hk]
    simp [serialise, outFrame, byte0, byte1, len7, extLen, formOf, wirePayload, maskBytes_eq_spec, b2n,
      show ¬ data.length ≥ 65536 by omega, show ¬ data.length > 125 by omega]
  · simp only [if_true]
    have hb1 := b1_small data.length (by omega) false
    simp only [Bool.false_eq_true, if_false, UInt8.zero_or] at hb1
    rw [hb0, hb1, connWrite_ok _ _ _ he]
    simp [serialise, outFrame, byte0, byte1, len7, extLen, formOf, wirePayload, b2n,
      show ¬ data.length ≥ 65536 by omega, show ¬ data.length > 125 by omega]

theorem writeControl_too_long (c : WConn) (ty : Nat) (data : Bytes) (hlen : 125 < data.length) :
    (writeControl c ty data).1 = c ∧ (writeControl c ty data).2 ≠ none := by
  unfold writeControl
  split
  · simp
  · have : data.length > maxControlFramePayloadSize := by simp [maxControlFramePayloadSize]; omega
    simp [this]

/-- After a Close frame has gone out every control write fails with ErrCloseSent and writes nothing. -/
theorem writeControl_after_close (c : WConn) (ty : Nat) (data : Bytes) (e : WErr) (he : c.writeErr = some e)
    (hty : isControl ty = true) (hlen : data.length ≤ 125) :
    (writeControl c ty data).1.sent = c.sent ∧ (writeControl c ty data).2 = some e := by
  have hnot : ¬ data.length > maxControlFramePayloadSize := by simp [maxControlFramePayloadSize]; omega
  unfold writeControl
  simp only [hty, Bool.not_true, Bool.false_eq_true, if_false, hnot]
  have hk : (nextKey c).2.writeErr = some e ∧ (nextKey c).2.sent = c.sent := by unfold nextKey; split <;> simp [he]
  cases c.isServer <;> simp [connWrite, he, hk]

/-! ### the message writer: frames emitted for one data message -/

/-- `f` is a frame the writer of role `isServer` emits with these header bits (some key, some payload). -/
def IsOut (isServer : Bool) (op : Nat) (r1 fin : Bool) (f : Frame) : Prop :=
  ∃ key payload, f = outFrame isServer key op fin r1 payload ∧ (isServer = false → key.length = 4)

/-- State of a data message in progress: `emitted` = the non-final frames written so far, `written` =
everything the application has handed over so far. -/
structure InMsg (c0 : WConn) (ty : Nat) (cz : Bool) (c : WConn) (w : MW) (emitted : List Frame) (written : Bytes) : Prop where
  srv : c.isServer = c0.isServer
  bsz : c.bufSize = c0.bufSize
  bpos : 1 ≤ c.bufSize
  noErr : c.writeErr = none
  wErr : w.err = none
  sent : c.sent = (emitted.map serialise).reverse ++ c0.sent
  ft : w.frameType = if emitted.isEmpty then ty else continuationFrame
  cmp : w.compress = (emitted.isEmpty && cz)
  pay : (emitted.map (·.payload)).flatten ++ w.buf = written
  blen : w.buf.length ≤ c.bufSize
  keys : ∀ k ∈ c.keys, k.length = 4
  shape : ∀ (i : Nat) (f : Frame), emitted[i]? = some f →
    IsOut c0.isServer (if i = 0 then ty else continuationFrame) (i == 0 && cz) false f
  tyData : ty = TextMessage ∨ ty = BinaryMessage
  dfl : c.deflate = c0.deflate

theorem nextKey_len (c : WConn) (h : ∀ k ∈ c.keys, k.length = 4) : (nextKey c).1.length = 4 := by
  unfold nextKey; split
  · rfl
  · rename_i k ks hk; exact h k (by rw [hk]; simp)

theorem nextKey_keys (c : WConn) (h : ∀ k ∈ c.keys, k.length = 4) : ∀ k ∈ (nextKey c).2.keys, k.length = 4 := by
  unfold nextKey; split
  · exact h
  · rename_i k ks hk; intro x hx; exact h x (by rw [hk]; simp [hx])

theorem nextKey_fields (c : WConn) :
    (nextKey c).2.isServer = c.isServer ∧ (nextKey c).2.bufSize = c.bufSize ∧ (nextKey c).2.writeErr = c.writeErr ∧
    (nextKey c).2.sent = c.sent ∧ (nextKey c).2.writer = c.writer ∧ (nextKey c).2.deflate = c.deflate := by
  unfold nextKey; split <;> exact ⟨rfl, rfl, rfl, rfl, rfl, rfl⟩

theorem ft_lt16 {ty : Nat} (h : ty = TextMessage ∨ ty = BinaryMessage) (e : Bool) :
    (if e then ty else continuationFrame) < 16 := by
  rcases h with h | h <;> cases e <;> simp [h, TextMessage, BinaryMessage, continuationFrame]

theorem ft_notControl {ty : Nat} (h : ty = TextMessage ∨ ty = BinaryMessage) (e : Bool) :
    isControl (if e then ty else continuationFrame) = false := by
  rcases h with h | h <;> cases e <;>
    simp [h, isControl, TextMessage, BinaryMessage, continuationFrame, CloseMessage, PingMessage, PongMessage]

/-- One non-final flush inside a data message: exactly one more frame, carrying the buffered bytes
followed by `extra`; the buffer is empty afterwards. -/
theorem flush_step {c0 c : WConn} {ty : Nat} {cz : Bool} {w : MW} {emitted : List Frame} {written : Bytes}
    (inv : InMsg c0 ty cz c w emitted written) (extra : Bytes) (hx : c.isServer = false → extra = []) :
    ∃ c' w' f, flushFrame c w false extra = (c', w', none) ∧ f.payload = w.buf ++ extra ∧
      InMsg c0 ty cz c' w' (emitted ++ [f]) (written ++ extra) ∧ w'.buf = [] ∧ c'.writer = c.writer := by
  have hft16 : w.frameType < 16 := by rw [inv.ft]; exact ft_lt16 inv.tyData _
  have hnc : isControl w.frameType = false := by rw [inv.ft]; exact ft_notControl inv.tyData _
  have hctl : (isControl w.frameType && (!false || w.buf.length + extra.length > maxControlFramePayloadSize)) = false := by
    simp [hnc]
  have hshape_new : ∀ (key : Bytes), (c0.isServer = false → key.length = 4) →
      IsOut c0.isServer (if emitted.length = 0 then ty else continuationFrame) (emitted.length == 0 && cz) false
        (outFrame c0.isServer key w.frameType false w.compress (w.buf ++ extra)) := by
    intro key hk
    refine ⟨key, w.buf ++ extra, ?_, hk⟩
    rw [inv.ft, inv.cmp]
    cases emitted <;> simp
  cases hs : c.isServer
  · -- client
    have hx' := hx hs; subst hx'
    have hk4 := nextKey_len c inv.keys
    obtain ⟨k1, k2, k3, k4, k5, _⟩ := nextKey_fields c
    rw [flushFrame_client c w false hs inv.noErr hft16 (by simpa using hctl)]
    simp only [Bool.false_eq_true, if_false]
    have hs0 : c0.isServer = false := by rw [← inv.srv, hs]
    refine ⟨_, _, outFrame false (nextKey c).1 w.frameType false w.compress w.buf, rfl, by simp [outFrame], ?_, rfl, ?_⟩
    · refine ⟨?_, ?_, ?_, ?_, inv.wErr, ?_, ?_, ?_, ?_, by simp, ?_, ?_, inv.tyData, (nextKey_fields c).2.2.2.2.2.trans inv.dfl⟩
      · show (nextKey c).2.isServer = _; rw [k1, inv.srv]
      · show (nextKey c).2.bufSize = _; rw [k2, inv.bsz]
      · show 1 ≤ (nextKey c).2.bufSize; rw [k2]; exact inv.bpos
      · show (if w.frameType == CloseMessage then some WErr.closeSent else none) = none
        have : (w.frameType == CloseMessage) = false := by
          rw [inv.ft]; rcases inv.tyData with h | h <;> cases emitted <;> simp [h, TextMessage, BinaryMessage, continuationFrame, CloseMessage]
        simp [this]
      · show _ :: (nextKey c).2.sent = _
        rw [k4, inv.sent]; simp
      · simp [continuationFrame]
      · simp
      · simp [outFrame]; rw [← inv.pay]
      · exact nextKey_keys c inv.keys
      · intro i f hf
        by_cases hi : i < emitted.length
        · rw [List.getElem?_append_left hi] at hf; exact inv.shape i f hf
        · have hi' : i = emitted.length := by
            have := List.getElem?_eq_some_iff.mp hf
            obtain ⟨hlt, _⟩ := this
            simp at hlt; omega
          subst hi'
          simp at hf; subst hf
          have := hshape_new (nextKey c).1 (fun _ => hk4)
          rw [hs0] at this
          simpa [hs0] using this
    · show (nextKey c).2.writer = _; exact k5
  · -- server
    rw [flushFrame_server c w false extra hs inv.noErr hft16 hctl]
    simp only [Bool.false_eq_true, if_false]
    have hs0 : c0.isServer = true := by rw [← inv.srv, hs]
    refine ⟨_, _, outFrame true [] w.frameType false w.compress (w.buf ++ extra), rfl, by simp [outFrame], ?_, rfl, rfl⟩
    refine ⟨inv.srv, inv.bsz, inv.bpos, ?_, inv.wErr, ?_, ?_, ?_, ?_, by simp, inv.keys, ?_, inv.tyData, inv.dfl⟩
    · show (if w.frameType == CloseMessage then some WErr.closeSent else none) = none
      have : (w.frameType == CloseMessage) = false := by
        rw [inv.ft]; rcases inv.tyData with h | h <;> cases emitted <;> simp [h, TextMessage, BinaryMessage, continuationFrame, CloseMessage]
      simp [this]
    · show _ :: c.sent = _
      rw [inv.sent]; simp
    · simp [continuationFrame]
    · simp
    · simp [outFrame]; rw [← inv.pay]; simp
    · intro i f hf
      by_cases hi : i < emitted.length
      · rw [List.getElem?_append_left hi] at hf; exact inv.shape i f hf
      · have hi' : i = emitted.length := by
          have := List.getElem?_eq_some_iff.mp hf
          obtain ⟨hlt, _⟩ := this
          simp at hlt; omega
        subst hi'
        simp at hf; subst hf
        have := hshape_new [] (fun h => by rw [hs0] at h; cases h)
        rw [hs0] at this
        simpa [hs0] using this

/-- copying more bytes into the buffer -/
theorem inv_append {c0 c : WConn} {ty : Nat} {cz : Bool} {w : MW} {emitted : List Frame} {written : Bytes}
    (inv : InMsg c0 ty cz c w emitted written) (x : Bytes) (hlen : w.buf.length + x.length ≤ c.bufSize) :
    InMsg c0 ty cz c { w with buf := w.buf ++ x } emitted (written ++ x) :=
  ⟨inv.srv, inv.bsz, inv.bpos, inv.noErr, inv.wErr, inv.sent, inv.ft, inv.cmp,
   by show _ ++ (w.buf ++ x) = _; rw [← List.append_assoc, inv.pay],
   by show (w.buf ++ x).length ≤ _; simp; exact hlen, inv.keys, inv.shape, inv.tyData, inv.dfl⟩

/-- **The copy loop** (`Write`/`WriteString`): never fails inside a data message, keeps the invariant,
and accounts for every byte of `p`. -/
theorem copyLoop_inv {c0 : WConn} {ty : Nat} {cz : Bool} (fuel : Nat) :
    ∀ (c : WConn) (w : MW) (emitted : List Frame) (written p : Bytes),
      InMsg c0 ty cz c w emitted written → p.length < fuel →
      ∃ c' w' emitted', copyLoop fuel c w p = (c', w', none) ∧ InMsg c0 ty cz c' w' emitted' (written ++ p) ∧
        c'.writer = c.writer := by
  induction fuel with
  | zero => intro c w emitted written p _ h; omega
  | succ n ih =>
    intro c w emitted written p inv hfuel
    cases p with
    | nil => exact ⟨c, w, emitted, by simp [copyLoop], by simpa using inv, rfl⟩
    | cons a p' =>
      by_cases hfull : c.bufSize ≤ w.buf.length
      · obtain ⟨c1, w1, f, h1, _, inv1, hb1, hw1⟩ := flush_step inv [] (fun _ => rfl)
        have hB : c1.bufSize = c.bufSize := by rw [inv1.bsz, inv.bsz]
        have hpos : 1 ≤ c1.bufSize := inv1.bpos
        have inv1' : InMsg c0 ty cz c1 w1 (emitted ++ [f]) written := by simpa using inv1
        have hlen : w1.buf.length + ((a :: p').take (c1.bufSize - w1.buf.length)).length ≤ c1.bufSize := by
          rw [hb1]; simp [List.length_take]; omega
        have inv2 := inv_append inv1' ((a :: p').take (c1.bufSize - w1.buf.length)) hlen
        have hshort : ((a :: p').drop (c1.bufSize - w1.buf.length)).length < n := by
          rw [hb1]; simp only [List.length_drop, List.length_cons, List.length_nil, Nat.sub_zero] at hfuel ⊢; omega
        obtain ⟨c', w', em', h2, inv3, hw3⟩ := ih c1 _ _ _ _ inv2 hshort
        refine ⟨c', w', em', ?_, ?_, hw3.trans hw1⟩
        · simp only [copyLoop, hfull, if_true, h1]; exact h2
        · rw [List.append_assoc, List.take_append_drop] at inv3; exact inv3
      · have hlen : w.buf.length + ((a :: p').take (c.bufSize - w.buf.length)).length ≤ c.bufSize := by
          simp [List.length_take]; omega
        have inv2 := inv_append inv ((a :: p').take (c.bufSize - w.buf.length)) hlen
        have hshort : ((a :: p').drop (c.bufSize - w.buf.length)).length < n := by
          simp only [List.length_drop, List.length_cons] at hfuel ⊢; omega
        obtain ⟨c', w', em', h2, inv3, hw3⟩ := ih c _ _ _ _ inv2 hshort
        refine ⟨c', w', em', ?_, ?_, hw3⟩
        · simp only [copyLoop, hfull, if_false]; exact h2
        · rw [List.append_assoc, List.take_append_drop] at inv3; exact inv3

/-- **`ReadFrom`**: same, for every chunking of the source. -/
theorem readFromLoop_inv {c0 : WConn} {ty : Nat} {cz : Bool} (fuel : Nat) :
    ∀ (c : WConn) (w : MW) (emitted : List Frame) (written : Bytes) (chunks : List Nat) (data : Bytes),
      InMsg c0 ty cz c w emitted written → data.length + 1 < fuel →
      ∃ c' w' emitted', readFromLoop fuel c w chunks data = (c', w', none) ∧
        InMsg c0 ty cz c' w' emitted' (written ++ data) ∧ c'.writer = c.writer := by
  induction fuel with
  | zero => intro c w emitted written chunks data _ h; omega
  | succ n ih =>
    intro c w emitted written chunks data inv hfuel
    -- the part after the optional flush
    have hstep : ∀ (c1 : WConn) (w1 : MW) (em1 : List Frame), InMsg c0 ty cz c1 w1 em1 written →
        w1.buf.length < c1.bufSize →
        ∃ c' w' emitted',
          (match data with
            | [] => (c1, w1, none)
            | _ =>
              readFromLoop n c1 { w1 with buf := w1.buf ++ data.take (match chunks with | [] => c1.bufSize - w1.buf.length | k :: _ => min (max k 1) (c1.bufSize - w1.buf.length)) }
                chunks.tail (data.drop (match chunks with | [] => c1.bufSize - w1.buf.length | k :: _ => min (max k 1) (c1.bufSize - w1.buf.length)))) = (c', w', none) ∧
          InMsg c0 ty cz c' w' emitted' (written ++ data) ∧ c'.writer = c1.writer := by
      intro c1 w1 em1 inv1 hfree
      cases hd : data with
      | nil => exact ⟨c1, w1, em1, rfl, by simpa using inv1, rfl⟩
      | cons a d' =>
        simp only
        generalize hk : (match chunks with | [] => c1.bufSize - w1.buf.length | k :: _ => min (max k 1) (c1.bufSize - w1.buf.length)) = k
        have hk1 : 1 ≤ k ∧ k ≤ c1.bufSize - w1.buf.length := by
          rw [← hk]; cases chunks <;> simp <;> omega
        have hlen : w1.buf.length + ((a :: d').take k).length ≤ c1.bufSize := by
          simp [List.length_take]; omega
        have inv2 := inv_append inv1 ((a :: d').take k) hlen
        have hshort : ((a :: d').drop k).length + 1 < n := by
          rw [hd] at hfuel
          simp only [List.length_drop, List.length_cons] at hfuel ⊢; omega
        obtain ⟨c', w', em', h2, inv3, hw3⟩ := ih c1 _ _ _ chunks.tail _ inv2 hshort
        refine ⟨c', w', em', h2, ?_, hw3⟩
        rw [List.append_assoc, List.take_append_drop] at inv3; exact inv3
    by_cases hfull : (w.buf.length == c.bufSize) = true
    · obtain ⟨c1, w1, f, h1, _, inv1, hb1, hw1⟩ := flush_step inv [] (fun _ => rfl)
      have inv1' : InMsg c0 ty cz c1 w1 (emitted ++ [f]) written := by simpa using inv1
      obtain ⟨c', w', em', h2, inv3, hw3⟩ := hstep c1 w1 _ inv1' (by rw [hb1]; exact inv1.bpos)
      refine ⟨c', w', em', ?_, inv3, hw3.trans hw1⟩
      simp only [readFromLoop, hfull, if_true, h1]
      exact h2
    · have hne : w.buf.length ≠ c.bufSize := by simpa using hfull
      have := inv.blen
      obtain ⟨c', w', em', h2, inv3, hw3⟩ := hstep c w _ inv (by omega)
      refine ⟨c', w', em', ?_, inv3, hw3⟩
      simp only [readFromLoop, hfull, Bool.false_eq_true, if_false]
      exact h2

theorem inv_writer {c0 c : WConn} {ty : Nat} {cz : Bool} {w : MW} {emitted : List Frame} {written : Bytes}
    (inv : InMsg c0 ty cz c w emitted written) (x : Option MW) :
    InMsg c0 ty cz { c with writer := x } w emitted written :=
  ⟨inv.srv, inv.bsz, inv.bpos, inv.noErr, inv.wErr, inv.sent, inv.ft, inv.cmp, inv.pay, inv.blen, inv.keys,
   inv.shape, inv.tyData, inv.dfl⟩

theorem sync_ok {c : WConn} {w : MW} : sync (c, w, none) = ({ c with writer := c.writer.map fun _ => w }, w, none) := rfl

/-- One API call on the open writer of a data message: never fails, keeps the invariant, accounts for
all of its bytes. -/
theorem mwOp_inv {c0 c : WConn} {ty : Nat} {cz : Bool} {w : MW} {emitted : List Frame} {written : Bytes}
    (inv : InMsg c0 ty cz c w emitted written) (op : WOp) :
    ∃ c' w' emitted', mwOp c w op = (c', w', none) ∧ InMsg c0 ty cz c' w' emitted' (written ++ op.data) := by
  cases op with
  | write p =>
    simp only [mwOp, mwWrite, inv.wErr, WOp.data]
    split
    · rename_i hbig
      have hsrv : c.isServer = true := by simp only [Bool.and_eq_true] at hbig; exact hbig.2
      obtain ⟨c1, w1, f, h1, _, inv1, _, _⟩ := flush_step inv p (fun h => by rw [hsrv] at h; cases h)
      rw [h1, sync_ok]
      exact ⟨_, _, _, rfl, inv_writer inv1 _⟩
    · obtain ⟨c1, w1, em1, h1, inv1, _⟩ := copyLoop_inv (p.length + 1) c w emitted written p inv (by omega)
      rw [h1, sync_ok]
      exact ⟨_, _, _, rfl, inv_writer inv1 _⟩
  | writeString p =>
    simp only [mwOp, mwWriteString, inv.wErr, WOp.data]
    obtain ⟨c1, w1, em1, h1, inv1, _⟩ := copyLoop_inv (p.length + 1) c w emitted written p inv (by omega)
    rw [h1, sync_ok]
    exact ⟨_, _, _, rfl, inv_writer inv1 _⟩
  | readFrom ks p =>
    simp only [mwOp, mwReadFrom, inv.wErr, WOp.data]
    obtain ⟨c1, w1, em1, h1, inv1, _⟩ := readFromLoop_inv (p.length + 2) c w emitted written ks p inv (by omega)
    rw [h1, sync_ok]
    exact ⟨_, _, _, rfl, inv_writer inv1 _⟩

theorem mwOps_inv {c0 : WConn} {ty : Nat} {cz : Bool} (ops : List WOp) :
    ∀ (c : WConn) (w : MW) (emitted : List Frame) (written : Bytes), InMsg c0 ty cz c w emitted written →
    ∃ c' w' emitted', mwOps c w ops = (c', w', none) ∧
      InMsg c0 ty cz c' w' emitted' (written ++ (ops.map WOp.data).flatten) := by
  induction ops with
  | nil => intro c w em wr inv; exact ⟨c, w, em, rfl, by simpa using inv⟩
  | cons op ops ih =>
    intro c w em wr inv
    obtain ⟨c1, w1, em1, h1, inv1⟩ := mwOp_inv inv op
    obtain ⟨c2, w2, em2, h2, inv2⟩ := ih c1 w1 em1 _ inv1
    refine ⟨c2, w2, em2, ?_, ?_⟩
    · simp only [mwOps, h1]; exact h2
    · simpa [List.append_assoc] using inv2

/-- The frames of one complete data message as the writer of role `isServer` emits them: at least one;
the first carries the message type (and RSV1 iff compressed), the others are continuations without
RSV1; FIN on the last and only there; mask per role; minimal length forms; no RSV2/3. -/
def MsgShape (isServer : Bool) (ty : Nat) (cz : Bool) (frames : List Frame) : Prop :=
  frames ≠ [] ∧ ∀ (i : Nat) (f : Frame), frames[i]? = some f →
    IsOut isServer (if i = 0 then ty else continuationFrame) (i == 0 && cz) (i + 1 == frames.length) f

/-- **Closing the writer** emits the final frame with whatever is still buffered. -/
theorem mwClose_inv {c0 c : WConn} {ty : Nat} {cz : Bool} {w : MW} {emitted : List Frame} {written : Bytes}
    (inv : InMsg c0 ty cz c w emitted written) :
    ∃ c' w' frames, mwClose c w = (c', w', none) ∧ c'.sent = (frames.map serialise).reverse ++ c0.sent ∧
      (frames.map (·.payload)).flatten = written ∧ MsgShape c0.isServer ty cz frames ∧
      c'.writeErr = none ∧ c'.writer = none ∧ c'.isServer = c0.isServer ∧ c'.bufSize = c0.bufSize ∧
      c'.deflate = c0.deflate ∧ (∀ k ∈ c'.keys, k.length = 4) := by
  have hft16 : w.frameType < 16 := by rw [inv.ft]; exact ft_lt16 inv.tyData _
  have hnc : isControl w.frameType = false := by rw [inv.ft]; exact ft_notControl inv.tyData _
  have hnclose : (w.frameType == CloseMessage) = false := by
    rw [inv.ft]; rcases inv.tyData with h | h <;> cases emitted <;>
      simp [h, TextMessage, BinaryMessage, continuationFrame, CloseMessage]
  have hshape : ∀ (key : Bytes), (c0.isServer = false → key.length = 4) →
      MsgShape c0.isServer ty cz (emitted ++ [outFrame c0.isServer key w.frameType true w.compress w.buf]) := by
    intro key hk
    refine ⟨by simp, fun i f hf => ?_⟩
    by_cases hi : i < emitted.length
    · rw [List.getElem?_append_left hi] at hf
      have := inv.shape i f hf
      have hne : (i + 1 == (emitted ++ [outFrame c0.isServer key w.frameType true w.compress w.buf]).length) = false := by
        simp; omega
      rw [hne]; exact this
    · have hi' : i = emitted.length := by
        obtain ⟨hlt, _⟩ := List.getElem?_eq_some_iff.mp hf
        simp at hlt; omega
      subst hi'
      simp at hf; subst hf
      refine ⟨key, w.buf, ?_, hk⟩
      rw [inv.ft, inv.cmp]
      cases emitted <;> simp
  cases hs : c.isServer
  · have hk4 := nextKey_len c inv.keys
    obtain ⟨k1, k2, k3, k4, k5, _⟩ := nextKey_fields c
    have hs0 : c0.isServer = false := by rw [← inv.srv, hs]
    have hfl := flushFrame_client c w true hs inv.noErr hft16 (by simp [hnc])
    simp only [mwClose, inv.wErr, hfl, if_true]
    obtain ⟨_, _, _, _, _, k6⟩ := nextKey_fields c
    refine ⟨_, _, emitted ++ [outFrame false (nextKey c).1 w.frameType true w.compress w.buf], rfl, ?_, ?_, ?_, ?_, rfl,
      ?_, ?_, ?_, ?_⟩
    · show _ :: (nextKey c).2.sent = _
      rw [k4, inv.sent]; simp
    · simp [outFrame]; exact inv.pay
    · have := hshape (nextKey c).1 (fun _ => hk4); rw [hs0] at this; rw [hs0]; exact this
    · show (if w.frameType == CloseMessage then some WErr.closeSent else none) = none
      simp [hnclose]
    · show (nextKey c).2.isServer = _; rw [k1, inv.srv]
    · show (nextKey c).2.bufSize = _; rw [k2, inv.bsz]
    · show (nextKey c).2.deflate = _; exact k6.trans inv.dfl
    · exact nextKey_keys c inv.keys
  · have hs0 : c0.isServer = true := by rw [← inv.srv, hs]
    have hfl := flushFrame_server c w true [] hs inv.noErr hft16 (by simp [hnc])
    simp only [mwClose, inv.wErr, hfl, if_true]
    refine ⟨_, _, emitted ++ [outFrame true [] w.frameType true w.compress (w.buf ++ [])], rfl, ?_, ?_, ?_, ?_, rfl,
      inv.srv, inv.bsz, inv.dfl, inv.keys⟩
    · show _ :: c.sent = _
      rw [inv.sent]; simp
    · simp [outFrame]; exact inv.pay
    · have := hshape [] (fun h => by rw [hs0] at h; cases h); rw [hs0] at this; rw [hs0]; simpa using this
    · show (if w.frameType == CloseMessage then some WErr.closeSent else none) = none
      simp [hnclose]

/-- The invariant holds right after `NextWriter` for a data message. -/
theorem inv_init (c : WConn) (ty : Nat) (cz : Bool) (hty : ty = TextMessage ∨ ty = BinaryMessage)
    (hB : 1 ≤ c.bufSize) (hE : c.writeErr = none) (hK : ∀ k ∈ c.keys, k.length = 4) :
    InMsg c ty cz c { compress := cz, buf := [], frameType := ty } [] [] :=
  ⟨rfl, rfl, hB, hE, rfl, by simp, by simp, by simp, by simp, by simp, hK,
   by intro i f hf; simp at hf, hty, rfl⟩

/-- **The message-writer theorem.** For every buffer size `B ≥ 1`, either role, every data message type,
compressed flag, and EVERY sequence of `Write`/`WriteString`/`ReadFrom` calls (every partition of the
payload, every source chunking): no call fails, `Close` succeeds, and what reached the transport is the
wire image of frames that (1) carry, concatenated, exactly the concatenation of the writes and (2) form
one well-shaped message. -/
theorem writer_message (c : WConn) (ty : Nat) (cz : Bool) (hty : ty = TextMessage ∨ ty = BinaryMessage)
    (hB : 1 ≤ c.bufSize) (hE : c.writeErr = none) (hK : ∀ k ∈ c.keys, k.length = 4) (ops : List WOp) :
    ∃ c1 w1 c2 w2 frames,
      mwOps c { compress := cz, buf := [], frameType := ty } ops = (c1, w1, none) ∧
      mwClose c1 w1 = (c2, w2, none) ∧
      c2.sent = (frames.map serialise).reverse ++ c.sent ∧
      (frames.map (·.payload)).flatten = (ops.map WOp.data).flatten ∧
      MsgShape c.isServer ty cz frames ∧ c2.writeErr = none ∧ c2.isServer = c.isServer ∧ c2.bufSize = c.bufSize ∧
      (∀ k ∈ c2.keys, k.length = 4) ∧ c2.writer = none ∧ c2.deflate = c.deflate := by
  obtain ⟨c1, w1, em1, h1, inv1⟩ := mwOps_inv ops c _ [] [] (inv_init c ty cz hty hB hE hK)
  obtain ⟨c2, w2, frames, h2, h3, h4, h5, h6, h7, h8, h9, h10, h11⟩ := mwClose_inv inv1
  exact ⟨c1, w1, c2, w2, frames, h1, h2, h3, by simpa using h4, h5, h6, h8, h9, h11, h7, h10⟩

def senderRole (isServer : Bool) : Role := if isServer then .server else .client

theorem formOf_minimal (n : Nat) (h : n < 2 ^ 63) (f : Frame) (hf : f.lenForm = formOf n) (hl : f.len = n) :
    minimalLen f = true := by
  unfold minimalLen formOf at *
  by_cases h1 : n ≥ 65536
  · simp only [h1, if_true] at hf; simp [hf, hl]; omega
  · by_cases h2 : n > 125
    · simp only [h1, h2, if_true, if_false] at hf; simp [hf, hl]; omega
    · simp only [h1, h2, if_false] at hf; simp [hf, hl]; omega

theorem isOut_wf {isServer : Bool} {op : Nat} {r1 fin : Bool} {f : Frame} (h : IsOut isServer op r1 fin f)
    (hop : op < 16) (hlen : f.payload.length < 2 ^ 63) : f.WF := by
  obtain ⟨key, payload, rfl, hk⟩ := h
  simp only [outFrame] at hlen
  refine ⟨hop, ?_, ?_, ?_, ?_, ?_, rfl⟩
  · simp only [outFrame, formOf]; split <;> (try split) <;> omega
  · intro h0; simp only [outFrame, formOf] at h0 ⊢; split at h0 <;> (try split at h0) <;> omega
  · intro h0; simp only [outFrame, formOf] at h0 ⊢; split at h0 <;> (try split at h0) <;> omega
  · intro _; simp only [outFrame]; omega
  · cases isServer
    · simp [outFrame, hk rfl]
    · simp [outFrame]

/-- Per-frame validity of a writer frame under the sender rules of the spec. -/
theorem isOut_frameOk {isServer : Bool} {op : Nat} {r1 fin : Bool} {f : Frame} (h : IsOut isServer op r1 fin f)
    (deflate inMsg : Bool) (hlen : f.payload.length < 2 ^ 63)
    (hr1 : r1 = true → deflate = true ∧ Spec.Ws.isDataStart op = true)
    (hop : (op = continuationFrame ∧ inMsg = true) ∨ (Spec.Ws.isDataStart op = true ∧ inMsg = false)) :
    frameOk (senderRole isServer) deflate inMsg f = true := by
  obtain ⟨key, payload, rfl, hk⟩ := h
  have hmin := formOf_minimal payload.length (by simpa [outFrame] using hlen)
    (outFrame isServer key op fin r1 payload) rfl rfl
  unfold frameOk
  simp only [outFrame] at hmin ⊢
  have hmask : ((!isServer) == (senderRole isServer == Role.client)) = true := by cases isServer <;> rfl
  rcases hop with ⟨h0, hin⟩ | ⟨hd, hin⟩
  · subst h0; subst hin
    have hr : r1 = false := by
      cases r1
      · rfl
      · have := (hr1 rfl).2; simp [Spec.Ws.isDataStart, continuationFrame] at this
    subst hr
    simp [hmask, Spec.Ws.knownOpcode, Spec.Ws.isControl, Spec.Ws.isDataStart, continuationFrame]
    exact hmin
  · subst hin
    have hk' : Spec.Ws.knownOpcode op = true := by simp [Spec.Ws.knownOpcode, hd]
    have hnc : Spec.Ws.isControl op = false := by
      simp only [Spec.Ws.isDataStart, Bool.or_eq_true, beq_iff_eq] at hd
      rcases hd with h | h <;> simp [h, Spec.Ws.isControl]
    have hn0 : (op != 0) = true := by
      simp only [Spec.Ws.isDataStart, Bool.or_eq_true, beq_iff_eq] at hd
      rcases hd with h | h <;> simp [h]
    cases r1
    · simp [hmask, hk', hnc, hn0, hd]; exact hmin
    · obtain ⟨hdf, _⟩ := hr1 rfl
      simp [hmask, hk', hnc, hn0, hd, hdf]; exact hmin

theorem serialiseAll_eq_flatten (fs : List Frame) : serialiseAll fs = (fs.map serialise).flatten := by
  induction fs with
  | nil => rfl
  | cons f fs ih => simp [serialiseAll, ih]

theorem isDataStart_ty {ty : Nat} (h : ty = TextMessage ∨ ty = BinaryMessage) : Spec.Ws.isDataStart ty = true := by
  rcases h with h | h <;> simp [h, Spec.Ws.isDataStart, TextMessage, BinaryMessage]

/-- the frames of one writer message, seen from position `k` on, satisfy the sender rules -/
theorem shape_validSeq_from {isServer : Bool} {ty : Nat} {cz : Bool} (deflate : Bool) (total : Nat)
    (hty : ty = TextMessage ∨ ty = BinaryMessage) (hdef : cz = true → deflate = true) :
    ∀ (fs : List Frame) (k : Nat), total = k + fs.length →
      (∀ (i : Nat) (f : Frame), fs[i]? = some f →
        IsOut isServer (if k + i = 0 then ty else continuationFrame) (k + i == 0 && cz) (k + i + 1 == total) f ∧
        f.payload.length < 2 ^ 63) →
      validSeq (senderRole isServer) deflate (decide (k ≠ 0)) fs = true := by
  intro fs
  induction fs with
  | nil => intro k _ _; rfl
  | cons f fs' ih =>
    intro k htot hall
    obtain ⟨hout, hlen⟩ := hall 0 f rfl
    simp only [Nat.add_zero] at hout
    have hok : frameOk (senderRole isServer) deflate (decide (k ≠ 0)) f = true := by
      refine isOut_frameOk hout deflate _ hlen ?_ ?_
      · intro hr
        simp only [Bool.and_eq_true, beq_iff_eq] at hr
        refine ⟨hdef hr.2, ?_⟩
        rw [if_pos hr.1]; exact isDataStart_ty hty
      · by_cases hk : k = 0
        · right; rw [if_pos hk]; exact ⟨isDataStart_ty hty, by simp [hk]⟩
        · left; rw [if_neg hk]; exact ⟨rfl, by simp [hk]⟩
    simp only [validSeq, hok, Bool.true_and]
    -- the frame is not a control frame: the next "in message" flag is `!fin`
    obtain ⟨key, payload, hf, _⟩ := hout
    have hnc : Spec.Ws.isControl f.opcode = false := by
      rw [hf]; simp only [outFrame]
      by_cases hk : k = 0
      · rw [if_pos hk]; rcases hty with h | h <;> simp [h, Spec.Ws.isControl, TextMessage, BinaryMessage]
      · rw [if_neg hk]; simp [Spec.Ws.isControl, continuationFrame]
    have hfin : f.fin = (k + 1 == total) := by rw [hf]; rfl
    cases fs' with
    | nil => rfl
    | cons g gs =>
      have hfin' : f.fin = false := by
        rw [hfin]; simp at htot; simp; omega
      have hnext : nextInMsg (decide (k ≠ 0)) f = decide (k + 1 ≠ 0) := by
        simp [nextInMsg, hnc, hfin']
      rw [hnext]
      refine ih (k + 1) (by simp at htot ⊢; omega) ?_
      intro i f' hf'
      have := hall (i + 1) f' (by simpa using hf')
      have e : k + (i + 1) = k + 1 + i := by omega
      rw [e] at this; exact this

theorem shape_validSeq {isServer : Bool} {ty : Nat} {cz : Bool} (deflate : Bool) (frames : List Frame)
    (hty : ty = TextMessage ∨ ty = BinaryMessage) (hdef : cz = true → deflate = true)
    (hs : MsgShape isServer ty cz frames) (hl : ∀ f ∈ frames, f.payload.length < 2 ^ 63) :
    validSeq (senderRole isServer) deflate false frames = true := by
  have := shape_validSeq_from (isServer := isServer) (ty := ty) (cz := cz) deflate frames.length hty hdef frames 0 (by simp)
    (by
      intro i f hf
      refine ⟨?_, hl f (List.mem_of_getElem? hf)⟩
      have := hs.2 i f hf
      simpa using this)
  simpa using this

theorem shape_wf {isServer : Bool} {ty : Nat} {cz : Bool} (frames : List Frame)
    (hty : ty = TextMessage ∨ ty = BinaryMessage)
    (hs : MsgShape isServer ty cz frames) (hl : ∀ f ∈ frames, f.payload.length < 2 ^ 63) :
    ∀ f ∈ frames, f.WF := by
  intro f hf
  obtain ⟨i, hi⟩ := List.getElem?_of_mem hf
  have hout := hs.2 i f hi
  refine isOut_wf hout ?_ (hl f hf)
  by_cases h0 : i = 0
  · rw [if_pos h0]; rcases hty with h | h <;> simp [h, TextMessage, BinaryMessage]
  · rw [if_neg h0]; simp [continuationFrame]

theorem payload_le_flatten (frames : List Frame) (f : Frame) (h : f ∈ frames) :
    f.payload.length ≤ (frames.map (·.payload)).flatten.length := by
  induction frames with
  | nil => cases h
  | cons g gs ih =>
    simp only [List.map_cons, List.flatten_cons, List.length_append]
    rcases List.mem_cons.mp h with rfl | h'
    · omega
    · have := ih h'; omega

theorem wire_append (c : WConn) (frames : List Frame) (sent0 : List Bytes)
    (h : c.sent = (frames.map serialise).reverse ++ sent0) :
    c.wire = sent0.reverse.flatten ++ serialiseAll frames := by
  unfold WConn.wire
  rw [h, serialiseAll_eq_flatten]
  simp

/-- **The wire of one message.** As `writer_message`, and additionally: what was appended to the wire is
the spec's wire image of the frames, and the independent parser `Spec.Ws.parse` (sender = this role)
accepts it and returns exactly those frames. `deflate` = per-message compression negotiated; a
compressed message may only be written then. The payload is shorter than 2^63 (a Go slice is). -/
theorem writer_wire (c : WConn) (ty : Nat) (cz : Bool) (hty : ty = TextMessage ∨ ty = BinaryMessage)
    (hB : 1 ≤ c.bufSize) (hE : c.writeErr = none) (hK : ∀ k ∈ c.keys, k.length = 4) (ops : List WOp)
    (deflate : Bool) (hdef : cz = true → deflate = true) (hlen : (ops.map WOp.data).flatten.length < 2 ^ 63) :
    ∃ c1 w1 c2 w2 frames,
      mwOps c { compress := cz, buf := [], frameType := ty } ops = (c1, w1, none) ∧
      mwClose c1 w1 = (c2, w2, none) ∧
      c2.wire = c.wire ++ serialiseAll frames ∧
      Spec.Ws.parse (senderRole c.isServer) deflate (serialiseAll frames) = .ok frames ∧
      (frames.map (·.payload)).flatten = (ops.map WOp.data).flatten ∧
      MsgShape c.isServer ty cz frames ∧ (∀ f ∈ frames, f.WF) ∧
      c2.writeErr = none ∧ c2.isServer = c.isServer ∧ c2.bufSize = c.bufSize ∧ (∀ k ∈ c2.keys, k.length = 4) ∧
      c2.writer = none ∧ c2.deflate = c.deflate := by
  obtain ⟨c1, w1, c2, w2, frames, h1, h2, h3, h4, h5, h6, h7, h8, h9, h10, h11⟩ := writer_message c ty cz hty hB hE hK ops
  have hl : ∀ f ∈ frames, f.payload.length < 2 ^ 63 := by
    intro f hf
    have := payload_le_flatten frames f hf
    rw [h4] at this; omega
  have hwf := shape_wf frames hty h5 hl
  have hvs := shape_validSeq deflate frames hty hdef h5 hl
  refine ⟨c1, w1, c2, w2, frames, h1, h2, wire_append c2 frames c.sent h3, ?_, h4, h5, hwf, h6, h7, h8, h9, h10, h11⟩
  unfold Spec.Ws.parse
  rw [Spec.Ws.parseAll_serialiseAll frames hwf]
  simp [hvs]

/-- The server's single-frame fast path of `WriteMessage` (no compression): one final frame carrying the
whole payload — buffer part and `extra` part — whatever the buffer size. -/
theorem writeMessage_fastpath (c : WConn) (ty : Nat) (data : Bytes) (hs : c.isServer = true) (hd : c.deflate = false)
    (hw : c.writer = none) (hE : c.writeErr = none) (hty : ty = TextMessage ∨ ty = BinaryMessage) :
    (writeMessage c ty data).2 = none ∧
    (writeMessage c ty data).1.sent = serialise (outFrame true [] ty true false data) :: c.sent := by
  have hdata : isData ty = true := by rcases hty with h | h <;> simp [h, isData, TextMessage, BinaryMessage]
  have hnc : isControl ty = false := by
    rcases hty with h | h <;> simp [h, isControl, TextMessage, BinaryMessage, CloseMessage, PingMessage, PongMessage]
  have hft : ty < 16 := by rcases hty with h | h <;> simp [h, TextMessage, BinaryMessage]
  have hprep : prepWrite c ty = (c, none) := by simp [prepWrite, hw, hnc, hdata, hE]
  have hfl := flushFrame_server c { compress := false, buf := data.take c.bufSize, frameType := ty } true
    (data.drop c.bufSize) hs hE hft (by simp [hnc])
  simp only [writeMessage, hs, hd, Bool.not_false, Bool.and_self, if_true, hprep, hfl]
  simp [afterWrite, List.take_append_drop]

end Oryx.WsWrite
