/-
  Helper lemmas for C13 (writer model `Oryx.WsWrite`): masking, truncWriter, the frame `flushFrame`
  puts on the wire is `Spec.Ws.serialise` of the expected frame, control frames.
-/
import Oryx.Model.WsWrite
import Oryx.Model.WsRead
import Oryx.Spec.Ws
namespace Oryx.WsWrite
open Oryx Oryx.Gen.Websocket Oryx.Spec.Ws

/-! ### masking -/

theorem maskBytes_eq_spec (key : Bytes) (pos : Nat) (bs : Bytes) :
    maskBytes key pos bs = Spec.Ws.xorMask key pos bs := by
  induction bs generalizing pos with
  | nil => rfl
  | cons b bs ih => simp [maskBytes, Spec.Ws.xorMask, ih]

theorem maskBytes_eq_read (key : Bytes) (pos : Nat) (bs : Bytes) :
    maskBytes key pos bs = WsRead.maskBytes key pos bs := by
  induction bs generalizing pos with
  | nil => rfl
  | cons b bs ih => simp [maskBytes, WsRead.maskBytes, ih]

theorem xor_xor_cancel (a k : UInt8) : (a ^^^ k) ^^^ k = a := by
  rw [UInt8.xor_assoc, UInt8.xor_self, UInt8.xor_zero]

theorem maskBytes_involution (key : Bytes) (pos : Nat) (bs : Bytes) :
    maskBytes key pos (maskBytes key pos bs) = bs := by
  induction bs generalizing pos with
  | nil => rfl
  | cons b bs ih => simp [maskBytes, ih, xor_xor_cancel]

theorem maskBytes_length (key : Bytes) (pos : Nat) (bs : Bytes) : (maskBytes key pos bs).length = bs.length := by
  induction bs generalizing pos with
  | nil => rfl
  | cons b bs ih => simp [maskBytes, ih]

/-- Masking a payload in two pieces (the reader unmasks chunk by chunk with a running position). -/
theorem maskBytes_append (key : Bytes) (pos : Nat) (a b : Bytes) :
    maskBytes key pos (a ++ b) = maskBytes key pos a ++ maskBytes key (pos + a.length) b := by
  induction a generalizing pos with
  | nil => simp [maskBytes]
  | cons x xs ih =>
    simp only [List.cons_append, maskBytes, ih, List.length_cons]
    congr 3; omega

/-! ### truncWriter -/

theorem truncWrite_spec (held p : Bytes) (h : held.length ≤ 4) :
    held ++ p = (truncWrite held p).2.flatten ++ (truncWrite held p).1 ∧
    (truncWrite held p).1.length = min 4 (held.length + p.length) := by
  unfold truncWrite
  simp only
  split
  · rename_i hemp
    have hle : p.length ≤ 4 - held.length := by
      simp only [List.isEmpty_iff, List.drop_eq_nil_iff] at hemp; omega
    have : p.take (min (4 - held.length) p.length) = p := by
      rw [List.take_of_length_le]; omega
    simp [this]; omega
  · rename_i hne
    have hgt : 4 - held.length < p.length := by
      simp only [List.isEmpty_iff, List.drop_eq_nil_iff] at hne; omega
    have hfill : min (4 - held.length) p.length = 4 - held.length := by omega
    rw [hfill]
    generalize hH : held ++ p.take (4 - held.length) = H
    generalize hP : p.drop (4 - held.length) = P
    have hHP : held ++ p = H ++ P := by
      rw [← hH, ← hP, List.append_assoc, List.take_append_drop]
    have h1len : H.length = 4 := by
      rw [← hH]; simp [List.length_take]; omega
    have hPlen : P.length = p.length - (4 - held.length) := by rw [← hP]; simp
    rw [hHP]
    by_cases h4 : 4 ≤ P.length
    · have hm : min P.length 4 = 4 := by omega
      rw [hm]
      have e1 : H.take 4 = H := List.take_of_length_le (by omega)
      have e2 : H.drop 4 = [] := List.drop_eq_nil_iff.mpr (by omega)
      refine ⟨?_, ?_⟩
      · simp [e1, e2]
      · simp [e2, List.length_drop]; omega
    · have hm : min P.length 4 = P.length := by omega
      rw [hm]
      refine ⟨?_, ?_⟩
      · simp only [Nat.sub_self, List.take_zero, List.drop_zero, List.flatten_cons, List.flatten_nil,
          List.append_nil]
        rw [← List.append_assoc, List.take_append_drop]
      · simp [List.length_drop]; omega

theorem truncWrite_len (held p : Bytes) (h : held.length ≤ 4) : (truncWrite held p).1.length ≤ 4 := by
  rw [(truncWrite_spec held p h).2]; omega

theorem truncRun_spec (parts : List Bytes) (held down : Bytes) (h : held.length ≤ 4) :
    (truncRun held down parts).2 ++ (truncRun held down parts).1 = down ++ held ++ parts.flatten ∧
    (truncRun held down parts).1.length = min 4 (held.length + parts.flatten.length) := by
  induction parts generalizing held down with
  | nil => simp [truncRun]; omega
  | cons p ps ih =>
    obtain ⟨e1, e2⟩ := truncWrite_spec held p h
    obtain ⟨i1, i2⟩ := ih (truncWrite held p).1 (down ++ (truncWrite held p).2.flatten) (truncWrite_len held p h)
    simp only [truncRun]
    refine ⟨?_, ?_⟩
    · rw [i1]
      simp only [List.flatten_cons, List.append_assoc]
      rw [← List.append_assoc (truncWrite held p).2.flatten, ← e1]
      simp
    · rw [i2, e2]; simp only [List.flatten_cons, List.length_append]; omega

/-! ### the frame `flushFrame` emits is the spec's wire image -/

def formOf (n : Nat) : Nat := if n ≥ 65536 then 2 else if n > 125 then 1 else 0

/-- The frame a flush is expected to put on the wire. -/
def outFrame (isServer : Bool) (key : Bytes) (ft : Nat) (final compress : Bool) (payload : Bytes) : Frame :=
  { fin := final, rsv1 := compress, rsv2 := false, rsv3 := false, opcode := ft, masked := !isServer,
    key := if isServer then [] else key, lenForm := formOf payload.length, len := payload.length,
    payload := payload }

theorem b0_eq (ft : Nat) (h : ft < 16) (fin c : Bool) :
    (UInt8.ofNat ft ||| (if fin then UInt8.ofNat finalBit else 0) ||| (if c then UInt8.ofNat rsv1Bit else 0)) =
      UInt8.ofNat (128 * b2n fin + 64 * b2n c + 32 * b2n false + 16 * b2n false + ft) := by
  have key : ∀ (i : Fin 16) (a b : Bool),
      (UInt8.ofNat i.val ||| (if a then UInt8.ofNat finalBit else 0) ||| (if b then UInt8.ofNat rsv1Bit else 0)) =
        UInt8.ofNat (128 * b2n a + 64 * b2n b + 32 * b2n false + 16 * b2n false + i.val) := by decide
  exact key ⟨ft, h⟩ fin c

theorem b1_small (n : Nat) (h : n ≤ 125) (m : Bool) :
    ((if m then UInt8.ofNat maskBit else 0) ||| UInt8.ofNat n) = UInt8.ofNat (128 * b2n m + n) := by
  have key : ∀ (i : Fin 126) (a : Bool),
      ((if a then UInt8.ofNat maskBit else 0) ||| UInt8.ofNat i.val) = UInt8.ofNat (128 * b2n a + i.val) := by decide
  exact key ⟨n, by omega⟩ m

theorem b1_126 (m : Bool) : ((if m then UInt8.ofNat maskBit else 0) ||| 126) = UInt8.ofNat (128 * b2n m + 126) := by
  cases m <;> decide
theorem b1_127 (m : Bool) : ((if m then UInt8.ofNat maskBit else 0) ||| 127) = UInt8.ofNat (128 * b2n m + 127) := by
  cases m <;> decide

/-- Header bytes = the spec's first two octets + extended length, for the minimal length form. -/
theorem frameHeader_eq (f : Frame) (ft : Nat) (hft : ft < 16) (fin c m : Bool) (n : Nat)
    (hf : f.fin = fin ∧ f.rsv1 = c ∧ f.rsv2 = false ∧ f.rsv3 = false ∧ f.opcode = ft ∧ f.masked = m ∧
          f.lenForm = formOf n ∧ f.len = n) :
    frameHeader (UInt8.ofNat ft ||| (if fin then UInt8.ofNat finalBit else 0) ||| (if c then UInt8.ofNat rsv1Bit else 0))
        (if m then UInt8.ofNat maskBit else 0) n
      = byte0 f :: byte1 f :: extLen f := by
  obtain ⟨h1, h2, h3, h4, h5, h6, h7, h8⟩ := hf
  have hb0 : byte0 f = UInt8.ofNat (128 * b2n fin + 64 * b2n c + 32 * b2n false + 16 * b2n false + ft) := by
    unfold byte0; rw [h1, h2, h3, h4, h5]
  rw [b0_eq ft hft fin c, ← hb0]
  unfold frameHeader byte1 len7 extLen formOf at *
  by_cases hbig : n ≥ 65536
  · simp only [hbig, if_true] at h7 ⊢
    rw [h7, h6, h8, b1_127]; rfl
  · by_cases hmid : n > 125
    · simp only [hbig, hmid, if_true, if_false] at h7 ⊢
      rw [h7, h6, h8, b1_126]; rfl
    · simp only [hbig, hmid, if_false] at h7 ⊢
      rw [h7, h6, h8, b1_small n (by omega)]; rfl

/-- The connection after a successful `Conn.write` of one frame. -/
def afterWrite (c : WConn) (ft : Nat) (bytes : Bytes) : WConn :=
  { c with sent := bytes :: c.sent, writeErr := if ft == CloseMessage then some .closeSent else none }

theorem connWrite_ok (c : WConn) (ft : Nat) (bs : Bytes) (h : c.writeErr = none) :
    connWrite c ft bs = (afterWrite c ft bs, none) := by
  unfold connWrite afterWrite
  rw [h]; simp only
  split <;> simp_all

/-- Server: a flush that passes the control-frame check and finds no latched error writes exactly
the spec's wire image of the expected frame (unmasked, minimal length form). -/
theorem flushFrame_server (c : WConn) (w : MW) (final : Bool) (extra : Bytes)
    (hs : c.isServer = true) (he : c.writeErr = none) (hft : w.frameType < 16)
    (hctl : (isControl w.frameType && (!final || w.buf.length + extra.length > maxControlFramePayloadSize)) = false) :
    flushFrame c w final extra =
      (let c' := afterWrite c w.frameType (serialise (outFrame true [] w.frameType final w.compress (w.buf ++ extra)))
       if final then { c' with writer := none } else c',
       if final then { w with compress := false }
       else { w with compress := false, buf := [], frameType := continuationFrame },
       none) := by
  unfold flushFrame
  simp only [hctl, hs, if_true, Bool.false_eq_true, if_false]
  have hhdr := frameHeader_eq (outFrame true [] w.frameType final w.compress (w.buf ++ extra)) w.frameType hft
    final w.compress false (w.buf.length + extra.length)
    ⟨rfl, rfl, rfl, rfl, rfl, rfl, by simp [outFrame], by simp [outFrame]⟩
  simp only [Bool.false_eq_true, if_false] at hhdr
  have hser : frameHeader (UInt8.ofNat w.frameType ||| (if final then UInt8.ofNat finalBit else 0) |||
        (if w.compress then UInt8.ofNat rsv1Bit else 0)) 0 (w.buf.length + extra.length) ++ w.buf ++ extra =
      serialise (outFrame true [] w.frameType final w.compress (w.buf ++ extra)) := by
    rw [hhdr]
    simp [serialise, wirePayload, outFrame]
  rw [hser, connWrite_ok _ _ _ he]
  cases final <;> simp

/-- Client: same, masked with the next key; `extra` is never used in client mode. -/
theorem flushFrame_client (c : WConn) (w : MW) (final : Bool)
    (hs : c.isServer = false) (he : c.writeErr = none) (hft : w.frameType < 16)
    (hctl : (isControl w.frameType && (!final || w.buf.length > maxControlFramePayloadSize)) = false) :
    flushFrame c w final [] =
      (let key := (nextKey c).1
       let c' := afterWrite (nextKey c).2 w.frameType (serialise (outFrame false key w.frameType final w.compress w.buf))
       if final then { c' with writer := none } else c',
       if final then { w with compress := false, buf := maskBytes (nextKey c).1 0 w.buf }
       else { w with compress := false, buf := [], frameType := continuationFrame },
       none) := by
  unfold flushFrame
  simp only [List.length_nil, Nat.add_zero]
  simp only [hctl, hs, Bool.false_eq_true, if_false, Nat.lt_irrefl]
  have hk : (nextKey c).2.writeErr = none := by
    unfold nextKey; split <;> simp [he]
  have hhdr := frameHeader_eq (outFrame false (nextKey c).1 w.frameType final w.compress w.buf) w.frameType hft
    final w.compress true w.buf.length
    ⟨rfl, rfl, rfl, rfl, rfl, rfl, by simp [outFrame], by simp [outFrame]⟩
  simp only [if_true] at hhdr
  have hser : frameHeader (UInt8.ofNat w.frameType ||| (if final then UInt8.ofNat finalBit else 0) |||
        (if w.compress then UInt8.ofNat rsv1Bit else 0)) (UInt8.ofNat maskBit) w.buf.length ++ (nextKey c).1 ++
        maskBytes (nextKey c).1 0 w.buf =
      serialise (outFrame false (nextKey c).1 w.frameType final w.compress w.buf) := by
    rw [hhdr]
    simp [serialise, wirePayload, outFrame, maskBytes_eq_spec]
  rw [hser, connWrite_ok _ _ _ hk]
  cases final <;> simp

/-- **control_frames** (`WriteControl`): a control message of at most 125 bytes goes out as exactly
one frame — FIN set, no RSV bit, 7-bit length, masked iff the sender is the client — in a single
transport write; a longer one is refused and nothing is written. -/
theorem writeControl_frame (c : WConn) (ty : Nat) (data : Bytes)
    (hty : isControl ty = true) (hlen : data.length ≤ 125) (he : c.writeErr = none) :
    writeControl c ty data =
      (afterWrite (if c.isServer then c else (nextKey c).2) ty
         (serialise (outFrame c.isServer (nextKey c).1 ty true false data)), none) := by
  have hft : ty < 16 := by
    simp only [isControl, CloseMessage, PingMessage, PongMessage, Bool.or_eq_true, beq_iff_eq] at hty; omega
  have hnot : ¬ data.length > maxControlFramePayloadSize := by simp [maxControlFramePayloadSize]; omega
  unfold writeControl
  simp only [hty, Bool.not_true, Bool.false_eq_true, if_false, hnot]
  have hb0 := b0_eq ty hft true false
  simp only [if_true, Bool.false_eq_true, if_false, UInt8.or_zero] at hb0
  cases hsrv : c.isServer
  · -- client
    simp only [Bool.false_eq_true, if_false]
    have hk : (nextKey c).2.writeErr = none := by unfold nextKey; split <;> simp [he]
    have hb1 := b1_small data.length (by omega) true
    simp only [if_true] at hb1
    rw [UInt8.or_comm] at hb1
    rw [hb0, hb1, connWrite_ok _ _ _ hk]
    simp [serialise, outFrame, byte0, byte1, len7, extLen, formOf, wirePayload, maskBytes_eq_spec, b2n,
      show ¬ data.length ≥ 65536 by omega, show ¬ data.length > 125 by omega]
  · simp only [if_true]
    have hb1 := b1_small data.length (by omega) false
    simp only [Bool.false_eq_true, if_false, UInt8.zero_or] at hb1
    rw [hb0, hb1, connWrite_ok _ _ _ he]
    simp [serialise, outFrame, byte0, byte1, len7, extLen, formOf, wirePayload, b2n,
      show ¬ data.length ≥ 65536 by omega, show ¬ data.length > 125 by omega]

theorem writeControl_too_long (c : WConn) (ty : Nat) (data : Bytes) (hlen : 125 < data.length) :
    (writeControl c ty data).1 = c ∧ (writeControl c ty data).2 ≠ none := by
  unfold writeControl
  split
  · simp
  · have : data.length > maxControlFramePayloadSize := by simp [maxControlFramePayloadSize]; omega
    simp [this]

/-- After a Close frame has gone out every control write fails with ErrCloseSent and writes nothing. -/
theorem writeControl_after_close (c : WConn) (ty : Nat) (data : Bytes) (e : WErr) (he : c.writeErr = some e)
    (hty : isControl ty = true) (hlen : data.length ≤ 125) :
    (writeControl c ty data).1.sent = c.sent ∧ (writeControl c ty data).2 = some e := by
  have hnot : ¬ data.length > maxControlFramePayloadSize := by simp [maxControlFramePayloadSize]; omega
  unfold writeControl
  simp only [hty, Bool.not_true, Bool.false_eq_true, if_false, hnot]
  have hk : (nextKey c).2.writeErr = some e ∧ (nextKey c).2.sent = c.sent := by unfold nextKey; split <;> simp [he]
  cases c.isServer <;> simp [connWrite, he, hk]

end Oryx.WsWrite
