import Oryx.Model.WsDeadline
namespace Oryx.Proofs.WsDeadline
open Oryx.Model.WsDeadline

/-- the abstraction: forget what is armed on the transport -/
def abs (c : Conn) : Spec := { latched := c.latched, wire := c.wire }

theorem step_refines (c : Conn) (op : Op) :
    abs (step true c op).1 = (specStep (abs c) op).1 ∧ (step true c op).2 = (specStep (abs c) op).2 := by
  cases op with
  | data now dl id =>
    simp only [step, specStep, abs, transportWrite, Bool.true_or, if_true]
    by_cases hl : c.latched = true
    · simp [hl]
    · simp only [hl]
      by_cases hp : passed now dl = true <;> simp [hp]
  | control now dl id =>
    simp only [step, specStep, abs, transportWrite, Bool.true_or, if_true]
    by_cases hp : passed now dl = true
    · simp [hp]
    · by_cases hl : c.latched = true <;> simp [hp, hl]

/-- REFINEMENT: with every write arming its own deadline, any history of data and control writes, from any state of the
transport (whatever deadline is armed on it), behaves like the specification: same outcomes, same wire, same latch. -/
theorem run_refines (c : Conn) (ops : List Op) :
    abs (run true c ops).1 = (specRun (abs c) ops).1 ∧ (run true c ops).2 = (specRun (abs c) ops).2 := by
  induction ops generalizing c with
  | nil => simp [run, specRun]
  | cons op ops ih =>
    have h := step_refines c op
    have := ih (step true c op).1
    simp only [run, specRun]
    rw [← h.1, ← h.2]
    exact ⟨this.1, by rw [this.2]⟩

/-- the specification on histories whose writes all respect their own deadlines: everything succeeds, in order -/
theorem spec_all_ok (w : List Nat) (ops : List Op) (h : ∀ op ∈ ops, op.ownDeadlineOk = true) :
    (specRun { latched := false, wire := w } ops).2 = ops.map (fun _ => true) ∧
      (specRun { latched := false, wire := w } ops).1 = { latched := false, wire := w ++ ops.map Op.id } := by
  induction ops generalizing w with
  | nil => simp [specRun]
  | cons op ops ih =>
    have hop := h op (List.mem_cons_self ..)
    have hrest : ∀ o ∈ ops, o.ownDeadlineOk = true := fun o ho => h o (List.mem_cons_of_mem _ ho)
    have := ih (w ++ [op.id]) hrest
    cases op with
    | data now dl id =>
      have hp : passed now dl = false := by simpa [Op.ownDeadlineOk] using hop
      simp only [Op.id] at this
      simp [specRun, specStep, hp, this, Op.id]
    | control now dl id =>
      have hp : passed now dl = false := by simpa [Op.ownDeadlineOk] using hop
      simp only [Op.id] at this
      simp [specRun, specStep, hp, this, Op.id]

/-- ... hence on the connection: whatever is armed on the transport at the start (e.g. the deadline of a pong sent a
second ago), a history in which every write respects ITS OWN deadline succeeds entirely and reaches the wire in order. -/
theorem all_ok (c : Conn) (ops : List Op) (hl : c.latched = false) (h : ∀ op ∈ ops, op.ownDeadlineOk = true) :
    (run true c ops).2 = ops.map (fun _ => true) ∧ (run true c ops).1.wire = c.wire ++ ops.map Op.id := by
  have r := run_refines c ops
  have s := spec_all_ok c.wire ops h
  have ha : abs c = { latched := false, wire := c.wire } := by simp [abs, hl]
  rw [ha] at r
  refine ⟨by rw [r.2, s.1], ?_⟩
  have : (abs (run true c ops).1).wire = (specRun { latched := false, wire := c.wire } ops).1.wire := by rw [r.1]
  rw [s.2] at this
  simpa [abs] using this

/-- the variant that skips arming for "no deadline" is NOT a refinement: a pong sent under a one-second deadline, then,
five seconds later, a data message on a connection without a write deadline. -/
theorem skip_when_none_breaks :
    (run false {} [.control 0 (some 1) 1, .data 5 none 2]).2 = [true, false] ∧
    (specRun {} [.control 0 (some 1) 1, .data 5 none 2]).2 = [true, true] := by decide

end Oryx.Proofs.WsDeadline
