/-
  Helper lemmas for C14 (reader model `Oryx.WsRead`): monad unfolding, stage characterisations of
  `advanceFrame`, int64 facts, no-panic, sticky error.
-/
import Oryx.Model.WsRead
import Oryx.Spec.Ws
namespace Oryx.WsRead
open Oryx Oryx.Gen.Websocket Oryx.Spec.Ws

/-! ### the monad -/

@[simp] theorem bind_def (x : M α) (f : α → M β) (s : RState) :
    (x >>= f) s = match x s with
      | .ok a s' => f a s'
      | .fail e s' => .fail e s'
      | .panic => .panic := rfl

@[simp] theorem pure_def (a : α) (s : RState) : (pure a : M α) s = .ok a s := rfl
@[simp] theorem get_def (s : RState) : get s = .ok s s := rfl
@[simp] theorem modify_def (f : RState → RState) (s : RState) : modify f s = .ok () (f s) := rfl
@[simp] theorem throw_def (e : RErr) (s : RState) : (throw e : M α) s = .fail e s := rfl
@[simp] theorem mpanic_def (s : RState) : (mpanic : M α) s = .panic := rfl

/-! ### primitives -/

theorem take_length_eq_iff (l : Bytes) (n : Nat) : (l.take n).length = n ↔ n ≤ l.length := by
  rw [List.length_take]; omega

/-- `readN`/`skipN` test "are there `n` bytes" on the taken prefix (linear time in the oracle); this is
the same as comparing with the input length. -/
theorem readN_eq (n : Nat) (s : RState) :
    readN n s = if n ≤ s.input.length then .ok (s.input.take n) { s with input := s.input.drop n }
                else .fail .ueof { s with input := [] } := by
  unfold readN
  simp only [take_length_eq_iff]

theorem skipN_eq (n : Nat) (s : RState) :
    skipN n s = if n ≤ s.input.length then .ok () { s with input := s.input.drop n }
                else .fail .eof { s with input := [] } := by
  unfold skipN
  simp only [take_length_eq_iff]

theorem readN_ok (n : Nat) (s : RState) (h : n ≤ s.input.length) :
    readN n s = .ok (s.input.take n) { s with input := s.input.drop n } := by
  simp [readN_eq, h]

theorem readN_short (n : Nat) (s : RState) (h : s.input.length < n) :
    readN n s = .fail .ueof { s with input := [] } := by
  simp [readN_eq, Nat.not_le.mpr h]

theorem readHdr_ok (s : RState) (b0 b1 : UInt8) (rest : Bytes) (h : s.input = b0 :: b1 :: rest) :
    readHdr s = .ok (decodeHdr b0 b1)
      { s with input := rest, readRemaining := wrap64 (decodeHdr b0 b1).len7 } := by
  simp [readHdr, readN_eq, h]

theorem readHdr_short (s : RState) (h : s.input.length < 2) :
    readHdr s = .fail .ueof { s with input := [] } := by
  simp [readHdr, readN_eq, Nat.not_le.mpr h]

/-! ### no stage of `advanceFrame` panics -/

theorem readN_ne_panic (n : Nat) (s : RState) : readN n s ≠ .panic := by
  rw [readN_eq]; split <;> simp

theorem skipPrev_ne_panic (s : RState) : skipPrev s ≠ .panic := by
  unfold skipPrev; rw [skipN_eq]; repeat' split
  all_goals simp

theorem readHdr_ne_panic (s : RState) : readHdr s ≠ .panic := by
  unfold readHdr; rw [readN_eq]
  by_cases h : 2 ≤ s.input.length
  · simp only [h, if_true]
    match hi : s.input with
    | [] => simp [hi] at h
    | [_] => simp [hi] at h
    | a :: b :: r => simp
  · simp [h]

theorem checkHdr_ne_panic (h : Hdr) (s : RState) : checkHdr h s ≠ .panic := by
  simp only [checkHdr, protoErr]; repeat' split
  all_goals simp

theorem readLength_ne_panic (h : Hdr) (s : RState) : readLength h s ≠ .panic := by
  simp only [readLength, protoErr]; repeat' split
  all_goals first | (rename_i hh; exact absurd hh (readN_ne_panic _ _)) | simp

theorem readMask_ne_panic (h : Hdr) (s : RState) : readMask h s ≠ .panic := by
  simp only [readMask, protoErr]; repeat' split
  all_goals first | (rename_i hh; exact absurd hh (readN_ne_panic _ _)) | simp

theorem dataFrame_ne_panic (h : Hdr) (s : RState) : dataFrame h s ≠ .panic := by
  simp only [dataFrame]; repeat' split
  all_goals simp

theorem handleCloseFrame_ne_panic (p : Bytes) (s : RState) : handleCloseFrame p s ≠ .panic := by
  simp only [handleCloseFrame, protoErr]; repeat' split
  all_goals simp

theorem readCtlPayload_ne_panic (s : RState) : readCtlPayload s ≠ .panic := by
  simp only [readCtlPayload]; repeat' split
  all_goals first | (rename_i hh; exact absurd hh (readN_ne_panic _ _)) | simp

theorem controlFrame_ne_panic (h : Hdr) (s : RState) : controlFrame h s ≠ .panic := by
  simp only [controlFrame]; repeat' split
  all_goals first | (rename_i hh; exact absurd hh (readCtlPayload_ne_panic _)) | exact handleCloseFrame_ne_panic _ _ | simp

theorem bind_ne_panic {x : M α} {f : α → M β} {s : RState}
    (hx : x s ≠ .panic) (hf : ∀ a s', f a s' ≠ .panic) : (x >>= f) s ≠ .panic := by
  rw [bind_def]; split
  · exact hf _ _
  · simp
  · rename_i h; exact absurd h hx

theorem advanceFrame_ne_panic (s : RState) : advanceFrame s ≠ .panic := by
  unfold advanceFrame
  refine bind_ne_panic (skipPrev_ne_panic s) fun _ s => ?_
  refine bind_ne_panic (readHdr_ne_panic s) fun h s => ?_
  refine bind_ne_panic (checkHdr_ne_panic h s) fun _ s => ?_
  refine bind_ne_panic (readLength_ne_panic h s) fun _ s => ?_
  refine bind_ne_panic (readMask_ne_panic h s) fun _ s => ?_
  split
  · exact dataFrame_ne_panic h s
  · exact controlFrame_ne_panic h s

/-! ### int64 -/

theorem wrap64_neg_of_ge {n : Nat} (h1 : 2 ^ 63 ≤ n) (h2 : n < 2 ^ 64) : wrap64 n < 0 := by
  unfold wrap64; omega

theorem wrap64_of_lt {n : Nat} (h : n < 2 ^ 63) : wrap64 n = n := by
  unfold wrap64; omega

theorem wrap64_lt (n : Int) : wrap64 n < 2 ^ 63 := by unfold wrap64; omega
theorem wrap64_ge (n : Int) : -(2 ^ 63) ≤ wrap64 n := by unfold wrap64; omega

/-- The sum of two non-negative int64 values wraps negative exactly when it does not fit: a
non-negative wrapped sum is the true sum. -/
theorem wrap64_add_nonneg {a b : Int} (ha : 0 ≤ a) (ha' : a < 2 ^ 63) (hb : 0 ≤ b) (hb' : b < 2 ^ 63)
    (h : 0 ≤ wrap64 (a + b)) : wrap64 (a + b) = a + b := by
  unfold wrap64 at *; omega

theorem bind_ok {x : M α} {f : α → M β} {s s' : RState} {b : β} (h : (x >>= f) s = .ok b s') :
    ∃ a s1, x s = .ok a s1 ∧ f a s1 = .ok b s' := by
  rw [bind_def] at h; split at h
  · exact ⟨_, _, by assumption, h⟩
  · cases h
  · cases h

theorem skipPrev_noop (s : RState) (h : s.readRemaining ≤ 0) : skipPrev s = .ok () s := by
  simp [skipPrev, Int.not_lt.mpr h]

theorem checkHdr_input {h : Hdr} {s s' : RState} (hh : checkHdr h s = .ok () s') : s'.input = s.input := by
  simp only [checkHdr, protoErr] at hh
  repeat' split at hh
  all_goals first | cases hh | skip
  all_goals rfl

theorem readLength_top {h : Hdr} {s : RState} {ext rest : Bytes} (h7 : h.len7 = 127)
    (hin : s.input = ext ++ rest) (hext : ext.length = 8) (htop : 2 ^ 63 ≤ ofBE ext) :
    readLength h s = .fail .proto (sendCtl CloseMessage (be 2 CloseProtocolError)
      { s with input := rest, readRemaining := wrap64 (ofBE ext) }) := by
  have hlt : ofBE ext < 2 ^ 64 := by have := ofBE_lt ext; rw [hext] at this; exact this
  have hneg := wrap64_neg_of_ge htop hlt
  have h8 : 8 ≤ s.input.length := by rw [hin]; simp [hext]
  have ht : s.input.take 8 = ext := by rw [hin]; exact take_append_len _ _ hext
  have hd : s.input.drop 8 = rest := by rw [hin]; exact drop_append_len _ _ hext
  simp [readLength, h7, readN_eq, h8, ht, hd, hneg, protoErr]

/-- A frame whose 64-bit length field has the top bit set is never accepted: `advanceFrame` does not
return a frame for it, whatever the state, the other header fields and the bytes that follow. -/
theorem advanceFrame_top_bit (s : RState) (b0 b1 : UInt8) (ext rest : Bytes)
    (hrem : s.readRemaining ≤ 0) (hin : s.input = b0 :: b1 :: (ext ++ rest))
    (h7 : (decodeHdr b0 b1).len7 = 127) (hext : ext.length = 8) (htop : 2 ^ 63 ≤ ofBE ext) :
    ∀ ft s', advanceFrame s ≠ .ok ft s' := by
  intro ft s' h
  unfold advanceFrame at h
  obtain ⟨_, s1, h1, h⟩ := bind_ok h
  rw [skipPrev_noop s hrem] at h1; cases h1
  obtain ⟨hd, s2, h2, h⟩ := bind_ok h
  rw [readHdr_ok s b0 b1 _ hin] at h2; cases h2
  obtain ⟨_, s3, h3, h⟩ := bind_ok h
  obtain ⟨_, s4, h4, h⟩ := bind_ok h
  have hi := checkHdr_input h3
  rw [readLength_top h7 hi hext htop] at h4
  cases h4

/-- sticky: once `readErr` is set, `ReadMessage` returns it, reads nothing and writes nothing. -/
theorem readMessage_sticky (s : RState) (e : RErr) (h : s.readErr = some e) :
    readMessage s = .fail e { s with readLength := 0 } := by
  have : nextReader s = .fail e { s with readLength := 0 } := by
    simp [nextReader, nextReaderLoop, h]
  simp [readMessage, this]

/-- dataFrame accounting. -/
theorem dataFrame_ok {h : Hdr} {s s' : RState} {ft : Nat} (hh : dataFrame h s = .ok ft s') :
    ft = h.frameType ∧ s' = { s with readLength := wrap64 (s.readLength + s.readRemaining) } ∧
    0 ≤ s'.readLength ∧ (s.readLimit > 0 → s'.readLength ≤ s.readLimit) := by
  simp only [dataFrame] at hh
  split at hh
  · cases hh
  · rename_i hc
    cases hh
    simp only [Bool.or_eq_true, Bool.and_eq_true, decide_eq_true_eq, not_or, not_and, Int.not_lt] at hc
    refine ⟨rfl, rfl, hc.1, fun hl => ?_⟩
    have := hc.2 hl
    simpa using this

/-! ### effects of the successful stages -/

/-- Fields no successful stage of `advanceFrame` touches, and the input only shrinks. -/
structure Eff (s s' : RState) : Prop where
  isServer : s'.isServer = s.isServer
  decompress : s'.decompress = s.decompress
  readLimit : s'.readLimit = s.readLimit
  readErr : s'.readErr = s.readErr
  len : s'.input.length ≤ s.input.length

theorem Eff.refl (s : RState) : Eff s s := ⟨rfl, rfl, rfl, rfl, Nat.le_refl _⟩

theorem Eff.trans {a b c : RState} (h1 : Eff a b) (h2 : Eff b c) : Eff a c :=
  ⟨h2.isServer.trans h1.isServer, h2.decompress.trans h1.decompress, h2.readLimit.trans h1.readLimit,
   h2.readErr.trans h1.readErr, Nat.le_trans h2.len h1.len⟩

theorem readN_ok_iff {n : Nat} {s s' : RState} {p : Bytes} (h : readN n s = .ok p s') :
    n ≤ s.input.length ∧ p = s.input.take n ∧ s' = { s with input := s.input.drop n } := by
  rw [readN_eq] at h; split at h
  · cases h; exact ⟨by assumption, rfl, rfl⟩
  · cases h

theorem skipPrev_ok {s s' : RState} (h : skipPrev s = .ok () s') :
    Eff s s' ∧ s'.readLength = s.readLength := by
  simp only [skipPrev, skipN_eq] at h
  repeat' split at h
  all_goals first | cases h | skip
  all_goals exact ⟨⟨rfl, rfl, rfl, rfl, by simp⟩, rfl⟩

theorem decodeHdr_len7 (b0 b1 : UInt8) : (decodeHdr b0 b1).len7 < 128 := by
  simp only [decodeHdr]
  revert b1; apply forall_u8; decide +kernel

theorem readHdr_ok' {s s' : RState} {h : Hdr} (hh : readHdr s = .ok h s') :
    Eff s s' ∧ s'.readLength = s.readLength ∧ s'.input.length + 2 ≤ s.input.length ∧
    s'.readRemaining = wrap64 h.len7 ∧ h.len7 < 128 := by
  simp only [readHdr] at hh
  split at hh
  · cases hh
  · cases hh
  · rename_i p s1 hr
    obtain ⟨hn, hp, hs1⟩ := readN_ok_iff hr
    split at hh
    · cases hh
      subst hs1
      refine ⟨⟨rfl, rfl, rfl, rfl, by simp⟩, rfl, ?_, rfl, decodeHdr_len7 _ _⟩
      simp; omega
    · cases hh

theorem checkHdr_ok {h : Hdr} {s s' : RState} (hh : checkHdr h s = .ok () s') :
    Eff s s' ∧ s'.readLength = s.readLength ∧ s'.readRemaining = s.readRemaining ∧ s'.input = s.input ∧
    (isControl h.frameType = true ∨ isData h.frameType = true ∨ h.frameType = 0) := by
  simp only [checkHdr, protoErr] at hh
  repeat' split at hh
  all_goals first | cases hh | skip
  all_goals refine ⟨⟨rfl, rfl, rfl, rfl, Nat.le_refl _⟩, rfl, rfl, rfl, ?_⟩
  all_goals simp_all [continuationFrame]

theorem readLength_ok {h : Hdr} {s s' : RState} (hh : readLength h s = .ok () s')
    (hr : s.readRemaining = wrap64 h.len7) (h7 : h.len7 < 128) :
    Eff s s' ∧ s'.readLength = s.readLength ∧ 0 ≤ s'.readRemaining ∧ s'.readRemaining < 2 ^ 63 := by
  simp only [readLength, protoErr] at hh
  repeat' split at hh
  all_goals first | cases hh | skip
  · rename_i p s1 hrd
    obtain ⟨hn, hp, hs1⟩ := readN_ok_iff hrd
    subst hs1
    refine ⟨⟨rfl, rfl, rfl, rfl, by simp⟩, rfl, ?_, wrap64_lt _⟩
    have : ofBE p < 256 ^ 2 := by
      have := ofBE_lt p; rw [hp] at this ⊢; simpa [List.length_take, Nat.min_eq_left hn] using this
    show 0 ≤ wrap64 _
    rw [wrap64_of_lt (by omega)]; omega
  · rename_i p s1 hrd hneg
    obtain ⟨hn, hp, hs1⟩ := readN_ok_iff hrd
    subst hs1
    exact ⟨⟨rfl, rfl, rfl, rfl, by simp⟩, rfl, by simpa using hneg, wrap64_lt _⟩
  · refine ⟨Eff.refl _, rfl, ?_, ?_⟩
    · rw [hr, wrap64_of_lt (by omega)]; omega
    · rw [hr]; exact wrap64_lt _

theorem readMask_ok {h : Hdr} {s s' : RState} (hh : readMask h s = .ok () s') :
    Eff s s' ∧ s'.readLength = s.readLength ∧ s'.readRemaining = s.readRemaining := by
  simp only [readMask, protoErr] at hh
  repeat' split at hh
  all_goals first | cases hh | skip
  · rename_i p s1 hrd
    obtain ⟨hn, hp, hs1⟩ := readN_ok_iff hrd
    subst hs1
    exact ⟨⟨rfl, rfl, rfl, rfl, by simp⟩, rfl, rfl⟩
  · exact ⟨Eff.refl _, rfl, rfl⟩

theorem sendCtl_eff (op : Nat) (p : Bytes) (s : RState) :
    Eff s (sendCtl op p s) ∧ (sendCtl op p s).readLength = s.readLength ∧
    (sendCtl op p s).readRemaining = s.readRemaining ∧ (sendCtl op p s).input = s.input := by
  unfold sendCtl; split
  · exact ⟨Eff.refl _, rfl, rfl, rfl⟩
  · exact ⟨⟨rfl, rfl, rfl, rfl, Nat.le_refl _⟩, rfl, rfl, rfl⟩

theorem handleCloseFrame_not_ok (p : Bytes) (s s' : RState) (ft : Nat) : handleCloseFrame p s ≠ .ok ft s' := by
  simp only [handleCloseFrame, protoErr]; repeat' split
  all_goals simp

theorem readCtlPayload_ok {s s' : RState} {p : Bytes} (hh : readCtlPayload s = .ok p s') (h0 : 0 ≤ s.readRemaining) :
    Eff s s' ∧ s'.readLength = s.readLength ∧ s'.readRemaining = 0 := by
  simp only [readCtlPayload] at hh
  split at hh
  · split at hh
    · cases hh
    · cases hh
    · rename_i q s1 hrd
      obtain ⟨hn, hp, hs1⟩ := readN_ok_iff hrd
      cases hh
      subst hs1
      exact ⟨⟨rfl, rfl, rfl, rfl, by simp⟩, rfl, rfl⟩
  · rename_i hneg
    cases hh
    exact ⟨Eff.refl _, rfl, by omega⟩

theorem controlFrame_ok {h : Hdr} {s s' : RState} {ft : Nat} (hh : controlFrame h s = .ok ft s')
    (h0 : 0 ≤ s.readRemaining) :
    Eff s s' ∧ s'.readLength = s.readLength ∧ s'.readRemaining = 0 ∧ ft = h.frameType ∧
    (ft = PingMessage ∨ ft = PongMessage) := by
  simp only [controlFrame] at hh
  split at hh
  · cases hh
  · cases hh
  · rename_i p s1 hp
    obtain ⟨e1, l1, r1⟩ := readCtlPayload_ok hp h0
    split at hh
    · rename_i hpong
      cases hh
      exact ⟨e1, l1, r1, rfl, Or.inr (by simpa using hpong)⟩
    · split at hh
      · rename_i hping
        cases hh
        obtain ⟨e2, l2, r2, _⟩ := sendCtl_eff PongMessage p s1
        exact ⟨e1.trans e2, l2.trans l1, r2.trans r1, rfl, Or.inl (by simpa using hping)⟩
      · exact absurd hh (handleCloseFrame_not_ok _ _ _ _)

/-- RL1: what a successfully returned frame did to the read-limit accounting. -/
theorem advanceFrame_ok {s s' : RState} {ft : Nat} (hh : advanceFrame s = .ok ft s') :
    Eff s s' ∧ s'.input.length + 2 ≤ s.input.length ∧ 0 ≤ s'.readRemaining ∧ s'.readRemaining < 2 ^ 63 ∧
    (((ft = 0 ∨ ft = TextMessage ∨ ft = BinaryMessage) ∧
        s'.readLength = wrap64 (s.readLength + s'.readRemaining) ∧ 0 ≤ s'.readLength ∧
        (s.readLimit > 0 → s'.readLength ≤ s.readLimit))
     ∨ ((ft = PingMessage ∨ ft = PongMessage) ∧ s'.readRemaining = 0 ∧ s'.readLength = s.readLength)) := by
  unfold advanceFrame at hh
  obtain ⟨_, s1, h1, hh⟩ := bind_ok hh
  obtain ⟨hd, s2, h2, hh⟩ := bind_ok hh
  obtain ⟨_, s3, h3, hh⟩ := bind_ok hh
  obtain ⟨_, s4, h4, hh⟩ := bind_ok hh
  obtain ⟨_, s5, h5, hh⟩ := bind_ok hh
  obtain ⟨e1, l1⟩ := skipPrev_ok h1
  obtain ⟨e2, l2, n2, r2, h7⟩ := readHdr_ok' h2
  obtain ⟨e3, l3, r3, i3, ty3⟩ := checkHdr_ok h3
  obtain ⟨e4, l4, r4, r4'⟩ := readLength_ok h4 (r3.trans r2) h7
  obtain ⟨e5, l5, r5⟩ := readMask_ok h5
  have e15 : Eff s s5 := (((e1.trans e2).trans e3).trans e4).trans e5
  have len5 : s5.input.length + 2 ≤ s.input.length := by
    have := e1.len; have := e3.len; have := e4.len; have := e5.len; omega
  have hl5 : s5.readLength = s.readLength := by rw [l5, l4, l3, l2, l1]
  split at hh
  · rename_i hdata
    obtain ⟨hft, hs', h0, hlim⟩ := dataFrame_ok hh
    subst hs'
    refine ⟨⟨e15.isServer, e15.decompress, e15.readLimit, e15.readErr, e15.len⟩, len5, ?_, ?_, Or.inl ⟨?_, ?_, h0, ?_⟩⟩
    · show 0 ≤ s5.readRemaining; rw [r5]; exact r4
    · show s5.readRemaining < 2 ^ 63; rw [r5]; exact r4'
    · subst hft
      simp only [Bool.or_eq_true, beq_iff_eq, isData] at hdata
      rcases hdata with h | h | h
      · exact Or.inl h
      · exact Or.inr (Or.inl h)
      · exact Or.inr (Or.inr h)
    · show wrap64 (s5.readLength + s5.readRemaining) = wrap64 (s.readLength + s5.readRemaining)
      rw [hl5]
    · intro hl
      have := hlim (by rw [e15.readLimit]; exact hl)
      rw [e15.readLimit] at this; exact this
  · obtain ⟨e6, l6, r6, hft, hpp⟩ := controlFrame_ok hh (by rw [r5]; exact r4)
    refine ⟨e15.trans e6, ?_, by rw [r6]; decide, by rw [r6]; decide, Or.inr ⟨hpp, r6, by rw [l6, hl5]⟩⟩
    have := e6.len; omega

theorem maskBytes_length (key : Bytes) (pos : Nat) (bs : Bytes) : (maskBytes key pos bs).length = bs.length := by
  induction bs generalizing pos with
  | nil => rfl
  | cons b bs ih => simp [maskBytes, ih]

/-! ### loops: fuel is never exhausted -/

theorem nextReaderLoop_ne_panic (fuel : Nat) (s : RState) (h : s.input.length < fuel) :
    nextReaderLoop fuel s ≠ .panic := by
  induction fuel generalizing s with
  | zero => omega
  | succ n ih =>
    simp only [nextReaderLoop]
    split
    · simp
    · split
      · rename_i hp; exact absurd hp (advanceFrame_ne_panic s)
      · simp
      · rename_i ft s' hok
        split
        · simp
        · have := (advanceFrame_ok hok).2.1
          exact ih s' (by omega)

theorem nextReader_ne_panic (s : RState) : nextReader s ≠ .panic := by
  unfold nextReader
  exact nextReaderLoop_ne_panic _ _ (by simp)

theorem readAllLoop_err (fuel : Nat) (acc : Bytes) (s : RState) (e : RErr) (h : s.readErr = some e) :
    readAllLoop (fuel + 1) acc s = .ok (acc, some (if e = .eof then .ueof else e)) s := by
  simp [readAllLoop, h]

theorem readAllLoop_ne_panic (fuel : Nat) (acc : Bytes) (s : RState) (h : 2 * s.input.length + 2 ≤ fuel) :
    readAllLoop fuel acc s ≠ .panic := by
  induction fuel generalizing s acc with
  | zero => omega
  | succ n ih =>
    simp only [readAllLoop]
    split
    · simp
    · split
      · split
        · simp
        · rename_i hn
          apply ih
          simp only [List.length_drop]
          have : 0 < min s.readRemaining.toNat s.input.length := by
            simp only [beq_iff_eq, List.length_take] at hn; omega
          simp only [List.length_take]
          omega
      · split
        · simp
        · split
          · rename_i hp; exact absurd hp (advanceFrame_ne_panic s)
          · rename_i e s' _
            cases n with
            | zero => omega
            | succ m => rw [readAllLoop_err m acc _ e rfl]; simp
          · rename_i ft s' hok
            have := (advanceFrame_ok hok).2.1
            split
            · exact ih _ _ (by simp only; omega)
            · exact ih _ _ (by omega)

/-! ### the input only shrinks, whatever the outcome -/

def Out.inputLE (o : Out α) (n : Nat) : Prop :=
  match o with
  | .ok _ s' => s'.input.length ≤ n
  | .fail _ s' => s'.input.length ≤ n
  | .panic => True

theorem bind_inputLE {x : M α} {f : α → M β} {s : RState} {n : Nat}
    (hx : (x s).inputLE n) (hf : ∀ a s1, s1.input.length ≤ n → (f a s1).inputLE n) :
    ((x >>= f) s).inputLE n := by
  rw [bind_def]; split
  · rename_i a s1 h; rw [h] at hx; exact hf a s1 hx
  · rename_i e s1 h; rw [h] at hx; exact hx
  · trivial

theorem sendCtl_input (op : Nat) (p : Bytes) (s : RState) : (sendCtl op p s).input = s.input := by
  unfold sendCtl; split <;> rfl

theorem readN_inputLE (n : Nat) (s : RState) : (readN n s).inputLE s.input.length := by
  rw [readN_eq]; split <;> simp [Out.inputLE]

theorem inputLE_mono {o : Out α} {n m : Nat} (h : o.inputLE n) (hnm : n ≤ m) : o.inputLE m := by
  cases o <;> simp_all [Out.inputLE] <;> omega

theorem ite_inputLE {c : Prop} [Decidable c] {a b : Out α} {n : Nat}
    (ha : a.inputLE n) (hb : b.inputLE n) : (if c then a else b).inputLE n := by
  split <;> assumption

theorem skipPrev_inputLE (s : RState) : (skipPrev s).inputLE s.input.length := by
  simp only [skipPrev, skipN_eq]; repeat' split
  all_goals simp [Out.inputLE]

theorem readHdr_inputLE (s : RState) : (readHdr s).inputLE s.input.length := by
  simp only [readHdr]
  have := readN_inputLE 2 s
  split
  · trivial
  · rename_i h; rw [h] at this; exact this
  · rename_i h; rw [h] at this
    split
    · exact this
    · trivial

theorem checkHdr_inputLE (h : Hdr) (s : RState) : (checkHdr h s).inputLE s.input.length := by
  simp only [checkHdr, protoErr]; repeat' split
  all_goals simp [Out.inputLE, sendCtl_input]

theorem readLength_inputLE (h : Hdr) (s : RState) : (readLength h s).inputLE s.input.length := by
  simp only [readLength, protoErr]
  split
  · have := readN_inputLE 2 s
    split
    · trivial
    · rename_i h; rw [h] at this; exact this
    · rename_i h; rw [h] at this; exact this
  · split
    · have := readN_inputLE 8 s
      split
      · trivial
      · rename_i h; rw [h] at this; exact this
      · rename_i p s1 h; rw [h] at this
        generalize wrap64 (ofBE p) = w
        apply ite_inputLE
        · simpa [Out.inputLE, sendCtl_input] using this
        · exact this
    · simp [Out.inputLE]

theorem readMask_inputLE (h : Hdr) (s : RState) : (readMask h s).inputLE s.input.length := by
  simp only [readMask, protoErr]
  split
  · simp [Out.inputLE, sendCtl_input]
  · split
    · have := readN_inputLE 4 s
      split
      · trivial
      · rename_i h; rw [h] at this; exact this
      · rename_i h; rw [h] at this; exact this
    · simp [Out.inputLE]

theorem dataFrame_inputLE (h : Hdr) (s : RState) : (dataFrame h s).inputLE s.input.length := by
  simp only [dataFrame]; split
  all_goals simp [Out.inputLE, sendCtl_input]

theorem handleCloseFrame_inputLE (p : Bytes) (s : RState) : (handleCloseFrame p s).inputLE s.input.length := by
  simp only [handleCloseFrame, protoErr]; repeat' split
  all_goals simp [Out.inputLE, sendCtl_input]

theorem readCtlPayload_inputLE (s : RState) : (readCtlPayload s).inputLE s.input.length := by
  simp only [readCtlPayload]
  split
  · have := readN_inputLE s.readRemaining.toNat { s with readRemaining := 0 }
    split
    · trivial
    · rename_i h; rw [h] at this; exact this
    · rename_i h; rw [h] at this; exact this
  · simp [Out.inputLE]

theorem controlFrame_inputLE (h : Hdr) (s : RState) : (controlFrame h s).inputLE s.input.length := by
  simp only [controlFrame]
  have := readCtlPayload_inputLE s
  split
  · trivial
  · rename_i h; rw [h] at this; exact this
  · rename_i p s1 h; rw [h] at this
    split
    · exact this
    · split
      · simpa [Out.inputLE, sendCtl_input] using this
      · exact inputLE_mono (handleCloseFrame_inputLE p s1) this

theorem advanceFrame_inputLE (s : RState) : (advanceFrame s).inputLE s.input.length := by
  unfold advanceFrame
  refine bind_inputLE (skipPrev_inputLE s) fun _ s1 h1 => ?_
  refine bind_inputLE (inputLE_mono (readHdr_inputLE s1) h1) fun h s2 h2 => ?_
  refine bind_inputLE (inputLE_mono (checkHdr_inputLE h s2) h2) fun _ s3 h3 => ?_
  refine bind_inputLE (inputLE_mono (readLength_inputLE h s3) h3) fun _ s4 h4 => ?_
  refine bind_inputLE (inputLE_mono (readMask_inputLE h s4) h4) fun _ s5 h5 => ?_
  split
  · exact inputLE_mono (dataFrame_inputLE h s5) h5
  · exact inputLE_mono (controlFrame_inputLE h s5) h5

theorem advanceFrame_fail_len {s s' : RState} {e : RErr} (h : advanceFrame s = .fail e s') :
    s'.input.length ≤ s.input.length := by
  have := advanceFrame_inputLE s; rw [h] at this; exact this

/-! ### read limit: the accounting invariant through `NextReader` and `ReadAll` -/

/-- Bytes handed out so far plus bytes still announced never exceed `readLength`, which never
exceeds the limit and never wrapped. -/
def Acct (L : Int) (acc : Bytes) (s : RState) : Prop :=
  s.readLimit = L ∧ 0 ≤ s.readRemaining ∧ (acc.length : Int) + s.readRemaining ≤ s.readLength ∧
  s.readLength < 2 ^ 63 ∧ s.readLength ≤ L

theorem readAllLoop_limit (L : Int) (hL : 0 < L) (fuel : Nat) (acc : Bytes) (s s' : RState)
    (data : Bytes) (e : Option RErr)
    (hacc : (acc.length : Int) ≤ L) (hinv : s.readErr = none → Acct L acc s)
    (h : readAllLoop fuel acc s = .ok (data, e) s') : (data.length : Int) ≤ L := by
  induction fuel generalizing s acc with
  | zero => simp [readAllLoop] at h
  | succ n ih =>
    simp only [readAllLoop] at h
    split at h
    · cases h; exact hacc
    · rename_i hnone
      obtain ⟨hlim, h0, hsum, hlt, hle⟩ := hinv hnone
      split at h
      · rename_i hpos
        split at h
        · cases h; exact hacc
        · rename_i hn
          simp only [List.length_take] at hn h
          have hnpos : 0 < min s.readRemaining.toNat s.input.length := by
            simp only [beq_iff_eq] at hn; omega
          have hnle : (min s.readRemaining.toNat s.input.length : Int) ≤ s.readRemaining := by omega
          refine ih _ _ ?_ ?_ h
          · split <;> simp [maskBytes_length, List.length_take] <;> omega
          · intro _
            refine ⟨hlim, ?_, ?_, hlt, hle⟩
            · show 0 ≤ s.readRemaining - _; omega
            · show ((acc ++ _).length : Int) + (s.readRemaining - _) ≤ s.readLength
              split <;> simp [maskBytes_length, List.length_take] <;> omega
      · rename_i hnpos
        have hr0 : s.readRemaining = 0 := by omega
        split at h
        · cases h; exact hacc
        · split at h
          · cases h
          · exact ih _ _ hacc (by intro hc; cases hc) h
          · rename_i ft s1 hok
            obtain ⟨eff, _, r0, rlt, hcase⟩ := advanceFrame_ok hok
            split at h
            · exact ih _ _ hacc (by intro hc; cases hc) h
            · refine ih _ _ hacc ?_ h
              intro _
              have hacc0 : (acc.length : Int) ≤ s.readLength := by omega
              rcases hcase with ⟨_, hrl, hnn, hlimit⟩ | ⟨_, hr, hrl⟩
              · have hsumEq := wrap64_add_nonneg (by omega) hlt r0 rlt (by rw [← hrl]; exact hnn)
                refine ⟨eff.readLimit.trans hlim, r0, ?_, ?_, ?_⟩
                · rw [hrl, hsumEq]; omega
                · rw [hrl]; exact wrap64_lt _
                · have := hlimit (by rw [hlim]; exact hL); rw [hlim] at this; exact this
              · refine ⟨eff.readLimit.trans hlim, r0, ?_, by rw [hrl]; exact hlt, by rw [hrl]; exact hle⟩
                rw [hr, hrl]; omega

theorem nextReaderLoop_acct (L : Int) (hL : 0 < L) (fuel : Nat) (s s' : RState) (ty : Nat)
    (h0 : 0 ≤ s.readLength) (hlt : s.readLength < 2 ^ 63) (hlim : s.readLimit = L)
    (h : nextReaderLoop fuel s = .ok ty s') :
    s'.readErr = none ∧ Acct L [] s' ∧ s'.input.length + 2 ≤ s.input.length := by
  induction fuel generalizing s with
  | zero => simp [nextReaderLoop] at h
  | succ n ih =>
    simp only [nextReaderLoop] at h
    split at h
    · cases h
    · rename_i hnone
      split at h
      · cases h
      · cases h
      · rename_i ft s1 hok
        obtain ⟨eff, hlen, r0, rlt, hcase⟩ := advanceFrame_ok hok
        have hstep : 0 ≤ s1.readLength ∧ s1.readLength < 2 ^ 63 ∧ (s1.readRemaining ≤ s1.readLength) ∧ s1.readLength ≤ L
            ∨ (s1.readLength = s.readLength ∧ s1.readRemaining = 0 ∧ (ft = PingMessage ∨ ft = PongMessage)) := by
          rcases hcase with ⟨_, hrl, hnn, hlimit⟩ | ⟨hp, hr, hrl⟩
          · left
            have hsumEq := wrap64_add_nonneg h0 hlt r0 rlt (by rw [← hrl]; exact hnn)
            refine ⟨hnn, by rw [hrl]; exact wrap64_lt _, by rw [hrl, hsumEq]; omega, ?_⟩
            have := hlimit (by rw [hlim]; exact hL); rw [hlim] at this; exact this
          · right; exact ⟨hrl, hr, hp⟩
        split at h
        · rename_i hty
          cases h
          rcases hstep with ⟨a, b, c, d⟩ | ⟨_, _, hp⟩
          · exact ⟨eff.readErr.trans hnone, ⟨eff.readLimit.trans hlim, r0, by simpa using c, b, d⟩, hlen⟩
          · exfalso
            simp only [Bool.or_eq_true, beq_iff_eq] at hty
            rcases hp with hp | hp <;> rcases hty with hty | hty <;> rw [hp] at hty <;> cases hty
        · have hs1 : 0 ≤ s1.readLength ∧ s1.readLength < 2 ^ 63 := by
            rcases hstep with ⟨a, b, _, _⟩ | ⟨hrl, _, _⟩
            · exact ⟨a, b⟩
            · rw [hrl]; exact ⟨h0, hlt⟩
          obtain ⟨a, b, c⟩ := ih s1 hs1.1 hs1.2 (eff.readLimit.trans hlim) h
          exact ⟨a, b, by omega⟩

/-- **Read limit.** With a limit `L > 0` configured, whatever the state and whatever bytes the peer
sends (every framing, every 64-bit length, any interleaving of control frames), `ReadMessage` never
hands out more than `L` payload bytes — neither as a delivered message (`e = none`) nor as the
partial data returned next to an error. -/
theorem readMessage_limit (s s' : RState) (m : Msg) (e : Option RErr) (hL : 0 < s.readLimit)
    (h : readMessage s = .ok (m, e) s') : (m.data.length : Int) ≤ s.readLimit := by
  simp only [readMessage] at h
  split at h
  · cases h
  · cases h
  · rename_i ty s1 hnr
    split at h
    · cases h
    · cases h
    · rename_i data e' s2 hra
      cases h
      simp only [nextReader] at hnr
      obtain ⟨hnone, hacct, _⟩ := nextReaderLoop_acct s.readLimit hL _ { s with readLength := 0 } s1 ty
        (by simp) (by show (0 : Int) < 2 ^ 63; decide) rfl hnr
      exact readAllLoop_limit s.readLimit hL _ [] s1 _ _ _ (by simp; omega) (fun _ => hacct) hra

/-! ### sessions: totality, limit on every delivered message -/

theorem nextReaderLoop_len (fuel : Nat) (s s' : RState) (ty : Nat) (h : nextReaderLoop fuel s = .ok ty s') :
    s'.input.length + 2 ≤ s.input.length ∧ s'.readLimit = s.readLimit ∧ s'.readErr = none := by
  induction fuel generalizing s with
  | zero => simp [nextReaderLoop] at h
  | succ n ih =>
    simp only [nextReaderLoop] at h
    split at h
    · cases h
    · rename_i hnone
      split at h
      · cases h
      · cases h
      · rename_i ft s1 hok
        obtain ⟨eff, hlen, _⟩ := advanceFrame_ok hok
        split at h
        · cases h; exact ⟨hlen, eff.readLimit, eff.readErr.trans hnone⟩
        · obtain ⟨a, b, c⟩ := ih s1 h
          exact ⟨by omega, b.trans eff.readLimit, c⟩

theorem readAllLoop_done (fuel : Nat) (acc : Bytes) (s s' : RState) (data : Bytes)
    (h : readAllLoop fuel acc s = .ok (data, none) s') :
    s'.input.length ≤ s.input.length ∧ s'.readLimit = s.readLimit ∧ s'.readErr = none := by
  induction fuel generalizing s acc with
  | zero => simp [readAllLoop] at h
  | succ n ih =>
    simp only [readAllLoop] at h
    split at h
    · cases h
    · rename_i hnone
      split at h
      · split at h
        · cases h
        · obtain ⟨a, b, c⟩ := ih _ _ h
          simp only [List.length_drop] at a
          exact ⟨by omega, b, c⟩
      · split at h
        · cases h; exact ⟨Nat.le_refl _, rfl, hnone⟩
        · split at h
          · cases h
          · rename_i e s1 _
            cases n with
            | zero => simp [readAllLoop] at h
            | succ k => rw [readAllLoop_err k acc _ e rfl] at h; cases h
          · rename_i ft s1 hok
            obtain ⟨eff, hlen, _⟩ := advanceFrame_ok hok
            split at h
            · cases n with
              | zero => simp [readAllLoop] at h
              | succ k => rw [readAllLoop_err k acc _ .internal rfl] at h; cases h
            · obtain ⟨a, b, c⟩ := ih _ _ h
              exact ⟨by omega, b.trans eff.readLimit, c⟩

theorem readMessage_ne_panic (s : RState) : readMessage s ≠ .panic := by
  simp only [readMessage]
  split
  · rename_i h; exact absurd h (nextReader_ne_panic s)
  · simp
  · rename_i ty s1 _
    split
    · rename_i h; exact absurd h (readAllLoop_ne_panic _ _ _ (by omega))
    · simp
    · simp

theorem readMessage_done {s s' : RState} {m : Msg} (h : readMessage s = .ok (m, none) s') :
    s'.input.length + 2 ≤ s.input.length ∧ s'.readLimit = s.readLimit := by
  simp only [readMessage] at h
  split at h
  · cases h
  · cases h
  · rename_i ty s1 hnr
    split at h
    · cases h
    · cases h
    · rename_i hra
      cases h
      simp only [nextReader] at hnr
      obtain ⟨a, b, _⟩ := nextReaderLoop_len _ _ _ _ hnr
      obtain ⟨c, d, _⟩ := readAllLoop_done _ _ _ _ _ hra
      exact ⟨by simp at a; omega, d.trans b⟩

/-- Every finite stream ends the session in an error: the session loop always produces a trace
(its fuel is never exhausted, nothing panics). -/
theorem sessionLoop_total (fuel : Nat) (s : RState) (acc : List Msg) (h : s.input.length + 2 ≤ fuel) :
    ∃ t, sessionLoop fuel s acc = some t := by
  induction fuel generalizing s acc with
  | zero => omega
  | succ n ih =>
    simp only [sessionLoop]
    split
    · rename_i m s1 hrm
      have := (readMessage_done hrm).1
      exact ih s1 _ (by omega)
    · exact ⟨_, rfl⟩
    · exact ⟨_, rfl⟩
    · rename_i hp; exact absurd hp (readMessage_ne_panic s)

theorem session_total (s : RState) : ∃ t, session s = some t :=
  sessionLoop_total _ s [] (Nat.le_refl _)

theorem sessionLoop_limit (L : Int) (hL : 0 < L) (fuel : Nat) (s : RState) (acc : List Msg) (t : Trace)
    (hs : s.readLimit = L) (hacc : ∀ m ∈ acc, (m.data.length : Int) ≤ L)
    (h : sessionLoop fuel s acc = some t) :
    (∀ m ∈ t.msgs, (m.data.length : Int) ≤ L) ∧ (t.partialLen : Int) ≤ L := by
  induction fuel generalizing s acc with
  | zero => simp [sessionLoop] at h
  | succ n ih =>
    simp only [sessionLoop] at h
    split at h
    · rename_i m s1 hrm
      have hm := readMessage_limit s s1 m none (by rw [hs]; exact hL) hrm
      refine ih s1 _ ((readMessage_done hrm).2.trans hs) ?_ h
      intro x hx
      rcases List.mem_append.mp hx with hx | hx
      · exact hacc x hx
      · simp at hx; subst hx; rw [hs] at hm; exact hm
    · rename_i m e s1 hrm
      have hm := readMessage_limit s s1 m (some e) (by rw [hs]; exact hL) hrm
      cases h
      exact ⟨hacc, by rw [hs] at hm; exact hm⟩
    · cases h; exact ⟨hacc, by simp; omega⟩
    · cases h

/-! ### symbolic execution of `advanceFrame` on the wire image of a spec frame -/

/-- The Go bit operations on the two header bytes recover the spec's fields. -/
theorem decodeHdr_bytes (f : Frame) (hop : f.opcode < 16) (h7 : len7 f < 128) :
    decodeHdr (byte0 f) (byte1 f) =
      { final := f.fin, rsv1 := f.rsv1, rsv23 := f.rsv2 || f.rsv3, frameType := f.opcode,
        mask := f.masked, len7 := len7 f } := by
  have k0 : ∀ (a b c d : Bool) (o : Fin 16),
      let x := UInt8.ofNat (128 * b2n a + 64 * b2n b + 32 * b2n c + 16 * b2n d + o.val)
      (x &&& UInt8.ofNat finalBit != 0) = a ∧ (x &&& UInt8.ofNat rsv1Bit != 0) = b ∧
      (x &&& UInt8.ofNat (rsv2Bit + rsv3Bit) != 0) = (c || d) ∧ (x &&& 0xf).toNat = o.val := by decide
  have k1 : ∀ (m : Bool) (l : Fin 128),
      let y := UInt8.ofNat (128 * b2n m + l.val)
      (y &&& UInt8.ofNat maskBit != 0) = m ∧ (y &&& 0x7f).toNat = l.val := by decide
  obtain ⟨e1, e2, e3, e4⟩ := k0 f.fin f.rsv1 f.rsv2 f.rsv3 ⟨f.opcode, hop⟩
  obtain ⟨e5, e6⟩ := k1 f.masked ⟨len7 f, h7⟩
  simp only [decodeHdr, byte0, byte1]
  simp only at e1 e2 e3 e4 e5 e6
  rw [e1, e2, e3, e4, e5, e6]

theorem len7_lt (f : Frame) (h : f.WF) : len7 f < 128 := by
  obtain ⟨_, hf, h0, _, _, _, _⟩ := h
  unfold len7; split
  · rename_i h0'; have := h0 h0'; omega
  · omega
  · omega

theorem wrap64_nat_nonneg {n : Nat} (h : n < 2 ^ 63) : wrap64 (n : Int) = (n : Int) := wrap64_of_lt h

/-- Stage 3 on the spec's extended-length bytes. -/
theorem readLength_frame (f : Frame) (hwf : f.WF) (h : Hdr) (h7 : h.len7 = len7 f) (s : RState) (tail : Bytes)
    (hin : s.input = extLen f ++ tail) (hr : s.readRemaining = wrap64 (len7 f)) :
    readLength h s =
      if 2 ^ 63 ≤ f.len then protoErr { s with input := tail, readRemaining := wrap64 f.len }
      else .ok () { s with input := tail, readRemaining := f.len } := by
  obtain ⟨_, hform, h0, h1, h2, _, _⟩ := hwf
  have hcases : f.lenForm = 0 ∨ f.lenForm = 1 ∨ f.lenForm = 2 := by omega
  rcases hcases with hf | hf | hf
  · have hl := h0 hf
    have e7 : len7 f = f.len := by simp [len7, hf]
    have ee : extLen f = [] := by simp [extLen, hf]
    have hnot : ¬ (2 ^ 63 ≤ f.len) := by omega
    have hs : s = { s with input := tail, readRemaining := (f.len : Int) } := by
      cases s; simp_all [wrap64_of_lt (show f.len < 2 ^ 63 by omega)]
    simp only [readLength, h7, e7, hnot, if_false]
    have n1 : (f.len == 126) = false := by simp; omega
    have n2 : (f.len == 127) = false := by simp; omega
    simp only [n1, n2, Bool.false_eq_true, if_false]
    exact congrArg _ hs
  · have hl := h1 hf
    have e7 : len7 f = 126 := by simp [len7, hf]
    have ee : extLen f = be 2 f.len := by simp [extLen, hf]
    have hnot : ¬ (2 ^ 63 ≤ f.len) := by omega
    have h2' : 2 ≤ s.input.length := by rw [hin, ee]; simp
    have ht : s.input.take 2 = be 2 f.len := by rw [hin, ee]; exact take_append_len _ _ (by simp)
    have hd : s.input.drop 2 = tail := by rw [hin, ee]; exact drop_append_len _ _ (by simp)
    have hv : ofBE (be 2 f.len) = f.len := ofBE_be_of_lt (by omega)
    simp [readLength, h7, e7, hnot, readN_eq, h2', ht, hd, hv, wrap64_of_lt (show f.len < 2 ^ 63 by omega)]
  · have hl := h2 hf
    have e7 : len7 f = 127 := by simp [len7, hf]
    have ee : extLen f = be 8 f.len := by simp [extLen, hf]
    have h8 : 8 ≤ s.input.length := by rw [hin, ee]; simp
    have ht : s.input.take 8 = be 8 f.len := by rw [hin, ee]; exact take_append_len _ _ (by simp)
    have hd : s.input.drop 8 = tail := by rw [hin, ee]; exact drop_append_len _ _ (by simp)
    have hv : ofBE (be 8 f.len) = f.len := ofBE_be_of_lt (by omega)
    by_cases htop : 2 ^ 63 ≤ f.len
    · have hneg := wrap64_neg_of_ge htop hl
      simp [readLength, h7, e7, htop, readN_eq, h8, ht, hd, hv, hneg]
    · simp [readLength, h7, e7, htop, readN_eq, h8, ht, hd, hv, wrap64_of_lt (show f.len < 2 ^ 63 by omega)]
      intro hneg; omega

/-- The header of a spec frame as `readHdr` decodes it. -/
def hdrOf (f : Frame) : Hdr :=
  { final := f.fin, rsv1 := f.rsv1, rsv23 := f.rsv2 || f.rsv3, frameType := f.opcode, mask := f.masked, len7 := len7 f }

/-- What `checkHdr` rejects, as a function of the frame and the two state bits it looks at. -/
def hdrBad (decompress readFinal : Bool) (f : Frame) : Bool :=
  (f.rsv1 && !(decompress && f.rsv1 && isData f.opcode)) || (f.rsv2 || f.rsv3)
  || (if isControl f.opcode then (decide (len7 f > maxControlFramePayloadSize) || !f.fin)
      else if isData f.opcode then !readFinal
      else if f.opcode == continuationFrame then readFinal
      else true)

theorem checkHdr_frame (f : Frame) (s : RState) :
    checkHdr (hdrOf f) s =
      if hdrBad s.decompress s.readFinal f then
        protoErr { s with readDecompress := s.decompress && f.rsv1 && isData f.opcode }
      else .ok () { s with readDecompress := s.decompress && f.rsv1 && isData f.opcode,
                           readFinal := if isControl f.opcode then s.readFinal else f.fin } := by
  simp only [checkHdr, hdrOf, hdrBad]
  by_cases h1 : ((f.rsv1 && !(s.decompress && f.rsv1 && isData f.opcode)) || (f.rsv2 || f.rsv3)) = true
  · simp only [h1, if_true, Bool.true_or]
  · simp only [h1, Bool.false_eq_true, if_false, Bool.false_or]
    by_cases hc : isControl f.opcode = true
    · simp only [hc, if_true]
      by_cases hl : len7 f > maxControlFramePayloadSize
      · simp [hl]
      · by_cases hf : f.fin = true
        · simp [hl, hf]
        · simp [hl, hf]
    · simp only [hc, Bool.false_eq_true, if_false]
      by_cases hd : isData f.opcode = true
      · simp only [hd, if_true]
        try (cases s.readFinal <;> simp)
      · simp only [hd, Bool.false_eq_true, if_false]
        by_cases h0 : (f.opcode == continuationFrame) = true
        · simp only [h0, if_true]
          try (cases s.readFinal <;> simp)
        · simp [h0]

/-- Stage 4 on the spec's key bytes. -/
theorem readMask_frame (f : Frame) (hwf : f.WF) (s : RState) (tail : Bytes)
    (hin : s.input = (if f.masked then f.key else []) ++ tail) :
    readMask (hdrOf f) s =
      if f.masked != s.isServer then protoErr s
      else .ok () (if f.masked then { s with input := tail, maskPos := 0, maskKey := f.key } else { s with input := tail }) := by
  obtain ⟨_, _, _, _, _, hk, _⟩ := hwf
  simp only [readMask, hdrOf]
  by_cases hm : (f.masked != s.isServer) = true
  · simp [hm]
  · simp only [hm, Bool.false_eq_true, if_false]
    by_cases hmm : f.masked = true
    · simp only [hmm, if_true] at hin hk ⊢
      have h4 : 4 ≤ s.input.length := by rw [hin]; simp [hk]
      have ht : s.input.take 4 = f.key := by rw [hin]; exact take_append_len _ _ hk
      have hd : s.input.drop 4 = tail := by rw [hin]; exact drop_append_len _ _ hk
      simp [readN_eq, h4, ht, hd]
    · simp only [hmm, Bool.false_eq_true, if_false] at hin ⊢
      have : s = { s with input := tail } := by cases s; simp_all
      exact congrArg _ this

theorem maskBytes_eq_xorMask (key : Bytes) (pos : Nat) (bs : Bytes) : maskBytes key pos bs = xorMask key pos bs := by
  induction bs generalizing pos with
  | nil => rfl
  | cons b bs ih => simp [maskBytes, xorMask, ih]

theorem xorMask_involution (key : Bytes) (pos : Nat) (bs : Bytes) : xorMask key pos (xorMask key pos bs) = bs := by
  induction bs generalizing pos with
  | nil => rfl
  | cons b bs ih =>
    simp only [xorMask, ih]
    rw [UInt8.xor_assoc, UInt8.xor_self, UInt8.xor_zero]

theorem xorMask_length (key : Bytes) (pos : Nat) (bs : Bytes) : (xorMask key pos bs).length = bs.length := by
  induction bs generalizing pos with
  | nil => rfl
  | cons b bs ih => simp [xorMask, ih]

theorem wirePayload_length (f : Frame) : (wirePayload f).length = f.payload.length := by
  unfold wirePayload; split <;> simp [xorMask_length]

/-- Stage 6 on the spec's payload bytes: the control payload comes out unmasked. -/
theorem readCtlPayload_frame (f : Frame) (hwf : f.WF) (s : RState) (rest : Bytes)
    (hin : s.input = wirePayload f ++ rest) (hr : s.readRemaining = f.len)
    (hrole : f.masked = s.isServer) (hkey : f.masked = true → s.maskKey = f.key) :
    readCtlPayload s = .ok f.payload { s with input := rest, readRemaining := 0 } := by
  obtain ⟨_, _, _, _, _, _, hpl⟩ := hwf
  simp only [readCtlPayload]
  have hwl : (wirePayload f).length = f.len := by rw [wirePayload_length, hpl]
  by_cases hpos : s.readRemaining > 0
  · simp only [hpos, if_true]
    have hn : s.readRemaining.toNat = f.len := by rw [hr]; simp
    have hle : f.len ≤ s.input.length := by rw [hin]; simp [hwl]
    have ht : s.input.take f.len = wirePayload f := by rw [hin]; exact take_append_len _ _ hwl
    have hd : s.input.drop f.len = rest := by rw [hin]; exact drop_append_len _ _ hwl
    simp only [readN_eq, hn, hle, if_true, ht, hd]
    cases hs : s.isServer
    · simp [wirePayload, hrole, hs]
    · have hm : f.masked = true := by rw [hrole, hs]
      simp [wirePayload, hm, hkey hm, maskBytes_eq_xorMask, xorMask_involution]
  · have h0 : f.len = 0 := by rw [hr] at hpos; omega
    have hp : f.payload = [] := List.eq_nil_of_length_eq_zero (by rw [hpl, h0])
    have hw : wirePayload f = [] := List.eq_nil_of_length_eq_zero (by rw [hwl, h0])
    simp only [hpos, if_false]
    have : s = { s with input := rest, readRemaining := 0 } := by
      cases s; simp_all
    rw [hp]; exact congrArg _ this

/-- A protocol failure as `handleProtocolError` leaves it: Close 1002 appended to the replies (unless a
Close went out before), close latch set. -/
def ProtoFail (s : RState) (o : Out Nat) : Prop :=
  ∃ s', o = .fail .proto s' ∧ s'.closeSent = true ∧
    s'.replies = if s.closeSent then s.replies else s.replies ++ [(CloseMessage, be 2 CloseProtocolError)]

theorem protoErr_fail (s0 s : RState) (hr : s.replies = s0.replies) (hc : s.closeSent = s0.closeSent) :
    ProtoFail s0 (protoErr s) := by
  refine ⟨_, rfl, ?_, ?_⟩
  · unfold sendCtl; split
    · assumption
    · simp [CloseMessage]
  · unfold sendCtl; rw [← hc, ← hr]; split <;> simp_all

/-- State after the header, length and mask stages of a frame that passes them. -/
def afterHdr (s : RState) (f : Frame) (rest : Bytes) : RState :=
  { s with input := wirePayload f ++ rest, readRemaining := f.len,
           readDecompress := s.decompress && f.rsv1 && isData f.opcode,
           readFinal := if isControl f.opcode then s.readFinal else f.fin,
           maskPos := if f.masked then 0 else s.maskPos,
           maskKey := if f.masked then f.key else s.maskKey }

/-- intermediate states of the symbolic execution -/
def st1 (s : RState) (f : Frame) (rest : Bytes) : RState :=
  { s with input := extLen f ++ ((if f.masked then f.key else []) ++ (wirePayload f ++ rest)),
           readRemaining := wrap64 (len7 f) }
def st2 (s : RState) (f : Frame) (rest : Bytes) : RState :=
  { st1 s f rest with readDecompress := s.decompress && f.rsv1 && isData f.opcode,
                      readFinal := if isControl f.opcode then s.readFinal else f.fin }
def st3 (s : RState) (f : Frame) (rest : Bytes) : RState :=
  { st2 s f rest with input := (if f.masked then f.key else []) ++ (wirePayload f ++ rest),
                      readRemaining := (f.len : Int) }

def tailF (h : Hdr) : M Nat :=
  if h.frameType == continuationFrame || isData h.frameType then dataFrame h else controlFrame h
def afterLen (h : Hdr) : M Nat := readMask h >>= fun _ => tailF h
def afterChk (h : Hdr) : M Nat := readLength h >>= fun _ => afterLen h

theorem advanceFrame_unfold :
    advanceFrame = (skipPrev >>= fun _ => readHdr >>= fun h => checkHdr h >>= fun _ => afterChk h) := rfl

/-- `advanceFrame` on the wire image of a well-formed frame as one chain of decisions (symbolic
execution through the header, length and mask stages). -/
theorem advanceFrame_eq (s : RState) (f : Frame) (rest : Bytes) (hwf : f.WF)
    (hr : s.readRemaining ≤ 0) (hin : s.input = serialise f ++ rest) :
    advanceFrame s =
      if hdrBad s.decompress s.readFinal f then
        protoErr { st1 s f rest with readDecompress := s.decompress && f.rsv1 && isData f.opcode }
      else if 2 ^ 63 ≤ f.len then
        protoErr { st2 s f rest with input := (if f.masked then f.key else []) ++ (wirePayload f ++ rest),
                                     readRemaining := wrap64 f.len }
      else if f.masked != s.isServer then protoErr (st3 s f rest)
      else tailF (hdrOf f) (afterHdr s f rest) := by
  have h7 := len7_lt f hwf
  have hin' : s.input = byte0 f :: byte1 f :: (extLen f ++ (((if f.masked then f.key else []) ++ (wirePayload f ++ rest)))) := by
    rw [hin]; simp [serialise, List.append_assoc]
  have hdec := decodeHdr_bytes f hwf.1 h7
  have e1 : advanceFrame s = (checkHdr (hdrOf f) >>= fun _ => afterChk (hdrOf f)) (st1 s f rest) := by
    rw [advanceFrame_unfold, bind_def, skipPrev_noop s hr]
    simp only
    rw [bind_def, readHdr_ok s _ _ _ hin', hdec]
    rfl
  have e2 : (checkHdr (hdrOf f) >>= fun _ => afterChk (hdrOf f)) (st1 s f rest) =
      if hdrBad s.decompress s.readFinal f then
        protoErr { st1 s f rest with readDecompress := s.decompress && f.rsv1 && isData f.opcode }
      else afterChk (hdrOf f) (st2 s f rest) := by
    rw [bind_def, checkHdr_frame f (st1 s f rest)]
    by_cases hb : hdrBad s.decompress s.readFinal f = true
    · have hb' : hdrBad (st1 s f rest).decompress (st1 s f rest).readFinal f = true := hb
      simp only [hb, hb', if_true]; rfl
    · have hb' : ¬ hdrBad (st1 s f rest).decompress (st1 s f rest).readFinal f = true := hb
      simp only [hb, hb']; rfl
  have e3 : afterChk (hdrOf f) (st2 s f rest) =
      if 2 ^ 63 ≤ f.len then
        protoErr { st2 s f rest with input := (if f.masked then f.key else []) ++ (wirePayload f ++ rest),
                                     readRemaining := wrap64 f.len }
      else afterLen (hdrOf f) (st3 s f rest) := by
    unfold afterChk
    rw [bind_def, readLength_frame f hwf (hdrOf f) rfl (st2 s f rest) _ rfl rfl]
    by_cases ht : 2 ^ 63 ≤ f.len
    · simp only [ht, if_true]; rfl
    · simp only [ht, if_false]; rfl
  have e4 : afterLen (hdrOf f) (st3 s f rest) =
      if f.masked != s.isServer then protoErr (st3 s f rest) else tailF (hdrOf f) (afterHdr s f rest) := by
    unfold afterLen
    rw [bind_def, readMask_frame f hwf (st3 s f rest) _ rfl]
    have hsv : (st3 s f rest).isServer = s.isServer := rfl
    rw [hsv]
    by_cases hm : (f.masked != s.isServer) = true
    · simp only [hm, if_true]; rfl
    · simp only [hm, Bool.false_eq_true, if_false]
      refine congrArg (tailF (hdrOf f)) ?_
      unfold afterHdr st3 st2 st1
      cases f.masked <;> simp
  rw [e1, e2, e3, e4]

/-- The two facts the refinement proof uses. -/
theorem advanceFrame_frame (s : RState) (f : Frame) (rest : Bytes) (hwf : f.WF)
    (hr : s.readRemaining ≤ 0) (hin : s.input = serialise f ++ rest) :
    ((hdrBad s.decompress s.readFinal f = true ∨ 2 ^ 63 ≤ f.len ∨ f.masked ≠ s.isServer) →
        ProtoFail s (advanceFrame s)) ∧
    (hdrBad s.decompress s.readFinal f = false → ¬ 2 ^ 63 ≤ f.len → f.masked = s.isServer →
        advanceFrame s = tailF (hdrOf f) (afterHdr s f rest)) := by
  rw [advanceFrame_eq s f rest hwf hr hin]
  refine ⟨fun h => ?_, fun h1 h2 h3 => ?_⟩
  · split
    · exact protoErr_fail s _ rfl rfl
    · rename_i hb
      split
      · exact protoErr_fail s _ rfl rfl
      · rename_i ht
        split
        · exact protoErr_fail s _ rfl rfl
        · rename_i hm
          rcases h with h | h | h
          · exact absurd h hb
          · exact absurd h ht
          · exact absurd (by simpa using hm) h
  · simp [h1, h2, h3]

def roleOf (isServer : Bool) : Role := if isServer then .server else .client

theorem isControl_eq (n : Nat) : isControl n = Spec.Ws.isControl n := by
  simp [isControl, Spec.Ws.isControl, CloseMessage, PingMessage, PongMessage]
theorem isData_eq (n : Nat) : isData n = Spec.Ws.isDataStart n := by
  simp [isData, Spec.Ws.isDataStart, TextMessage, BinaryMessage]

theorem len7_gt_iff (f : Frame) (h : f.WF) : (len7 f > 125) ↔ (125 < f.len ∨ f.lenForm ≠ 0) := by
  obtain ⟨_, hf, h0, _, _, _, _⟩ := h
  have hcases : f.lenForm = 0 ∨ f.lenForm = 1 ∨ f.lenForm = 2 := by omega
  rcases hcases with hc | hc | hc
  · have := h0 hc; simp [len7, hc]
  · simp [len7, hc]
  · simp [len7, hc]

/-- The spec's list of violations is what the model rejects in its four places: header checks,
length top bit, mask rule, close body. -/
theorem violation_eq (isServer d readFinal : Bool) (f : Frame) (h : f.WF) :
    Spec.Ws.violation (roleOf isServer) d (!readFinal) f =
      (hdrBad d readFinal f || decide (2 ^ 63 ≤ f.len) || (f.masked != isServer) ||
        (f.opcode == 8 && Spec.Ws.closeBodyBad f.payload)) := by
  have hl := len7_gt_iff f h
  have hrole : (roleOf isServer == Role.server) = isServer := by cases isServer <;> rfl
  unfold Spec.Ws.violation hdrBad
  rw [hrole, isControl_eq, isData_eq]
  simp only [maxControlFramePayloadSize, continuationFrame]
  generalize (f.masked != isServer) = mk
  generalize decide (2 ^ 63 ≤ f.len) = tp
  by_cases hc : Spec.Ws.isControl f.opcode = true
  · have hnd : Spec.Ws.isDataStart f.opcode = false := by
      simp only [Spec.Ws.isControl, Spec.Ws.isDataStart, Bool.or_eq_true, beq_iff_eq] at hc ⊢
      rcases hc with (h | h) | h <;> simp [h]
    have hn0 : (f.opcode == 0) = false := by
      simp only [Spec.Ws.isControl, Bool.or_eq_true, beq_iff_eq] at hc
      rcases hc with (h | h) | h <;> simp [h]
    have hk : Spec.Ws.knownOpcode f.opcode = true := by simp [Spec.Ws.knownOpcode, hc]
    simp only [hc, hnd, hn0, hk, if_true]
    by_cases hg : len7 f > 125
    · have := hl.mp hg
      rcases this with h1 | h1
      · cases mk <;> cases tp <;> cases f.rsv1 <;> cases f.rsv2 <;> cases f.rsv3 <;> cases f.fin <;> cases d <;> simp [hg, h1]
      · have h1' : (f.lenForm != 0) = true := by simpa using h1
        cases mk <;> cases tp <;> cases f.rsv1 <;> cases f.rsv2 <;> cases f.rsv3 <;> cases f.fin <;> cases d <;> simp [hg, h1']
    · have := (not_congr hl).mp hg
      have h1 : ¬ 125 < f.len := fun hh => this (Or.inl hh)
      have h2 : (f.lenForm != 0) = false := by
        have : ¬ f.lenForm ≠ 0 := fun hh => this (Or.inr hh)
        simpa using this
      cases mk <;> cases tp <;> cases f.rsv1 <;> cases f.rsv2 <;> cases f.rsv3 <;> cases f.fin <;> cases d <;> simp [hg, h1, h2]
  · have hc' : Spec.Ws.isControl f.opcode = false := by simpa using hc
    have hn8 : (f.opcode == 8) = false := by
      simp only [Spec.Ws.isControl, Bool.or_eq_false_iff, beq_eq_false_iff_ne] at hc'
      simpa using hc'.1.1
    simp only [hc', hn8, Bool.false_eq_true, if_false, Bool.false_and, Bool.or_false]
    by_cases hd : Spec.Ws.isDataStart f.opcode = true
    · have hn0 : (f.opcode == 0) = false := by
        simp only [Spec.Ws.isDataStart, Bool.or_eq_true, beq_iff_eq] at hd
        rcases hd with h | h <;> simp [h]
      have hk : Spec.Ws.knownOpcode f.opcode = true := by simp [Spec.Ws.knownOpcode, hd]
      simp only [hd, hn0, hk, if_true]
      cases mk <;> cases tp <;> cases f.rsv1 <;> cases f.rsv2 <;> cases f.rsv3 <;> cases readFinal <;> cases d <;> simp
    · have hd' : Spec.Ws.isDataStart f.opcode = false := by simpa using hd
      simp only [hd', Bool.false_eq_true, if_false]
      by_cases h0 : (f.opcode == 0) = true
      · have hk : Spec.Ws.knownOpcode f.opcode = true := by simp [Spec.Ws.knownOpcode, h0]
        simp only [h0, hk, if_true]
        cases mk <;> cases tp <;> cases f.rsv1 <;> cases f.rsv2 <;> cases f.rsv3 <;> cases readFinal <;> cases d <;> simp
      · have h0' : (f.opcode == 0) = false := by simpa using h0
        have hk : Spec.Ws.knownOpcode f.opcode = false := by simp [Spec.Ws.knownOpcode, h0', hd', hc']
        simp only [h0', hk, Bool.false_eq_true, if_false]
        cases mk <;> cases tp <;> cases f.rsv1 <;> cases f.rsv2 <;> cases f.rsv3 <;> simp

/-- The set of close codes the Go source accepts (evaluated for every 16-bit code by the translator) is the
RFC 6455 §7.4 / IANA set of the spec. The proof does not depend on how the generated runs are cut. -/
theorem closeCode_eq (c : Nat) : Spec.Ws.validCloseCode c = isValidReceivedCloseCode c := by
  rw [Bool.eq_iff_iff]
  simp only [Spec.Ws.validCloseCode, isValidReceivedCloseCode, closeCodeAccepted, Bool.or_eq_true, Bool.and_eq_true,
    beq_iff_eq, decide_eq_true_eq]
  omega

theorem inR_iff (b : UInt8) (lo hi : Nat) : Spec.Ws.inR b lo hi = (decide (lo ≤ b.toNat) && decide (b.toNat ≤ hi)) := rfl
theorem tailB_iff (b : UInt8) : Spec.Ws.tailB b = (decide (0x80 ≤ b.toNat) && decide (b.toNat ≤ 0xBF)) := rfl

/-- Go's `utf8.ValidString` as modelled = the RFC 3629 ABNF of the spec. -/
theorem utf8ValidF_eq (n : Nat) (bs : Bytes) : Spec.Ws.utf8ValidF n bs = utf8ValidF n bs := by
  induction n generalizing bs with
  | zero => cases bs <;> rfl
  | succ n ih =>
    cases bs with
    | nil => rfl
    | cons a rest =>
      simp only [Spec.Ws.utf8ValidF, utf8ValidF, inR_iff, tailB_iff]
      have hx := UInt8.toNat_lt a
      by_cases h1 : a.toNat < 0x80
      · have e0 : a.toNat ≤ 0x7F := by omega
        simp [h1, e0, ih]
      · by_cases h2 : a.toNat < 0xC2
        · have : ¬ (0xC2 ≤ a.toNat) := by omega
          have h3 : ¬ (0xE0 ≤ a.toNat) := by omega
          have h4 : ¬ (0xF0 ≤ a.toNat) := by omega
          simp [h1, h2, this, h3, h4, show ¬ a.toNat ≤ 0x7F by omega]
        · by_cases h3 : a.toNat < 0xE0
          · have e1 : ¬ a.toNat ≤ 0x7F := by omega
            have e2 : 0xC2 ≤ a.toNat := by omega
            have e3 : a.toNat ≤ 0xDF := by omega
            cases rest with
            | nil => simp [h1, h2, h3, e1, e2, e3]
            | cons b r => simp [h1, h2, h3, e1, e2, e3, ih]
          · by_cases h4 : a.toNat < 0xF0
            · have e1 : ¬ a.toNat ≤ 0x7F := by omega
              have e2 : ¬ a.toNat ≤ 0xDF := by omega
              have e3 : 0xE0 ≤ a.toNat := by omega
              have e4 : a.toNat ≤ 0xEF := by omega
              match rest with
              | [] => simp [h1, h2, h3, h4, e1, e2, e3, e4]
              | [_] => simp [h1, h2, h3, h4, e1, e2, e3, e4]
              | b :: c :: r =>
                simp only [h1, h2, h3, h4, e1, e2, e3, e4, ih, decide_true, decide_false, Bool.and_true,
                  Bool.and_false, if_true, if_false, Bool.false_eq_true]
                by_cases ha : a.toNat = 0xE0
                · simp [ha]
                · by_cases hb : a.toNat = 0xED
                  · simp [hb]
                  · simp [ha, hb]
            · by_cases h5 : a.toNat < 0xF5
              · have e1 : ¬ a.toNat ≤ 0x7F := by omega
                have e2 : ¬ a.toNat ≤ 0xDF := by omega
                have e3 : ¬ a.toNat ≤ 0xEF := by omega
                have e4 : 0xF0 ≤ a.toNat := by omega
                have e5 : a.toNat ≤ 0xF4 := by omega
                match rest with
                | [] => simp [h1, h2, h3, h4, h5, e1, e2, e3, e4, e5]
                | [_] => simp [h1, h2, h3, h4, h5, e1, e2, e3, e4, e5]
                | [_, _] => simp [h1, h2, h3, h4, h5, e1, e2, e3, e4, e5]
                | b :: c :: d :: r =>
                  simp only [h1, h2, h3, h4, h5, e1, e2, e3, e4, e5, ih, decide_true, decide_false, Bool.and_true,
                    Bool.and_false, if_true, if_false, Bool.false_eq_true]
                  by_cases ha : a.toNat = 0xF0
                  · simp [ha]
                  · by_cases hb : a.toNat = 0xF4
                    · simp [hb]
                    · simp [ha, hb]
              · have e1 : ¬ a.toNat ≤ 0x7F := by omega
                have e2 : ¬ a.toNat ≤ 0xDF := by omega
                have e3 : ¬ a.toNat ≤ 0xEF := by omega
                have e4 : ¬ a.toNat ≤ 0xF4 := by omega
                simp [h1, h2, h3, h4, h5, e1, e2, e3, e4]

theorem utf8Valid_eq (bs : Bytes) : Spec.Ws.utf8Valid bs = utf8Valid bs := utf8ValidF_eq _ bs

/-- A healthy state at a frame boundary. -/
structure Bnd (s : RState) : Prop where
  rem : s.readRemaining = 0
  err : s.readErr = none
  cs : s.closeSent = false
  len0 : 0 ≤ s.readLength
  len1 : s.readLength < 2 ^ 63
  lim0 : 0 ≤ s.readLimit
  lim1 : s.readLimit < 2 ^ 63

/-- The largest message the reader accepts: the configured limit, or what an `int64` can count. -/
def capOf (L : Int) : Nat := if L > 0 then L.toNat else 2 ^ 63 - 1

/-- Same connection configuration. -/
def Cfg (s s' : RState) : Prop :=
  s'.isServer = s.isServer ∧ s'.decompress = s.decompress ∧ s'.readLimit = s.readLimit

theorem sendCtl_open (op : Nat) (p : Bytes) (s : RState) (h : s.closeSent = false) :
    sendCtl op p s = { s with replies := s.replies ++ [(op, p)], closeSent := op == CloseMessage } := by
  simp [sendCtl, h]

/-- the spec's violation predicate, instantiated for the model state -/
def violOf (s : RState) (f : Frame) : Bool := Spec.Ws.violation (roleOf s.isServer) s.decompress (!s.readFinal) f

theorem violOf_false {s : RState} {f : Frame} (hwf : f.WF) (h : violOf s f = false) :
    hdrBad s.decompress s.readFinal f = false ∧ ¬ 2 ^ 63 ≤ f.len ∧ f.masked = s.isServer ∧
    (f.opcode = 8 → Spec.Ws.closeBodyBad f.payload = false) := by
  unfold violOf at h
  rw [violation_eq s.isServer s.decompress s.readFinal f hwf] at h
  simp only [Bool.or_eq_false_iff, Bool.and_eq_false_imp, beq_iff_eq, decide_eq_false_iff_not, bne_eq_false_iff_eq] at h
  exact ⟨h.1.1.1, h.1.1.2, h.1.2, h.2⟩

theorem tailF_ctl (h : Hdr) (hc : isControl h.frameType = true) : tailF h = controlFrame h := by
  unfold tailF
  have : (h.frameType == continuationFrame || isData h.frameType) = false := by
    simp only [isControl, CloseMessage, PingMessage, PongMessage, Bool.or_eq_true, beq_iff_eq] at hc
    simp only [continuationFrame, isData, TextMessage, BinaryMessage]
    rcases hc with (h | h) | h <;> simp [h]
  simp [this]

theorem tailF_data (h : Hdr) (hc : (h.frameType == continuationFrame || isData h.frameType) = true) :
    tailF h = dataFrame h := by
  unfold tailF; simp [hc]

theorem controlFrame_of_payload (h : Hdr) (s s1 : RState) (p : Bytes) (hp : readCtlPayload s = .ok p s1) :
    controlFrame h s =
      if h.frameType == PongMessage then .ok h.frameType s1
      else if h.frameType == PingMessage then .ok h.frameType (sendCtl PongMessage p s1)
      else handleCloseFrame p s1 := by
  simp only [controlFrame, hp]

/-- the control payload of a frame that passed the first stages -/
theorem ctlPayload_afterHdr (s : RState) (f : Frame) (rest : Bytes) (hwf : f.WF) (hm : f.masked = s.isServer) :
    readCtlPayload (afterHdr s f rest) = .ok f.payload { afterHdr s f rest with input := rest, readRemaining := 0 } :=
  readCtlPayload_frame f hwf (afterHdr s f rest) rest rfl rfl
    (by show f.masked = s.isServer; exact hm)
    (by intro hm'; show (if f.masked then f.key else s.maskKey) = f.key; simp [hm'])

theorem step_violation (s : RState) (f : Frame) (rest : Bytes) (hwf : f.WF) (hb : Bnd s)
    (hin : s.input = serialise f ++ rest) (hv : violOf s f = true) :
    ∃ s', advanceFrame s = .fail .proto s' ∧ s'.replies = s.replies ++ [(8, be 2 1002)] ∧ s'.closeSent = true := by
  have hr : s.readRemaining ≤ 0 := by rw [hb.rem]; decide
  have key : ProtoFail s (advanceFrame s) := by
    unfold violOf at hv
    rw [violation_eq s.isServer s.decompress s.readFinal f hwf] at hv
    by_cases h1 : hdrBad s.decompress s.readFinal f = true
    · exact (advanceFrame_frame s f rest hwf hr hin).1 (Or.inl h1)
    · by_cases h2 : 2 ^ 63 ≤ f.len
      · exact (advanceFrame_frame s f rest hwf hr hin).1 (Or.inr (Or.inl h2))
      · by_cases h3 : f.masked = s.isServer
        · -- close body
          have h1' : hdrBad s.decompress s.readFinal f = false := by simpa using h1
          have h4 : (f.opcode == 8 && Spec.Ws.closeBodyBad f.payload) = true := by
            simpa [h1', h2, h3] using hv
          simp only [Bool.and_eq_true, beq_iff_eq] at h4
          rw [(advanceFrame_frame s f rest hwf hr hin).2 h1' h2 h3]
          have hop : f.opcode = 8 := h4.1
          have hctl : isControl (hdrOf f).frameType = true := by simp [hdrOf, hop, isControl, CloseMessage]
          rw [tailF_ctl _ hctl, controlFrame_of_payload _ _ _ _ (ctlPayload_afterHdr s f rest hwf h3)]
          have e1 : ((hdrOf f).frameType == PongMessage) = false := by simp [hdrOf, hop, PongMessage]
          have e2 : ((hdrOf f).frameType == PingMessage) = false := by simp [hdrOf, hop, PingMessage]
          simp only [e1, e2, Bool.false_eq_true, if_false]
          have hbad := h4.2
          simp only [Spec.Ws.closeBodyBad, Bool.or_eq_true, beq_iff_eq, Bool.and_eq_true, decide_eq_true_eq,
            Bool.not_eq_true'] at hbad
          unfold handleCloseFrame
          rcases hbad with h | ⟨h2l, hcode | hutf⟩
          · simp only [h, beq_self_eq_true, if_true]
            exact protoErr_fail s _ rfl rfl
          · have : ¬ (f.payload.length == 1) = true := by simp; omega
            simp only [this, h2l, if_true]
            rw [← closeCode_eq, hcode]
            simp only [Bool.not_false, if_true]
            exact protoErr_fail s _ rfl rfl
          · have : ¬ (f.payload.length == 1) = true := by simp; omega
            simp only [this, h2l, if_true]
            rw [← utf8Valid_eq, hutf]
            by_cases hc : (!isValidReceivedCloseCode (ofBE (f.payload.take 2))) = true
            · simp only [hc, if_true]; exact protoErr_fail s _ rfl rfl
            · simp only [hc, Bool.false_eq_true, if_false, Bool.not_false, if_true]
              exact protoErr_fail s _ rfl rfl
        · exact (advanceFrame_frame s f rest hwf hr hin).1 (Or.inr (Or.inr h3))
  obtain ⟨s', h1, h2, h3⟩ := key
  refine ⟨s', h1, ?_, h2⟩
  rw [h3, hb.cs]; rfl

/-- ping / pong: consumed, answered (ping), the state is again at a healthy boundary. -/
theorem step_pingpong (s : RState) (f : Frame) (rest : Bytes) (hwf : f.WF) (hb : Bnd s)
    (hin : s.input = serialise f ++ rest) (hv : violOf s f = false) (hop : f.opcode = 9 ∨ f.opcode = 10) :
    ∃ s', advanceFrame s = .ok f.opcode s' ∧ s'.input = rest ∧
      s'.replies = (if f.opcode = 9 then s.replies ++ [(10, f.payload)] else s.replies) ∧
      Bnd s' ∧ Cfg s s' ∧ s'.readFinal = s.readFinal ∧ s'.readLength = s.readLength := by
  have hr : s.readRemaining ≤ 0 := by rw [hb.rem]; decide
  obtain ⟨h1, h2, h3, _⟩ := violOf_false hwf hv
  rw [(advanceFrame_frame s f rest hwf hr hin).2 h1 h2 h3]
  have hctl : isControl (hdrOf f).frameType = true := by
    rcases hop with h | h <;> simp [hdrOf, h, isControl, CloseMessage, PingMessage, PongMessage]
  rw [tailF_ctl _ hctl, controlFrame_of_payload _ _ _ _ (ctlPayload_afterHdr s f rest hwf h3)]
  have hrf : (afterHdr s f rest).readFinal = s.readFinal := by
    have : isControl f.opcode = true := hctl
    simp [afterHdr, this]
  rcases hop with h | h
  · have e1 : ((hdrOf f).frameType == PongMessage) = false := by simp [hdrOf, h, PongMessage]
    have e2 : ((hdrOf f).frameType == PingMessage) = true := by simp [hdrOf, h, PingMessage]
    simp only [e1, e2, Bool.false_eq_true, if_false, if_true]
    refine ⟨_, rfl, ?_, ?_, ?_, ?_, ?_, ?_⟩
    · rw [sendCtl_open _ _ _ (by exact hb.cs)]
    · rw [sendCtl_open _ _ _ (by exact hb.cs)]; simp [h, PongMessage, afterHdr]
    · rw [sendCtl_open _ _ _ (by exact hb.cs)]
      exact ⟨rfl, hb.err, by simp [PongMessage, CloseMessage], hb.len0, hb.len1, hb.lim0, hb.lim1⟩
    · rw [sendCtl_open _ _ _ (by exact hb.cs)]; exact ⟨rfl, rfl, rfl⟩
    · rw [sendCtl_open _ _ _ (by exact hb.cs)]; exact hrf
    · rw [sendCtl_open _ _ _ (by exact hb.cs)]; rfl
  · have e1 : ((hdrOf f).frameType == PongMessage) = true := by simp [hdrOf, h, PongMessage]
    simp only [e1, if_true]
    refine ⟨_, rfl, rfl, ?_, ⟨hb.rem ▸ rfl, hb.err, hb.cs, hb.len0, hb.len1, hb.lim0, hb.lim1⟩, ⟨rfl, rfl, rfl⟩, hrf, rfl⟩
    simp [h, afterHdr]

/-- a valid Close frame: the default handler echoes the status code, the read fails with the
`*CloseError` carrying code and reason (1005 and no body for an empty Close). -/
theorem step_close (s : RState) (f : Frame) (rest : Bytes) (hwf : f.WF) (hb : Bnd s)
    (hin : s.input = serialise f ++ rest) (hv : violOf s f = false) (hop : f.opcode = 8) :
    ∃ s', advanceFrame s =
        .fail (if f.payload.length < 2 then .close 1005 [] else .close (ofBE (f.payload.take 2)) (f.payload.drop 2)) s' ∧
      s'.replies = s.replies ++ [(8, if f.payload.length < 2 then [] else f.payload.take 2)] := by
  have hr : s.readRemaining ≤ 0 := by rw [hb.rem]; decide
  obtain ⟨h1, h2, h3, h4⟩ := violOf_false hwf hv
  have hbody := h4 hop
  rw [(advanceFrame_frame s f rest hwf hr hin).2 h1 h2 h3]
  have hctl : isControl (hdrOf f).frameType = true := by simp [hdrOf, hop, isControl, CloseMessage]
  rw [tailF_ctl _ hctl, controlFrame_of_payload _ _ _ _ (ctlPayload_afterHdr s f rest hwf h3)]
  have e1 : ((hdrOf f).frameType == PongMessage) = false := by simp [hdrOf, hop, PongMessage]
  have e2 : ((hdrOf f).frameType == PingMessage) = false := by simp [hdrOf, hop, PingMessage]
  simp only [e1, e2, Bool.false_eq_true, if_false]
  simp only [Spec.Ws.closeBodyBad, Bool.or_eq_false_iff, beq_eq_false_iff_ne, Bool.and_eq_false_imp,
    decide_eq_true_eq, Bool.not_eq_false'] at hbody
  obtain ⟨hne1, hrest⟩ := hbody
  unfold handleCloseFrame
  have hn1 : (f.payload.length == 1) = false := by simpa using hne1
  simp only [hn1, Bool.false_eq_true, if_false]
  by_cases h2l : 2 ≤ f.payload.length
  · obtain ⟨hcode, hutf⟩ := hrest h2l
    have hlt : ¬ f.payload.length < 2 := by omega
    rw [closeCode_eq] at hcode
    rw [utf8Valid_eq] at hutf
    simp only [h2l, if_true, hcode, hutf, Bool.not_true, Bool.false_eq_true, if_false, hlt]
    refine ⟨_, rfl, ?_⟩
    rw [sendCtl_open _ _ _ (by exact hb.cs)]
    have : be 2 (ofBE (f.payload.take 2)) = f.payload.take 2 :=
      be_ofBE' (by rw [List.length_take]; omega)
    simp [this, CloseMessage, afterHdr]
  · have hlt : f.payload.length < 2 := by omega
    simp only [h2l, if_false, hlt, if_true]
    refine ⟨_, rfl, ?_⟩
    rw [sendCtl_open _ _ _ (by exact hb.cs)]
    simp [CloseMessage, afterHdr]

theorem capOf_lt (L : Int) (h1 : L < 2 ^ 63) : capOf L < 2 ^ 63 := by
  unfold capOf; split <;> omega

/-- a data frame (text, binary, continuation) that violates nothing: refused with the limit error
when the accumulated announced length exceeds the cap, otherwise accepted with the read state set
up for its payload. `total` is the spec's running total. -/
theorem step_data (s : RState) (f : Frame) (rest : Bytes) (hwf : f.WF) (hb : Bnd s)
    (hin : s.input = serialise f ++ rest) (hv : violOf s f = false)
    (hop : f.opcode = 0 ∨ f.opcode = 1 ∨ f.opcode = 2) (total : Nat) (ht : s.readLength = total) :
    (capOf s.readLimit < total + f.len →
      ∃ s', advanceFrame s = .fail .limit s' ∧ s'.replies = s.replies ++ [(8, be 2 1009)]) ∧
    (total + f.len ≤ capOf s.readLimit →
      ∃ s', advanceFrame s = .ok f.opcode s' ∧ s'.input = wirePayload f ++ rest ∧ s'.readRemaining = f.len ∧
        s'.readFinal = f.fin ∧ s'.readLength = ((total + f.len : Nat) : Int) ∧
        s'.readDecompress = (s.decompress && f.rsv1 && isData f.opcode) ∧ s'.replies = s.replies ∧
        s'.readErr = none ∧ s'.closeSent = false ∧ Cfg s s' ∧
        (s.isServer = true → s'.maskKey = f.key ∧ s'.maskPos = 0)) := by
  have hr : s.readRemaining ≤ 0 := by rw [hb.rem]; decide
  obtain ⟨h1, h2, h3, _⟩ := violOf_false hwf hv
  rw [(advanceFrame_frame s f rest hwf hr hin).2 h1 h2 h3]
  have hd : ((hdrOf f).frameType == continuationFrame || isData (hdrOf f).frameType) = true := by
    rcases hop with h | h | h <;> simp [hdrOf, h, continuationFrame, isData, TextMessage, BinaryMessage]
  rw [tailF_data _ hd]
  have hnc : isControl f.opcode = false := by
    rcases hop with h | h | h <;> simp [h, isControl, CloseMessage, PingMessage, PongMessage]
  have hlen : f.len < 2 ^ 63 := by omega
  have hsum : (afterHdr s f rest).readLength + (afterHdr s f rest).readRemaining = ((total + f.len : Nat) : Int) := by
    show s.readLength + (f.len : Int) = _
    rw [ht]; omega
  have h0 := hb.len0; have h1' := hb.len1; have l0 := hb.lim0; have l1 := hb.lim1
  rw [ht] at h0 h1'
  obtain ⟨T, hT⟩ : ∃ T : Int, T = ((total + f.len : Nat) : Int) := ⟨_, rfl⟩
  have hT' : T = (total : Int) + (f.len : Int) := by rw [hT]; omega
  rw [← hT] at hsum
  simp only [dataFrame, hsum]
  have hlimEq : (afterHdr s f rest).readLimit = s.readLimit := rfl
  rw [hlimEq]
  have hcap : (s.readLimit > 0 → capOf s.readLimit = s.readLimit.toNat) ∧ (¬ s.readLimit > 0 → capOf s.readLimit = 2 ^ 63 - 1) := by
    unfold capOf; constructor <;> intro h <;> simp [h]
  refine ⟨fun hover => ?_, fun hfit => ?_⟩
  · have hcond : (decide (wrap64 T < 0) || (decide (s.readLimit > 0) && decide (wrap64 T > s.readLimit))) = true := by
      simp only [Bool.or_eq_true, Bool.and_eq_true, decide_eq_true_eq]
      by_cases hl : s.readLimit > 0
      · have := hcap.1 hl; unfold wrap64; omega
      · have := hcap.2 hl; unfold wrap64; omega
    simp only [hcond, if_true]
    refine ⟨_, rfl, ?_⟩
    rw [sendCtl_open _ _ _ (by exact hb.cs)]
    simp [CloseMessage, CloseMessageTooBig, afterHdr]
  · have hsmall : total + f.len < 2 ^ 63 := by have := capOf_lt s.readLimit l1; omega
    have hcond : (decide (wrap64 T < 0) || (decide (s.readLimit > 0) && decide (wrap64 T > s.readLimit))) = false := by
      simp only [Bool.or_eq_false_iff, Bool.and_eq_false_imp, decide_eq_false_iff_not, decide_eq_true_eq]
      by_cases hl : s.readLimit > 0
      · have := hcap.1 hl; unfold wrap64; omega
      · have := hcap.2 hl; unfold wrap64; omega
    simp only [hcond, Bool.false_eq_true, if_false]
    refine ⟨_, rfl, rfl, rfl, ?_, ?_, rfl, rfl, hb.err, hb.cs, ⟨rfl, rfl, rfl⟩, ?_⟩
    · simp [afterHdr, hnc]
    · show wrap64 T = _; rw [← hT]; unfold wrap64; omega
    · intro hsrv
      have hm : f.masked = true := by rw [h3, hsrv]
      simp [afterHdr, hm]

/-- How the spec's way of stopping shows in the model's error. -/
def EndErr : End → RErr → Prop
  | .more, e => e = .ueof
  | .fail st, e => (st = 1002 ∧ e = .proto) ∨ (st = 1009 ∧ e = .limit)
  | .closed c r, e => e = .close c r

theorem advanceFrame_empty (s : RState) (hr : s.readRemaining ≤ 0) (hin : s.input = []) :
    advanceFrame s = .fail .ueof { s with input := [] } := by
  rw [advanceFrame_unfold, bind_def, skipPrev_noop s hr]
  simp only
  rw [bind_def, readHdr_short s (by rw [hin]; decide)]

/-- prepend replies to a receiver outcome -/
def preReplies (rs : List (Nat × Bytes)) (r : RecvOut) : RecvOut := { r with replies := rs ++ r.replies }

theorem opcode_cases {s : RState} {f : Frame} (hv : violOf s f = false) :
    f.opcode = 0 ∨ f.opcode = 1 ∨ f.opcode = 2 ∨ f.opcode = 8 ∨ f.opcode = 9 ∨ f.opcode = 10 := by
  unfold violOf Spec.Ws.violation at hv
  simp only [Bool.or_eq_false_iff] at hv
  have hk := hv.1.1.1.1.1.1.2
  simp only [Bool.not_eq_false', Spec.Ws.knownOpcode, Spec.Ws.isDataStart, Spec.Ws.isControl, Bool.or_eq_true,
    beq_iff_eq] at hk
  omega

theorem not_cont_idle {s : RState} {f : Frame} (hv : violOf s f = false) (hrf : s.readFinal = true) : f.opcode ≠ 0 := by
  unfold violOf Spec.Ws.violation at hv
  simp only [Bool.or_eq_false_iff] at hv
  have := hv.1.1.1.1.2
  intro h0
  simp [h0, hrf] at this

theorem not_start_inmsg {s : RState} {f : Frame} (hv : violOf s f = false) (hrf : s.readFinal = false) :
    f.opcode ≠ 1 ∧ f.opcode ≠ 2 := by
  unfold violOf Spec.Ws.violation at hv
  simp only [Bool.or_eq_false_iff] at hv
  have := hv.1.1.1.2
  simp only [hrf, Bool.not_false, Bool.and_true, Spec.Ws.isDataStart, Bool.or_eq_false_iff, beq_eq_false_iff_ne] at this
  exact this

/-! one-step unfoldings of the spec receiver -/

theorem recvFrom_viol (r : Role) (d : Bool) (cap : Nat) (st : Option Open) (f : Frame) (fs : List Frame)
    (h : Spec.Ws.violation r d st.isSome f = true) :
    recvFrom r d cap st (f :: fs) = { msgs := [], replies := [(8, be 2 1002)], fin := .fail 1002 } := by
  simp [recvFrom, h]

theorem recvFrom_ping (r : Role) (d : Bool) (cap : Nat) (st : Option Open) (f : Frame) (fs : List Frame)
    (h : Spec.Ws.violation r d st.isSome f = false) (hop : f.opcode = 9) :
    recvFrom r d cap st (f :: fs) =
      { recvFrom r d cap st fs with replies := (10, f.payload) :: (recvFrom r d cap st fs).replies } := by
  simp [recvFrom, h, hop]

theorem recvFrom_pong (r : Role) (d : Bool) (cap : Nat) (st : Option Open) (f : Frame) (fs : List Frame)
    (h : Spec.Ws.violation r d st.isSome f = false) (hop : f.opcode = 10) :
    recvFrom r d cap st (f :: fs) = recvFrom r d cap st fs := by
  simp [recvFrom, h, hop]

theorem recvFrom_close (r : Role) (d : Bool) (cap : Nat) (st : Option Open) (f : Frame) (fs : List Frame)
    (h : Spec.Ws.violation r d st.isSome f = false) (hop : f.opcode = 8) :
    recvFrom r d cap st (f :: fs) =
      if f.payload.length < 2 then { msgs := [], replies := [(8, [])], fin := .closed 1005 [] }
      else { msgs := [], replies := [(8, f.payload.take 2)],
             fin := .closed (ofBE (f.payload.take 2)) (f.payload.drop 2) } := by
  simp [recvFrom, h, hop]

/-- the open-message record after accepting data frame `f` -/
def openAfter (st : Option Open) (f : Frame) : Open :=
  match st with
  | some o => { o with acc := o.acc ++ f.payload, total := o.total + f.len }
  | none => { ty := f.opcode, compressed := f.rsv1, acc := f.payload, total := f.len }

theorem recvFrom_data (r : Role) (d : Bool) (cap : Nat) (st : Option Open) (f : Frame) (fs : List Frame)
    (h : Spec.Ws.violation r d st.isSome f = false) (hop : f.opcode = 0 ∨ f.opcode = 1 ∨ f.opcode = 2) :
    recvFrom r d cap st (f :: fs) =
      if cap < (openAfter st f).total then { msgs := [], replies := [(8, be 2 1009)], fin := .fail 1009 }
      else if f.fin then
        { recvFrom r d cap none fs with
            msgs := { ty := (openAfter st f).ty, compressed := (openAfter st f).compressed, data := (openAfter st f).acc } ::
              (recvFrom r d cap none fs).msgs }
      else recvFrom r d cap (some (openAfter st f)) fs := by
  have h9 : (f.opcode == 9) = false := by rcases hop with h | h | h <;> simp [h]
  have h10 : (f.opcode == 10) = false := by rcases hop with h | h | h <;> simp [h]
  have h8 : (f.opcode == 8) = false := by rcases hop with h | h | h <;> simp [h]
  cases st with
  | none =>
    have h' : Spec.Ws.violation r d false f = false := h
    simp only [recvFrom, h', h9, h10, h8, openAfter, Bool.false_eq_true, if_false, Option.isSome, List.nil_append, Nat.zero_add]
    split <;> (try split) <;> simp_all
  | some o =>
    have h' : Spec.Ws.violation r d true f = false := h
    simp only [recvFrom, h', h9, h10, h8, openAfter, Bool.false_eq_true, if_false, Option.isSome]
    split <;> (try split) <;> simp_all

/-- The model is positioned at the payload of frame `f` (header consumed and accepted). -/
structure AtPayload (s : RState) (f : Frame) (tail : Bytes) : Prop where
  input : s.input = wirePayload f ++ tail
  rem : s.readRemaining = f.len
  err : s.readErr = none
  cs : s.closeSent = false
  key : s.isServer = true → s.maskKey = f.key ∧ s.maskPos = 0
  masked : f.masked = s.isServer

abbrev specRecv (s : RState) := recvFrom (roleOf s.isServer) s.decompress (capOf s.readLimit)

/-- **NextReader on frames.** From a healthy idle boundary, `nextReaderLoop` over the wire image of
well-formed frames either stops exactly where and how the spec receiver stops (no message delivered
meanwhile), or skips the same ping/pong frames (answering the pings) and stands at the payload of the
data-start frame `f` the spec receiver is about to accept. -/
theorem nextReaderLoop_frames (fs : List Frame) (hwf : ∀ f ∈ fs, f.WF) :
    ∀ (s : RState) (fuel : Nat), Bnd s → s.readFinal = true → s.readLength = 0 →
      s.input = serialiseAll fs → fs.length < fuel →
      (∃ e s', nextReaderLoop fuel s = .fail e s' ∧ s'.readErr = some e ∧
          (specRecv s none fs).msgs = [] ∧ s'.replies = s.replies ++ (specRecv s none fs).replies ∧
          EndErr (specRecv s none fs).fin e) ∨
      (∃ f rest s' rs, nextReaderLoop fuel s = .ok f.opcode s' ∧ rest.length < fs.length ∧
          (∀ g ∈ f :: rest, g.WF) ∧ (f.opcode = 1 ∨ f.opcode = 2) ∧
          specRecv s none fs = preReplies rs (specRecv s none (f :: rest)) ∧
          s'.replies = s.replies ++ rs ∧ violOf s f = false ∧ f.len ≤ capOf s.readLimit ∧
          AtPayload s' f (serialiseAll rest) ∧ s'.readFinal = f.fin ∧ s'.readLength = f.len ∧
          s'.readDecompress = f.rsv1 ∧ Cfg s s' ∧ 0 ≤ s.readLimit ∧ s.readLimit < 2 ^ 63) := by
  induction fs with
  | nil =>
    intro s fuel hb hrf hrl hin hfuel
    left
    obtain ⟨n, rfl⟩ : ∃ n, fuel = n + 1 := ⟨fuel - 1, by omega⟩
    have hr : s.readRemaining ≤ 0 := by rw [hb.rem]; decide
    refine ⟨.ueof, { s with input := [], readErr := some .ueof }, ?_, rfl, rfl, by simp [specRecv, recvFrom], rfl⟩
    simp only [nextReaderLoop, hb.err, advanceFrame_empty s hr hin]
  | cons f fs' ih =>
    intro s fuel hb hrf hrl hin hfuel
    obtain ⟨n, rfl⟩ : ∃ n, fuel = n + 1 := ⟨fuel - 1, by omega⟩
    have hwf_f : f.WF := hwf f (by simp)
    have hwf' : ∀ g ∈ fs', g.WF := fun g hg => hwf g (by simp [hg])
    have hin' : s.input = serialise f ++ serialiseAll fs' := hin
    have hvdef : Spec.Ws.violation (roleOf s.isServer) s.decompress (Option.isSome (none : Option Open)) f = violOf s f := by
      simp [violOf, hrf]
    by_cases hv : violOf s f = true
    · left
      obtain ⟨s', h1, h2, h3⟩ := step_violation s f _ hwf_f hb hin' hv
      have hspec := recvFrom_viol (roleOf s.isServer) s.decompress (capOf s.readLimit) none f fs' (by rw [hvdef]; exact hv)
      refine ⟨.proto, { s' with readErr := some .proto }, ?_, rfl, ?_, ?_, ?_⟩
      · simp only [nextReaderLoop, hb.err, h1]
      · show (recvFrom _ _ _ none (f :: fs')).msgs = []; rw [hspec]
      · show s'.replies = s.replies ++ (recvFrom _ _ _ none (f :: fs')).replies; rw [hspec, h2]
      · show EndErr (recvFrom _ _ _ none (f :: fs')).fin _; rw [hspec]; exact Or.inl ⟨rfl, rfl⟩
    · have hv' : violOf s f = false := by simpa using hv
      have hnv : Spec.Ws.violation (roleOf s.isServer) s.decompress (Option.isSome (none : Option Open)) f = false := by
        rw [hvdef]; exact hv'
      have hops := opcode_cases hv'
      have hn0 := not_cont_idle hv' hrf
      have hdata : (f.opcode = 1 ∨ f.opcode = 2) →
          (∃ e s', nextReaderLoop (n + 1) s = .fail e s' ∧ s'.readErr = some e ∧
              (specRecv s none (f :: fs')).msgs = [] ∧ s'.replies = s.replies ++ (specRecv s none (f :: fs')).replies ∧
              EndErr (specRecv s none (f :: fs')).fin e) ∨
          (∃ f0 rest s' rs, nextReaderLoop (n + 1) s = .ok f0.opcode s' ∧ rest.length < (f :: fs').length ∧
              (∀ g ∈ f0 :: rest, g.WF) ∧ (f0.opcode = 1 ∨ f0.opcode = 2) ∧
              specRecv s none (f :: fs') = preReplies rs (specRecv s none (f0 :: rest)) ∧
              s'.replies = s.replies ++ rs ∧ violOf s f0 = false ∧ f0.len ≤ capOf s.readLimit ∧
              AtPayload s' f0 (serialiseAll rest) ∧ s'.readFinal = f0.fin ∧ s'.readLength = f0.len ∧
              s'.readDecompress = f0.rsv1 ∧ Cfg s s' ∧ 0 ≤ s.readLimit ∧ s.readLimit < 2 ^ 63) := by
        intro h12
        have hop3 : f.opcode = 0 ∨ f.opcode = 1 ∨ f.opcode = 2 := Or.inr h12
        obtain ⟨hover, hfit⟩ := step_data s f (serialiseAll fs') hwf_f hb hin' hv' hop3 0 (by rw [hrl]; rfl)
        have hspec := recvFrom_data (roleOf s.isServer) s.decompress (capOf s.readLimit) none f fs' hnv hop3
        have htot : (openAfter none f).total = f.len := rfl
        by_cases hc : capOf s.readLimit < 0 + f.len
        · left
          obtain ⟨s', h1, h2⟩ := hover hc
          have hc' : capOf s.readLimit < (openAfter none f).total := by rw [htot]; omega
          rw [if_pos hc'] at hspec
          refine ⟨.limit, { s' with readErr := some .limit }, ?_, rfl, ?_, ?_, ?_⟩
          · simp only [nextReaderLoop, hb.err, h1]
          · show (recvFrom _ _ _ none (f :: fs')).msgs = []; rw [hspec]
          · show s'.replies = s.replies ++ (recvFrom _ _ _ none (f :: fs')).replies; rw [hspec, h2]
          · show EndErr (recvFrom _ _ _ none (f :: fs')).fin _; rw [hspec]; exact Or.inr ⟨rfl, rfl⟩
        · right
          obtain ⟨s', h1, h2, h3, h4, h5, h6, h7, h8, h9, h10, h11⟩ := hfit (by omega)
          have hisdata : isData f.opcode = true := by rcases h12 with h | h <;> simp [h, isData, TextMessage, BinaryMessage]
          have hty : (f.opcode == TextMessage || f.opcode == BinaryMessage) = true := by
            rcases h12 with h | h <;> simp [h, TextMessage, BinaryMessage]
          have hm : f.masked = s.isServer := (violOf_false hwf_f hv').2.2.1
          refine ⟨f, fs', s', [], ?_, by simp, hwf, h12, by simp [preReplies], by simp [h7], hv', by omega,
            ⟨h2, h3, h8, h9, fun hs => h11 (h10.1 ▸ hs), by rw [hm, h10.1]⟩, h4, by rw [h5]; simp, ?_, h10, hb.lim0, hb.lim1⟩
          · simp only [nextReaderLoop, hb.err, h1, hty, if_true]
          · rw [h6, hisdata, Bool.and_true]
            -- no violation: RSV1 only with negotiated deflate
            have hvv := hv'
            unfold violOf Spec.Ws.violation at hvv
            simp only [Bool.or_eq_false_iff] at hvv
            have hr1 := hvv.1.1.1.1.1.1.1.2
            have hds : Spec.Ws.isDataStart f.opcode = true := by rcases h12 with h | h <;> simp [h, Spec.Ws.isDataStart]
            cases hr : f.rsv1
            · simp
            · simp [hr, hds] at hr1; simp [hr1]
      rcases hops with h | h | h | h | h | h
      · exact absurd h hn0
      · exact hdata (Or.inl h)
      · exact hdata (Or.inr h)
      · -- close
        left
        obtain ⟨s', h1, h2⟩ := step_close s f _ hwf_f hb hin' hv' h
        have hspec := recvFrom_close (roleOf s.isServer) s.decompress (capOf s.readLimit) none f fs' hnv h
        by_cases hl : f.payload.length < 2
        · simp only [hl, if_true] at h1 h2 hspec
          refine ⟨.close 1005 [], { s' with readErr := some (.close 1005 []) }, ?_, rfl, ?_, ?_, ?_⟩
          · simp only [nextReaderLoop, hb.err, h1]
          · show (recvFrom _ _ _ none (f :: fs')).msgs = []; rw [hspec]
          · show s'.replies = s.replies ++ (recvFrom _ _ _ none (f :: fs')).replies; rw [hspec, h2]
          · show EndErr (recvFrom _ _ _ none (f :: fs')).fin _; rw [hspec]; rfl
        · simp only [hl, if_false] at h1 h2 hspec
          refine ⟨.close (ofBE (f.payload.take 2)) (f.payload.drop 2),
            { s' with readErr := some (.close (ofBE (f.payload.take 2)) (f.payload.drop 2)) }, ?_, rfl, ?_, ?_, ?_⟩
          · simp only [nextReaderLoop, hb.err, h1]
          · show (recvFrom _ _ _ none (f :: fs')).msgs = []; rw [hspec]
          · show s'.replies = s.replies ++ (recvFrom _ _ _ none (f :: fs')).replies; rw [hspec, h2]
          · show EndErr (recvFrom _ _ _ none (f :: fs')).fin _; rw [hspec]; rfl
      · -- ping
        obtain ⟨s1, h1, h2, h3, h4, h5, h6, h7⟩ := step_pingpong s f _ hwf_f hb hin' hv' (Or.inl h)
        have hspec := recvFrom_ping (roleOf s.isServer) s.decompress (capOf s.readLimit) none f fs' hnv h
        have hloop : nextReaderLoop (n + 1) s = nextReaderLoop n s1 := by
          simp only [nextReaderLoop, hb.err, h1, h, TextMessage, BinaryMessage]; rfl
        have hcfg : specRecv s1 = specRecv s := by
          unfold specRecv; rw [h5.1, h5.2.1, h5.2.2]
        have hih := ih hwf' s1 n h4 (by rw [h6, hrf]) (by rw [h7, hrl]) h2 (by simp at hfuel; omega)
        rw [hcfg] at hih
        simp only [h, if_true] at h3
        rcases hih with ⟨e, s', a1, a2, a3, a4, a5⟩ | ⟨f0, rest, s', rs, a1, a2, a3, a4, a5, a6, a7, a8, a9, a10, a11, a12, a13, a14, a15⟩
        · left
          refine ⟨e, s', by rw [hloop]; exact a1, a2, ?_, ?_, ?_⟩
          · show (recvFrom _ _ _ none (f :: fs')).msgs = []; rw [hspec]; exact a3
          · show s'.replies = s.replies ++ (recvFrom _ _ _ none (f :: fs')).replies
            rw [hspec, a4, h3]; simp [specRecv]
          · show EndErr (recvFrom _ _ _ none (f :: fs')).fin _; rw [hspec]; exact a5
        · right
          have hv0 : violOf s f0 = false := by
            have : violOf s1 f0 = violOf s f0 := by unfold violOf; rw [h5.1, h5.2.1, h6]
            rw [← this]; exact a7
          refine ⟨f0, rest, s', (10, f.payload) :: rs, by rw [hloop]; exact a1, by simp; omega, a3, a4, ?_, ?_, hv0,
            by rw [← h5.2.2]; exact a8, a9, a10, a11, a12, ⟨a13.1.trans h5.1, a13.2.1.trans h5.2.1, a13.2.2.trans h5.2.2⟩,
            hb.lim0, hb.lim1⟩
          · show recvFrom _ _ _ none (f :: fs') = _
            rw [hspec]
            have : recvFrom (roleOf s.isServer) s.decompress (capOf s.readLimit) none fs' =
                preReplies rs (recvFrom (roleOf s.isServer) s.decompress (capOf s.readLimit) none (f0 :: rest)) := a5
            rw [this]; simp [preReplies]
          · rw [a6, h3]; simp
      · -- pong
        obtain ⟨s1, h1, h2, h3, h4, h5, h6, h7⟩ := step_pingpong s f _ hwf_f hb hin' hv' (Or.inr h)
        have hspec := recvFrom_pong (roleOf s.isServer) s.decompress (capOf s.readLimit) none f fs' hnv h
        have hloop : nextReaderLoop (n + 1) s = nextReaderLoop n s1 := by
          simp only [nextReaderLoop, hb.err, h1, h, TextMessage, BinaryMessage]; rfl
        have hcfg : specRecv s1 = specRecv s := by
          unfold specRecv; rw [h5.1, h5.2.1, h5.2.2]
        have hih := ih hwf' s1 n h4 (by rw [h6, hrf]) (by rw [h7, hrl]) h2 (by simp at hfuel; omega)
        rw [hcfg] at hih
        have h3' : s1.replies = s.replies := by simpa [h] using h3
        rcases hih with ⟨e, s', a1, a2, a3, a4, a5⟩ | ⟨f0, rest, s', rs, a1, a2, a3, a4, a5, a6, a7, a8, a9, a10, a11, a12, a13, a14, a15⟩
        · left
          refine ⟨e, s', by rw [hloop]; exact a1, a2, ?_, ?_, ?_⟩
          · show (recvFrom _ _ _ none (f :: fs')).msgs = []; rw [hspec]; exact a3
          · show s'.replies = s.replies ++ (recvFrom _ _ _ none (f :: fs')).replies
            rw [hspec, a4, h3']
          · show EndErr (recvFrom _ _ _ none (f :: fs')).fin _; rw [hspec]; exact a5
        · right
          have hv0 : violOf s f0 = false := by
            have : violOf s1 f0 = violOf s f0 := by unfold violOf; rw [h5.1, h5.2.1, h6]
            rw [← this]; exact a7
          refine ⟨f0, rest, s', rs, by rw [hloop]; exact a1, by simp; omega, a3, a4, ?_, by rw [a6, h3'], hv0,
            by rw [← h5.2.2]; exact a8, a9, a10, a11, a12, ⟨a13.1.trans h5.1, a13.2.1.trans h5.2.1, a13.2.2.trans h5.2.2⟩,
            hb.lim0, hb.lim1⟩
          show recvFrom _ _ _ none (f :: fs') = _
          rw [hspec]; exact a5

/-- **Payload.** At the payload of an accepted frame, `ReadAll` hands out exactly the frame's
(unmasked) payload and stands at the frame boundary. -/
theorem readAllLoop_payload (s : RState) (f : Frame) (tail : Bytes) (hwf : f.WF) (hp : AtPayload s f tail)
    (fuel : Nat) (acc : Bytes) :
    ∃ sb, readAllLoop (fuel + 1) acc s = readAllLoop (fuel + (if f.len = 0 then 1 else 0)) (acc ++ f.payload) sb ∧
      sb.input = tail ∧ sb.readRemaining = 0 ∧ sb.readErr = none ∧ sb.closeSent = false ∧
      sb.readFinal = s.readFinal ∧ sb.readLength = s.readLength ∧ sb.replies = s.replies ∧ Cfg s sb ∧
      sb.readDecompress = s.readDecompress := by
  obtain ⟨_, _, _, _, _, _, hpl⟩ := hwf
  have hwl : (wirePayload f).length = f.len := by rw [wirePayload_length, hpl]
  by_cases h0 : f.len = 0
  · have hp0 : f.payload = [] := List.eq_nil_of_length_eq_zero (by rw [hpl, h0])
    have hw0 : wirePayload f = [] := List.eq_nil_of_length_eq_zero (by rw [hwl, h0])
    refine ⟨s, by simp [h0, hp0], by rw [hp.input, hw0]; rfl, by rw [hp.rem, h0]; rfl, hp.err, hp.cs, rfl, rfl, rfl,
      ⟨rfl, rfl, rfl⟩, rfl⟩
  · have hpos : s.readRemaining > 0 := by rw [hp.rem]; omega
    have hn : s.readRemaining.toNat = f.len := by rw [hp.rem]; simp
    have htake : s.input.take f.len = wirePayload f := by rw [hp.input]; exact take_append_len _ _ hwl
    have hdrop : s.input.drop f.len = tail := by rw [hp.input]; exact drop_append_len _ _ hwl
    have hdata : (if s.isServer then maskBytes s.maskKey s.maskPos (wirePayload f) else wirePayload f) = f.payload := by
      cases hs : s.isServer
      · have hm : f.masked = false := by rw [hp.masked, hs]
        simp [wirePayload, hm]
      · have hm : f.masked = true := by rw [hp.masked, hs]
        obtain ⟨hk, hpos0⟩ := hp.key hs
        simp [wirePayload, hm, hk, hpos0, maskBytes_eq_xorMask, xorMask_involution]
    refine ⟨{ s with input := tail, readRemaining := s.readRemaining - (f.len : Int), maskPos := (s.maskPos + f.len) % 4 },
      ?_, rfl, by show s.readRemaining - (f.len : Int) = 0; rw [hp.rem]; omega, hp.err, hp.cs, rfl, rfl, rfl,
      ⟨rfl, rfl, rfl⟩, rfl⟩
    simp only [h0, if_false, Nat.add_zero]
    have hlen : (s.input.take s.readRemaining.toNat).length = f.len := by rw [hn, htake, hwl]
    have hne : (f.len == 0) = false := by simpa using h0
    simp only [readAllLoop, hp.err, hpos, if_true, hn, htake, hwl, hne, Bool.false_eq_true, if_false, hdrop, hdata]

/-- the spec message record as the model delivers it -/
def conv (m : Spec.Ws.Msg) : Msg := { ty := m.ty, compressed := m.compressed, data := m.data }

theorem violOf_cfg {s s1 : RState} (h : Cfg s s1) (hrf : s1.readFinal = s.readFinal) (f : Frame) :
    violOf s1 f = violOf s f := by
  unfold violOf; rw [h.1, h.2.1, hrf]

theorem specRecv_cfg {s s1 : RState} (h : Cfg s s1) : specRecv s1 = specRecv s := by
  unfold specRecv; rw [h.1, h.2.1, h.2.2]

theorem readAllLoop_finished (k : Nat) (acc : Bytes) (s : RState) (he : s.readErr = none)
    (hr : s.readRemaining = 0) (hf : s.readFinal = true) : readAllLoop (k + 1) acc s = .ok (acc, none) s := by
  have hnp : ¬ s.readRemaining > 0 := by rw [hr]; decide
  rw [readAllLoop]
  simp only [he, hnp, if_false, hf, if_true]

/-- **ReadAll on frames.** Inside a fragmented message (at a frame boundary, `o` = the spec's open
record), `ReadAll` over the wire image of well-formed frames either stops where and how the spec
receiver stops, or completes the message with exactly the spec's payload and stands idle in front of
the remaining frames. -/
theorem readAllLoop_frames (fs : List Frame) (hwf : ∀ f ∈ fs, f.WF) :
    ∀ (s : RState) (fuel : Nat) (o : Open), Bnd s → s.readFinal = false → s.readLength = o.total →
      s.input = serialiseAll fs → 2 * fs.length + 2 ≤ fuel →
      (∃ data e s', readAllLoop fuel o.acc s = .ok (data, some e) s' ∧ s'.readErr = some e ∧
          (specRecv s (some o) fs).msgs = [] ∧ s'.replies = s.replies ++ (specRecv s (some o) fs).replies ∧
          EndErr (specRecv s (some o) fs).fin e) ∨
      (∃ data rest s' rs, readAllLoop fuel o.acc s = .ok (data, none) s' ∧ rest.length < fs.length ∧
          (∀ g ∈ rest, g.WF) ∧
          specRecv s (some o) fs =
            { msgs := { ty := o.ty, compressed := o.compressed, data := data } :: (specRecv s none rest).msgs,
              replies := rs ++ (specRecv s none rest).replies, fin := (specRecv s none rest).fin } ∧
          s'.replies = s.replies ++ rs ∧ Bnd s' ∧ s'.readFinal = true ∧ s'.input = serialiseAll rest ∧ Cfg s s') := by
  induction fs with
  | nil =>
    intro s fuel o hb hrf hrl hin hfuel
    left
    obtain ⟨n, rfl⟩ : ∃ n, fuel = n + 2 := ⟨fuel - 2, by omega⟩
    have hr : s.readRemaining ≤ 0 := by rw [hb.rem]; decide
    have hnp : ¬ s.readRemaining > 0 := by rw [hb.rem]; decide
    refine ⟨o.acc, .ueof, { s with input := [], readErr := some .ueof }, ?_, rfl, rfl, by simp [specRecv, recvFrom], rfl⟩
    rw [readAllLoop]
    simp only [hb.err, hnp, if_false, hrf, Bool.false_eq_true, advanceFrame_empty s hr hin]
    rw [readAllLoop_err n o.acc _ .ueof rfl]
    simp
  | cons f fs' ih =>
    intro s fuel o hb hrf hrl hin hfuel
    obtain ⟨n, rfl⟩ : ∃ n, fuel = n + 2 := ⟨fuel - 2, by simp at hfuel; omega⟩
    have hwf_f : f.WF := hwf f (by simp)
    have hwf' : ∀ g ∈ fs', g.WF := fun g hg => hwf g (by simp [hg])
    have hin' : s.input = serialise f ++ serialiseAll fs' := hin
    have hnp : ¬ s.readRemaining > 0 := by rw [hb.rem]; decide
    have hvdef : Spec.Ws.violation (roleOf s.isServer) s.decompress (Option.isSome (some o)) f = violOf s f := by
      simp [violOf, hrf]
    -- one loop iteration = one `advanceFrame`
    have hiter : readAllLoop (n + 2) o.acc s =
        match advanceFrame s with
        | .panic => .panic
        | .fail e s' => readAllLoop (n + 1) o.acc { s' with readErr := some e }
        | .ok ft s' =>
          if ft == TextMessage || ft == BinaryMessage then readAllLoop (n + 1) o.acc { s' with readErr := some .internal }
          else readAllLoop (n + 1) o.acc s' := by
      rw [readAllLoop]
      simp only [hb.err, hnp, if_false, hrf, Bool.false_eq_true]
      generalize advanceFrame s = r
      cases r <;> rfl
    have hfail : ∀ (e : RErr) (s' : RState), e ≠ .eof → advanceFrame s = .fail e s' →
        readAllLoop (n + 2) o.acc s = .ok (o.acc, some e) { s' with readErr := some e } := by
      intro e s' hne h1
      rw [hiter, h1]
      simp only
      rw [readAllLoop_err n o.acc _ e rfl]
      simp [hne]
    by_cases hv : violOf s f = true
    · left
      obtain ⟨s', h1, h2, h3⟩ := step_violation s f _ hwf_f hb hin' hv
      have hspec := recvFrom_viol (roleOf s.isServer) s.decompress (capOf s.readLimit) (some o) f fs' (by rw [hvdef]; exact hv)
      refine ⟨o.acc, .proto, _, hfail .proto s' (by decide) h1, rfl, ?_, ?_, ?_⟩
      · show (recvFrom _ _ _ (some o) (f :: fs')).msgs = []; rw [hspec]
      · show s'.replies = s.replies ++ (recvFrom _ _ _ (some o) (f :: fs')).replies; rw [hspec, h2]
      · show EndErr (recvFrom _ _ _ (some o) (f :: fs')).fin _; rw [hspec]; exact Or.inl ⟨rfl, rfl⟩
    · have hv' : violOf s f = false := by simpa using hv
      have hnv : Spec.Ws.violation (roleOf s.isServer) s.decompress (Option.isSome (some o)) f = false := by
        rw [hvdef]; exact hv'
      have hops := opcode_cases hv'
      have hn12 := not_start_inmsg hv' hrf
      rcases hops with h | h | h | h | h | h
      · -- continuation
        have hop3 : f.opcode = 0 ∨ f.opcode = 1 ∨ f.opcode = 2 := Or.inl h
        obtain ⟨hover, hfit⟩ := step_data s f (serialiseAll fs') hwf_f hb hin' hv' hop3 o.total hrl
        have hspec := recvFrom_data (roleOf s.isServer) s.decompress (capOf s.readLimit) (some o) f fs' hnv hop3
        have htot : (openAfter (some o) f).total = o.total + f.len := rfl
        by_cases hc : capOf s.readLimit < o.total + f.len
        · left
          obtain ⟨s', h1, h2⟩ := hover hc
          rw [if_pos (by rw [htot]; exact hc)] at hspec
          refine ⟨o.acc, .limit, _, hfail .limit s' (by decide) h1, rfl, ?_, ?_, ?_⟩
          · show (recvFrom _ _ _ (some o) (f :: fs')).msgs = []; rw [hspec]
          · show s'.replies = s.replies ++ (recvFrom _ _ _ (some o) (f :: fs')).replies; rw [hspec, h2]
          · show EndErr (recvFrom _ _ _ (some o) (f :: fs')).fin _; rw [hspec]; exact Or.inr ⟨rfl, rfl⟩
        · obtain ⟨s1, h1, h2, h3, h4, h5, h6, h7, h8, h9, h10, h11⟩ := hfit (by omega)
          rw [if_neg (by rw [htot]; exact hc)] at hspec
          have hm : f.masked = s.isServer := (violOf_false hwf_f hv').2.2.1
          have hat : AtPayload s1 f (serialiseAll fs') :=
            ⟨h2, h3, h8, h9, fun hs => h11 (h10.1 ▸ hs), by rw [hm, h10.1]⟩
          have hstep : readAllLoop (n + 2) o.acc s = readAllLoop (n + 1) o.acc s1 := by
            rw [hiter, h1]; simp [h, TextMessage, BinaryMessage]
          obtain ⟨sb, p1, p2, p3, p4, p5, p6, p7, p8, p9, p10⟩ := readAllLoop_payload s1 f (serialiseAll fs') hwf_f hat n o.acc
          have hbb : Bnd sb := by
            refine ⟨p3, p4, p5, ?_, ?_, ?_, ?_⟩
            · rw [p7, h5]; omega
            · rw [p7, h5]; have := capOf_lt s.readLimit hb.lim1; omega
            · rw [p9.2.2, h10.2.2]; exact hb.lim0
            · rw [p9.2.2, h10.2.2]; exact hb.lim1
          have hcfg : Cfg s sb := ⟨p9.1.trans h10.1, p9.2.1.trans h10.2.1, p9.2.2.trans h10.2.2⟩
          have hn2 : 2 * fs'.length + 2 ≤ n := by simp at hfuel; omega
          have hrepl : sb.replies = s.replies := by rw [p8, h7]
          by_cases hfin : f.fin = true
          · right
            rw [if_pos hfin] at hspec
            obtain ⟨k, hk⟩ : ∃ k, n + (if f.len = 0 then 1 else 0) = k + 1 := ⟨n + (if f.len = 0 then 1 else 0) - 1, by omega⟩
            have hret : readAllLoop (n + 2) o.acc s = .ok (o.acc ++ f.payload, none) sb := by
              rw [hstep, p1, hk]
              exact readAllLoop_finished k _ sb p4 p3 (by rw [p6, h4]; exact hfin)
            refine ⟨o.acc ++ f.payload, fs', sb, [], hret, by simp, hwf', ?_, by simp [hrepl], hbb,
              by rw [p6, h4]; exact hfin, p2, hcfg⟩
            show recvFrom _ _ _ (some o) (f :: fs') = _
            rw [hspec]; simp [specRecv, openAfter]
          · rw [if_neg hfin] at hspec
            have hfin' : f.fin = false := by simpa using hfin
            have hih := ih hwf' sb (n + (if f.len = 0 then 1 else 0)) (openAfter (some o) f) hbb
              (by rw [p6, h4]; exact hfin') (by rw [p7, h5]; rfl) p2 (by omega)
            rw [specRecv_cfg hcfg] at hih
            have hloop : readAllLoop (n + 2) o.acc s =
                readAllLoop (n + (if f.len = 0 then 1 else 0)) (openAfter (some o) f).acc sb := by
              rw [hstep, p1]; rfl
            rcases hih with ⟨data, e, s', a1, a2, a3, a4, a5⟩ | ⟨data, rest, s', rs, a1, a2, a3, a4, a5, a6, a7, a8, a9⟩
            · left
              refine ⟨data, e, s', by rw [hloop]; exact a1, a2, ?_, ?_, ?_⟩
              · show (recvFrom _ _ _ (some o) (f :: fs')).msgs = []; rw [hspec]; exact a3
              · show s'.replies = s.replies ++ (recvFrom _ _ _ (some o) (f :: fs')).replies
                rw [hspec, a4, hrepl]
              · show EndErr (recvFrom _ _ _ (some o) (f :: fs')).fin _; rw [hspec]; exact a5
            · right
              refine ⟨data, rest, s', rs, by rw [hloop]; exact a1, by simp; omega, a3, ?_, by rw [a5, hrepl], a6, a7, a8,
                ⟨a9.1.trans hcfg.1, a9.2.1.trans hcfg.2.1, a9.2.2.trans hcfg.2.2⟩⟩
              show recvFrom _ _ _ (some o) (f :: fs') = _
              rw [hspec]; exact a4
      · exact absurd h hn12.1
      · exact absurd h hn12.2
      · -- close
        left
        obtain ⟨s', h1, h2⟩ := step_close s f _ hwf_f hb hin' hv' h
        have hspec := recvFrom_close (roleOf s.isServer) s.decompress (capOf s.readLimit) (some o) f fs' hnv h
        by_cases hl : f.payload.length < 2
        · simp only [hl, if_true] at h1 h2 hspec
          refine ⟨o.acc, .close 1005 [], _, hfail _ s' (by intro hh; cases hh) h1, rfl, ?_, ?_, ?_⟩
          · show (recvFrom _ _ _ (some o) (f :: fs')).msgs = []; rw [hspec]
          · show s'.replies = s.replies ++ (recvFrom _ _ _ (some o) (f :: fs')).replies; rw [hspec, h2]
          · show EndErr (recvFrom _ _ _ (some o) (f :: fs')).fin _; rw [hspec]; rfl
        · simp only [hl, if_false] at h1 h2 hspec
          refine ⟨o.acc, .close (ofBE (f.payload.take 2)) (f.payload.drop 2), _, hfail _ s' (by intro hh; cases hh) h1, rfl, ?_, ?_, ?_⟩
          · show (recvFrom _ _ _ (some o) (f :: fs')).msgs = []; rw [hspec]
          · show s'.replies = s.replies ++ (recvFrom _ _ _ (some o) (f :: fs')).replies; rw [hspec, h2]
          · show EndErr (recvFrom _ _ _ (some o) (f :: fs')).fin _; rw [hspec]; rfl
      · -- ping
        obtain ⟨s1, h1, h2, h3, h4, h5, h6, h7⟩ := step_pingpong s f _ hwf_f hb hin' hv' (Or.inl h)
        have hspec := recvFrom_ping (roleOf s.isServer) s.decompress (capOf s.readLimit) (some o) f fs' hnv h
        have hloop : readAllLoop (n + 2) o.acc s = readAllLoop (n + 1) o.acc s1 := by
          rw [hiter, h1]; simp [h, TextMessage, BinaryMessage]
        have hih := ih hwf' s1 (n + 1) o h4 (by rw [h6, hrf]) (by rw [h7, hrl]) h2 (by simp at hfuel; omega)
        rw [specRecv_cfg h5] at hih
        simp only [h, if_true] at h3
        rcases hih with ⟨data, e, s', a1, a2, a3, a4, a5⟩ | ⟨data, rest, s', rs, a1, a2, a3, a4, a5, a6, a7, a8, a9⟩
        · left
          refine ⟨data, e, s', by rw [hloop]; exact a1, a2, ?_, ?_, ?_⟩
          · show (recvFrom _ _ _ (some o) (f :: fs')).msgs = []; rw [hspec]; exact a3
          · show s'.replies = s.replies ++ (recvFrom _ _ _ (some o) (f :: fs')).replies
            rw [hspec, a4, h3]; simp [specRecv]
          · show EndErr (recvFrom _ _ _ (some o) (f :: fs')).fin _; rw [hspec]; exact a5
        · right
          refine ⟨data, rest, s', (10, f.payload) :: rs, by rw [hloop]; exact a1, by simp; omega, a3, ?_,
            by rw [a5, h3]; simp, a6, a7, a8, ⟨a9.1.trans h5.1, a9.2.1.trans h5.2.1, a9.2.2.trans h5.2.2⟩⟩
          show recvFrom _ _ _ (some o) (f :: fs') = _
          rw [hspec]
          have : recvFrom (roleOf s.isServer) s.decompress (capOf s.readLimit) (some o) fs' = _ := a4
          rw [this]; simp
      · -- pong
        obtain ⟨s1, h1, h2, h3, h4, h5, h6, h7⟩ := step_pingpong s f _ hwf_f hb hin' hv' (Or.inr h)
        have hspec := recvFrom_pong (roleOf s.isServer) s.decompress (capOf s.readLimit) (some o) f fs' hnv h
        have hloop : readAllLoop (n + 2) o.acc s = readAllLoop (n + 1) o.acc s1 := by
          rw [hiter, h1]; simp [h, TextMessage, BinaryMessage]
        have hih := ih hwf' s1 (n + 1) o h4 (by rw [h6, hrf]) (by rw [h7, hrl]) h2 (by simp at hfuel; omega)
        rw [specRecv_cfg h5] at hih
        have h3' : s1.replies = s.replies := by simpa [h] using h3
        rcases hih with ⟨data, e, s', a1, a2, a3, a4, a5⟩ | ⟨data, rest, s', rs, a1, a2, a3, a4, a5, a6, a7, a8, a9⟩
        · left
          refine ⟨data, e, s', by rw [hloop]; exact a1, a2, ?_, ?_, ?_⟩
          · show (recvFrom _ _ _ (some o) (f :: fs')).msgs = []; rw [hspec]; exact a3
          · show s'.replies = s.replies ++ (recvFrom _ _ _ (some o) (f :: fs')).replies
            rw [hspec, a4, h3']
          · show EndErr (recvFrom _ _ _ (some o) (f :: fs')).fin _; rw [hspec]; exact a5
        · right
          refine ⟨data, rest, s', rs, by rw [hloop]; exact a1, by simp; omega, a3, ?_, by rw [a5, h3'], a6, a7, a8,
            ⟨a9.1.trans h5.1, a9.2.1.trans h5.2.1, a9.2.2.trans h5.2.2⟩⟩
          show recvFrom _ _ _ (some o) (f :: fs') = _
          rw [hspec]; exact a4

theorem serialise_length (f : Frame) : 2 ≤ (serialise f).length := by simp [serialise]

theorem serialiseAll_length (fs : List Frame) : 2 * fs.length ≤ (serialiseAll fs).length := by
  induction fs with
  | nil => simp [serialiseAll]
  | cons f fs ih =>
    have := serialise_length f
    simp only [serialiseAll, List.length_append, List.length_cons]; omega

/-- **Session refinement.** Over the wire image of any well-formed frame sequence, the session loop
delivers exactly the spec receiver's messages, writes exactly its replies, and ends with the error
that corresponds to the way the spec receiver stops; that error is latched. -/
theorem sessionLoop_frames (n : Nat) : ∀ (fs : List Frame), fs.length ≤ n → (∀ f ∈ fs, f.WF) →
    ∀ (s : RState) (fuel : Nat) (acc : List Msg), Bnd s → s.readFinal = true → s.input = serialiseAll fs →
      s.input.length + 2 ≤ fuel →
      ∃ t, sessionLoop fuel s acc = some t ∧ t.msgs = acc ++ (specRecv s none fs).msgs.map conv ∧
        t.final.replies = s.replies ++ (specRecv s none fs).replies ∧
        EndErr (specRecv s none fs).fin t.err ∧ t.final.readErr = some t.err := by
  induction n with
  | zero =>
    intro fs hlen hwf s fuel acc hb hrf hin hfuel
    have hnil : fs = [] := List.eq_nil_of_length_eq_zero (by omega)
    subst hnil
    obtain ⟨k, rfl⟩ : ∃ k, fuel = k + 1 := ⟨fuel - 1, by omega⟩
    have hb0 : Bnd { s with readLength := 0 } := ⟨hb.rem, hb.err, hb.cs, by simp, by show (0 : Int) < 2 ^ 63; decide, hb.lim0, hb.lim1⟩
    have hN := nextReaderLoop_frames [] hwf { s with readLength := 0 } (s.input.length + 1) hb0 hrf rfl hin (by simp)
    rcases hN with ⟨e, s', a1, a2, a3, a4, a5⟩ | ⟨f, rest, s', rs, a1, a2, _⟩
    · refine ⟨{ msgs := acc, err := e, partialLen := 0, final := s' }, ?_, ?_, a4, a5, a2⟩
      · simp only [sessionLoop, readMessage, nextReader, a1]
      · have : (specRecv s none []).msgs = [] := a3
        simp [this]
    · simp at a2
  | succ n ih =>
    intro fs hlen hwf s fuel acc hb hrf hin hfuel
    obtain ⟨k, rfl⟩ : ∃ k, fuel = k + 1 := ⟨fuel - 1, by omega⟩
    have hb0 : Bnd { s with readLength := 0 } := ⟨hb.rem, hb.err, hb.cs, by simp, by show (0 : Int) < 2 ^ 63; decide, hb.lim0, hb.lim1⟩
    have hflen : fs.length < s.input.length + 1 := by
      have := serialiseAll_length fs; rw [← hin] at this; omega
    have hN := nextReaderLoop_frames fs hwf { s with readLength := 0 } (s.input.length + 1) hb0 hrf rfl hin hflen
    rcases hN with ⟨e, s', a1, a2, a3, a4, a5⟩ | ⟨f, rest, s1, rs, a1, a2, a3, a4, a5, a6, a7, a8, a9, a10, a11, a12, a13, a14, a15⟩
    · refine ⟨{ msgs := acc, err := e, partialLen := 0, final := s' }, ?_, ?_, a4, a5, a2⟩
      · simp only [sessionLoop, readMessage, nextReader, a1]
      · have : (specRecv s none fs).msgs = [] := a3
        simp [this]
    · -- a data message starts with frame `f`
      have hnr : nextReader s = .ok f.opcode s1 := a1
      have a8 : f.len ≤ capOf s.readLimit := a8
      have a13 : Cfg s s1 := a13
      have a14 : 0 ≤ s.readLimit := a14
      have a15 : s.readLimit < 2 ^ 63 := a15
      have a6 : s1.replies = s.replies ++ rs := a6
      have hwf_f : f.WF := a3 f (by simp)
      have hwf_r : ∀ g ∈ rest, g.WF := fun g hg => a3 g (by simp [hg])
      have hspec0 : specRecv s none fs = preReplies rs (specRecv s none (f :: rest)) := a5
      have hnv : Spec.Ws.violation (roleOf s.isServer) s.decompress (Option.isSome (none : Option Open)) f = false := by
        have : violOf s f = false := a7
        simpa [violOf, hrf] using this
      have hop3 : f.opcode = 0 ∨ f.opcode = 1 ∨ f.opcode = 2 := Or.inr a4
      have hspec1 := recvFrom_data (roleOf s.isServer) s.decompress (capOf s.readLimit) none f rest hnv hop3
      have htot : (openAfter none f).total = f.len := rfl
      rw [if_neg (by rw [htot]; omega)] at hspec1
      -- payload of the first frame
      obtain ⟨sb, p1, p2, p3, p4, p5, p6, p7, p8, p9, p10⟩ :=
        readAllLoop_payload s1 f (serialiseAll rest) hwf_f a9 (2 * s1.input.length + 3) []
      have hcfg : Cfg s sb := ⟨p9.1.trans a13.1, p9.2.1.trans a13.2.1, p9.2.2.trans a13.2.2⟩
      have hbb : Bnd sb := by
        refine ⟨p3, p4, p5, ?_, ?_, ?_, ?_⟩
        · rw [p7, a11]; omega
        · rw [p7, a11]; have := capOf_lt s.readLimit a15; omega
        · rw [hcfg.2.2]; exact a14
        · rw [hcfg.2.2]; exact a15
      have hrepl : sb.replies = s.replies ++ rs := by rw [p8, a6]
      have hs1len : 2 * rest.length ≤ s1.input.length := by
        have := serialiseAll_length rest; rw [a9.input]; simp; omega
      by_cases hfin : f.fin = true
      · rw [if_pos hfin] at hspec1
        obtain ⟨k', hk'⟩ : ∃ k', 2 * s1.input.length + 3 + (if f.len = 0 then 1 else 0) = k' + 1 :=
          ⟨2 * s1.input.length + 3 + (if f.len = 0 then 1 else 0) - 1, by omega⟩
        have hrm : readMessage s = .ok ({ ty := f.opcode, compressed := f.rsv1, data := f.payload }, none) sb := by
          simp only [readMessage, hnr]
          have : 2 * s1.input.length + 4 = (2 * s1.input.length + 3) + 1 := by omega
          rw [this, p1, hk', readAllLoop_finished k' _ sb p4 p3 (by rw [p6, a10]; exact hfin)]
          simp [a12]
        have hdone := readMessage_done hrm
        have hih := ih rest (by omega) hwf_r sb k (acc ++ [{ ty := f.opcode, compressed := f.rsv1, data := f.payload }])
          hbb (by rw [p6, a10]; exact hfin) p2 (by omega)
        rw [specRecv_cfg hcfg] at hih
        obtain ⟨t, t1, t2, t3, t4, t5⟩ := hih
        refine ⟨t, ?_, ?_, ?_, ?_, t5⟩
        · simp only [sessionLoop, hrm]; exact t1
        · rw [t2, hspec0]
          show _ = acc ++ (recvFrom _ _ _ none (f :: rest)).msgs.map conv
          rw [hspec1]; simp [specRecv, conv, openAfter]
        · rw [t3, hrepl, hspec0]
          show _ = s.replies ++ (rs ++ (recvFrom _ _ _ none (f :: rest)).replies)
          rw [hspec1]; simp [specRecv]
        · rw [hspec0]
          show EndErr (recvFrom _ _ _ none (f :: rest)).fin t.err
          rw [hspec1]; exact t4
      · rw [if_neg hfin] at hspec1
        have hfin' : f.fin = false := by simpa using hfin
        have hA := readAllLoop_frames rest hwf_r sb (2 * s1.input.length + 3 + (if f.len = 0 then 1 else 0))
          (openAfter none f) hbb (by rw [p6, a10]; exact hfin') (by rw [p7, a11]; rfl) p2 (by omega)
        rw [specRecv_cfg hcfg] at hA
        have hloop : readAllLoop (2 * s1.input.length + 4) [] s1 =
            readAllLoop (2 * s1.input.length + 3 + (if f.len = 0 then 1 else 0)) (openAfter none f).acc sb := by
          have : 2 * s1.input.length + 4 = (2 * s1.input.length + 3) + 1 := by omega
          rw [this, p1]; rfl
        rcases hA with ⟨data, e, s', b1, b2, b3, b4, b5⟩ | ⟨data, rest', s', rs', b1, b2, b3, b4, b5, b6, b7, b8, b9⟩
        · have hrm : readMessage s = .ok ({ ty := f.opcode, compressed := f.rsv1, data := data }, some e) s' := by
            simp only [readMessage, hnr, hloop, b1]; simp [a12]
          refine ⟨{ msgs := acc, err := e, partialLen := data.length, final := s' }, ?_, ?_, ?_, ?_, b2⟩
          · simp only [sessionLoop, hrm]
          · rw [hspec0]
            show _ = acc ++ (recvFrom _ _ _ none (f :: rest)).msgs.map conv
            rw [hspec1]
            have : (recvFrom (roleOf s.isServer) s.decompress (capOf s.readLimit) (some (openAfter none f)) rest).msgs = [] := b3
            simp [this]
          · rw [hspec0]
            show s'.replies = s.replies ++ (rs ++ (recvFrom _ _ _ none (f :: rest)).replies)
            rw [hspec1, b4, hrepl]; simp [specRecv]
          · rw [hspec0]
            show EndErr (recvFrom _ _ _ none (f :: rest)).fin e
            rw [hspec1]; exact b5
        · have hrm : readMessage s = .ok ({ ty := f.opcode, compressed := f.rsv1, data := data }, none) s' := by
            simp only [readMessage, hnr, hloop, b1]; simp [a12]
          have hdone := readMessage_done hrm
          have hcfg' : Cfg s s' := ⟨b9.1.trans hcfg.1, b9.2.1.trans hcfg.2.1, b9.2.2.trans hcfg.2.2⟩
          have hih := ih rest' (by omega) b3 s' k (acc ++ [{ ty := f.opcode, compressed := f.rsv1, data := data }])
            b6 b7 b8 (by omega)
          rw [specRecv_cfg hcfg'] at hih
          obtain ⟨t, t1, t2, t3, t4, t5⟩ := hih
          have hsp : recvFrom (roleOf s.isServer) s.decompress (capOf s.readLimit) (some (openAfter none f)) rest = _ := b4
          refine ⟨t, ?_, ?_, ?_, ?_, t5⟩
          · simp only [sessionLoop, hrm]; exact t1
          · rw [t2, hspec0]
            show _ = acc ++ (recvFrom _ _ _ none (f :: rest)).msgs.map conv
            rw [hspec1, hsp]; simp [specRecv, conv, openAfter]
          · rw [t3, b5, hrepl, hspec0]
            show _ = s.replies ++ (rs ++ (recvFrom _ _ _ none (f :: rest)).replies)
            rw [hspec1, hsp]; simp [specRecv]
          · rw [hspec0]
            show EndErr (recvFrom _ _ _ none (f :: rest)).fin t.err
            rw [hspec1, hsp]; exact t4

/-- In the spec receiver, failing the connection with 1002 always puts a Close 1002 among the replies. -/
theorem recvFrom_fail_reply (r : Role) (d : Bool) (cap : Nat) (fs : List Frame) :
    ∀ st, (recvFrom r d cap st fs).fin = .fail 1002 → (8, be 2 1002) ∈ (recvFrom r d cap st fs).replies := by
  induction fs with
  | nil => intro st h; simp [recvFrom] at h
  | cons f fs ih =>
    intro st h
    by_cases hv : Spec.Ws.violation r d st.isSome f = true
    · rw [recvFrom_viol r d cap st f fs hv]; simp
    · have hv' : Spec.Ws.violation r d st.isSome f = false := by simpa using hv
      by_cases h9 : f.opcode = 9
      · rw [recvFrom_ping r d cap st f fs hv' h9] at h ⊢
        exact List.mem_cons_of_mem _ (ih st h)
      · by_cases h10 : f.opcode = 10
        · rw [recvFrom_pong r d cap st f fs hv' h10] at h ⊢
          exact ih st h
        · by_cases h8 : f.opcode = 8
          · rw [recvFrom_close r d cap st f fs hv' h8] at h
            split at h <;> cases h
          · -- data frame: known opcode, not control
            have hk : f.opcode = 0 ∨ f.opcode = 1 ∨ f.opcode = 2 := by
              unfold Spec.Ws.violation at hv'
              simp only [Bool.or_eq_false_iff] at hv'
              have hk := hv'.1.1.1.1.1.1.2
              simp only [Bool.not_eq_false', Spec.Ws.knownOpcode, Spec.Ws.isDataStart, Spec.Ws.isControl,
                Bool.or_eq_true, beq_iff_eq] at hk
              omega
            rw [recvFrom_data r d cap st f fs hv' hk] at h ⊢
            split
            · rename_i hc; rw [if_pos hc] at h; cases h
            · rename_i hc; rw [if_neg hc] at h
              split
              · rename_i hf; rw [if_pos hf] at h; exact ih none h
              · rename_i hf; rw [if_neg hf] at h; exact ih _ h

/-! ### complete delivery: a message is handed over only when every announced byte of every frame up
to a FIN frame has arrived (the engine of `cut_never_short`) -/

theorem skipPrev_rf {s s' : RState} (h : skipPrev s = .ok () s') : s'.readFinal = s.readFinal := by
  simp only [skipPrev, skipN_eq] at h
  repeat' split at h
  all_goals first | cases h | skip
  all_goals rfl

theorem readHdr_rf {s s' : RState} {h : Hdr} (hh : readHdr s = .ok h s') : s'.readFinal = s.readFinal := by
  simp only [readHdr] at hh
  split at hh
  · cases hh
  · cases hh
  · rename_i p s1 hr
    obtain ⟨_, _, hs1⟩ := readN_ok_iff hr
    split at hh
    · cases hh; subst hs1; rfl
    · cases hh

theorem checkHdr_rf {h : Hdr} {s s' : RState} (hh : checkHdr h s = .ok () s') :
    (isControl h.frameType = true → s'.readFinal = s.readFinal) ∧ (h.frameType = 0 → s.readFinal = false) ∧
    (isControl h.frameType = false → s'.readFinal = h.final) := by
  simp only [checkHdr, protoErr] at hh
  repeat' split at hh
  all_goals first | cases hh | skip
  all_goals simp_all [continuationFrame, isControl, isData, CloseMessage, PingMessage, PongMessage, TextMessage, BinaryMessage]
  all_goals (repeat' constructor) <;> (intros; first | omega | simp_all)

theorem readLength_rf {h : Hdr} {s s' : RState} (hh : readLength h s = .ok () s') : s'.readFinal = s.readFinal := by
  simp only [readLength, protoErr] at hh
  repeat' split at hh
  all_goals first | cases hh | skip
  · rename_i p s1 hrd; obtain ⟨_, _, hs1⟩ := readN_ok_iff hrd; subst hs1; rfl
  · rename_i p s1 hrd _; obtain ⟨_, _, hs1⟩ := readN_ok_iff hrd; subst hs1; rfl
  · rfl

theorem readMask_rf {h : Hdr} {s s' : RState} (hh : readMask h s = .ok () s') : s'.readFinal = s.readFinal := by
  simp only [readMask, protoErr] at hh
  repeat' split at hh
  all_goals first | cases hh | skip
  · rename_i p s1 hrd; obtain ⟨_, _, hs1⟩ := readN_ok_iff hrd; subst hs1; rfl
  · rfl

theorem sendCtl_rf (op : Nat) (p : Bytes) (s : RState) : (sendCtl op p s).readFinal = s.readFinal := by
  unfold sendCtl; split <;> rfl

theorem controlFrame_rf {h : Hdr} {s s' : RState} {ft : Nat} (hh : controlFrame h s = .ok ft s') :
    s'.readFinal = s.readFinal := by
  simp only [controlFrame] at hh
  split at hh
  · cases hh
  · cases hh
  · rename_i p s1 hp
    have h1 : s1.readFinal = s.readFinal := by
      simp only [readCtlPayload] at hp
      split at hp
      · split at hp
        · cases hp
        · cases hp
        · rename_i q s2 hrd
          obtain ⟨_, _, hs2⟩ := readN_ok_iff hrd
          cases hp; subst hs2; rfl
      · cases hp; rfl
    split at hh
    · cases hh; exact h1
    · split at hh
      · cases hh; rw [sendCtl_rf]; exact h1
      · exact absurd hh (handleCloseFrame_not_ok _ _ _ _)

/-- What a successfully returned frame says about `readFinal`. -/
theorem advanceFrame_ok_final {s s' : RState} {ft : Nat} (hh : advanceFrame s = .ok ft s') :
    (ft = 0 → s.readFinal = false) ∧ ((ft = PingMessage ∨ ft = PongMessage) → s'.readFinal = s.readFinal) := by
  unfold advanceFrame at hh
  obtain ⟨_, s1, h1, hh⟩ := bind_ok hh
  obtain ⟨hd, s2, h2, hh⟩ := bind_ok hh
  obtain ⟨_, s3, h3, hh⟩ := bind_ok hh
  obtain ⟨_, s4, h4, hh⟩ := bind_ok hh
  obtain ⟨_, s5, h5, hh⟩ := bind_ok hh
  have r1 := skipPrev_rf h1
  have r2 := readHdr_rf h2
  obtain ⟨c1, c2, c3⟩ := checkHdr_rf h3
  have r4 := readLength_rf h4
  have r5 := readMask_rf h5
  split at hh
  · rename_i hdata
    obtain ⟨hft, hs', _⟩ := dataFrame_ok hh
    subst hs'
    refine ⟨fun h0 => ?_, fun hp => ?_⟩
    · rw [← r1, ← r2]; exact c2 (by rw [← hft]; exact h0)
    · exfalso
      rw [hft] at hp
      simp only [Bool.or_eq_true, beq_iff_eq, isData, continuationFrame, TextMessage, BinaryMessage] at hdata
      simp only [PingMessage, PongMessage] at hp
      omega
  · rename_i hnd
    have hr0 : 0 ≤ s5.readRemaining := by
      obtain ⟨_, _, _, r2', h7⟩ := readHdr_ok' h2
      obtain ⟨_, _, r3', _, _⟩ := checkHdr_ok h3
      obtain ⟨_, _, r4', _⟩ := readLength_ok h4 (r3'.trans r2') h7
      obtain ⟨_, _, r5'⟩ := readMask_ok h5
      rw [r5']; exact r4'
    obtain ⟨_, _, _, hft, hpp⟩ := controlFrame_ok hh hr0
    have r6 := controlFrame_rf hh
    refine ⟨fun h0 => ?_, fun _ => ?_⟩
    · exfalso
      rw [h0] at hpp; simp [PingMessage, PongMessage] at hpp
    · have hc : isControl hd.frameType = true := by
        rw [← hft]
        rcases hpp with h | h <;> simp [h, isControl, PingMessage, PongMessage, CloseMessage]
      rw [r6, r5, r4, c1 hc, r2, r1]

/-- bytes handed out + bytes still announced = total announced for this message, nothing wrapped -/
def Exact (acc : Bytes) (s : RState) : Prop :=
  0 ≤ s.readRemaining ∧ (acc.length : Int) + s.readRemaining = s.readLength ∧ s.readLength < 2 ^ 63

theorem readAllLoop_complete (fuel : Nat) (acc : Bytes) (s s' : RState) (data : Bytes)
    (hinv : s.readErr = none → Exact acc s)
    (h : readAllLoop fuel acc s = .ok (data, none) s') :
    (data.length : Int) = s'.readLength ∧ s'.readFinal = true ∧ s'.readRemaining = 0 ∧ s'.readErr = none := by
  induction fuel generalizing s acc with
  | zero => simp [readAllLoop] at h
  | succ n ih =>
    simp only [readAllLoop] at h
    split at h
    · cases h
    · rename_i hnone
      obtain ⟨h0, hsum, hlt⟩ := hinv hnone
      split at h
      · rename_i hpos
        split at h
        · cases h
        · rename_i hn
          simp only [List.length_take] at hn h
          have hnle : (min s.readRemaining.toNat s.input.length : Int) ≤ s.readRemaining := by omega
          refine ih _ _ ?_ h
          intro _
          refine ⟨?_, ?_, hlt⟩
          · show 0 ≤ s.readRemaining - _; omega
          · show ((acc ++ _).length : Int) + (s.readRemaining - _) = s.readLength
            split <;> simp [maskBytes_length, List.length_take] <;> omega
      · rename_i hnpos
        have hr0 : s.readRemaining = 0 := by omega
        split at h
        · rename_i hfin
          cases h
          exact ⟨by omega, hfin, hr0, hnone⟩
        · split at h
          · cases h
          · rename_i e s1 _
            cases n with
            | zero => simp [readAllLoop] at h
            | succ k => rw [readAllLoop_err k acc _ e rfl] at h; cases h
          · rename_i ft s1 hok
            obtain ⟨eff, _, r0, rlt, hcase⟩ := advanceFrame_ok hok
            split at h
            · cases n with
              | zero => simp [readAllLoop] at h
              | succ k => rw [readAllLoop_err k acc _ .internal rfl] at h; cases h
            · refine ih _ _ ?_ h
              intro _
              rcases hcase with ⟨_, hrl, hnn, _⟩ | ⟨_, hr, hrl⟩
              · have hsumEq := wrap64_add_nonneg (by omega) hlt r0 rlt (by rw [← hrl]; exact hnn)
                exact ⟨r0, by rw [hrl, hsumEq]; omega, by rw [hrl]; exact wrap64_lt _⟩
              · exact ⟨r0, by rw [hr, hrl]; omega, by rw [hrl]; exact hlt⟩

theorem nextReaderLoop_exact (fuel : Nat) (s s' : RState) (ty : Nat)
    (hrf : s.readFinal = true) (hrl : s.readLength = 0)
    (h : nextReaderLoop fuel s = .ok ty s') : Exact [] s' := by
  induction fuel generalizing s with
  | zero => simp [nextReaderLoop] at h
  | succ n ih =>
    simp only [nextReaderLoop] at h
    split at h
    · cases h
    · split at h
      · cases h
      · cases h
      · rename_i ft s1 hok
        obtain ⟨eff, _, r0, rlt, hcase⟩ := advanceFrame_ok hok
        obtain ⟨f0, fpp⟩ := advanceFrame_ok_final hok
        split at h
        · rename_i hty
          cases h
          rcases hcase with ⟨_, hrl', hnn, _⟩ | ⟨hp, _, _⟩
          · have hz0 : (0 : Int) ≤ s.readLength := by rw [hrl]; decide
            have hz1 : s.readLength < 2 ^ 63 := by rw [hrl]; decide
            have hsumEq := wrap64_add_nonneg hz0 hz1 r0 rlt (by rw [← hrl']; exact hnn)
            exact ⟨r0, by rw [hrl', hsumEq, hrl]; simp, by rw [hrl']; exact wrap64_lt _⟩
          · exfalso
            simp only [Bool.or_eq_true, beq_iff_eq, TextMessage, BinaryMessage] at hty
            simp only [PingMessage, PongMessage] at hp
            omega
        · rename_i hnty
          rcases hcase with ⟨hd, _, _, _⟩ | ⟨hp, _, hrl'⟩
          · exfalso
            simp only [Bool.or_eq_true, beq_iff_eq, not_or] at hnty
            rcases hd with h0 | h1 | h2
            · have := f0 h0; rw [hrf] at this; cases this
            · exact hnty.1 h1
            · exact hnty.2 h2
          · exact ih s1 (by rw [fpp hp, hrf]) (by rw [hrl', hrl]) h

/-- **Complete delivery.** From a state with no message in progress, `ReadMessage` delivers a message
(`e = none`) only when every byte announced by every frame of that message has been read
(`data.length = readLength`, the running total of the announced frame lengths, which never wrapped)
and the last frame read was final; the connection is then again between messages. For every byte
stream. -/
theorem readMessage_complete (s s' : RState) (m : Msg) (hrf : s.readFinal = true)
    (h : readMessage s = .ok (m, none) s') :
    (m.data.length : Int) = s'.readLength ∧ s'.readFinal = true ∧ s'.readRemaining = 0 ∧ s'.readErr = none := by
  simp only [readMessage] at h
  split at h
  · cases h
  · cases h
  · rename_i ty s1 hnr
    split at h
    · cases h
    · cases h
    · rename_i hra
      cases h
      simp only [nextReader] at hnr
      have hex := nextReaderLoop_exact _ { s with readLength := 0 } s1 ty hrf rfl hnr
      exact readAllLoop_complete _ [] s1 _ _ (fun _ => hex) hra

end Oryx.WsRead
