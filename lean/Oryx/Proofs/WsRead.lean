/-
  Helper lemmas for C14 (reader model `Oryx.WsRead`): monad unfolding, stage characterisations of
  `advanceFrame`, int64 facts, no-panic, sticky error.
-/
import Oryx.Model.WsRead
import Oryx.Spec.Ws
namespace Oryx.WsRead
open Oryx Oryx.Gen.Websocket

/-! ### the monad -/

@[simp] theorem bind_def (x : M α) (f : α → M β) (s : RState) :
    (x >>= f) s = match x s with
      | .ok a s' => f a s'
      | .fail e s' => .fail e s'
      | .panic => .panic := rfl

@[simp] theorem pure_def (a : α) (s : RState) : (pure a : M α) s = .ok a s := rfl
@[simp] theorem get_def (s : RState) : get s = .ok s s := rfl
@[simp] theorem modify_def (f : RState → RState) (s : RState) : modify f s = .ok () (f s) := rfl
@[simp] theorem throw_def (e : RErr) (s : RState) : (throw e : M α) s = .fail e s := rfl
@[simp] theorem mpanic_def (s : RState) : (mpanic : M α) s = .panic := rfl

/-! ### primitives -/

theorem take_length_eq_iff (l : Bytes) (n : Nat) : (l.take n).length = n ↔ n ≤ l.length := by
  rw [List.length_take]; omega

/-- `readN`/`skipN` test "are there `n` bytes" on the taken prefix (linear time in the oracle); this is
the same as comparing with the input length. -/
theorem readN_eq (n : Nat) (s : RState) :
    readN n s = if n ≤ s.input.length then .ok (s.input.take n) { s with input := s.input.drop n }
                else .fail .ueof { s with input := [] } := by
  unfold readN
  simp only [take_length_eq_iff]

theorem skipN_eq (n : Nat) (s : RState) :
    skipN n s = if n ≤ s.input.length then .ok () { s with input := s.input.drop n }
                else .fail .eof { s with input := [] } := by
  unfold skipN
  simp only [take_length_eq_iff]

theorem readN_ok (n : Nat) (s : RState) (h : n ≤ s.input.length) :
    readN n s = .ok (s.input.take n) { s with input := s.input.drop n } := by
  simp [readN_eq, h]

theorem readN_short (n : Nat) (s : RState) (h : s.input.length < n) :
    readN n s = .fail .ueof { s with input := [] } := by
  simp [readN_eq, Nat.not_le.mpr h]

theorem readHdr_ok (s : RState) (b0 b1 : UInt8) (rest : Bytes) (h : s.input = b0 :: b1 :: rest) :
    readHdr s = .ok (decodeHdr b0 b1)
      { s with input := rest, readRemaining := wrap64 (decodeHdr b0 b1).len7 } := by
  simp [readHdr, readN_eq, h]

theorem readHdr_short (s : RState) (h : s.input.length < 2) :
    readHdr s = .fail .ueof { s with input := [] } := by
  simp [readHdr, readN_eq, Nat.not_le.mpr h]

/-! ### no stage of `advanceFrame` panics -/

theorem readN_ne_panic (n : Nat) (s : RState) : readN n s ≠ .panic := by
  rw [readN_eq]; split <;> simp

theorem skipPrev_ne_panic (s : RState) : skipPrev s ≠ .panic := by
  unfold skipPrev; rw [skipN_eq]; repeat' split
  all_goals simp

theorem readHdr_ne_panic (s : RState) : readHdr s ≠ .panic := by
  unfold readHdr; rw [readN_eq]
  by_cases h : 2 ≤ s.input.length
  · simp only [h, if_true]
    match hi : s.input with
    | [] => simp [hi] at h
    | [_] => simp [hi] at h
    | a :: b :: r => simp
  · simp [h]

theorem checkHdr_ne_panic (h : Hdr) (s : RState) : checkHdr h s ≠ .panic := by
  simp only [checkHdr, protoErr]; repeat' split
  all_goals simp

theorem readLength_ne_panic (h : Hdr) (s : RState) : readLength h s ≠ .panic := by
  simp only [readLength, protoErr]; repeat' split
  all_goals first | (rename_i hh; exact absurd hh (readN_ne_panic _ _)) | simp

theorem readMask_ne_panic (h : Hdr) (s : RState) : readMask h s ≠ .panic := by
  simp only [readMask, protoErr]; repeat' split
  all_goals first | (rename_i hh; exact absurd hh (readN_ne_panic _ _)) | simp

theorem dataFrame_ne_panic (h : Hdr) (s : RState) : dataFrame h s ≠ .panic := by
  simp only [dataFrame]; repeat' split
  all_goals simp

theorem handleCloseFrame_ne_panic (p : Bytes) (s : RState) : handleCloseFrame p s ≠ .panic := by
  simp only [handleCloseFrame, protoErr]; repeat' split
  all_goals simp

theorem readCtlPayload_ne_panic (s : RState) : readCtlPayload s ≠ .panic := by
  simp only [readCtlPayload]; repeat' split
  all_goals first | (rename_i hh; exact absurd hh (readN_ne_panic _ _)) | simp

theorem controlFrame_ne_panic (h : Hdr) (s : RState) : controlFrame h s ≠ .panic := by
  simp only [controlFrame]; repeat' split
  all_goals first | (rename_i hh; exact absurd hh (readCtlPayload_ne_panic _)) | exact handleCloseFrame_ne_panic _ _ | simp

theorem bind_ne_panic {x : M α} {f : α → M β} {s : RState}
    (hx : x s ≠ .panic) (hf : ∀ a s', f a s' ≠ .panic) : (x >>= f) s ≠ .panic := by
  rw [bind_def]; split
  · exact hf _ _
  · simp
  · rename_i h; exact absurd h hx

theorem advanceFrame_ne_panic (s : RState) : advanceFrame s ≠ .panic := by
  unfold advanceFrame
  refine bind_ne_panic (skipPrev_ne_panic s) fun _ s => ?_
  refine bind_ne_panic (readHdr_ne_panic s) fun h s => ?_
  refine bind_ne_panic (checkHdr_ne_panic h s) fun _ s => ?_
  refine bind_ne_panic (readLength_ne_panic h s) fun _ s => ?_
  refine bind_ne_panic (readMask_ne_panic h s) fun _ s => ?_
  split
  · exact dataFrame_ne_panic h s
  · exact controlFrame_ne_panic h s

/-! ### int64 -/

theorem wrap64_neg_of_ge {n : Nat} (h1 : 2 ^ 63 ≤ n) (h2 : n < 2 ^ 64) : wrap64 n < 0 := by
  unfold wrap64; omega

theorem wrap64_of_lt {n : Nat} (h : n < 2 ^ 63) : wrap64 n = n := by
  unfold wrap64; omega

theorem wrap64_lt (n : Int) : wrap64 n < 2 ^ 63 := by unfold wrap64; omega
theorem wrap64_ge (n : Int) : -(2 ^ 63) ≤ wrap64 n := by unfold wrap64; omega

/-- The sum of two non-negative int64 values wraps negative exactly when it does not fit: a
non-negative wrapped sum is the true sum. -/
theorem wrap64_add_nonneg {a b : Int} (ha : 0 ≤ a) (ha' : a < 2 ^ 63) (hb : 0 ≤ b) (hb' : b < 2 ^ 63)
    (h : 0 ≤ wrap64 (a + b)) : wrap64 (a + b) = a + b := by
  unfold wrap64 at *; omega

theorem bind_ok {x : M α} {f : α → M β} {s s' : RState} {b : β} (h : (x >>= f) s = .ok b s') :
    ∃ a s1, x s = .ok a s1 ∧ f a s1 = .ok b s' := by
  rw [bind_def] at h; split at h
  · exact ⟨_, _, by assumption, h⟩
  · cases h
  · cases h

theorem skipPrev_noop (s : RState) (h : s.readRemaining ≤ 0) : skipPrev s = .ok () s := by
  simp [skipPrev, Int.not_lt.mpr h]

theorem checkHdr_input {h : Hdr} {s s' : RState} (hh : checkHdr h s = .ok () s') : s'.input = s.input := by
  simp only [checkHdr, protoErr] at hh
  repeat' split at hh
  all_goals first | cases hh | skip
  all_goals rfl

theorem readLength_top {h : Hdr} {s : RState} {ext rest : Bytes} (h7 : h.len7 = 127)
    (hin : s.input = ext ++ rest) (hext : ext.length = 8) (htop : 2 ^ 63 ≤ ofBE ext) :
    readLength h s = .fail .proto (sendCtl CloseMessage (be 2 CloseProtocolError)
      { s with input := rest, readRemaining := wrap64 (ofBE ext) }) := by
  have hlt : ofBE ext < 2 ^ 64 := by have := ofBE_lt ext; rw [hext] at this; exact this
  have hneg := wrap64_neg_of_ge htop hlt
  have h8 : 8 ≤ s.input.length := by rw [hin]; simp [hext]
  have ht : s.input.take 8 = ext := by rw [hin]; exact take_append_len _ _ hext
  have hd : s.input.drop 8 = rest := by rw [hin]; exact drop_append_len _ _ hext
  simp [readLength, h7, readN_eq, h8, ht, hd, hneg, protoErr]

/-- A frame whose 64-bit length field has the top bit set is never accepted: `advanceFrame` does not
return a frame for it, whatever the state, the other header fields and the bytes that follow. -/
theorem advanceFrame_top_bit (s : RState) (b0 b1 : UInt8) (ext rest : Bytes)
    (hrem : s.readRemaining ≤ 0) (hin : s.input = b0 :: b1 :: (ext ++ rest))
    (h7 : (decodeHdr b0 b1).len7 = 127) (hext : ext.length = 8) (htop : 2 ^ 63 ≤ ofBE ext) :
    ∀ ft s', advanceFrame s ≠ .ok ft s' := by
  intro ft s' h
  unfold advanceFrame at h
  obtain ⟨_, s1, h1, h⟩ := bind_ok h
  rw [skipPrev_noop s hrem] at h1; cases h1
  obtain ⟨hd, s2, h2, h⟩ := bind_ok h
  rw [readHdr_ok s b0 b1 _ hin] at h2; cases h2
  obtain ⟨_, s3, h3, h⟩ := bind_ok h
  obtain ⟨_, s4, h4, h⟩ := bind_ok h
  have hi := checkHdr_input h3
  rw [readLength_top h7 hi hext htop] at h4
  cases h4

/-- sticky: once `readErr` is set, `ReadMessage` returns it, reads nothing and writes nothing. -/
theorem readMessage_sticky (s : RState) (e : RErr) (h : s.readErr = some e) :
    readMessage s = .fail e { s with readLength := 0 } := by
  have : nextReader s = .fail e { s with readLength := 0 } := by
    simp [nextReader, nextReaderLoop, h]
  simp [readMessage, this]

/-- dataFrame accounting. -/
theorem dataFrame_ok {h : Hdr} {s s' : RState} {ft : Nat} (hh : dataFrame h s = .ok ft s') :
    ft = h.frameType ∧ s' = { s with readLength := wrap64 (s.readLength + s.readRemaining) } ∧
    0 ≤ s'.readLength ∧ (s.readLimit > 0 → s'.readLength ≤ s.readLimit) := by
  simp only [dataFrame] at hh
  split at hh
  · cases hh
  · rename_i hc
    cases hh
    simp only [Bool.or_eq_true, Bool.and_eq_true, decide_eq_true_eq, not_or, not_and, Int.not_lt] at hc
    refine ⟨rfl, rfl, hc.1, fun hl => ?_⟩
    have := hc.2 hl
    simpa using this

/-! ### effects of the successful stages -/

/-- Fields no successful stage of `advanceFrame` touches, and the input only shrinks. -/
structure Eff (s s' : RState) : Prop where
  isServer : s'.isServer = s.isServer
  decompress : s'.decompress = s.decompress
  readLimit : s'.readLimit = s.readLimit
  readErr : s'.readErr = s.readErr
  len : s'.input.length ≤ s.input.length

theorem Eff.refl (s : RState) : Eff s s := ⟨rfl, rfl, rfl, rfl, Nat.le_refl _⟩

theorem Eff.trans {a b c : RState} (h1 : Eff a b) (h2 : Eff b c) : Eff a c :=
  ⟨h2.isServer.trans h1.isServer, h2.decompress.trans h1.decompress, h2.readLimit.trans h1.readLimit,
   h2.readErr.trans h1.readErr, Nat.le_trans h2.len h1.len⟩

theorem readN_ok_iff {n : Nat} {s s' : RState} {p : Bytes} (h : readN n s = .ok p s') :
    n ≤ s.input.length ∧ p = s.input.take n ∧ s' = { s with input := s.input.drop n } := by
  rw [readN_eq] at h; split at h
  · cases h; exact ⟨by assumption, rfl, rfl⟩
  · cases h

theorem skipPrev_ok {s s' : RState} (h : skipPrev s = .ok () s') :
    Eff s s' ∧ s'.readLength = s.readLength := by
  simp only [skipPrev, skipN_eq] at h
  repeat' split at h
  all_goals first | cases h | skip
  all_goals exact ⟨⟨rfl, rfl, rfl, rfl, by simp⟩, rfl⟩

theorem decodeHdr_len7 (b0 b1 : UInt8) : (decodeHdr b0 b1).len7 < 128 := by
  simp only [decodeHdr]
  revert b1; apply forall_u8; decide +kernel

theorem readHdr_ok' {s s' : RState} {h : Hdr} (hh : readHdr s = .ok h s') :
    Eff s s' ∧ s'.readLength = s.readLength ∧ s'.input.length + 2 ≤ s.input.length ∧
    s'.readRemaining = wrap64 h.len7 ∧ h.len7 < 128 := by
  simp only [readHdr] at hh
  split at hh
  · cases hh
  · cases hh
  · rename_i p s1 hr
    obtain ⟨hn, hp, hs1⟩ := readN_ok_iff hr
    split at hh
    · cases hh
      subst hs1
      refine ⟨⟨rfl, rfl, rfl, rfl, by simp⟩, rfl, ?_, rfl, decodeHdr_len7 _ _⟩
      simp; omega
    · cases hh

theorem checkHdr_ok {h : Hdr} {s s' : RState} (hh : checkHdr h s = .ok () s') :
    Eff s s' ∧ s'.readLength = s.readLength ∧ s'.readRemaining = s.readRemaining ∧ s'.input = s.input ∧
    (isControl h.frameType = true ∨ isData h.frameType = true ∨ h.frameType = 0) := by
  simp only [checkHdr, protoErr] at hh
  repeat' split at hh
  all_goals first | cases hh | skip
  all_goals refine ⟨⟨rfl, rfl, rfl, rfl, Nat.le_refl _⟩, rfl, rfl, rfl, ?_⟩
  all_goals simp_all [continuationFrame]

theorem readLength_ok {h : Hdr} {s s' : RState} (hh : readLength h s = .ok () s')
    (hr : s.readRemaining = wrap64 h.len7) (h7 : h.len7 < 128) :
    Eff s s' ∧ s'.readLength = s.readLength ∧ 0 ≤ s'.readRemaining ∧ s'.readRemaining < 2 ^ 63 := by
  simp only [readLength, protoErr] at hh
  repeat' split at hh
  all_goals first | cases hh | skip
  · rename_i p s1 hrd
    obtain ⟨hn, hp, hs1⟩ := readN_ok_iff hrd
    subst hs1
    refine ⟨⟨rfl, rfl, rfl, rfl, by simp⟩, rfl, ?_, wrap64_lt _⟩
    have : ofBE p < 256 ^ 2 := by
      have := ofBE_lt p; rw [hp] at this ⊢; simpa [List.length_take, Nat.min_eq_left hn] using this
    show 0 ≤ wrap64 _
    rw [wrap64_of_lt (by omega)]; omega
  · rename_i p s1 hrd hneg
    obtain ⟨hn, hp, hs1⟩ := readN_ok_iff hrd
    subst hs1
    exact ⟨⟨rfl, rfl, rfl, rfl, by simp⟩, rfl, by simpa using hneg, wrap64_lt _⟩
  · refine ⟨Eff.refl _, rfl, ?_, ?_⟩
    · rw [hr, wrap64_of_lt (by omega)]; omega
    · rw [hr]; exact wrap64_lt _

theorem readMask_ok {h : Hdr} {s s' : RState} (hh : readMask h s = .ok () s') :
    Eff s s' ∧ s'.readLength = s.readLength ∧ s'.readRemaining = s.readRemaining := by
  simp only [readMask, protoErr] at hh
  repeat' split at hh
  all_goals first | cases hh | skip
  · rename_i p s1 hrd
    obtain ⟨hn, hp, hs1⟩ := readN_ok_iff hrd
    subst hs1
    exact ⟨⟨rfl, rfl, rfl, rfl, by simp⟩, rfl, rfl⟩
  · exact ⟨Eff.refl _, rfl, rfl⟩

theorem sendCtl_eff (op : Nat) (p : Bytes) (s : RState) :
    Eff s (sendCtl op p s) ∧ (sendCtl op p s).readLength = s.readLength ∧
    (sendCtl op p s).readRemaining = s.readRemaining ∧ (sendCtl op p s).input = s.input := by
  unfold sendCtl; split
  · exact ⟨Eff.refl _, rfl, rfl, rfl⟩
  · exact ⟨⟨rfl, rfl, rfl, rfl, Nat.le_refl _⟩, rfl, rfl, rfl⟩

theorem handleCloseFrame_not_ok (p : Bytes) (s s' : RState) (ft : Nat) : handleCloseFrame p s ≠ .ok ft s' := by
  simp only [handleCloseFrame, protoErr]; repeat' split
  all_goals simp

theorem readCtlPayload_ok {s s' : RState} {p : Bytes} (hh : readCtlPayload s = .ok p s') (h0 : 0 ≤ s.readRemaining) :
    Eff s s' ∧ s'.readLength = s.readLength ∧ s'.readRemaining = 0 := by
  simp only [readCtlPayload] at hh
  split at hh
  · split at hh
    · cases hh
    · cases hh
    · rename_i q s1 hrd
      obtain ⟨hn, hp, hs1⟩ := readN_ok_iff hrd
      cases hh
      subst hs1
      exact ⟨⟨rfl, rfl, rfl, rfl, by simp⟩, rfl, rfl⟩
  · rename_i hneg
    cases hh
    exact ⟨Eff.refl _, rfl, by omega⟩

theorem controlFrame_ok {h : Hdr} {s s' : RState} {ft : Nat} (hh : controlFrame h s = .ok ft s')
    (h0 : 0 ≤ s.readRemaining) :
    Eff s s' ∧ s'.readLength = s.readLength ∧ s'.readRemaining = 0 ∧ ft = h.frameType ∧
    (ft = PingMessage ∨ ft = PongMessage) := by
  simp only [controlFrame] at hh
  split at hh
  · cases hh
  · cases hh
  · rename_i p s1 hp
    obtain ⟨e1, l1, r1⟩ := readCtlPayload_ok hp h0
    split at hh
    · rename_i hpong
      cases hh
      exact ⟨e1, l1, r1, rfl, Or.inr (by simpa using hpong)⟩
    · split at hh
      · rename_i hping
        cases hh
        obtain ⟨e2, l2, r2, _⟩ := sendCtl_eff PongMessage p s1
        exact ⟨e1.trans e2, l2.trans l1, r2.trans r1, rfl, Or.inl (by simpa using hping)⟩
      · exact absurd hh (handleCloseFrame_not_ok _ _ _ _)

/-- RL1: what a successfully returned frame did to the read-limit accounting. -/
theorem advanceFrame_ok {s s' : RState} {ft : Nat} (hh : advanceFrame s = .ok ft s') :
    Eff s s' ∧ s'.input.length + 2 ≤ s.input.length ∧ 0 ≤ s'.readRemaining ∧ s'.readRemaining < 2 ^ 63 ∧
    (((ft = 0 ∨ ft = TextMessage ∨ ft = BinaryMessage) ∧
        s'.readLength = wrap64 (s.readLength + s'.readRemaining) ∧ 0 ≤ s'.readLength ∧
        (s.readLimit > 0 → s'.readLength ≤ s.readLimit))
     ∨ ((ft = PingMessage ∨ ft = PongMessage) ∧ s'.readRemaining = 0 ∧ s'.readLength = s.readLength)) := by
  unfold advanceFrame at hh
  obtain ⟨_, s1, h1, hh⟩ := bind_ok hh
  obtain ⟨hd, s2, h2, hh⟩ := bind_ok hh
  obtain ⟨_, s3, h3, hh⟩ := bind_ok hh
  obtain ⟨_, s4, h4, hh⟩ := bind_ok hh
  obtain ⟨_, s5, h5, hh⟩ := bind_ok hh
  obtain ⟨e1, l1⟩ := skipPrev_ok h1
  obtain ⟨e2, l2, n2, r2, h7⟩ := readHdr_ok' h2
  obtain ⟨e3, l3, r3, i3, ty3⟩ := checkHdr_ok h3
  obtain ⟨e4, l4, r4, r4'⟩ := readLength_ok h4 (r3.trans r2) h7
  obtain ⟨e5, l5, r5⟩ := readMask_ok h5
  have e15 : Eff s s5 := (((e1.trans e2).trans e3).trans e4).trans e5
  have len5 : s5.input.length + 2 ≤ s.input.length := by
    have := e1.len; have := e3.len; have := e4.len; have := e5.len; omega
  have hl5 : s5.readLength = s.readLength := by rw [l5, l4, l3, l2, l1]
  split at hh
  · rename_i hdata
    obtain ⟨hft, hs', h0, hlim⟩ := dataFrame_ok hh
    subst hs'
    refine ⟨⟨e15.isServer, e15.decompress, e15.readLimit, e15.readErr, e15.len⟩, len5, ?_, ?_, Or.inl ⟨?_, ?_, h0, ?_⟩⟩
    · show 0 ≤ s5.readRemaining; rw [r5]; exact r4
    · show s5.readRemaining < 2 ^ 63; rw [r5]; exact r4'
    · subst hft
      simp only [Bool.or_eq_true, beq_iff_eq, isData] at hdata
      rcases hdata with h | h | h
      · exact Or.inl h
      · exact Or.inr (Or.inl h)
      · exact Or.inr (Or.inr h)
    · show wrap64 (s5.readLength + s5.readRemaining) = wrap64 (s.readLength + s5.readRemaining)
      rw [hl5]
    · intro hl
      have := hlim (by rw [e15.readLimit]; exact hl)
      rw [e15.readLimit] at this; exact this
  · obtain ⟨e6, l6, r6, hft, hpp⟩ := controlFrame_ok hh (by rw [r5]; exact r4)
    refine ⟨e15.trans e6, ?_, by rw [r6]; decide, by rw [r6]; decide, Or.inr ⟨hpp, r6, by rw [l6, hl5]⟩⟩
    have := e6.len; omega

theorem maskBytes_length (key : Bytes) (pos : Nat) (bs : Bytes) : (maskBytes key pos bs).length = bs.length := by
  induction bs generalizing pos with
  | nil => rfl
  | cons b bs ih => simp [maskBytes, ih]

/-! ### loops: fuel is never exhausted -/

theorem nextReaderLoop_ne_panic (fuel : Nat) (s : RState) (h : s.input.length < fuel) :
    nextReaderLoop fuel s ≠ .panic := by
  induction fuel generalizing s with
  | zero => omega
  | succ n ih =>
    simp only [nextReaderLoop]
    split
    · simp
    · split
      · rename_i hp; exact absurd hp (advanceFrame_ne_panic s)
      · simp
      · rename_i ft s' hok
        split
        · simp
        · have := (advanceFrame_ok hok).2.1
          exact ih s' (by omega)

theorem nextReader_ne_panic (s : RState) : nextReader s ≠ .panic := by
  unfold nextReader
  exact nextReaderLoop_ne_panic _ _ (by simp)

theorem readAllLoop_err (fuel : Nat) (acc : Bytes) (s : RState) (e : RErr) (h : s.readErr = some e) :
    readAllLoop (fuel + 1) acc s = .ok (acc, some (if e = .eof then .ueof else e)) s := by
  simp [readAllLoop, h]

theorem readAllLoop_ne_panic (fuel : Nat) (acc : Bytes) (s : RState) (h : 2 * s.input.length + 2 ≤ fuel) :
    readAllLoop fuel acc s ≠ .panic := by
  induction fuel generalizing s acc with
  | zero => omega
  | succ n ih =>
    simp only [readAllLoop]
    split
    · simp
    · split
      · split
        · simp
        · rename_i hn
          apply ih
          simp only [List.length_drop]
          have : 0 < min s.readRemaining.toNat s.input.length := by
            simp only [beq_iff_eq, List.length_take] at hn; omega
          simp only [List.length_take]
          omega
      · split
        · simp
        · split
          · rename_i hp; exact absurd hp (advanceFrame_ne_panic s)
          · rename_i e s' _
            cases n with
            | zero => omega
            | succ m => rw [readAllLoop_err m acc _ e rfl]; simp
          · rename_i ft s' hok
            have := (advanceFrame_ok hok).2.1
            split
            · exact ih _ _ (by simp only; omega)
            · exact ih _ _ (by omega)

/-! ### the input only shrinks, whatever the outcome -/

def Out.inputLE (o : Out α) (n : Nat) : Prop :=
  match o with
  | .ok _ s' => s'.input.length ≤ n
  | .fail _ s' => s'.input.length ≤ n
  | .panic => True

theorem bind_inputLE {x : M α} {f : α → M β} {s : RState} {n : Nat}
    (hx : (x s).inputLE n) (hf : ∀ a s1, s1.input.length ≤ n → (f a s1).inputLE n) :
    ((x >>= f) s).inputLE n := by
  rw [bind_def]; split
  · rename_i a s1 h; rw [h] at hx; exact hf a s1 hx
  · rename_i e s1 h; rw [h] at hx; exact hx
  · trivial

theorem sendCtl_input (op : Nat) (p : Bytes) (s : RState) : (sendCtl op p s).input = s.input := by
  unfold sendCtl; split <;> rfl

theorem readN_inputLE (n : Nat) (s : RState) : (readN n s).inputLE s.input.length := by
  rw [readN_eq]; split <;> simp [Out.inputLE]

theorem inputLE_mono {o : Out α} {n m : Nat} (h : o.inputLE n) (hnm : n ≤ m) : o.inputLE m := by
  cases o <;> simp_all [Out.inputLE] <;> omega

theorem ite_inputLE {c : Prop} [Decidable c] {a b : Out α} {n : Nat}
    (ha : a.inputLE n) (hb : b.inputLE n) : (if c then a else b).inputLE n := by
  split <;> assumption

theorem skipPrev_inputLE (s : RState) : (skipPrev s).inputLE s.input.length := by
  simp only [skipPrev, skipN_eq]; repeat' split
  all_goals simp [Out.inputLE]

theorem readHdr_inputLE (s : RState) : (readHdr s).inputLE s.input.length := by
  simp only [readHdr]
  have := readN_inputLE 2 s
  split
  · trivial
  · rename_i h; rw [h] at this; exact this
  · rename_i h; rw [h] at this
    split
    · exact this
    · trivial

theorem checkHdr_inputLE (h : Hdr) (s : RState) : (checkHdr h s).inputLE s.input.length := by
  simp only [checkHdr, protoErr]; repeat' split
  all_goals simp [Out.inputLE, sendCtl_input]

theorem readLength_inputLE (h : Hdr) (s : RState) : (readLength h s).inputLE s.input.length := by
  simp only [readLength, protoErr]
  split
  · have := readN_inputLE 2 s
    split
    · trivial
    · rename_i h; rw [h] at this; exact this
    · rename_i h; rw [h] at this; exact this
  · split
    · have := readN_inputLE 8 s
      split
      · trivial
      · rename_i h; rw [h] at this; exact this
      · rename_i p s1 h; rw [h] at this
        generalize wrap64 (ofBE p) = w
        apply ite_inputLE
        · simpa [Out.inputLE, sendCtl_input] using this
        · exact this
    · simp [Out.inputLE]

theorem readMask_inputLE (h : Hdr) (s : RState) : (readMask h s).inputLE s.input.length := by
  simp only [readMask, protoErr]
  split
  · simp [Out.inputLE, sendCtl_input]
  · split
    · have := readN_inputLE 4 s
      split
      · trivial
      · rename_i h; rw [h] at this; exact this
      · rename_i h; rw [h] at this; exact this
    · simp [Out.inputLE]

theorem dataFrame_inputLE (h : Hdr) (s : RState) : (dataFrame h s).inputLE s.input.length := by
  simp only [dataFrame]; split
  all_goals simp [Out.inputLE, sendCtl_input]

theorem handleCloseFrame_inputLE (p : Bytes) (s : RState) : (handleCloseFrame p s).inputLE s.input.length := by
  simp only [handleCloseFrame, protoErr]; repeat' split
  all_goals simp [Out.inputLE, sendCtl_input]

theorem readCtlPayload_inputLE (s : RState) : (readCtlPayload s).inputLE s.input.length := by
  simp only [readCtlPayload]
  split
  · have := readN_inputLE s.readRemaining.toNat { s with readRemaining := 0 }
    split
    · trivial
    · rename_i h; rw [h] at this; exact this
    · rename_i h; rw [h] at this; exact this
  · simp [Out.inputLE]

theorem controlFrame_inputLE (h : Hdr) (s : RState) : (controlFrame h s).inputLE s.input.length := by
  simp only [controlFrame]
  have := readCtlPayload_inputLE s
  split
  · trivial
  · rename_i h; rw [h] at this; exact this
  · rename_i p s1 h; rw [h] at this
    split
    · exact this
    · split
      · simpa [Out.inputLE, sendCtl_input] using this
      · exact inputLE_mono (handleCloseFrame_inputLE p s1) this

theorem advanceFrame_inputLE (s : RState) : (advanceFrame s).inputLE s.input.length := by
  unfold advanceFrame
  refine bind_inputLE (skipPrev_inputLE s) fun _ s1 h1 => ?_
  refine bind_inputLE (inputLE_mono (readHdr_inputLE s1) h1) fun h s2 h2 => ?_
  refine bind_inputLE (inputLE_mono (checkHdr_inputLE h s2) h2) fun _ s3 h3 => ?_
  refine bind_inputLE (inputLE_mono (readLength_inputLE h s3) h3) fun _ s4 h4 => ?_
  refine bind_inputLE (inputLE_mono (readMask_inputLE h s4) h4) fun _ s5 h5 => ?_
  split
  · exact inputLE_mono (dataFrame_inputLE h s5) h5
  · exact inputLE_mono (controlFrame_inputLE h s5) h5

theorem advanceFrame_fail_len {s s' : RState} {e : RErr} (h : advanceFrame s = .fail e s') :
    s'.input.length ≤ s.input.length := by
  have := advanceFrame_inputLE s; rw [h] at this; exact this

/-! ### read limit: the accounting invariant through `NextReader` and `ReadAll` -/

/-- Bytes handed out so far plus bytes still announced never exceed `readLength`, which never
exceeds the limit and never wrapped. -/
def Acct (L : Int) (acc : Bytes) (s : RState) : Prop :=
  s.readLimit = L ∧ 0 ≤ s.readRemaining ∧ (acc.length : Int) + s.readRemaining ≤ s.readLength ∧
  s.readLength < 2 ^ 63 ∧ s.readLength ≤ L

theorem readAllLoop_limit (L : Int) (hL : 0 < L) (fuel : Nat) (acc : Bytes) (s s' : RState)
    (data : Bytes) (e : Option RErr)
    (hacc : (acc.length : Int) ≤ L) (hinv : s.readErr = none → Acct L acc s)
    (h : readAllLoop fuel acc s = .ok (data, e) s') : (data.length : Int) ≤ L := by
  induction fuel generalizing s acc with
  | zero => simp [readAllLoop] at h
  | succ n ih =>
    simp only [readAllLoop] at h
    split at h
    · cases h; exact hacc
    · rename_i hnone
      obtain ⟨hlim, h0, hsum, hlt, hle⟩ := hinv hnone
      split at h
      · rename_i hpos
        split at h
        · cases h; exact hacc
        · rename_i hn
          simp only [List.length_take] at hn h
          have hnpos : 0 < min s.readRemaining.toNat s.input.length := by
            simp only [beq_iff_eq] at hn; omega
          have hnle : (min s.readRemaining.toNat s.input.length : Int) ≤ s.readRemaining := by omega
          refine ih _ _ ?_ ?_ h
          · split <;> simp [maskBytes_length, List.length_take] <;> omega
          · intro _
            refine ⟨hlim, ?_, ?_, hlt, hle⟩
            · show 0 ≤ s.readRemaining - _; omega
            · show ((acc ++ _).length : Int) + (s.readRemaining - _) ≤ s.readLength
              split <;> simp [maskBytes_length, List.length_take] <;> omega
      · rename_i hnpos
        have hr0 : s.readRemaining = 0 := by omega
        split at h
        · cases h; exact hacc
        · split at h
          · cases h
          · exact ih _ _ hacc (by intro hc; cases hc) h
          · rename_i ft s1 hok
            obtain ⟨eff, _, r0, rlt, hcase⟩ := advanceFrame_ok hok
            split at h
            · exact ih _ _ hacc (by intro hc; cases hc) h
            · refine ih _ _ hacc ?_ h
              intro _
              have hacc0 : (acc.length : Int) ≤ s.readLength := by omega
              rcases hcase with ⟨_, hrl, hnn, hlimit⟩ | ⟨_, hr, hrl⟩
              · have hsumEq := wrap64_add_nonneg (by omega) hlt r0 rlt (by rw [← hrl]; exact hnn)
                refine ⟨eff.readLimit.trans hlim, r0, ?_, ?_, ?_⟩
                · rw [hrl, hsumEq]; omega
                · rw [hrl]; exact wrap64_lt _
                · have := hlimit (by rw [hlim]; exact hL); rw [hlim] at this; exact this
              · refine ⟨eff.readLimit.trans hlim, r0, ?_, by rw [hrl]; exact hlt, by rw [hrl]; exact hle⟩
                rw [hr, hrl]; omega

theorem nextReaderLoop_acct (L : Int) (hL : 0 < L) (fuel : Nat) (s s' : RState) (ty : Nat)
    (h0 : 0 ≤ s.readLength) (hlt : s.readLength < 2 ^ 63) (hlim : s.readLimit = L)
    (h : nextReaderLoop fuel s = .ok ty s') :
    s'.readErr = none ∧ Acct L [] s' ∧ s'.input.length + 2 ≤ s.input.length := by
  induction fuel generalizing s with
  | zero => simp [nextReaderLoop] at h
  | succ n ih =>
    simp only [nextReaderLoop] at h
    split at h
    · cases h
    · rename_i hnone
      split at h
      · cases h
      · cases h
      · rename_i ft s1 hok
        obtain ⟨eff, hlen, r0, rlt, hcase⟩ := advanceFrame_ok hok
        have hstep : 0 ≤ s1.readLength ∧ s1.readLength < 2 ^ 63 ∧ (s1.readRemaining ≤ s1.readLength) ∧ s1.readLength ≤ L
            ∨ (s1.readLength = s.readLength ∧ s1.readRemaining = 0 ∧ (ft = PingMessage ∨ ft = PongMessage)) := by
          rcases hcase with ⟨_, hrl, hnn, hlimit⟩ | ⟨hp, hr, hrl⟩
          · left
            have hsumEq := wrap64_add_nonneg h0 hlt r0 rlt (by rw [← hrl]; exact hnn)
            refine ⟨hnn, by rw [hrl]; exact wrap64_lt _, by rw [hrl, hsumEq]; omega, ?_⟩
            have := hlimit (by rw [hlim]; exact hL); rw [hlim] at this; exact this
          · right; exact ⟨hrl, hr, hp⟩
        split at h
        · rename_i hty
          cases h
          rcases hstep with ⟨a, b, c, d⟩ | ⟨_, _, hp⟩
          · exact ⟨eff.readErr.trans hnone, ⟨eff.readLimit.trans hlim, r0, by simpa using c, b, d⟩, hlen⟩
          · exfalso
            simp only [Bool.or_eq_true, beq_iff_eq] at hty
            rcases hp with hp | hp <;> rcases hty with hty | hty <;> rw [hp] at hty <;> cases hty
        · have hs1 : 0 ≤ s1.readLength ∧ s1.readLength < 2 ^ 63 := by
            rcases hstep with ⟨a, b, _, _⟩ | ⟨hrl, _, _⟩
            · exact ⟨a, b⟩
            · rw [hrl]; exact ⟨h0, hlt⟩
          obtain ⟨a, b, c⟩ := ih s1 hs1.1 hs1.2 (eff.readLimit.trans hlim) h
          exact ⟨a, b, by omega⟩

/-- **Read limit.** With a limit `L > 0` configured, whatever the state and whatever bytes the peer
sends (every framing, every 64-bit length, any interleaving of control frames), `ReadMessage` never
hands out more than `L` payload bytes — neither as a delivered message (`e = none`) nor as the
partial data returned next to an error. -/
theorem readMessage_limit (s s' : RState) (m : Msg) (e : Option RErr) (hL : 0 < s.readLimit)
    (h : readMessage s = .ok (m, e) s') : (m.data.length : Int) ≤ s.readLimit := by
  simp only [readMessage] at h
  split at h
  · cases h
  · cases h
  · rename_i ty s1 hnr
    split at h
    · cases h
    · cases h
    · rename_i data e' s2 hra
      cases h
      simp only [nextReader] at hnr
      obtain ⟨hnone, hacct, _⟩ := nextReaderLoop_acct s.readLimit hL _ { s with readLength := 0 } s1 ty
        (by simp) (by show (0 : Int) < 2 ^ 63; decide) rfl hnr
      exact readAllLoop_limit s.readLimit hL _ [] s1 _ _ _ (by simp; omega) (fun _ => hacct) hra

/-! ### sessions: totality, limit on every delivered message -/

theorem nextReaderLoop_len (fuel : Nat) (s s' : RState) (ty : Nat) (h : nextReaderLoop fuel s = .ok ty s') :
    s'.input.length + 2 ≤ s.input.length ∧ s'.readLimit = s.readLimit ∧ s'.readErr = none := by
  induction fuel generalizing s with
  | zero => simp [nextReaderLoop] at h
  | succ n ih =>
    simp only [nextReaderLoop] at h
    split at h
    · cases h
    · rename_i hnone
      split at h
      · cases h
      · cases h
      · rename_i ft s1 hok
        obtain ⟨eff, hlen, _⟩ := advanceFrame_ok hok
        split at h
        · cases h; exact ⟨hlen, eff.readLimit, eff.readErr.trans hnone⟩
        · obtain ⟨a, b, c⟩ := ih s1 h
          exact ⟨by omega, b.trans eff.readLimit, c⟩

theorem readAllLoop_done (fuel : Nat) (acc : Bytes) (s s' : RState) (data : Bytes)
    (h : readAllLoop fuel acc s = .ok (data, none) s') :
    s'.input.length ≤ s.input.length ∧ s'.readLimit = s.readLimit ∧ s'.readErr = none := by
  induction fuel generalizing s acc with
  | zero => simp [readAllLoop] at h
  | succ n ih =>
    simp only [readAllLoop] at h
    split at h
    · cases h
    · rename_i hnone
      split at h
      · split at h
        · cases h
        · obtain ⟨a, b, c⟩ := ih _ _ h
          simp only [List.length_drop] at a
          exact ⟨by omega, b, c⟩
      · split at h
        · cases h; exact ⟨Nat.le_refl _, rfl, hnone⟩
        · split at h
          · cases h
          · rename_i e s1 _
            cases n with
            | zero => simp [readAllLoop] at h
            | succ k => rw [readAllLoop_err k acc _ e rfl] at h; cases h
          · rename_i ft s1 hok
            obtain ⟨eff, hlen, _⟩ := advanceFrame_ok hok
            split at h
            · cases n with
              | zero => simp [readAllLoop] at h
              | succ k => rw [readAllLoop_err k acc _ .internal rfl] at h; cases h
            · obtain ⟨a, b, c⟩ := ih _ _ h
              exact ⟨by omega, b.trans eff.readLimit, c⟩

theorem readMessage_ne_panic (s : RState) : readMessage s ≠ .panic := by
  simp only [readMessage]
  split
  · rename_i h; exact absurd h (nextReader_ne_panic s)
  · simp
  · rename_i ty s1 _
    split
    · rename_i h; exact absurd h (readAllLoop_ne_panic _ _ _ (by omega))
    · simp
    · simp

theorem readMessage_done {s s' : RState} {m : Msg} (h : readMessage s = .ok (m, none) s') :
    s'.input.length + 2 ≤ s.input.length ∧ s'.readLimit = s.readLimit := by
  simp only [readMessage] at h
  split at h
  · cases h
  · cases h
  · rename_i ty s1 hnr
    split at h
    · cases h
    · cases h
    · rename_i hra
      cases h
      simp only [nextReader] at hnr
      obtain ⟨a, b, _⟩ := nextReaderLoop_len _ _ _ _ hnr
      obtain ⟨c, d, _⟩ := readAllLoop_done _ _ _ _ _ hra
      exact ⟨by simp at a; omega, d.trans b⟩

/-- Every finite stream ends the session in an error: the session loop always produces a trace
(its fuel is never exhausted, nothing panics). -/
theorem sessionLoop_total (fuel : Nat) (s : RState) (acc : List Msg) (h : s.input.length + 2 ≤ fuel) :
    ∃ t, sessionLoop fuel s acc = some t := by
  induction fuel generalizing s acc with
  | zero => omega
  | succ n ih =>
    simp only [sessionLoop]
    split
    · rename_i m s1 hrm
      have := (readMessage_done hrm).1
      exact ih s1 _ (by omega)
    · exact ⟨_, rfl⟩
    · exact ⟨_, rfl⟩
    · rename_i hp; exact absurd hp (readMessage_ne_panic s)

theorem session_total (s : RState) : ∃ t, session s = some t :=
  sessionLoop_total _ s [] (Nat.le_refl _)

theorem sessionLoop_limit (L : Int) (hL : 0 < L) (fuel : Nat) (s : RState) (acc : List Msg) (t : Trace)
    (hs : s.readLimit = L) (hacc : ∀ m ∈ acc, (m.data.length : Int) ≤ L)
    (h : sessionLoop fuel s acc = some t) :
    (∀ m ∈ t.msgs, (m.data.length : Int) ≤ L) ∧ (t.partialLen : Int) ≤ L := by
  induction fuel generalizing s acc with
  | zero => simp [sessionLoop] at h
  | succ n ih =>
    simp only [sessionLoop] at h
    split at h
    · rename_i m s1 hrm
      have hm := readMessage_limit s s1 m none (by rw [hs]; exact hL) hrm
      refine ih s1 _ ((readMessage_done hrm).2.trans hs) ?_ h
      intro x hx
      rcases List.mem_append.mp hx with hx | hx
      · exact hacc x hx
      · simp at hx; subst hx; rw [hs] at hm; exact hm
    · rename_i m e s1 hrm
      have hm := readMessage_limit s s1 m (some e) (by rw [hs]; exact hL) hrm
      cases h
      exact ⟨hacc, by rw [hs] at hm; exact hm⟩
    · cases h; exact ⟨hacc, by simp; omega⟩
    · cases h

end Oryx.WsRead
