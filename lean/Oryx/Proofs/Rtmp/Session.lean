/-
  RTMP: one written message is read back (any chunk size ≥ 1, any payload length), and sessions.
-/
import Oryx.Proofs.Rtmp.Header
namespace Oryx.Rtmp
open Oryx Oryx.Res

theorem hdrOf_len (m : Msg) : (hdrOf m).len = m.payload.length := rfl
theorem hdrOf_cid (m : Msg) : (hdrOf m).cid = m.hdr.cid := rfl

theorem readMessagePayload_step (c : Nat) (ch : ChunkStream) (m : Msg) (pre data tail : Bytes)
    (hmsg : ch.msg = some { hdr := hdrOf m, payload := pre })
    (hpos : 0 < m.payload.length) (hle : pre.length ≤ m.payload.length)
    (hn : data.length = min (m.payload.length - pre.length) c) :
    readMessagePayload c ch (data ++ tail) =
      if m.payload.length = pre.length + data.length
      then ok (({ ch with msg := none }, some { hdr := hdrOf m, payload := pre ++ data }), tail)
      else ok (({ ch with msg := some { hdr := hdrOf m, payload := pre ++ data } }, none), tail) := by
  have h0 : ¬ m.payload.length = 0 := by omega
  have h1 : ¬ m.payload.length < pre.length := by omega
  unfold readMessagePayload
  rw [hmsg]
  dsimp only
  rw [hdrOf_len, if_neg h0, if_neg h1, readFull_append data tail hn]
  simp only [Res.bind_ok, List.length_append]
  split <;> rfl

/-- No chunk stream other than `cid` holds a partial message, and each knows its id. -/
def CleanExcept (st : Reader) (cid : Nat) : Prop :=
  ∀ k, k ≠ cid → ∀ ch, st.chunks.get k = some ch → ch.msg = none ∧ ch.hdr.cid = k

/-- No chunk stream holds a partial message. -/
def Clean (st : Reader) : Prop :=
  ∀ k ch, st.chunks.get k = some ch → ch.msg = none ∧ ch.hdr.cid = k

/-- Chunk stream `m.hdr.cid` holds the first `pre` bytes of `m`. -/
def PartialAt (st : Reader) (m : Msg) (pre : Bytes) : Prop :=
  ∃ ch, st.chunks.get m.hdr.cid = some ch ∧ ch.msg = some { hdr := hdrOf m, payload := pre } ∧
    ch.hdr = hdrOf m ∧ ch.extTs = decide (m.hdr.ts ≥ Gen.Rtmp.extendedTimestamp) ∧ ch.count ≠ 0

theorem clean_set_done (st : Reader) (cid : Nat) (ch : ChunkStream) (ic : Nat)
    (h : CleanExcept st cid) (h1 : ch.msg = none) (h2 : ch.hdr.cid = cid) :
    Clean { inChunk := ic, chunks := st.chunks.set cid ch } := by
  intro k ch' hk
  by_cases hkc : k = cid
  · subst hkc
    simp only [Chunks.get_set_same, Option.some.injEq] at hk
    subst hk; exact ⟨h1, h2⟩
  · simp only [Chunks.get_set_other _ _ _ _ hkc] at hk
    exact h k hkc ch' hk

theorem cleanExcept_set (st : Reader) (cid : Nat) (ch : ChunkStream) (ic : Nat) (h : CleanExcept st cid) :
    CleanExcept { inChunk := ic, chunks := st.chunks.set cid ch } cid := by
  intro k hkc ch' hk
  simp only [Chunks.get_set_other _ _ _ _ hkc] at hk
  exact h k hkc ch' hk

theorem c3_basic (m : Msg) (hm : m.WF) (tail : Bytes) :
    readBasicHeader (UInt8.ofNat (192 + m.hdr.cid % 64) :: tail) = ok ((3, m.hdr.cid), tail) := by
  have h := readBasicHeader_one 3 m.hdr.cid (by omega) hm.cid_lo hm.cid_hi tail
  have : m.hdr.cid % 64 = m.hdr.cid := Nat.mod_eq_of_lt hm.cid_hi
  rw [this]
  simpa [Nat.add_comm] using h

theorem c0_basic (m : Msg) (hm : m.WF) (tail : Bytes) :
    readBasicHeader (UInt8.ofNat (m.hdr.cid % 64) :: tail) = ok ((0, m.hdr.cid), tail) := by
  have h := readBasicHeader_one 0 m.hdr.cid (by omega) hm.cid_lo hm.cid_hi tail
  have : m.hdr.cid % 64 = m.hdr.cid := Nat.mod_eq_of_lt hm.cid_hi
  rw [this]
  simpa using h

/-- One continuation chunk. -/
theorem readChunk_cont (c : Nat) (m : Msg) (hm : m.WF) (st : Reader) (hic : st.inChunk = c)
    (pre suf : Bytes) (hsplit : pre ++ suf = m.payload) (hp : PartialAt st m pre) (tail : Bytes) :
    ∃ ch, st.chunks.get m.hdr.cid = some ch ∧
    readChunk st (c3Header m ++ suf.take (min suf.length c) ++ tail) =
      if suf.length ≤ c
      then ok (({ inChunk := outChunkAfter c m,
                  chunks := st.chunks.set m.hdr.cid { ch with count := ch.count + 1, msg := none } }, some (received m)), tail)
      else ok (({ inChunk := c,
                  chunks := st.chunks.set m.hdr.cid
                    { ch with count := ch.count + 1, msg := some { hdr := hdrOf m, payload := pre ++ suf.take c } } }, none), tail) := by
  obtain ⟨ch, hget, hmsg, hh, hext, hcount⟩ := hp
  refine ⟨ch, hget, ?_⟩
  have hlen : m.payload.length = pre.length + suf.length := by rw [← hsplit]; simp
  have hpos := hm.len_pos
  simp only [c3Header, List.singleton_append, List.cons_append, List.nil_append, List.append_assoc, readChunk,
    c3_basic m hm, Res.bind_ok, Chunks.getOrNew, hget]
  rw [readMessageHeader_c3 ch m hm pre hmsg hh hext hcount]
  simp only [Res.bind_ok]
  have hn : (suf.take (min suf.length c)).length = min (m.payload.length - pre.length) c := by
    simp only [List.length_take]; omega
  rw [readMessagePayload_step st.inChunk { ch with count := ch.count + 1 } m pre _ tail (by simpa using hmsg)
    (by omega) (by omega) (by rw [hic]; exact hn)]
  by_cases hle : suf.length ≤ c
  · have e2 : suf.take (min suf.length c) = suf := by
      rw [Nat.min_eq_left hle]; exact List.take_length
    have e3 : ({ hdr := hdrOf m, payload := pre ++ suf } : Msg) = received m := by
      rw [hsplit]; rfl
    rw [e2, if_pos hlen, if_pos hle]
    simp only [Res.bind_ok, e3, onMessageArrived_ok _ m hm.ctl, Res.pure_eq, hic]
  · have e2 : min suf.length c = c := by omega
    have e1 : ¬ m.payload.length = pre.length + (suf.take c).length := by
      simp only [List.length_take]; omega
    rw [e2, if_neg e1, if_neg hle]
    simp only [Res.bind_ok, Res.pure_eq, hic]

/-- The first (type-0) chunk of a message on a chunk stream without a partial message. -/
theorem readChunk_first (c : Nat) (m : Msg) (hm : m.WF) (st : Reader) (hic : st.inChunk = c)
    (hclean : Clean st) (tail : Bytes) :
    ∃ ch1 : ChunkStream, ch1.hdr = hdrOf m ∧ ch1.extTs = decide (m.hdr.ts ≥ Gen.Rtmp.extendedTimestamp) ∧
      ch1.count ≠ 0 ∧
    readChunk st (c0Header m ++ m.payload.take (min m.payload.length c) ++ tail) =
      if m.payload.length ≤ c
      then ok (({ inChunk := outChunkAfter c m,
                  chunks := st.chunks.set m.hdr.cid { ch1 with msg := none } }, some (received m)), tail)
      else ok (({ inChunk := c,
                  chunks := st.chunks.set m.hdr.cid
                    { ch1 with msg := some { hdr := hdrOf m, payload := m.payload.take c } } }, none), tail) := by
  -- the chunk stream the reader starts from: existing (clean) or fresh
  obtain ⟨ch0, hch0, h0⟩ : ∃ ch0 : ChunkStream, st.chunks.getOrNew m.hdr.cid = ch0 ∧
      (ch0.msg = none ∧ ch0.hdr.cid = m.hdr.cid) := by
    unfold Chunks.getOrNew
    cases hg : st.chunks.get m.hdr.cid with
    | none => exact ⟨_, rfl, rfl, rfl⟩
    | some ch => exact ⟨_, rfl, hclean _ _ hg⟩
  refine ⟨{ ch0 with hdr := hdrOf m, count := ch0.count + 1,
                     extTs := decide (m.hdr.ts ≥ Gen.Rtmp.extendedTimestamp) }, rfl, rfl, by simp, ?_⟩
  have hpos := hm.len_pos
  rw [c0Header_eq]
  have hrm := readMessageHeader_c0 ch0 m hm h0.1 h0.2
    (m.payload.take (min m.payload.length c) ++ tail)
  simp only [List.cons_append, List.nil_append, List.append_assoc] at hrm
  simp only [List.cons_append, List.nil_append, List.append_assoc, readChunk, c0_basic m hm, Res.bind_ok, hch0, hrm]
  have hn : (m.payload.take (min m.payload.length c)).length = min (m.payload.length - ([] : Bytes).length) c := by
    simp only [List.length_take, List.length_nil]; omega
  rw [readMessagePayload_step st.inChunk _ m [] _ tail rfl (by omega) (by simp) (by rw [hic]; exact hn)]
  by_cases hle : m.payload.length ≤ c
  · have e2 : m.payload.take (min m.payload.length c) = m.payload := by
      rw [Nat.min_eq_left hle]; exact List.take_length
    have e3 : ({ hdr := hdrOf m, payload := [] ++ m.payload } : Msg) = received m := rfl
    rw [e2, if_pos (by simp), if_pos hle]
    simp only [Res.bind_ok, e3, onMessageArrived_ok _ m hm.ctl, Res.pure_eq, hic]
  · have e2 : min m.payload.length c = c := by omega
    have e1 : ¬ m.payload.length = ([] : Bytes).length + (m.payload.take c).length := by
      simp only [List.length_take, List.length_nil]; omega
    rw [e2, if_neg e1, if_neg hle]
    simp only [Res.bind_ok, Res.pure_eq, hic, List.nil_append]

/-- The writer's chunk loop terminates (never runs out of fuel) for every chunk size ≥ 1. -/
theorem writeChunks_ok (c : Nat) (hc : 1 ≤ c) (m : Msg) :
    ∀ (fuel : Nat) (first : Bool) (p : Bytes), p.length ≤ fuel → ∃ W, writeChunks c m fuel first p = ok W := by
  intro fuel
  induction fuel with
  | zero =>
    intro first p hp
    have : p = [] := List.length_eq_zero_iff.mp (Nat.le_zero.mp hp)
    subst this; exact ⟨[], by simp [writeChunks]⟩
  | succ fuel ih =>
    intro first p hp
    cases p with
    | nil => exact ⟨[], by simp [writeChunks]⟩
    | cons x xs =>
      have hlen : ((x :: xs).drop (min (x :: xs).length c)).length ≤ fuel := by
        simp only [List.length_drop, List.length_cons] at *; omega
      obtain ⟨W', hW'⟩ := ih false _ hlen
      refine ⟨(if first then c0Header m else c3Header m) ++ (x :: xs).take (min (x :: xs).length c) ++ W', ?_⟩
      have hsz : (List.take c (x :: xs)).length = min (x :: xs).length c := by
        simp only [List.length_take]; exact Nat.min_comm _ _
      simp only [writeChunks, hsz, hW', Res.bind_ok, Res.pure_eq]

theorem writeChunks_step (c : Nat) (m : Msg) (fuel : Nat) (first : Bool) (p W : Bytes) (hp : p ≠ [])
    (h : writeChunks c m fuel first p = ok W) :
    ∃ fuel' W', fuel = fuel' + 1 ∧ writeChunks c m fuel' false (p.drop (min p.length c)) = ok W' ∧
      W = (if first then c0Header m else c3Header m) ++ p.take (min p.length c) ++ W' := by
  cases p with
  | nil => exact absurd rfl hp
  | cons x xs =>
    cases fuel with
    | zero => simp [writeChunks] at h
    | succ fuel =>
      have hsz : (List.take c (x :: xs)).length = min (x :: xs).length c := by
        simp only [List.length_take]; exact Nat.min_comm _ _
      simp only [writeChunks, hsz] at h
      cases hw : writeChunks c m fuel false ((x :: xs).drop (min (x :: xs).length c)) with
      | ok W' =>
        rw [hw] at h
        simp only [Res.bind_ok, Res.pure_eq, ok.injEq] at h
        exact ⟨fuel, W', rfl, hw, h.symm⟩
      | err k => rw [hw] at h; simp at h
      | panic => rw [hw] at h; simp at h

theorem cont_loop (c : Nat) (hc : 1 ≤ c) (m : Msg) (hm : m.WF) :
    ∀ (n : Nat) (suf pre : Bytes) (st : Reader) (fuelW fuelR : Nat) (W rest : Bytes),
      suf.length ≤ n → suf ≠ [] → pre ++ suf = m.payload → st.inChunk = c → PartialAt st m pre →
      CleanExcept st m.hdr.cid → writeChunks c m fuelW false suf = ok W → suf.length ≤ fuelR →
      ∃ st', readLoop fuelR st (W ++ rest) = ok ((received m, st'), rest) ∧ Clean st' ∧
        st'.inChunk = outChunkAfter c m := by
  intro n
  induction n with
  | zero =>
    intro suf pre st fuelW fuelR W rest hn hne
    exact absurd (List.length_eq_zero_iff.mp (Nat.le_zero.mp hn)) hne
  | succ n ih =>
    intro suf pre st fuelW fuelR W rest hn hne hsplit hic hp hce hw hfr
    obtain ⟨fw, W', rfl, hw', rfl⟩ := writeChunks_step c m fuelW false suf W hne hw
    have hpos : 1 ≤ suf.length := by
      cases suf with
      | nil => exact absurd rfl hne
      | cons _ _ => simp
    obtain ⟨fr, rfl⟩ : ∃ fr, fuelR = fr + 1 := ⟨fuelR - 1, by omega⟩
    obtain ⟨ch, hget, hrc⟩ := readChunk_cont c m hm st hic pre suf hsplit hp (W' ++ rest)
    obtain ⟨ch', hget', hmsg, hh, hext, hcount⟩ := hp
    have hchch : ch' = ch := by rw [hget] at hget'; exact (Option.some.inj hget').symm
    subst hchch
    simp only [Bool.false_eq_true, if_false, List.append_assoc] at hrc ⊢
    simp only [readLoop, hrc]
    by_cases hle : suf.length ≤ c
    · -- last chunk
      have hd : suf.drop (min suf.length c) = [] := by
        rw [Nat.min_eq_left hle]; exact List.drop_length
      rw [hd] at hw'
      simp only [writeChunks, ok.injEq] at hw'
      subst hw'
      simp only [if_pos hle, Res.bind_ok, List.nil_append, Res.pure_eq]
      exact ⟨_, rfl, clean_set_done st _ _ _ hce rfl (by simp [hh, hdrOf_cid]), rfl⟩
    · simp only [if_neg hle, Res.bind_ok]
      have hmin : min suf.length c = c := by omega
      rw [hmin] at hw'
      have := ih (suf.drop c) (pre ++ suf.take c)
        { inChunk := c, chunks := st.chunks.set m.hdr.cid
            { ch' with count := ch'.count + 1, msg := some { hdr := hdrOf m, payload := pre ++ suf.take c } } }
        fw fr W' rest
        (by simp only [List.length_drop]; omega)
        (by intro h; have := congrArg List.length h; simp only [List.length_drop, List.length_nil] at this; omega)
        (by rw [List.append_assoc, List.take_append_drop]; exact hsplit)
        rfl
        ⟨_, Chunks.get_set_same _ _ _, rfl, hh, hext, by simp⟩
        (cleanExcept_set st _ _ _ hce)
        hw'
        (by simp only [List.length_drop]; omega)
      exact this

theorem writeChunks_length_ge (c : Nat) (m : Msg) :
    ∀ (fuel : Nat) (first : Bool) (p W : Bytes), writeChunks c m fuel first p = ok W → p.length ≤ W.length := by
  intro fuel
  induction fuel with
  | zero =>
    intro first p W h
    cases p with
    | nil => simp
    | cons x xs => simp [writeChunks] at h
  | succ fuel ih =>
    intro first p W h
    cases p with
    | nil => simp
    | cons x xs =>
      obtain ⟨f', W', hf, hw', rfl⟩ := writeChunks_step c m (fuel + 1) first (x :: xs) W (by simp) h
      have hf' : f' = fuel := by omega
      subst hf'
      have := ih false _ W' hw'
      simp only [List.length_append, List.length_take, List.length_drop] at this ⊢
      omega

/-- **One message**: for every chunk size `c ≥ 1`, every well-formed message and every reader state
with input chunk size `c` and no partial message, the writer's bytes (followed by anything) are read
back as exactly that message; nothing of `rest` is consumed; the reader is again without partial
message and has applied a Set Chunk Size exactly as the writer did. -/
theorem write_read_one (c : Nat) (hc : 1 ≤ c) (m : Msg) (hm : m.WF) (st : Reader) (hic : st.inChunk = c)
    (hclean : Clean st) (rest : Bytes) :
    ∃ W st', writeMessage c m = ok W ∧ readMessage st (W ++ rest) = ok ((received m, st'), rest) ∧
      Clean st' ∧ st'.inChunk = outChunkAfter c m := by
  obtain ⟨W, hW⟩ := writeChunks_ok c hc m m.payload.length true m.payload (Nat.le_refl _)
  have hne : m.payload ≠ [] := by
    intro h; have := hm.len_pos; rw [h] at this; simp at this
  have hge := writeChunks_length_ge c m _ _ _ _ hW
  obtain ⟨fw, W', hfw, hw', hWeq⟩ := writeChunks_step c m _ true m.payload W hne hW
  obtain ⟨ch1, h1h, h1e, h1c, hrc⟩ := readChunk_first c m hm st hic hclean (W' ++ rest)
  refine ⟨W, ?_⟩
  simp only [writeMessage, hW, readMessage, true_and, exists_and_left, ok.injEq]
  have hWapp : W ++ rest = c0Header m ++ m.payload.take (min m.payload.length c) ++ (W' ++ rest) := by
    rw [hWeq]; simp
  rw [hWapp] at *
  simp only [readLoop, hrc]
  by_cases hle : m.payload.length ≤ c
  · have hd : m.payload.drop (min m.payload.length c) = [] := by
      rw [Nat.min_eq_left hle]; exact List.drop_length
    rw [hd] at hw'
    simp only [writeChunks, ok.injEq] at hw'
    subst hw'
    simp only [if_pos hle, Res.bind_ok, List.nil_append, Res.pure_eq]
    have hcl : CleanExcept st m.hdr.cid := fun k _ ch hk => hclean k ch hk
    exact ⟨_, rfl, clean_set_done st _ _ _ hcl rfl (by simp [h1h, hdrOf_cid]), rfl⟩
  · simp only [if_neg hle, Res.bind_ok]
    have hmin : min m.payload.length c = c := by omega
    rw [hmin] at hw'
    have hcl : CleanExcept st m.hdr.cid := fun k _ ch hk => hclean k ch hk
    have hfuel : (m.payload.drop c).length ≤
        (c0Header m ++ m.payload.take (min m.payload.length c) ++ (W' ++ rest)).length := by
      have := writeChunks_length_ge c m _ _ _ _ hw'
      simp only [List.length_append] at this ⊢
      omega
    exact cont_loop c hc m hm _ (m.payload.drop c) (m.payload.take c)
      { inChunk := c, chunks := st.chunks.set m.hdr.cid
          { ch1 with msg := some { hdr := hdrOf m, payload := m.payload.take c } } }
      fw _ W' rest (Nat.le_refl _)
      (by intro h; have := congrArg List.length h; simp only [List.length_drop, List.length_nil] at this; omega)
      (List.take_append_drop _ _) rfl
      ⟨_, Chunks.get_set_same _ _ _, rfl, h1h, h1e, h1c⟩
      (cleanExcept_set st _ _ _ hcl) hw' hfuel

/-- A Set Chunk Size message announces a size ≥ 1 (size 0 makes both loops spin forever). -/
def Msg.ChunkSizeOK (m : Msg) : Prop := m.hdr.ty = 1 → 1 ≤ ofBE (m.payload.take 4)

theorem outChunkAfter_pos (c : Nat) (hc : 1 ≤ c) (m : Msg) (h : m.ChunkSizeOK) : 1 ≤ outChunkAfter c m := by
  unfold outChunkAfter
  split
  · rename_i h1; exact h h1.1
  · exact hc

/-- **Session**: any finite sequence of well-formed messages — Set Chunk Size with any value ≥ 1
anywhere in it — written by an endpoint whose writer follows its own announcements is read back
exactly, in order, from the joined byte stream. -/
theorem session (msgs : List Msg) (hall : ∀ m ∈ msgs, m.WF ∧ m.ChunkSizeOK) :
    ∀ (c : Nat) (st : Reader) (rest : Bytes), 1 ≤ c → st.inChunk = c → Clean st →
    ∃ W st', writeAll c msgs = ok W ∧
      readMessages msgs.length st (W ++ rest) = ok ((msgs.map received, st'), rest) ∧ Clean st' := by
  induction msgs with
  | nil =>
    intro c st rest _ _ hcl
    exact ⟨[], st, rfl, by simp [readMessages], hcl⟩
  | cons m ms ih =>
    intro c st rest hc hic hcl
    obtain ⟨hmwf, hmcs⟩ := hall m (by simp)
    have hms : ∀ x ∈ ms, x.WF ∧ x.ChunkSizeOK := fun x hx => hall x (by simp [hx])
    have hc' := outChunkAfter_pos c hc m hmcs
    -- the bytes of the tail do not depend on the reader
    obtain ⟨W2, _, hw2, _, _⟩ := ih hms (outChunkAfter c m) { inChunk := outChunkAfter c m, chunks := [] } [] hc' rfl
      (by intro k ch hk; simp [Chunks.get] at hk)
    obtain ⟨W1, st1, hw1, hr1, hcl1, hic1⟩ := write_read_one c hc m hmwf st hic hcl (W2 ++ rest)
    obtain ⟨W2', st2, hw2', hr2, hcl2⟩ := ih hms (outChunkAfter c m) st1 rest hc' hic1 hcl1
    have : W2' = W2 := by rw [hw2] at hw2'; exact (ok.inj hw2').symm
    subst this
    refine ⟨W1 ++ W2', st2, ?_, ?_, hcl2⟩
    · simp only [writeAll, hw1, hw2, Res.bind_ok, Res.pure_eq]
    · simp only [List.length_cons, readMessages, List.append_assoc, hr1, Res.bind_ok, hr2, Res.pure_eq,
        List.map_cons]

end Oryx.Rtmp
