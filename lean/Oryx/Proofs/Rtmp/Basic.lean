/-
  RTMP chunk layer: basic lemmas (chunk table, header parsing of the library's own C0/C3 headers).
-/
import Oryx.Model.Rtmp
namespace Oryx.Rtmp
open Oryx Oryx.Res

/-! ### chunk table -/

theorem Chunks.get_set_same (l : Chunks) (k : Nat) (v : ChunkStream) : (l.set k v).get k = some v := by
  induction l with
  | nil => simp [Chunks.set, Chunks.get]
  | cons p rest ih =>
    obtain ⟨k', v'⟩ := p
    simp only [Chunks.set]
    split
    · simp [Chunks.get]
    · simp [Chunks.get, *]

theorem Chunks.get_set_other (l : Chunks) (k k' : Nat) (v : ChunkStream) (h : k' ≠ k) :
    (l.set k v).get k' = l.get k' := by
  induction l with
  | nil => simp [Chunks.set, Chunks.get, Ne.symm h]
  | cons p rest ih =>
    obtain ⟨k'', v''⟩ := p
    simp only [Chunks.set]
    split
    · rename_i heq
      subst heq
      simp [Chunks.get, Ne.symm h]
    · simp [Chunks.get, ih]

/-! ### well-formed messages (the domain of C01) -/

/-- What the reader hands back for a message the writer sent: same type, stream id, timestamp,
payload and chunk stream; `len` and `tsDelta` are the reader's bookkeeping. -/
def received (m : Msg) : Msg :=
  { hdr := { tsDelta := if m.hdr.ts < Gen.Rtmp.extendedTimestamp then m.hdr.ts else 16777215,
             len := m.payload.length, ty := m.hdr.ty, sid := m.hdr.sid, cid := m.hdr.cid, ts := m.hdr.ts },
    payload := m.payload }

/-- Observable content of a message. -/
def Msg.view (m : Msg) : Nat × Nat × Nat × Nat × Bytes := (m.hdr.cid, m.hdr.ty, m.hdr.sid, m.hdr.ts, m.payload)

theorem view_received (m : Msg) : (received m).view = m.view := rfl

/-- Protocol-control bodies the reader itself decodes must be well formed. -/
def Msg.CtlOK (m : Msg) : Prop :=
  (m.hdr.ty = 1 → 4 ≤ m.payload.length) ∧
  (m.hdr.ty = 5 → 4 ≤ m.payload.length) ∧
  (m.hdr.ty = 4 → 3 ≤ m.payload.length ∧ userControlSize (ofBE (m.payload.take 2)) ≤ m.payload.length)

structure Msg.WF (m : Msg) : Prop where
  cid_lo : 2 ≤ m.hdr.cid
  cid_hi : m.hdr.cid < 64
  ts : m.hdr.ts < 2147483648
  len_pos : 1 ≤ m.payload.length
  len_lt : m.payload.length < 16777216
  ty : m.hdr.ty < 256
  sid : m.hdr.sid < 4294967296
  ctl : m.CtlOK

theorem onMessageArrived_ok (c : Nat) (m : Msg) (h : m.CtlOK) :
    onMessageArrived c (received m) = ok (outChunkAfter c m) := by
  obtain ⟨h1, h5, h4⟩ := h
  simp only [onMessageArrived, received, outChunkAfter, Gen.Rtmp.MessageTypeSetChunkSize,
    Gen.Rtmp.MessageTypeWindowAcknowledgementSize, Gen.Rtmp.MessageTypeUserControl]
  by_cases t1 : m.hdr.ty = 1
  · have := h1 t1
    simp [t1, Nat.not_lt.mpr this, this]
  · by_cases t5 : m.hdr.ty = 5
    · have := h5 t5
      simp [t5, Nat.not_lt.mpr this]
    · by_cases t4 : m.hdr.ty = 4
      · have := h4 t4
        simp [t4, Nat.not_lt.mpr this.1, Nat.not_lt.mpr this.2]
      · simp [t1, t5, t4]

/-! ### basic header -/

theorem u8_ofNat_toNat_lt {n : Nat} (h : n < 256) : (UInt8.ofNat n).toNat = n := by
  simp [UInt8.toNat_ofNat', Nat.mod_eq_of_lt h]

theorem readBasicHeader_one (fmt cid : Nat) (hf : fmt < 4) (h2 : 2 ≤ cid) (h64 : cid < 64) (rest : Bytes) :
    readBasicHeader (UInt8.ofNat (fmt * 64 + cid) :: rest) = ok ((fmt, cid), rest) := by
  have hlt : fmt * 64 + cid < 256 := by omega
  have e := readFull_append [UInt8.ofNat (fmt * 64 + cid)] rest (n := 1) rfl
  simp only [List.singleton_append] at e
  simp only [readBasicHeader, e, Res.bind_ok, List.headD_cons, u8_ofNat_toNat_lt hlt]
  have h1 : (fmt * 64 + cid) % 64 = cid := by omega
  have h3 : (fmt * 64 + cid) / 64 = fmt := by omega
  have h4 : cid > 1 := by omega
  simp [h1, h3, h4]

end Oryx.Rtmp
