/-
  C02 / C07 helpers (2): the reader on ANY byte string — invariant of the chunk table, bytes consumed
  by every successful step, fuel never exhausted, no panic.
-/
import Oryx.Proofs.Rtmp.SpecBasic
namespace Oryx.Rtmp
open Oryx Oryx.Res

/-- An unfinished message carries its chunk stream's header and is strictly shorter than announced. -/
def ChunkOK (ch : ChunkStream) : Prop :=
  ∀ m, ch.msg = some m → m.hdr = ch.hdr ∧ m.payload.length < m.hdr.len

/-- Invariant of the reader: every chunk stream of the table is `ChunkOK`. -/
def ReaderInv (st : Reader) : Prop := ∀ k ch, st.chunks.get k = some ch → ChunkOK ch

theorem readerInv_init : ReaderInv {} := by
  intro k ch h; simp [Chunks.get] at h

theorem chunkOK_getOrNew (st : Reader) (h : ReaderInv st) (cid : Nat) : ChunkOK (st.chunks.getOrNew cid) := by
  unfold Chunks.getOrNew
  cases hg : st.chunks.get cid with
  | none => intro m hm; simp at hm
  | some c => exact h cid c hg

theorem readerInv_set (st : Reader) (h : ReaderInv st) (cid : Nat) (c : ChunkStream) (hc : ChunkOK c) (ic : Nat) :
    ReaderInv { inChunk := ic, chunks := st.chunks.set cid c } := by
  intro k ch hk
  by_cases hkc : k = cid
  · subst hkc
    simp only [Chunks.get_set_same, Option.some.injEq] at hk
    subst hk; exact hc
  · simp only [Chunks.get_set_other _ _ _ _ hkc] at hk
    exact h k ch hk

/-! ### bytes consumed -/

theorem readFull_len {n : Nat} {bs a rest : Bytes} (h : readFull n bs = ok (a, rest)) :
    rest.length + n = bs.length := by
  obtain ⟨h1, h2⟩ := readFull_ok h
  rw [h2, List.length_append, h1]; omega

theorem readBasicHeader_ok {bs bs' : Bytes} {fmt cid : Nat} (h : readBasicHeader bs = ok ((fmt, cid), bs')) :
    fmt ≤ 3 ∧ bs'.length < bs.length := by
  unfold readBasicHeader at h
  cases h1 : readFull 1 bs with
  | err k => rw [h1] at h; simp at h
  | panic => rw [h1] at h; simp at h
  | ok r1 =>
    obtain ⟨b, r⟩ := r1
    have l1 := readFull_len h1
    rw [h1] at h
    simp only [Res.bind_ok] at h
    have hb : (b.headD 0).toNat < 256 := UInt8.toNat_lt _
    split at h
    · simp only [Res.pure_eq, ok.injEq, Prod.mk.injEq] at h
      obtain ⟨⟨rfl, _⟩, rfl⟩ := h
      exact ⟨by omega, by omega⟩
    · cases h2 : readFull 1 r with
      | err k => rw [h2] at h; simp at h
      | panic => rw [h2] at h; simp at h
      | ok r2 =>
        obtain ⟨b2, r'⟩ := r2
        have l2 := readFull_len h2
        rw [h2] at h
        simp only [Res.bind_ok] at h
        split at h
        · cases h3 : readFull 1 r' with
          | err k => rw [h3] at h; simp at h
          | panic => rw [h3] at h; simp at h
          | ok r3 =>
            obtain ⟨b3, r''⟩ := r3
            have l3 := readFull_len h3
            rw [h3] at h
            simp only [Res.bind_ok, Res.pure_eq, ok.injEq, Prod.mk.injEq] at h
            obtain ⟨⟨rfl, _⟩, rfl⟩ := h
            exact ⟨by omega, by omega⟩
        · simp only [Res.pure_eq, ok.injEq, Prod.mk.injEq] at h
          obtain ⟨⟨rfl, _⟩, rfl⟩ := h
          exact ⟨by omega, by omega⟩

theorem readBasicHeader_ne_panic (bs : Bytes) : readBasicHeader bs ≠ .panic := by
  unfold readBasicHeader
  refine Res.bind_ne_panic (readFull_ne_panic _ _) ?_
  rintro ⟨b, r⟩ _
  dsimp only
  split
  · simp
  · refine Res.bind_ne_panic (readFull_ne_panic _ _) ?_
    rintro ⟨b2, r'⟩ _
    dsimp only
    split
    · refine Res.bind_ne_panic (readFull_ne_panic _ _) ?_
      rintro ⟨b3, r''⟩ _
      simp
    · simp

/-! ### message header -/

/-- Fields of the message header bytes. -/
def fD (p : Bytes) : Nat := ofBE (p.take 3)
def fL (p : Bytes) : Nat := ofBE ((p.drop 3).take 3)
def fT (p : Bytes) : Nat := ((p.drop 6).headD 0).toNat
def fS (p : Bytes) : Nat := ofLE ((p.drop 7).take 4)

theorem applyHeader_0 (c : ChunkStream) (f : Bool) (p : Bytes) :
    applyHeader c 0 f p =
      if !f && c.hdr.len != fL p then err .generic else
      ok ({ tsDelta := fD p, len := fL p, ty := fT p, sid := fS p, cid := c.hdr.cid,
            ts := if 16777215 ≤ fD p then c.hdr.ts else fD p }, decide (16777215 ≤ fD p)) := by
  unfold applyHeader fD fL fT fS
  by_cases hx : 16777215 ≤ ofBE (p.take 3) <;> simp [hx, Gen.Rtmp.extendedTimestamp]

theorem applyHeader_1 (c : ChunkStream) (f : Bool) (p : Bytes) :
    applyHeader c 1 f p =
      if !f && c.hdr.len != fL p then err .generic else
      ok ({ tsDelta := fD p, len := fL p, ty := fT p, sid := c.hdr.sid, cid := c.hdr.cid,
            ts := if 16777215 ≤ fD p then c.hdr.ts else c.hdr.ts + fD p }, decide (16777215 ≤ fD p)) := by
  unfold applyHeader fD fL fT
  by_cases hx : 16777215 ≤ ofBE (p.take 3) <;> simp [hx, Gen.Rtmp.extendedTimestamp]

theorem applyHeader_2 (c : ChunkStream) (f : Bool) (p : Bytes) :
    applyHeader c 2 f p =
      ok ({ tsDelta := fD p, len := c.hdr.len, ty := c.hdr.ty, sid := c.hdr.sid, cid := c.hdr.cid,
            ts := if 16777215 ≤ fD p then c.hdr.ts else c.hdr.ts + fD p }, decide (16777215 ≤ fD p)) := by
  unfold applyHeader fD
  by_cases hx : 16777215 ≤ ofBE (p.take 3) <;> simp [hx, Gen.Rtmp.extendedTimestamp]

theorem applyHeader_3 (c : ChunkStream) (fmt : Nat) (h3 : 3 ≤ fmt) (f : Bool) (p : Bytes) :
    applyHeader c fmt f p =
      ok ({ c.hdr with ts := if f && !c.extTs then c.hdr.ts + c.hdr.tsDelta else c.hdr.ts }, c.extTs) := by
  have : ¬ fmt ≤ 2 := by omega
  unfold applyHeader
  simp only [this, if_false]
  split <;> simp_all

theorem headerSize_ok {fmt : Nat} (h : fmt ≤ 3) : ∃ n, headerSize fmt = ok n := by
  have : fmt = 0 ∨ fmt = 1 ∨ fmt = 2 ∨ fmt = 3 := by omega
  rcases this with rfl | rfl | rfl | rfl <;> exact ⟨_, rfl⟩

theorem applyHeader_ne_panic (c : ChunkStream) (fmt : Nat) (f : Bool) (p : Bytes) :
    applyHeader c fmt f p ≠ .panic := by
  have : fmt = 0 ∨ fmt = 1 ∨ fmt = 2 ∨ 3 ≤ fmt := by omega
  rcases this with rfl | rfl | rfl | h3
  · rw [applyHeader_0]; split <;> simp
  · rw [applyHeader_1]; split <;> simp
  · rw [applyHeader_2]; simp
  · rw [applyHeader_3 _ _ h3]; simp

theorem applyHeader_len_open {c : ChunkStream} {fmt : Nat} {p : Bytes} {h : Header} {e : Bool}
    (hh : applyHeader c fmt false p = ok (h, e)) : h.len = c.hdr.len := by
  have : fmt = 0 ∨ fmt = 1 ∨ fmt = 2 ∨ 3 ≤ fmt := by omega
  rcases this with rfl | rfl | rfl | h3
  · rw [applyHeader_0] at hh
    split at hh
    · simp at hh
    · rename_i hne
      simp at hne hh
      obtain ⟨rfl, _⟩ := hh
      exact hne.symm
  · rw [applyHeader_1] at hh
    split at hh
    · simp at hh
    · rename_i hne
      simp at hne hh
      obtain ⟨rfl, _⟩ := hh
      exact hne.symm
  · rw [applyHeader_2] at hh
    simp at hh
    obtain ⟨rfl, _⟩ := hh
    rfl
  · rw [applyHeader_3 _ _ h3] at hh
    simp at hh
    obtain ⟨rfl, _⟩ := hh
    rfl

/-- Payload already collected on a chunk stream. -/
def ChunkStream.got (c : ChunkStream) : Bytes := match c.msg with | some m => m.payload | none => []

theorem readMessageHeader_ok {c c' : ChunkStream} {fmt : Nat} {bs bs' : Bytes} (hc : ChunkOK c)
    (h : readMessageHeader c fmt bs = ok (c', bs')) :
    bs'.length ≤ bs.length ∧
    ∃ m, c'.msg = some m ∧ m.hdr = c'.hdr ∧ m.payload.length ≤ m.hdr.len := by
  simp only [readMessageHeader] at h
  split at h
  · simp at h
  split at h
  · simp at h
  cases h1 : headerSize fmt with
  | err k => rw [h1] at h; simp at h
  | panic => rw [h1] at h; simp at h
  | ok n =>
    rw [h1] at h
    simp only [Res.bind_ok] at h
    cases h2 : readFull n bs with
    | err k => rw [h2] at h; simp at h
    | panic => rw [h2] at h; simp at h
    | ok r =>
      obtain ⟨p, b1⟩ := r
      have l2 := readFull_len h2
      rw [h2] at h
      simp only [Res.bind_ok] at h
      cases h3 : applyHeader c fmt c.msg.isNone p with
      | err k => rw [h3] at h; simp at h
      | panic => rw [h3] at h; simp at h
      | ok r =>
        obtain ⟨hd, ext⟩ := r
        rw [h3] at h
        simp only [Res.bind_ok] at h
        have key : ∀ (hd' : Header) (b2 : Bytes), hd'.len = hd.len → b2.length ≤ b1.length →
            ok ({ c with hdr := { hd' with ts := hd'.ts % 2147483648 },
                         msg := some { hdr := { hd' with ts := hd'.ts % 2147483648 }, payload := (match c.msg with | some m => m.payload | none => []) },
                         count := c.count + 1, extTs := ext }, b2) = (ok (c', bs') : Res (ChunkStream × Bytes)) →
            bs'.length ≤ bs.length ∧ ∃ m, c'.msg = some m ∧ m.hdr = c'.hdr ∧ m.payload.length ≤ m.hdr.len := by
          intro hd' b2 hlen hb heq
          simp only [ok.injEq, Prod.mk.injEq] at heq
          obtain ⟨rfl, rfl⟩ := heq
          refine ⟨by omega, _, rfl, rfl, ?_⟩
          simp only
          cases hm : c.msg with
          | none => simp
          | some m0 =>
            obtain ⟨hh0, hl0⟩ := hc m0 hm
            simp only
            rw [hm] at h3
            have := applyHeader_len_open h3
            rw [hlen, this, ← hh0]; omega
        split at h
        · cases h4 : readFull 4 b1 with
          | err k => rw [h4] at h; simp at h
          | panic => rw [h4] at h; simp at h
          | ok r =>
            obtain ⟨e, b2⟩ := r
            have l4 := readFull_len h4
            rw [h4] at h
            simp only [Res.bind_ok, Res.pure_eq] at h
            exact key { hd with ts := ofBE e % 2147483648 } b2 rfl (by omega) h
        · simp only [Res.bind_ok, Res.pure_eq] at h
          exact key hd b1 rfl (Nat.le_refl _) h
theorem readMessageHeader_ne_panic (c : ChunkStream) {fmt : Nat} (hf : fmt ≤ 3) (bs : Bytes) :
    readMessageHeader c fmt bs ≠ .panic := by
  simp only [readMessageHeader]
  split
  · simp
  split
  · simp
  obtain ⟨n, hn⟩ := headerSize_ok hf
  rw [hn]
  simp only [Res.bind_ok]
  refine Res.bind_ne_panic (readFull_ne_panic _ _) ?_
  rintro ⟨p, b1⟩ _
  refine Res.bind_ne_panic (applyHeader_ne_panic _ _ _ _) ?_
  rintro ⟨hd, ext⟩ _
  dsimp only
  refine Res.bind_ne_panic ?_ ?_
  · split
    · refine Res.bind_ne_panic (readFull_ne_panic _ _) ?_
      rintro ⟨e, b2⟩ _
      simp
    · simp
  · rintro ⟨h', b'⟩ _
    simp

/-- What `readMessagePayload` needs of the chunk stream `readMessageHeader` hands it. -/
def Ready (c : ChunkStream) : Prop := ∃ m, c.msg = some m ∧ m.hdr = c.hdr ∧ m.payload.length ≤ m.hdr.len

theorem readMessagePayload_ne_panic (ic : Nat) {c : ChunkStream} (hc : Ready c) (bs : Bytes) :
    readMessagePayload ic c bs ≠ .panic := by
  obtain ⟨m, hm, _, hl⟩ := hc
  unfold readMessagePayload
  rw [hm]
  dsimp only
  split
  · simp
  split
  · omega
  refine Res.bind_ne_panic (readFull_ne_panic _ _) ?_
  rintro ⟨b, b1⟩ _
  dsimp only
  split <;> simp

theorem readMessagePayload_ok (ic : Nat) {c c' : ChunkStream} {om : Option Msg} {bs bs' : Bytes} (hc : Ready c)
    (h : readMessagePayload ic c bs = ok ((c', om), bs')) :
    bs'.length ≤ bs.length ∧ ChunkOK c' := by
  obtain ⟨m, hm, hh, hl⟩ := hc
  unfold readMessagePayload at h
  rw [hm] at h
  dsimp only at h
  split at h
  · simp only [ok.injEq, Prod.mk.injEq] at h
    obtain ⟨⟨rfl, _⟩, rfl⟩ := h
    exact ⟨Nat.le_refl _, by intro m' hm'; simp at hm'⟩
  split at h
  · simp at h
  cases h1 : readFull (min (m.hdr.len - m.payload.length) ic) bs with
  | err k => rw [h1] at h; simp at h
  | panic => rw [h1] at h; simp at h
  | ok r =>
    obtain ⟨b, b1⟩ := r
    have l1 := readFull_len h1
    have lb := (readFull_ok h1).1
    rw [h1] at h
    simp only [Res.bind_ok] at h
    split at h
    · simp only [Res.pure_eq, ok.injEq, Prod.mk.injEq] at h
      obtain ⟨⟨rfl, _⟩, rfl⟩ := h
      exact ⟨by omega, by intro m' hm'; simp at hm'⟩
    · rename_i hne
      simp only [Res.pure_eq, ok.injEq, Prod.mk.injEq] at h
      obtain ⟨⟨rfl, _⟩, rfl⟩ := h
      refine ⟨by omega, ?_⟩
      intro m' hm'
      simp only [Option.some.injEq] at hm'
      subst hm'
      simp only [List.length_append] at hne ⊢
      exact ⟨hh, by omega⟩

theorem onMessageArrived_ne_panic (ic : Nat) (m : Msg) : onMessageArrived ic m ≠ .panic := by
  unfold onMessageArrived
  repeat' split
  all_goals simp

/-- One `readChunk` on any bytes: never panics; on success it consumed at least one byte and the
invariant is kept. -/
theorem readChunk_ne_panic {st : Reader} (hst : ReaderInv st) (bs : Bytes) : readChunk st bs ≠ .panic := by
  unfold readChunk
  refine Res.bind_ne_panic (readBasicHeader_ne_panic _) ?_
  rintro ⟨⟨fmt, cid⟩, b1⟩ h1
  have hf := (readBasicHeader_ok h1).1
  dsimp only
  refine Res.bind_ne_panic (readMessageHeader_ne_panic _ hf _) ?_
  rintro ⟨c1, b2⟩ h2
  have hr := (readMessageHeader_ok (chunkOK_getOrNew st hst cid) h2).2
  dsimp only
  refine Res.bind_ne_panic (readMessagePayload_ne_panic _ hr _) ?_
  rintro ⟨⟨c2, om⟩, b3⟩ _
  dsimp only
  cases om with
  | none => simp
  | some m =>
    dsimp only
    refine Res.bind_ne_panic (onMessageArrived_ne_panic _ _) ?_
    intro ic _
    simp

theorem readChunk_ok {st st' : Reader} {om : Option Msg} {bs bs' : Bytes} (hst : ReaderInv st)
    (h : readChunk st bs = ok ((st', om), bs')) : ReaderInv st' ∧ bs'.length < bs.length := by
  unfold readChunk at h
  cases h1 : readBasicHeader bs with
  | err k => rw [h1] at h; simp at h
  | panic => rw [h1] at h; simp at h
  | ok r =>
    obtain ⟨⟨fmt, cid⟩, b1⟩ := r
    have l1 := (readBasicHeader_ok h1).2
    rw [h1] at h
    simp only [Res.bind_ok] at h
    cases h2 : readMessageHeader (st.chunks.getOrNew cid) fmt b1 with
    | err k => rw [h2] at h; simp at h
    | panic => rw [h2] at h; simp at h
    | ok r =>
      obtain ⟨c1, b2⟩ := r
      obtain ⟨l2, hr⟩ := readMessageHeader_ok (chunkOK_getOrNew st hst cid) h2
      rw [h2] at h
      simp only [Res.bind_ok] at h
      cases h3 : readMessagePayload st.inChunk c1 b2 with
      | err k => rw [h3] at h; simp at h
      | panic => rw [h3] at h; simp at h
      | ok r =>
        obtain ⟨⟨c2, om2⟩, b3⟩ := r
        obtain ⟨l3, hc2⟩ := readMessagePayload_ok _ hr h3
        rw [h3] at h
        simp only [Res.bind_ok] at h
        cases om2 with
        | none =>
          simp only [Res.pure_eq, ok.injEq, Prod.mk.injEq] at h
          obtain ⟨⟨rfl, _⟩, rfl⟩ := h
          exact ⟨readerInv_set st hst cid c2 hc2 _, by omega⟩
        | some m =>
          dsimp only at h
          cases h4 : onMessageArrived st.inChunk m with
          | err k => rw [h4] at h; simp at h
          | panic => rw [h4] at h; simp at h
          | ok ic =>
            rw [h4] at h
            simp only [Res.bind_ok, Res.pure_eq, ok.injEq, Prod.mk.injEq] at h
            obtain ⟨⟨rfl, _⟩, rfl⟩ := h
            exact ⟨readerInv_set st hst cid c2 hc2 _, by omega⟩

theorem readLoop_ne_panic : ∀ (fuel : Nat) (st : Reader) (bs : Bytes), ReaderInv st → bs.length < fuel →
    readLoop fuel st bs ≠ .panic := by
  intro fuel
  induction fuel with
  | zero => intro st bs _ h; omega
  | succ fuel ih =>
    intro st bs hst hl
    unfold readLoop
    refine Res.bind_ne_panic (readChunk_ne_panic hst _) ?_
    rintro ⟨⟨st1, om⟩, b1⟩ h1
    obtain ⟨hst1, l1⟩ := readChunk_ok hst h1
    cases om with
    | some m => simp
    | none => exact ih st1 b1 hst1 (by omega)

theorem readLoop_ok : ∀ (fuel : Nat) (st st' : Reader) (m : Msg) (bs bs' : Bytes), ReaderInv st →
    readLoop fuel st bs = ok ((m, st'), bs') → ReaderInv st' ∧ bs'.length < bs.length := by
  intro fuel
  induction fuel with
  | zero => intro st st' m bs bs' _ h; simp [readLoop] at h
  | succ fuel ih =>
    intro st st' m bs bs' hst h
    unfold readLoop at h
    cases h1 : readChunk st bs with
    | err k => rw [h1] at h; simp at h
    | panic => rw [h1] at h; simp at h
    | ok r =>
      obtain ⟨⟨st1, om⟩, b1⟩ := r
      obtain ⟨hst1, l1⟩ := readChunk_ok hst h1
      rw [h1] at h
      simp only [Res.bind_ok] at h
      cases om with
      | some m1 =>
        simp only [Res.pure_eq, ok.injEq, Prod.mk.injEq] at h
        obtain ⟨⟨_, rfl⟩, rfl⟩ := h
        exact ⟨hst1, l1⟩
      | none =>
        obtain ⟨a, b⟩ := ih st1 st' m b1 bs' hst1 h
        exact ⟨a, by omega⟩

/-- More fuel does not change a successful read. -/
theorem readLoop_mono : ∀ (fuel fuel' : Nat) (st : Reader) (bs : Bytes) (r : (Msg × Reader) × Bytes),
    fuel ≤ fuel' → readLoop fuel st bs = ok r → readLoop fuel' st bs = ok r := by
  intro fuel
  induction fuel with
  | zero => intro fuel' st bs r _ h; simp [readLoop] at h
  | succ fuel ih =>
    intro fuel' st bs r hle h
    obtain ⟨f', rfl⟩ : ∃ f', fuel' = f' + 1 := ⟨fuel' - 1, by omega⟩
    unfold readLoop at h ⊢
    cases h1 : readChunk st bs with
    | err k => rw [h1] at h; simp at h
    | panic => rw [h1] at h; simp at h
    | ok r1 =>
      obtain ⟨⟨st1, om⟩, b1⟩ := r1
      rw [h1] at h
      simp only [Res.bind_ok] at h ⊢
      cases om with
      | some m1 => exact h
      | none => exact ih f' st1 b1 r (by omega) h

/-- **The reader never panics**, whatever the bytes: the `make([]byte, negative)` guard and the loop fuel
of the model are unreachable from a state satisfying the invariant. -/
theorem readMessage_ne_panic {st : Reader} (hst : ReaderInv st) (bs : Bytes) : readMessage st bs ≠ .panic :=
  readLoop_ne_panic _ st bs hst (Nat.lt_succ_self _)

theorem readMessage_ok {st st' : Reader} {m : Msg} {bs bs' : Bytes} (hst : ReaderInv st)
    (h : readMessage st bs = ok ((m, st'), bs')) : ReaderInv st' ∧ bs'.length < bs.length :=
  readLoop_ok _ st st' m bs bs' hst h

theorem readMessages_ne_panic : ∀ (k : Nat) (st : Reader) (bs : Bytes), ReaderInv st →
    readMessages k st bs ≠ .panic := by
  intro k
  induction k with
  | zero => intro st bs _; simp [readMessages]
  | succ k ih =>
    intro st bs hst
    unfold readMessages
    refine Res.bind_ne_panic (readMessage_ne_panic hst _) ?_
    rintro ⟨⟨m, st1⟩, b1⟩ h1
    dsimp only
    refine Res.bind_ne_panic (ih st1 b1 (readMessage_ok hst h1).1) ?_
    rintro ⟨⟨ms, st2⟩, b2⟩ _
    simp

end Oryx.Rtmp
