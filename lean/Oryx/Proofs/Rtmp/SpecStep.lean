/-
  C02 helpers (4): refinement step. The abstraction relation `Rel` between the specification's sender
  state and the reader state is preserved by every chunk event, and the reader hands back exactly
  the message the event completes. Interleaving costs nothing extra: the chunk table is a finite map
  with independent entries (`Chunks.get_set_same/other`), and Set Chunk Size is one more field of `Rel`.
-/
import Oryx.Proofs.Rtmp.SpecHeader
namespace Oryx.Rtmp
open Oryx Oryx.Res Oryx.Spec.RtmpChunk

/-- What the reader hands back, as the specification's message. -/
def toSpec (m : Msg) : Message :=
  { cid := m.hdr.cid, ty := m.hdr.ty, sid := m.hdr.sid, ts := m.hdr.ts, payload := m.payload }

/-- **Abstraction relation** between the sender of the specification and the reader: same chunk size;
the chunk table has an entry exactly for the chunk streams the sender has used, each representing
the sender-side state; entries are independent (a finite map). -/
structure Rel (s : Sender) (st : Reader) : Prop where
  chunk : st.inChunk = s.chunkSize
  cs : ∀ k, match s.cs k with
    | none => st.chunks.get k = none
    | some c => ∃ ch, st.chunks.get k = some ch ∧ RelCs k c ch ∧ ch.count ≠ 0

theorem rel_init : Rel {} {} := ⟨rfl, fun k => by simp [Chunks.get]⟩

theorem relCs_blank (k : Nat) : RelCs k {} { cid := k, hdr := { cid := k } } :=
  ⟨rfl, rfl, rfl, rfl, by intro h; simp at h, by intro h; simp at h, by decide⟩

/-- The state after a chunk that completes / does not complete its message. -/
def csDone (a : Bool) (c : CsState) (e : ChunkEv) : CsState :=
  { ts := newTs a c e, delta := e.tsField, len := e.len, ty := e.ty, sid := e.sid }
def csOpen (a : Bool) (c : CsState) (e : ChunkEv) : CsState :=
  { ts := newTs a c e, delta := e.tsField, len := e.len, ty := e.ty, sid := e.sid,
    got := (csAfter a c e).got ++ e.data, busy := true }

/-- Inversion of `step`. -/
theorem step_inv {a : Bool} {s s' : Sender} {e : ChunkEv} {out : Option Message} (h : step a s e = some (s', out)) :
    ∃ c, EvOK e ∧ lookup s e = some c ∧ HeaderOK c e ∧
      e.data.length = min (e.len - (csAfter a c e).got.length) s.chunkSize ∧
      ((((csAfter a c e).got ++ e.data).length = e.len ∧ ControlOK e.ty ((csAfter a c e).got ++ e.data) ∧
          s' = s.setCs e.cid (csDone a c e) (if e.ty = 1 then ofBE ((csAfter a c e).got ++ e.data) else s.chunkSize) ∧
          out = some { cid := e.cid, ty := e.ty, sid := e.sid, ts := newTs a c e % 2147483648,
                       payload := (csAfter a c e).got ++ e.data }) ∨
       (((csAfter a c e).got ++ e.data).length ≠ e.len ∧ s' = s.setCs e.cid (csOpen a c e) s.chunkSize ∧ out = none)) := by
  have hev : EvOK e := Decidable.byContradiction (fun hn => by simp [step, hn] at h)
  cases hl : lookup s e with
  | none => simp [step, hev, hl] at h
  | some c =>
    refine ⟨c, hev, rfl, ?_⟩
    have hh : HeaderOK c e := Decidable.byContradiction (fun hn => by simp [step, hev, hl, hn] at h)
    have hg : (if c.busy then c.got else []) = (csAfter a c e).got := rfl
    have hd : e.data.length = min (e.len - (csAfter a c e).got.length) s.chunkSize :=
      Decidable.byContradiction (fun hn => by
        simp only [step, hev, hl, hh, hg, hn, not_true_eq_false, if_false, ne_eq, not_false_eq_true, if_true] at h
        simp at h)
    refine ⟨hh, hd, ?_⟩
    simp only [step, hev, hl, hh, hg, hd, not_true_eq_false, if_false, ne_eq] at h
    by_cases hc : ((csAfter a c e).got ++ e.data).length = e.len
    · by_cases hctl : ControlOK e.ty ((csAfter a c e).got ++ e.data)
      · simp only [hc, hctl, if_true, not_true_eq_false, if_false, Option.some.injEq, Prod.mk.injEq] at h
        exact Or.inl ⟨hc, hctl, h.1.symm, h.2.symm⟩
      · simp only [hc, hctl, if_true, not_false_eq_true] at h
        simp at h
    · simp only [hc, if_false, Option.some.injEq, Prod.mk.injEq] at h
      exact Or.inr ⟨hc, h.1.symm, h.2.symm⟩

theorem rel_set {s : Sender} {st : Reader} (hrel : Rel s st) (cid : Nat) (c' : CsState) (ch' : ChunkStream) (n : Nat)
    (hr : RelCs cid c' ch') (hc : ch'.count ≠ 0) :
    Rel (s.setCs cid c' n) { inChunk := n, chunks := st.chunks.set cid ch' } := by
  refine ⟨rfl, fun k => ?_⟩
  by_cases hk : k = cid
  · subst hk
    simp only [Sender.setCs, if_true]
    exact ⟨ch', Chunks.get_set_same _ _ _, hr, hc⟩
  · simp only [Sender.setCs, hk, if_false, Chunks.get_set_other _ _ _ _ hk]
    exact hrel.cs k

/-- The chunk stream the reader picks for an event is the one the sender-side `lookup` picks. -/
theorem lookup_rel {s : Sender} {st : Reader} (hrel : Rel s st) {e : ChunkEv} {c : CsState} (hl : lookup s e = some c) :
    RelCs e.cid c (st.chunks.getOrNew e.cid) ∧
    ((st.chunks.getOrNew e.cid).count ≠ 0 ∨ e.fmt = 0 ∨ ((st.chunks.getOrNew e.cid).cid = 2 ∧ e.fmt = 1)) ∧
    s.busy e.cid = c.busy := by
  have hk := hrel.cs e.cid
  unfold lookup at hl
  unfold Sender.busy Chunks.getOrNew
  cases hs : s.cs e.cid with
  | none =>
    rw [hs] at hl hk
    simp only at hl hk
    split at hl
    · rename_i hcond
      simp only [Option.some.injEq] at hl
      subst hl
      rw [hk]
      refine ⟨relCs_blank _, ?_, rfl⟩
      rcases hcond with h | ⟨h1, h2⟩
      · exact Or.inr (Or.inl h)
      · exact Or.inr (Or.inr ⟨h2, h1⟩)
    · simp at hl
  | some c0 =>
    rw [hs] at hl hk
    simp only [Option.some.injEq] at hl hk
    subst hl
    obtain ⟨ch, hget, hr, hc⟩ := hk
    rw [hget]
    exact ⟨hr, Or.inl hc, rfl⟩

/-- **One chunk event**: the reader, in a state related to the sender's, reads the chunk the
specification writes, ends in a state related to the sender's next state and hands back exactly the
message the chunk completes (if any) — provided the event does not use an extended DELTA (K2). -/
theorem readChunk_spec (a : Bool) (s s' : Sender) (st : Reader) (e : ChunkEv) (out : Option Message) (rest : Bytes)
    (hrel : Rel s st) (hstep : step a s e = some (s', out)) (hno : a = true ∨ ¬ UsesExtDelta s e) :
    ∃ st' om, readChunk st (chunkBytes e ++ rest) = ok ((st', om), rest) ∧ Rel s' st' ∧ om.map toSpec = out := by
  obtain ⟨c, hev, hl, hh, hd, hcase⟩ := step_inv hstep
  obtain ⟨hrc, hcount, hbusy⟩ := lookup_rel hrel hl
  obtain ⟨ch, hch⟩ : ∃ ch, st.chunks.getOrNew e.cid = ch := ⟨_, rfl⟩
  rw [hch] at hrc hcount
  have hno' : a = true ∨ ¬ (16777215 ≤ e.tsField ∧ (e.fmt = 1 ∨ e.fmt = 2 ∨ (e.fmt = 3 ∧ c.busy = false))) := by
    rw [← hbusy]; exact hno
  -- collected bytes fit the announced length
  have hpre : (csAfter a c e).got.length ≤ e.len := by
    unfold HeaderOK at hh
    cases hb : c.busy with
    | true =>
      simp only [hb, if_true] at hh
      have := hrc.got hb
      simp only [csAfter, hb, if_true]
      omega
    | false => simp [csAfter, hb]
  have hbytes : chunkBytes e ++ rest =
      basicHeader e.fmt e.cid e.bhForm ++ (messageHeader e ++ (extendedTimestamp e ++ (e.data ++ rest))) := by
    simp [chunkBytes, List.append_assoc]
  have hrd := readMessagePayload_data st.inChunk
    { ch with hdr := hdrOfCs e.cid (csAfter a c e),
              msg := some { hdr := hdrOfCs e.cid (csAfter a c e), payload := (csAfter a c e).got },
              count := ch.count + 1, extTs := decide (16777215 ≤ e.tsField) }
    (hdrOfCs e.cid (csAfter a c e)) (csAfter a c e).got e.data rest rfl hpre (by rw [hrel.chunk]; exact hd)
  rw [hbytes]
  simp only [readChunk, readBasicHeader_spec e.fmt e.cid e.bhForm hev.2.1 hev.1, Res.bind_ok]
  rw [hch, readMessageHeader_spec a e.cid c ch e (e.data ++ rest) hrc hev hh hcount hno']
  simp only [Res.bind_ok, hrd]
  have hdelta : e.tsField < 4294967296 := hev.2.2.1
  rcases hcase with ⟨hc, hctl, rfl, rfl⟩ | ⟨hc, rfl, rfl⟩
  · -- the chunk completes its message
    rw [if_pos (by simpa [hdrOfCs, csAfter] using hc)]
    have harr := onMessageArrived_spec st.inChunk
      { hdr := hdrOfCs e.cid (csAfter a c e), payload := (csAfter a c e).got ++ e.data } hctl
    simp only [Res.bind_ok, harr, Res.pure_eq]
    refine ⟨_, _, rfl, ?_, rfl⟩
    have hr' : RelCs e.cid (csDone a c e)
        { cid := ch.cid, hdr := hdrOfCs e.cid (csAfter a c e), msg := none, count := ch.count + 1,
          extTs := decide (16777215 ≤ e.tsField) } :=
      ⟨hrc.cid, rfl, rfl, rfl, by intro h; simp [csDone] at h, by intro h; simp [csDone] at h, hdelta⟩
    have := rel_set hrel e.cid (csDone a c e) _
      (if e.ty = 1 then ofBE ((csAfter a c e).got ++ e.data) else s.chunkSize) hr' (by simp)
    simpa [hdrOfCs, csAfter, hrel.chunk] using this
  · -- the message stays open
    rw [if_neg (by simpa [hdrOfCs, csAfter] using hc)]
    simp only [Res.bind_ok, Res.pure_eq]
    refine ⟨_, _, rfl, ?_, rfl⟩
    have hlt : ((csAfter a c e).got ++ e.data).length < e.len := by
      simp only [List.length_append] at hc ⊢
      omega
    have habs : 16777215 ≤ e.tsField → newTs a c e = e.tsField := by
      intro hx
      unfold HeaderOK at hh
      cases hb : c.busy with
      | true =>
        simp only [hb, if_true] at hh
        simp only [newTs, hb, if_true]
        rw [hh.2.1]
        exact hrc.abs hb (by rw [← hh.2.1]; exact hx)
      | false =>
        have hfm : e.fmt = 0 ∨ e.fmt = 1 ∨ e.fmt = 2 ∨ e.fmt = 3 := by have := hev.2.1; omega
        rcases hfm with hf | hf | hf | hf
        · simp [newTs, hb, hf]
        · rcases hno' with rfl | hn
          · simp [newTs, hb, hf, hx]
          · exact absurd ⟨hx, Or.inl hf⟩ hn
        · rcases hno' with rfl | hn
          · simp [newTs, hb, hf, hx]
          · exact absurd ⟨hx, Or.inr (Or.inl hf)⟩ hn
        · rcases hno' with rfl | hn
          · simp [newTs, hb, hf, hx]
          · exact absurd ⟨hx, Or.inr (Or.inr ⟨hf, hb⟩)⟩ hn
    have hr' : RelCs e.cid (csOpen a c e)
        { cid := ch.cid, hdr := hdrOfCs e.cid (csAfter a c e),
          msg := some { hdr := hdrOfCs e.cid (csAfter a c e), payload := (csAfter a c e).got ++ e.data },
          count := ch.count + 1, extTs := decide (16777215 ≤ e.tsField) } :=
      ⟨hrc.cid, rfl, rfl, rfl, fun _ => hlt, fun _ hx => habs hx, hdelta⟩
    have := rel_set hrel e.cid (csOpen a c e) _ s.chunkSize hr' (by simp)
    simpa [hrel.chunk] using this
end Oryx.Rtmp
