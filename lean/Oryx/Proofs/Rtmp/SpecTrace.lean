/-
  C02 helpers (5): from one chunk event to whole traces (induction over the trace), the reject rules.
-/
import Oryx.Proofs.Rtmp.SpecStep
namespace Oryx.Rtmp
open Oryx Oryx.Res Oryx.Spec.RtmpChunk

theorem basicHeader_length_pos (fmt cid form : Nat) : 1 ≤ (basicHeader fmt cid form).length := by
  unfold basicHeader; repeat' split
  all_goals simp

theorem chunkBytes_length_pos (e : ChunkEv) : 1 ≤ (chunkBytes e).length := by
  have := basicHeader_length_pos e.fmt e.cid e.bhForm
  simp only [chunkBytes, List.length_append]; omega

/-! `NoExtendedDelta` / `EndsComplete` along the run of either reading (`a = false`: the specification;
`a = true`: the deviating "extended field is absolute" reading, under which no event is excluded). -/

def noExtA (a : Bool) : Sender → List ChunkEv → Bool
  | _, [] => true
  | s, e :: tr =>
    (a || !decide (UsesExtDelta s e)) &&
      match step a s e with
      | some (s', _) => noExtA a s' tr
      | none => true

def endsA (a : Bool) : Sender → List ChunkEv → Bool
  | _, [] => true
  | s, e :: tr =>
    match step a s e with
    | some (s', out) => if tr.isEmpty then out.isSome else endsA a s' tr
    | none => false

theorem noExtA_false : ∀ (tr : List ChunkEv) (s : Sender), noExtA false s tr = noExtDeltaFrom s tr := by
  intro tr
  induction tr with
  | nil => intro s; rfl
  | cons e tr ih =>
    intro s
    simp only [noExtA, noExtDeltaFrom, Bool.false_or]
    cases step false s e with
    | none => rfl
    | some r => simp only [ih]

theorem noExtA_true : ∀ (tr : List ChunkEv) (s : Sender), noExtA true s tr = true := by
  intro tr
  induction tr with
  | nil => intro s; rfl
  | cons e tr ih =>
    intro s
    simp only [noExtA, Bool.true_or, Bool.true_and]
    cases step true s e with
    | none => rfl
    | some r => simp only [ih]

theorem endsA_false : ∀ (tr : List ChunkEv) (s : Sender), endsA false s tr = endsCompleteFrom s tr := by
  intro tr
  induction tr with
  | nil => intro s; rfl
  | cons e tr ih =>
    intro s
    simp only [endsA, endsCompleteFrom]
    cases step false s e with
    | none => rfl
    | some r => simp only [ih]

/-- `readChunk` applied `n` times, collecting the completed messages (the chunk-level view of the
`for m == nil` loop of `ReadMessage` over several calls). -/
def readChunks : Nat → Reader → Bytes → Res ((List Msg × Reader) × Bytes)
  | 0, st, bs => ok (([], st), bs)
  | n+1, st, bs => do
    let ((st, m), bs) ← readChunk st bs
    let ((ms, st), bs) ← readChunks n st bs
    pure ((optList m ++ ms, st), bs)

/-- Chunk level: every conformant trace without extended delta, from any related pair of states. -/
theorem decode_chunks_from (a : Bool) : ∀ (tr : List ChunkEv) (s s' : Sender) (st : Reader) (ms : List Message) (rest : Bytes),
    Rel s st → run a s tr = some (s', ms) → noExtA a s tr = true →
    ∃ rms st', readChunks tr.length st (specBytes tr ++ rest) = ok ((rms, st'), rest) ∧
      rms.map toSpec = ms ∧ Rel s' st' := by
  intro tr
  induction tr with
  | nil =>
    intro s s' st ms rest hrel hrun _
    simp only [run, Option.some.injEq, Prod.mk.injEq] at hrun
    obtain ⟨rfl, rfl⟩ := hrun
    exact ⟨[], st, rfl, rfl, hrel⟩
  | cons e tr ih =>
    intro s s' st ms rest hrel hrun hno
    simp only [run] at hrun
    cases hstep : step a s e with
    | none => rw [hstep] at hrun; simp at hrun
    | some r =>
      obtain ⟨s1, out⟩ := r
      rw [hstep] at hrun
      simp only at hrun
      cases hrun1 : run a s1 tr with
      | none => rw [hrun1] at hrun; simp at hrun
      | some r1 =>
        obtain ⟨s2, ms1⟩ := r1
        rw [hrun1] at hrun
        simp only [Option.some.injEq, Prod.mk.injEq] at hrun
        obtain ⟨rfl, rfl⟩ := hrun
        simp only [noExtA, hstep, Bool.and_eq_true, Bool.or_eq_true, Bool.not_eq_true', decide_eq_false_iff_not] at hno
        obtain ⟨st1, om, hrc, hrel1, hom⟩ := readChunk_spec a s s1 st e out (specBytes tr ++ rest) hrel hstep hno.1
        obtain ⟨rms, st', hrd, hmap, hrel'⟩ := ih s1 s2 st1 ms1 rest hrel1 hrun1 hno.2
        refine ⟨optList om ++ rms, st', ?_, ?_, hrel'⟩
        · simp only [specBytes, List.length_cons, readChunks, List.append_assoc, hrc, Res.bind_ok, hrd, Res.pure_eq]
        · rw [List.map_append, hmap, ← hom]
          cases om <;> rfl

/-- One message read = the chunk that completes it, or one chunk and then the read. -/
theorem readMessage_chunk_some {st st1 : Reader} {bs bs1 : Bytes} {m : Msg}
    (h : readChunk st bs = ok ((st1, some m), bs1)) : readMessage st bs = ok ((m, st1), bs1) := by
  simp [readMessage, readLoop, h]

theorem readMessage_chunk_none {st st1 : Reader} {bs bs1 : Bytes} {r : (Msg × Reader) × Bytes}
    (h : readChunk st bs = ok ((st1, none), bs1)) (hlen : bs1.length < bs.length)
    (h1 : readMessage st1 bs1 = ok r) : readMessage st bs = ok r := by
  simp only [readMessage, readLoop, h, Res.bind_ok]
  exact readLoop_mono _ _ _ _ _ (by omega) h1

/-- Message level: a conformant trace without extended delta whose last chunk completes a message. -/
theorem decode_from (a : Bool) : ∀ (tr : List ChunkEv) (s s' : Sender) (st : Reader) (ms : List Message) (rest : Bytes),
    Rel s st → run a s tr = some (s', ms) → noExtA a s tr = true → endsA a s tr = true →
    ∃ rms st', readMessages ms.length st (specBytes tr ++ rest) = ok ((rms, st'), rest) ∧
      rms.map toSpec = ms ∧ Rel s' st' := by
  intro tr
  induction tr with
  | nil =>
    intro s s' st ms rest hrel hrun _ _
    simp only [run, Option.some.injEq, Prod.mk.injEq] at hrun
    obtain ⟨rfl, rfl⟩ := hrun
    exact ⟨[], st, rfl, rfl, hrel⟩
  | cons e tr ih =>
    intro s s' st ms rest hrel hrun hno hends
    simp only [run] at hrun
    cases hstep : step a s e with
    | none => rw [hstep] at hrun; simp at hrun
    | some r =>
      obtain ⟨s1, out⟩ := r
      rw [hstep] at hrun
      simp only at hrun
      cases hrun1 : run a s1 tr with
      | none => rw [hrun1] at hrun; simp at hrun
      | some r1 =>
        obtain ⟨s2, ms1⟩ := r1
        rw [hrun1] at hrun
        simp only [Option.some.injEq, Prod.mk.injEq] at hrun
        obtain ⟨rfl, rfl⟩ := hrun
        simp only [noExtA, hstep, Bool.and_eq_true, Bool.or_eq_true, Bool.not_eq_true', decide_eq_false_iff_not] at hno
        simp only [endsA, hstep] at hends
        obtain ⟨st1, om, hrc, hrel1, hom⟩ := readChunk_spec a s s1 st e out (specBytes tr ++ rest) hrel hstep hno.1
        have hends1 : endsA a s1 tr = true := by
          cases tr with
          | nil => rfl
          | cons _ _ => simpa using hends
        obtain ⟨rms, st', hrd, hmap, hrel'⟩ := ih s1 s2 st1 ms1 rest hrel1 hrun1 hno.2 hends1
        have hbytes : specBytes (e :: tr) ++ rest = chunkBytes e ++ (specBytes tr ++ rest) := by
          simp [specBytes, List.append_assoc]
        rw [hbytes]
        cases om with
        | some rm =>
          -- this chunk completes a message
          cases out with
          | none => simp at hom
          | some m =>
            simp only [Option.map_some, Option.some.injEq] at hom
            refine ⟨rm :: rms, st', ?_, by simp [optList, hom, hmap], hrel'⟩
            simp only [optList, List.singleton_append, List.length_cons, readMessages,
              readMessage_chunk_some hrc, Res.bind_ok, hrd, Res.pure_eq]
        | none =>
          cases out with
          | some m => simp at hom
          | none =>
            -- more chunks follow (the trace ends with a completed message)
            simp only [optList, List.nil_append]
            cases tr with
            | nil => simp at hends
            | cons e2 tr2 =>
              cases hms : ms1 with
              | nil =>
                -- impossible: nothing more to read, yet the bytes of `e2` are there
                rw [hms] at hrd
                simp only [List.length_nil, readMessages, ok.injEq, Prod.mk.injEq] at hrd
                have hl := congrArg List.length hrd.2
                have := chunkBytes_length_pos e2
                simp only [specBytes, List.length_append] at hl
                omega
              | cons m0 ms0 =>
                rw [hms] at hrd hmap
                simp only [List.length_cons, readMessages] at hrd ⊢
                cases hr1 : readMessage st1 (specBytes (e2 :: tr2) ++ rest) with
                | err k => rw [hr1] at hrd; simp at hrd
                | panic => rw [hr1] at hrd; simp at hrd
                | ok r =>
                  have hlen : (specBytes (e2 :: tr2) ++ rest).length <
                      (chunkBytes e ++ (specBytes (e2 :: tr2) ++ rest)).length := by
                    have := chunkBytes_length_pos e
                    simp only [List.length_append] at this ⊢
                    omega
                  rw [readMessage_chunk_none hrc hlen hr1]
                  rw [hr1] at hrd
                  exact ⟨rms, st', hrd, hmap, hrel'⟩

/-! ### reject rules -/

theorem readMessage_of_readChunk_err {st : Reader} {bs : Bytes} {k : EK} (h : readChunk st bs = err k) :
    readMessage st bs = err k := by
  simp [readMessage, readLoop, h]

/-- A type-0 header on a chunk stream that is inside a message. -/
theorem reject_type0_inside (st : Reader) (cid form : Nat) (hl : FormLegal cid form) (ch : ChunkStream) (m : Msg)
    (hget : st.chunks.get cid = some ch) (hopen : ch.msg = some m) (bs : Bytes) :
    readChunk st (basicHeader 0 cid form ++ bs) = err .generic := by
  simp [readChunk, readBasicHeader_spec 0 cid form (by omega) hl, Chunks.getOrNew, hget, readMessageHeader, hopen]

/-- A type-1 header inside a message that announces a different length. -/
theorem reject_length_changed (st : Reader) (cid form : Nat) (hl : FormLegal cid form) (ch : ChunkStream) (m : Msg)
    (hget : st.chunks.get cid = some ch) (hopen : ch.msg = some m)
    (tsf len ty : Nat) (hlen : len < 16777216) (hne : len ≠ ch.hdr.len) (bs : Bytes) :
    readChunk st (basicHeader 1 cid form ++ ((be 3 tsf ++ be 3 len ++ [UInt8.ofNat ty]) ++ bs)) = err .generic := by
  obtain ⟨_, s33, _, s7⟩ := hdr_split7 (be 3 tsf) (be 3 len) (UInt8.ofNat ty) (be_length _ _) (be_length _ _)
  have hL : ofBE (be 3 len) = len := ofBE_be_of_lt (by omega)
  simp only [readChunk, readBasicHeader_spec 1 cid form (by omega) hl, Chunks.getOrNew, hget, Res.bind_ok,
    readMessageHeader, hopen, Option.isNone_some, Option.isSome_some, hsz1]
  split
  · rfl
  · simp only [show ¬ (1 : Nat) = 0 by decide, and_false, if_false]
    rw [readFull_append _ _ s7]
    simp only [Res.bind_ok, applyHeader_1, fL, s33, hL]
    have hne' : ¬ ch.hdr.len = len := fun h => hne h.symm
    simp [hne']

/-- A chunk stream the reader has not seen, starting with a type 1/2/3 header (other than the
librtmp form: type 1 on chunk stream 2). -/
theorem reject_fresh_not_type0 (st : Reader) (cid form fmt : Nat) (hl : FormLegal cid form) (h1 : 1 ≤ fmt) (h3 : fmt ≤ 3)
    (hfresh : st.chunks.get cid = none) (hnp : ¬ (cid = 2 ∧ fmt = 1)) (bs : Bytes) :
    readChunk st (basicHeader fmt cid form ++ bs) = err .generic := by
  have : fmt ≠ 0 := by omega
  have hnp' : cid = 2 → ¬ fmt = 1 := fun a b => hnp ⟨a, b⟩
  simp [readChunk, readBasicHeader_spec fmt cid form h3 hl, Chunks.getOrNew, hfresh, readMessageHeader, this,
    Gen.Rtmp.chunkIDProtocolControl]
  rw [if_pos hnp']
  rfl

end Oryx.Rtmp
