/-
  C02 helpers (3): the abstraction relation between the reader's chunk stream and the sender-side
  state of the specification's chunker, and the reader's message-header parser on the header bytes the
  specification writes — one lemma per header type.
-/
import Oryx.Proofs.Rtmp.SpecReader
import Oryx.Proofs.Rtmp.Header
namespace Oryx.Rtmp
open Oryx Oryx.Res Oryx.Spec.RtmpChunk

/-! ### abstraction relation -/

/-- The header the reader holds for a chunk stream whose sender-side state is `cs`. -/
def hdrOfCs (k : Nat) (cs : CsState) : Header :=
  { tsDelta := tsWire cs.delta, len := cs.len, ty := cs.ty, sid := cs.sid, cid := k, ts := cs.ts % 2147483648 }

/-- Reader chunk stream `ch` represents sender-side chunk stream state `cs` of chunk stream `k`. -/
structure RelCs (k : Nat) (cs : CsState) (ch : ChunkStream) : Prop where
  cid : ch.cid = k
  hdr : ch.hdr = hdrOfCs k cs
  ext : ch.extTs = decide (16777215 ≤ cs.delta)
  msg : ch.msg = if cs.busy then some { hdr := hdrOfCs k cs, payload := cs.got } else none
  got : cs.busy = true → cs.got.length < cs.len
  abs : cs.busy = true → 16777215 ≤ cs.delta → cs.ts = cs.delta
  delta : cs.delta < 4294967296

/-- Sender-side state after the header of event `e`. -/
def csAfter (a : Bool) (c : CsState) (e : ChunkEv) : CsState :=
  { ts := newTs a c e, delta := e.tsField, len := e.len, ty := e.ty, sid := e.sid,
    got := if c.busy then c.got else [], busy := true }

theorem tsWire_lt (t : Nat) : tsWire t < 16777216 := by unfold tsWire; split <;> omega
theorem tsWire_ext (t : Nat) : 16777215 ≤ tsWire t ↔ 16777215 ≤ t := by unfold tsWire; split <;> omega
theorem tsWire_small {t : Nat} (h : ¬ 16777215 ≤ t) : tsWire t = t := by unfold tsWire; split <;> omega

theorem hsz0 : headerSize 0 = ok 11 := rfl
theorem hsz1 : headerSize 1 = ok 7 := rfl
theorem hsz2 : headerSize 2 = ok 3 := rfl
theorem hsz3 : headerSize 3 = ok 0 := rfl

/-- The optional extended timestamp, as the spec writes it, read by the reader. -/
theorem readExtSpec (t : Nat) (ht : t < 4294967296) (h : Header) (tail : Bytes) :
    ((if decide (16777215 ≤ t) then do
        let (e, bs) ← readFull 4 ((if 16777215 ≤ t then be 4 t else []) ++ tail)
        pure ({ h with ts := ofBE e % 2147483648 }, bs)
      else pure (h, (if 16777215 ≤ t then be 4 t else []) ++ tail) : Res (Header × Bytes)))
    = ok ((if 16777215 ≤ t then { h with ts := t % 2147483648 } else h), tail) := by
  by_cases hx : 16777215 ≤ t
  · have e : readFull 4 (be 4 t ++ tail) = ok (be 4 t, tail) := readFull_append _ _ (be_length 4 t)
    have h4 : ofBE (be 4 t) = t := ofBE_be_of_lt (by omega)
    simp [hx, e, h4]
  · simp [hx]

theorem readMessageHeader_spec0 (a : Bool) (k : Nat) (c : CsState) (ch : ChunkStream) (e : ChunkEv) (tail : Bytes)
    (hr : RelCs k c ch) (hev : EvOK e) (hf : e.fmt = 0) (hb : c.busy = false) :
    readMessageHeader ch e.fmt (messageHeader e ++ (extendedTimestamp e ++ tail)) =
      ok ({ ch with hdr := hdrOfCs k (csAfter a c e), msg := some { hdr := hdrOfCs k (csAfter a c e), payload := [] },
                    count := ch.count + 1, extTs := decide (16777215 ≤ e.tsField) }, tail) := by
  obtain ⟨_, _, hts, hlen, hty, hsid, _⟩ := hev
  have hmsg : ch.msg = none := by rw [hr.msg, hb]; rfl
  obtain ⟨s3, s33, s6, s7, s11⟩ := hdr_split (be 3 (tsWire e.tsField)) (be 3 e.len) (le 4 e.sid)
    (UInt8.ofNat e.ty) (be_length _ _) (be_length _ _) (le_length _ _)
  have hD : ofBE (be 3 (tsWire e.tsField)) = tsWire e.tsField := ofBE_be_of_lt (by have := tsWire_lt e.tsField; omega)
  have hL : ofBE (be 3 e.len) = e.len := ofBE_be_of_lt (by omega)
  have hS : ofLE (le 4 e.sid) = e.sid := ofLE_le_of_lt (by omega)
  have hT : (UInt8.ofNat e.ty).toNat = e.ty := u8_ofNat_toNat_lt hty
  have e4 : readFull 4 (be 4 e.tsField ++ tail) = ok (be 4 e.tsField, tail) := readFull_append _ _ (be_length 4 _)
  have h4 : ofBE (be 4 e.tsField) = e.tsField := ofBE_be_of_lt (by omega)
  rw [hf]
  simp only [readMessageHeader, hmsg, Option.isNone_none, Option.isSome_none, hsz0, Res.bind_ok, messageHeader, hf, if_true]
  rw [readFull_append _ _ s11]
  simp only [Res.bind_ok, applyHeader_0, fD, fL, fT, fS, s3, s33, s6, s7, hD, hL, hS, hT]
  by_cases hx : 16777215 ≤ e.tsField
  · simp [hx, hdrOfCs, csAfter, newTs, hb, hf, hr.hdr, extendedTimestamp, tsWire_ext, e4, h4]
  · simp [hx, hdrOfCs, csAfter, newTs, hb, hf, hr.hdr, tsWire_small hx, extendedTimestamp]

theorem hdr_split7 (a b : Bytes) (t : UInt8) (ha : a.length = 3) (hb : b.length = 3) :
    (a ++ b ++ [t]).take 3 = a ∧ ((a ++ b ++ [t]).drop 3).take 3 = b ∧
    ((a ++ b ++ [t]).drop 6).headD 0 = t ∧ (a ++ b ++ [t]).length = 7 := by
  match a, ha with
  | [a0, a1, a2], _ =>
    match b, hb with
    | [b0, b1, b2], _ => simp

theorem readFull_zero (bs : Bytes) : readFull 0 bs = ok ([], bs) := by simp [readFull]

theorem readMessageHeader_spec1 (a : Bool) (k : Nat) (c : CsState) (ch : ChunkStream) (e : ChunkEv) (tail : Bytes)
    (hr : RelCs k c ch) (hev : EvOK e) (hf : e.fmt = 1) (hb : c.busy = false) (hsid : e.sid = c.sid)
    (hcount : ch.count ≠ 0 ∨ ch.cid = 2) (hx : ¬ 16777215 ≤ e.tsField) :
    readMessageHeader ch e.fmt (messageHeader e ++ (extendedTimestamp e ++ tail)) =
      ok ({ ch with hdr := hdrOfCs k (csAfter a c e), msg := some { hdr := hdrOfCs k (csAfter a c e), payload := [] },
                    count := ch.count + 1, extTs := decide (16777215 ≤ e.tsField) }, tail) := by
  obtain ⟨_, _, hts, hlen, hty, _, _⟩ := hev
  have hmsg : ch.msg = none := by rw [hr.msg, hb]; rfl
  obtain ⟨s3, s33, s6, s7⟩ := hdr_split7 (be 3 (tsWire e.tsField)) (be 3 e.len)
    (UInt8.ofNat e.ty) (be_length _ _) (be_length _ _)
  have hD : ofBE (be 3 (tsWire e.tsField)) = tsWire e.tsField := ofBE_be_of_lt (by have := tsWire_lt e.tsField; omega)
  have hL : ofBE (be 3 e.len) = e.len := ofBE_be_of_lt (by omega)
  have hT : (UInt8.ofNat e.ty).toNat = e.ty := u8_ofNat_toNat_lt hty
  have hc0 : ch.count = 0 → ch.cid = Gen.Rtmp.chunkIDProtocolControl := by
    intro h0; rcases hcount with h | h
    · exact absurd h0 h
    · exact h
  have hmod : (c.ts % 2147483648 + e.tsField) % 2147483648 = (c.ts + e.tsField) % 4294967296 % 2147483648 := by omega
  rw [hf]
  simp only [readMessageHeader, hmsg, Option.isNone_none, Option.isSome_none, hsz1, Res.bind_ok, messageHeader, hf]
  simp only [show ¬ (1 : Nat) = 0 by decide, if_false, if_true]
  rw [readFull_append _ _ s7]
  simp only [Res.bind_ok, applyHeader_1, fD, fL, fT, s3, s33, s6, hD, hL, hT]
  simp [hx, hdrOfCs, csAfter, newTs, hb, hf, hr.hdr, tsWire_small hx, extendedTimestamp, hsid, hmod]
  exact hc0

theorem readMessageHeader_spec2 (a : Bool) (k : Nat) (c : CsState) (ch : ChunkStream) (e : ChunkEv) (tail : Bytes)
    (hr : RelCs k c ch) (hf : e.fmt = 2) (hb : c.busy = false)
    (hsame : e.sid = c.sid ∧ e.len = c.len ∧ e.ty = c.ty)
    (hcount : ch.count ≠ 0) (hx : ¬ 16777215 ≤ e.tsField) :
    readMessageHeader ch e.fmt (messageHeader e ++ (extendedTimestamp e ++ tail)) =
      ok ({ ch with hdr := hdrOfCs k (csAfter a c e), msg := some { hdr := hdrOfCs k (csAfter a c e), payload := [] },
                    count := ch.count + 1, extTs := decide (16777215 ≤ e.tsField) }, tail) := by
  obtain ⟨hsid, hlen, hty⟩ := hsame
  have hmsg : ch.msg = none := by rw [hr.msg, hb]; rfl
  have hD : ofBE (be 3 (tsWire e.tsField)) = tsWire e.tsField := ofBE_be_of_lt (by have := tsWire_lt e.tsField; omega)
  have hmod : (c.ts % 2147483648 + e.tsField) % 2147483648 = (c.ts + e.tsField) % 4294967296 % 2147483648 := by omega
  have s3 : (be 3 (tsWire e.tsField)).take 3 = be 3 (tsWire e.tsField) := List.take_of_length_le (by simp)
  rw [hf]
  simp only [readMessageHeader, hmsg, Option.isNone_none, Option.isSome_none, hsz2, Res.bind_ok, messageHeader, hf, hcount,
    false_and, if_false]
  simp only [show ¬ (2 : Nat) = 0 by decide, show ¬ (2 : Nat) = 1 by decide, if_false, if_true]
  rw [readFull_append _ _ (be_length 3 _)]
  simp only [Res.bind_ok, applyHeader_2, fD, s3, hD]
  simp [hx, hdrOfCs, csAfter, newTs, hb, hf, hr.hdr, tsWire_small hx, extendedTimestamp, hsid, hlen, hty, hmod]

theorem readMessageHeader_spec3_first (a : Bool) (k : Nat) (c : CsState) (ch : ChunkStream) (e : ChunkEv) (tail : Bytes)
    (hr : RelCs k c ch) (hf : e.fmt = 3) (hb : c.busy = false)
    (hsame : e.tsField = c.delta ∧ e.len = c.len ∧ e.ty = c.ty ∧ e.sid = c.sid)
    (hcount : ch.count ≠ 0) (hx : ¬ 16777215 ≤ e.tsField) :
    readMessageHeader ch e.fmt (messageHeader e ++ (extendedTimestamp e ++ tail)) =
      ok ({ ch with hdr := hdrOfCs k (csAfter a c e), msg := some { hdr := hdrOfCs k (csAfter a c e), payload := [] },
                    count := ch.count + 1, extTs := decide (16777215 ≤ e.tsField) }, tail) := by
  obtain ⟨hd, hlen, hty, hsid⟩ := hsame
  have hmsg : ch.msg = none := by rw [hr.msg, hb]; rfl
  have hx' : ¬ 16777215 ≤ c.delta := by rw [← hd]; exact hx
  have hext : ch.extTs = false := by rw [hr.ext]; simp [hx']
  have hmod : (c.ts % 2147483648 + c.delta) % 2147483648 = (c.ts + c.delta) % 4294967296 % 2147483648 := by omega
  rw [hf]
  simp only [readMessageHeader, hmsg, Option.isNone_none, Option.isSome_none, hsz3, Res.bind_ok, messageHeader, hf, hcount,
    false_and, if_false]
  simp only [show ¬ (3 : Nat) = 0 by decide, show ¬ (3 : Nat) = 1 by decide, show ¬ (3 : Nat) = 2 by decide, if_false]
  rw [List.nil_append, readFull_zero]
  simp only [Res.bind_ok, applyHeader_3 _ 3 (Nat.le_refl _)]
  simp [hx', hext, hdrOfCs, csAfter, newTs, hb, hf, hr.hdr, tsWire_small hx', extendedTimestamp, hd, hsid, hlen, hty, hmod]

theorem readMessageHeader_spec3_cont (a : Bool) (k : Nat) (c : CsState) (ch : ChunkStream) (e : ChunkEv) (tail : Bytes)
    (hr : RelCs k c ch) (hf : e.fmt = 3) (hb : c.busy = true)
    (hsame : e.tsField = c.delta ∧ e.len = c.len ∧ e.ty = c.ty ∧ e.sid = c.sid)
    (hcount : ch.count ≠ 0) :
    readMessageHeader ch e.fmt (messageHeader e ++ (extendedTimestamp e ++ tail)) =
      ok ({ ch with hdr := hdrOfCs k (csAfter a c e), msg := some { hdr := hdrOfCs k (csAfter a c e), payload := c.got },
                    count := ch.count + 1, extTs := decide (16777215 ≤ e.tsField) }, tail) := by
  obtain ⟨hd, hlen, hty, hsid⟩ := hsame
  have hmsg : ch.msg = some { hdr := hdrOfCs k c, payload := c.got } := by rw [hr.msg, hb]; rfl
  have hts := hr.delta
  have e4 : readFull 4 (be 4 c.delta ++ tail) = ok (be 4 c.delta, tail) := readFull_append _ _ (be_length 4 _)
  have h4 : ofBE (be 4 c.delta) = c.delta := ofBE_be_of_lt (by omega)
  rw [hf]
  simp only [readMessageHeader, hmsg, Option.isNone_some, Option.isSome_some, hsz3, Res.bind_ok, messageHeader, hf, hcount,
    false_and, if_false]
  simp only [show ¬ (3 : Nat) = 0 by decide, show ¬ (3 : Nat) = 1 by decide, show ¬ (3 : Nat) = 2 by decide, if_false,
    and_false]
  rw [List.nil_append, readFull_zero]
  simp only [Res.bind_ok, applyHeader_3 _ 3 (Nat.le_refl _)]
  by_cases hx : 16777215 ≤ c.delta
  · have habs := hr.abs hb hx
    simp [hx, hr.ext, hdrOfCs, csAfter, newTs, hb, hr.hdr, extendedTimestamp, hd, hsid, hlen, hty, e4, h4, habs]
  · simp [hx, hr.ext, hdrOfCs, csAfter, newTs, hb, hr.hdr, extendedTimestamp, hd, hsid, hlen, hty]
/-! The same three header types when the field is EXTENDED, under the deviating reading `absExt = true`
(the extended field taken as an absolute time): this is what the reader does (K2). -/

theorem readMessageHeader_spec1_ext (k : Nat) (c : CsState) (ch : ChunkStream) (e : ChunkEv) (tail : Bytes)
    (hr : RelCs k c ch) (hev : EvOK e) (hf : e.fmt = 1) (hb : c.busy = false) (hsid : e.sid = c.sid)
    (hcount : ch.count ≠ 0 ∨ ch.cid = 2) (hx : 16777215 ≤ e.tsField) :
    readMessageHeader ch e.fmt (messageHeader e ++ (extendedTimestamp e ++ tail)) =
      ok ({ ch with hdr := hdrOfCs k (csAfter true c e), msg := some { hdr := hdrOfCs k (csAfter true c e), payload := [] },
                    count := ch.count + 1, extTs := decide (16777215 ≤ e.tsField) }, tail) := by
  obtain ⟨_, _, hts, hlen, hty, _, _⟩ := hev
  have hmsg : ch.msg = none := by rw [hr.msg, hb]; rfl
  obtain ⟨s3, s33, s6, s7⟩ := hdr_split7 (be 3 (tsWire e.tsField)) (be 3 e.len)
    (UInt8.ofNat e.ty) (be_length _ _) (be_length _ _)
  have hD : ofBE (be 3 (tsWire e.tsField)) = tsWire e.tsField := ofBE_be_of_lt (by have := tsWire_lt e.tsField; omega)
  have hL : ofBE (be 3 e.len) = e.len := ofBE_be_of_lt (by omega)
  have hT : (UInt8.ofNat e.ty).toNat = e.ty := u8_ofNat_toNat_lt hty
  have hc0 : ch.count = 0 → ch.cid = Gen.Rtmp.chunkIDProtocolControl := by
    intro h0; rcases hcount with h | h
    · exact absurd h0 h
    · exact h
  have e4 : readFull 4 (be 4 e.tsField ++ tail) = ok (be 4 e.tsField, tail) := readFull_append _ _ (be_length 4 _)
  have h4 : ofBE (be 4 e.tsField) = e.tsField := ofBE_be_of_lt (by omega)
  have hw : 16777215 ≤ tsWire e.tsField := (tsWire_ext _).mpr hx
  rw [hf]
  simp only [readMessageHeader, hmsg, Option.isNone_none, Option.isSome_none, hsz1, Res.bind_ok, messageHeader, hf]
  simp only [show ¬ (1 : Nat) = 0 by decide, if_false, if_true]
  rw [readFull_append _ _ s7]
  simp only [Res.bind_ok, applyHeader_1, fD, fL, fT, s3, s33, s6, hD, hL, hT]
  simp [hx, hw, hdrOfCs, csAfter, newTs, hb, hf, hr.hdr, extendedTimestamp, hsid, e4, h4]
  exact hc0

theorem readMessageHeader_spec2_ext (k : Nat) (c : CsState) (ch : ChunkStream) (e : ChunkEv) (tail : Bytes)
    (hr : RelCs k c ch) (hev : EvOK e) (hf : e.fmt = 2) (hb : c.busy = false)
    (hsame : e.sid = c.sid ∧ e.len = c.len ∧ e.ty = c.ty)
    (hcount : ch.count ≠ 0) (hx : 16777215 ≤ e.tsField) :
    readMessageHeader ch e.fmt (messageHeader e ++ (extendedTimestamp e ++ tail)) =
      ok ({ ch with hdr := hdrOfCs k (csAfter true c e), msg := some { hdr := hdrOfCs k (csAfter true c e), payload := [] },
                    count := ch.count + 1, extTs := decide (16777215 ≤ e.tsField) }, tail) := by
  obtain ⟨hsid, hlen, hty⟩ := hsame
  have hts := hev.2.2.1
  have hmsg : ch.msg = none := by rw [hr.msg, hb]; rfl
  have hD : ofBE (be 3 (tsWire e.tsField)) = tsWire e.tsField := ofBE_be_of_lt (by have := tsWire_lt e.tsField; omega)
  have s3 : (be 3 (tsWire e.tsField)).take 3 = be 3 (tsWire e.tsField) := List.take_of_length_le (by simp)
  have e4 : readFull 4 (be 4 e.tsField ++ tail) = ok (be 4 e.tsField, tail) := readFull_append _ _ (be_length 4 _)
  have h4 : ofBE (be 4 e.tsField) = e.tsField := ofBE_be_of_lt (by omega)
  have hw : 16777215 ≤ tsWire e.tsField := (tsWire_ext _).mpr hx
  rw [hf]
  simp only [readMessageHeader, hmsg, Option.isNone_none, Option.isSome_none, hsz2, Res.bind_ok, messageHeader, hf, hcount,
    false_and, if_false]
  simp only [show ¬ (2 : Nat) = 0 by decide, show ¬ (2 : Nat) = 1 by decide, if_false, if_true]
  rw [readFull_append _ _ (be_length 3 _)]
  simp only [Res.bind_ok, applyHeader_2, fD, s3, hD]
  simp [hx, hw, hdrOfCs, csAfter, newTs, hb, hf, hr.hdr, extendedTimestamp, hsid, hlen, hty, e4, h4]

theorem readMessageHeader_spec3_first_ext (k : Nat) (c : CsState) (ch : ChunkStream) (e : ChunkEv) (tail : Bytes)
    (hr : RelCs k c ch) (hf : e.fmt = 3) (hb : c.busy = false)
    (hsame : e.tsField = c.delta ∧ e.len = c.len ∧ e.ty = c.ty ∧ e.sid = c.sid)
    (hcount : ch.count ≠ 0) (hx : 16777215 ≤ e.tsField) :
    readMessageHeader ch e.fmt (messageHeader e ++ (extendedTimestamp e ++ tail)) =
      ok ({ ch with hdr := hdrOfCs k (csAfter true c e), msg := some { hdr := hdrOfCs k (csAfter true c e), payload := [] },
                    count := ch.count + 1, extTs := decide (16777215 ≤ e.tsField) }, tail) := by
  obtain ⟨hd, hlen, hty, hsid⟩ := hsame
  have hmsg : ch.msg = none := by rw [hr.msg, hb]; rfl
  have hx' : 16777215 ≤ c.delta := by rw [← hd]; exact hx
  have hts := hr.delta
  have e4 : readFull 4 (be 4 c.delta ++ tail) = ok (be 4 c.delta, tail) := readFull_append _ _ (be_length 4 _)
  have h4 : ofBE (be 4 c.delta) = c.delta := ofBE_be_of_lt (by omega)
  rw [hf]
  simp only [readMessageHeader, hmsg, Option.isNone_none, Option.isSome_none, hsz3, Res.bind_ok, messageHeader, hf, hcount,
    false_and, if_false]
  simp only [show ¬ (3 : Nat) = 0 by decide, show ¬ (3 : Nat) = 1 by decide, show ¬ (3 : Nat) = 2 by decide, if_false]
  rw [List.nil_append, readFull_zero]
  simp only [Res.bind_ok, applyHeader_3 _ 3 (Nat.le_refl _)]
  simp [hx', hr.ext, hdrOfCs, csAfter, newTs, hb, hf, hr.hdr, extendedTimestamp, hd, hsid, hlen, hty, e4, h4]

/-- All header types at once. Either the deviating reading (`a = true`: extended field = absolute
time) or no extended delta in this event. -/
theorem readMessageHeader_spec (a : Bool) (k : Nat) (c : CsState) (ch : ChunkStream) (e : ChunkEv) (tail : Bytes)
    (hr : RelCs k c ch) (hev : EvOK e) (hh : HeaderOK c e)
    (hcount : ch.count ≠ 0 ∨ e.fmt = 0 ∨ (ch.cid = 2 ∧ e.fmt = 1))
    (hno : a = true ∨ ¬ (16777215 ≤ e.tsField ∧ (e.fmt = 1 ∨ e.fmt = 2 ∨ (e.fmt = 3 ∧ c.busy = false)))) :
    readMessageHeader ch e.fmt (messageHeader e ++ (extendedTimestamp e ++ tail)) =
      ok ({ ch with hdr := hdrOfCs k (csAfter a c e),
                    msg := some { hdr := hdrOfCs k (csAfter a c e), payload := (csAfter a c e).got },
                    count := ch.count + 1, extTs := decide (16777215 ≤ e.tsField) }, tail) := by
  have hf3 := hev.2.1
  unfold HeaderOK at hh
  cases hb : c.busy with
  | true =>
    simp only [hb, if_true] at hh
    have hc : ch.count ≠ 0 := by
      rcases hcount with h | h | h
      · exact h
      · omega
      · omega
    have := readMessageHeader_spec3_cont a k c ch e tail hr hh.1 hb hh.2 hc
    simpa [csAfter, hb] using this
  | false =>
    simp only [hb, Bool.false_eq_true, if_false] at hh
    have hgot : (csAfter a c e).got = [] := by simp [csAfter, hb]
    rw [hgot]
    have hfm : e.fmt = 0 ∨ e.fmt = 1 ∨ e.fmt = 2 ∨ e.fmt = 3 := by omega
    rcases hfm with hf | hf | hf | hf
    · exact readMessageHeader_spec0 a k c ch e tail hr hev hf hb
    · simp only [hf, show ¬ (1 : Nat) = 0 by decide, if_false, if_true] at hh
      have hc : ch.count ≠ 0 ∨ ch.cid = 2 := by
        rcases hcount with h | h | h
        · exact Or.inl h
        · omega
        · exact Or.inr h.1
      by_cases hx : 16777215 ≤ e.tsField
      · rcases hno with rfl | hno
        · exact readMessageHeader_spec1_ext k c ch e tail hr hev hf hb hh hc hx
        · exact absurd ⟨hx, Or.inl hf⟩ hno
      · exact readMessageHeader_spec1 a k c ch e tail hr hev hf hb hh hc hx
    · simp only [hf, show ¬ (2 : Nat) = 0 by decide, show ¬ (2 : Nat) = 1 by decide, if_false, if_true] at hh
      have hc : ch.count ≠ 0 := by
        rcases hcount with h | h | h
        · exact h
        · omega
        · omega
      by_cases hx : 16777215 ≤ e.tsField
      · rcases hno with rfl | hno
        · exact readMessageHeader_spec2_ext k c ch e tail hr hev hf hb hh hc hx
        · exact absurd ⟨hx, Or.inr (Or.inl hf)⟩ hno
      · exact readMessageHeader_spec2 a k c ch e tail hr hf hb hh hc hx
    · simp only [hf, show ¬ (3 : Nat) = 0 by decide, show ¬ (3 : Nat) = 1 by decide, show ¬ (3 : Nat) = 2 by decide,
        if_false] at hh
      have hc : ch.count ≠ 0 := by
        rcases hcount with h | h | h
        · exact h
        · omega
        · omega
      by_cases hx : 16777215 ≤ e.tsField
      · rcases hno with rfl | hno
        · exact readMessageHeader_spec3_first_ext k c ch e tail hr hf hb hh hc hx
        · exact absurd ⟨hx, Or.inr (Or.inr ⟨hf, hb⟩)⟩ hno
      · exact readMessageHeader_spec3_first a k c ch e tail hr hf hb hh hc hx

/-- The payload slice of one chunk. -/
theorem readMessagePayload_data (ic : Nat) (ch : ChunkStream) (h : Header) (pre data tail : Bytes)
    (hmsg : ch.msg = some { hdr := h, payload := pre }) (hle : pre.length ≤ h.len)
    (hn : data.length = min (h.len - pre.length) ic) :
    readMessagePayload ic ch (data ++ tail) =
      if pre.length + data.length = h.len
      then ok (({ ch with msg := none }, some { hdr := h, payload := pre ++ data }), tail)
      else ok (({ ch with msg := some { hdr := h, payload := pre ++ data } }, none), tail) := by
  unfold readMessagePayload
  rw [hmsg]
  dsimp only
  by_cases h0 : h.len = 0
  · have hp : pre = [] := List.length_eq_zero_iff.mp (by omega)
    have hd : data = [] := List.length_eq_zero_iff.mp (by omega)
    subst hp; subst hd
    simp [h0]
  · have h1 : ¬ h.len < pre.length := by omega
    rw [if_neg h0, if_neg h1, readFull_append data tail hn]
    simp only [Res.bind_ok, List.length_append]
    by_cases hc : pre.length + data.length = h.len
    · rw [if_pos hc.symm, if_pos hc]; rfl
    · rw [if_neg (fun x => hc x.symm), if_neg hc]; rfl

theorem onMessageArrived_spec (ic : Nat) (m : Msg) (h : ControlOK m.hdr.ty m.payload) :
    onMessageArrived ic m = ok (if m.hdr.ty = 1 then ofBE m.payload else ic) := by
  obtain ⟨h1, _, h4, h5, _⟩ := h
  simp only [onMessageArrived, Gen.Rtmp.MessageTypeSetChunkSize, Gen.Rtmp.MessageTypeWindowAcknowledgementSize,
    Gen.Rtmp.MessageTypeUserControl]
  by_cases t1 : m.hdr.ty = 1
  · obtain ⟨hl, _, _⟩ := h1 t1
    have : m.payload.take 4 = m.payload := List.take_of_length_le (by omega)
    simp [t1, hl, this]
  · by_cases t5 : m.hdr.ty = 5
    · have := h5 t5
      simp [t5, this]
    · by_cases t4 : m.hdr.ty = 4
      · obtain ⟨h2, h3, hn3⟩ := h4 t4
        by_cases e3 : ofBE (m.payload.take 2) = 3
        · have := h3 e3
          simp [t4, this, e3, userControlSize, Gen.Rtmp.EventTypeFmsEvent0, Gen.Rtmp.EventTypeSetBufferLength]
        · obtain ⟨hl, hev⟩ := hn3 e3
          have hne : ¬ ofBE (m.payload.take 2) = 26 := by omega
          simp [t4, hl, e3, hne, userControlSize, Gen.Rtmp.EventTypeFmsEvent0, Gen.Rtmp.EventTypeSetBufferLength]
      · simp [t1, t5, t4]
end Oryx.Rtmp
