/-
  C02 helpers (1): the reader's basic-header parser inverts the specification's three forms;
  generic facts about the reader (bytes consumed, fuel, panic freedom).
-/
import Oryx.Proofs.Rtmp.Basic
import Oryx.Spec.RtmpChunk
namespace Oryx.Rtmp
open Oryx Oryx.Res Oryx.Spec.RtmpChunk

theorem readFull_one (b : UInt8) (rest : Bytes) : readFull 1 (b :: rest) = ok ([b], rest) :=
  readFull_append [b] rest (n := 1) rfl

/-- All three basic-header forms of §5.3.1.1 decode to the format and chunk stream id they encode. -/
theorem readBasicHeader_spec (fmt cid form : Nat) (hf : fmt ≤ 3) (hl : FormLegal cid form) (rest : Bytes) :
    readBasicHeader (basicHeader fmt cid form ++ rest) = ok ((fmt, cid), rest) := by
  rcases hl with ⟨rfl, h2, h63⟩ | ⟨rfl, h64, h319⟩ | ⟨rfl, h64, h65599⟩
  · simpa [basicHeader] using readBasicHeader_one fmt cid (by omega) h2 (by omega) rest
  · have e0 : (UInt8.ofNat (fmt * 64)).toNat = fmt * 64 := u8_ofNat_toNat_lt (by omega)
    have e1 : (UInt8.ofNat (cid - 64)).toNat = cid - 64 := u8_ofNat_toNat_lt (by omega)
    have h1 : (fmt * 64) % 64 = 0 := by omega
    have h3 : (fmt * 64) / 64 = fmt := by omega
    have h4 : 64 + (cid - 64) = cid := by omega
    simp [basicHeader, readBasicHeader, readFull_one, e1, h1, h4]
    omega
  · have e0 : (UInt8.ofNat (fmt * 64 + 1)).toNat = fmt * 64 + 1 := u8_ofNat_toNat_lt (by omega)
    have e1 : (UInt8.ofNat ((cid - 64) % 256)).toNat = (cid - 64) % 256 := u8_ofNat_toNat_lt (by omega)
    have e2 : (UInt8.ofNat ((cid - 64) / 256)).toNat = (cid - 64) / 256 := u8_ofNat_toNat_lt (by omega)
    have h1 : (fmt * 64 + 1) % 64 = 1 := by omega
    have h3 : (fmt * 64 + 1) / 64 = fmt := by omega
    have h4 : 64 + (cid - 64) % 256 + (cid - 64) / 256 * 256 = cid := by omega
    simp [basicHeader, readBasicHeader, readFull_one, e1, e2, h1, h4]
    omega

end Oryx.Rtmp
