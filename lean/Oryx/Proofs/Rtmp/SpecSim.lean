/-
  C02 helpers (6): the two readings of the extended timestamp (`absExt = false`: the specification,
  `absExt = true`: "always absolute", what the reader implements) accept the same traces and produce
  the same messages up to the timestamps; they coincide on traces without extended delta.
-/
import Oryx.Proofs.Rtmp.SpecTrace
namespace Oryx.Rtmp
open Oryx Oryx.Res Oryx.Spec.RtmpChunk

/-- Same sender-side chunk stream state except for the timestamp. -/
def CsSame (c1 c2 : CsState) : Prop :=
  c1.delta = c2.delta ∧ c1.len = c2.len ∧ c1.ty = c2.ty ∧ c1.sid = c2.sid ∧ c1.got = c2.got ∧ c1.busy = c2.busy

def SameButTs (s1 s2 : Sender) : Prop :=
  s1.chunkSize = s2.chunkSize ∧
  ∀ k, match s1.cs k, s2.cs k with
    | none, none => True
    | some c1, some c2 => CsSame c1 c2
    | _, _ => False

/-- A message with its timestamp blanked. -/
def noTs (m : Message) : Message := { m with ts := 0 }

theorem sameButTs_refl (s : Sender) : SameButTs s s := by
  refine ⟨rfl, fun k => ?_⟩
  cases s.cs k with
  | none => trivial
  | some c => exact ⟨rfl, rfl, rfl, rfl, rfl, rfl⟩

/-- Forward characterisation of `step` (converse of `step_inv`). -/
theorem step_of (a : Bool) {s : Sender} {e : ChunkEv} {c : CsState} (hev : EvOK e) (hl : lookup s e = some c)
    (hh : HeaderOK c e) (hd : e.data.length = min (e.len - (csAfter a c e).got.length) s.chunkSize) :
    step a s e =
      if ((csAfter a c e).got ++ e.data).length = e.len then
        if ControlOK e.ty ((csAfter a c e).got ++ e.data) then
          some (s.setCs e.cid (csDone a c e) (if e.ty = 1 then ofBE ((csAfter a c e).got ++ e.data) else s.chunkSize),
                some { cid := e.cid, ty := e.ty, sid := e.sid, ts := newTs a c e % 2147483648,
                       payload := (csAfter a c e).got ++ e.data })
        else none
      else some (s.setCs e.cid (csOpen a c e) s.chunkSize, none) := by
  have hg : (if c.busy then c.got else []) = (csAfter a c e).got := rfl
  simp only [step, hev, hl, hh, hg, hd, not_true_eq_false, if_false, ne_eq]
  by_cases hc : ((csAfter a c e).got ++ e.data).length = e.len
  · by_cases hctl : ControlOK e.ty ((csAfter a c e).got ++ e.data)
    · simp only [hc, hctl, if_true, not_true_eq_false, if_false]; rfl
    · simp only [hc, hctl, if_true, not_false_eq_true, if_false]
  · simp only [hc, if_false]; rfl

theorem headerOK_same {c1 c2 : CsState} (h : CsSame c1 c2) (e : ChunkEv) : HeaderOK c1 e ↔ HeaderOK c2 e := by
  obtain ⟨hd, hl, ht, hs, _, hb⟩ := h
  unfold HeaderOK
  rw [hd, hl, ht, hs, hb]

theorem lookup_same {s1 s2 : Sender} (h : SameButTs s1 s2) {e : ChunkEv} {c1 : CsState} (hl : lookup s1 e = some c1) :
    ∃ c2, lookup s2 e = some c2 ∧ CsSame c1 c2 := by
  have hk := h.2 e.cid
  unfold lookup at hl ⊢
  cases h1 : s1.cs e.cid with
  | none =>
    cases h2 : s2.cs e.cid with
    | none =>
      rw [h1] at hl
      simp only at hl ⊢
      split at hl
      · rename_i hc
        simp only [Option.some.injEq] at hl
        subst hl
        exact ⟨{}, by simp [hc], rfl, rfl, rfl, rfl, rfl, rfl⟩
      · simp at hl
    | some c2 => rw [h1, h2] at hk; exact hk.elim
  | some c =>
    cases h2 : s2.cs e.cid with
    | none => rw [h1, h2] at hk; exact hk.elim
    | some c2 =>
      rw [h1, h2] at hk
      rw [h1] at hl
      simp only [Option.some.injEq] at hl
      subst hl
      exact ⟨c2, rfl, hk⟩

theorem sameButTs_set {s1 s2 : Sender} (h : SameButTs s1 s2) (cid : Nat) {c1 c2 : CsState} (hc : CsSame c1 c2) (n : Nat) :
    SameButTs (s1.setCs cid c1 n) (s2.setCs cid c2 n) := by
  refine ⟨rfl, fun k => ?_⟩
  by_cases hk : k = cid
  · simp only [Sender.setCs, hk, if_true]; exact hc
  · simp only [Sender.setCs, hk, if_false]; exact h.2 k

/-- One event under the two readings. -/
theorem step_sim (a b : Bool) {s1 s2 s1' : Sender} {e : ChunkEv} {o1 : Option Message} (h : SameButTs s1 s2)
    (hs : step a s1 e = some (s1', o1)) :
    ∃ s2' o2, step b s2 e = some (s2', o2) ∧ SameButTs s1' s2' ∧ o1.map noTs = o2.map noTs := by
  obtain ⟨c1, hev, hl, hh, hd, hcase⟩ := step_inv hs
  obtain ⟨c2, hl2, hcs⟩ := lookup_same h hl
  have hgot : (csAfter b c2 e).got = (csAfter a c1 e).got := by
    simp only [csAfter, hcs.2.2.2.2.1, hcs.2.2.2.2.2]
  have hh2 : HeaderOK c2 e := (headerOK_same hcs e).mp hh
  have hd2 : e.data.length = min (e.len - (csAfter b c2 e).got.length) s2.chunkSize := by
    rw [hgot, ← h.1]; exact hd
  rw [step_of b hev hl2 hh2 hd2, hgot, ← h.1]
  rcases hcase with ⟨hc, hctl, rfl, rfl⟩ | ⟨hc, rfl, rfl⟩
  · rw [if_pos hc, if_pos hctl]
    exact ⟨_, _, rfl, sameButTs_set h e.cid (c1 := csDone a c1 e) (c2 := csDone b c2 e) ⟨rfl, rfl, rfl, rfl, rfl, rfl⟩ _, rfl⟩
  · rw [if_neg hc]
    have hg2 : (csOpen a c1 e).got = (csOpen b c2 e).got := by simp only [csOpen, hgot]
    exact ⟨_, _, rfl, sameButTs_set h e.cid (c1 := csOpen a c1 e) (c2 := csOpen b c2 e) ⟨rfl, rfl, rfl, rfl, hg2, rfl⟩ _, rfl⟩

theorem map_noTs_optList (o1 o2 : Option Message) (h : o1.map noTs = o2.map noTs) :
    (optList o1).map noTs = (optList o2).map noTs := by
  cases o1 <;> cases o2 <;> simp_all [optList]

/-- Whole traces: both readings accept the same traces, with the same messages up to timestamps. -/
theorem run_sim (a b : Bool) : ∀ (tr : List ChunkEv) (s1 s2 s1' : Sender) (ms1 : List Message), SameButTs s1 s2 →
    run a s1 tr = some (s1', ms1) →
    ∃ s2' ms2, run b s2 tr = some (s2', ms2) ∧ SameButTs s1' s2' ∧ ms1.map noTs = ms2.map noTs := by
  intro tr
  induction tr with
  | nil =>
    intro s1 s2 s1' ms1 h hr
    simp only [run, Option.some.injEq, Prod.mk.injEq] at hr
    obtain ⟨rfl, rfl⟩ := hr
    exact ⟨s2, [], rfl, h, rfl⟩
  | cons e tr ih =>
    intro s1 s2 s1' ms1 h hr
    simp only [run] at hr
    cases hs : step a s1 e with
    | none => rw [hs] at hr; simp at hr
    | some r =>
      obtain ⟨t1, o1⟩ := r
      rw [hs] at hr
      simp only at hr
      cases hr1 : run a t1 tr with
      | none => rw [hr1] at hr; simp at hr
      | some r1 =>
        obtain ⟨u1, m1⟩ := r1
        rw [hr1] at hr
        simp only [Option.some.injEq, Prod.mk.injEq] at hr
        obtain ⟨rfl, rfl⟩ := hr
        obtain ⟨t2, o2, hs2, hsame, ho⟩ := step_sim a b h hs
        obtain ⟨u2, m2, hr2, hsame2, hm⟩ := ih t1 t2 u1 m1 hsame hr1
        refine ⟨u2, optList o2 ++ m2, ?_, hsame2, ?_⟩
        · simp only [run, hs2, hr2]
        · rw [List.map_append, List.map_append, hm, map_noTs_optList o1 o2 ho]

/-- "The last chunk completes a message" does not depend on the reading. -/
theorem endsA_sim (a b : Bool) : ∀ (tr : List ChunkEv) (s1 s2 : Sender), SameButTs s1 s2 →
    endsA a s1 tr = true → endsA b s2 tr = true := by
  intro tr
  induction tr with
  | nil => intro s1 s2 _ _; rfl
  | cons e tr ih =>
    intro s1 s2 h he
    simp only [endsA] at he ⊢
    cases hs : step a s1 e with
    | none => rw [hs] at he; simp at he
    | some r =>
      obtain ⟨t1, o1⟩ := r
      rw [hs] at he
      simp only at he
      obtain ⟨t2, o2, hs2, hsame, ho⟩ := step_sim a b h hs
      rw [hs2]
      simp only
      cases tr with
      | nil =>
        simp only [List.isEmpty_nil, if_true] at he ⊢
        cases o1 <;> cases o2 <;> simp_all
      | cons e2 tr2 =>
        simp only [List.isEmpty_cons, Bool.false_eq_true, if_false] at he ⊢
        exact ih t1 t2 hsame he

/-- Without extended delta the two readings give the same timestamp for an event … -/
theorem newTs_noExt (c : CsState) (e : ChunkEv)
    (hno : ¬ (16777215 ≤ e.tsField ∧ (e.fmt = 1 ∨ e.fmt = 2 ∨ (e.fmt = 3 ∧ c.busy = false)))) (hf : e.fmt ≤ 3) :
    newTs true c e = newTs false c e := by
  unfold newTs
  cases hb : c.busy with
  | true => simp
  | false =>
    simp only [Bool.false_eq_true, if_false]
    by_cases h0 : e.fmt = 0
    · simp [h0]
    · simp only [h0, if_false, true_and]
      by_cases hx : 16777215 ≤ e.tsField
      · exfalso; apply hno; refine ⟨hx, ?_⟩
        have : e.fmt = 1 ∨ e.fmt = 2 ∨ e.fmt = 3 := by omega
        rcases this with h | h | h
        · exact Or.inl h
        · exact Or.inr (Or.inl h)
        · exact Or.inr (Or.inr ⟨h, hb⟩)
      · simp [hx]


theorem lookup_busy {s : Sender} {e : ChunkEv} {c : CsState} (hl : lookup s e = some c) : s.busy e.cid = c.busy := by
  unfold lookup at hl
  unfold Sender.busy
  cases h1 : s.cs e.cid with
  | none =>
    rw [h1] at hl
    simp only at hl
    split at hl
    · simp only [Option.some.injEq] at hl; subst hl; rfl
    · simp at hl
  | some c0 =>
    rw [h1] at hl
    simp only [Option.some.injEq] at hl
    subst hl; rfl

/-- … hence the same step … -/
theorem step_noExt (s : Sender) (e : ChunkEv) (hno : ¬ UsesExtDelta s e) : step true s e = step false s e := by
  by_cases hev : EvOK e
  · cases hl : lookup s e with
    | none => simp [step, hev, hl]
    | some c =>
      have hb := lookup_busy hl
      have hts : newTs true c e = newTs false c e :=
        newTs_noExt c e (by rw [← hb]; exact hno) hev.2.1
      simp only [step, hev, hl, hts]
  · simp [step, hev]

/-- … and the same run: on traces without extended delta the deviating reading IS the specification. -/
theorem run_noExt : ∀ (tr : List ChunkEv) (s : Sender), noExtDeltaFrom s tr = true → run true s tr = run false s tr := by
  intro tr
  induction tr with
  | nil => intro s _; rfl
  | cons e tr ih =>
    intro s h
    simp only [noExtDeltaFrom, Bool.and_eq_true, Bool.not_eq_true', decide_eq_false_iff_not] at h
    simp only [run, step_noExt s e h.1]
    cases hs : step false s e with
    | none => rfl
    | some r =>
      obtain ⟨s1, o⟩ := r
      rw [hs] at h
      simp only [ih s1 h.2]

end Oryx.Rtmp
