/-
  RTMP: the reader's header parser inverts the writer's C0 / C3 headers.
-/
import Oryx.Proofs.Rtmp.Basic
namespace Oryx.Rtmp
open Oryx Oryx.Res

theorem hdr_split (a b d : Bytes) (t : UInt8) (ha : a.length = 3) (hb : b.length = 3) (hd : d.length = 4) :
    (a ++ b ++ [t] ++ d).take 3 = a ∧ ((a ++ b ++ [t] ++ d).drop 3).take 3 = b ∧
    ((a ++ b ++ [t] ++ d).drop 6).headD 0 = t ∧ ((a ++ b ++ [t] ++ d).drop 7).take 4 = d ∧
    (a ++ b ++ [t] ++ d).length = 11 := by
  match a, ha with
  | [a0, a1, a2], _ =>
    match b, hb with
    | [b0, b1, b2], _ =>
      match d, hd with
      | [d0, d1, d2, d3], _ => simp

/-- The 3-byte timestamp field of the C0 header. -/
def tsField (ts : Nat) : Bytes := if ts < Gen.Rtmp.extendedTimestamp then be 3 ts else [0xff, 0xff, 0xff]

theorem tsField_length (ts : Nat) : (tsField ts).length = 3 := by
  unfold tsField; split <;> simp

theorem ofBE_tsField (ts : Nat) :
    ofBE (tsField ts) = if ts < Gen.Rtmp.extendedTimestamp then ts else 16777215 := by
  unfold tsField
  split
  · rename_i h
    have : ts < 256 ^ 3 := by simp [Gen.Rtmp.extendedTimestamp] at h; omega
    exact ofBE_be_of_lt this
  · decide

theorem extTsBytes_length (ts : Nat) :
    (extTsBytes ts).length = if ts < Gen.Rtmp.extendedTimestamp then 0 else 4 := by
  unfold extTsBytes; split <;> simp

theorem c0Header_eq (m : Msg) :
    c0Header m = UInt8.ofNat (m.hdr.cid % 64) ::
      ((tsField m.hdr.ts ++ be 3 m.payload.length ++ [UInt8.ofNat m.hdr.ty] ++ le 4 m.hdr.sid) ++ extTsBytes m.hdr.ts) := by
  simp [c0Header, tsField]

/-- Reading the optional extended timestamp the writer appended. -/
theorem readExt (ts : Nat) (hts : ts < 2147483648) (h : Header) (rest : Bytes) :
    ((if decide (ts ≥ Gen.Rtmp.extendedTimestamp) then do
        let (e, bs) ← readFull 4 (extTsBytes ts ++ rest)
        pure ({ h with ts := ofBE e % 2147483648 }, bs)
      else pure (h, extTsBytes ts ++ rest) : Res (Header × Bytes)))
    = ok ((if ts ≥ Gen.Rtmp.extendedTimestamp then { h with ts := ts } else h), rest) := by
  by_cases hx : ts ≥ Gen.Rtmp.extendedTimestamp
  · have hnl : ¬ ts < Gen.Rtmp.extendedTimestamp := Nat.not_lt.mpr hx
    have e : readFull 4 (extTsBytes ts ++ rest) = ok (be 4 ts, rest) := by
      simp only [extTsBytes, hnl, if_false]
      exact readFull_append _ _ (be_length 4 ts)
    have h4 : ofBE (be 4 ts) = ts := ofBE_be_of_lt (by omega)
    simp [hx, e, h4, Nat.mod_eq_of_lt hts]
  · have hl : ts < Gen.Rtmp.extendedTimestamp := Nat.lt_of_not_ge hx
    simp [hx, extTsBytes, hl]

/-- The header the reader holds after the first (type-0) chunk header of `m`. -/
def hdrOf (m : Msg) : Header := (received m).hdr

theorem readMessageHeader_c0 (c : ChunkStream) (m : Msg) (hm : m.WF) (hc : c.msg = none)
    (hcid : c.hdr.cid = m.hdr.cid) (rest : Bytes) :
    readMessageHeader c 0
      ((tsField m.hdr.ts ++ be 3 m.payload.length ++ [UInt8.ofNat m.hdr.ty] ++ le 4 m.hdr.sid) ++ extTsBytes m.hdr.ts ++ rest)
    = ok ({ c with hdr := hdrOf m, msg := some { hdr := hdrOf m, payload := [] },
                   count := c.count + 1, extTs := decide (m.hdr.ts ≥ Gen.Rtmp.extendedTimestamp) }, rest) := by
  obtain ⟨s3, s33, s6, s7, s11⟩ := hdr_split (tsField m.hdr.ts) (be 3 m.payload.length) (le 4 m.hdr.sid)
    (UInt8.ofNat m.hdr.ty) (tsField_length _) (be_length _ _) (le_length _ _)
  have hsz : headerSize 0 = ok 11 := by simp [headerSize, idx, Gen.Rtmp.messageHeaderSizes]
  have hlen : ofBE (be 3 m.payload.length) = m.payload.length := ofBE_be_of_lt (by have := hm.len_lt; omega)
  have hsid : ofLE (le 4 m.hdr.sid) = m.hdr.sid := ofLE_le_of_lt (by have := hm.sid; omega)
  have hty : (UInt8.ofNat m.hdr.ty).toNat = m.hdr.ty := u8_ofNat_toNat_lt hm.ty
  simp only [readMessageHeader, hc, Option.isNone_none, Option.isSome_none, hsz, Res.bind_ok]
  rw [List.append_assoc, readFull_append _ _ s11]
  simp only [Res.bind_ok, applyHeader, s3, s33, s6, s7, ofBE_tsField, hlen, hsid, hty]
  by_cases hx : m.hdr.ts < Gen.Rtmp.extendedTimestamp
  · have hge : ¬ m.hdr.ts ≥ Gen.Rtmp.extendedTimestamp := Nat.not_le.mpr hx
    have hmod : m.hdr.ts % 2147483648 = m.hdr.ts := Nat.mod_eq_of_lt hm.ts
    simp [hx, hge, extTsBytes, hdrOf, received, hcid, hmod]
  · have hge : m.hdr.ts ≥ Gen.Rtmp.extendedTimestamp := Nat.le_of_not_lt hx
    have hnl : ¬ (16777215 < Gen.Rtmp.extendedTimestamp) := by decide
    have hge' : 16777215 ≥ Gen.Rtmp.extendedTimestamp := by decide
    have e : readFull 4 (extTsBytes m.hdr.ts ++ rest) = ok (be 4 m.hdr.ts, rest) := by
      simp only [extTsBytes, hx, if_false]
      exact readFull_append _ _ (be_length 4 _)
    have h4 : ofBE (be 4 m.hdr.ts) = m.hdr.ts := ofBE_be_of_lt (by have := hm.ts; omega)
    have hmod : m.hdr.ts % 2147483648 = m.hdr.ts := Nat.mod_eq_of_lt hm.ts
    simp [hx, hge, hge', e, h4, hdrOf, received, hcid, hmod]

/-- A continuation (type-3) chunk header of `m` on a chunk stream holding a partial `m`. -/
theorem readMessageHeader_c3 (c : ChunkStream) (m : Msg) (hm : m.WF) (pre : Bytes)
    (hmsg : c.msg = some { hdr := hdrOf m, payload := pre }) (hh : c.hdr = hdrOf m)
    (hext : c.extTs = decide (m.hdr.ts ≥ Gen.Rtmp.extendedTimestamp)) (hcount : c.count ≠ 0) (rest : Bytes) :
    readMessageHeader c 3 (extTsBytes m.hdr.ts ++ rest)
    = ok ({ c with count := c.count + 1 }, rest) := by
  have hsz : headerSize 3 = ok 0 := by simp [headerSize, idx, Gen.Rtmp.messageHeaderSizes]
  have hmod : m.hdr.ts % 2147483648 = m.hdr.ts := Nat.mod_eq_of_lt hm.ts
  have hts : (hdrOf m).ts = m.hdr.ts := rfl
  simp only [readMessageHeader, hmsg, hcount, Option.isNone_some, Option.isSome_some, hsz, Res.bind_ok]
  have e0 : readFull 0 (extTsBytes m.hdr.ts ++ rest) = ok ([], extTsBytes m.hdr.ts ++ rest) := by simp [readFull]
  simp only [false_and, if_false, e0, Res.bind_ok, applyHeader]
  by_cases hx : m.hdr.ts < Gen.Rtmp.extendedTimestamp
  · have hge : ¬ m.hdr.ts ≥ Gen.Rtmp.extendedTimestamp := Nat.not_le.mpr hx
    simp [hext, hge, extTsBytes, hx, hh, hts, hmod]
    cases c; simp_all [hdrOf, received]
  · have hge : m.hdr.ts ≥ Gen.Rtmp.extendedTimestamp := Nat.le_of_not_lt hx
    have e : readFull 4 (extTsBytes m.hdr.ts ++ rest) = ok (be 4 m.hdr.ts, rest) := by
      simp only [extTsBytes, hx, if_false]
      exact readFull_append _ _ (be_length 4 _)
    have h4 : ofBE (be 4 m.hdr.ts) = m.hdr.ts := ofBE_be_of_lt (by have := hm.ts; omega)
    simp [hext, hge, e, h4, hh, hmod]
    cases c; simp_all [hdrOf, received]

end Oryx.Rtmp
