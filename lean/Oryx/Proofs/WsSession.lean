/-
  C13_session: what the writer model puts on the wire, read by the reader model of the peer, comes back
  as the same sequence of (type, payload). Composition of `writer_wire` (Proofs.WsWrite), the reader's
  refinement of the spec receiver (Proofs.WsRead) and a fact about the spec receiver itself.
-/
import Oryx.Proofs.WsWrite
import Oryx.Proofs.WsRead
namespace Oryx.WsSession
open Oryx Oryx.Gen.Websocket Oryx.Spec.Ws Oryx.WsWrite

/-- A writer frame violates nothing from the point of view of a receiver of the opposite role. -/
theorem isOut_noViolation {isServer : Bool} {op : Nat} {r1 fin : Bool} {f : Frame} (h : IsOut isServer op r1 fin f)
    (deflate inMsg : Bool) (hlen : f.payload.length < 2 ^ 63)
    (hr1 : r1 = true → deflate = true ∧ Spec.Ws.isDataStart op = true)
    (hop : (op = continuationFrame ∧ inMsg = true) ∨ (Spec.Ws.isDataStart op = true ∧ inMsg = false)) :
    Spec.Ws.violation (WsRead.roleOf (!isServer)) deflate inMsg f = false := by
  obtain ⟨key, payload, rfl, hk⟩ := h
  have hl : ¬ (2 ^ 63 ≤ payload.length) := by simpa [outFrame] using Nat.not_le.mpr hlen
  have hmask : ((!isServer) != (WsRead.roleOf (!isServer) == Role.server)) = false := by cases isServer <;> rfl
  unfold Spec.Ws.violation
  simp only [outFrame]
  rcases hop with ⟨h0, hin⟩ | ⟨hd, hin⟩
  · subst h0; subst hin
    have hr : r1 = false := by
      cases r1
      · rfl
      · have := (hr1 rfl).2; simp [Spec.Ws.isDataStart, continuationFrame] at this
    subst hr
    simp [hmask, hl, Spec.Ws.knownOpcode, Spec.Ws.isControl, Spec.Ws.isDataStart, continuationFrame]
  · subst hin
    have hk' : Spec.Ws.knownOpcode op = true := by simp [Spec.Ws.knownOpcode, hd]
    have hnc : Spec.Ws.isControl op = false := by
      simp only [Spec.Ws.isDataStart, Bool.or_eq_true, beq_iff_eq] at hd
      rcases hd with h | h <;> simp [h, Spec.Ws.isControl]
    have hn0 : (op == 0) = false := by
      simp only [Spec.Ws.isDataStart, Bool.or_eq_true, beq_iff_eq] at hd
      rcases hd with h | h <;> simp [h]
    have hn8 : (op == 8) = false := by
      simp only [Spec.Ws.isDataStart, Bool.or_eq_true, beq_iff_eq] at hd
      rcases hd with h | h <;> simp [h]
    cases r1
    · simp [hmask, hl, hk', hnc, hn0, hn8, hd]
    · obtain ⟨hdf, _⟩ := hr1 rfl
      simp [hmask, hl, hk', hnc, hn0, hn8, hd, hdf]


/-- The spec receiver on the continuation frames (positions `k ≥ 1` on) of one writer message. -/
theorem recv_tail {isServer : Bool} {ty : Nat} {cz : Bool} (deflate : Bool) (cap total : Nat) (rest : List Frame) :
    ∀ (fs : List Frame) (k : Nat) (o : Open), 1 ≤ k → fs ≠ [] → total = k + fs.length →
      (∀ (i : Nat) (f : Frame), fs[i]? = some f →
        IsOut isServer (if k + i = 0 then ty else continuationFrame) (k + i == 0 && cz) (k + i + 1 == total) f ∧
        f.payload.length < 2 ^ 63) →
      o.total + (fs.map (·.payload)).flatten.length ≤ cap →
      recvFrom (WsRead.roleOf (!isServer)) deflate cap (some o) (fs ++ rest) =
        { recvFrom (WsRead.roleOf (!isServer)) deflate cap none rest with
            msgs := { ty := o.ty, compressed := o.compressed, data := o.acc ++ (fs.map (·.payload)).flatten } ::
              (recvFrom (WsRead.roleOf (!isServer)) deflate cap none rest).msgs } := by
  intro fs
  induction fs with
  | nil => intro k o _ h; exact absurd rfl h
  | cons f fs' ih =>
    intro k o hk _ htot hall hcap
    obtain ⟨hout, hlen⟩ := hall 0 f rfl
    simp only [Nat.add_zero] at hout
    have hk0 : ¬ k = 0 := by omega
    rw [if_neg hk0] at hout
    have hr1 : (k == 0 && cz) = false := by simp [hk0]
    rw [hr1] at hout
    have hv : Spec.Ws.violation (WsRead.roleOf (!isServer)) deflate (Option.isSome (some o)) f = false :=
      isOut_noViolation hout deflate true hlen (by intro h; cases h) (Or.inl ⟨rfl, rfl⟩)
    obtain ⟨key, payload, hf, _⟩ := hout
    have hop : f.opcode = 0 := by rw [hf]; rfl
    have hflen : f.len = f.payload.length := by rw [hf]; rfl
    have hfin : f.fin = (k + 1 == total) := by rw [hf]; rfl
    have hstep := WsRead.recvFrom_data (WsRead.roleOf (!isServer)) deflate cap (some o) f (fs' ++ rest) hv (Or.inl hop)
    have htotal : (WsRead.openAfter (some o) f).total = o.total + f.len := rfl
    have hnotover : ¬ cap < (WsRead.openAfter (some o) f).total := by
      rw [htotal, hflen]
      simp only [List.map_cons, List.flatten_cons, List.length_append] at hcap
      omega
    rw [if_neg hnotover] at hstep
    show recvFrom _ _ _ (some o) (f :: (fs' ++ rest)) = _
    rw [hstep]
    cases fs' with
    | nil =>
      have hf1 : f.fin = true := by rw [hfin]; simp at htot; simp; omega
      rw [if_pos hf1]
      simp [WsRead.openAfter]
    | cons g gs =>
      have hf0 : ¬ f.fin = true := by rw [hfin]; simp at htot; simp; omega
      rw [if_neg hf0]
      have hih := ih (k + 1) (WsRead.openAfter (some o) f) (by omega) (by simp) (by simp at htot ⊢; omega)
        (by
          intro i f' hf'
          have := hall (i + 1) f' (by simpa using hf')
          have e : k + (i + 1) = k + 1 + i := by omega
          rw [e] at this; exact this)
        (by
          rw [htotal, hflen]
          simp only [List.map_cons, List.flatten_cons, List.length_append] at hcap ⊢
          omega)
      rw [hih]
      simp [WsRead.openAfter, List.append_assoc]

/-- **The spec receiver on one writer message** followed by anything: the message (type, compressed
flag, concatenated payload) is delivered first, no replies, and reception goes on with the rest. -/
theorem recv_message {isServer : Bool} {ty : Nat} {cz : Bool} (deflate : Bool) (cap : Nat)
    (frames rest : List Frame) (hty : ty = TextMessage ∨ ty = BinaryMessage) (hdef : cz = true → deflate = true)
    (hs : MsgShape isServer ty cz frames) (hl : ∀ f ∈ frames, f.payload.length < 2 ^ 63)
    (hcap : (frames.map (·.payload)).flatten.length ≤ cap) :
    recvFrom (WsRead.roleOf (!isServer)) deflate cap none (frames ++ rest) =
      { recvFrom (WsRead.roleOf (!isServer)) deflate cap none rest with
          msgs := { ty := ty, compressed := cz, data := (frames.map (·.payload)).flatten } ::
            (recvFrom (WsRead.roleOf (!isServer)) deflate cap none rest).msgs } := by
  obtain ⟨hne, hall⟩ := hs
  cases frames with
  | nil => exact absurd rfl hne
  | cons f fs' =>
    have hout := hall 0 f rfl
    simp only [if_true, beq_self_eq_true, Bool.true_and, Nat.zero_add] at hout
    have hlen := hl f (by simp)
    have hv : Spec.Ws.violation (WsRead.roleOf (!isServer)) deflate (Option.isSome (none : Option Open)) f = false :=
      isOut_noViolation hout deflate false hlen (fun h => ⟨hdef h, isDataStart_ty hty⟩) (Or.inr ⟨isDataStart_ty hty, rfl⟩)
    obtain ⟨key, payload, hf, _⟩ := hout
    have hop : f.opcode = ty := by rw [hf]; rfl
    have hflen : f.len = f.payload.length := by rw [hf]; rfl
    have hrsv : f.rsv1 = cz := by rw [hf]; rfl
    have hfin : f.fin = (1 == (f :: fs').length) := by rw [hf]; rfl
    have hop3 : f.opcode = 0 ∨ f.opcode = 1 ∨ f.opcode = 2 := by
      rw [hop]; rcases hty with h | h <;> simp [h, TextMessage, BinaryMessage]
    have hstep := WsRead.recvFrom_data (WsRead.roleOf (!isServer)) deflate cap none f (fs' ++ rest) hv hop3
    have htotal : (WsRead.openAfter none f).total = f.len := rfl
    have hnotover : ¬ cap < (WsRead.openAfter none f).total := by
      rw [htotal, hflen]
      simp only [List.map_cons, List.flatten_cons, List.length_append] at hcap
      omega
    rw [if_neg hnotover] at hstep
    show recvFrom _ _ _ none (f :: (fs' ++ rest)) = _
    rw [hstep]
    cases fs' with
    | nil =>
      have hf1 : f.fin = true := by rw [hfin]; simp
      rw [if_pos hf1]
      simp [WsRead.openAfter, hop, hrsv]
    | cons g gs =>
      have hf0 : ¬ f.fin = true := by rw [hfin]; simp
      rw [if_neg hf0]
      have htail := recv_tail (isServer := isServer) (ty := ty) (cz := cz) deflate cap (f :: g :: gs).length rest
        (g :: gs) 1 (WsRead.openAfter none f) (by omega) (by simp) (by simp; omega)
        (by
          intro i f' hf'
          have := hall (i + 1) f' (by simpa using hf')
          have e : 1 + i = i + 1 := by omega
          refine ⟨?_, hl f' (List.mem_of_getElem? (by simpa using hf' : (f :: g :: gs)[i + 1]? = some f'))⟩
          rw [e]; simpa using this)
        (by
          rw [htotal, hflen]
          simp only [List.map_cons, List.flatten_cons, List.length_append] at hcap ⊢
          omega)
      rw [htail]
      simp [WsRead.openAfter, hop, hrsv]

/-- what one written message must look like on the receiving side -/
def expected (deflate : Bool) (m : Nat × List WOp) : Spec.Ws.Msg :=
  { ty := m.1, compressed := deflate, data := (m.2.map WOp.data).flatten }

/-- the frames a message turned into -/
def Carries (isServer deflate : Bool) (m : Nat × List WOp) (fr : List Frame) : Prop :=
  MsgShape isServer m.1 deflate fr ∧ (fr.map (·.payload)).flatten = (m.2.map WOp.data).flatten ∧ (∀ f ∈ fr, f.WF)

/-- message list and frame-group list correspond position by position -/
inductive AllCarry (isServer deflate : Bool) : List (Nat × List WOp) → List (List Frame) → Prop where
  | nil : AllCarry isServer deflate [] []
  | cons {m fr ms frs} : Carries isServer deflate m fr → AllCarry isServer deflate ms frs →
      AllCarry isServer deflate (m :: ms) (fr :: frs)

theorem nextWriter_data (c : WConn) (ty : Nat) (hw : c.writer = none) (hE : c.writeErr = none)
    (hty : ty = TextMessage ∨ ty = BinaryMessage) :
    nextWriter c ty =
      ({ c with writer := some { compress := c.deflate, buf := [], frameType := ty } },
       .ok { compress := c.deflate, buf := [], frameType := ty }) := by
  have hdata : isData ty = true := by rcases hty with h | h <;> simp [h, isData, TextMessage, BinaryMessage]
  have hnc : WsWrite.isControl ty = false := by
    rcases hty with h | h <;> simp [h, WsWrite.isControl, TextMessage, BinaryMessage, CloseMessage, PingMessage, PongMessage]
  simp [nextWriter, prepWrite, hw, hnc, hdata, hE]

/-- **Writer side of a session.** Every message of the list goes out without error; the wire grows by the
wire images of one well-shaped frame group per message, in order. -/
theorem writeMsgs_wire (msgs : List (Nat × List WOp)) :
    ∀ (c : WConn), c.writer = none → c.writeErr = none → 1 ≤ c.bufSize → (∀ k ∈ c.keys, k.length = 4) →
      (∀ m ∈ msgs, (m.1 = TextMessage ∨ m.1 = BinaryMessage) ∧ (m.2.map WOp.data).flatten.length < 2 ^ 63) →
      ∃ c' framess, writeMsgs c msgs = (c', none) ∧ c'.wire = c.wire ++ serialiseAll framess.flatten ∧
        AllCarry c.isServer c.deflate msgs framess := by
  induction msgs with
  | nil => intro c _ _ _ _ _; exact ⟨c, [], rfl, by simp [serialiseAll], AllCarry.nil⟩
  | cons m rest ih =>
    intro c hw hE hB hK hall
    obtain ⟨hty, hlen⟩ := hall m (by simp)
    obtain ⟨ty, ops⟩ := m
    simp only at hty hlen
    have hnw := nextWriter_data c ty hw hE hty
    obtain ⟨c1, w1, c2, w2, frames, h1, h2, h3, _, h5, h6, h7, h8, h9, h10, h11, h12, h13⟩ :=
      writer_wire { c with writer := some { compress := c.deflate, buf := [], frameType := ty } } ty c.deflate hty
        hB hE hK ops c.deflate (fun h => h) hlen
    obtain ⟨c', framess, r1, r2, r3⟩ := ih c2 h12 h8 (by rw [h10]; exact hB) h11
      (fun m hm => hall m (by simp [hm]))
    refine ⟨c', frames :: framess, ?_, ?_, ?_⟩
    · simp only [writeMsgs, writeMsg, hnw, h1, h2]; exact r1
    · rw [r2, h3]
      show c.wire ++ _ ++ _ = _
      simp [serialiseAll_eq_flatten, List.append_assoc]
    · refine AllCarry.cons ⟨h6, h5, h7⟩ ?_
      have e1 : c2.isServer = c.isServer := h9
      have e2 : c2.deflate = c.deflate := h13
      rw [e1, e2] at r3; exact r3

/-- **Receiver side of a session** (spec): the frame groups of well-shaped messages are received as exactly
those messages, without replies, and the receiver is still open at the end. -/
theorem recv_messages (isServer deflate : Bool) (cap : Nat) (msgs : List (Nat × List WOp)) (framess : List (List Frame))
    (h : AllCarry isServer deflate msgs framess)
    (hall : ∀ m ∈ msgs, (m.1 = TextMessage ∨ m.1 = BinaryMessage) ∧ (m.2.map WOp.data).flatten.length ≤ cap ∧
      (m.2.map WOp.data).flatten.length < 2 ^ 63) :
    recvFrom (WsRead.roleOf (!isServer)) deflate cap none framess.flatten =
      { msgs := msgs.map (expected deflate), replies := [], fin := .more } := by
  induction h with
  | nil => simp [recvFrom]
  | @cons m fr msgs' framess' hc _ ih =>
    obtain ⟨hs, hp, _⟩ := hc
    obtain ⟨hty, hcap, hlt⟩ := hall m (by simp)
    have hl : ∀ f ∈ fr, f.payload.length < 2 ^ 63 := by
      intro f hf
      have := payload_le_flatten fr f hf
      rw [hp] at this; omega
    have := recv_message (isServer := isServer) deflate cap fr framess'.flatten hty (fun h => h) hs hl (by rw [hp]; exact hcap)
    simp only [List.flatten_cons]
    rw [this, ih (fun m hm => hall m (by simp [hm]))]
    simp [expected, hp]

/-- **Session theorem.** Whatever the writer model (either role, any buffer size ≥ 1, compression
negotiated or not, any masking keys) writes for a list of data messages through any mix and partition
of calls, the reader model of the peer — fed exactly that wire — delivers the same list of
(type, compressed flag, payload), writes nothing back, and then sees the end of the stream. -/
theorem session_roundtrip (isServer deflate : Bool) (B : Nat) (hB : 1 ≤ B) (keys : List Bytes)
    (hK : ∀ k ∈ keys, k.length = 4) (msgs : List (Nat × List WOp))
    (hall : ∀ m ∈ msgs, (m.1 = TextMessage ∨ m.1 = BinaryMessage) ∧ (m.2.map WOp.data).flatten.length < 2 ^ 63) :
    let c0 : WConn := { isServer := isServer, bufSize := B, deflate := deflate, keys := keys }
    (writeMsgs c0 msgs).2 = none ∧
    ∃ t, WsRead.session (WsRead.init (!isServer) deflate 0 (writeMsgs c0 msgs).1.wire) = some t ∧
      t.msgs = msgs.map (fun m => WsRead.conv (expected deflate m)) ∧ t.final.replies = [] ∧ t.err = .ueof := by
  intro c0
  obtain ⟨c', framess, h1, h2, h3⟩ := writeMsgs_wire msgs c0 rfl rfl hB hK hall
  have hwire : c'.wire = serialiseAll framess.flatten := by
    rw [h2]; simp [c0, WConn.wire]
  have hwfAll : ∀ (ms : List (Nat × List WOp)) (frs : List (List Frame)), AllCarry isServer deflate ms frs →
      ∀ f ∈ frs.flatten, f.WF := by
    intro ms frs hcar
    induction hcar with
    | nil => intro f hf; simp at hf
    | @cons m fr' ms' frs' hc _ ih =>
      intro f hf
      simp only [List.flatten_cons, List.mem_append] at hf
      rcases hf with hf | hf
      · exact hc.2.2 f hf
      · exact ih f hf
  have hwf : ∀ f ∈ framess.flatten, f.WF := hwfAll msgs framess h3
  have hb : WsRead.Bnd (WsRead.init (!isServer) deflate 0 (serialiseAll framess.flatten)) :=
    ⟨rfl, rfl, rfl, by show (0 : Int) ≤ 0; decide, by show (0 : Int) < 2 ^ 63; decide,
     by show (0 : Int) ≤ 0; decide, by show (0 : Int) < 2 ^ 63; decide⟩
  obtain ⟨t, t1, t2, t3, t4, _⟩ := WsRead.sessionLoop_frames framess.flatten.length framess.flatten (Nat.le_refl _) hwf
    (WsRead.init (!isServer) deflate 0 (serialiseAll framess.flatten)) _ [] hb rfl rfl (Nat.le_refl _)
  have hrecv := recv_messages isServer deflate (WsRead.capOf 0) msgs framess h3
    (fun m hm => ⟨(hall m hm).1, by have := (hall m hm).2; show _ ≤ 2 ^ 63 - 1; omega, (hall m hm).2⟩)
  have e0 : WsRead.specRecv (WsRead.init (!isServer) deflate 0 (serialiseAll framess.flatten)) none framess.flatten =
      recvFrom (WsRead.roleOf (!isServer)) deflate (WsRead.capOf 0) none framess.flatten := rfl
  rw [e0, hrecv] at t2 t3 t4
  refine ⟨by rw [h1], t, ?_, ?_, ?_, ?_⟩
  · rw [h1, hwire]; exact t1
  · rw [t2]; simp
  · rw [t3]; rfl
  · exact t4

end Oryx.WsSession
