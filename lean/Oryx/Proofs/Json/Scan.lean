/-
  Helper lemmas for C17, part 3: the split function is stable under extension of the data, the EOF
  loop does not depend on surplus fuel, and the chunked Scanner loop equals the one-shot EOF loop.
-/
import Oryx.Proofs.Json.First
set_option linter.unusedSimpArgs false
namespace Oryx.Json
open Oryx

/-! ### scanFirst: bounds and stability -/

/-- Length of JSON+ start marker `i`. -/
def startLen (i : Nat) : Nat := (jsonPlus.starts[i]?.getD []).length

theorem startLen_vals : startLen 0 = 1 ∧ startLen 1 = 1 ∧ startLen 2 = 2 ∧ startLen 3 = 2 := by decide

theorem scanFirst_bound : ∀ {d : Bytes} {p i : Nat}, scanFirst d = some (p, i) →
    i < 4 ∧ 1 ≤ startLen i ∧ p + startLen i ≤ d.length
  | [], p, i, h => by simp [scanFirst] at h
  | b :: t, p, i, h => by
    obtain ⟨s0, s1, s2, s3⟩ := startLen_vals
    by_cases hb : b = 39
    · simp [scanFirst, hb] at h; obtain ⟨rfl, rfl⟩ := h
      exact ⟨by decide, by omega, by simp only [List.length_cons]; omega⟩
    by_cases hb2 : b = 34
    · simp [scanFirst, hb, hb2] at h; obtain ⟨rfl, rfl⟩ := h
      exact ⟨by decide, by omega, by simp only [List.length_cons]; omega⟩
    cases t with
    | nil => simp [scanFirst, hb, hb2] at h
    | cons c t' =>
      by_cases h1 : b = 47 ∧ c = 47
      · simp [scanFirst, hb, hb2, h1] at h; obtain ⟨rfl, rfl⟩ := h
        exact ⟨by decide, by omega, by simp only [List.length_cons]; omega⟩
      by_cases h2 : b = 47 ∧ c = 42
      · simp [scanFirst, hb, hb2, h1, h2] at h; obtain ⟨rfl, rfl⟩ := h
        exact ⟨by decide, by omega, by simp only [List.length_cons]; omega⟩
      have e : scanFirst (b :: c :: t') = (scanFirst (c :: t')).map sh := by
        rw [scanFirst]; simp only [hb, hb2, List.head?_cons, Option.some.injEq, h1, h2, if_false]
      rw [e] at h
      cases hs : scanFirst (c :: t') with
      | none => simp [hs] at h
      | some r =>
        obtain ⟨p', i'⟩ := r
        simp [hs, sh] at h
        obtain ⟨rfl, rfl⟩ := h
        obtain ⟨k1, k2, k3⟩ := scanFirst_bound hs
        exact ⟨k1, k2, by simp only [List.length_cons] at k3 ⊢; omega⟩

theorem scanFirst_append_stable : ∀ {d : Bytes} {r : Nat × Nat}, scanFirst d = some r → ∀ x, scanFirst (d ++ x) = some r
  | [], r, h, _ => by simp [scanFirst] at h
  | b :: t, r, h, x => by
    by_cases hb : b = 39
    · simp [scanFirst, hb] at h ⊢; exact h
    by_cases hb2 : b = 34
    · simp [scanFirst, hb, hb2] at h ⊢; exact h
    cases t with
    | nil => simp [scanFirst, hb, hb2] at h
    | cons c t' =>
      by_cases h1 : b = 47 ∧ c = 47
      · simp [scanFirst, hb, hb2, h1] at h ⊢; exact h
      by_cases h2 : b = 47 ∧ c = 42
      · simp [scanFirst, hb, hb2, h1, h2] at h ⊢; exact h
      have e : ∀ y, scanFirst (b :: c :: y) = (scanFirst (c :: y)).map sh := by
        intro y; rw [scanFirst]; simp only [hb, hb2, List.head?_cons, Option.some.injEq, h1, h2, if_false]
      rw [e] at h
      rw [List.cons_append, List.cons_append, e]
      cases hs : scanFirst (c :: t') with
      | none => simp [hs] at h
      | some r' =>
        simp [hs] at h
        have := scanFirst_append_stable hs x
        rw [List.cons_append] at this
        simp [this, h]

/-! ### the split function under extension of the data -/

theorem split_nil_eof (T : Tables) : split T [] true = .more := by simp [split]

/-- With `atEOF = false` the split function never fails. -/
theorem split_false_ne_fail (T : Tables) (d : Bytes) : split T d false ≠ .fail := by
  unfold split
  simp only [Bool.false_and, Bool.false_eq_true, if_false]
  repeat' split
  all_goals simp

/-- A token delivered before EOF is delivered unchanged — same advance, same bytes — whatever data
follows and whether or not EOF has been seen: a longer prefix never reveals an earlier match. -/
theorem split_stable {d : Bytes} {adv : Nat} {tok : Bytes} (h : split jsonPlus d false = .token adv tok)
    (x : Bytes) (e : Bool) :
    split jsonPlus (d ++ x) e = .token adv tok ∧ 0 < adv ∧ adv ≤ d.length := by
  unfold split at h
  simp only [Bool.false_and, Bool.false_eq_true, if_false, firstMatch_eq_scanFirst] at h
  cases hs : scanFirst d with
  | none => simp [hs] at h
  | some r =>
    obtain ⟨pos, i⟩ := r
    simp only [hs] at h
    obtain ⟨_, hlen1, hlen⟩ := scanFirst_bound hs
    simp only [startLen] at hlen1 hlen
    cases he : indexEnd (d.drop (pos + (jsonPlus.starts[i]?.getD []).length)) (jsonPlus.ends[i]?.getD [])
        (!jsonPlus.isComment[i]?.getD false) with
    | none => simp [he] at h
    | some extra =>
      simp only [he, Split.token.injEq] at h
      obtain ⟨hadv, htok⟩ := h
      subst hadv
      subst htok
      have hb := indexEnd_bound he
      simp only [List.length_drop] at hb
      have hadvle : pos + (jsonPlus.starts[i]?.getD []).length + extra + (jsonPlus.ends[i]?.getD []).length ≤ d.length := by omega
      have hne : (d ++ x).isEmpty = false := by
        cases d with
        | nil => simp [scanFirst] at hs
        | cons _ _ => rfl
      refine ⟨?_, by omega, hadvle⟩
      unfold split
      simp only [hne, Bool.and_false, Bool.false_eq_true, if_false, firstMatch_eq_scanFirst,
        scanFirst_append_stable hs x]
      have hdrop : (d ++ x).drop (pos + (jsonPlus.starts[i]?.getD []).length) =
          d.drop (pos + (jsonPlus.starts[i]?.getD []).length) ++ x := List.drop_append_of_le_length hlen
      simp only [hdrop, indexEnd_append_stable he x]
      have t1 : (d ++ x).take pos = d.take pos := List.take_append_of_le_length (by omega)
      rw [t1, List.take_append_of_le_length hadvle]

/-! ### the EOF loop and surplus fuel -/

theorem scanEOF_succ (T : Tables) : ∀ (n : Nat) (d : Bytes), d.length < n → scanEOF T n d = scanEOF T (n + 1) d
  | 0, _, h => by omega
  | n + 1, d, h => by
    rw [scanEOF, scanEOF]
    cases hsp : split T d true with
    | more => rfl
    | fail => rfl
    | token adv tok =>
      simp only
      by_cases ha : adv = 0
      · simp [ha]
      · have hd : d ≠ [] := by
          intro hd; subst hd; rw [split_nil_eof] at hsp; cases hsp
        have hl : 0 < d.length := List.length_pos_iff.mpr hd
        have : (d.drop adv).length < n := by simp only [List.length_drop]; omega
        simp only [ha, if_false, scanEOF_succ T n _ this]

theorem scanEOF_mono (T : Tables) (d : Bytes) {n m : Nat} (hn : d.length < n) (hm : n ≤ m) :
    scanEOF T n d = scanEOF T m d := by
  induction m with
  | zero => omega
  | succ m ih =>
    by_cases h : n = m + 1
    · subst h; rfl
    · rw [ih (by omega), scanEOF_succ T m d (by omega)]

/-! ### any segmentation = one read -/

theorem scan_eq : ∀ (n : Nat) (buf : Bytes) (chunks : List Bytes),
    2 * buf.length + 2 * chunks.flatten.length + chunks.length + 2 ≤ n →
    scan jsonPlus n buf chunks =
      scanEOF jsonPlus ((buf ++ chunks.flatten).length + 1) (buf ++ chunks.flatten)
  | 0, _, _, h => by omega
  | n + 1, buf, chunks, h => by
    rw [scan.eq_def]
    simp only []
    cases hb : buf with
    | nil =>
      simp only [List.isEmpty_nil, if_true, List.nil_append]
      subst hb
      cases chunks with
      | nil =>
        simp only [List.flatten_nil, List.length_nil, List.length_cons] at h ⊢
        exact (scanEOF_mono jsonPlus [] (n := 1) (m := n) (by simp) (by omega)).symm
      | cons c cs =>
        simp only [List.flatten_cons, List.length_cons, List.length_append, List.length_nil] at h ⊢
        have := scan_eq n c cs (by omega)
        simpa using this
    | cons b0 t0 =>
      rw [← hb]
      have hne : buf.isEmpty = false := by subst hb; rfl
      simp only [hne, Bool.false_eq_true, if_false]
      cases hsp : split jsonPlus buf false with
      | fail => exact absurd hsp (split_false_ne_fail _ _)
      | token adv tok =>
        obtain ⟨hst, hpos, hle⟩ := split_stable hsp chunks.flatten true
        have ha : adv ≠ 0 := by omega
        simp only [ha, if_false]
        have ih := scan_eq n (buf.drop adv) chunks (by simp only [List.length_drop]; omega)
        have hdrop : (buf ++ chunks.flatten).drop adv = buf.drop adv ++ chunks.flatten :=
          List.drop_append_of_le_length hle
        have rhs : scanEOF jsonPlus ((buf ++ chunks.flatten).length + 1) (buf ++ chunks.flatten) =
            (tok ++ (scanEOF jsonPlus (buf ++ chunks.flatten).length (buf.drop adv ++ chunks.flatten)).1,
             (scanEOF jsonPlus (buf ++ chunks.flatten).length (buf.drop adv ++ chunks.flatten)).2) := by
          rw [scanEOF, hst]; simp only [ha, if_false, hdrop]
        have mono := scanEOF_mono jsonPlus (buf.drop adv ++ chunks.flatten)
          (n := (buf.drop adv ++ chunks.flatten).length + 1) (m := (buf ++ chunks.flatten).length)
          (by omega) (by simp only [List.length_append, List.length_drop]; omega)
        rw [rhs, ih, mono]
      | more =>
        simp only
        cases chunks with
        | nil =>
          simp only [List.flatten_nil, List.append_nil, List.length_nil] at h ⊢
          exact (scanEOF_mono jsonPlus buf (n := buf.length + 1) (m := n) (by omega) (by omega)).symm
        | cons c cs =>
          simp only [List.flatten_cons, List.length_cons, List.length_append] at h ⊢
          have := scan_eq n (buf ++ c) cs (by simp only [List.length_append]; omega)
          simpa [List.append_assoc] using this


/-! ### progress: the fuel `len + 1` is never exhausted -/

/-- At EOF every delivered token advances by at least one byte. -/
theorem split_eof_adv_pos {d tok : Bytes} {adv : Nat} (h : split jsonPlus d true = .token adv tok) : 0 < adv := by
  unfold split at h
  by_cases hd : d.isEmpty = true
  · simp [hd] at h
  · have hl : 0 < d.length := by
      cases d with
      | nil => simp at hd
      | cons _ _ => simp
    simp only [hd, Bool.and_false, Bool.false_eq_true, if_false, firstMatch_eq_scanFirst, if_true] at h
    cases hs : scanFirst d with
    | none =>
      simp only [hs, Split.token.injEq] at h
      omega
    | some r =>
      obtain ⟨pos, i⟩ := r
      obtain ⟨_, hlen1, hlen⟩ := scanFirst_bound hs
      simp only [startLen] at hlen1 hlen
      simp only [hs] at h
      split at h
      · simp only [Split.token.injEq] at h; omega
      · split at h
        · cases h
        · simp only [Split.token.injEq, List.length_drop] at h; omega

theorem scanEOF_not_stuck : ∀ (n : Nat) (d : Bytes), d.length < n → (scanEOF jsonPlus n d).2 ≠ .stuck
  | 0, _, h => by omega
  | n + 1, d, h => by
    rw [scanEOF]
    cases hsp : split jsonPlus d true with
    | more => simp
    | fail => simp
    | token adv tok =>
      have hpos := split_eof_adv_pos hsp
      have ha : adv ≠ 0 := by omega
      simp only [ha, if_false]
      have hd : d ≠ [] := by
        intro hd; subst hd; rw [split_nil_eof] at hsp; cases hsp
      have hl : 0 < d.length := List.length_pos_iff.mpr hd
      exact scanEOF_not_stuck n _ (by simp only [List.length_drop]; omega)

end Oryx.Json
