/-
  Helper lemmas for C17, part 4: JSON token lists, decorations, and what the comment reader does to
  each piece of a decorated document.
-/
import Oryx.Proofs.Json.Scan
set_option linter.unusedSimpArgs false
namespace Oryx.Json
open Oryx

/-! ### documents as pieces -/

/-- Bytes of a non-string token (punctuation, number, literal, white space): none of `"`, `'`, `/`. -/
def Plain (p : Bytes) : Prop := ∀ b ∈ p, b ≠ 34 ∧ b ≠ 39 ∧ b ≠ 47

/-- Body of a string literal: `(escape pair | byte ∉ {", \})*` — a backslash is always followed by one
more byte (whatever it is: `\"`, `\\`, `\/`, `\n`, `\u…`), and there is no bare quote. -/
def strBody : Bytes → Bool
  | [] => true
  | b :: t =>
    if b = 92 then
      match t with
      | [] => false
      | _ :: t' => strBody t'
    else if b = 34 then false
    else strBody t

/-- A piece of a decorated document: a token (non-string or string literal) or a comment. -/
inductive Piece where
  | plain (p : Bytes)
  | str (body : Bytes)
  | line (c : Bytes)
  | block (c : Bytes)

/-- Well-formed pieces: exactly the token grammar of the property, line comments without a newline in
their text, block comments without `*/` in their text. Comment texts are otherwise arbitrary (quotes,
apostrophes, backslashes, comment openers). -/
def Piece.WF : Piece → Prop
  | .plain p => Plain p
  | .str body => strBody body = true
  | .line c => ∀ b ∈ c, b ≠ 10
  | .block c => index [42, 47] c = none

/-- The text of a piece. -/
def Piece.render : Piece → Bytes
  | .plain p => p
  | .str body => 34 :: body ++ [34]
  | .line c => 47 :: 47 :: c ++ [10]
  | .block c => 47 :: 42 :: c ++ [42, 47]

/-- What must remain of a piece: tokens stay, comments vanish. -/
def Piece.kept : Piece → Bytes
  | .plain p => p
  | .str body => 34 :: body ++ [34]
  | .line _ => []
  | .block _ => []

def Piece.isComment : Piece → Bool
  | .line _ => true
  | .block _ => true
  | _ => false

/-- A final line comment that ends at EOF without a newline (`none`: the document ends after the last piece). -/
def tailText : Option Bytes → Bytes
  | none => []
  | some c => 47 :: 47 :: c

def TailWF : Option Bytes → Prop
  | none => True
  | some c => ∀ b ∈ c, b ≠ 10

/-- The decorated text. -/
def renderDoc (ps : List Piece) (tail : Option Bytes) : Bytes :=
  (ps.map Piece.render).flatten ++ tailText tail

/-- The undecorated text: the concatenation of the tokens. -/
def keptDoc (ps : List Piece) : Bytes := (ps.map Piece.kept).flatten

/-! ### table rows -/

theorem row1 : jsonPlus.starts[1]?.getD [] = [34] ∧ jsonPlus.ends[1]?.getD [] = [34] ∧
    jsonPlus.isComment[1]?.getD false = false ∧ jsonPlus.required[1]?.getD false = true := by decide
theorem row2 : jsonPlus.starts[2]?.getD [] = [47, 47] ∧ jsonPlus.ends[2]?.getD [] = [10] ∧
    jsonPlus.isComment[2]?.getD false = true ∧ jsonPlus.required[2]?.getD false = false := by decide
theorem row3 : jsonPlus.starts[3]?.getD [] = [47, 42] ∧ jsonPlus.ends[3]?.getD [] = [42, 47] ∧
    jsonPlus.isComment[3]?.getD false = true ∧ jsonPlus.required[3]?.getD false = true := by decide

/-! ### searches inside well-formed pieces -/

theorem plain_cons {b : UInt8} {p : Bytes} (h : Plain (b :: p)) : (b ≠ 34 ∧ b ≠ 39 ∧ b ≠ 47) ∧ Plain p :=
  ⟨h b List.mem_cons_self, fun x hx => h x (List.mem_cons_of_mem _ hx)⟩

theorem plain_append {p q : Bytes} (hp : Plain p) (hq : Plain q) : Plain (p ++ q) := by
  intro b hb
  rcases List.mem_append.mp hb with h | h
  · exact hp b h
  · exact hq b h

/-- Non-string token bytes never start a marker: the first match in `P ++ X` is the first match in `X`. -/
theorem scanFirst_plain_append : ∀ {P : Bytes}, Plain P → ∀ X,
    scanFirst (P ++ X) = (scanFirst X).map fun r => (r.1 + P.length, r.2)
  | [], _, X => by
    simp only [List.nil_append, List.length_nil, Nat.add_zero]
    cases scanFirst X <;> simp
  | b :: t, h, X => by
    obtain ⟨⟨h34, h39, h47⟩, ht⟩ := plain_cons h
    have ih := scanFirst_plain_append ht X
    rw [List.cons_append, scanFirst]
    simp only [h39, h34, h47, false_and, if_false, ih]
    cases scanFirst X with
    | none => rfl
    | some r => simp [sh]; omega

theorem scanFirst_plain {P : Bytes} (h : Plain P) : scanFirst P = none := by
  have := scanFirst_plain_append h []
  simpa [scanFirst] using this

theorem strBody_cons (b : UInt8) (t : Bytes) :
    strBody (b :: t) =
      if b = 92 then
        match t with
        | [] => false
        | _ :: t' => strBody t'
      else if b = 34 then false
      else strBody t := by
  cases t <;> simp [strBody]

/-- The closing quote of a string literal is found exactly after its body. -/
theorem indexEsc_strBody : ∀ (n : Nat) (body : Bytes), body.length ≤ n → strBody body = true → ∀ R,
    indexEsc [34] (body ++ 34 :: R) = some body.length
  | _, [], _, _, R => by
    rw [List.nil_append, indexEsc_cons]
    simp [escByte]
  | 0, b :: t, hn, _, _ => by simp at hn
  | n + 1, b :: t, hn, h, R => by
    rw [strBody_cons] at h
    rw [List.cons_append, indexEsc_cons]
    by_cases hb : b = 92
    · subst hb
      cases t with
      | nil => simp at h
      | cons c t' =>
        simp only [if_true] at h
        have := indexEsc_strBody n t' (by simp only [List.length_cons] at hn; omega) h R
        simp [escByte, this]
    · simp only [hb, if_false] at h
      by_cases hq : b = 34
      · simp [hq] at h
      · simp only [hq, if_false] at h
        have := indexEsc_strBody n t (by simp only [List.length_cons] at hn; omega) h R
        have hne : (34 : UInt8) ≠ b := fun e => hq e.symm
        simp [escByte, hb, this, hne]

/-- The newline ending a line comment is found exactly after its text. -/
theorem index_line : ∀ (c : Bytes), (∀ b ∈ c, b ≠ 10) → ∀ R, index [10] (c ++ 10 :: R) = some c.length
  | [], _, R => by simp [index]
  | b :: t, h, R => by
    have hb : (10 : UInt8) ≠ b := fun e => h b List.mem_cons_self e.symm
    have := index_line t (fun x hx => h x (List.mem_cons_of_mem _ hx)) R
    simp [index, hb, this]

theorem index_line_none : ∀ (c : Bytes), (∀ b ∈ c, b ≠ 10) → index [10] c = none
  | [], _ => by simp [index]
  | b :: t, h => by
    have hb : (10 : UInt8) ≠ b := fun e => h b List.mem_cons_self e.symm
    have := index_line_none t (fun x hx => h x (List.mem_cons_of_mem _ hx))
    simp [index, hb, this]

/-- The `*/` ending a block comment is found exactly after its text (which may end in `*`). -/
theorem index_block : ∀ (c : Bytes), index [42, 47] c = none → ∀ R,
    index [42, 47] (c ++ 42 :: 47 :: R) = some c.length
  | [], _, R => by simp [index]
  | b :: t, h, R => by
    rw [index] at h
    split at h
    · cases h
    · rename_i hp
      have ht : index [42, 47] t = none := by
        cases hi : index [42, 47] t with
        | none => rfl
        | some k => simp [hi] at h
      have ih := index_block t ht R
      rw [List.cons_append, index]
      have hnp : List.isPrefixOf [42, 47] (b :: (t ++ 42 :: 47 :: R)) = false := by
        cases t with
        | nil =>
          by_cases hb : (42 : UInt8) = b
          · subst hb; simp [List.isPrefixOf]
          · simp [List.isPrefixOf, hb]
        | cons c t' =>
          simp only [List.isPrefixOf, List.cons_append] at hp ⊢
          simpa using hp
      simp [hnp, ih]

/-! ### the split function on each kind of piece (at EOF = whole remaining text in the buffer) -/

theorem split_plain {P : Bytes} (h : Plain P) (hne : P ≠ []) : split jsonPlus P true = .token P.length P := by
  unfold split
  have : P.isEmpty = false := by cases P <;> simp_all
  simp [this, firstMatch_eq_scanFirst, scanFirst_plain h]

theorem split_str {P body : Bytes} (h : Plain P) (hb : strBody body = true) (R : Bytes) (e : Bool) :
    split jsonPlus (P ++ 34 :: (body ++ 34 :: R)) e =
      .token (P.length + body.length + 2) (P ++ 34 :: (body ++ [34])) := by
  obtain ⟨r1, r2, r3, r4⟩ := row1
  unfold split
  have hemp : (P ++ 34 :: (body ++ 34 :: R)).isEmpty = false := by cases P <;> rfl
  have hsf : scanFirst (P ++ 34 :: (body ++ 34 :: R)) = some (P.length, 1) := by
    rw [scanFirst_plain_append h]; simp [scanFirst]
  simp only [hemp, Bool.and_false, Bool.false_eq_true, if_false, firstMatch_eq_scanFirst, hsf, r1, r2, r3,
    List.length_cons, List.length_nil]
  have hd : (P ++ 34 :: (body ++ 34 :: R)).drop (P.length + (0 + 1)) = body ++ 34 :: R := by
    have : P ++ 34 :: (body ++ 34 :: R) = (P ++ [34]) ++ (body ++ 34 :: R) := by simp
    rw [this]; exact drop_append_len _ _ (by simp)
  simp only [hd, indexEnd, Bool.not_false, if_true, indexEsc_strBody body.length body (Nat.le_refl _) hb R]
  have ht : (P ++ 34 :: (body ++ 34 :: R)).take (P.length + (0 + 1) + body.length + (0 + 1)) = P ++ 34 :: (body ++ [34]) := by
    have : P ++ 34 :: (body ++ 34 :: R) = (P ++ 34 :: (body ++ [34])) ++ R := by simp
    rw [this]; exact take_append_len _ _ (by simp; omega)
  simp only [ht, Bool.false_eq_true, if_false]
  congr 1 <;> omega

theorem split_line {P c : Bytes} (h : Plain P) (hc : ∀ b ∈ c, b ≠ 10) (R : Bytes) (e : Bool) :
    split jsonPlus (P ++ 47 :: 47 :: (c ++ 10 :: R)) e = .token (P.length + c.length + 3) P := by
  obtain ⟨r1, r2, r3, r4⟩ := row2
  unfold split
  have hemp : (P ++ 47 :: 47 :: (c ++ 10 :: R)).isEmpty = false := by cases P <;> rfl
  have hsf : scanFirst (P ++ 47 :: 47 :: (c ++ 10 :: R)) = some (P.length, 2) := by
    rw [scanFirst_plain_append h]; simp [scanFirst]
  simp only [hemp, Bool.and_false, Bool.false_eq_true, if_false, firstMatch_eq_scanFirst, hsf, r1, r2, r3,
    List.length_cons, List.length_nil]
  have hd : (P ++ 47 :: 47 :: (c ++ 10 :: R)).drop (P.length + (0 + 1 + 1)) = c ++ 10 :: R := by
    have : P ++ 47 :: 47 :: (c ++ 10 :: R) = (P ++ [47, 47]) ++ (c ++ 10 :: R) := by simp
    rw [this]; exact drop_append_len _ _ (by simp)
  simp only [hd, indexEnd, Bool.not_true, Bool.false_eq_true, if_false, index_line c hc R, if_true]
  have ht : (P ++ 47 :: 47 :: (c ++ 10 :: R)).take P.length = P := take_append_len _ _ rfl
  rw [ht]
  congr 1 <;> omega

theorem split_block {P c : Bytes} (h : Plain P) (hc : index [42, 47] c = none) (R : Bytes) (e : Bool) :
    split jsonPlus (P ++ 47 :: 42 :: (c ++ 42 :: 47 :: R)) e = .token (P.length + c.length + 4) P := by
  obtain ⟨r1, r2, r3, r4⟩ := row3
  unfold split
  have hemp : (P ++ 47 :: 42 :: (c ++ 42 :: 47 :: R)).isEmpty = false := by cases P <;> rfl
  have hsf : scanFirst (P ++ 47 :: 42 :: (c ++ 42 :: 47 :: R)) = some (P.length, 3) := by
    rw [scanFirst_plain_append h]; simp [scanFirst]
  simp only [hemp, Bool.and_false, Bool.false_eq_true, if_false, firstMatch_eq_scanFirst, hsf, r1, r2, r3,
    List.length_cons, List.length_nil]
  have hd : (P ++ 47 :: 42 :: (c ++ 42 :: 47 :: R)).drop (P.length + (0 + 1 + 1)) = c ++ 42 :: 47 :: R := by
    have : P ++ 47 :: 42 :: (c ++ 42 :: 47 :: R) = (P ++ [47, 42]) ++ (c ++ 42 :: 47 :: R) := by simp
    rw [this]; exact drop_append_len _ _ (by simp)
  simp only [hd, indexEnd, Bool.not_true, Bool.false_eq_true, if_false, index_block c hc R, if_true]
  have ht : (P ++ 47 :: 42 :: (c ++ 42 :: 47 :: R)).take P.length = P := take_append_len _ _ rfl
  rw [ht]
  congr 1 <;> omega

theorem split_tail {P c : Bytes} (h : Plain P) (hc : ∀ b ∈ c, b ≠ 10) :
    split jsonPlus (P ++ 47 :: 47 :: c) true = .token (P.length + c.length + 2) P := by
  obtain ⟨r1, r2, r3, r4⟩ := row2
  unfold split
  have hemp : (P ++ 47 :: 47 :: c).isEmpty = false := by cases P <;> rfl
  have hsf : scanFirst (P ++ 47 :: 47 :: c) = some (P.length, 2) := by
    rw [scanFirst_plain_append h]; simp [scanFirst]
  simp only [hemp, Bool.and_false, Bool.false_eq_true, if_false, firstMatch_eq_scanFirst, hsf, r1, r2, r3, r4,
    List.length_cons, List.length_nil]
  have hd : (P ++ 47 :: 47 :: c).drop (P.length + (0 + 1 + 1)) = c := by
    have : P ++ 47 :: 47 :: c = (P ++ [47, 47]) ++ c := by simp
    rw [this]; exact drop_append_len _ _ (by simp)
  simp only [hd, indexEnd, Bool.not_true, Bool.false_eq_true, if_false, index_line_none c hc, if_true]
  have ht : (P ++ 47 :: 47 :: c).take P.length = P := take_append_len _ _ rfl
  rw [ht]
  congr 1
  omega

end Oryx.Json

namespace Oryx.Json
open Oryx

/-! ### the whole decorated document -/

theorem scanEOF_step {d tok : Bytes} {adv n : Nat} (h : split jsonPlus d true = .token adv tok) (ha : adv ≠ 0) :
    scanEOF jsonPlus (n + 1) d =
      (tok ++ (scanEOF jsonPlus n (d.drop adv)).1, (scanEOF jsonPlus n (d.drop adv)).2) := by
  rw [scanEOF, h]; simp only [ha, if_false]

theorem scanEOF_nil (n : Nat) : scanEOF jsonPlus (n + 1) [] = ([], .ok) := by
  rw [scanEOF, split_nil_eof]

theorem plain_nil : Plain [] := fun _ h => by cases h

/-- Stripping `P ++ (decorated pieces)`, `P` being token bytes already pending in the buffer,
yields `P ++ (the tokens)` and ends cleanly. -/
theorem strip_doc_aux (tail : Option Bytes) (htail : TailWF tail) :
    ∀ (ps : List Piece) (P : Bytes) (n : Nat), Plain P → (∀ p ∈ ps, p.WF) →
      (P ++ renderDoc ps tail).length < n →
      scanEOF jsonPlus n (P ++ renderDoc ps tail) = (P ++ keptDoc ps, .ok)
  | [], P, n, hP, _, hn => by
    cases n with
    | zero => omega
    | succ n =>
      cases tail with
      | none =>
        simp only [renderDoc, List.map_nil, List.flatten_nil, tailText, List.append_nil, keptDoc] at hn ⊢
        by_cases hp : P = []
        · subst hp; exact scanEOF_nil n
        · have hl : 0 < P.length := List.length_pos_iff.mpr hp
          rw [scanEOF_step (split_plain hP hp) (by omega)]
          cases n with
          | zero => omega
          | succ n => simp [scanEOF_nil]
      | some c =>
        simp only [renderDoc, List.map_nil, List.flatten_nil, tailText, List.nil_append, keptDoc,
          List.append_nil] at hn ⊢
        rw [scanEOF_step (split_tail hP htail) (by omega)]
        have : (P ++ 47 :: 47 :: c).drop (P.length + c.length + 2) = [] := by
          apply List.drop_eq_nil_of_le; simp; omega
        rw [this]
        cases n with
        | zero => simp at hn
        | succ n => simp [scanEOF_nil]
  | piece :: ps, P, n, hP, hps, hn => by
    have hrest : ∀ p ∈ ps, p.WF := fun p hp => hps p (List.mem_cons_of_mem _ hp)
    have hpiece := hps piece List.mem_cons_self
    have hrd : renderDoc (piece :: ps) tail = piece.render ++ renderDoc ps tail := by
      simp [renderDoc, List.append_assoc]
    have hkd : keptDoc (piece :: ps) = piece.kept ++ keptDoc ps := by simp [keptDoc]
    rw [hrd] at hn ⊢
    rw [hkd]
    cases n with
    | zero => omega
    | succ n =>
      cases piece with
      | plain p =>
        simp only [Piece.render, Piece.kept] at hn ⊢
        have := strip_doc_aux tail htail ps (P ++ p) (n + 1) (plain_append hP hpiece) hrest
          (by simpa [List.append_assoc] using hn)
        simpa [List.append_assoc] using this
      | str body =>
        simp only [Piece.render, Piece.kept] at hn ⊢
        have e : P ++ (34 :: body ++ [34] ++ renderDoc ps tail) = P ++ 34 :: (body ++ 34 :: renderDoc ps tail) := by simp
        rw [e] at hn ⊢
        rw [scanEOF_step (split_str hP hpiece _ true) (by omega)]
        have hd : (P ++ 34 :: (body ++ 34 :: renderDoc ps tail)).drop (P.length + body.length + 2) = renderDoc ps tail := by
          have : P ++ 34 :: (body ++ 34 :: renderDoc ps tail) = (P ++ 34 :: (body ++ [34])) ++ renderDoc ps tail := by simp
          rw [this]; exact drop_append_len _ _ (by simp; omega)
        rw [hd]
        have := strip_doc_aux tail htail ps [] n plain_nil hrest (by
          simp only [List.length_append, List.length_cons, List.nil_append] at hn ⊢; omega)
        simp only [List.nil_append] at this
        rw [this]
        simp
      | line c =>
        simp only [Piece.render, Piece.kept] at hn ⊢
        have e : P ++ (47 :: 47 :: c ++ [10] ++ renderDoc ps tail) = P ++ 47 :: 47 :: (c ++ 10 :: renderDoc ps tail) := by simp
        rw [e] at hn ⊢
        rw [scanEOF_step (split_line hP hpiece _ true) (by omega)]
        have hd : (P ++ 47 :: 47 :: (c ++ 10 :: renderDoc ps tail)).drop (P.length + c.length + 3) = renderDoc ps tail := by
          have : P ++ 47 :: 47 :: (c ++ 10 :: renderDoc ps tail) = (P ++ 47 :: 47 :: (c ++ [10])) ++ renderDoc ps tail := by simp
          rw [this]; exact drop_append_len _ _ (by simp; omega)
        rw [hd]
        have := strip_doc_aux tail htail ps [] n plain_nil hrest (by
          simp only [List.length_append, List.length_cons, List.nil_append] at hn ⊢; omega)
        simp only [List.nil_append] at this
        rw [this]
        simp
      | block c =>
        simp only [Piece.render, Piece.kept] at hn ⊢
        have e : P ++ (47 :: 42 :: c ++ [42, 47] ++ renderDoc ps tail) = P ++ 47 :: 42 :: (c ++ 42 :: 47 :: renderDoc ps tail) := by simp
        rw [e] at hn ⊢
        rw [scanEOF_step (split_block hP hpiece _ true) (by omega)]
        have hd : (P ++ 47 :: 42 :: (c ++ 42 :: 47 :: renderDoc ps tail)).drop (P.length + c.length + 4) = renderDoc ps tail := by
          have : P ++ 47 :: 42 :: (c ++ 42 :: 47 :: renderDoc ps tail) = (P ++ 47 :: 42 :: (c ++ [42, 47])) ++ renderDoc ps tail := by simp
          rw [this]; exact drop_append_len _ _ (by simp; omega)
        rw [hd]
        have := strip_doc_aux tail htail ps [] n plain_nil hrest (by
          simp only [List.length_append, List.length_cons, List.nil_append] at hn ⊢; omega)
        simp only [List.nil_append] at this
        rw [this]
        simp

end Oryx.Json

namespace Oryx.Json
open Oryx

/-! ### RFC 8259 string literals are string bodies in the sense of `strBody` -/

/-- One item of a JSON string: an unescaped byte (anything but `"` and `\`; UTF-8 bytes included) or a
backslash escape `\c` (`\"`, `\\`, `\/`, `\b` … and `\u`, whose four hex digits follow as unescaped bytes). -/
inductive StrItem where
  | raw (b : UInt8) (h : b ≠ 34 ∧ b ≠ 92)
  | esc (c : UInt8)

def StrItem.bytes : StrItem → Bytes
  | .raw b _ => [b]
  | .esc c => [92, c]

def strItems (items : List StrItem) : Bytes := (items.map StrItem.bytes).flatten

theorem strBody_items : ∀ items : List StrItem, strBody (strItems items) = true
  | [] => by simp [strItems, strBody]
  | .raw b h :: rest => by
    have ih := strBody_items rest
    simp only [strItems, List.map_cons, List.flatten_cons, StrItem.bytes, List.cons_append, List.nil_append] at ih ⊢
    rw [strBody_cons]
    simp [h.1, h.2, ih]
  | .esc c :: rest => by
    have ih := strBody_items rest
    simp only [strItems, List.map_cons, List.flatten_cons, StrItem.bytes, List.cons_append, List.nil_append] at ih ⊢
    rw [strBody_cons]
    simp [ih]

end Oryx.Json
