/-
  Helper lemmas for C17, part 1: `bytes.Index` / `indexEnd` — bounds and stability under
  extension of the data (the engine of segmentation freedom).
-/
import Oryx.Model.Json
namespace Oryx.Json
open Oryx

theorem isPrefixOf_iff {f d : Bytes} : f.isPrefixOf d = true ↔ f <+: d := List.isPrefixOf_iff_prefix

theorem not_prefix_append {f d : Bytes} (h : ¬ f <+: d) (hl : f.length ≤ d.length) (x : Bytes) : ¬ f <+: d ++ x := by
  intro hp
  exact h (List.prefix_of_prefix_length_le hp (List.prefix_append d x) hl)

/-- A found occurrence lies inside the data. -/
theorem index_bound {f : Bytes} : ∀ {d : Bytes} {k : Nat}, index f d = some k → k + f.length ≤ d.length
  | [], k, h => by
    simp only [index] at h
    split at h
    · rename_i he
      have : f = [] := by simpa using he
      subst this; cases h; simp
    · cases h
  | b :: t, k, h => by
    simp only [index] at h
    split at h
    · rename_i hp
      cases h
      have := (isPrefixOf_iff.mp hp).length_le
      simpa using this
    · cases hi : index f t with
      | none => simp [hi] at h
      | some k' =>
        simp [hi] at h
        have := index_bound hi
        subst h
        simp only [List.length_cons]; omega

/-- `bytes.Index` is stable under extension: what is found in a prefix of the data is found, at the
same position, in the whole data. -/
theorem index_append_stable {f : Bytes} : ∀ {d : Bytes} {k : Nat}, index f d = some k → ∀ x, index f (d ++ x) = some k
  | [], k, h, x => by
    simp only [index] at h
    split at h
    · rename_i he
      have : f = [] := by simpa using he
      subst this; cases h
      cases x <;> simp [index]
    · cases h
  | b :: t, k, h, x => by
    simp only [index] at h
    simp only [List.cons_append, index]
    split at h
    · rename_i hp
      cases h
      have : f <+: b :: (t ++ x) := by
        have := (isPrefixOf_iff.mp hp).trans (List.prefix_append (b :: t) x)
        simpa using this
      simp [isPrefixOf_iff.mpr this]
    · rename_i hp
      cases hi : index f t with
      | none => simp [hi] at h
      | some k' =>
        simp [hi] at h
        have hb := index_bound hi
        have hnp : ¬ f <+: b :: (t ++ x) := by
          have := not_prefix_append (f := f) (d := b :: t) (by simpa [isPrefixOf_iff] using hp)
            (by simp only [List.length_cons]; omega) x
          simpa using this
        have hnp' : f.isPrefixOf (b :: (t ++ x)) = false := by
          cases hq : f.isPrefixOf (b :: (t ++ x))
          · rfl
          · exact absurd (isPrefixOf_iff.mp hq) hnp
        simp [hnp', index_append_stable hi x, h]

theorem indexEsc_cons (f : Bytes) (b : UInt8) (t : Bytes) :
    indexEsc f (b :: t) =
      if b = escByte then
        match t with
        | [] => none
        | _ :: t' => (indexEsc f t').map (· + 2)
      else if f.isPrefixOf (b :: t) then some 0
      else (indexEsc f t).map (· + 1) := by
  cases t <;> simp [indexEsc]

/-- The escape-aware search: bound. -/
theorem indexEsc_bound {f : Bytes} : ∀ (n : Nat) {d : Bytes} {k : Nat}, d.length ≤ n → indexEsc f d = some k → k + f.length ≤ d.length
  | _, [], k, _, h => by simp [indexEsc] at h
  | 0, b :: t, k, hn, _ => by simp at hn
  | n + 1, b :: t, k, hn, h => by
    rw [indexEsc_cons] at h
    split at h
    · cases t with
      | nil => simp at h
      | cons c t' =>
        simp only at h
        cases hi : indexEsc f t' with
        | none => simp [hi] at h
        | some k' =>
          simp [hi] at h
          have := indexEsc_bound n (d := t') (by simp only [List.length_cons] at hn; omega) hi
          subst h
          simp only [List.length_cons]; omega
    · split at h
      · rename_i hp
        cases h
        have := (isPrefixOf_iff.mp hp).length_le
        simpa using this
      · cases hi : indexEsc f t with
        | none => simp [hi] at h
        | some k' =>
          simp [hi] at h
          have := indexEsc_bound n (d := t) (by simp only [List.length_cons] at hn; omega) hi
          subst h
          simp only [List.length_cons]; omega

/-- The escape-aware search is stable under extension of the data. -/
theorem indexEsc_append_stable {f : Bytes} : ∀ (n : Nat) {d : Bytes} {k : Nat}, d.length ≤ n →
    indexEsc f d = some k → ∀ x, indexEsc f (d ++ x) = some k
  | _, [], k, _, h, _ => by simp [indexEsc] at h
  | 0, b :: t, k, hn, _, _ => by simp at hn
  | n + 1, b :: t, k, hn, h, x => by
    rw [indexEsc_cons] at h
    rw [List.cons_append, indexEsc_cons]
    split at h
    · rename_i hb
      cases t with
      | nil => simp at h
      | cons c t' =>
        simp only at h
        cases hi : indexEsc f t' with
        | none => simp [hi] at h
        | some k' =>
          simp [hi] at h
          have := indexEsc_append_stable n (d := t') (by simp only [List.length_cons] at hn; omega) hi x
          simp [hb, this, h]
    · rename_i hb
      split at h
      · rename_i hp
        cases h
        have : f <+: b :: (t ++ x) := by
          have := (isPrefixOf_iff.mp hp).trans (List.prefix_append (b :: t) x)
          simpa using this
        simp [hb, isPrefixOf_iff.mpr this]
      · rename_i hp
        cases hi : indexEsc f t with
        | none => simp [hi] at h
        | some k' =>
          simp [hi] at h
          have hbd := indexEsc_bound n (d := t) (by simp only [List.length_cons] at hn; omega) hi
          have hnp : ¬ f <+: b :: (t ++ x) := by
            have := not_prefix_append (f := f) (d := b :: t) (by simpa [isPrefixOf_iff] using hp)
              (by simp only [List.length_cons]; omega) x
            simpa using this
          have hnp' : f.isPrefixOf (b :: (t ++ x)) = false := by
            cases hq : f.isPrefixOf (b :: (t ++ x))
            · rfl
            · exact absurd (isPrefixOf_iff.mp hq) hnp
          have := indexEsc_append_stable n (d := t) (by simp only [List.length_cons] at hn; omega) hi x
          simp [hb, hnp', this, h]

theorem indexEnd_bound {d f : Bytes} {esc : Bool} {k : Nat} (h : indexEnd d f esc = some k) : k + f.length ≤ d.length := by
  unfold indexEnd at h
  split at h
  · exact indexEsc_bound d.length (Nat.le_refl _) h
  · exact index_bound h

theorem indexEnd_append_stable {d f : Bytes} {esc : Bool} {k : Nat} (h : indexEnd d f esc = some k) (x : Bytes) :
    indexEnd (d ++ x) f esc = some k := by
  unfold indexEnd at h ⊢
  split at h
  · simp only [*, if_true]; exact indexEsc_append_stable d.length (Nat.le_refl _) h x
  · simp only [*]; exact index_append_stable h x

end Oryx.Json
