import Oryx.Model.JsonRead
namespace Oryx.Json

theorem tokensEOF_flatten (T : Tables) (n : Nat) (data : Bytes) :
    (tokensEOF T n data).1.flatten = (scanEOF T n data).1 ∧ (tokensEOF T n data).2 = (scanEOF T n data).2 := by
  induction n generalizing data with
  | zero => simp [tokensEOF, scanEOF]
  | succ n ih =>
    unfold tokensEOF scanEOF
    cases h : split T data true with
    | more => simp
    | fail => simp
    | token adv tok =>
      simp only
      by_cases ha : adv = 0
      · simp [ha]
      · simp [ha, ih]

theorem flatten_dropWhile_isEmpty (l : List Bytes) : (l.dropWhile (·.isEmpty)).flatten = l.flatten := by
  induction l with
  | nil => rfl
  | cons a l ih =>
    by_cases h : a.isEmpty = true
    · have : a = [] := by simpa using h
      simp [List.dropWhile_cons, this, ih]
    · simp [List.dropWhile_cons, h]

/-- one Read: what it returns, followed by what is still owed, is what was owed before -/
theorem read_remaining (r : Rd) (n : Nat) :
    (r.read n).2.bytes ++ (r.read n).1.remaining = r.remaining := by
  unfold Rd.read Rd.remaining
  by_cases hb : r.buf.isEmpty = true
  · have hb' : r.buf = [] := by simpa using hb
    simp only [hb, if_true]
    have hf := flatten_dropWhile_isEmpty r.toks
    cases hd : r.toks.dropWhile (·.isEmpty) with
    | nil =>
      rw [hd] at hf
      by_cases hs : r.st = .ok <;> simp [hs, ROut.bytes, hb', ← hf]
    | cons t ts =>
      rw [hd] at hf
      simp [ROut.bytes, hb', ← hf, ← List.append_assoc]
  · simp [hb, ROut.bytes, ← List.append_assoc]

/-- EOF and error are reported only when nothing is owed any more -/
theorem read_end_nothing_left (r : Rd) (n : Nat) (h : (r.read n).2 = .eof ∨ (r.read n).2 = .err) :
    r.remaining = [] := by
  have := read_remaining r n
  unfold Rd.read at h this
  by_cases hb : r.buf.isEmpty = true
  · simp only [hb, if_true] at h this
    cases hd : r.toks.dropWhile (·.isEmpty) with
    | nil =>
      have hb' : r.buf = [] := by simpa using hb
      have hf := flatten_dropWhile_isEmpty r.toks
      rw [hd] at hf
      simp [Rd.remaining, hb', ← hf]
    | cons t ts => rw [hd] at h; simp at h
  · simp [hb] at h

/-- a Read with a non-empty slice makes progress while something is owed -/
theorem read_progress (r : Rd) (n : Nat) (hn : 0 < n) (h : r.remaining ≠ []) :
    ∃ b, (r.read n).2 = .data b ∧ b ≠ [] := by
  unfold Rd.read
  by_cases hb : r.buf.isEmpty = true
  · have hb' : r.buf = [] := by simpa using hb
    simp only [hb, if_true]
    have hf := flatten_dropWhile_isEmpty r.toks
    cases hd : r.toks.dropWhile (·.isEmpty) with
    | nil => rw [hd] at hf; simp [Rd.remaining, hb', ← hf] at h
    | cons t ts =>
      have hne : t.isEmpty = false := by
        have := List.head_dropWhile_not (p := fun (b : Bytes) => b.isEmpty) (l := r.toks) (by rw [hd]; simp)
        simpa [hd] using this
      refine ⟨t.take n, rfl, ?_⟩
      cases t with
      | nil => simp at hne
      | cons x xs => cases n with
        | zero => omega
        | succ m => simp
  · simp only [hb]
    refine ⟨r.buf.take n, rfl, ?_⟩
    cases hbuf : r.buf with
    | nil => simp [hbuf] at hb
    | cons x xs => cases n with
      | zero => omega
      | succ m => simp

def outBytes (os : List ROut) : Bytes := (os.map ROut.bytes).flatten

/-- ANY sequence of Reads (slice lengths of any size, zero included): the bytes handed out so far, followed by what is
still owed, are the tokens — nothing is lost, duplicated or reordered by the buffer between the Scanner and the consumer. -/
theorem reads_remaining (r : Rd) (ns : List Nat) :
    outBytes (r.reads ns).2 ++ (r.reads ns).1.remaining = r.remaining := by
  induction ns generalizing r with
  | nil => simp [Rd.reads, outBytes]
  | cons n ns ih =>
    have h1 := read_remaining r n
    unfold Rd.reads
    cases hr : r.read n with
    | mk r' o =>
      rw [hr] at h1
      cases o with
      | data b =>
        have := ih r'
        simp only [outBytes, List.map_cons, List.flatten_cons, ROut.bytes] at this ⊢
        simp only [ROut.bytes] at h1
        rw [List.append_assoc, this, h1]
      | eof => simpa [outBytes, ROut.bytes] using h1
      | err => simpa [outBytes, ROut.bytes] using h1

/-- ... and when the sequence ends with EOF or the error, everything has been handed out -/
theorem reads_complete (r : Rd) (ns : List Nat) (o : ROut) (ho : o = .eof ∨ o = .err)
    (h : (r.reads ns).2.getLast? = some o) : outBytes (r.reads ns).2 = r.remaining := by
  induction ns generalizing r with
  | nil => simp [Rd.reads] at h
  | cons n ns ih =>
    have h1 := read_remaining r n
    unfold Rd.reads at h ⊢
    cases hr : r.read n with
    | mk r' o' =>
      rw [hr] at h h1
      cases o' with
      | data b =>
        simp only at h ⊢
        have hl : (r'.reads ns).2.getLast? = some o := by
          cases hrs : (r'.reads ns).2 with
          | nil => rw [hrs] at h; rcases ho with rfl | rfl <;> simp at h
          | cons x xs => rw [hrs] at h; simpa [List.getLast?_cons_cons] using h
        have := ih r' hl
        simp only [outBytes, List.map_cons, List.flatten_cons, ROut.bytes] at this ⊢
        simp only [ROut.bytes] at h1
        rw [this, h1]
      | eof =>
        have hnl := read_end_nothing_left r n (by rw [hr]; simp)
        simp [outBytes, ROut.bytes, hnl]
      | err =>
        have hnl := read_end_nothing_left r n (by rw [hr]; simp)
        simp [outBytes, ROut.bytes, hnl]

/-- the reader over an input owes exactly what `strip` emits -/
theorem ofInput_remaining (T : Tables) (input : Bytes) :
    (Rd.ofInput T input).remaining = (strip T input).1 ∧ (Rd.ofInput T input).st = (strip T input).2 := by
  have := tokensEOF_flatten T (input.length + 1) input
  simp [Rd.ofInput, Rd.remaining, strip, this]

end Oryx.Json
