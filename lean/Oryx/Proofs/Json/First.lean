/-
  Helper lemmas for C17, part 2: `firstMatch` over the JSON+ start markers is a left-to-right scan
  (`scanFirst`), and is stable under extension of the data.
-/
import Oryx.Proofs.Json.Index
set_option linter.unusedSimpArgs false
namespace Oryx.Json
open Oryx

/-- Shift a `(pos, index)` result by one position. -/
def sh (r : Nat × Nat) : Nat × Nat := (r.1 + 1, r.2)

/-- If no flag matches at the head of `b :: t`, the loop of `firstMatch` on `b :: t` is the loop on `t`, shifted. -/
theorem firstMatchAux_shift (b : UInt8) (t : Bytes) :
    ∀ (fs : List Bytes) (i : Nat) (best : Option (Nat × Nat)),
      (∀ f ∈ fs, index f (b :: t) = (index f t).map (· + 1)) →
      firstMatchAux (b :: t) fs i (best.map sh) = (firstMatchAux t fs i best).map sh
  | [], _, best, _ => by simp [firstMatchAux]
  | f :: fs, i, best, h => by
    have hf := h f List.mem_cons_self
    have ih := fun best' => firstMatchAux_shift b t fs (i + 1) best' (fun g hg => h g (List.mem_cons_of_mem _ hg))
    simp only [firstMatchAux, hf]
    cases hi : index f t with
    | none => simpa using ih best
    | some p =>
      cases best with
      | none => simpa [sh] using ih (some (p, i))
      | some bb =>
        obtain ⟨bp, bi⟩ := bb
        simp only [Option.map_some, sh]
        by_cases hgt : bp > p
        · have : bp + 1 > p + 1 := by omega
          simpa [hgt, this, sh] using ih (some (p, i))
        · have : ¬ bp + 1 > p + 1 := by omega
          simpa [hgt, this, sh] using ih (some (bp, bi))

/-- Once the best position is 0 nothing replaces it. -/
theorem firstMatchAux_zero (d : Bytes) : ∀ (fs : List Bytes) (i k : Nat),
    firstMatchAux d fs i (some (0, k)) = some (0, k)
  | [], _, _ => rfl
  | f :: fs, i, k => by
    simp only [firstMatchAux]
    cases index f d with
    | none => exact firstMatchAux_zero d fs (i + 1) k
    | some p => simpa using firstMatchAux_zero d fs (i + 1) k

/-- `firstMatch` over `'`, `"`, `//`, `/*` read left to right: the first byte that is a quote or
apostrophe, or a slash followed by a slash or a star. -/
def scanFirst : Bytes → Option (Nat × Nat)
  | [] => none
  | b :: t =>
    if b = 39 then some (0, 0)
    else if b = 34 then some (0, 1)
    else if b = 47 ∧ t.head? = some 47 then some (0, 2)
    else if b = 47 ∧ t.head? = some 42 then some (0, 3)
    else (scanFirst t).map sh

theorem starts_eq : jsonPlus.starts = [[39], [34], [47, 47], [47, 42]] := by decide

theorem firstMatch_eq_scanFirst : ∀ d : Bytes, firstMatch d jsonPlus.starts = scanFirst d
  | [] => by decide
  | b :: t => by
    have ih := firstMatch_eq_scanFirst t
    rw [starts_eq] at ih ⊢
    by_cases h39 : b = 39
    · subst h39
      simp [firstMatch, firstMatchAux, index, scanFirst, firstMatchAux_zero]
      all_goals ((repeat' split) <;> rfl)
    · by_cases h34 : b = 34
      · subst h34
        simp only [firstMatch, firstMatchAux, index, scanFirst]
        cases index [39] t <;> simp [firstMatchAux_zero]
        all_goals ((repeat' split) <;> rfl)
      · have e39 : index [39] (b :: t) = (index [39] t).map (· + 1) := by
          simp [index, Ne.symm h39]
        have e34 : index [34] (b :: t) = (index [34] t).map (· + 1) := by
          simp [index, Ne.symm h34]
        by_cases h47 : b = 47
        · subst h47
          cases t with
          | nil => decide
          | cons c t' =>
            by_cases c47 : c = 47
            · subst c47
              simp only [firstMatch, firstMatchAux, e39, e34, scanFirst]
              have : index [47, 47] (47 :: 47 :: t') = some 0 := by simp [index]
              simp only [this]
              cases index [39] (47 :: t') <;> cases index [34] (47 :: t') <;> simp [firstMatchAux_zero]
              all_goals ((repeat' split) <;> first | rfl | omega)
            · by_cases c42 : c = 42
              · subst c42
                simp only [firstMatch, firstMatchAux, e39, e34, scanFirst]
                have e1 : index [47, 47] (47 :: 42 :: t') = (index [47, 47] (42 :: t')).map (· + 1) := by simp [index]
                have e2 : index [47, 42] (47 :: 42 :: t') = some 0 := by simp [index]
                simp only [e1, e2]
                cases index [39] (42 :: t') <;> cases index [34] (42 :: t') <;> cases index [47, 47] (42 :: t') <;>
                  simp [firstMatchAux_zero]
                all_goals ((repeat' split) <;> first | rfl | omega)
              · have key := firstMatchAux_shift 47 (c :: t') [[39], [34], [47, 47], [47, 42]] 0 none (by
                  intro f hf
                  simp only [List.mem_cons, List.not_mem_nil, or_false] at hf
                  rcases hf with rfl | rfl | rfl | rfl
                  · exact e39
                  · exact e34
                  · simp [index, Ne.symm c47]
                  · simp [index, Ne.symm c42])
                simp only [Option.map_none] at key
                simp only [firstMatch] at ih ⊢
                rw [key, ih]
                simp [scanFirst, c47, c42]
        · have key := firstMatchAux_shift b t [[39], [34], [47, 47], [47, 42]] 0 none (by
            intro f hf
            simp only [List.mem_cons, List.not_mem_nil, or_false] at hf
            rcases hf with rfl | rfl | rfl | rfl
            · exact e39
            · exact e34
            · simp [index, Ne.symm h47]
            · simp [index, Ne.symm h47])
          simp only [Option.map_none] at key
          simp only [firstMatch] at ih ⊢
          rw [key, ih]
          simp [scanFirst, h39, h34, h47]

end Oryx.Json
