/-
  C06 helpers: the independent specification codec round-trips (`spec_roundtrip`), and on values
  without strict-array elements the library's encoder and the specification's produce the same bytes
  (`lib_is_spec`, `spec_is_lib`).
-/
import Oryx.Proofs.Amf0RoundTrip
import Oryx.Spec.Amf0Rel
namespace Oryx.Spec.Amf0
open Oryx

theorem readUtf8_utf8 {s : Bytes} (h : s.length ≤ 65535) (rest : Bytes) :
    readUtf8 (utf8 s ++ rest) = some (s, rest) := by
  have hb : be 2 s.length = [UInt8.ofNat (s.length / 256 % 256), UInt8.ofNat (s.length % 256)] := by
    simp [be, le]
  have h1 : (UInt8.ofNat (s.length / 256 % 256)).toNat = s.length / 256 := by
    rw [u8_toNat_ofNat_mod]; omega
  have h2 : (UInt8.ofNat (s.length % 256)).toNat = s.length % 256 := u8_toNat_ofNat_mod _
  simp only [utf8, hb, List.cons_append, List.nil_append, readUtf8, h1, h2]
  have e : s.length / 256 * 256 + s.length % 256 = s.length := by omega
  simp [e]

theorem readU32_be {n : Nat} (h : n < 4294967296) (rest : Bytes) :
    readU32 (be 4 n ++ rest) = some (n, rest) := by
  have hb : be 4 n = [UInt8.ofNat (n / 256 / 256 / 256 % 256), UInt8.ofNat (n / 256 / 256 % 256),
      UInt8.ofNat (n / 256 % 256), UInt8.ofNat (n % 256)] := by
    simp [be, le]
  simp only [hb, List.cons_append, List.nil_append, readU32, u8_toNat_ofNat_mod]
  congr 2
  omega

theorem enc_ne_nil (v : SVal) : ∃ m tl, enc v = m :: tl ∧ m ≠ 0x09 := by
  cases v <;> simp [enc]

theorem enc_pos (v : SVal) : 1 ≤ (enc v).length := by
  obtain ⟨m, tl, h, _⟩ := enc_ne_nil v
  rw [h]; simp


theorem swfP_cons {k v tl} (h : swfP (.cons k v tl) = true) : k.length ≤ 65535 ∧ swf v = true ∧ swfP tl = true := by
  simpa [swfP, and_assoc] using h

theorem swfV_cons {v tl} (h : swfV (.cons v tl) = true) : swf v = true ∧ swfV tl = true := by
  simpa [swfV] using h

theorem utf8_len (s : Bytes) : (utf8 s).length = 2 + s.length := by simp [utf8]

mutual
theorem srtVal : ∀ (v : SVal) (rest : Bytes) (fuel : Nat), swf v = true →
    (enc v ++ rest).length < fuel → dec fuel (enc v ++ rest) = some (v, rest)
  | .number b, rest, fuel, _, hf => by
    cases fuel with
    | zero => exact absurd hf (Nat.not_lt_zero _)
    | succ f =>
      have h8 : (be 8 b.toNat).length = 8 := be_length 8 _
      simp only [enc, List.cons_append, dec, if_true]
      rw [take_append_len _ _ h8, drop_append_len _ _ h8, Oryx.Amf0.u64_rt]
      simp [h8]
  | .boolean b, rest, fuel, _, hf => by
    cases fuel with
    | zero => exact absurd hf (Nat.not_lt_zero _)
    | succ f => cases b <;> simp [enc, dec]
  | .string s, rest, fuel, h, hf => by
    cases fuel with
    | zero => exact absurd hf (Nat.not_lt_zero _)
    | succ f =>
      have hs : s.length ≤ 65535 := by simpa [swf] using h
      simp [enc, dec, readUtf8_utf8 hs]
  | .null, rest, fuel, _, hf => by
    cases fuel with
    | zero => exact absurd hf (Nat.not_lt_zero _)
    | succ f => simp [enc, dec]
  | .undefined, rest, fuel, _, hf => by
    cases fuel with
    | zero => exact absurd hf (Nat.not_lt_zero _)
    | succ f => simp [enc, dec]
  | .object ps, rest, fuel, h, hf => by
    cases fuel with
    | zero => exact absurd hf (Nat.not_lt_zero _)
    | succ f =>
      have hps : swfP ps = true := by simpa [swf] using h
      have hf' : (encProps ps ++ (0 :: 0 :: 9 :: rest)).length < f := by
        simp [enc, objectEnd] at hf ⊢; omega
      have ih := srtProps ps rest f hps hf'
      simp [enc, objectEnd, dec, ih]
  | .ecmaArray n ps, rest, fuel, h, hf => by
    cases fuel with
    | zero => exact absurd hf (Nat.not_lt_zero _)
    | succ f =>
      have ⟨hc, hps⟩ : n < 4294967296 ∧ swfP ps = true := by simpa [swf] using h
      have hf' : (encProps ps ++ (0 :: 0 :: 9 :: rest)).length < f := by
        simp [enc, objectEnd] at hf ⊢; omega
      have ih := srtProps ps rest f hps hf'
      simp only [enc, objectEnd, List.cons_append, List.append_assoc, List.nil_append, dec]
      rw [readU32_be hc]
      simp [ih]
  | .strictArray vs, rest, fuel, h, hf => by
    cases fuel with
    | zero => exact absurd hf (Nat.not_lt_zero _)
    | succ f =>
      have ⟨hc, hvs⟩ : vs.length < 4294967296 ∧ swfV vs = true := by simpa [swf] using h
      have ih := srtVals vs rest f hvs (by simp [enc] at hf ⊢; omega)
      simp only [enc, List.cons_append, List.append_assoc, dec]
      rw [readU32_be hc]
      simp [ih]
theorem srtProps : ∀ (ps : SProps) (rest : Bytes) (fuel : Nat), swfP ps = true →
    (encProps ps ++ (0 :: 0 :: 9 :: rest)).length < fuel →
    decProps fuel (encProps ps ++ (0 :: 0 :: 9 :: rest)) = some (ps, rest)
  | .nil, rest, fuel, _, hf => by
    cases fuel with
    | zero => exact absurd hf (Nat.not_lt_zero _)
    | succ f => simp [encProps, decProps, readUtf8]
  | .cons k v tl, rest, fuel, h, hf => by
    cases fuel with
    | zero => exact absurd hf (Nat.not_lt_zero _)
    | succ f =>
      obtain ⟨hk, hv, htl⟩ := swfP_cons h
      have hlen : (encProps (.cons k v tl) ++ (0 :: 0 :: 9 :: rest)).length =
          (2 + k.length) + ((enc v).length + (encProps tl ++ (0 :: 0 :: 9 :: rest)).length) := by
        simp only [encProps, List.length_append, utf8_len]; omega
      rw [hlen] at hf
      have hsz := enc_pos v
      have e1 : (enc v ++ (encProps tl ++ (0 :: 0 :: 9 :: rest))).length =
          (enc v).length + (encProps tl ++ (0 :: 0 :: 9 :: rest)).length := by rw [List.length_append]
      have ihv := srtVal v (encProps tl ++ (0 :: 0 :: 9 :: rest)) f hv (by rw [e1]; omega)
      have iht := srtProps tl rest f htl (by omega)
      obtain ⟨m, t, he, hm⟩ := enc_ne_nil v
      simp only [encProps, List.append_assoc, decProps, readUtf8_utf8 hk]
      have he' : enc v ++ (encProps tl ++ (0 :: 0 :: 9 :: rest)) = m :: (t ++ (encProps tl ++ (0 :: 0 :: 9 :: rest))) := by
        rw [he]; rfl
      rw [he']
      simp only [hm, and_false, if_false]
      rw [← he', ihv]
      simp only [iht]
theorem srtVals : ∀ (vs : SVals) (rest : Bytes) (fuel : Nat), swfV vs = true →
    (encVals vs ++ rest).length + 1 < fuel →
    decVals fuel vs.length (encVals vs ++ rest) = some (vs, rest)
  | .nil, rest, fuel, _, _ => by
    cases fuel <;> simp [encVals, SVals.length, decVals]
  | .cons v tl, rest, fuel, h, hf => by
    obtain ⟨hv, htl⟩ := swfV_cons h
    have hsz := enc_pos v
    have hlen : (encVals (.cons v tl) ++ rest).length = (enc v).length + (encVals tl ++ rest).length := by
      simp only [encVals, List.length_append]; omega
    rw [hlen] at hf
    cases fuel with
    | zero => omega
    | succ f =>
      have e1 : (enc v ++ (encVals tl ++ rest)).length = (enc v).length + (encVals tl ++ rest).length := by
        rw [List.length_append]
      have ihv := srtVal v (encVals tl ++ rest) f hv (by rw [e1]; omega)
      have iht := srtVals tl rest f htl (by omega)
      simp only [encVals, List.append_assoc, SVals.length, decVals, ihv, iht]
end

theorem spec_roundtrip (v : SVal) (h : swf v = true) (rest : Bytes) :
    decode (enc v ++ rest) = some (v, rest) :=
  srtVal v rest _ h (Nat.lt_succ_self _)

end Oryx.Spec.Amf0

namespace Oryx.Amf0
open Oryx Oryx.Spec.Amf0

theorem utf8Enc_eq_spec {k : Bytes} (h : k.length ≤ 65535) : utf8Enc k = utf8 k := by
  rw [utf8Enc_of_le h]; rfl

mutual
/-- Library value without strict-array elements → its specification value has the same bytes. -/
theorem lib_is_spec : ∀ v : Val, wf v = true → compat v = true →
    ∃ s, toSpec v = some s ∧ swf s = true ∧ scompat s = true ∧ enc s = encode v
  | .num b, _, _ => ⟨.number b, rfl, rfl, rfl, rfl⟩
  | .bool b, _, _ => ⟨.boolean b, rfl, rfl, rfl, by cases b <;> rfl⟩
  | .str s, h, _ => by
    have hs : s.length ≤ 65535 := by simpa [wf] using h
    exact ⟨.string s, rfl, by simpa [swf] using hs, rfl, by simp [enc, encode, utf8Enc_eq_spec hs]⟩
  | .null, _, _ => ⟨.null, rfl, rfl, rfl, rfl⟩
  | .undef, _, _ => ⟨.undefined, rfl, rfl, rfl, rfl⟩
  | .eof, h, _ => by simp [wf] at h
  | .obj ps, h, hc => by
    obtain ⟨sp, h1, h2, h3, h4⟩ := lib_is_specP ps (by simpa [wf] using h) (by simpa [compat] using hc)
    exact ⟨.object sp, by simp [toSpec, h1], by simpa [swf] using h2, by simpa [scompat] using h3,
      by simp [enc, encode, h4, objectEnd, eofBytes]⟩
  | .ecma c ps, h, hc => by
    have ⟨hcn, hps⟩ : c < 4294967296 ∧ wfP ps = true := by simpa [wf] using h
    obtain ⟨sp, h1, h2, h3, h4⟩ := lib_is_specP ps hps (by simpa [compat] using hc)
    exact ⟨.ecmaArray c sp, by simp [toSpec, h1], by simp [swf, h2, hcn], by simpa [scompat] using h3,
      by simp [enc, encode, h4, objectEnd, eofBytes]⟩
  | .strict ps, _, hc => by
    cases ps with
    | nil => exact ⟨.strictArray .nil, rfl, rfl, rfl, rfl⟩
    | cons k v tl => simp [compat] at hc
theorem lib_is_specP : ∀ ps : Props, wfP ps = true → compatP ps = true →
    ∃ sp, toSpecP ps = some sp ∧ swfP sp = true ∧ scompatP sp = true ∧ encProps sp = encodeP ps
  | .nil, _, _ => ⟨.nil, rfl, rfl, rfl, rfl⟩
  | .cons k v tl, h, hc => by
    obtain ⟨hk, hv, htl⟩ := wfP_cons h
    have ⟨hcv, hctl⟩ : compat v = true ∧ compatP tl = true := by simpa [compatP] using hc
    obtain ⟨s, a1, a2, a3, a4⟩ := lib_is_spec v hv hcv
    obtain ⟨sp, b1, b2, b3, b4⟩ := lib_is_specP tl htl hctl
    exact ⟨.cons k s sp, by simp [toSpecP, a1, b1], by simp [swfP, a2, b2, hk], by simp [scompatP, a3, b3],
      by simp [encProps, encodeP, a4, b4, utf8Enc_eq_spec hk]⟩
end

mutual
/-- Specification value without strict-array elements → its library value has the same bytes. -/
theorem spec_is_lib : ∀ s : SVal, swf s = true → scompat s = true →
    wf (ofSpec s) = true ∧ compat (ofSpec s) = true ∧ toSpec (ofSpec s) = some s ∧ encode (ofSpec s) = enc s
  | .number b, _, _ => ⟨rfl, rfl, rfl, rfl⟩
  | .boolean b, _, _ => ⟨rfl, rfl, rfl, by cases b <;> rfl⟩
  | .string s, h, _ => by
    have hs : s.length ≤ 65535 := by simpa [swf] using h
    exact ⟨by simpa [ofSpec, wf] using hs, rfl, rfl, by simp [ofSpec, enc, encode, utf8Enc_eq_spec hs]⟩
  | .null, _, _ => ⟨rfl, rfl, rfl, rfl⟩
  | .undefined, _, _ => ⟨rfl, rfl, rfl, rfl⟩
  | .object ps, h, hc => by
    obtain ⟨h1, h2, h3, h4⟩ := spec_is_libP ps (by simpa [swf] using h) (by simpa [scompat] using hc)
    exact ⟨by simpa [ofSpec, wf] using h1, by simpa [ofSpec, compat] using h2, by simp [ofSpec, toSpec, h3],
      by simp [ofSpec, enc, encode, h4, objectEnd, eofBytes]⟩
  | .ecmaArray c ps, h, hc => by
    have ⟨hcn, hps⟩ : c < 4294967296 ∧ swfP ps = true := by simpa [swf] using h
    obtain ⟨h1, h2, h3, h4⟩ := spec_is_libP ps hps (by simpa [scompat] using hc)
    exact ⟨by simp [ofSpec, wf, h1, hcn], by simpa [ofSpec, compat] using h2, by simp [ofSpec, toSpec, h3],
      by simp [ofSpec, enc, encode, h4, objectEnd, eofBytes]⟩
  | .strictArray vs, _, hc => by
    cases vs with
    | nil => exact ⟨rfl, rfl, rfl, rfl⟩
    | cons v tl => simp [scompat] at hc
theorem spec_is_libP : ∀ sp : SProps, swfP sp = true → scompatP sp = true →
    wfP (ofSpecP sp) = true ∧ compatP (ofSpecP sp) = true ∧ toSpecP (ofSpecP sp) = some sp ∧
    encodeP (ofSpecP sp) = encProps sp
  | .nil, _, _ => ⟨rfl, rfl, rfl, rfl⟩
  | .cons k v tl, h, hc => by
    obtain ⟨hk, hv, htl⟩ := swfP_cons h
    have ⟨hcv, hctl⟩ : scompat v = true ∧ scompatP tl = true := by simpa [scompatP] using hc
    obtain ⟨a1, a2, a3, a4⟩ := spec_is_lib v hv hcv
    obtain ⟨b1, b2, b3, b4⟩ := spec_is_libP tl htl hctl
    exact ⟨by simp [ofSpecP, wfP, a1, b1, hk], by simp [ofSpecP, compatP, a2, b2], by simp [ofSpecP, toSpecP, a3, b3],
      by simp [ofSpecP, encProps, encodeP, a4, b4, utf8Enc_eq_spec hk]⟩
end

end Oryx.Amf0
