/-
  Helper lemmas for C03 (RTMP packet layer), part 1: exact sizes, the primitive field decoders,
  panic-freedom of every `UnmarshalBinary` and of `DecodeMessage`.
-/
import Oryx.Model.RtmpPkt
import Oryx.Proofs.Amf0Extra
namespace Oryx.RtmpPkt
open Oryx Oryx.Res Oryx.Amf0 Oryx.Rtmp

/-! ### Size() = len(MarshalBinary()) -/

theorem optEnc_length (o : Option Val) : (optEnc o).length = optSize o := by
  cases o <;> simp [optEnc, optSize, encode_length]

theorem ObjCall.marshal_length (c : ObjCall) : c.marshal.length = c.size := by
  unfold ObjCall.marshal ObjCall.size
  cases c.args <;> simp [encode_length] <;> omega

theorem VarCall.marshal_length (c : VarCall) : c.marshal.length = c.size := by
  unfold VarCall.marshal VarCall.size
  simp [encode_length, optEnc_length]; omega

theorem userControl_marshal_length (evt d x : Nat) :
    (Packet.userControl evt d x).marshal.length = userControlSize evt := by
  unfold Packet.marshal userControlSize
  simp only [List.length_append, be_length]
  split <;> split <;> simp <;> omega

theorem marshal_length (p : Packet) : p.marshal.length = p.size := by
  cases p with
  | connect c => exact ObjCall.marshal_length c
  | connectRes c => exact ObjCall.marshal_length c
  | createStream c => exact VarCall.marshal_length c
  | createStreamRes c sid => simp [Packet.marshal, Packet.size, VarCall.marshal_length, encode_length]
  | publish c sn st => simp [Packet.marshal, Packet.size, VarCall.marshal_length, encode_length]; omega
  | play c sn => simp [Packet.marshal, Packet.size, VarCall.marshal_length, encode_length]
  | call c a => simp [Packet.marshal, Packet.size, VarCall.marshal_length, optEnc_length]
  | setChunkSize v => simp [Packet.marshal, Packet.size]
  | winAck v => simp [Packet.marshal, Packet.size]
  | setPeerBw v l => simp [Packet.marshal, Packet.size]
  | userControl e d x => exact userControl_marshal_length e d x

/-! ### the primitive field decoders: never panic; on success the value's `Size()` fits the input -/

theorem strDec_ne_panic (p : Bytes) : strDec p ≠ .panic := by
  unfold strDec
  split
  · simp
  · split
    · simp
    · apply Res.bind_ne_panic (utf8Dec_ne_panic _)
      intro a _; simp

theorem strDec_ok {p s : Bytes} (h : strDec p = ok s) :
    Amf0.size (.str s) ≤ p.length ∧ s.length ≤ 65535 ∧ ∃ q, p = mString :: q ∧ ∃ r, utf8Dec q = ok (s, r) := by
  unfold strDec at h
  split at h
  · cases h
  · next m q =>
    split at h
    · cases h
    · next hm =>
      rw [Res.bind_eq_ok] at h
      obtain ⟨⟨s', r⟩, hu, h⟩ := h
      injection h with h; subst h
      obtain ⟨h1, _, h3⟩ := utf8Dec_ok hu
      have hm' : m = mString := by simpa using hm
      subst hm'
      refine ⟨?_, h3, q, rfl, r, hu⟩
      simp only [Amf0.size, List.length_cons]; omega

theorem numDec_ne_panic (p : Bytes) : numDec p ≠ .panic := by
  unfold numDec
  split
  · simp
  · split
    · split <;> simp
    · simp

theorem numDec_ok {p : Bytes} {t : UInt64} (h : numDec p = ok t) : 9 ≤ p.length := by
  unfold numDec at h
  split at h
  · cases h
  · omega

theorem objDec_ne_panic (p : Bytes) : objDec p ≠ .panic := by
  unfold objDec
  split
  · simp
  · next m q =>
    split
    · simp
    · apply Res.bind_ne_panic ((decode_np _).2.1 q (by simp))
      intro a _; simp

theorem objDec_ok {p : Bytes} {ps : Props} (h : objDec p = ok ps) : Amf0.size (.obj ps) ≤ p.length := by
  unfold objDec at h
  split at h
  · cases h
  · next m q =>
    split at h
    · cases h
    · rw [Res.bind_eq_ok] at h
      obtain ⟨⟨ps', r⟩, hd, h⟩ := h
      injection h with h; subst h
      obtain ⟨h1, _⟩ := (decode_good _).2.1 _ _ _ hd
      simp only [Amf0.size, List.length_cons]; omega

theorem anyDec_ne_panic (p : Bytes) : anyDec p ≠ .panic := by
  unfold anyDec
  apply Res.bind_ne_panic (decode_ne_panic p)
  intro a _; simp

theorem anyDec_ok {p : Bytes} {v : Val} (h : anyDec p = ok v) : Amf0.size v ≤ p.length ∧ ∃ r, decode p = ok (v, r) := by
  unfold anyDec at h
  rw [Res.bind_eq_ok] at h
  obtain ⟨⟨v', r⟩, hd, h⟩ := h
  injection h with h; subst h
  exact ⟨((decode_good _).1 _ _ _ hd).1, r, hd⟩

theorem u32_ne_panic {b : Bytes} (h : 4 ≤ b.length) : u32 b ≠ .panic := by
  unfold u32; split
  · omega
  · simp

theorem idx_ne_panic {α} {l : List α} {i : Nat} (h : i < l.length) : idx l i ≠ .panic := by
  unfold idx
  rw [List.getElem?_eq_getElem h]; simp

theorem sliceFrom_length {α} {l r : List α} {n : Nat} (h : sliceFrom l n = ok r) : r.length + n = l.length := by
  obtain ⟨h1, h2⟩ := sliceFrom_ok h
  subst h2; simp; omega

/-! ### the two call layouts -/

theorem ObjCall.unmarshal_ne_panic (data : Bytes) : ObjCall.unmarshal data ≠ .panic := by
  unfold ObjCall.unmarshal
  apply Res.bind_ne_panic (strDec_ne_panic _)
  intro name hn
  apply Res.bind_ne_panic (sliceFrom_ne_panic (strDec_ok hn).1)
  intro p1 _
  apply Res.bind_ne_panic (numDec_ne_panic _)
  intro tid ht
  apply Res.bind_ne_panic (sliceFrom_ne_panic (by simpa [Amf0.size] using numDec_ok ht))
  intro p2 _
  apply Res.bind_ne_panic (objDec_ne_panic _)
  intro obj ho
  apply Res.bind_ne_panic (sliceFrom_ne_panic (objDec_ok ho))
  intro p3 _
  split
  · simp
  · apply Res.bind_ne_panic (objDec_ne_panic _)
    intro a _; simp

theorem VarCall.unmarshal_ne_panic (data : Bytes) : VarCall.unmarshal data ≠ .panic := by
  unfold VarCall.unmarshal
  apply Res.bind_ne_panic (strDec_ne_panic _)
  intro name hn
  apply Res.bind_ne_panic (sliceFrom_ne_panic (strDec_ok hn).1)
  intro p1 _
  apply Res.bind_ne_panic (numDec_ne_panic _)
  intro tid ht
  apply Res.bind_ne_panic (sliceFrom_ne_panic (by simpa [Amf0.size] using numDec_ok ht))
  intro p2 _
  split
  · apply Res.bind_ne_panic (anyDec_ne_panic _)
    intro v hv
    apply Res.bind_ne_panic (sliceFrom_ne_panic (anyDec_ok hv).1)
    intro _ _; simp
  · simp

/-- After a successful decode `Size()` of the variant call is at most the input length (what makes the
callers' `p[v.variantCallPacket.Size():]` safe — since the repair of F20). -/
theorem VarCall.unmarshal_ok {data : Bytes} {c : VarCall} (h : VarCall.unmarshal data = ok c) :
    c.size ≤ data.length := by
  unfold VarCall.unmarshal at h
  rw [Res.bind_eq_ok] at h; obtain ⟨name, hn, h⟩ := h
  rw [Res.bind_eq_ok] at h; obtain ⟨p1, h1, h⟩ := h
  rw [Res.bind_eq_ok] at h; obtain ⟨tid, ht, h⟩ := h
  rw [Res.bind_eq_ok] at h; obtain ⟨p2, h2, h⟩ := h
  have l1 := sliceFrom_length h1
  have l2 := sliceFrom_length h2
  split at h
  · rw [Res.bind_eq_ok] at h; obtain ⟨v, hv, h⟩ := h
    rw [Res.bind_eq_ok] at h; obtain ⟨_, _, h⟩ := h
    injection h with h; subst h
    have := (anyDec_ok hv).1
    simp only [VarCall.size, optSize]; omega
  · injection h with h; subst h
    simp only [VarCall.size, optSize]; omega

/-! ### every `UnmarshalBinary` is panic-free -/

theorem unmarshal_ne_panic (k : Kind) (data : Bytes) : unmarshal k data ≠ .panic := by
  cases k <;> rw [unmarshal]
  · -- connect
    apply Res.bind_ne_panic (ObjCall.unmarshal_ne_panic _)
    intro c _
    split
    · simp
    · split <;> simp
  · apply Res.bind_ne_panic (ObjCall.unmarshal_ne_panic _)
    intro c _
    split <;> simp
  · apply Res.bind_ne_panic (VarCall.unmarshal_ne_panic _)
    intro c _; simp
  · -- createStreamRes
    apply Res.bind_ne_panic (VarCall.unmarshal_ne_panic _)
    intro c hc
    apply Res.bind_ne_panic (sliceFrom_ne_panic (VarCall.unmarshal_ok hc))
    intro p _
    apply Res.bind_ne_panic (numDec_ne_panic _)
    intro _ _; simp
  · -- publish
    apply Res.bind_ne_panic (VarCall.unmarshal_ne_panic _)
    intro c hc
    apply Res.bind_ne_panic (sliceFrom_ne_panic (VarCall.unmarshal_ok hc))
    intro p _
    apply Res.bind_ne_panic (strDec_ne_panic _)
    intro sn hsn
    apply Res.bind_ne_panic (sliceFrom_ne_panic (strDec_ok hsn).1)
    intro p' _
    apply Res.bind_ne_panic (strDec_ne_panic _)
    intro _ _; simp
  · -- play
    apply Res.bind_ne_panic (VarCall.unmarshal_ne_panic _)
    intro c hc
    apply Res.bind_ne_panic (sliceFrom_ne_panic (VarCall.unmarshal_ok hc))
    intro p _
    apply Res.bind_ne_panic (strDec_ne_panic _)
    intro sn hsn
    apply Res.bind_ne_panic (sliceFrom_ne_panic (strDec_ok hsn).1)
    intro _ _; simp
  · -- call
    apply Res.bind_ne_panic (VarCall.unmarshal_ne_panic _)
    intro c hc
    apply Res.bind_ne_panic (sliceFrom_ne_panic (VarCall.unmarshal_ok hc))
    intro p _
    split
    · apply Res.bind_ne_panic (anyDec_ne_panic _)
      intro _ _; simp
    · simp
  · -- setChunkSize
    split
    · simp
    · apply Res.bind_ne_panic (u32_ne_panic (by omega))
      intro _ _; simp
  · split
    · simp
    · apply Res.bind_ne_panic (u32_ne_panic (by omega))
      intro _ _; simp
  · -- setPeerBw
    split
    · simp
    · apply Res.bind_ne_panic (u32_ne_panic (by omega))
      intro _ _
      apply Res.bind_ne_panic (idx_ne_panic (by omega))
      intro _ _; simp
  · -- userControl
    split
    · simp
    · next h3 =>
      simp only []
      split
      · simp
      · next hsz =>
        have hsz' : userControlSize (ofBE (List.take 2 data)) ≤ data.length := by omega
        unfold userControlSize at hsz'
        apply Res.bind_ne_panic
        · split
          · apply Res.bind_ne_panic (idx_ne_panic (by omega))
            intro _ _; simp
          · next hf =>
            rw [if_neg hf] at hsz'
            apply Res.bind_ne_panic (sliceFrom_ne_panic (by omega))
            intro q hq
            have := sliceFrom_length hq
            exact u32_ne_panic (by omega)
        · intro d _
          apply Res.bind_ne_panic
          · split
            · next hs =>
              have hne : ¬ (ofBE (List.take 2 data) = Gen.Rtmp.EventTypeFmsEvent0) := by rw [hs]; decide
              rw [if_pos hs, if_neg hne] at hsz'
              apply Res.bind_ne_panic (sliceFrom_ne_panic (by omega))
              intro q hq
              have := sliceFrom_length hq
              exact u32_ne_panic (by omega)
            · simp
          · intro _ _; simp

/-! ### DecodeMessage never panics -/

theorem ctorResult_ne_panic (c : Gen.Rtmp.Ctor) (tbl : TxnTable) : (ctorResult c tbl).1 ≠ .panic := by
  unfold ctorResult; split <;> simp

theorem ctorResult_tbl (c : Gen.Rtmp.Ctor) (tbl : TxnTable) : (ctorResult c tbl).2 = tbl := by
  unfold ctorResult; split <;> rfl

theorem decodeWith_ne_panic (r : Res Kind × TxnTable) (p : Bytes) (h : r.1 ≠ .panic) : (decodeWith r p).1 ≠ .panic := by
  obtain ⟨r, t⟩ := r
  cases r with
  | ok k => exact unmarshal_ne_panic k p
  | err e => simp [decodeWith]
  | panic => exact absurd rfl h

theorem parseAMFObject_ne_panic (tbl : TxnTable) (p : Bytes) : (parseAMFObject tbl p).1 ≠ .panic := by
  unfold parseAMFObject
  split
  · simp
  · next h => exact absurd h (strDec_ne_panic p)
  · next name hn =>
    split
    · split
      · simp
      · next h =>
        exact absurd h (Res.bind_ne_panic (sliceFrom_ne_panic (strDec_ok hn).1) (fun a _ => numDec_ne_panic a))
      · split
        · simp
        · exact ctorResult_ne_panic _ _
    · exact ctorResult_ne_panic _ _

theorem dispatchSt_ne_panic (tbl : TxnTable) (m : Msg) : (dispatchSt tbl m).1 ≠ .panic := by
  unfold dispatchSt
  split
  · simp
  · next hlen =>
    split
    · simp
    · next h =>
      exfalso
      split at h
      · exact sliceFrom_ne_panic (by omega) h
      · cases h
    · next p _ =>
      split
      · exact decodeWith_ne_panic _ _ (parseAMFObject_ne_panic tbl p)
      · exact decodeWith_ne_panic _ _ (ctorResult_ne_panic _ _)

theorem dispatch_ne_panic (tbl : TxnTable) (m : Msg) : dispatch tbl m ≠ .panic := by
  unfold dispatch
  split
  · simp
  · simp
  · next h =>
    have := dispatchSt_ne_panic tbl m
    rw [h] at this
    exact absurd rfl this

theorem expectPacket_ne_panic (k : Kind) : ∀ (msgs : List Msg) (tbl : TxnTable), (expectPacket k tbl msgs).1 ≠ .panic
  | [], tbl => by simp [expectPacket]
  | m :: ms, tbl => by
    unfold expectPacket
    split
    · split
      · simp
      · exact expectPacket_ne_panic k ms _
    · simp
    · next h =>
      have := dispatchSt_ne_panic tbl m
      rw [h] at this
      exact absurd rfl this

theorem expectMessage_ne_panic (types : List Nat) : ∀ msgs : List Msg, expectMessage types msgs ≠ .panic
  | [] => by simp [expectMessage]
  | m :: ms => by
    unfold expectMessage
    split
    · simp
    · exact expectMessage_ne_panic types ms

end Oryx.RtmpPkt
