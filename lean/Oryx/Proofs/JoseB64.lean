/-
  The base64url decoder's leniency, exactly: for texts over the alphabet (no padding, no newlines),
  a successful decode re-encodes to the canonical form of the text (unused low bits of the last
  character cleared) — so two texts decode to the same octets iff their canonical forms agree.
-/
import Oryx.Proofs.Jose
namespace Oryx.Jose
open Oryx Oryx.Res

theorem sextet_lt {c : Char} {n : Nat} (h : sextet c = some n) : n < 64 := by
  unfold sextet at h
  simp only at h
  split at h
  · cases h; assumption
  · cases h

theorem encChar_sextet {c : Char} {n : Nat} (h : sextet c = some n) : encChar n = c := by
  have hn := sextet_lt h
  unfold sextet at h
  simp only at h
  split at h
  · rename_i hlt
    cases h
    have hl : alphabet.idxOf c < alphabet.length := by
      have : alphabet.length = 64 := by decide
      omega
    simp only [encChar, List.getD_eq_getElem?_getD, List.getElem?_eq_getElem hl, Option.getD_some]
    exact List.getElem_idxOf hl
  · cases h

theorem B64Char.sextet {c : Char} (h : B64Char c) : ∃ n, n < 64 ∧ Jose.sextet c = some n := by
  obtain ⟨n, hn, rfl⟩ := h
  exact ⟨n, hn, sextet_enc hn⟩

theorem unb64_alpha (s : List Char) (h : ∀ c ∈ s, B64Char c) :
    unb64 s = decQ (s ++ List.replicate ((4 - s.length % 4) % 4) '=') := by
  unfold unb64
  rw [filter_nl_of]
  intro c hc
  simp only [List.mem_append, List.mem_replicate] at hc
  rcases hc with hc | ⟨_, rfl⟩
  · exact (h c hc).props.2.2.1
  · decide

theorem toNat_ofNat_lt {n : Nat} (h : n < 256) : (UInt8.ofNat n).toNat = n := by
  rw [UInt8.toNat_ofNat']; exact Nat.mod_eq_of_lt h

/-- Successful decodes re-encode to the canonical form of the input. -/
theorem b64_unb64_canon : ∀ (s : List Char), (∀ c ∈ s, B64Char c) → ∀ b, unb64 s = ok b → b64 b = canonLast s := by
  intro s
  induction s using canonLast.induct with
  | case1 c1 c2 c3 c4 rest ih =>
    intro h b hb
    have hrest : ∀ c ∈ rest, B64Char c := fun c hc => h c (by simp [hc])
    obtain ⟨s1, l1, e1⟩ := (h c1 (by simp)).sextet
    obtain ⟨s2, l2, e2⟩ := (h c2 (by simp)).sextet
    obtain ⟨s3, l3, e3⟩ := (h c3 (by simp)).sextet
    obtain ⟨s4, l4, e4⟩ := (h c4 (by simp)).sextet
    rw [unb64_alpha _ h] at hb
    have hl : (c1 :: c2 :: c3 :: c4 :: rest).length = rest.length + 4 := by simp
    rw [hl, padCount_add4] at hb
    simp only [List.cons_append, decQ, e1, e2, e3, e4] at hb
    rw [← unb64_alpha rest hrest] at hb
    cases hr : unb64 rest with
    | ok r =>
      rw [hr] at hb
      cases hb
      have := ih hrest r hr
      simp only [b64, canonLast, this]
      rw [toNat_ofNat_lt (by omega), toNat_ofNat_lt (by omega), toNat_ofNat_lt (by omega)]
      have a1 : (s1 * 4 + s2 / 16) / 4 = s1 := by omega
      have a2 : (s1 * 4 + s2 / 16) % 4 * 16 + (s2 % 16 * 16 + s3 / 4) / 16 = s2 := by omega
      have a3 : (s2 % 16 * 16 + s3 / 4) % 16 * 4 + (s3 % 4 * 64 + s4) / 64 = s3 := by omega
      have a4 : (s3 % 4 * 64 + s4) % 64 = s4 := by omega
      rw [a1, a2, a3, a4, encChar_sextet e1, encChar_sextet e2, encChar_sextet e3, encChar_sextet e4]
    | err k => rw [hr] at hb; cases hb
    | panic => rw [hr] at hb; cases hb
  | case2 c1 c2 =>
    intro h b hb
    obtain ⟨s1, l1, e1⟩ := (h c1 (by simp)).sextet
    obtain ⟨s2, l2, e2⟩ := (h c2 (by simp)).sextet
    have hp : sextet '=' = none := by decide
    rw [unb64_alpha _ h] at hb
    simp only [List.length_cons, List.length_nil, List.replicate, List.cons_append, List.nil_append,
      decQ, e1, e2, hp, and_self, if_true] at hb
    cases hb
    simp only [b64, canonLast, clearLow, e2]
    rw [toNat_ofNat_lt (by omega)]
    have a1 : (s1 * 4 + s2 / 16) / 4 = s1 := by omega
    have a2 : (s1 * 4 + s2 / 16) % 4 * 16 = s2 / 16 * 16 := by omega
    rw [a1, a2, encChar_sextet e1]
  | case3 c1 c2 c3 =>
    intro h b hb
    obtain ⟨s1, l1, e1⟩ := (h c1 (by simp)).sextet
    obtain ⟨s2, l2, e2⟩ := (h c2 (by simp)).sextet
    obtain ⟨s3, l3, e3⟩ := (h c3 (by simp)).sextet
    have hp : sextet '=' = none := by decide
    rw [unb64_alpha _ h] at hb
    simp only [List.length_cons, List.length_nil, List.replicate, List.cons_append, List.nil_append,
      decQ, e1, e2, e3, hp, and_self, if_true] at hb
    cases hb
    simp only [b64, canonLast, clearLow, e3]
    rw [toNat_ofNat_lt (by omega), toNat_ofNat_lt (by omega)]
    have a1 : (s1 * 4 + s2 / 16) / 4 = s1 := by omega
    have a2 : (s1 * 4 + s2 / 16) % 4 * 16 + (s2 % 16 * 16 + s3 / 4) / 16 = s2 := by omega
    have a3 : (s2 % 16 * 16 + s3 / 4) % 16 * 4 = s3 / 4 * 4 := by omega
    rw [a1, a2, a3, encChar_sextet e1, encChar_sextet e2]
  | case4 s h1 h2 h3 =>
    intro h b hb
    -- the remaining shapes: [] and [c]
    match s, h1, h2, h3 with
    | [], _, _, _ =>
      rw [unb64_alpha _ h] at hb
      simp [decQ] at hb
      cases hb
      rfl
    | [c], _, _, _ =>
      exfalso
      obtain ⟨s1, l1, e1⟩ := (h c (by simp)).sextet
      have hp : sextet '=' = none := by decide
      rw [unb64_alpha _ h] at hb
      simp [decQ, e1, hp] at hb
    | [c1, c2], _, h2, _ => exact absurd rfl (h2 c1 c2)
    | [c1, c2, c3], _, _, h3 => exact absurd rfl (h3 c1 c2 c3)
    | c1 :: c2 :: c3 :: c4 :: r, h1, _, _ => exact absurd rfl (h1 c1 c2 c3 c4 r)

/-- A text of length ≡ 1 (mod 4) over the alphabet never decodes. -/
theorem unb64_len1_fails (c : Char) (h : B64Char c) : unb64 [c] = err .generic := by
  obtain ⟨s1, l1, e1⟩ := h.sextet
  have hp : sextet '=' = none := by decide
  rw [unb64_alpha _ (by intro x hx; simp at hx; subst hx; exact h)]
  simp [decQ, e1, hp]

end Oryx.Jose
