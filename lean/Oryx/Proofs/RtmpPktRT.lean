/-
  Helper lemmas for C03, part 2: `UnmarshalBinary (MarshalBinary p) = p` for every well-formed packet
  (arbitrary well-formed AMF0 trees through C05's round trip), the user-control body rule.
-/
import Oryx.Proofs.RtmpPkt
namespace Oryx.RtmpPkt
open Oryx Oryx.Res Oryx.Amf0 Oryx.Rtmp

/-! ### fields -/

theorem strDec_enc {s : Bytes} (h : s.length ≤ 65535) (rest : Bytes) :
    strDec (encode (.str s) ++ rest) = ok s := by
  simp only [encode, List.cons_append, strDec]
  rw [utf8Dec_enc h]
  simp

theorem slice_enc (v : Val) (rest : Bytes) : sliceFrom (encode v ++ rest) (Amf0.size v) = ok rest :=
  sliceFrom_append _ _ (encode_length v)

theorem numDec_enc (t : UInt64) (rest : Bytes) : numDec (encode (.num t) ++ rest) = ok t := by
  have h8 : (be 8 t.toNat).length = 8 := be_length 8 _
  simp only [encode, List.cons_append, numDec, List.length_cons, List.length_append, h8]
  rw [take_append_len _ _ h8, u64_rt]
  have e : ¬ (8 + rest.length + 1 < 9) := by omega
  simp [e]

theorem objDec_enc {ps : Props} (h : wfP ps = true) (rest : Bytes) :
    objDec (encode (.obj ps) ++ rest) = ok ps := by
  simp only [encode, eofBytes, List.cons_append, List.append_assoc, List.nil_append, objDec]
  rw [rtProps ps rest _ h (by simp)]
  simp

theorem anyDec_enc {v : Val} (h : wf v = true) (rest : Bytes) : anyDec (encode v ++ rest) = ok v := by
  unfold anyDec decode
  rw [rtVal v rest _ h (Nat.lt_succ_self _)]
  rfl

theorem encode_ne_nil (v : Val) : encode v ≠ [] := by
  intro h
  have := encode_length v
  rw [h] at this
  have := size_pos v
  simp at *; omega

theorem u32_be {v : Nat} (h : v < 4294967296) (rest : Bytes) : u32 (be 4 v ++ rest) = ok v := by
  have h4 : (be 4 v).length = 4 := be_length 4 _
  unfold u32
  rw [take_append_len _ _ h4, ofBE_be_of_lt (by simpa using h)]
  simp [h4]

/-! ### the two call layouts -/

theorem ObjCall.unmarshal_marshal (c : ObjCall) (h : c.wf = true) : ObjCall.unmarshal c.marshal = ok c := by
  obtain ⟨name, tid, obj, args⟩ := c
  simp only [ObjCall.wf, Bool.and_eq_true, decide_eq_true_eq] at h
  obtain ⟨⟨hn, ho⟩, ha⟩ := h
  unfold ObjCall.unmarshal ObjCall.marshal
  simp only []
  rw [strDec_enc hn]; simp only [Res.bind_ok]
  rw [slice_enc]; simp only [Res.bind_ok]
  rw [numDec_enc]; simp only [Res.bind_ok]
  rw [slice_enc]; simp only [Res.bind_ok]
  rw [objDec_enc ho]; simp only [Res.bind_ok]
  rw [slice_enc]; simp only [Res.bind_ok]
  cases args with
  | none => simp
  | some a =>
    have hne : (encode (.obj a)).length ≠ 0 := by
      intro h0; exact encode_ne_nil _ (List.eq_nil_of_length_eq_zero h0)
    simp only [hne, if_false]
    have := objDec_enc (ps := a) ha []
    rw [List.append_nil] at this
    rw [this]; rfl

/-- With a command object, whatever follows the call is left alone. -/
theorem VarCall.unmarshal_some (name : Bytes) (tid : UInt64) (v : Val) (hn : name.length ≤ 65535) (hv : Amf0.wf v = true)
    (rest : Bytes) :
    VarCall.unmarshal ((VarCall.mk name tid (some v)).marshal ++ rest) = ok (VarCall.mk name tid (some v)) := by
  unfold VarCall.unmarshal VarCall.marshal
  simp only [optEnc, List.append_assoc]
  rw [strDec_enc hn]; simp only [Res.bind_ok]
  rw [slice_enc]; simp only [Res.bind_ok]
  rw [numDec_enc]; simp only [Res.bind_ok]
  rw [slice_enc]; simp only [Res.bind_ok]
  have hpos : (encode v ++ rest).length > 0 := by
    have := encode_length v; have := size_pos v
    simp; omega
  simp only [hpos, if_true]
  rw [anyDec_enc hv]; simp only [Res.bind_ok]
  rw [slice_enc]; rfl

/-- Without a command object the call must end the payload. -/
theorem VarCall.unmarshal_none (name : Bytes) (tid : UInt64) (hn : name.length ≤ 65535) :
    VarCall.unmarshal (VarCall.mk name tid none).marshal = ok (VarCall.mk name tid none) := by
  unfold VarCall.unmarshal VarCall.marshal
  simp only [optEnc]
  rw [strDec_enc hn]; simp only [Res.bind_ok]
  rw [slice_enc]; simp only [Res.bind_ok]
  rw [numDec_enc tid []]; simp only [Res.bind_ok]
  rw [slice_enc (.num tid) []]; simp

theorem VarCall.unmarshal_marshal (c : VarCall) (h : c.wf = true) : VarCall.unmarshal c.marshal = ok c := by
  obtain ⟨name, tid, obj⟩ := c
  simp only [VarCall.wf, Bool.and_eq_true, decide_eq_true_eq] at h
  cases obj with
  | none => exact VarCall.unmarshal_none name tid h.1
  | some v =>
    have := VarCall.unmarshal_some name tid v h.1 h.2 []
    rwa [List.append_nil] at this

theorem slice_marshal (c : VarCall) (rest : Bytes) : sliceFrom (c.marshal ++ rest) c.size = ok rest :=
  sliceFrom_append _ _ (VarCall.marshal_length c)

/-! ### user control -/

theorem ofBE_take2 {evt : Nat} (h : evt < 65536) (tl : Bytes) : ofBE ((be 2 evt ++ tl).take 2) = evt := by
  rw [take_append_len _ _ (be_length 2 _), ofBE_be_of_lt (by simpa using h)]

theorem be1 (d : Nat) : be 1 d = [UInt8.ofNat (d % 256)] := by
  simp [be, le]

theorem userControl_roundtrip (evt d x : Nat) (h : (Packet.userControl evt d x).wf = true) (rest : Bytes) :
    unmarshal .userControl ((Packet.userControl evt d x).marshal ++ rest) = ok (.userControl evt d x) := by
  simp only [Packet.wf, Bool.and_eq_true, decide_eq_true_eq] at h
  obtain ⟨⟨⟨⟨he, hd⟩, hx⟩, hfd⟩, hsx⟩ := h
  have hlen : ((Packet.userControl evt d x).marshal ++ rest).length = userControlSize evt + rest.length := by
    rw [List.length_append, userControl_marshal_length]
  have h2 : (be 2 evt).length = 2 := be_length 2 _
  rw [unmarshal]
  have hsz : 3 ≤ userControlSize evt := by unfold userControlSize; split <;> omega
  rw [if_neg (by rw [hlen]; omega)]
  simp only [Packet.marshal, List.append_assoc] at hlen ⊢
  rw [ofBE_take2 he]
  rw [if_neg (by rw [hlen]; omega)]
  by_cases hf : evt = Gen.Rtmp.EventTypeFmsEvent0
  · have hs : evt ≠ Gen.Rtmp.EventTypeSetBufferLength := by rw [hf]; decide
    have hd' := hfd hf
    have hx' := hsx hs
    subst hx'
    simp only [if_pos hf, if_neg hs, be1]
    have : idx (be 2 evt ++ ([UInt8.ofNat (d % 256)] ++ ([] ++ rest))) 2 = ok (UInt8.ofNat (d % 256)) := by
      unfold idx
      rw [List.getElem?_append_right (by simp), h2]; simp
    rw [this]
    simp only [Res.bind_ok, Res.pure_eq]
    rw [u8_toNat_ofNat_mod, Nat.mod_eq_of_lt hd']
  · simp only [if_neg hf]
    rw [sliceFrom_append _ _ h2]; simp only [Res.bind_ok]
    rw [u32_be hd]; simp only [Res.bind_ok]
    by_cases hs : evt = Gen.Rtmp.EventTypeSetBufferLength
    · simp only [if_pos hs]
      have h6 : (be 2 evt ++ be 4 d).length = 6 := by simp
      rw [← List.append_assoc (be 2 evt), sliceFrom_append _ _ h6]; simp only [Res.bind_ok]
      rw [u32_be hx]; rfl
    · have hx' := hsx hs
      subst hx'
      simp only [if_neg hs]; rfl

/-! ### every packet -/

theorem unmarshal_marshal (p : Packet) (h : p.wf = true) : unmarshal p.kind p.marshal = ok p := by
  cases p with
  | connect c =>
    simp only [Packet.wf, Bool.and_eq_true, decide_eq_true_eq] at h
    obtain ⟨⟨hc, hn⟩, ht⟩ := h
    simp only [Packet.kind, Packet.marshal]
    rw [unmarshal, ObjCall.unmarshal_marshal c hc]
    simp [hn, ht]
  | connectRes c =>
    simp only [Packet.wf, Bool.and_eq_true, decide_eq_true_eq] at h
    obtain ⟨hc, hn⟩ := h
    simp only [Packet.kind, Packet.marshal]
    rw [unmarshal, ObjCall.unmarshal_marshal c hc]
    simp [hn]
  | createStream c =>
    simp only [Packet.wf] at h
    simp only [Packet.kind, Packet.marshal]
    rw [unmarshal, VarCall.unmarshal_marshal c h]; rfl
  | createStreamRes c sid =>
    obtain ⟨name, tid, obj⟩ := c
    simp only [Packet.wf, VarCall.wf, Bool.and_eq_true, decide_eq_true_eq] at h
    obtain ⟨⟨hn, hv⟩, hs⟩ := h
    cases obj with
    | none => simp at hs
    | some v =>
      simp only [Packet.kind, Packet.marshal]
      rw [unmarshal, VarCall.unmarshal_some name tid v hn hv]; simp only [Res.bind_ok]
      rw [slice_marshal]; simp only [Res.bind_ok]
      have := numDec_enc sid []
      rw [List.append_nil] at this
      rw [this]; rfl
  | publish c sn st =>
    obtain ⟨name, tid, obj⟩ := c
    simp only [Packet.wf, VarCall.wf, Bool.and_eq_true, decide_eq_true_eq] at h
    obtain ⟨⟨⟨⟨hn, hv⟩, hs⟩, hsn⟩, hst⟩ := h
    cases obj with
    | none => simp at hs
    | some v =>
      simp only [Packet.kind, Packet.marshal]
      rw [unmarshal, VarCall.unmarshal_some name tid v hn hv]; simp only [Res.bind_ok]
      rw [slice_marshal]; simp only [Res.bind_ok]
      rw [strDec_enc hsn]; simp only [Res.bind_ok]
      rw [slice_enc]; simp only [Res.bind_ok]
      have := strDec_enc hst []
      rw [List.append_nil] at this
      rw [this]; rfl
  | play c sn =>
    obtain ⟨name, tid, obj⟩ := c
    simp only [Packet.wf, VarCall.wf, Bool.and_eq_true, decide_eq_true_eq] at h
    obtain ⟨⟨⟨hn, hv⟩, hs⟩, hsn⟩ := h
    cases obj with
    | none => simp at hs
    | some v =>
      simp only [Packet.kind, Packet.marshal]
      rw [unmarshal, VarCall.unmarshal_some name tid v hn hv]; simp only [Res.bind_ok]
      rw [slice_marshal]; simp only [Res.bind_ok]
      have e1 := strDec_enc hsn []
      have e2 := slice_enc (.str sn) []
      rw [List.append_nil] at e1 e2
      rw [e1]; simp only [Res.bind_ok]
      rw [e2]; rfl
  | call c a =>
    obtain ⟨name, tid, obj⟩ := c
    simp only [Packet.wf, VarCall.wf, Bool.and_eq_true, decide_eq_true_eq, Bool.or_eq_true] at h
    obtain ⟨⟨⟨hn, hv⟩, ha⟩, hs⟩ := h
    simp only [Packet.kind, Packet.marshal]
    rw [unmarshal]
    cases obj with
    | none =>
      have ha' : a = none := by
        rcases hs with hs | hs
        · simp at hs
        · cases a <;> simp_all
      subst ha'
      simp only [optEnc, List.append_nil]
      rw [VarCall.unmarshal_none name tid hn]; simp only [Res.bind_ok]
      have := slice_marshal (VarCall.mk name tid none) []
      rw [List.append_nil] at this
      rw [this]; simp
    | some v =>
      rw [VarCall.unmarshal_some name tid v hn hv]; simp only [Res.bind_ok]
      rw [slice_marshal]; simp only [Res.bind_ok]
      cases a with
      | none => simp [optEnc]
      | some w =>
        have hpos : (optEnc (some w)).length > 0 := by
          have := encode_length w; have := size_pos w
          simp [optEnc]; omega
        simp only [hpos, if_true]
        have := anyDec_enc (v := w) ha []
        rw [List.append_nil] at this
        simp only [optEnc]
        rw [this]; rfl
  | setChunkSize v =>
    simp only [Packet.wf, decide_eq_true_eq] at h
    simp only [Packet.kind, Packet.marshal]
    have := u32_be h []
    rw [List.append_nil] at this
    rw [unmarshal, this]; simp
  | winAck v =>
    simp only [Packet.wf, decide_eq_true_eq] at h
    simp only [Packet.kind, Packet.marshal]
    have := u32_be h []
    rw [List.append_nil] at this
    rw [unmarshal, this]; simp
  | setPeerBw v l =>
    simp only [Packet.wf, Bool.and_eq_true, decide_eq_true_eq] at h
    simp only [Packet.kind, Packet.marshal]
    rw [unmarshal, u32_be h.1]
    have h4 : (be 4 v).length = 4 := be_length 4 _
    have : idx (be 4 v ++ be 1 l) 4 = ok (UInt8.ofNat (l % 256)) := by
      unfold idx
      rw [List.getElem?_append_right (by simp), h4, be1]; simp
    simp only [List.length_append, be_length, Res.bind_ok, this, Res.pure_eq]
    rw [u8_toNat_ofNat_mod, Nat.mod_eq_of_lt h.2]; simp
  | userControl e d x =>
    have := userControl_roundtrip e d x h []
    rwa [List.append_nil] at this

end Oryx.RtmpPkt
