/-
  Helper lemmas for C16 (JOSE): base64url, compact serialisation, signing input / AAD injectivity,
  PKCS#7, CBC-HMAC tag input, fixed-width integers, header merge. Key wrap is in Proofs/JoseKw.lean.
-/
import Oryx.Model.Jose
namespace Oryx.Jose
open Oryx Oryx.Res

/-! ## base64url -/

set_option maxRecDepth 8192 in
theorem sextet_encChar : ∀ i : Fin 64, sextet (encChar i.val) = some i.val := by decide +kernel

set_option maxRecDepth 8192 in
theorem encChar_props : ∀ i : Fin 64, encChar i.val ≠ '.' ∧ encChar i.val ≠ '=' ∧
    isNl (encChar i.val) = false ∧ isWs (encChar i.val) = false := by decide +kernel

set_option maxRecDepth 8192 in
theorem encChar_mem : ∀ i : Fin 64, encChar i.val ∈ alphabet ∧ (encChar i.val).toNat < 256 := by decide +kernel

theorem filter_nl_of (l : List Char) (h : ∀ c ∈ l, isNl c = false) : l.filter (fun c => !isNl c) = l := by
  rw [List.filter_eq_self]; intro c hc; simp [h c hc]

theorem sextet_enc {n : Nat} (h : n < 64) : sextet (encChar n) = some n := sextet_encChar ⟨n, h⟩

/-- A character the encoder can emit. -/
def B64Char (c : Char) : Prop := ∃ n, n < 64 ∧ c = encChar n

theorem B64Char.props {c : Char} (h : B64Char c) : c ≠ '.' ∧ c ≠ '=' ∧ isNl c = false ∧ isWs c = false := by
  obtain ⟨n, hn, rfl⟩ := h
  exact encChar_props ⟨n, hn⟩

theorem u8lt (a : UInt8) : a.toNat < 256 := a.toNat_lt

/-- Every character `base64URLEncode` emits is one of the 64 alphabet characters (so never `.`,
`=`, a newline or whitespace). -/
theorem b64_chars (b : Bytes) : ∀ c ∈ b64 b, B64Char c := by
  induction b using b64.induct with
  | case1 => intro c hc; simp [b64] at hc
  | case2 a =>
    intro c hc
    have := u8lt a
    simp only [b64, List.mem_cons, List.mem_nil_iff, or_false] at hc
    rcases hc with rfl | rfl
    · exact ⟨_, by omega, rfl⟩
    · exact ⟨_, by omega, rfl⟩
  | case3 a b =>
    intro c hc
    have := u8lt a; have := u8lt b
    simp only [b64, List.mem_cons, List.mem_nil_iff, or_false] at hc
    rcases hc with rfl | rfl | rfl
    · exact ⟨_, by omega, rfl⟩
    · exact ⟨_, by omega, rfl⟩
    · exact ⟨_, by omega, rfl⟩
  | case4 a b c rest ih =>
    intro x hx
    have := u8lt a; have := u8lt b; have := u8lt c
    simp only [b64, List.mem_cons] at hx
    rcases hx with rfl | rfl | rfl | rfl | hx
    · exact ⟨_, by omega, rfl⟩
    · exact ⟨_, by omega, rfl⟩
    · exact ⟨_, by omega, rfl⟩
    · exact ⟨_, by omega, rfl⟩
    · exact ih x hx

theorem b64_no_dot (b : Bytes) : '.' ∉ b64 b := fun h => (b64_chars b _ h).props.1 rfl

theorem ofNat_eq (a : UInt8) (n : Nat) (h : n = a.toNat) : UInt8.ofNat n = a := by
  rw [h]; exact UInt8.ofNat_toNat

theorem padCount_add4 (l : Nat) : (4 - (l + 4) % 4) % 4 = (4 - l % 4) % 4 := by omega

/-- `DecodeString` on the padded encoding of `b` yields `b`. -/
theorem decQ_b64 (b : Bytes) :
    decQ (b64 b ++ List.replicate ((4 - (b64 b).length % 4) % 4) '=') = ok b := by
  induction b using b64.induct with
  | case1 => rfl
  | case2 a =>
    have ha := u8lt a
    have h1 := sextet_enc (n := a.toNat / 4) (by omega)
    have h2 := sextet_enc (n := a.toNat % 4 * 16) (by omega)
    have hp : sextet '=' = none := by decide
    simp only [b64, List.length_cons, List.length_nil, List.replicate, List.cons_append, List.nil_append,
      decQ, h1, h2, hp, and_self, if_true]
    congr 2
    exact ofNat_eq a _ (by omega)
  | case3 a b =>
    have ha := u8lt a; have hb := u8lt b
    have h1 := sextet_enc (n := a.toNat / 4) (by omega)
    have h2 := sextet_enc (n := a.toNat % 4 * 16 + b.toNat / 16) (by omega)
    have h3 := sextet_enc (n := b.toNat % 16 * 4) (by omega)
    have hp : sextet '=' = none := by decide
    simp only [b64, List.length_cons, List.length_nil, List.replicate, List.cons_append, List.nil_append,
      decQ, h1, h2, h3, hp, and_self, if_true]
    congr 2
    · exact ofNat_eq a _ (by omega)
    · congr 1; exact ofNat_eq b _ (by omega)
  | case4 a b c rest ih =>
    have ha := u8lt a; have hb := u8lt b; have hc := u8lt c
    have h1 := sextet_enc (n := a.toNat / 4) (by omega)
    have h2 := sextet_enc (n := a.toNat % 4 * 16 + b.toNat / 16) (by omega)
    have h3 := sextet_enc (n := b.toNat % 16 * 4 + c.toNat / 64) (by omega)
    have h4 := sextet_enc (n := c.toNat % 64) (by omega)
    have hl : (b64 (a :: b :: c :: rest)).length = (b64 rest).length + 4 := by simp [b64]
    rw [hl, padCount_add4]
    simp only [b64, List.cons_append, decQ, h1, h2, h3, h4, ih]
    congr 2
    · exact ofNat_eq a _ (by omega)
    · congr 1
      · exact ofNat_eq b _ (by omega)
      · congr 1; exact ofNat_eq c _ (by omega)

theorem filter_nl_b64 (b : Bytes) (k : Nat) :
    (b64 b ++ List.replicate k '=').filter (fun c => !isNl c) = b64 b ++ List.replicate k '=' := by
  rw [List.filter_eq_self]
  intro c hc
  simp only [List.mem_append, List.mem_replicate] at hc
  rcases hc with hc | ⟨_, rfl⟩
  · simp [(b64_chars b c hc).props.2.2.1]
  · decide

/-- Round trip: `base64URLDecode(base64URLEncode(b)) = b`. -/
theorem unb64_b64 (b : Bytes) : unb64 (b64 b) = ok b := by
  unfold unb64
  rw [filter_nl_b64, decQ_b64]

/-- The encoder is injective. -/
theorem b64_inj {a b : Bytes} (h : b64 a = b64 b) : a = b := by
  have h1 := unb64_b64 a
  rw [h, unb64_b64] at h1
  cases h1; rfl

/-! ## splitting at dots -/

theorem splitDot_ne_nil (s : List Char) : splitDot s ≠ [] := by
  induction s with
  | nil => simp [splitDot]
  | cons c r ih =>
    simp only [splitDot]
    split
    · simp
    · split <;> simp

theorem splitDot_nodot (a : List Char) (h : '.' ∉ a) : splitDot a = [a] := by
  induction a with
  | nil => rfl
  | cons c r ih =>
    have hc : c ≠ '.' := fun e => h (by simp [e])
    have hr := ih (fun hm => h (List.mem_cons_of_mem _ hm))
    simp [splitDot, hc, hr]

theorem splitDot_append (a rest : List Char) (h : '.' ∉ a) :
    splitDot (a ++ '.' :: rest) = a :: splitDot rest := by
  induction a with
  | nil => simp [splitDot]
  | cons c r ih =>
    have hc : c ≠ '.' := fun e => h (by simp [e])
    have hr := ih (fun hm => h (List.mem_cons_of_mem _ hm))
    simp [splitDot, hc, hr]

theorem splitDot_joinDot (ps : List (List Char)) (hne : ps ≠ []) (h : ∀ p ∈ ps, '.' ∉ p) :
    splitDot (joinDot ps) = ps := by
  induction ps with
  | nil => exact absurd rfl hne
  | cons a rest ih =>
    cases rest with
    | nil => simpa [joinDot] using splitDot_nodot a (h a (by simp))
    | cons b rest' =>
      have := ih (by simp) (fun p hp => h p (List.mem_cons_of_mem _ hp))
      simp only [joinDot]
      rw [splitDot_append a _ (h a (by simp)), this]

/-- Two texts `a.b` with dot-free left parts are equal only if both parts are. -/
theorem append_dot_inj {a a' b b' : List Char} (ha : '.' ∉ a) (ha' : '.' ∉ a')
    (h : a ++ '.' :: b = a' ++ '.' :: b') : a = a' ∧ b = b' := by
  have h1 := splitDot_append a b ha
  have h2 := splitDot_append a' b' ha'
  rw [h, h2] at h1
  have ha := (List.cons.inj h1).1
  subst ha
  exact ⟨rfl, by simpa using h⟩

theorem joinDot_chars (ps : List (List Char)) (P : Char → Prop) (hdot : P '.')
    (h : ∀ p ∈ ps, ∀ c ∈ p, P c) : ∀ c ∈ joinDot ps, P c := by
  induction ps with
  | nil => intro c hc; simp [joinDot] at hc
  | cons a rest ih =>
    cases rest with
    | nil => intro c hc; exact h a (by simp) c (by simpa [joinDot] using hc)
    | cons b rest' =>
      intro c hc
      simp only [joinDot, List.mem_append, List.mem_cons] at hc
      rcases hc with hc | rfl | hc
      · exact h a (by simp) c hc
      · exact hdot
      · exact ih (fun p hp => h p (List.mem_cons_of_mem _ hp)) c hc

theorem unb64All_map (parts : List Bytes) : unb64All (parts.map b64) = ok parts := by
  induction parts with
  | nil => rfl
  | cons p ps ih => simp [unb64All, unb64_b64, ih]

theorem stripWs_compact (parts : List Bytes) : stripWs (compactSerialize parts) = compactSerialize parts := by
  unfold stripWs
  rw [List.filter_eq_self]
  intro c hc
  have := joinDot_chars (parts.map b64) (fun c => isWs c = false) (by decide)
    (by
      intro p hp c hc
      obtain ⟨b, _, rfl⟩ := List.mem_map.mp hp
      exact (b64_chars b c hc).props.2.2.2) c hc
  simp [this]

/-- `parse (serialize parts) = parts`: no part's text contains a dot. -/
theorem compactParse_serialize (parts : List Bytes) (hne : parts ≠ []) :
    compactParse parts.length (compactSerialize parts) = ok parts := by
  unfold compactParse
  rw [stripWs_compact]
  have hs : splitDot (compactSerialize parts) = parts.map b64 := by
    apply splitDot_joinDot
    · simpa using hne
    · intro p hp
      obtain ⟨b, _, rfl⟩ := List.mem_map.mp hp
      exact b64_no_dot b
  simp [hs, unb64All_map]

/-! ## signing input / AAD -/

theorem signingInput_inj {p p' m m' : Bytes} (h : signingInput p m = signingInput p' m') : p = p' ∧ m = m' := by
  obtain ⟨h1, h2⟩ := append_dot_inj (b64_no_dot p) (b64_no_dot p') h
  exact ⟨b64_inj h1, b64_inj h2⟩

theorem aadInput_inj {p p' : Bytes} {a a' : Option Bytes} (h : aadInput p a = aadInput p' a') :
    p = p' ∧ a = a' := by
  cases a with
  | none =>
    cases a' with
    | none => exact ⟨b64_inj h, rfl⟩
    | some y =>
      exfalso
      simp only [aadInput] at h
      exact b64_no_dot p (by rw [h]; simp)
  | some x =>
    cases a' with
    | none =>
      exfalso
      simp only [aadInput] at h
      exact b64_no_dot p' (by rw [← h]; simp)
    | some y =>
      obtain ⟨h1, h2⟩ := append_dot_inj (b64_no_dot p) (b64_no_dot p') h
      exact ⟨b64_inj h1, by rw [b64_inj h2]⟩

/-! ## PKCS#7 -/

theorem pad_length (k : Nat) (hk : 0 < k) (b : Bytes) :
    (pad k b).length = b.length + (k - b.length % k) ∧ (pad k b).length % k = 0 ∧
    1 ≤ k - b.length % k ∧ k - b.length % k ≤ k := by
  have hm := Nat.mod_lt b.length hk
  refine ⟨by simp [pad], ?_, by omega, by omega⟩
  simp only [pad, List.length_append, List.length_replicate]
  have h := Nat.div_add_mod b.length k
  have : b.length + (k - b.length % k) = k * (b.length / k + 1) := by
    rw [Nat.mul_add, Nat.mul_one]; omega
  rw [this]; exact Nat.mul_mod_right _ _

theorem unpad_pad (k : Nat) (hk : 0 < k) (hk2 : k < 256) (b : Bytes) : unpad k (pad k b) = ok b := by
  obtain ⟨hl, hmod, h1, h2⟩ := pad_length k hk b
  have hm : (UInt8.ofNat (k - b.length % k)).toNat = k - b.length % k := by
    rw [UInt8.toNat_ofNat']; exact Nat.mod_eq_of_lt (by omega)
  have hlast : (pad k b).getLast? = some (UInt8.ofNat (k - b.length % k)) := by
    simp only [pad, List.getLast?_append, List.getLast?_replicate]
    have : ¬ (k - b.length % k = 0) := by omega
    simp [this]
  unfold unpad
  rw [if_neg (by rw [hmod, hl]; omega), hlast]
  simp only [hm]
  rw [if_neg (by omega), hl]
  have e1 : b.length + (k - b.length % k) - (k - b.length % k) = b.length := by omega
  rw [e1]
  simp [pad]

/-- `unpadBuffer` (repaired) returns for every buffer and every block size. -/
theorem unpad_ne_panic (k : Nat) (b : Bytes) : unpad k b ≠ .panic := by
  unfold unpad
  split
  · simp
  · rename_i h
    cases hb : b.getLast? with
    | none =>
      exfalso
      have : b = [] := List.getLast?_eq_none_iff.mp hb
      simp [this] at h
    | some last =>
      simp only
      split
      · simp
      · split <;> simp

/-! ## CBC-HMAC tag input -/

theorem tagInput_inj {aad aad' iv iv' ct ct' : Bytes} (hiv : iv.length = iv'.length)
    (ha : aad.length * 8 < 2 ^ 64) (ha' : aad'.length * 8 < 2 ^ 64)
    (h : tagInput aad iv ct = tagInput aad' iv' ct') : aad = aad' ∧ iv = iv' ∧ ct = ct' := by
  unfold tagInput at h
  rw [Nat.mod_eq_of_lt ha, Nat.mod_eq_of_lt ha'] at h
  obtain ⟨h1, h2⟩ := List.append_inj' h (by simp [be_length])
  have hlen : aad.length * 8 = aad'.length * 8 :=
    be_inj (n := 8) (by simpa using ha) (by simpa using ha') h2
  have hl : aad.length = aad'.length := by omega
  rw [List.append_assoc, List.append_assoc] at h1
  obtain ⟨h3, h4⟩ := List.append_inj h1 hl
  obtain ⟨h5, h6⟩ := List.append_inj h4 hiv
  exact ⟨h3, h5, h6⟩

/-! ## fixed-width integers -/

theorem ecSig_roundtrip (size r s : Nat) (hr : r < 256 ^ size) (hs : s < 256 ^ size) :
    ∃ sig, ecSigEncode size r s = ok sig ∧ sig.length = 2 * size ∧ ecSigDecode size sig = ok (r, s) := by
  refine ⟨be size r ++ be size s, by simp [ecSigEncode, hr, hs], by simp [be_length]; omega, ?_⟩
  have hlen : (be size r ++ be size s).length = 2 * size := by simp [be_length]; omega
  simp only [ecSigDecode, hlen, ne_eq, not_true_eq_false, if_false]
  rw [take_append_len _ _ (be_length size r), drop_append_len _ _ (be_length size r),
    ofBE_be_of_lt hr, ofBE_be_of_lt hs]

theorem ofBE_inj_of_length {a b : Bytes} (hl : a.length = b.length) (h : ofBE a = ofBE b) : a = b := by
  have h1 := be_ofBE' (bs := a) rfl
  have h2 := be_ofBE' (bs := b) rfl
  rw [← h1, ← h2, h, hl]

/-- Distinct signature octets of the right length decode to distinct `(r, s)`. -/
theorem ecSigDecode_inj (size : Nat) {sig sig' : Bytes} {r s : Nat}
    (h1 : ecSigDecode size sig = ok (r, s)) (h2 : ecSigDecode size sig' = ok (r, s)) : sig = sig' := by
  unfold ecSigDecode at h1 h2
  split at h1
  · cases h1
  split at h2
  · cases h2
  rename_i hl1 hl2
  simp only [ne_eq, Decidable.not_not] at hl1 hl2
  cases h1
  injection h2 with h2
  injection h2 with ha hb
  have e1 : sig'.take size = sig.take size :=
    ofBE_inj_of_length (by simp [List.length_take]; omega) ha
  have e2 : sig'.drop size = sig.drop size :=
    ofBE_inj_of_length (by simp [List.length_drop]; omega) hb
  rw [← List.take_append_drop size sig, ← List.take_append_drop size sig', e1, e2]

theorem ecCoords_roundtrip (size x y : Nat) (hx : x < 256 ^ size) (hy : y < 256 ^ size) :
    ∃ xb yb, ecCoordsEncode size x y = ok (xb, yb) ∧ xb.length = size ∧ yb.length = size ∧
      ecCoordsDecode xb yb = (x, y) := by
  refine ⟨be size x, be size y, by simp [ecCoordsEncode, hx, hy], be_length _ _, be_length _ _, ?_⟩
  simp [ecCoordsDecode, ofBE_be_of_lt hx, ofBE_be_of_lt hy]

theorem fixedSize_ok (n v : Nat) (h : v < 256 ^ n) : fixedSize n v = ok (be n v) ∧ (be n v).length = n ∧
    ofBE (be n v) = v := ⟨by simp [fixedSize, h], be_length _ _, ofBE_be_of_lt h⟩

/-! ## header merge -/

theorem pick_assoc (a b c : String) : pick (pick a b) c = pick a (pick b c) := by
  unfold pick; split <;> simp_all

end Oryx.Jose
