/-
  C05 helpers: every decoded value is well-formed (so the round-trip theorem applies to whatever
  decodes), the property bag's Get/Set laws, and the closed form of the instrumented decoding cost
  on nested containers (K3).
-/
import Oryx.Proofs.Amf0RoundTrip
namespace Oryx.Amf0
open Oryx Oryx.Res

theorem ofBE_take4_lt (q : Bytes) : ofBE (q.take 4) < 4294967296 := by
  have h := ofBE_lt (q.take 4)
  have hl : (q.take 4).length ≤ 4 := by simp; omega
  have : 256 ^ (q.take 4).length ≤ 256 ^ 4 := Nat.pow_le_pow_right (by decide) hl
  omega

theorem decodeVal_wf_step (fuel : Nat)
    (ihP : ∀ p ps r, decodeProps fuel p = ok (ps, r) → wfP ps = true)
    (ihE : ∀ n p ps r, decodeElems fuel n p = ok (ps, r) → wfP ps = true)
    {p a r} (h : decodeVal (fuel+1) p = ok (a, r)) : wf a = true := by
  cases p with
  | nil => simp [decodeVal] at h
  | cons m q =>
    have hg := (decode_good (fuel+1)).1 _ _ _ h
    simp only [decodeVal] at h
    split at h
    · unfold numberDec at h
      split at h
      · cases h
      · simp only at h; split at h
        · cases h
        · injection h with h; injection h with h _; subst h; rfl
    · unfold booleanDec at h
      split at h
      · split at h
        · cases h
        · injection h with h; injection h with h _; subst h; rfl
      · cases h
    · unfold stringDec at h
      split at h
      · split at h
        · cases h
        · rw [Res.bind_eq_ok] at h
          obtain ⟨⟨s, r'⟩, h1, h2⟩ := h
          injection h2 with h2; injection h2 with h2 _; subst h2
          simpa [wf] using (utf8Dec_ok h1).2.2
      · cases h
    · unfold singleDec at h
      split at h
      · split at h
        · cases h
        · injection h with h; injection h with h _; subst h; rfl
      · cases h
    · unfold singleDec at h
      split at h
      · split at h
        · cases h
        · injection h with h; injection h with h _; subst h; rfl
      · cases h
    · next he =>
      -- marker 9: `objectEOF.UnmarshalBinary` needs `00 00 09`, so it never succeeds here
      unfold eofDec at h
      split at h
      · next a b c q' hq =>
        split at h
        · cases h
        · next hc =>
          injection hq with hq _
          subst hq
          have : m = 0 := by
            cases hm : decide (m = 0) with
            | true => simpa using hm
            | false => simp at hm; simp [hm] at hc
          subst this
          simp [disc0] at he
      · cases h
    · cases h
    · split at h
      · cases h
      · rw [Res.bind_eq_ok] at h
        obtain ⟨⟨ps, r'⟩, h1, h2⟩ := h
        injection h2 with h2; injection h2 with h2 _; subst h2
        simpa [wf] using ihP _ _ _ h1
    · split at h
      · cases h
      · split at h
        · cases h
        · rw [Res.bind_eq_ok] at h
          obtain ⟨⟨ps, r'⟩, h1, h2⟩ := h
          injection h2 with h2; injection h2 with h2 _; subst h2
          simp [wf, ihP _ _ _ h1, ofBE_take4_lt]
    · split at h
      · cases h
      · split at h
        · cases h
        · split at h
          · injection h with h; injection h with h _; subst h; rfl
          · rw [Res.bind_eq_ok] at h
            obtain ⟨⟨ps, r'⟩, h1, h2⟩ := h
            injection h2 with h2; injection h2 with h2 _; subst h2
            have hn := ((decode_good fuel).2.2 _ _ _ _ h1).2.2
            simp [wf, ihE _ _ _ _ h1, hn, ofBE_take4_lt]


theorem decodeProps_wf_step (fuel : Nat)
    (ihV : ∀ p a r, decodeVal fuel p = ok (a, r) → wf a = true)
    (ihP : ∀ p ps r, decodeProps fuel p = ok (ps, r) → wfP ps = true)
    {p ps r} (h : decodeProps (fuel+1) p = ok (ps, r)) : wfP ps = true := by
  simp only [decodeProps] at h
  rw [Res.bind_eq_ok] at h
  obtain ⟨⟨k, p1⟩, hk, h⟩ := h
  obtain ⟨_, _, hkl⟩ := utf8Dec_ok hk
  simp only at h
  split at h
  · cases h
  · split at h
    · injection h with h; injection h with h _; subst h; rfl
    · rw [Res.bind_eq_ok] at h
      obtain ⟨⟨a, ra⟩, hv, h⟩ := h
      simp only at h
      rw [Res.bind_eq_ok] at h
      obtain ⟨p2, _, h⟩ := h
      rw [Res.bind_eq_ok] at h
      obtain ⟨⟨tl, r'⟩, ht, h⟩ := h
      injection h with h; injection h with h _; subst h
      simp [wfP, hkl, ihV _ _ _ hv, ihP _ _ _ ht]

theorem decodeElems_wf_step (fuel : Nat)
    (ihV : ∀ p a r, decodeVal fuel p = ok (a, r) → wf a = true)
    (ihE : ∀ n p ps r, decodeElems fuel n p = ok (ps, r) → wfP ps = true)
    {n p ps r} (h : decodeElems (fuel+1) n p = ok (ps, r)) : wfP ps = true := by
  cases n with
  | zero =>
    simp only [decodeElems] at h
    injection h with h; injection h with h _; subst h; rfl
  | succ n =>
    simp only [decodeElems] at h
    rw [Res.bind_eq_ok] at h
    obtain ⟨⟨k, p1⟩, hk, h⟩ := h
    obtain ⟨_, _, hkl⟩ := utf8Dec_ok hk
    simp only at h
    rw [Res.bind_eq_ok] at h
    obtain ⟨⟨a, ra⟩, hv, h⟩ := h
    simp only at h
    rw [Res.bind_eq_ok] at h
    obtain ⟨p2, _, h⟩ := h
    rw [Res.bind_eq_ok] at h
    obtain ⟨⟨tl, r'⟩, ht, h⟩ := h
    injection h with h; injection h with h _; subst h
    simp [wfP, hkl, ihV _ _ _ hv, ihE _ _ _ _ ht]

theorem decode_wf_all : ∀ fuel : Nat,
    (∀ p a r, decodeVal fuel p = ok (a, r) → wf a = true) ∧
    (∀ p ps r, decodeProps fuel p = ok (ps, r) → wfP ps = true) ∧
    (∀ n p ps r, decodeElems fuel n p = ok (ps, r) → wfP ps = true)
  | 0 => by
    refine ⟨?_, ?_, ?_⟩
    · intro p a r h; simp [decodeVal] at h
    · intro p ps r h; simp [decodeProps] at h
    · intro n p ps r h
      cases n with
      | zero =>
        simp only [decodeElems] at h
        injection h with h; injection h with h _; subst h; rfl
      | succ n => simp [decodeElems] at h
  | fuel+1 => by
    obtain ⟨ihV, ihP, ihE⟩ := decode_wf_all fuel
    exact ⟨fun _ _ _ h => decodeVal_wf_step fuel ihP ihE h,
           fun _ _ _ h => decodeProps_wf_step fuel ihV ihP h,
           fun _ _ _ _ h => decodeElems_wf_step fuel ihV ihE h⟩

/-- Whatever decodes is a well-formed value. -/
theorem decode_wf {bs : Bytes} {v : Val} {r : Bytes} (h : decode bs = ok (v, r)) : v.WF :=
  (decode_wf_all _).1 _ _ _ h


/-! ### the property bag: Get / Set -/

namespace Props

theorem keys_replace (k : Bytes) (v : Val) : ∀ ps : Props, (ps.replace k v).keys = ps.keys
  | .nil => rfl
  | .cons k' w tl => by
    by_cases h : k' = k <;> simp [replace, h, keys, keys_replace k v tl]

theorem keys_append : ∀ ps q : Props, (ps.append q).keys = ps.keys ++ q.keys
  | .nil, q => rfl
  | .cons k w tl, q => by simp [append, keys, keys_append tl q]

theorem has_iff_mem (k : Bytes) : ∀ ps : Props, ps.has k = true ↔ k ∈ ps.keys
  | .nil => by simp [has, keys]
  | .cons k' w tl => by
    simp [has, keys, has_iff_mem k tl]
    constructor
    · rintro (h | h)
      · exact Or.inl h.symm
      · exact Or.inr h
    · rintro (h | h)
      · exact Or.inl h.symm
      · exact Or.inr h

theorem get_replace_same (k : Bytes) (v : Val) : ∀ ps : Props, ps.has k = true → (ps.replace k v).get k = some v
  | .nil, h => by simp [has] at h
  | .cons k' w tl, h => by
    by_cases hk : k' = k
    · simp [replace, hk, get]
    · have : tl.has k = true := by simpa [has, hk] using h
      simp [replace, hk, get, get_replace_same k v tl this]

theorem get_replace_other (k : Bytes) (v : Val) {k' : Bytes} (hne : k' ≠ k) :
    ∀ ps : Props, (ps.replace k v).get k' = ps.get k'
  | .nil => rfl
  | .cons k₀ w tl => by
    have ih := get_replace_other k v hne tl
    by_cases hk : k₀ = k
    · have hk' : ¬ k₀ = k' := fun e => hne (e ▸ hk)
      simp only [replace, hk, if_true, get]
      rw [← hk] at ih ⊢
      simp only [hk', if_false]
      exact ih
    · simp only [replace, hk, if_false, get]
      by_cases hk' : k₀ = k'
      · simp only [hk', if_true]
      · simp only [hk', if_false]; exact ih

theorem get_append_of_not_has (k : Bytes) (q : Props) : ∀ ps : Props, ps.has k = false → (ps.append q).get k = q.get k
  | .nil, _ => rfl
  | .cons k' w tl, h => by
    have ⟨h1, h2⟩ : ¬ k' = k ∧ tl.has k = false := by simpa [has] using h
    simp [append, get, h1, get_append_of_not_has k q tl h2]

theorem get_append_other {k k' : Bytes} (v : Val) (hne : k' ≠ k) :
    ∀ ps : Props, (ps.append (.cons k v .nil)).get k' = ps.get k'
  | .nil => by
    have : ¬ k = k' := fun e => hne e.symm
    simp [append, get, this]
  | .cons k₀ w tl => by
    by_cases hk' : k₀ = k' <;> simp [append, get, hk', get_append_other v hne tl]

/-- `Get` after `Set` of the same key returns the value just set. -/
theorem get_set_same (k : Bytes) (v : Val) (ps : Props) : (ps.set k v).get k = some v := by
  unfold set
  split
  · next h => exact get_replace_same k v ps h
  · next h =>
    rw [get_append_of_not_has k _ ps (by simpa using h)]
    simp [get]

/-- `Set` does not disturb what `Get` returns for other keys. -/
theorem get_set_other (k : Bytes) (v : Val) {k' : Bytes} (hne : k' ≠ k) (ps : Props) :
    (ps.set k v).get k' = ps.get k' := by
  unfold set
  split
  · exact get_replace_other k v hne ps
  · exact get_append_other v hne ps

/-- A container built through `Set` alone never has a repeated key. -/
theorem keys_nodup_set (k : Bytes) (v : Val) (ps : Props) (h : ps.keys.Nodup) : (ps.set k v).keys.Nodup := by
  unfold set
  split
  · rw [keys_replace]; exact h
  · next hh =>
    rw [keys_append]
    simp only [keys]
    have hn : k ∉ ps.keys := fun hm => hh ((has_iff_mem k ps).2 hm)
    rw [List.nodup_append]
    refine ⟨h, by simp, ?_⟩
    intro a ha b hb
    simp at hb
    subst hb
    intro e; subst e; exact hn ha

end Props

/-! ### cost of nested containers (K3) -/

theorem walk_nest (k : Bytes) (v : Val) : ∀ d, walk (nest k d v) = 2 * d + walk v
  | 0 => by simp [nest]
  | d+1 => by simp [nest, walk, walkP, walk_nest k v d]; omega

theorem cost_nest (k : Bytes) : ∀ d, costV true (nest k d .null) = d * d + 2 * d + 1
  | 0 => by simp [nest, costV]
  | d+1 => by
    simp only [nest, costV, costP, cost_nest k d, walk_nest, walk, if_true]
    simp only [Nat.succ_mul, Nat.mul_succ]
    omega

mutual
/-- Every value the decoder reads costs one unit, every key one unit, every advance one unit: with the
constant-time advance the cost is at most three units per node. -/
theorem costV_le_walk : ∀ v : Val, costV false v ≤ 3 * walk v
  | .obj ps => by simp only [costV, walk]; have := costP_le_walk ps; omega
  | .ecma _ ps => by simp only [costV, walk]; have := costP_le_walk ps; omega
  | .strict ps => by simp only [costV, walk]; have := costP_le_walk ps; omega
  | .num _ => by simp [costV, walk]
  | .bool _ => by simp [costV, walk]
  | .str _ => by simp [costV, walk]
  | .null => by simp [costV, walk]
  | .undef => by simp [costV, walk]
  | .eof => by simp [costV, walk]
theorem costP_le_walk : ∀ ps : Props, costP false ps ≤ 3 * walkP ps
  | .nil => by simp [costP, walkP]
  | .cons _ v tl => by
    simp only [costP, walkP, Bool.false_eq_true, if_false]
    have := costV_le_walk v; have := costP_le_walk tl; omega
end

mutual
/-- Each visited value occupies at least one byte and each key at least two. -/
theorem walk_le_size : ∀ v : Val, walk v ≤ size v
  | .obj ps => by simp only [walk, size]; have := walkP_le_size ps; omega
  | .ecma _ ps => by simp only [walk, size]; have := walkP_le_size ps; omega
  | .strict ps => by simp only [walk, size]; have := walkP_le_size ps; omega
  | .num _ => by simp [walk, size]
  | .bool _ => by simp [walk, size]
  | .str _ => by simp [walk, size]
  | .null => by simp [walk, size]
  | .undef => by simp [walk, size]
  | .eof => by simp [walk, size]
theorem walkP_le_size : ∀ ps : Props, walkP ps ≤ sizeP ps
  | .nil => by simp [walkP, sizeP]
  | .cons k v tl => by
    simp only [walkP, sizeP, utf8Size]
    have := walk_le_size v; have := walkP_le_size tl; omega
end

theorem size_nest (k : Bytes) : ∀ d, size (nest k d .null) = (6 + k.length) * d + 1
  | 0 => by simp [nest, size]
  | d+1 => by
    simp only [nest, size, sizeP, utf8Size, size_nest k d, Nat.mul_succ]
    omega

end Oryx.Amf0
