/-
  Helper lemmas for C12 (AVC). Property statements live in Oryx/Props/C12.lean.
-/
import Oryx.Model.Avc
import Oryx.Spec.Avc
namespace Oryx.Avc
open Oryx Oryx.Res

/-- Field widths of a NAL unit header: 2-bit nal_ref_idc, 5-bit nal_unit_type. -/
def Nalu.WF (n : Nalu) : Prop := n.refIdc < 4 ∧ n.ty < 32

instance (n : Nalu) : Decidable n.WF := by unfold Nalu.WF; exact inferInstance

theorem header_bits : ∀ r t : UInt8, r < 4 → t < 32 →
    ((((r <<< 5) ||| t) >>> 5) &&& 0x03 = r ∧ ((r <<< 5) ||| t) &&& 0x1f = t) := by
  intro r t hr ht
  have hr' : r.toNat < 4 := hr
  have ht' : t.toNat < 32 := ht
  -- finite: 4 × 32 cases
  have key : ∀ i : Fin 4, ∀ j : Fin 32,
      (((((UInt8.ofNat i.val) <<< 5) ||| (UInt8.ofNat j.val)) >>> 5) &&& 0x03 = UInt8.ofNat i.val ∧
       (((UInt8.ofNat i.val) <<< 5) ||| (UInt8.ofNat j.val)) &&& 0x1f = UInt8.ofNat j.val) := by
    decide
  have := key ⟨r.toNat, hr'⟩ ⟨t.toNat, ht'⟩
  simpa using this

theorem nalu_rt (n : Nalu) (h : n.WF) : naluUnmarshal (naluMarshal n) = ok n := by
  obtain ⟨h1, h2⟩ := header_bits n.refIdc n.ty h.1 h.2
  cases n with
  | mk r t d =>
    simp only [naluMarshal, naluUnmarshal, headerByte] at *
    simp [h1, h2]

/-- Every header byte (all 256) decodes to in-range fields; bytes < 0x80 (forbidden_zero_bit = 0) re-encode identically. -/
theorem header_all : ∀ b : UInt8,
    ((b >>> 5) &&& 0x03 < 4 ∧ b &&& 0x1f < 32) ∧
    (b < 128 → (((b >>> 5) &&& 0x03) <<< 5) ||| (b &&& 0x1f) = b) := by
  apply forall_u8; decide +kernel

theorem naluUnmarshal_wf {bs : Bytes} {n : Nalu} (h : naluUnmarshal bs = ok n) : n.WF := by
  cases bs with
  | nil => simp [naluUnmarshal] at h
  | cons b rest =>
    simp only [naluUnmarshal, ok.injEq] at h
    subst h
    exact (header_all b).1

theorem naluMarshal_length (n : Nalu) : (naluMarshal n).length = 1 + n.data.length := by
  simp [naluMarshal, Nat.add_comm]

/-- A parameter-set NAL unit fits the 16-bit length field. -/
def Nalu.Fits16 (n : Nalu) : Prop := n.WF ∧ 1 + n.data.length < 65536

theorem readSets_setsMarshal (ns : List Nalu) (rest : Bytes) (h : ∀ x ∈ ns, x.Fits16) :
    readSets ns.length (setsMarshal ns ++ rest) = ok (ns, rest) := by
  induction ns with
  | nil => simp [readSets, setsMarshal]
  | cons x xs ih =>
    have hx := h x (by simp)
    have hxs : ∀ y ∈ xs, y.Fits16 := fun y hy => h y (by simp [hy])
    have hlen : (naluMarshal x).length < 256 ^ 2 := by
      rw [naluMarshal_length]; exact hx.2
    simp only [List.length_cons, readSets, setsMarshal, setMarshal, List.append_assoc]
    rw [take_append_len _ _ (be_length 2 _), drop_append_len _ _ (be_length 2 _),
        ofBE_be_of_lt hlen]
    rw [take_append_len _ _ rfl, drop_append_len _ _ rfl]
    simp only [nalu_rt x hx.1, ih hxs, List.length_append, be_length]
    rw [if_neg (by omega), if_neg (by omega)]
    rfl

theorem readSets_ne_panic (n : Nat) (b : Bytes) : readSets n b ≠ .panic := by
  induction n generalizing b with
  | zero => simp [readSets]
  | succ n ih =>
    simp only [readSets]
    split
    · simp
    · split
      · simp
      · apply Res.bind_ne_panic
        · cases h : List.take (ofBE (List.take 2 b)) (List.drop 2 b) <;> simp [naluUnmarshal]
        · intro a _
          apply Res.bind_ne_panic (ih _)
          intro p _; cases p; simp

theorem recordUnmarshal_ne_panic (bs : Bytes) : recordUnmarshal bs ≠ .panic := by
  unfold recordUnmarshal
  split
  · apply Res.bind_ne_panic (readSets_ne_panic _ _)
    intro p _
    obtain ⟨sps, b⟩ := p
    simp only
    split
    · simp
    · apply Res.bind_ne_panic (readSets_ne_panic _ _)
      intro q _; cases q; simp
  · simp

theorem naluUnmarshal_ne_panic (bs : Bytes) : naluUnmarshal bs ≠ .panic := by
  cases bs <;> simp [naluUnmarshal]

theorem pow256_le7 (n : Nat) (h : n ≤ 7) : 256 ^ n < 2 ^ 63 := by
  have : n = 0 ∨ n = 1 ∨ n = 2 ∨ n = 3 ∨ n = 4 ∨ n = 5 ∨ n = 6 ∨ n = 7 := by omega
  rcases this with rfl | rfl | rfl | rfl | rfl | rfl | rfl | rfl <;> decide

theorem ofBE_take_lt (n : Nat) (h : n ≤ 7) (b : Bytes) : ofBE (b.take n) < 2 ^ 63 := by
  have h1 := ofBE_lt (b.take n)
  have h2 : (b.take n).length ≤ n := by simp [List.length_take]; omega
  have h3 : 256 ^ (b.take n).length ≤ 256 ^ n := Nat.pow_le_pow_right (by decide) h2
  have := pow256_le7 n h
  omega

theorem sampleLoop_ne_panic (n : Nat) (hn : 1 ≤ n) (hn7 : n ≤ 7) (fuel : Nat) (b : Bytes) (hf : b.length ≤ fuel) :
    sampleLoop n fuel b ≠ .panic := by
  induction fuel generalizing b with
  | zero =>
    have : b = [] := List.length_eq_zero_iff.mp (Nat.le_zero.mp hf)
    subst this; simp [sampleLoop]
  | succ fuel ih =>
    cases b with
    | nil => simp [sampleLoop]
    | cons c cs =>
      simp only [sampleLoop]
      split
      · simp
      · rw [if_neg (by have := ofBE_take_lt n hn7 (c :: cs); omega)]
        split
        · simp
        · apply Res.bind_ne_panic (naluUnmarshal_ne_panic _)
          intro a _
          apply Res.bind_ne_panic
          · apply ih
            simp only [List.length_drop, List.length_cons] at *
            omega
          · intro ns _; simp

theorem sampleLoop_sampleMarshal (n : Nat) (hn7 : n ≤ 7) (xs : List Nalu) (fuel : Nat)
    (h : ∀ x ∈ xs, x.WF ∧ 1 + x.data.length < 256 ^ n)
    (hf : (sampleMarshal n xs).length ≤ fuel) :
    sampleLoop n fuel (sampleMarshal n xs) = ok xs := by
  induction xs generalizing fuel with
  | nil => cases fuel <;> simp [sampleMarshal, sampleLoop]
  | cons x xs ih =>
    have hx := h x (by simp)
    have hxs : ∀ y ∈ xs, y.WF ∧ 1 + y.data.length < 256 ^ n := fun y hy => h y (by simp [hy])
    have hlen : (naluMarshal x).length < 256 ^ n := by rw [naluMarshal_length]; exact hx.2
    have hne : sampleMarshal n (x :: xs) =
        be n (naluMarshal x).length ++ (naluMarshal x ++ sampleMarshal n xs) := by
      simp [sampleMarshal]
    cases fuel with
    | zero =>
      rw [hne] at hf
      simp [naluMarshal] at hf
    | succ fuel =>
      rw [hne] at hf ⊢
      generalize hb : be n (naluMarshal x).length ++ (naluMarshal x ++ sampleMarshal n xs) = b at hf ⊢
      cases b with
      | nil =>
        have := congrArg List.length hb
        simp [naluMarshal] at this
      | cons c cs =>
        simp only [sampleLoop]
        rw [← hb]
        rw [take_append_len _ _ (be_length n _), drop_append_len _ _ (be_length n _),
            ofBE_be_of_lt hlen, take_append_len _ _ rfl, drop_append_len _ _ rfl]
        have hf' : (sampleMarshal n xs).length ≤ fuel := by
          rw [← hb] at hf
          simp only [List.length_append, be_length, naluMarshal_length] at hf
          omega
        simp only [nalu_rt x hx.1, ih fuel hxs hf', List.length_append, be_length]
        rw [if_neg (by omega), if_neg (by have := pow256_le7 n hn7; omega), if_neg (by omega)]
        rfl

end Oryx.Avc
