/-
  Helper lemmas for C03, part 3: what `DecodeMessage` makes of a packet the peer marshalled
  (the library's dispatch table as the relation `Arrives`), and the composition with C01's
  `write_read_one` so that the statement is about bytes on the wire.
-/
import Oryx.Proofs.RtmpPktRT
import Oryx.Proofs.Rtmp.Session
namespace Oryx.RtmpPkt
open Oryx Oryx.Res Oryx.Amf0 Oryx.Rtmp

/-! ### DecodeMessage on a message of a given type -/

theorem dispatchSt_congr (tbl : TxnTable) (m m' : Msg) (ht : m.hdr.ty = m'.hdr.ty) (hp : m.payload = m'.payload) :
    dispatchSt tbl m = dispatchSt tbl m' := by
  unfold dispatchSt; rw [ht, hp]

/-- An AMF0 command message: the constructor is chosen by `parseAMFObject`, then the payload decoded. -/
theorem dispatchSt_cmd (tbl : TxnTable) (m : Msg) (hty : m.hdr.ty = 20) (hne : m.payload.length ≠ 0) :
    dispatchSt tbl m = decodeWith (parseAMFObject tbl m.payload) m.payload := by
  unfold dispatchSt
  rw [if_neg hne, hty]
  have h1 : Gen.Rtmp.decodeMessageSkipsOneByte 20 = false := by decide
  have h2 : Gen.Rtmp.decodeMessageArm 20 = .parseAMFObject := by decide
  simp only [h1, h2, Bool.false_eq_true, if_false]

/-- `parseAMFObject` on a payload that starts with a response name and a transaction id. -/
theorem parse_cmd_resp (tbl : TxnTable) (name : Bytes) (hn : name.length ≤ 65535) (tid : UInt64) (tl : Bytes)
    (hr : Gen.Rtmp.parseCommandArm name = .response) :
    parseAMFObject tbl (encode (.str name) ++ (encode (.num tid) ++ tl)) =
      match tbl.find tid with
      | none => (.err .generic, tbl)
      | some req => ctorResult (Gen.Rtmp.parseResponseArm req) (tbl.erase tid) := by
  unfold parseAMFObject
  rw [strDec_enc hn]
  simp only [hr]
  rw [slice_enc]; simp only [Res.bind_ok]
  rw [numDec_enc]
  simp only []
  cases tbl.find tid <;> rfl

/-- … and with any other command name. -/
theorem parse_cmd_other (tbl : TxnTable) (name : Bytes) (hn : name.length ≤ 65535) (tl : Bytes)
    (hr : Gen.Rtmp.parseCommandArm name ≠ .response) :
    parseAMFObject tbl (encode (.str name) ++ tl) = ctorResult (Gen.Rtmp.parseCommandArm name) tbl := by
  unfold parseAMFObject
  rw [strDec_enc hn]
  simp only []

theorem ctorResult_some {c : Gen.Rtmp.Ctor} {k : Kind} (h : ctorKind c = some k) (tbl : TxnTable) :
    ctorResult c tbl = (.ok k, tbl) := by
  simp [ctorResult, h]

theorem not_response_of_kind {c : Gen.Rtmp.Ctor} {k : Kind} (h : ctorKind c = some k) : c ≠ .response := by
  intro e; rw [e] at h; cases h

/-! ### the dispatch table, row by row -/

/-- `Arrives tbl p q tbl'`: the library's dispatch table. A packet `p` marshalled by the peer is decoded,
with the requests `tbl` outstanding, as the packet `q`, leaving `tbl'`:
control packets, connect and publish as themselves; a `_result` as the response type of the outstanding
request with its transaction id (which is consumed); createStream, play and every other command as a
generic call. -/
inductive Arrives (tbl : TxnTable) : Packet → Packet → TxnTable → Prop where
  | setChunkSize (v : Nat) : Arrives tbl (.setChunkSize v) (.setChunkSize v) tbl
  | winAck (v : Nat) : Arrives tbl (.winAck v) (.winAck v) tbl
  | setPeerBw (v l : Nat) : Arrives tbl (.setPeerBw v l) (.setPeerBw v l) tbl
  | userControl (e d x : Nat) : Arrives tbl (.userControl e d x) (.userControl e d x) tbl
  | connect (c : ObjCall) : Arrives tbl (.connect c) (.connect c) tbl
  | publish (c : VarCall) (sn st : Bytes) (hn : ctorKind (Gen.Rtmp.parseCommandArm c.name) = some .publish) :
      Arrives tbl (.publish c sn st) (.publish c sn st) tbl
  | connectRes (c : ObjCall) (req : Bytes) (hf : tbl.find c.tid = some req)
      (hr : ctorKind (Gen.Rtmp.parseResponseArm req) = some .connectRes) :
      Arrives tbl (.connectRes c) (.connectRes c) (tbl.erase c.tid)
  | createStreamRes (c : VarCall) (sid : UInt64) (req : Bytes) (hn : Gen.Rtmp.parseCommandArm c.name = .response)
      (hf : tbl.find c.tid = some req) (hr : ctorKind (Gen.Rtmp.parseResponseArm req) = some .createStreamRes) :
      Arrives tbl (.createStreamRes c sid) (.createStreamRes c sid) (tbl.erase c.tid)
  | createStream (c : VarCall) (hn : ctorKind (Gen.Rtmp.parseCommandArm c.name) = some .call) :
      Arrives tbl (.createStream c) (.call c none) tbl
  | play (c : VarCall) (sn : Bytes) (hn : ctorKind (Gen.Rtmp.parseCommandArm c.name) = some .call) :
      Arrives tbl (.play c sn) (.call c (some (.str sn))) tbl
  | call (c : VarCall) (a : Option Val) (hn : ctorKind (Gen.Rtmp.parseCommandArm c.name) = some .call) :
      Arrives tbl (.call c a) (.call c a) tbl

theorem unmarshal_as (p q : Packet) (hq : q.wf = true) (hm : q.marshal = p.marshal) :
    unmarshal q.kind p.marshal = ok q := by
  rw [← hm]; exact unmarshal_marshal q hq

theorem size_pos' (p : Packet) : 1 ≤ p.size := by
  cases p <;> simp only [Packet.size, ObjCall.size, VarCall.size, Amf0.size, userControlSize] <;> omega

theorem marshal_len_ne (p : Packet) : p.marshal.length ≠ 0 := by
  rw [marshal_length]; have := size_pos' p; omega

theorem VarCall.wf_name {c : VarCall} (h : c.wf = true) : c.name.length ≤ 65535 := by
  simp only [VarCall.wf, Bool.and_eq_true, decide_eq_true_eq] at h; exact h.1

theorem ObjCall.wf_name {c : ObjCall} (h : c.wf = true) : c.name.length ≤ 65535 := by
  simp only [ObjCall.wf, Bool.and_eq_true, decide_eq_true_eq] at h; exact h.1.1

/-- Control packets: decoded by message type alone. -/
theorem dispatchSt_control (tbl : TxnTable) (m : Msg) (k : Kind) (hne : m.payload.length ≠ 0)
    (hk : (m.hdr.ty = 1 ∧ k = .setChunkSize) ∨ (m.hdr.ty = 5 ∧ k = .winAck) ∨ (m.hdr.ty = 6 ∧ k = .setPeerBw) ∨
          (m.hdr.ty = 4 ∧ k = .userControl)) :
    dispatchSt tbl m = (unmarshal k m.payload, tbl) := by
  unfold dispatchSt
  rw [if_neg hne]
  rcases hk with ⟨ht, rfl⟩ | ⟨ht, rfl⟩ | ⟨ht, rfl⟩ | ⟨ht, rfl⟩ <;> rw [ht]
  · have h1 : Gen.Rtmp.decodeMessageSkipsOneByte 1 = false := by decide
    have h2 : Gen.Rtmp.decodeMessageArm 1 = .NewSetChunkSize := by decide
    simp only [h1, h2, Bool.false_eq_true, if_false]
    rfl
  · have h1 : Gen.Rtmp.decodeMessageSkipsOneByte 5 = false := by decide
    have h2 : Gen.Rtmp.decodeMessageArm 5 = .NewWindowAcknowledgementSize := by decide
    simp only [h1, h2, Bool.false_eq_true, if_false]
    rfl
  · have h1 : Gen.Rtmp.decodeMessageSkipsOneByte 6 = false := by decide
    have h2 : Gen.Rtmp.decodeMessageArm 6 = .NewSetPeerBandwidth := by decide
    simp only [h1, h2, Bool.false_eq_true, if_false]
    rfl
  · have h1 : Gen.Rtmp.decodeMessageSkipsOneByte 4 = false := by decide
    have h2 : Gen.Rtmp.decodeMessageArm 4 = .NewUserControl := by decide
    simp only [h1, h2, Bool.false_eq_true, if_false]
    rfl

theorem str_append_len_ne (name tl : Bytes) : (encode (.str name) ++ tl).length ≠ 0 := by
  simp [encode]

/-- A command whose name is not a response name: decoded by the constructor its arm names. -/
theorem dispatch_cmd_other (tbl : TxnTable) (m : Msg) (hty : m.hdr.ty = 20) (name : Bytes) (hn : name.length ≤ 65535)
    (tl : Bytes) (hpl : m.payload = encode (.str name) ++ tl) (k : Kind)
    (hk : ctorKind (Gen.Rtmp.parseCommandArm name) = some k) :
    dispatchSt tbl m = (unmarshal k m.payload, tbl) := by
  rw [dispatchSt_cmd tbl m hty (by rw [hpl]; exact str_append_len_ne _ _)]
  conv => lhs; arg 1; rw [hpl]
  rw [parse_cmd_other tbl name hn tl (not_response_of_kind hk), ctorResult_some hk]
  rfl

/-- A response whose id has an outstanding request: decoded by the response constructor of that
request; the entry is deleted. -/
theorem dispatch_cmd_resp (tbl : TxnTable) (m : Msg) (hty : m.hdr.ty = 20) (name : Bytes) (hn : name.length ≤ 65535)
    (tid : UInt64) (tl : Bytes) (hpl : m.payload = encode (.str name) ++ (encode (.num tid) ++ tl))
    (hr : Gen.Rtmp.parseCommandArm name = .response) (req : Bytes) (hf : tbl.find tid = some req) (k : Kind)
    (hk : ctorKind (Gen.Rtmp.parseResponseArm req) = some k) :
    dispatchSt tbl m = (unmarshal k m.payload, tbl.erase tid) := by
  rw [dispatchSt_cmd tbl m hty (by rw [hpl]; exact str_append_len_ne _ _)]
  conv => lhs; arg 1; rw [hpl]
  rw [parse_cmd_resp tbl name hn tid tl hr, hf]
  simp only []
  rw [ctorResult_some hk]
  rfl

/-- **Dispatch of a marshalled packet**: any message whose type is `p`'s `Type()` and whose payload is
`p`'s marshalled bytes is decoded as the dispatch table says, to a packet that re-marshals to the same
payload. -/
theorem dispatchSt_arrives (tbl tbl' : TxnTable) (p q : Packet) (hp : p.wf = true) (h : Arrives tbl p q tbl')
    (m : Msg) (hty : m.hdr.ty = p.msgType) (hpl : m.payload = p.marshal) :
    dispatchSt tbl m = (ok q, tbl') ∧ q.marshal = p.marshal := by
  have hne : m.payload.length ≠ 0 := by rw [hpl]; exact marshal_len_ne p
  cases h with
  | setChunkSize v =>
    refine ⟨?_, rfl⟩
    rw [dispatchSt_control tbl m .setChunkSize hne (Or.inl ⟨hty, rfl⟩), hpl]
    exact congrArg (·, tbl) (unmarshal_marshal _ hp)
  | winAck v =>
    refine ⟨?_, rfl⟩
    rw [dispatchSt_control tbl m .winAck hne (Or.inr (Or.inl ⟨hty, rfl⟩)), hpl]
    exact congrArg (·, tbl) (unmarshal_marshal _ hp)
  | setPeerBw v l =>
    refine ⟨?_, rfl⟩
    rw [dispatchSt_control tbl m .setPeerBw hne (Or.inr (Or.inr (Or.inl ⟨hty, rfl⟩))), hpl]
    exact congrArg (·, tbl) (unmarshal_marshal _ hp)
  | userControl e d x =>
    refine ⟨?_, rfl⟩
    rw [dispatchSt_control tbl m .userControl hne (Or.inr (Or.inr (Or.inr ⟨hty, rfl⟩))), hpl]
    exact congrArg (·, tbl) (unmarshal_marshal _ hp)
  | connect c =>
    refine ⟨?_, rfl⟩
    have hp' := hp
    simp only [Packet.wf, Bool.and_eq_true, decide_eq_true_eq] at hp'
    obtain ⟨⟨hc, hn⟩, _⟩ := hp'
    have hk : ctorKind (Gen.Rtmp.parseCommandArm c.name) = some .connect := by rw [hn]; decide
    rw [dispatch_cmd_other tbl m hty c.name (ObjCall.wf_name hc) _ (by rw [hpl]; rfl) .connect hk, hpl]
    exact congrArg (·, tbl) (unmarshal_marshal (.connect c) hp)
  | publish c sn st hn =>
    refine ⟨?_, rfl⟩
    have hp' := hp
    simp only [Packet.wf, Bool.and_eq_true, decide_eq_true_eq] at hp'
    obtain ⟨⟨⟨hc, _⟩, _⟩, _⟩ := hp'
    have hform : (Packet.publish c sn st).marshal = encode (.str c.name) ++ (encode (.num c.tid) ++
        (optEnc c.obj ++ (encode (.str sn) ++ encode (.str st)))) := by
      simp only [Packet.marshal, VarCall.marshal, List.append_assoc]
    rw [dispatch_cmd_other tbl m hty c.name (VarCall.wf_name hc) _ (by rw [hpl, hform]) .publish hn, hpl]
    exact congrArg (·, tbl) (unmarshal_marshal (.publish c sn st) hp)
  | connectRes c req hf hr =>
    refine ⟨?_, rfl⟩
    have hp' := hp
    simp only [Packet.wf, Bool.and_eq_true, decide_eq_true_eq] at hp'
    obtain ⟨hc, hn⟩ := hp'
    have harm : Gen.Rtmp.parseCommandArm c.name = .response := by rw [hn]; decide
    rw [dispatch_cmd_resp tbl m hty c.name (ObjCall.wf_name hc) c.tid _ (by rw [hpl]; rfl) harm req hf .connectRes hr, hpl]
    exact congrArg (·, tbl.erase c.tid) (unmarshal_marshal (.connectRes c) hp)
  | createStreamRes c sid req hn hf hr =>
    refine ⟨?_, rfl⟩
    have hp' := hp
    simp only [Packet.wf, Bool.and_eq_true] at hp'
    obtain ⟨hc, _⟩ := hp'
    have hform : (Packet.createStreamRes c sid).marshal = encode (.str c.name) ++ (encode (.num c.tid) ++
        (optEnc c.obj ++ encode (.num sid))) := by
      simp only [Packet.marshal, VarCall.marshal, List.append_assoc]
    rw [dispatch_cmd_resp tbl m hty c.name (VarCall.wf_name hc) c.tid _ (by rw [hpl, hform]) hn req hf .createStreamRes hr, hpl]
    exact congrArg (·, tbl.erase c.tid) (unmarshal_marshal (.createStreamRes c sid) hp)
  | createStream c hn =>
    have hc : c.wf = true := hp
    have hq : (Packet.call c none).wf = true := by simp [Packet.wf, hc, optWf]
    have hm : (Packet.call c none).marshal = (Packet.createStream c).marshal := by
      simp [Packet.marshal, optEnc]
    refine ⟨?_, hm⟩
    rw [dispatch_cmd_other tbl m hty c.name (VarCall.wf_name hc) _ (by rw [hpl]; rfl) .call hn, hpl]
    exact congrArg (·, tbl) (unmarshal_as _ _ hq hm)
  | play c sn hn =>
    have hp' := hp
    simp only [Packet.wf, Bool.and_eq_true, decide_eq_true_eq] at hp'
    obtain ⟨⟨hc, hs⟩, hsn⟩ := hp'
    have hq : (Packet.call c (some (.str sn))).wf = true := by
      simp [Packet.wf, hc, optWf, Amf0.wf, hsn, hs]
    have hm : (Packet.call c (some (.str sn))).marshal = (Packet.play c sn).marshal := by
      simp [Packet.marshal, optEnc]
    refine ⟨?_, hm⟩
    have hform : (Packet.play c sn).marshal = encode (.str c.name) ++ (encode (.num c.tid) ++ (optEnc c.obj ++ encode (.str sn))) := by
      simp only [Packet.marshal, VarCall.marshal, List.append_assoc]
    rw [dispatch_cmd_other tbl m hty c.name (VarCall.wf_name hc) _ (by rw [hpl, hform]) .call hn, hpl]
    exact congrArg (·, tbl) (unmarshal_as _ _ hq hm)
  | call c a hn =>
    refine ⟨?_, rfl⟩
    have hp' := hp
    simp only [Packet.wf, Bool.and_eq_true] at hp'
    obtain ⟨⟨hc, _⟩, _⟩ := hp'
    have hform : (Packet.call c a).marshal = encode (.str c.name) ++ (encode (.num c.tid) ++ (optEnc c.obj ++ optEnc a)) := by
      simp only [Packet.marshal, VarCall.marshal, List.append_assoc]
    rw [dispatch_cmd_other tbl m hty c.name (VarCall.wf_name hc) _ (by rw [hpl, hform]) .call hn, hpl]
    exact congrArg (·, tbl) (unmarshal_marshal (.call c a) hp)

/-! ### on the wire (composition with C01) -/

/-- The message `WritePacket` builds for a well-formed packet is in the domain of C01's theorem
(chunk stream 2 or 3, timestamp 0, payload non-empty and — hypothesis — shorter than 2^24; the bodies of
the three control types the reader decodes itself are well formed). -/
theorem kind_cid_range (k : Kind) : 2 ≤ k.cid ∧ k.cid < 64 := by cases k <;> decide
theorem kind_ty_lt (k : Kind) : k.msgType < 256 := by cases k <;> decide
theorem msgType_1 (k : Kind) (h : k.msgType = 1) : k = .setChunkSize := by
  cases k <;> first | rfl | exact absurd h (by decide)
theorem msgType_5 (k : Kind) (h : k.msgType = 5) : k = .winAck := by
  cases k <;> first | rfl | exact absurd h (by decide)
theorem msgType_4 (k : Kind) (h : k.msgType = 4) : k = .userControl := by
  cases k <;> first | rfl | exact absurd h (by decide)

theorem msgOf_wf (p : Packet) (hp : p.wf = true) (sid : Nat) (hlen : p.marshal.length < 16777216) :
    (msgOf p sid).WF := by
  have hpos : 1 ≤ p.marshal.length := by have := marshal_len_ne p; omega
  have hsid : sid % 4294967296 < 4294967296 := Nat.mod_lt _ (by decide)
  have hk := kind_cid_range p.kind
  refine ⟨hk.1, hk.2, (by show (0 : Nat) < 2147483648; decide), hpos, hlen, kind_ty_lt p.kind, hsid, ⟨?_, ?_, ?_⟩⟩
  · intro h
    have hk1 := msgType_1 p.kind h
    cases p <;> simp only [Packet.kind, reduceCtorEq] at hk1
    simp [msgOf, Packet.marshal]
  · intro h
    have hk1 := msgType_5 p.kind h
    cases p <;> simp only [Packet.kind, reduceCtorEq] at hk1
    simp [msgOf, Packet.marshal]
  · intro h
    have hk1 := msgType_4 p.kind h
    cases p <;> simp only [Packet.kind, reduceCtorEq] at hk1
    next e d x =>
      have he : e < 65536 := by
        simp only [Packet.wf, Bool.and_eq_true, decide_eq_true_eq] at hp; exact hp.1.1.1.1
      have hl := userControl_marshal_length e d x
      have h3 : 3 ≤ userControlSize e := by unfold userControlSize; split <;> omega
      refine ⟨by simp only [msgOf]; omega, ?_⟩
      simp only [msgOf]
      have : (Packet.userControl e d x).marshal = be 2 e ++ ((if e = Gen.Rtmp.EventTypeFmsEvent0 then be 1 d else be 4 d) ++
          (if e = Gen.Rtmp.EventTypeSetBufferLength then be 4 x else [])) := rfl
      rw [this, ofBE_take2 he, ← this]; omega

/-- **On the wire**: `WritePacket(p, streamID)` on one endpoint (any output chunk size ≥ 1), then
`ReadMessage` + `DecodeMessage` on the peer whose reader follows that chunk size: exactly the written
bytes are consumed, the message has `p`'s type, stream id and marshalled payload, and it decodes as the
dispatch table says to a packet that re-marshals to the same payload. The writer registered its request
before writing. -/
theorem wire_dispatch (p q : Packet) (tbl tbl' : TxnTable) (hp : p.wf = true) (harr : Arrives tbl p q tbl')
    (sid : Nat) (hlen : p.marshal.length < 16777216)
    (c : Nat) (hc : 1 ≤ c) (st : Reader) (hic : st.inChunk = c) (hclean : Clean st) (rest : Bytes) (wtbl : TxnTable) :
    ∃ W m st', writePacket c wtbl p sid = (ok W, onPacketWritten wtbl p) ∧
      readMessage st (W ++ rest) = ok ((m, st'), rest) ∧ Clean st' ∧
      m.hdr.ty = p.msgType ∧ m.hdr.sid = sid % 4294967296 ∧ m.hdr.ts = 0 ∧ m.payload = p.marshal ∧
      dispatch tbl m = ok (q, tbl') ∧ q.marshal = p.marshal := by
  obtain ⟨W, st', hw, hr, hcl, _⟩ := write_read_one c hc (msgOf p sid) (msgOf_wf p hp sid hlen) st hic hclean rest
  obtain ⟨hd, hm⟩ := dispatchSt_arrives tbl tbl' p q hp harr (received (msgOf p sid)) rfl rfl
  refine ⟨W, received (msgOf p sid), st', by simp [writePacket, hw], hr, hcl, rfl, rfl, rfl, rfl, ?_, hm⟩
  simp [dispatch, hd]

end Oryx.RtmpPkt

namespace Oryx.RtmpPkt
open Oryx Oryx.Res Oryx.Amf0 Oryx.Rtmp

/-! ### the chunk reader's own use of `DecodeMessage` (`onMessageArrivated`) -/

theorem u32_ok {b : Bytes} (h : 4 ≤ b.length) : u32 b = ok (ofBE (b.take 4)) := by
  unfold u32; rw [if_neg (by omega)]

theorem idx_ok {α} {l : List α} {i : Nat} (h : i < l.length) : idx l i = ok l[i] := by
  unfold idx; rw [List.getElem?_eq_getElem h]

theorem userControl_unmarshal_ok (data : Bytes) (h3 : 3 ≤ data.length)
    (hsz : userControlSize (ofBE (data.take 2)) ≤ data.length) :
    ∃ d x, unmarshal .userControl data = ok (.userControl (ofBE (data.take 2)) d x) := by
  rw [unmarshal, if_neg (by omega)]
  simp only []
  rw [if_neg (by omega)]
  unfold userControlSize at hsz
  by_cases hf : ofBE (data.take 2) = Gen.Rtmp.EventTypeFmsEvent0
  · have hs : ¬ ofBE (data.take 2) = Gen.Rtmp.EventTypeSetBufferLength := by rw [hf]; decide
    simp only [if_pos hf, if_neg hs, idx_ok (show 2 < data.length by omega), Res.bind_ok, Res.pure_eq]
    exact ⟨_, _, rfl⟩
  · rw [if_neg hf] at hsz
    have h2 : sliceFrom data 2 = ok (data.drop 2) := by unfold sliceFrom; rw [if_pos (by omega)]
    have hl2 : 4 ≤ (data.drop 2).length := by rw [List.length_drop]; split at hsz <;> omega
    by_cases hs : ofBE (data.take 2) = Gen.Rtmp.EventTypeSetBufferLength
    · rw [if_pos hs] at hsz
      have h6 : sliceFrom data 6 = ok (data.drop 6) := by unfold sliceFrom; rw [if_pos (by omega)]
      have hl6 : 4 ≤ (data.drop 6).length := by rw [List.length_drop]; omega
      simp only [if_neg hf, if_pos hs, h2, h6, u32_ok hl2, u32_ok hl6, Res.bind_ok, Res.pure_eq]
      exact ⟨_, _, rfl⟩
    · simp only [if_neg hf, if_neg hs, h2, u32_ok hl2, Res.bind_ok, Res.pure_eq]
      exact ⟨_, _, rfl⟩

/-- What the chunk reader does with a completed message (C01's `Rtmp.onMessageArrived`: decode Set Chunk
Size / User Control / Window Acknowledgement Size, fail when that fails, apply Set Chunk Size) is exactly
`DecodeMessage` of this model — the two models agree where they overlap. -/
theorem onMessageArrived_eq_decode (c : Nat) (m : Msg) (tbl : TxnTable) :
    onMessageArrived c m =
      (if m.hdr.ty = 1 ∨ m.hdr.ty = 4 ∨ m.hdr.ty = 5 then
         match (dispatchSt tbl m).1 with
         | .ok (.setChunkSize v) => ok v
         | .ok _ => ok c
         | .err _ => err .generic
         | .panic => .panic
       else ok c) := by
  unfold onMessageArrived
  simp only [show Gen.Rtmp.MessageTypeSetChunkSize = 1 from rfl, show Gen.Rtmp.MessageTypeWindowAcknowledgementSize = 5 from rfl,
    show Gen.Rtmp.MessageTypeUserControl = 4 from rfl]
  by_cases h1 : m.hdr.ty = 1
  · simp only [h1, true_or, if_true]
    by_cases hl : m.payload.length < 4
    · rw [if_pos hl]
      by_cases h0 : m.payload.length = 0
      · simp [dispatchSt, h0]
      · rw [dispatchSt_control tbl m .setChunkSize h0 (Or.inl ⟨h1, rfl⟩), unmarshal, if_pos hl]
    · rw [if_neg hl, dispatchSt_control tbl m .setChunkSize (by omega) (Or.inl ⟨h1, rfl⟩), unmarshal, if_neg hl,
        u32_ok (by omega)]
      rfl
  · by_cases h5 : m.hdr.ty = 5
    · simp only [h5, if_true, or_true, show ¬ (5 = 1) by decide, if_false]
      by_cases hl : m.payload.length < 4
      · rw [if_pos hl]
        by_cases h0 : m.payload.length = 0
        · simp [dispatchSt, h0]
        · rw [dispatchSt_control tbl m .winAck h0 (Or.inr (Or.inl ⟨h5, rfl⟩)), unmarshal, if_pos hl]
      · rw [if_neg hl, dispatchSt_control tbl m .winAck (by omega) (Or.inr (Or.inl ⟨h5, rfl⟩)), unmarshal, if_neg hl,
          u32_ok (by omega)]
        rfl
    · by_cases h4 : m.hdr.ty = 4
      · simp only [h4, if_true, or_true, true_or, show ¬ (4 = 1) by decide, show ¬ (4 = 5) by decide, if_false]
        by_cases hl : m.payload.length < 3
        · rw [if_pos hl]
          by_cases h0 : m.payload.length = 0
          · simp [dispatchSt, h0]
          · rw [dispatchSt_control tbl m .userControl h0 (Or.inr (Or.inr (Or.inr ⟨h4, rfl⟩))), unmarshal, if_pos hl]
        · rw [if_neg hl, dispatchSt_control tbl m .userControl (by omega) (Or.inr (Or.inr (Or.inr ⟨h4, rfl⟩)))]
          by_cases hs : m.payload.length < userControlSize (ofBE (m.payload.take 2))
          · rw [if_pos hs, unmarshal, if_neg hl]
            simp only []
            rw [if_pos hs]
          · obtain ⟨d, x, hu⟩ := userControl_unmarshal_ok m.payload (by omega) (by omega)
            rw [if_neg hs, hu]
      · simp [h1, h5, h4]

end Oryx.RtmpPkt
