/-
  Lemmas about the websocket opening-handshake model (Model.WsHandshake): the octet classes are RFC 7230's `tchar` and
  optional white space, the fuel of the list parsers is never exhausted, `tokenListContainsValue` decides membership
  in a `1#token` list, the server's and the client's decisions stated outright, and the library's client and server
  agree on what they negotiated.
-/
import Oryx.Model.WsHandshake
namespace Oryx.Model.WsHs
open Oryx

/-! ## octet classes -/

/-- RFC 7230 `tchar`, written from the grammar: `"!#$%&'*+-.^_`|~"`, DIGIT, ALPHA. -/
def isTchar (c : UInt8) : Bool :=
  [33, 35, 36, 37, 38, 39, 42, 43, 45, 46, 94, 95, 96, 124, 126].contains c ||
  (48 ≤ c && c ≤ 57) || (65 ≤ c && c ≤ 90) || (97 ≤ c && c ≤ 122)

theorem token_octet_is_tchar : ∀ c : UInt8, isTokenOctet c = isTchar c := by
  apply forall_u8; decide +kernel

theorem space_octet_iff : ∀ c : UInt8, isSpaceOctet c = (c == 32 || c == 9 || c == 13 || c == 10) := by
  intro c; rfl

theorem token_not_space : ∀ c : UInt8, isTokenOctet c = true → isSpaceOctet c = false := by
  apply forall_u8; decide +kernel

theorem comma_not_token : isTokenOctet 44 = false := by decide
theorem comma_not_space : isSpaceOctet 44 = false := by decide

/-! ## takeWhile / dropWhile over a block that satisfies (or does not start with) the predicate -/

theorem dropWhile_all_append {α} (p : α → Bool) (a b : List α) (h : a.all p = true) :
    (a ++ b).dropWhile p = b.dropWhile p := by
  induction a with
  | nil => rfl
  | cons x xs ih =>
    simp only [List.all_cons, Bool.and_eq_true] at h
    simp [h.1, ih h.2]

theorem takeWhile_all_append {α} (p : α → Bool) (a b : List α) (h : a.all p = true) :
    (a ++ b).takeWhile p = a ++ b.takeWhile p := by
  induction a with
  | nil => rfl
  | cons x xs ih =>
    simp only [List.all_cons, Bool.and_eq_true] at h
    simp [h.1, ih h.2]

theorem dropWhile_head_false {α} (p : α → Bool) (x : α) (t : List α) (h : p x = false) :
    (x :: t).dropWhile p = x :: t := by simp [h]

theorem takeWhile_head_false {α} (p : α → Bool) (x : α) (t : List α) (h : p x = false) :
    (x :: t).takeWhile p = [] := by simp [h]

theorem skipSpace_ows (w rest : Bytes) (h : w.all isSpaceOctet = true) : skipSpace (w ++ rest) = skipSpace rest :=
  dropWhile_all_append _ _ _ h

theorem skipSpace_length_le (s : Bytes) : (skipSpace s).length ≤ s.length := by
  unfold skipSpace
  induction s with
  | nil => simp
  | cons x xs ih => simp only [List.dropWhile_cons]; split <;> simp <;> omega

theorem nextToken_length (s : Bytes) : (nextToken s).1.length + (nextToken s).2.length = s.length := by
  unfold nextToken
  have h := congrArg List.length (List.takeWhile_append_dropWhile (p := isTokenOctet) (l := s))
  simp only [List.length_append] at h
  exact h

/-! ## fuel is never exhausted -/

theorem tlcvOneF_some (fuel : Nat) (s value : Bytes) (h : s.length < fuel) : (tlcvOneF fuel s value).isSome = true := by
  induction fuel generalizing s with
  | zero => omega
  | succ n ih =>
    unfold tlcvOneF
    have hl := nextToken_length (skipSpace s)
    have hs := skipSpace_length_le s
    generalize htk : nextToken (skipSpace s) = tk at hl
    obtain ⟨t, r⟩ := tk
    simp only at hl ⊢
    by_cases ht : t.isEmpty = true
    · simp [ht]
    · simp only [ht, Bool.false_eq_true, ↓reduceIte]
      have hr := skipSpace_length_le r
      have htl : 0 < t.length := by
        cases t with
        | nil => simp at ht
        | cons _ _ => simp
      split
      · simp
      · rename_i c rest heq
        split
        · simp
        · split
          · simp
          · apply ih
            have : (skipSpace r).length = rest.length + 1 := by rw [heq]; simp
            omega

/-- `tokenListContainsValue` never runs out of fuel. -/
theorem tlcv_fuel (s value : Bytes) : (tlcvOneF (s.length + 1) s value).isSome = true :=
  tlcvOneF_some _ _ _ (Nat.lt_succ_self _)

/-! ## `tokenListContainsValue` decides membership in a rendered `1#token` list -/

/-- One element of a `1#token` header value as it appears on the wire: optional white space, a token, optional
white space. -/
structure Elem where
  pre : Bytes
  tok : Bytes
  post : Bytes

def Elem.wf (e : Elem) : Prop :=
  e.pre.all isSpaceOctet = true ∧ e.tok ≠ [] ∧ e.tok.all isTokenOctet = true ∧ e.post.all isSpaceOctet = true

/-- The elements joined by commas. -/
def renderElems : List Elem → Bytes
  | [] => []
  | [e] => e.pre ++ e.tok ++ e.post
  | e :: e' :: es => e.pre ++ e.tok ++ e.post ++ 44 :: renderElems (e' :: es)

theorem takeWhile_token_stop (post rest : Bytes) (hp : post.all isSpaceOctet = true)
    (hr : rest = [] ∨ ∃ r, rest = 44 :: r) : (post ++ rest).takeWhile isTokenOctet = [] := by
  cases post with
  | nil =>
    rcases hr with rfl | ⟨r, rfl⟩
    · rfl
    · exact takeWhile_head_false _ _ _ comma_not_token
  | cons x xs =>
    simp only [List.all_cons, Bool.and_eq_true] at hp
    have : isTokenOctet x = false := by
      cases h : isTokenOctet x with
      | false => rfl
      | true => have := token_not_space x h; simp [this] at hp
    exact takeWhile_head_false _ _ _ this

theorem dropWhile_token_stop (post rest : Bytes) (hp : post.all isSpaceOctet = true)
    (hr : rest = [] ∨ ∃ r, rest = 44 :: r) : (post ++ rest).dropWhile isTokenOctet = post ++ rest := by
  have h1 := List.takeWhile_append_dropWhile (p := isTokenOctet) (l := post ++ rest)
  rw [takeWhile_token_stop post rest hp hr] at h1
  simpa using h1

theorem skipSpace_stop (rest : Bytes) (hr : rest = [] ∨ ∃ r, rest = 44 :: r) : skipSpace rest = rest := by
  rcases hr with rfl | ⟨r, rfl⟩
  · rfl
  · exact dropWhile_head_false _ _ _ comma_not_space

theorem skipSpace_token (tok rest : Bytes) (hne : tok ≠ []) (ht : tok.all isTokenOctet = true) :
    skipSpace (tok ++ rest) = tok ++ rest := by
  cases tok with
  | nil => exact absurd rfl hne
  | cons x xs =>
    simp only [List.all_cons, Bool.and_eq_true] at ht
    exact dropWhile_head_false _ _ _ (token_not_space x ht.1)

/-- The lexing of one element followed by `rest` (nothing, or a comma and more). -/
theorem lex_elem (e : Elem) (he : e.wf) (rest : Bytes) (hr : rest = [] ∨ ∃ r, rest = 44 :: r) :
    nextToken (skipSpace (e.pre ++ e.tok ++ e.post ++ rest)) = (e.tok, e.post ++ rest)
    ∧ skipSpace (e.post ++ rest) = rest := by
  obtain ⟨h1, h2, h3, h4⟩ := he
  constructor
  · rw [List.append_assoc, List.append_assoc, skipSpace_ows _ _ h1, skipSpace_token _ _ h2 h3]
    unfold nextToken
    rw [takeWhile_all_append _ _ _ h3, dropWhile_all_append _ _ _ h3, takeWhile_token_stop _ _ h4 hr,
      dropWhile_token_stop _ _ h4 hr]
    simp
  · rw [skipSpace_ows _ _ h4, skipSpace_stop _ hr]

theorem tlcvOneF_spec (l : List Elem) (hl : l ≠ []) (hwf : ∀ e ∈ l, e.wf) (value : Bytes) :
    ∀ fuel, (renderElems l).length < fuel → tlcvOneF fuel (renderElems l) value = some (l.any (fun e => eqFoldC e.tok value)) := by
  induction l with
  | nil => exact absurd rfl hl
  | cons e es ih =>
    intro fuel hf
    cases fuel with
    | zero => omega
    | succ n =>
      have he := hwf e (by simp)
      have htne : e.tok.isEmpty = false := by
        cases h : e.tok with
        | nil => exact absurd h he.2.1
        | cons _ _ => rfl
      cases es with
      | nil =>
        have hlex := lex_elem e he [] (Or.inl rfl)
        simp only [List.append_nil] at hlex
        unfold tlcvOneF
        simp only [renderElems, hlex.1, htne, Bool.false_eq_true, ↓reduceIte, hlex.2, List.any_cons, List.any_nil, Bool.or_false]
      | cons e' es' =>
        have hlex := lex_elem e he (44 :: renderElems (e' :: es')) (Or.inr ⟨_, rfl⟩)
        have ih' := ih (by simp) (fun x hx => hwf x (by simp [hx])) n (by
          simp only [renderElems, List.length_append, List.length_cons] at hf ⊢; omega)
        unfold tlcvOneF
        simp only [renderElems, hlex.1, htne, Bool.false_eq_true, ↓reduceIte, hlex.2, bne_self_eq_false]
        rw [ih']
        cases h : eqFoldC e.tok value <;> simp [h]

/-- **Specification of `tokenListContainsValue` on one header value**: on a well-formed `1#token` list it answers
whether some token equals `value` under case folding. -/
theorem tlcvOne_spec (l : List Elem) (hl : l ≠ []) (hwf : ∀ e ∈ l, e.wf) (value : Bytes) :
    tlcvOne (renderElems l) value = l.any (fun e => eqFoldC e.tok value) := by
  unfold tlcvOne
  rw [tlcvOneF_spec l hl hwf value _ (Nat.lt_succ_self _)]
  rfl

/-! ## headers -/

theorem hget_append (a b : Header) (k : Bytes) : hget (a ++ b) k = hget a k ++ hget b k := by
  simp [hget]

theorem transport_append (a b : Header) : transport (a ++ b) = transport a ++ transport b := by
  simp [transport]

theorem hget_transport_none (h : Header) (k : Bytes) (hk : ∀ p ∈ h, canon p.1 ≠ k) : hget (transport h) k = [] := by
  induction h with
  | nil => rfl
  | cons p ps ih =>
    have h1 : canon p.1 ≠ k := hk p (by simp)
    have h2 := ih (fun q hq => hk q (by simp [hq]))
    have : (canon p.1 == k) = false := by simpa using h1
    simp only [transport, List.map_cons, hget, List.filter_cons, this] at h2 ⊢
    simpa using h2

/-! ## the server's decision, stated outright -/

/-- the client offered permessage-deflate -/
def offersPmd (r : Request) : Bool :=
  (parseExtensions (hget r.header (ascii "Sec-Websocket-Extensions"))).any (fun e => extName e == pmd)

/-- Everything `Upgrade` requires of a request. -/
def acceptable (u : Upgrader) (respHdr : Option Header) (r : Request) : Bool :=
  r.method == ascii "GET"
  && !(respHdr.getD []).any (fun p => p.1 == ascii "Sec-Websocket-Extensions")
  && tokenListContainsValue (hget r.header (ascii "Connection")) (ascii "upgrade")
  && tokenListContainsValue (hget r.header (ascii "Upgrade")) (ascii "websocket")
  && tokenListContainsValue (hget r.header (ascii "Sec-Websocket-Version")) (ascii "13")
  && u.originOk
  && !(hfirst r.header (ascii "Sec-Websocket-Key")).isEmpty
  && !r.buffered

theorem upgrade_accept_iff (ak : Bytes → Bytes) (u : Upgrader) (rh : Option Header) (r : Request) :
    (∃ l c s, upgrade ak u rh r = .accept l c s) ↔ acceptable u rh r = true := by
  simp only [upgrade, acceptable, bne]
  generalize (r.method == ascii "GET") = b1
  generalize ((rh.getD []).any (fun p => p.1 == ascii "Sec-Websocket-Extensions")) = b2
  generalize tokenListContainsValue (hget r.header (ascii "Connection")) (ascii "upgrade") = b3
  generalize tokenListContainsValue (hget r.header (ascii "Upgrade")) (ascii "websocket") = b4
  generalize tokenListContainsValue (hget r.header (ascii "Sec-Websocket-Version")) (ascii "13") = b5
  generalize u.originOk = b6
  generalize (hfirst r.header (ascii "Sec-Websocket-Key")).isEmpty = b7
  generalize r.buffered = b8
  cases b1 <;> cases b2 <;> cases b3 <;> cases b4 <;> cases b5 <;> cases b6 <;> cases b7 <;> cases b8 <;> simp

theorem upgrade_accept_shape (ak : Bytes → Bytes) (u : Upgrader) (rh : Option Header) (r : Request) (l : Header) (c : Bool) (s : Bytes)
    (h : upgrade ak u rh r = .accept l c s) :
    c = (u.enableCompression && offersPmd r) ∧ s = selectSubprotocol u r rh ∧
    l = fixedLines (ak (hfirst r.header (ascii "Sec-Websocket-Key"))) s c ++
        ((rh.getD []).filter (fun p => p.1 != ascii "Sec-Websocket-Protocol")).map (fun p => (p.1, p.2.map sanitize)) := by
  simp only [upgrade, bne] at h
  repeat' split at h
  all_goals first | (injection h) | skip
  rename_i hl hc hs
  subst hc hs hl
  exact ⟨rfl, rfl, rfl⟩

/-! ## the client's decision, stated outright -/

/-- the first permessage-deflate entry of the response, if any -/
def answeredPmd (h : Header) : Option Ext :=
  (parseExtensions (hget h (ascii "Sec-Websocket-Extensions"))).find? (fun e => extName e == pmd)

def responseOk (ak : Bytes → Bytes) (key : Bytes) (status : Nat) (h : Header) : Bool :=
  status == 101 && eqFoldC (hfirst h (ascii "Upgrade")) (ascii "websocket")
  && eqFoldC (hfirst h (ascii "Connection")) (ascii "upgrade")
  && hfirst h (ascii "Sec-Websocket-Accept") == ak key

theorem client_bad_iff (ak : Bytes → Bytes) (key : Bytes) (status : Nat) (h : Header) :
    clientCheck ak key status h = .badHandshake ↔ responseOk ak key status h = false := by
  simp only [clientCheck, responseOk, bne]
  generalize (status == 101) = b1
  generalize eqFoldC (hfirst h (ascii "Upgrade")) (ascii "websocket") = b2
  generalize eqFoldC (hfirst h (ascii "Connection")) (ascii "upgrade") = b3
  generalize (hfirst h (ascii "Sec-Websocket-Accept") == ak key) = b4
  cases b1 <;> cases b2 <;> cases b3 <;> cases b4 <;> simp
  all_goals (split <;> try split) <;> simp

theorem client_accept_iff (ak : Bytes → Bytes) (key : Bytes) (status : Nat) (h : Header) (c : Bool) (sub : Bytes) :
    clientCheck ak key status h = .accept c sub ↔
      responseOk ak key status h = true ∧ sub = hfirst h (ascii "Sec-Websocket-Protocol") ∧
      (match answeredPmd h with
       | none => c = false
       | some e => c = true ∧ extHas e snct = true ∧ extHas e cnct = true) := by
  simp only [clientCheck, responseOk, answeredPmd, bne]
  generalize (status == 101) = b1
  generalize eqFoldC (hfirst h (ascii "Upgrade")) (ascii "websocket") = b2
  generalize eqFoldC (hfirst h (ascii "Connection")) (ascii "upgrade") = b3
  generalize (hfirst h (ascii "Sec-Websocket-Accept") == ak key) = b4
  generalize (parseExtensions (hget h (ascii "Sec-Websocket-Extensions"))).find? (fun e => extName e == pmd) = f
  cases b1 <;> cases b2 <;> cases b3 <;> cases b4 <;> simp
  cases f with
  | none => simp; constructor <;> (intro h; simp_all) 
  | some e =>
    simp
    cases extHas e snct <;> cases extHas e cnct <;> simp
    constructor <;> (intro h; simp_all)


/-! ## the library's two halves agree -/

/-- the names the library's two halves look at in a REQUEST -/
def requestNames : List Bytes :=
  [ascii "Upgrade", ascii "Connection", ascii "Sec-Websocket-Key", ascii "Sec-Websocket-Version", ascii "Sec-Websocket-Extensions"]

theorem own_get (d : Dialer) (key : Bytes) :
    hget (transport (ownHdr d key)) (ascii "Connection") = [ascii "Upgrade"] ∧
    hget (transport (ownHdr d key)) (ascii "Upgrade") = [ascii "websocket"] ∧
    hget (transport (ownHdr d key)) (ascii "Sec-Websocket-Version") = [ascii "13"] ∧
    hget (transport (ownHdr d key)) (ascii "Sec-Websocket-Key") = [key] ∧
    hget (transport (ownHdr d key)) (ascii "Sec-Websocket-Extensions") = [] := by
  unfold ownHdr
  split <;> exact ⟨rfl, rfl, rfl, rfl, rfl⟩

theorem ext_get (d : Dialer) :
    hget (transport (extHdr d)) (ascii "Connection") = [] ∧
    hget (transport (extHdr d)) (ascii "Upgrade") = [] ∧
    hget (transport (extHdr d)) (ascii "Sec-Websocket-Version") = [] ∧
    hget (transport (extHdr d)) (ascii "Sec-Websocket-Key") = [] ∧
    hget (transport (extHdr d)) (ascii "Sec-Websocket-Extensions") = (if d.enableCompression then [clientExtLine] else []) := by
  unfold extHdr
  split <;> exact ⟨rfl, rfl, rfl, rfl, rfl⟩

theorem reserved_canon (d : Dialer) (k : Bytes) (h : (reservedRequestNames d).contains k = true) :
    canon k ∈ requestNames ∨ (d.subprotocols.isEmpty = false ∧ canon k = ascii "Sec-Websocket-Protocol") := by
  unfold reservedRequestNames at h
  simp only [List.contains_eq_mem, List.mem_append, List.mem_cons, decide_eq_true_eq] at h
  rcases h with h | h
  · rcases h with rfl | rfl | rfl | rfl | rfl | h
    all_goals first | (left; decide +kernel) | skip
    simp at h
  · split at h
    · simp at h
    · rename_i hne
      simp at h; subst h; right; exact ⟨by simpa using hne, by decide +kernel⟩

/-- what the server sees of the library's request for the names it looks at -/
theorem request_get (d : Dialer) (key : Bytes) (user : Header)
    (hu : ∀ p ∈ user, canon p.1 ∉ requestNames) :
    let h := transport (ownHdr d key ++ user ++ extHdr d)
    hget h (ascii "Connection") = [ascii "Upgrade"] ∧
    hget h (ascii "Upgrade") = [ascii "websocket"] ∧
    hget h (ascii "Sec-Websocket-Version") = [ascii "13"] ∧
    hget h (ascii "Sec-Websocket-Key") = [key] ∧
    hget h (ascii "Sec-Websocket-Extensions") = (if d.enableCompression then [clientExtLine] else []) := by
  intro h
  have hn : ∀ k ∈ requestNames, hget (transport user) k = [] := fun k hk =>
    hget_transport_none user k (fun p hp heq => hu p hp (heq ▸ hk))
  obtain ⟨o1, o2, o3, o4, o5⟩ := own_get d key
  obtain ⟨e1, e2, e3, e4, e5⟩ := ext_get d
  simp only [h, transport_append, hget_append, o1, o2, o3, o4, o5, e1, e2, e3, e4, e5]
  refine ⟨?_, ?_, ?_, ?_, ?_⟩
  · rw [hn _ (by decide +kernel)]; rfl
  · rw [hn _ (by decide +kernel)]; rfl
  · rw [hn _ (by decide +kernel)]; rfl
  · rw [hn _ (by decide +kernel)]; rfl
  · rw [hn _ (by decide +kernel)]; rfl


theorem fixed_get (acc sub : Bytes) (c : Bool) :
    let h := transport (fixedLines acc sub c)
    hfirst h (ascii "Upgrade") = ascii "websocket" ∧
    hfirst h (ascii "Connection") = ascii "Upgrade" ∧
    hfirst h (ascii "Sec-Websocket-Accept") = acc ∧
    hfirst h (ascii "Sec-Websocket-Protocol") = sub ∧
    hget h (ascii "Sec-Websocket-Extensions") = (if c then [serverExtLine] else []) := by
  intro h
  cases sub with
  | nil => cases c <;> exact ⟨rfl, rfl, rfl, rfl, rfl⟩
  | cons x xs => cases c <;> exact ⟨rfl, rfl, rfl, rfl, rfl⟩

theorem const_facts :
    tokenListContainsValue [ascii "Upgrade"] (ascii "upgrade") = true ∧
    tokenListContainsValue [ascii "websocket"] (ascii "websocket") = true ∧
    tokenListContainsValue [ascii "13"] (ascii "13") = true ∧
    (parseExtensions [clientExtLine]).any (fun e => extName e == pmd) = true ∧
    (parseExtensions []).any (fun e => extName e == pmd) = false ∧
    eqFoldC (ascii "websocket") (ascii "websocket") = true ∧
    eqFoldC (ascii "Upgrade") (ascii "upgrade") = true ∧
    (parseExtensions [serverExtLine]).find? (fun e => extName e == pmd) = some [([], pmd), (snct, []), (cnct, [])] ∧
    (parseExtensions []).find? (fun e => extName e == pmd) = none ∧
    extHas [([], pmd), (snct, []), (cnct, [])] snct = true ∧ extHas [([], pmd), (snct, []), (cnct, [])] cnct = true := by
  decide +kernel

/-- **The library's client and the library's server agree.** Whatever the two configurations, the challenge key and
the caller's extra request headers (none of them one of the five names the handshake itself uses), the server accepts
the client's request, the client accepts the server's response, and both ends hold the same compression setting —
on exactly when both enabled it — and the same subprotocol. -/
theorem handshake_agree (ak : Bytes → Bytes) (d : Dialer) (u : Upgrader) (key : Bytes) (reqHdr : Header)
    (hkey : key ≠ []) (horigin : u.originOk = true)
    (huser : ∀ p ∈ reqHdr, canon p.1 ∉ requestNames ∧ (d.subprotocols.isEmpty = false → canon p.1 ≠ ascii "Sec-Websocket-Protocol")) :
    ∃ lines sub,
      handshake ak d u key reqHdr =
        some (.accept lines (d.enableCompression && u.enableCompression) sub,
              some (.accept (d.enableCompression && u.enableCompression) sub)) := by
  have hres : reqHdr.any (fun p => (reservedRequestNames d).contains p.1) = false := by
    rw [List.any_eq_false]
    intro p hp hc
    rcases reserved_canon d p.1 hc with h | ⟨h1, h2⟩
    · exact (huser p hp).1 h
    · exact (huser p hp).2 h1 h2
  have hu : ∀ p ∈ reqHdr.filter (fun p => p.1 != ascii "Host"), canon p.1 ∉ requestNames :=
    fun p hp => (huser p (List.mem_filter.mp hp).1).1
  obtain ⟨g1, g2, g3, g4, g5⟩ := request_get d key _ hu
  obtain ⟨k1, k2, k3, k4, k5, k6, k7, k8, k9, k10, k11⟩ := const_facts
  have hke : key.isEmpty = false := by cases key with | nil => exact absurd rfl hkey | cons _ _ => rfl
  have hm : (ascii "GET" != ascii "GET") = false := by decide
  simp only [handshake, clientRequest, hres, Bool.false_eq_true, ↓reduceIte, upgrade, hfirst, g1, g2, g3, g4, g5,
    k1, k2, k3, horigin, List.head?_cons, Option.getD_some, hke, hm, Option.getD_none, List.any_nil, Bool.not_true]
  generalize selectSubprotocol u _ none = sub
  have hc : (u.enableCompression && (parseExtensions (if d.enableCompression = true then [clientExtLine] else [])).any
      (fun e => extName e == pmd)) = (d.enableCompression && u.enableCompression) := by
    cases d.enableCompression <;> cases u.enableCompression <;> simp [k4, k5]
  rw [hc]
  simp only [List.filter_nil, List.map_nil, List.append_nil]
  obtain ⟨f1, f2, f3, f4, f5⟩ := fixed_get (ak key) sub (d.enableCompression && u.enableCompression)
  have hcl : clientCheck ak key 101 (transport (fixedLines (ak key) sub (d.enableCompression && u.enableCompression)))
      = .accept (d.enableCompression && u.enableCompression) sub := by
    simp only [clientCheck, f1, f2, f3, f4, f5, k6, k7, bne_self_eq_false, Bool.not_true, Bool.or_false, Bool.false_eq_true, ↓reduceIte]
    cases (d.enableCompression && u.enableCompression)
    · simp [k9]
    · simp [k8, k10, k11]
  rw [hcl]
  exact ⟨_, sub, rfl⟩


/-! ## the extension parser never runs out of fuel -/

theorem quotedEsc_len (acc : Bytes) (esc : Bool) (s : Bytes) : (quotedEsc acc esc s).2.length ≤ s.length := by
  induction s generalizing acc esc with
  | nil => simp [quotedEsc]
  | cons b t ih =>
    unfold quotedEsc
    split
    · exact Nat.le_succ_of_le (ih _ _)
    · split
      · exact Nat.le_succ_of_le (ih _ _)
      · split
        · simp
        · exact Nat.le_succ_of_le (ih _ _)

theorem quotedPlain_len (acc : Bytes) (s : Bytes) : (quotedPlain acc s).2.length ≤ s.length := by
  induction s generalizing acc with
  | nil => simp [quotedPlain]
  | cons b t ih =>
    unfold quotedPlain
    split
    · simp
    · split
      · exact Nat.le_succ_of_le (quotedEsc_len _ _ _)
      · exact Nat.le_succ_of_le (ih _)

theorem nextToken_rest_le (s : Bytes) : (nextToken s).2.length ≤ s.length := by
  have := nextToken_length s; omega

theorem nextTokenOrQuoted_len (s : Bytes) : (nextTokenOrQuoted s).2.length ≤ s.length := by
  unfold nextTokenOrQuoted
  split
  · exact Nat.le_succ_of_le (quotedPlain_len _ _)
  · exact nextToken_rest_le s

/-- A result of the parameter loop that is not "out of fuel" and returns no more than it was given. -/
def PRes.good (n : Nat) : PRes → Prop
  | .fuel => False
  | .bad => True
  | .ok _ rest => rest.length ≤ n

theorem PRes.good_mono {n m : Nat} (h : n ≤ m) : ∀ r : PRes, r.good n → r.good m
  | .fuel, hr => hr
  | .bad, _ => trivial
  | .ok _ _, hr => Nat.le_trans hr h

theorem optValue_len (s : Bytes) : (optValue s).2.length ≤ s.length := by
  unfold optValue
  split
  · rename_i s2
    have h1 := skipSpace_length_le s2
    have h2 := nextTokenOrQuoted_len (skipSpace s2)
    have h3 := skipSpace_length_le (nextTokenOrQuoted (skipSpace s2)).2
    simp only [List.length_cons]; omega
  · exact Nat.le_refl _

/-- The parameter loop neither runs out of fuel nor returns more than it was given. -/
theorem parseParamsF_good (fuel : Nat) (s : Bytes) (ext : Ext) (h : s.length < fuel) :
    (parseParamsF fuel s ext).good s.length := by
  induction fuel generalizing s ext with
  | zero => omega
  | succ n ih =>
    unfold parseParamsF
    have h0 := skipSpace_length_le s
    split
    · rename_i s1 heq
      have hs1 : s1.length + 1 = (skipSpace s).length := by rw [heq]; simp
      have h1 := skipSpace_length_le s1
      have h2 := nextToken_rest_le (skipSpace s1)
      have h3 := skipSpace_length_le (nextToken (skipSpace s1)).2
      have h4 := optValue_len (skipSpace (nextToken (skipSpace s1)).2)
      simp only
      split
      · trivial
      · split
        · trivial
        · exact PRes.good_mono (by omega) _ (ih _ _ (by omega))
    · exact h0

/-- One header value is parsed without running out of fuel. -/
theorem parseExtValueF_some (fuel : Nat) (s : Bytes) (acc : List Ext) (h : s.length < fuel) :
    (parseExtValueF fuel s acc).isSome = true := by
  induction fuel generalizing s acc with
  | zero => omega
  | succ n ih =>
    unfold parseExtValueF
    have h0 := skipSpace_length_le s
    have h1 := nextToken_length (skipSpace s)
    generalize nextToken (skipSpace s) = tk at h1
    obtain ⟨t, s1⟩ := tk
    simp only at h1 ⊢
    split
    · rfl
    · rename_i hne
      have htl : 0 < t.length := by
        cases t with
        | nil => simp at hne
        | cons _ _ => simp
      have hg := parseParamsF_good (s1.length + 2) s1 [([], t)] (by omega)
      generalize parseParamsF (s1.length + 2) s1 [([], t)] = pr at hg
      cases pr with
      | fuel => exact hg.elim
      | bad => rfl
      | ok e rest =>
        simp only [PRes.good] at hg
        simp only
        split
        · rfl
        · rename_i c r2 
          split
          · rfl
          · apply ih
            simp only [List.length_cons] at hg
            omega

theorem parseExt_fuel (s : Bytes) (acc : List Ext) : (parseExtValueF (s.length + 1) s acc).isSome = true :=
  parseExtValueF_some _ _ _ (Nat.lt_succ_self _)


/-! ## parseExtensions reads back the extension lists the grammar writes -/

/-- A parameter as the library itself writes it: `; key` or `; key=value` (key and value tokens; an empty value = no `=`). -/
def renderParam (p : Bytes × Bytes) : Bytes := [59, 32] ++ p.1 ++ (if p.2.isEmpty then [] else 61 :: p.2)

/-- An extension: its name followed by its parameters. -/
def renderExt (e : Bytes × List (Bytes × Bytes)) : Bytes := e.1 ++ e.2.flatMap renderParam

/-- An extension list: the extensions separated by `, `. -/
def renderExts : List (Bytes × List (Bytes × Bytes)) → Bytes
  | [] => []
  | [e] => renderExt e
  | e :: e' :: es => renderExt e ++ [44, 32] ++ renderExts (e' :: es)

def isTok (t : Bytes) : Prop := t ≠ [] ∧ t.all isTokenOctet = true

/-- what the parser makes of one extension: `""` ↦ name, then the parameters in order (`setKV`: a repeated key keeps its place, last value) -/
def extOf (e : Bytes × List (Bytes × Bytes)) : Ext := e.2.foldl (fun acc p => setKV acc p.1 p.2) [([], e.1)]

theorem nextToken_tok (t rest : Bytes) (ht : t.all isTokenOctet = true) (hr : rest = [] ∨ ∃ c r, rest = c :: r ∧ isTokenOctet c = false) :
    nextToken (t ++ rest) = (t, rest) := by
  unfold nextToken
  rw [takeWhile_all_append _ _ _ ht, dropWhile_all_append _ _ _ ht]
  rcases hr with rfl | ⟨c, r, rfl, hc⟩
  · simp
  · simp [hc]


/-- what may follow a parameter or an extension name: nothing, a comma, a semicolon -/
def TailOK (t : Bytes) : Prop := t = [] ∨ ∃ r, t = 44 :: r ∨ t = 59 :: r

theorem TailOK.head_not_token {t : Bytes} (h : TailOK t) : t = [] ∨ ∃ c r, t = c :: r ∧ isTokenOctet c = false := by
  rcases h with rfl | ⟨r, rfl | rfl⟩
  · exact Or.inl rfl
  · exact Or.inr ⟨44, r, rfl, by decide⟩
  · exact Or.inr ⟨59, r, rfl, by decide⟩

theorem TailOK.skipSpace {t : Bytes} (h : TailOK t) : skipSpace t = t := by
  rcases h with rfl | ⟨r, rfl | rfl⟩
  · rfl
  · exact dropWhile_head_false _ _ _ (by decide)
  · exact dropWhile_head_false _ _ _ (by decide)

theorem TailOK.badStart {t : Bytes} (h : TailOK t) : badStart t = false := by
  rcases h with rfl | ⟨r, rfl | rfl⟩ <;> rfl

theorem TailOK.optValue {t : Bytes} (h : TailOK t) : optValue t = ([], t) := by
  rcases h with rfl | ⟨r, rfl | rfl⟩ <;> rfl

theorem tok_skipSpace (t rest : Bytes) (ht : isTok t) : skipSpace (t ++ rest) = t ++ rest :=
  skipSpace_token t rest ht.1 ht.2

theorem tok_head (t : Bytes) (ht : isTok t) : ∃ c r, t = c :: r ∧ isTokenOctet c = true := by
  obtain ⟨hne, hall⟩ := ht
  cases t with
  | nil => exact absurd rfl hne
  | cons c r =>
    simp only [List.all_cons, Bool.and_eq_true] at hall
    exact ⟨c, r, rfl, hall.1⟩

theorem nextTokenOrQuoted_tok (v rest : Bytes) (hv : isTok v) (hr : TailOK rest) :
    nextTokenOrQuoted (v ++ rest) = (v, rest) := by
  obtain ⟨c, r, rfl, hc⟩ := tok_head v hv
  have h34 : c ≠ 34 := by
    intro h; subst h; revert hc; decide
  have : nextTokenOrQuoted (c :: r ++ rest) = nextToken (c :: r ++ rest) := by
    unfold nextTokenOrQuoted
    split
    · rename_i t heq
      simp only [List.cons_append, List.cons.injEq] at heq
      exact absurd heq.1 h34
    · rfl
  rw [this]
  exact nextToken_tok _ _ hv.2 hr.head_not_token

def ParamOK (p : Bytes × Bytes) : Prop := isTok p.1 ∧ (p.2 = [] ∨ isTok p.2)

theorem params_tailOK (ps : List (Bytes × Bytes)) (rest : Bytes) (hr : TailOK rest) :
    TailOK (ps.flatMap renderParam ++ rest) := by
  cases ps with
  | nil => simpa using hr
  | cons p ps' => exact Or.inr ⟨32 :: (p.1 ++ ((if p.2.isEmpty then [] else 61 :: p.2) ++ (ps'.flatMap renderParam ++ rest))), Or.inr (by simp [renderParam, List.append_assoc])⟩

/-- The parameter loop on parameters as the library writes them. -/
theorem parseParams_rendered (ps : List (Bytes × Bytes)) (hps : ∀ p ∈ ps, ParamOK p) (rest : Bytes) (hr : rest = [] ∨ ∃ r, rest = 44 :: r) :
    ∀ (ext : Ext) (fuel : Nat), (ps.flatMap renderParam ++ rest).length < fuel →
      parseParamsF fuel (ps.flatMap renderParam ++ rest) ext = .ok (ps.foldl (fun acc p => setKV acc p.1 p.2) ext) rest := by
  have hrT : TailOK rest := by
    rcases hr with rfl | ⟨r, rfl⟩
    · exact Or.inl rfl
    · exact Or.inr ⟨r, Or.inl rfl⟩
  induction ps with
  | nil =>
    intro ext fuel hf
    cases fuel with
    | zero => omega
    | succ n =>
      simp only [List.flatMap_nil, List.nil_append, List.foldl_nil]
      unfold parseParamsF
      rw [hrT.skipSpace]
      rcases hr with rfl | ⟨r, rfl⟩ <;> rfl
  | cons p ps' ih =>
    intro ext fuel hf
    cases fuel with
    | zero => omega
    | succ n =>
      obtain ⟨hk, hv⟩ := hps p (by simp)
      have ih' := ih (fun q hq => hps q (by simp [hq]))
      have htail := params_tailOK ps' rest hrT
      -- the text of this parameter
      obtain ⟨k, v⟩ := p
      simp only at hk hv
      have hshape : ((k, v) :: ps').flatMap renderParam ++ rest =
          59 :: 32 :: (k ++ ((if v.isEmpty then [] else 61 :: v) ++ (ps'.flatMap renderParam ++ rest))) := by
        simp [renderParam, List.append_assoc]
      rw [hshape] at hf ⊢
      unfold parseParamsF
      have h1 : skipSpace (59 :: 32 :: (k ++ ((if v.isEmpty then [] else 61 :: v) ++ (ps'.flatMap renderParam ++ rest))))
          = 59 :: 32 :: (k ++ ((if v.isEmpty then [] else 61 :: v) ++ (ps'.flatMap renderParam ++ rest))) :=
        dropWhile_head_false _ _ _ (by decide)
      rw [h1]
      simp only
      have h2 : skipSpace (32 :: (k ++ ((if v.isEmpty then [] else 61 :: v) ++ (ps'.flatMap renderParam ++ rest))))
          = k ++ ((if v.isEmpty then [] else 61 :: v) ++ (ps'.flatMap renderParam ++ rest)) := by
        have := skipSpace_ows [32] (k ++ ((if v.isEmpty then [] else 61 :: v) ++ (ps'.flatMap renderParam ++ rest))) (by decide)
        rw [tok_skipSpace _ _ hk] at this
        exact this
      rw [h2]
      have hne : k.isEmpty = false := by
        obtain ⟨c, r, rfl, _⟩ := tok_head k hk; rfl
      rcases hv with rfl | hv
      · -- no value
        have h3 : nextToken (k ++ (ps'.flatMap renderParam ++ rest)) = (k, ps'.flatMap renderParam ++ rest) :=
          nextToken_tok _ _ hk.2 htail.head_not_token
        simp only [List.isEmpty_nil, ↓reduceIte, List.nil_append, h3, hne, Bool.false_eq_true, htail.skipSpace, htail.optValue, htail.badStart, List.foldl_cons]
        exact ih' _ n (by simp only [List.isEmpty_nil, ↓reduceIte, List.nil_append, List.length_cons, List.length_append] at hf ⊢; omega)
      · -- `=value`
        have hvne : v.isEmpty = false := by
          obtain ⟨c, r, rfl, _⟩ := tok_head v hv; rfl
        have h3 : nextToken (k ++ (61 :: v ++ (ps'.flatMap renderParam ++ rest))) = (k, 61 :: v ++ (ps'.flatMap renderParam ++ rest)) :=
          nextToken_tok _ _ hk.2 (Or.inr ⟨61, _, rfl, by decide⟩)
        have h4 : skipSpace (61 :: v ++ (ps'.flatMap renderParam ++ rest)) = 61 :: v ++ (ps'.flatMap renderParam ++ rest) :=
          dropWhile_head_false _ _ _ (by decide)
        have h5 : optValue (61 :: v ++ (ps'.flatMap renderParam ++ rest)) = (v, ps'.flatMap renderParam ++ rest) := by
          show optValue (61 :: (v ++ (ps'.flatMap renderParam ++ rest))) = _
          unfold optValue
          simp only [tok_skipSpace _ _ hv, nextTokenOrQuoted_tok _ _ hv htail, htail.skipSpace]
        simp only [hvne, Bool.false_eq_true, ↓reduceIte, h3, hne, h4, h5, htail.badStart, List.foldl_cons]
        exact ih' _ n (by simp only [hvne, Bool.false_eq_true, ↓reduceIte, List.length_cons, List.length_append] at hf ⊢; omega)


def ExtOK (e : Bytes × List (Bytes × Bytes)) : Prop := isTok e.1 ∧ ∀ p ∈ e.2, ParamOK p

theorem parseExtValueF_rendered (es : List (Bytes × List (Bytes × Bytes))) (hne : es ≠ []) (hok : ∀ e ∈ es, ExtOK e) :
    ∀ (lead : Bytes) (acc : List Ext) (fuel : Nat), lead.all isSpaceOctet = true → (lead ++ renderExts es).length < fuel →
      parseExtValueF fuel (lead ++ renderExts es) acc = some (acc ++ es.map extOf) := by
  induction es with
  | nil => exact absurd rfl hne
  | cons e es' ih =>
    intro lead acc fuel hlead hf
    cases fuel with
    | zero => omega
    | succ n =>
      obtain ⟨hname, hparams⟩ := hok e (by simp)
      cases es' with
      | nil =>
        have hshape : renderExts [e] = e.1 ++ (e.2.flatMap renderParam ++ []) := by simp [renderExts, renderExt]
        rw [hshape] at hf ⊢
        unfold parseExtValueF
        have hT := params_tailOK e.2 [] (Or.inl rfl)
        rw [skipSpace_ows _ _ hlead, tok_skipSpace _ _ hname, nextToken_tok _ _ hname.2 hT.head_not_token]
        have hnn : e.1.isEmpty = false := by
          obtain ⟨c, r, h, _⟩ := tok_head e.1 hname; rw [h]; rfl
        simp only [hnn, Bool.false_eq_true, ↓reduceIte]
        rw [parseParams_rendered e.2 hparams [] (Or.inl rfl) _ _ (by omega)]
        simp [extOf]
      | cons e' es'' =>
        have hshape : renderExts (e :: e' :: es'') = e.1 ++ (e.2.flatMap renderParam ++ (44 :: ([32] ++ renderExts (e' :: es'')))) := by
          simp [renderExts, renderExt, List.append_assoc]
        rw [hshape] at hf ⊢
        unfold parseExtValueF
        have hT := params_tailOK e.2 (44 :: ([32] ++ renderExts (e' :: es''))) (Or.inr ⟨_, Or.inl rfl⟩)
        rw [skipSpace_ows _ _ hlead, tok_skipSpace _ _ hname, nextToken_tok _ _ hname.2 hT.head_not_token]
        have hnn : e.1.isEmpty = false := by
          obtain ⟨c, r, h, _⟩ := tok_head e.1 hname; rw [h]; rfl
        simp only [hnn, Bool.false_eq_true, ↓reduceIte]
        rw [parseParams_rendered e.2 hparams _ (Or.inr ⟨_, rfl⟩) _ _ (by omega)]
        simp only [bne_self_eq_false, Bool.false_eq_true, ↓reduceIte]
        have := ih (by simp) (fun x hx => hok x (by simp [hx])) [32] (acc ++ [extOf e]) n (by decide)
          (by simp only [List.length_append, List.length_cons] at hf ⊢; omega)
        have hx : extOf e = List.foldl (fun acc p => setKV acc p.fst p.snd) [([], e.fst)] e.snd := rfl
        rw [← hx, this]
        simp

/-- **parseExtensions reads back what the grammar of RFC 6455 section 9.1 writes**: a list of extensions — names
and parameter names tokens, parameter values tokens or absent — written as `name; key=value; key, name…` (the
spelling the library itself uses on both sides) parses to exactly those extensions, names first, parameters as a
map (a repeated key keeps its last value). -/
theorem parseExtensions_rendered (es : List (Bytes × List (Bytes × Bytes))) (hne : es ≠ []) (hok : ∀ e ∈ es, ExtOK e) :
    parseExtensions [renderExts es] = es.map extOf := by
  unfold parseExtensions parseExtValue
  simp only [List.foldl_cons, List.foldl_nil]
  have := parseExtValueF_rendered es hne hok [] [] ((renderExts es).length + 1) rfl (by simp)
  simp only [List.nil_append] at this
  rw [this]; rfl


/-! ## ws URIs -/

theorem cutAt_none (c : UInt8) (a : Bytes) (h : a.contains c = false) : cutAt c a = none := by
  induction a with
  | nil => rfl
  | cons x xs ih =>
    simp only [List.contains_cons, Bool.or_eq_false_iff] at h
    have hx : (x == c) = false := by
      have := h.1; rw [beq_eq_false_iff_ne] at this ⊢; exact fun e => this e.symm
    simp [cutAt, hx, ih h.2]

theorem cutAt_append (c : UInt8) (a b : Bytes) (h : a.contains c = false) : cutAt c (a ++ c :: b) = some (a, b) := by
  induction a with
  | nil => simp [cutAt]
  | cons x xs ih =>
    simp only [List.contains_cons, Bool.or_eq_false_iff] at h
    have hx : (x == c) = false := by
      have := h.1; rw [beq_eq_false_iff_ne] at this ⊢; exact fun e => this e.symm
    simp [cutAt, hx, ih h.2]

/-- a ws-URI as RFC 6455 section 3 writes it: `ws:` or `wss:`, `//`, host[:port], a path (empty or starting with `/`),
optionally `?` and a query -/
def renderURI (secure : Bool) (host path query : Bytes) (hasQuery : Bool) : Bytes :=
  (if secure then ascii "wss://" else ascii "ws://") ++ (host ++ path ++ (if hasQuery then 63 :: query else []))

theorem parseAfterScheme_wf (scheme host path query : Bytes) (hasQuery : Bool)
    (hh : host.contains 47 = false ∧ host.contains 63 = false ∧ host.contains 64 = false)
    (hp : path = [] ∨ ∃ t, path = 47 :: t) (hpq : path.contains 63 = false) (hq : hasQuery = false → query = []) :
    parseAfterScheme scheme (host ++ path ++ (if hasQuery then 63 :: query else [])) =
      some { scheme := scheme, host := host, path := if path.isEmpty then [47] else path, rawQuery := query } := by
  have hhp : (host ++ path).contains 63 = false := by simp_all
  have hcutq : cutAt 63 (host ++ path ++ (if hasQuery then 63 :: query else [])) =
      (if hasQuery then some (host ++ path, query) else none) := by
    cases hasQuery with
    | true => exact cutAt_append 63 (host ++ path) query hhp
    | false => simpa using cutAt_none 63 (host ++ path) hhp
  have hcutp : cutAt 47 (host ++ path) = (if path.isEmpty then none else some (host, path.tail)) := by
    rcases hp with rfl | ⟨t, rfl⟩
    · simpa using cutAt_none 47 host hh.1
    · simpa using cutAt_append 47 host t hh.1
  have h64 : ¬ (64 : UInt8) ∈ host := by simpa using hh.2.2
  unfold parseAfterScheme
  rw [hcutq]
  cases hasQuery with
  | true =>
    simp only [↓reduceIte, hcutp]
    rcases hp with rfl | ⟨t, rfl⟩ <;> simp [h64]
  | false =>
    simp only [Bool.false_eq_true, ↓reduceIte, List.append_nil, hcutp, hq rfl]
    rcases hp with rfl | ⟨t, rfl⟩ <;> simp [h64]

/-- **parseURL on every well-formed ws-URI** gives back its parts (the path defaults to `/`). -/
theorem parseURL_renderURI (secure : Bool) (host path query : Bytes) (hasQuery : Bool)
    (hh : host.contains 47 = false ∧ host.contains 63 = false ∧ host.contains 64 = false)
    (hp : path = [] ∨ ∃ t, path = 47 :: t) (hpq : path.contains 63 = false) (hq : hasQuery = false → query = []) :
    parseURL (renderURI secure host path query hasQuery) =
      some { scheme := if secure then ascii "wss" else ascii "ws", host := host,
             path := if path.isEmpty then [47] else path, rawQuery := query } := by
  have s1 : ∀ r : Bytes, stripPrefix (ascii "ws://") (ascii "ws://" ++ r) = some r := fun r => rfl
  have s2 : ∀ r : Bytes, stripPrefix (ascii "ws://") (ascii "wss://" ++ r) = none := fun r => rfl
  have s3 : ∀ r : Bytes, stripPrefix (ascii "wss://") (ascii "wss://" ++ r) = some r := fun r => rfl
  unfold parseURL renderURI
  cases secure
  · simp only [Bool.false_eq_true, ↓reduceIte, s1]
    exact parseAfterScheme_wf _ host path query hasQuery hh hp hpq hq
  · simp only [↓reduceIte, s2, s3]
    exact parseAfterScheme_wf _ host path query hasQuery hh hp hpq hq

/-- the address `Dial` connects to: the URI's port, 80 for `ws` and 443 for `wss` when it has none -/
theorem hostPort_default (u : WsURL) (h : lastIndex 58 u.host ≤ lastIndex 93 u.host) :
    (hostPortNoPort u).1 = u.host ++ (if u.scheme == ascii "wss" || u.scheme == ascii "https" then ascii ":443" else ascii ":80")
    ∧ (hostPortNoPort u).2 = u.host := by
  unfold hostPortNoPort
  have : ¬ (lastIndex 58 u.host > lastIndex 93 u.host) := by omega
  simp [this]

theorem hostPort_explicit (u : WsURL) (h : lastIndex 58 u.host > lastIndex 93 u.host) :
    (hostPortNoPort u).1 = u.host := by
  unfold hostPortNoPort
  simp [h]


end Oryx.Model.WsHs
