/-
  Helper lemmas for C20 (kxps rate meters). Property statements live in Oryx/Props/C20.lean.
-/
import Oryx.Model.Kxps
namespace Oryx.Kxps
open Oryx Oryx.Res

/-! ### the counter difference -/

/-- Inside the stated domain (both counts below 2^63) Go's `int64(a - b)` is the integer difference. -/
theorem diff64_of_lt {a b : Nat} (ha : a < two63) (hb : b < two63) : diff64 a b = (a : Int) - (b : Int) := by
  unfold diff64 two64 two63 at *
  simp only
  split <;> omega

/-- A non-decreasing 64-bit counter that wrapped past 2^64 still reads as its true increase,
as long as the increase is below 2^63. -/
theorem diff64_wrap {prev inc : Nat} (hp : prev < two64) (hi : inc < two63) :
    diff64 ((prev + inc) % two64) prev = (inc : Int) := by
  unfold diff64 two64 two63 at *
  simp only
  split <;> omega

/-- An increase of 2^63 or more reads as non-positive (the other side of the same boundary). -/
theorem diff64_big_increase {prev inc : Nat} (hp : prev < two64) (hi : two63 ≤ inc) (hi' : inc < two64) :
    diff64 ((prev + inc) % two64) prev ≤ 0 := by
  unfold diff64 two64 two63 at *
  simp only
  split <;> omega

theorem diff64_bounds (a b : Nat) : -(two63 : Int) ≤ diff64 a b ∧ diff64 a b < (two63 : Int) := by
  unfold diff64 two64 two63
  simp only
  split <;> omega

/-! ### one window -/

/-- The rate a window holds is a non-negative rational with a positive denominator. -/
def Rate.Good (r : Rate) : Prop := 0 ≤ r.num ∧ 0 < r.den

theorem Rate.zero_good : Rate.zero.Good := by simp [Rate.Good, Rate.zero]

theorem Rate.kbps_good {r : Rate} (h : r.Good) : r.kbps.Good := by
  obtain ⟨h1, h2⟩ := h
  have e1 : ((Gen.Kxps.kbpsMul : Nat) : Int) = 8 := by decide
  have e2 : ((Gen.Kxps.kbpsDiv : Nat) : Int) = 1000 := by decide
  simp only [Rate.Good, Rate.kbps, e1, e2]
  omega

/-- Whether a window whose previous sample was at `last` fires at `now`. -/
def fires (intervalNs : Nat) (last now : Int) : Bool := decide (last + (intervalNs : Int) ≤ now)

/-- The rate a firing window computes: `max 0 diff · 1000 / windowMs`. -/
def firedRate (intervalNs : Nat) (count prev : Nat) : Rate :=
  if diff64 count prev ≤ 0 then ⟨0, 1⟩ else ⟨diff64 count prev * (Gen.Kxps.rateScale : Int), windowMs intervalNs⟩

theorem sample_spec (iv : Nat) (s : Sample) (now : Int) (n : Nat) :
    Sample.sample iv s now n =
      if fires iv s.last now then
        ({ s with count := n, last := now, rate := firedRate iv n s.count }, true)
      else (s, false) := by
  unfold Sample.sample fires firedRate
  by_cases h : s.last + (iv : Int) > now
  · have : ¬ (s.last + (iv : Int) ≤ now) := by omega
    simp [h, this]
  · have : s.last + (iv : Int) ≤ now := by omega
    simp only [h, if_false, this, decide_true, if_true]
    split <;> rfl

theorem firedRate_good (iv : Nat) (hiv : 0 < windowMs iv) (n p : Nat) : (firedRate iv n p).Good := by
  unfold firedRate
  have e : ((Gen.Kxps.rateScale : Nat) : Int) = 1000 := by decide
  split
  · simp [Rate.Good]
  · rename_i h
    simp only [Rate.Good, e]
    exact ⟨by omega, hiv⟩

theorem windowMs_r10s : windowMs Gen.Kxps.interval_r10s = 10000 := by decide
theorem windowMs_r30s : windowMs Gen.Kxps.interval_r30s = 30000 := by decide
theorem windowMs_r300s : windowMs Gen.Kxps.interval_r300s = 300000 := by decide

end Oryx.Kxps

namespace Oryx.Kxps
open Oryx Oryx.Res

/-- Window lengths (ns), from the generated constants. -/
local notation "I10" => Gen.Kxps.interval_r10s
local notation "I30" => Gen.Kxps.interval_r30s
local notation "I300" => Gen.Kxps.interval_r300s

/-! ### the cascade, declaratively -/

/-- One window's update, given whether the cascade consults it (`gate`). -/
def winStep (iv : Nat) (gate : Bool) (s : Sample) (now : Int) (c : Nat) : Sample :=
  if gate && fires iv s.last now then { s with count := c, last := now, rate := firedRate iv c s.count } else s

/-- The 10 s window fires at this step. -/
def fired10 (m : Meter) (now : Int) : Bool := fires I10 m.r10s.last now
/-- The 30 s window fires at this step (it is consulted only if the 10 s window fired). -/
def fired30 (m : Meter) (now : Int) : Bool := fired10 m now && fires I30 m.r30s.last now
/-- The 300 s window fires at this step (consulted only if the 30 s window fired). -/
def fired300 (m : Meter) (now : Int) : Bool := fired30 m now && fires I300 m.r300s.last now

theorem doSample_spec (m : Meter) (now : Int) (c : Nat) (hc : c ≠ 0) (hi : m.r10s.count ≠ 0) :
    m.doSample now c =
      { m with r10s := winStep I10 true m.r10s now c,
               r30s := winStep I30 (fired10 m now) m.r30s now c,
               r300s := winStep I300 (fired30 m now) m.r300s now c } := by
  unfold Meter.doSample
  simp only [hc, hi, if_false, sample_spec, winStep, fired10, fired30]
  by_cases h1 : fires I10 m.r10s.last now = true <;>
  by_cases h2 : fires I30 m.r30s.last now = true <;>
  by_cases h3 : fires I300 m.r300s.last now = true <;> simp [h1, h2, h3]

theorem doSample_zero (m : Meter) (now : Int) : m.doSample now 0 = m := by simp [Meter.doSample]

theorem doSample_init (m : Meter) (now : Int) (c : Nat) (hc : c ≠ 0) (hi : m.r10s.count = 0) :
    m.doSample now c =
      { m with r10s := m.r10s.initialize now c, r30s := m.r30s.initialize now c, r300s := m.r300s.initialize now c } := by
  simp [Meter.doSample, hc, hi]

/-! ### the property's per-window formula over a whole history (reference tracker) -/

/-- Reference state: per window the previous sample `(count, last)` and the reported `rate`. -/
structure Ref where
  init : Bool := false
  w10 : Sample := {}
  w30 : Sample := {}
  w300 : Sample := {}

/-- One observation, per window and without early returns: a window samples when it is consulted
(10 s: always; 30 s: iff the 10 s window sampled now; 300 s: iff the 30 s window sampled now) and a
full window length has elapsed since *its own* previous sample; then it reports
`max 0 (count − prevCount) · 1000 / windowMs` and remembers `(count, now)`; otherwise nothing changes. -/
def Ref.step (r : Ref) (now : Int) (c : Nat) : Ref :=
  if c = 0 then r
  else if !r.init then
    { init := true, w10 := r.w10.initialize now c, w30 := r.w30.initialize now c, w300 := r.w300.initialize now c }
  else
    let f10 := fires I10 r.w10.last now
    let f30 := f10 && fires I30 r.w30.last now
    { r with w10 := winStep I10 true r.w10 now c,
             w30 := winStep I30 f10 r.w30 now c,
             w300 := winStep I300 f30 r.w300 now c }

def Ref.run (r : Ref) : List Op → Ref
  | [] => r
  | .sample now c :: os => (r.step now c).run os
  | _ :: os => r.run os

/-- The model's three windows agree with the reference. -/
def Agrees (m : Meter) (r : Ref) : Prop :=
  m.r10s = r.w10 ∧ m.r30s = r.w30 ∧ m.r300s = r.w300 ∧ (r.init = true ↔ m.r10s.count ≠ 0)

theorem agrees_new : Agrees Meter.new {} := by
  simp [Agrees, Meter.new]

theorem agrees_step {m : Meter} {r : Ref} (h : Agrees m r) (now : Int) (c : Nat) :
    Agrees (m.doSample now c) (r.step now c) := by
  obtain ⟨h1, h2, h3, h4⟩ := h
  by_cases hc : c = 0
  · subst hc; simp [doSample_zero, Ref.step, Agrees, h1, h2, h3, h4]
  · by_cases hi : m.r10s.count = 0
    · have hr : r.init = false := by
        cases hri : r.init
        · rfl
        · exact absurd hi (h4.mp hri)
      rw [doSample_init m now c hc hi]
      simp [Ref.step, hc, hr, Agrees, h1, h2, h3, Sample.initialize]
    · have hr : r.init = true := h4.mpr hi
      rw [doSample_spec m now c hc hi]
      simp only [Ref.step, hc, hr, if_false, Bool.not_true, Agrees, fired10, fired30, h1, h2, h3]
      refine ⟨rfl, rfl, rfl, ?_⟩
      have key : (winStep I10 true r.w10 now c).count ≠ 0 := by
        rw [← h1]; unfold winStep; split <;> simp [hc, hi]
      simp [key]

/-- `sampleAverage` only ever plants the base of the average; it never touches the windows. -/
theorem sampleAverage_fst (m : Meter) (now : Int) (c : Nat) :
    (m.sampleAverage now c).1 =
      if c ≠ 0 ∧ m.average = 0 then { m with average := c, create := now } else m := by
  unfold Meter.sampleAverage
  by_cases hc : c = 0
  · simp [hc]
  · by_cases ha : m.average = 0
    · simp [hc, ha]
    · simp only [hc, ha, if_false, ne_eq, not_false_eq_true, and_false]
      split
      · rfl
      · split <;> rfl

theorem agrees_exec1 {m : Meter} {r : Ref} (h : Agrees m r) (o : Op) :
    Agrees (m.exec1 o) (r.run [o]) := by
  cases o with
  | start => simpa [Meter.exec1, Meter.start, Ref.run, Agrees] using h
  | close => simpa [Meter.exec1, Meter.close, Ref.run, Agrees] using h
  | sample now c => simpa [Meter.exec1, Ref.run] using agrees_step h now c
  | avg now c =>
    have : (m.sampleAverage now c).1.r10s = m.r10s ∧ (m.sampleAverage now c).1.r30s = m.r30s ∧
        (m.sampleAverage now c).1.r300s = m.r300s := by
      rw [sampleAverage_fst]; split <;> simp
    obtain ⟨e1, e2, e3⟩ := this
    simpa [Meter.exec1, Ref.run, Agrees, e1, e2, e3] using h

theorem ref_run_cons (r : Ref) (o : Op) (os : List Op) : r.run (o :: os) = (r.run [o]).run os := by
  cases o <;> simp [Ref.run]

theorem agrees_exec {m : Meter} {r : Ref} (h : Agrees m r) (os : List Op) :
    Agrees (m.exec os) (r.run os) := by
  induction os generalizing m r with
  | nil => simpa [Meter.exec, Ref.run] using h
  | cons o os ih =>
    rw [ref_run_cons]
    exact ih (agrees_exec1 h o)


/-! ### every reported value is a non-negative rational with a positive denominator -/

def Meter.Good (m : Meter) : Prop := m.r10s.rate.Good ∧ m.r30s.rate.Good ∧ m.r300s.rate.Good

theorem winStep_good {iv : Nat} (hiv : 0 < windowMs iv) {s : Sample} (h : s.rate.Good) (g : Bool) (now : Int) (c : Nat) :
    (winStep iv g s now c).rate.Good := by
  unfold winStep
  split
  · exact firedRate_good iv hiv c s.count
  · exact h

theorem doSample_good {m : Meter} (h : m.Good) (now : Int) (c : Nat) : (m.doSample now c).Good := by
  obtain ⟨h1, h2, h3⟩ := h
  by_cases hc : c = 0
  · subst hc; rw [doSample_zero]; exact ⟨h1, h2, h3⟩
  · by_cases hi : m.r10s.count = 0
    · rw [doSample_init m now c hc hi]; exact ⟨h1, h2, h3⟩
    · rw [doSample_spec m now c hc hi]
      exact ⟨winStep_good (by rw [windowMs_r10s]; decide) h1 _ _ _,
             winStep_good (by rw [windowMs_r30s]; decide) h2 _ _ _,
             winStep_good (by rw [windowMs_r300s]; decide) h3 _ _ _⟩

theorem exec1_good {m : Meter} (h : m.Good) (o : Op) : (m.exec1 o).Good := by
  cases o with
  | start => exact h
  | close => exact h
  | sample now c => exact doSample_good h now c
  | avg now c =>
    simp only [Meter.exec1, sampleAverage_fst]
    split <;> exact h

theorem exec_good {m : Meter} (h : m.Good) (os : List Op) : (m.exec os).Good := by
  induction os generalizing m with
  | nil => exact h
  | cons o os ih => exact ih (exec1_good h o)

theorem new_good : Meter.new.Good := ⟨Rate.zero_good, Rate.zero_good, Rate.zero_good⟩

theorem sampleAverage_good (m : Meter) (now : Int) (c : Nat) : (m.sampleAverage now c).2.Good := by
  have e : ((Gen.Kxps.rateScale : Nat) : Int) = 1000 := by decide
  unfold Meter.sampleAverage
  dsimp only
  split
  · exact Rate.zero_good
  · split
    · exact Rate.zero_good
    · split
      · exact Rate.zero_good
      · split
        · exact Rate.zero_good
        · simp only [Rate.Good, e]; omega

/-! ### the average -/

/-- What `sampleAverage` reports at `(now, c)` against the planted base `(t0, c0)`:
`max 0 (c − c0) · 1000 / ⌊(now − t0) / 1 ms⌋`, and 0 while no whole millisecond has elapsed. -/
def avgRate (t0 : Int) (c0 : Nat) (now : Int) (c : Nat) : Rate :=
  let diff := diff64 c c0
  let ms := Int.tdiv (clamp64 (now - t0)) (Gen.Kxps.msDivisor : Int)
  if c = 0 ∨ diff ≤ 0 ∨ ms ≤ 0 then Rate.zero else ⟨diff * (Gen.Kxps.rateScale : Int), ms⟩

/-- The first non-zero observation made by the average (`none` while there is none). -/
def avgBase : List Op → Option (Int × Nat)
  | [] => none
  | .avg now c :: os => if c ≠ 0 then some (now, c) else avgBase os
  | _ :: os => avgBase os

def AvgInv (m : Meter) : Option (Int × Nat) → Prop
  | none => m.average = 0
  | some (t0, c0) => m.average = c0 ∧ c0 ≠ 0 ∧ m.create = t0

theorem doSample_avg (m : Meter) (now : Int) (c : Nat) :
    (m.doSample now c).average = m.average ∧ (m.doSample now c).create = m.create := by
  by_cases hc : c = 0
  · subst hc; rw [doSample_zero]; exact ⟨rfl, rfl⟩
  · by_cases hi : m.r10s.count = 0
    · rw [doSample_init m now c hc hi]; exact ⟨rfl, rfl⟩
    · rw [doSample_spec m now c hc hi]; exact ⟨rfl, rfl⟩

theorem avgInv_exec1 {m : Meter} {b : Option (Int × Nat)} (h : AvgInv m b) (o : Op) :
    AvgInv (m.exec1 o) (b.orElse fun _ => avgBase [o]) := by
  cases o with
  | start => cases b <;> simpa [Meter.exec1, Meter.start, AvgInv, avgBase] using h
  | close => cases b <;> simpa [Meter.exec1, Meter.close, AvgInv, avgBase] using h
  | sample now c =>
    obtain ⟨e1, e2⟩ := doSample_avg m now c
    cases b with
    | none => simpa [Meter.exec1, AvgInv, avgBase, e1] using h
    | some p => obtain ⟨t0, c0⟩ := p; simpa [Meter.exec1, AvgInv, e1, e2] using h
  | avg now c =>
    simp only [Meter.exec1, sampleAverage_fst]
    cases b with
    | none =>
      simp only [AvgInv] at h
      by_cases hc : c = 0
      · simp [hc, AvgInv, avgBase, h]
      · simp [hc, AvgInv, avgBase, h]
    | some p =>
      obtain ⟨t0, c0⟩ := p
      obtain ⟨h1, h2, h3⟩ := h
      simp [AvgInv, h1, h2, h3]

theorem avgBase_cons (o : Op) (os : List Op) :
    avgBase (o :: os) = (avgBase [o]).orElse fun _ => avgBase os := by
  cases o with
  | avg now c => by_cases hc : c = 0 <;> simp [avgBase, hc]
  | _ => simp [avgBase]

theorem avgInv_exec {m : Meter} {b : Option (Int × Nat)} (h : AvgInv m b) (os : List Op) :
    AvgInv (m.exec os) (b.orElse fun _ => avgBase os) := by
  induction os generalizing m b with
  | nil => cases b <;> simpa [Meter.exec, avgBase] using h
  | cons o os ih =>
    have := ih (avgInv_exec1 h o)
    rw [avgBase_cons]
    cases b with
    | none => simpa [Meter.exec] using this
    | some p => simpa [Meter.exec] using this

theorem sampleAverage_none {m : Meter} (h : AvgInv m none) (now : Int) (c : Nat) :
    (m.sampleAverage now c).2 = Rate.zero := by
  simp only [AvgInv] at h
  unfold Meter.sampleAverage
  by_cases hc : c = 0 <;> simp [hc, h]

theorem sampleAverage_some {m : Meter} {t0 : Int} {c0 : Nat} (h : AvgInv m (some (t0, c0))) (now : Int) (c : Nat) :
    (m.sampleAverage now c).2 = avgRate t0 c0 now c := by
  obtain ⟨h1, h2, h3⟩ := h
  unfold Meter.sampleAverage avgRate
  by_cases hc : c = 0
  · simp [hc]
  · simp only [hc, if_false, h1, h3, false_or]
    by_cases hd : diff64 c c0 ≤ 0
    · simp [hd, h2]
    · by_cases hm : Int.tdiv (clamp64 (now - t0)) (Gen.Kxps.msDivisor : Int) ≤ 0
      · simp [hd, hm, h2]
      · simp [hd, hm, h2]

end Oryx.Kxps
