/-
  C05 helper: the round trip `decodeVal fuel (encode v ++ rest) = ok (v, rest)` for every well-formed
  value, by mutual structural induction over `Val` / `Props` (object-like loop and counted loop).
-/
import Oryx.Proofs.Amf0
namespace Oryx.Amf0
open Oryx Oryx.Res

theorem sliceFrom_append {α} (a b : List α) {n : Nat} (h : a.length = n) : sliceFrom (a ++ b) n = ok b := by
  subst h; simp [sliceFrom]

/-- The encoding of a well-formed value starts with a marker `Discovery` accepts and that is not object-end. -/
theorem encode_head (v : Val) (h : wf v = true) :
    ∃ m tl, encode v = m :: tl ∧ Gen.Amf0.discovery m.toNat ≠ .objectEOF := by
  cases v <;> simp [wf] at h <;> simp [encode] <;> decide


theorem disc0 : Gen.Amf0.discovery 0 = .NewNumber := by decide
theorem disc1 : Gen.Amf0.discovery 1 = .NewBoolean := by decide
theorem disc2 : Gen.Amf0.discovery 2 = .NewString := by decide
theorem disc3 : Gen.Amf0.discovery 3 = .NewObject := by decide
theorem disc5 : Gen.Amf0.discovery 5 = .NewNull := by decide
theorem disc6 : Gen.Amf0.discovery 6 = .NewUndefined := by decide
theorem disc8 : Gen.Amf0.discovery 8 = .NewEcmaArray := by decide
theorem disc9 : Gen.Amf0.discovery 9 = .objectEOF := by decide
theorem disc10 : Gen.Amf0.discovery 10 = .NewStrictArray := by decide

theorem u64_rt (b : UInt64) : UInt64.ofNat (ofBE (be 8 b.toNat)) = b := by
  rw [ofBE_be_of_lt (by have := UInt64.toNat_lt b; omega)]
  exact UInt64.ofNat_toNat

theorem num_rt (b : UInt64) (rest : Bytes) (fuel : Nat) :
    decodeVal (fuel+1) (encode (.num b) ++ rest) = ok (.num b, rest) := by
  have h8 : (be 8 b.toNat).length = 8 := be_length 8 _
  simp only [encode, mNumber_eq, List.cons_append, decodeVal]
  simp only [UInt8.reduceToNat, disc0]
  simp only [numberDec, List.length_cons, List.length_append, h8]
  rw [take_append_len _ _ h8, drop_append_len _ _ h8, u64_rt]
  have e : ¬ (8 + rest.length + 1 < 9) := by omega
  simp [e]


theorem wfP_cons {k v tl} (h : wfP (.cons k v tl) = true) : k.length ≤ 65535 ∧ wf v = true ∧ wfP tl = true := by
  simpa [wfP, and_assoc] using h

/-- One property (key, value) at the head of a property stream, for both container loops. -/
theorem prop_head (k : Bytes) (v : Val) (X : Bytes) (fuel : Nat)
    (hk : k.length ≤ 65535) (hv : wf v = true)
    (_ihv : decodeVal fuel (encode v ++ X) = ok (v, X)) :
    utf8Dec (utf8Enc k ++ (encode v ++ X)) = ok (k, encode v ++ X) ∧
    (∃ m t, encode v ++ X = m :: t ∧ Gen.Amf0.discovery m.toNat ≠ .objectEOF) ∧
    sliceFrom (encode v ++ X) (size v) = ok X :=
  ⟨utf8Dec_enc hk _,
   by obtain ⟨m, t, he, hm⟩ := encode_head v hv; exact ⟨m, t ++ X, by rw [he]; rfl, hm⟩,
   sliceFrom_append _ _ (encode_length v)⟩

mutual
theorem rtVal : ∀ (v : Val) (rest : Bytes) (fuel : Nat), wf v = true →
    (encode v ++ rest).length < fuel → decodeVal fuel (encode v ++ rest) = ok (v, rest)
  | .num b, rest, fuel, _, hf => by
    cases fuel with
    | zero => exact absurd hf (Nat.not_lt_zero _)
    | succ f => exact num_rt b rest f
  | .bool b, rest, fuel, _, hf => by
    cases fuel with
    | zero => exact absurd hf (Nat.not_lt_zero _)
    | succ f =>
      have := disc1
      cases b <;> simp [encode, decodeVal, this, booleanDec]
  | .str s, rest, fuel, h, hf => by
    cases fuel with
    | zero => exact absurd hf (Nat.not_lt_zero _)
    | succ f =>
      have hs : s.length ≤ 65535 := by simpa [wf] using h
      have := disc2
      simp [encode, decodeVal, this, stringDec, utf8Dec_enc hs]
  | .null, rest, fuel, _, hf => by
    cases fuel with
    | zero => exact absurd hf (Nat.not_lt_zero _)
    | succ f =>
      have := disc5
      simp [encode, decodeVal, this, singleDec]
  | .undef, rest, fuel, _, hf => by
    cases fuel with
    | zero => exact absurd hf (Nat.not_lt_zero _)
    | succ f =>
      have := disc6
      simp [encode, decodeVal, this, singleDec]
  | .eof, _, _, h, _ => by simp [wf] at h
  | .obj ps, rest, fuel, h, hf => by
    cases fuel with
    | zero => exact absurd hf (Nat.not_lt_zero _)
    | succ f =>
      have hps : wfP ps = true := by simpa [wf] using h
      have := disc3
      have hf' : (encodeP ps ++ (0 :: 0 :: 9 :: rest)).length < f := by
        simp [encode, eofBytes] at hf ⊢; omega
      have ih := rtProps ps rest f hps hf'
      simp [encode, eofBytes, decodeVal, this, ih]
  | .ecma c ps, rest, fuel, h, hf => by
    cases fuel with
    | zero => exact absurd hf (Nat.not_lt_zero _)
    | succ f =>
      have ⟨hc, hps⟩ : c < 4294967296 ∧ wfP ps = true := by simpa [wf] using h
      have := disc8
      have h4 : (be 4 c).length = 4 := be_length 4 _
      have hf' : (encodeP ps ++ (0 :: 0 :: 9 :: rest)).length < f := by
        simp [encode, eofBytes] at hf ⊢; omega
      have ih := rtProps ps rest f hps hf'
      simp only [encode, eofBytes, mEcmaArray_eq, List.cons_append, List.append_assoc, List.nil_append, decodeVal, UInt8.reduceToNat, this]
      rw [take_append_len _ _ h4, drop_append_len _ _ h4, ofBE_be_of_lt (by omega), ih]
      simp [h4]
  | .strict ps, rest, fuel, h, hf => by
    cases fuel with
    | zero => exact absurd hf (Nat.not_lt_zero _)
    | succ f =>
      have ⟨hc, hps⟩ : ps.length < 4294967296 ∧ wfP ps = true := by simpa [wf] using h
      have := disc10
      have h4 : (be 4 ps.length).length = 4 := be_length 4 _
      have hf' : (encodeP ps ++ rest).length < f := by
        simp [encode] at hf ⊢; omega
      have ih := rtElems ps rest f hps hf'
      simp only [encode, mStrictArray_eq, List.cons_append, List.append_assoc, decodeVal, UInt8.reduceToNat, this]
      rw [take_append_len _ _ h4, drop_append_len _ _ h4, ofBE_be_of_lt (by omega)]
      cases ps with
      | nil => simp [Props.length, encodeP]
      | cons k v tl =>
        rw [ih]
        simp [Props.length]
theorem rtProps : ∀ (ps : Props) (rest : Bytes) (fuel : Nat), wfP ps = true →
    (encodeP ps ++ (0 :: 0 :: 9 :: rest)).length < fuel →
    decodeProps fuel (encodeP ps ++ (0 :: 0 :: 9 :: rest)) = ok (ps, rest)
  | .nil, rest, fuel, _, hf => by
    cases fuel with
    | zero => exact absurd hf (Nat.not_lt_zero _)
    | succ f =>
      have hu : utf8Dec (0 :: 0 :: 9 :: rest) = ok ([], 9 :: rest) := utf8Dec_enc (s := []) (by simp) (9 :: rest)
      have := disc9
      simp [encodeP, decodeProps, hu, this]
  | .cons k v tl, rest, fuel, h, hf => by
    cases fuel with
    | zero => exact absurd hf (Nat.not_lt_zero _)
    | succ f =>
      obtain ⟨hk, hv, htl⟩ := wfP_cons h
      have hlen : (encodeP (.cons k v tl) ++ (0 :: 0 :: 9 :: rest)).length =
          utf8Size k + (size v + (encodeP tl ++ (0 :: 0 :: 9 :: rest)).length) := by
        simp only [encodeP, List.length_append, utf8Enc_length, encode_length]; omega
      rw [hlen] at hf
      have hsz := size_pos v
      have hk2 : 2 ≤ utf8Size k := by simp [utf8Size]
      have e1 : (encode v ++ (encodeP tl ++ (0 :: 0 :: 9 :: rest))).length =
          size v + (encodeP tl ++ (0 :: 0 :: 9 :: rest)).length := by rw [List.length_append, encode_length]
      have ihv := rtVal v (encodeP tl ++ (0 :: 0 :: 9 :: rest)) f hv (by rw [e1]; omega)
      have iht := rtProps tl rest f htl (by omega)
      obtain ⟨h1, ⟨m, t, he, hm⟩, h3⟩ := prop_head k v _ f hk hv ihv
      simp only [encodeP, List.append_assoc, decodeProps, h1, Res.bind_ok]
      rw [he]
      simp only [hm, and_false, if_false]
      rw [← he, ihv]
      simp only [Res.bind_ok, h3, iht, Res.pure_eq]
theorem rtElems : ∀ (ps : Props) (rest : Bytes) (fuel : Nat), wfP ps = true →
    (encodeP ps ++ rest).length < fuel →
    decodeElems fuel ps.length (encodeP ps ++ rest) = ok (ps, rest)
  | .nil, rest, fuel, _, _ => by
    cases fuel <;> simp [encodeP, Props.length, decodeElems]
  | .cons k v tl, rest, fuel, h, hf => by
    cases fuel with
    | zero => exact absurd hf (Nat.not_lt_zero _)
    | succ f =>
      obtain ⟨hk, hv, htl⟩ := wfP_cons h
      have hlen : (encodeP (.cons k v tl) ++ rest).length =
          utf8Size k + (size v + (encodeP tl ++ rest).length) := by
        simp only [encodeP, List.length_append, utf8Enc_length, encode_length]; omega
      rw [hlen] at hf
      have hsz := size_pos v
      have hk2 : 2 ≤ utf8Size k := by simp [utf8Size]
      have e1 : (encode v ++ (encodeP tl ++ rest)).length = size v + (encodeP tl ++ rest).length := by
        rw [List.length_append, encode_length]
      have ihv := rtVal v (encodeP tl ++ rest) f hv (by rw [e1]; omega)
      have iht := rtElems tl rest f htl (by omega)
      obtain ⟨h1, _, h3⟩ := prop_head k v _ f hk hv ihv
      simp only [encodeP, List.append_assoc, Props.length, decodeElems, h1, Res.bind_ok, ihv, h3, iht, Res.pure_eq]
end

end Oryx.Amf0
