/-
  C04: invariant of the request/response matching system for the `registerThenWrite` order.
-/
import Oryx.Model.RtmpTxn
namespace Oryx.RtmpTxn
open Oryx Gen.Rtmp

abbrev P := progOf TxnOrder.registerThenWrite

/-- Invariant of every reachable state (for distinct request ids). -/
structure Good (s : St) : Prop where
  table_nodup : s.table.Nodup
  table_unanswered : ∀ t ∈ s.table, t ∉ s.responded
  wire_ok : ∀ t ∈ s.wire, t ∈ s.table ∨ t ∈ s.responded
  responded_on_wire : ∀ t ∈ s.responded, t ∈ s.wire
  failed_nil : s.failed = []
  matched_eq : s.matched = s.responded
  responded_nodup : s.responded.Nodup
  prog_shape : ∃ rest : List Nat, rest.Nodup ∧ (∀ t ∈ rest, t ∉ s.table ∧ t ∉ s.wire) ∧
    (s.prog = P rest ∨ ∃ t, s.prog = .write t :: P rest ∧ t ∈ s.table ∧ t ∉ s.wire ∧ t ∉ rest)

theorem good_init (reqs : List Nat) (h : reqs.Nodup) : Good (init .registerThenWrite reqs) := by
  refine ⟨by simp [init], by simp [init], by simp [init], by simp [init], rfl, rfl, by simp [init], ?_⟩
  exact ⟨reqs, h, by simp [init], Or.inl rfl⟩

theorem good_step {s s' : St} {a : Act} (hg : Good s) (hs : step s a = some s') : Good s' := by
  obtain ⟨h1, h2, h3, h4, h5, h6, h7, rest, hnd, hfresh, hprog⟩ := hg
  cases a with
  | w =>
    rcases hprog with hp | ⟨t, hp, htab, hnw, hnr⟩
    · -- next request: register it
      cases rest with
      | nil => simp [step, hp, P, progOf] at hs
      | cons t rest' =>
        simp only [step, hp, P, progOf, Option.some.injEq] at hs
        subst hs
        have hft := hfresh t (by simp)
        have hnd' := List.nodup_cons.mp hnd
        refine ⟨List.nodup_cons.mpr ⟨hft.1, h1⟩, ?_, ?_, h4, h5, h6, h7, ?_⟩
        · intro x hx
          rcases List.mem_cons.mp hx with rfl | hx
          · exact fun hr => hft.2 (h4 _ hr)
          · exact h2 x hx
        · intro x hx
          rcases h3 x hx with h | h
          · exact Or.inl (List.mem_cons_of_mem _ h)
          · exact Or.inr h
        · refine ⟨rest', hnd'.2, ?_, Or.inr ⟨t, rfl, by simp, hft.2, hnd'.1⟩⟩
          intro x hx
          have := hfresh x (List.mem_cons_of_mem _ hx)
          refine ⟨?_, this.2⟩
          intro hm
          rcases List.mem_cons.mp hm with rfl | hm
          · exact hnd'.1 hx
          · exact this.1 hm
    · -- the registered request reaches the transport
      simp only [step, hp, Option.some.injEq] at hs
      subst hs
      refine ⟨h1, h2, ?_, ?_, h5, h6, h7, ?_⟩
      · intro x hx
        rcases List.mem_append.mp hx with hx | hx
        · exact h3 x hx
        · simp at hx; subst hx; exact Or.inl htab
      · intro x hx; exact List.mem_append_left _ (h4 x hx)
      · refine ⟨rest, hnd, ?_, Or.inl rfl⟩
        intro x hx
        have := hfresh x hx
        refine ⟨this.1, ?_⟩
        intro hm
        rcases List.mem_append.mp hm with hm | hm
        · exact this.2 hm
        · simp at hm; subst hm; exact hnr hx
  | r t =>
    simp only [step] at hs
    split at hs
    · rename_i hen
      obtain ⟨htw, htr⟩ := hen
      have htab : t ∈ s.table := by
        rcases h3 t htw with h | h
        · exact h
        · exact absurd h htr
      simp only [htab, if_true, Option.some.injEq] at hs
      subst hs
      have hne : ∀ x ∈ s.table.erase t, x ≠ t := by
        intro x hx heq
        subst heq
        exact (List.Nodup.mem_erase_iff h1).mp hx |>.1 rfl
      refine ⟨h1.erase t, ?_, ?_, ?_, h5, by simp [h6], List.nodup_cons.mpr ⟨htr, h7⟩, ?_⟩
      · intro x hx hr
        rcases List.mem_cons.mp hr with rfl | hr
        · exact hne _ hx rfl
        · exact h2 x (List.mem_of_mem_erase hx) hr
      · intro x hx
        by_cases hxt : x = t
        · subst hxt; exact Or.inr (by simp)
        · rcases h3 x hx with h | h
          · exact Or.inl ((List.mem_erase_of_ne hxt).mpr h)
          · exact Or.inr (List.mem_cons_of_mem _ h)
      · intro x hx
        rcases List.mem_cons.mp hx with rfl | hx
        · exact htw
        · exact h4 x hx
      · refine ⟨rest, hnd, ?_, ?_⟩
        · intro x hx
          have := hfresh x hx
          exact ⟨fun hm => this.1 (List.mem_of_mem_erase hm), this.2⟩
        · rcases hprog with hp | ⟨tp, hp, htp, htpw, htpr⟩
          · exact Or.inl hp
          · refine Or.inr ⟨tp, hp, ?_, htpw, htpr⟩
            have : tp ≠ t := fun h => htpw (h ▸ htw)
            exact (List.mem_erase_of_ne this).mpr htp
    · simp at hs
  | stray t =>
    simp only [step] at hs
    split at hs
    · simp at hs
    · simp only [Option.some.injEq] at hs
      subst hs
      exact ⟨h1, h2, h3, h4, h5, h6, h7, rest, hnd, hfresh, hprog⟩

theorem good_run {s s' : St} (acts : List Act) (hg : Good s) (hr : run s acts = some s') : Good s' := by
  induction acts generalizing s with
  | nil => simp [run] at hr; subst hr; exact hg
  | cons a as ih =>
    simp only [run] at hr
    cases hst : step s a with
    | none => simp [hst] at hr
    | some s1 =>
      simp only [hst] at hr
      exact ih (good_step hg hst) hr

end Oryx.RtmpTxn
