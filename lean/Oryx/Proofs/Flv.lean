/-
  Helper lemmas for C09 (FLV mux/demux + layout). Property statements live in Oryx/Props/C09.lean.
  The stream-reader lemmas at the top (`copyN_*`, frame/cut) are the reusable part for C08.
-/
import Oryx.Model.Flv
import Oryx.Spec.Flv
namespace Oryx.Flv
open Oryx Oryx.Res

/-! ### bytes -/

theorem u8_ofNat_mod (x : Nat) : UInt8.ofNat (x % 256) = UInt8.ofNat x := by
  apply UInt8.toNat_inj.mp
  simp [UInt8.toNat_ofNat']

theorem u8_ofNat_congr {x y : Nat} (h : x % 256 = y % 256) : UInt8.ofNat x = UInt8.ofNat y := by
  rw [← u8_ofNat_mod x, ← u8_ofNat_mod y, h]

theorem be2_eq (v : Nat) : be 2 v = [UInt8.ofNat (v / 256), UInt8.ofNat v] := by
  simp [be, le, u8_ofNat_mod]

theorem be3_eq (v : Nat) :
    be 3 v = [UInt8.ofNat (v / 65536), UInt8.ofNat (v / 256), UInt8.ofNat v] := by
  simp [be, le, u8_ofNat_mod, Nat.div_div_eq_div_mul]

theorem be4_eq (v : Nat) :
    be 4 v = [UInt8.ofNat (v / 16777216), UInt8.ofNat (v / 65536), UInt8.ofNat (v / 256), UInt8.ofNat v] := by
  simp [be, le, u8_ofNat_mod, Nat.div_div_eq_div_mul]

/-! ### the stream reader `copyN` (= `io.CopyN` into a fresh buffer) -/

theorem copyN_ne_panic (n : Nat) (s : Bytes) : copyN n s ≠ .panic := by
  unfold copyN; split <;> simp

/-- Success: exactly `n` bytes were taken from the front. -/
theorem copyN_ok {n : Nat} {s p r : Bytes} (h : copyN n s = ok (p, r)) : p.length = n ∧ s = p ++ r := by
  unfold copyN at h
  split at h
  · simp only [ok.injEq, Prod.mk.injEq] at h
    obtain ⟨rfl, rfl⟩ := h
    exact ⟨by simp; omega, (List.take_append_drop n s).symm⟩
  · simp at h

/-- The only failure is `io.EOF`, exactly when fewer than `n` bytes remain. -/
theorem copyN_short {n : Nat} {s : Bytes} (h : s.length < n) : copyN n s = err .eof := by
  unfold copyN; rw [if_neg (by omega)]

theorem copyN_err {n : Nat} {s : Bytes} {k : EK} (h : copyN n s = err k) : k = .eof ∧ s.length < n := by
  unfold copyN at h
  split at h
  · simp at h
  · simp only [err.injEq] at h; exact ⟨h.symm, by omega⟩

/-- Frame: reading `n` bytes from `a ++ b` with `|a| = n` returns `a` and leaves `b`. -/
theorem copyN_append {n : Nat} (a b : Bytes) (h : a.length = n) : copyN n (a ++ b) = ok (a, b) := by
  unfold copyN
  rw [if_pos (by simp; omega), take_append_len a b h, drop_append_len a b h]

/-- Frame, general form: a successful read is unaffected by more bytes behind it. -/
theorem copyN_frame {n : Nat} {s p r : Bytes} (t : Bytes) (h : copyN n s = ok (p, r)) :
    copyN n (s ++ t) = ok (p, r ++ t) := by
  obtain ⟨hl, rfl⟩ := copyN_ok h
  rw [List.append_assoc]; exact copyN_append p (r ++ t) hl

/-- Cut: on the first `k` bytes of a stream the read succeeds with the same value iff `n ≤ k`
(and `n` bytes exist at all), else it is `io.EOF`. -/
theorem copyN_take (n k : Nat) (s : Bytes) :
    copyN n (s.take k) =
      if n ≤ k ∧ n ≤ s.length then ok (s.take n, (s.drop n).take (k - n)) else err .eof := by
  unfold copyN
  by_cases h : n ≤ k ∧ n ≤ s.length
  · rw [if_pos h, if_pos (by simp; omega)]
    simp only [List.take_take, List.drop_take, Nat.min_eq_left h.1]
  · rw [if_neg h, if_neg (by simp; omega)]

/-! ### muxer output shapes -/

@[simp] theorem tagHeader_length (ty : UInt8) (ts size : Nat) : (tagHeader ty ts size).length = 11 := by
  simp [tagHeader]

@[simp] theorem prevTagSize_length (size : Nat) : (prevTagSize size).length = 4 := by
  simp [prevTagSize]

@[simp] theorem writeTag_length (t : Tag) : (writeTag t).length = 15 + t.body.length := by
  simp [writeTag]; omega

@[simp] theorem writeHeader_length (hv ha : Bool) : (writeHeader hv ha).length = 13 := by
  simp [writeHeader]

/-- Domain of the property for one tag: body below 2^24 bytes, timestamp a `uint32`. -/
def Tag.WF (t : Tag) : Prop := t.body.length < 16777216 ∧ t.ts < 4294967296

instance (t : Tag) : Decidable t.WF := by unfold Tag.WF; exact inferInstance

/-! ### demuxer on the muxer's output -/

theorem flags_decode (hv ha : Bool) :
    ((flagsByte hv ha &&& 0x01) == 0x01) = hv ∧ (((flagsByte hv ha >>> 2) &&& 0x01) == 0x01) = ha := by
  cases hv <;> cases ha <;> decide

theorem readHeader_writeHeader (hv ha : Bool) (rest : Bytes) :
    readHeader (writeHeader hv ha ++ rest) = ok ({ version := 1, hasVideo := hv, hasAudio := ha }, rest) := by
  obtain ⟨h1, h2⟩ := flags_decode hv ha
  unfold readHeader
  rw [copyN_append _ _ (writeHeader_length hv ha)]
  simp [writeHeader, sliceTo, idx, h1, h2]

theorem readTagHeader_tagHeader (ty : UInt8) (ts size : Nat) (rest : Bytes)
    (hs : size < 16777216) (ht : ts < 4294967296) :
    readTagHeader (tagHeader ty ts size ++ rest) = ok ({ ty := ty, size := size, ts := ts }, rest) := by
  unfold readTagHeader
  rw [copyN_append _ _ (tagHeader_length ty ts size)]
  have e1 : ofBE (be 3 size) = size := ofBE_be_of_lt (by simpa using hs)
  have e2 : ofBE (be 3 ts) = ts % 16777216 := by rw [ofBE_be]
  have e3 : (UInt8.ofNat (ts / 16777216)).toNat = ts / 16777216 := by
    rw [UInt8.toNat_ofNat']; omega
  rw [be3_eq] at e1 e2
  simp only [tagHeader, be3_eq, List.cons_append, List.nil_append, bind_ok, pure_eq, e1, e2, e3]
  congr 3
  omega

theorem readTag_body (body : Bytes) (rest : Bytes) :
    readTag body.length (body ++ prevTagSize body.length ++ rest) = ok (body, rest) := by
  unfold readTag
  rw [copyN_append (body ++ prevTagSize body.length) rest (by simp)]
  simp

theorem readTagFull_writeTag (t : Tag) (rest : Bytes) (h : t.WF) :
    readTagFull (writeTag t ++ rest) = ok (t, rest) := by
  unfold readTagFull writeTag
  rw [List.append_assoc, List.append_assoc, readTagHeader_tagHeader _ _ _ _ h.1 h.2]
  simp only [bind_ok]
  rw [← List.append_assoc, readTag_body]
  rfl

theorem readTagFull_nil : readTagFull [] = err .eof := by
  simp [readTagFull, readTagHeader, copyN]

/-- The demux loop returns exactly the written tags and then stops with `io.EOF`; any fuel above the
input length suffices. -/
theorem readTags_writeTags (tags : List Tag) (hwf : ∀ t ∈ tags, t.WF) :
    ∀ fuel, (writeTags tags).length < fuel → readTags fuel (writeTags tags) = (tags, .err .eof) := by
  induction tags with
  | nil =>
    intro fuel hf
    cases fuel with
    | zero => simp at hf
    | succ f => simp [writeTags, readTags, readTagFull_nil]
  | cons t ts ih =>
    intro fuel hf
    cases fuel with
    | zero => simp at hf
    | succ f =>
      have ht := hwf t (by simp)
      have hts : ∀ x ∈ ts, x.WF := fun x hx => hwf x (by simp [hx])
      simp only [writeTags, List.length_append, writeTag_length] at hf
      simp only [writeTags, readTags, readTagFull_writeTag t _ ht]
      rw [ih hts f (by omega)]

/-! ### no panic, fuel never exhausted -/

theorem readHeader_ne_panic (s : Bytes) : readHeader s ≠ .panic := by
  unfold readHeader
  apply bind_ne_panic (copyN_ne_panic 13 s)
  rintro ⟨p, rest⟩ h
  have hl := (copyN_ok h).1
  have h3 : sliceTo p 3 = ok (p.take 3) := by simp [sliceTo, hl]
  have i3 : ∃ v, idx p 3 = ok v := by
    refine ⟨p[3]'(by omega), ?_⟩; simp [idx, List.getElem?_eq_getElem (show 3 < p.length by omega)]
  have i4 : ∃ v, idx p 4 = ok v := by
    refine ⟨p[4]'(by omega), ?_⟩; simp [idx, List.getElem?_eq_getElem (show 4 < p.length by omega)]
  obtain ⟨v, hv⟩ := i3
  obtain ⟨f, hf⟩ := i4
  simp only [h3, hv, hf, bind_ok]
  split <;> simp

theorem list_len11 {l : Bytes} (h : l.length = 11) :
    ∃ b0 b1 b2 b3 b4 b5 b6 b7 b8 b9 b10, l = [b0, b1, b2, b3, b4, b5, b6, b7, b8, b9, b10] := by
  match l, h with
  | [b0, b1, b2, b3, b4, b5, b6, b7, b8, b9, b10], _ => exact ⟨_, _, _, _, _, _, _, _, _, _, _, rfl⟩

theorem readTagHeader_ne_panic (s : Bytes) : readTagHeader s ≠ .panic := by
  unfold readTagHeader
  apply bind_ne_panic (copyN_ne_panic 11 s)
  rintro ⟨p, rest⟩ h
  obtain ⟨b0, b1, b2, b3, b4, b5, b6, b7, b8, b9, b10, rfl⟩ := list_len11 (copyN_ok h).1
  simp

/-- After fix F20 `ReadTag` cannot panic for ANY `uint32` size (indeed any size). -/
theorem readTag_ne_panic (size : Nat) (s : Bytes) : readTag size s ≠ .panic := by
  unfold readTag
  apply bind_ne_panic (copyN_ne_panic _ s)
  rintro ⟨p, rest⟩ h
  have hl := (copyN_ok h).1
  simp only []
  rw [if_neg (by omega)]
  simp

theorem readTagFull_ne_panic (s : Bytes) : readTagFull s ≠ .panic := by
  unfold readTagFull
  apply bind_ne_panic (readTagHeader_ne_panic s)
  rintro ⟨h, s'⟩ _
  apply bind_ne_panic (readTag_ne_panic _ _)
  rintro ⟨b, s''⟩ _
  simp

/-- Inversion: a successful `ReadTagHeader` consumed exactly 11 bytes. -/
theorem readTagHeader_ok {s r : Bytes} {h : TagHeader} (e : readTagHeader s = ok (h, r)) :
    ∃ p, p.length = 11 ∧ s = p ++ r := by
  unfold readTagHeader at e
  obtain ⟨⟨p, r1⟩, c1, e2⟩ := bind_eq_ok.mp e
  clear e
  obtain ⟨hp, rfl⟩ := copyN_ok c1
  obtain ⟨b0, b1, b2, b3, b4, b5, b6, b7, b8, b9, b10, rfl⟩ := list_len11 hp
  simp only [pure_eq, ok.injEq, Prod.mk.injEq] at e2
  obtain ⟨_, rfl⟩ := e2
  exact ⟨_, hp, rfl⟩

/-- Inversion: a successful `ReadTag(n)` consumed the `n`-byte body and 4 more bytes. -/
theorem readTag_ok {n : Nat} {s b r : Bytes} (e : readTag n s = ok (b, r)) :
    ∃ q, q.length = 4 ∧ b.length = n ∧ s = b ++ q ++ r := by
  unfold readTag at e
  obtain ⟨⟨p, r1⟩, c1, e2⟩ := bind_eq_ok.mp e
  clear e
  obtain ⟨hp, rfl⟩ := copyN_ok c1
  simp only [] at e2
  rw [if_neg (by omega)] at e2
  simp only [pure_eq, ok.injEq, Prod.mk.injEq] at e2
  obtain ⟨rfl, rfl⟩ := e2
  refine ⟨p.drop (p.length - 4), by simp; omega, by simp; omega, ?_⟩
  rw [List.take_append_drop]

/-- A successful step consumes at least 15 bytes. -/
theorem readTagFull_consumes {s rest : Bytes} {t : Tag} (h : readTagFull s = ok (t, rest)) :
    rest.length + 15 ≤ s.length := by
  unfold readTagFull at h
  obtain ⟨⟨hd, s1⟩, h1, h⟩ := bind_eq_ok.mp h
  obtain ⟨⟨b, s2⟩, h2, h⟩ := bind_eq_ok.mp h
  simp only [pure_eq, ok.injEq, Prod.mk.injEq] at h
  obtain ⟨_, rfl⟩ := h
  obtain ⟨p, hp, rfl⟩ := readTagHeader_ok h1
  obtain ⟨q, hq, _, rfl⟩ := readTag_ok h2
  simp; omega

/-- Fuel `> |s|` is never exhausted and no step panics: the loop always stops with an error class. -/
theorem readTags_stop_ne_panic : ∀ fuel (s : Bytes), s.length < fuel → (readTags fuel s).2 ≠ .panic := by
  intro fuel
  induction fuel with
  | zero => intro s h; simp at h
  | succ f ih =>
    intro s hs
    unfold readTags
    split
    · rename_i t rest heq
      have := readTagFull_consumes heq
      exact ih rest (by omega)
    · simp
    · rename_i heq; exact absurd heq (readTagFull_ne_panic s)

/-! ### the muxer's bytes are the independent Annex E writer's bytes -/

/-- A model tag seen as a tag of the standard. -/
def Tag.toSpec (t : Tag) : Spec.Flv.Tag := { tagType := t.ty.toNat, timestamp := t.ts, data := t.body }

/-- A tag of the standard as the library's API takes it. -/
def Tag.ofSpec (t : Spec.Flv.Tag) : Tag := { ty := UInt8.ofNat t.tagType, ts := t.timestamp, body := t.data }

theorem Tag.toSpec_wf {t : Tag} (h : t.WF) : t.toSpec.WF :=
  ⟨UInt8.toNat_lt t.ty, h.2, h.1⟩

theorem Tag.ofSpec_wf {t : Spec.Flv.Tag} (h : t.WF) : (Tag.ofSpec t).WF := ⟨h.2.2, h.2.1⟩

theorem Tag.toSpec_ofSpec {t : Spec.Flv.Tag} (h : t.WF) : (Tag.ofSpec t).toSpec = t := by
  cases t with
  | mk ty ts d =>
    have : ty < 256 := h.1
    simp [Tag.ofSpec, Tag.toSpec, UInt8.toNat_ofNat', Nat.mod_eq_of_lt this]

theorem ui24_eq_be (v : Nat) : Spec.Flv.ui24 v = be 3 v := by
  rw [be3_eq]; simp only [Spec.Flv.ui24, u8_ofNat_mod]

theorem ui24_mod_eq_be (v : Nat) : Spec.Flv.ui24 (v % 16777216) = be 3 v := by
  rw [be3_eq]; simp only [Spec.Flv.ui24, u8_ofNat_mod]
  congr 1
  · exact u8_ofNat_congr (by omega)
  · congr 1
    · exact u8_ofNat_congr (by omega)
    · congr 1; exact u8_ofNat_congr (by omega)

theorem ui32_eq_be (v : Nat) : Spec.Flv.ui32 v = be 4 v := by
  rw [be4_eq]; simp only [Spec.Flv.ui32, u8_ofNat_mod]

theorem writeHeader_is_spec (hv ha : Bool) :
    writeHeader hv ha = Spec.Flv.header ha hv ++ Spec.Flv.ui32 0 := by
  cases hv <;> cases ha <;> decide

theorem writeTag_is_spec (t : Tag) :
    writeTag t = Spec.Flv.tag t.toSpec ++ Spec.Flv.ui32 (11 + t.body.length) := by
  simp only [writeTag, tagHeader, prevTagSize, Spec.Flv.tag, Tag.toSpec, ui24_mod_eq_be]
  simp only [ui24_eq_be, ui32_eq_be, Spec.Flv.ui8, UInt8.ofNat_toNat]
  simp [be3_eq]

theorem writeTags_is_spec (tags : List Tag) :
    writeTags tags = Spec.Flv.body (tags.map Tag.toSpec) := by
  induction tags with
  | nil => rfl
  | cons t ts ih => simp [writeTags, Spec.Flv.body, writeTag_is_spec, ih, Tag.toSpec]

/-- Byte for byte, for every flag combination and every tag list (both sides reduce out-of-range
values the same way; the standard only gives meaning to the `WF` ones). -/
theorem mux_eq_spec (hv ha : Bool) (tags : List Tag) :
    mux hv ha tags = Spec.Flv.file ha hv (tags.map Tag.toSpec) := by
  simp [mux, Spec.Flv.file, writeHeader_is_spec, writeTags_is_spec]

theorem demux_mux_ok (hv ha : Bool) (tags : List Tag) (hwf : ∀ t ∈ tags, t.WF) :
    demux (mux hv ha tags) = ok ({ version := 1, hasVideo := hv, hasAudio := ha }, tags, .err .eof) := by
  unfold demux mux
  rw [readHeader_writeHeader]
  simp only [bind_ok, pure_eq]
  rw [readTags_writeTags tags hwf _ (Nat.lt_succ_self _)]

theorem demux_ne_panic (s : Bytes) : demux s ≠ .panic := by
  unfold demux
  apply bind_ne_panic (readHeader_ne_panic s)
  rintro ⟨h, rest⟩ _
  simp

theorem demux_stop_ne_panic {s : Bytes} {h : Header} {ts : List Tag} {st : Stop}
    (e : demux s = ok (h, ts, st)) : st ≠ .panic := by
  unfold demux at e
  obtain ⟨⟨h', rest⟩, _, e2⟩ := bind_eq_ok.mp e
  simp only [pure_eq, ok.injEq, Prod.mk.injEq] at e2
  obtain ⟨_, e3⟩ := e2
  have := readTags_stop_ne_panic (rest.length + 1) rest (Nat.lt_succ_self _)
  rw [e3] at this
  exact this

/-! ### frame and cut (truncated files) — the shapes C08 needs -/


/-- Frame for one whole step: a successful `ReadTagHeader`+`ReadTag` is unaffected by more bytes behind it. -/
theorem readTagFull_frame {s r : Bytes} {t : Tag} (x : Bytes) (h : readTagFull s = ok (t, r)) :
    readTagFull (s ++ x) = ok (t, r ++ x) := by
  unfold readTagFull at h ⊢
  obtain ⟨⟨hd, s1⟩, h1, h'⟩ := bind_eq_ok.mp h
  obtain ⟨⟨b, s2⟩, h2, h''⟩ := bind_eq_ok.mp h'
  simp only [pure_eq, ok.injEq, Prod.mk.injEq] at h''
  obtain ⟨rfl, rfl⟩ := h''
  have f1 : readTagHeader (s ++ x) = ok (hd, s1 ++ x) := by
    unfold readTagHeader at h1 ⊢
    obtain ⟨⟨p, r1⟩, c1, e⟩ := bind_eq_ok.mp h1
    rw [copyN_frame x c1]
    obtain ⟨b0, b1, b2, b3, b4, b5, b6, b7, b8, b9, b10, rfl⟩ := list_len11 (copyN_ok c1).1
    simp only [pure_eq, ok.injEq, Prod.mk.injEq] at e
    obtain ⟨rfl, rfl⟩ := e
    simp
  have f2 : readTag hd.size (s1 ++ x) = ok (b, s2 ++ x) := by
    unfold readTag at h2 ⊢
    obtain ⟨⟨p, r1⟩, c1, e⟩ := bind_eq_ok.mp h2
    rw [copyN_frame x c1]
    simp only [bind_ok] at e ⊢
    split at e
    · simp at e
    · rename_i hlt
      simp only [pure_eq, ok.injEq, Prod.mk.injEq] at e
      obtain ⟨rfl, rfl⟩ := e
      rw [if_neg hlt]; rfl
  rw [f1]; simp only [bind_ok]; rw [f2]; rfl

/-- A strict prefix of one muxed tag is never a tag: the step ends with `io.EOF`. -/
theorem readTagFull_cut (t : Tag) (h : t.WF) (k : Nat) (hk : k < 15 + t.body.length) :
    readTagFull ((writeTag t).take k) = err .eof := by
  unfold readTagFull
  by_cases h11 : k < 11
  · have : readTagHeader ((writeTag t).take k) = err .eof := by
      unfold readTagHeader; rw [copyN_short (by simp; omega)]; rfl
    rw [this]; rfl
  · have e : (writeTag t).take k =
        tagHeader t.ty t.ts t.body.length ++ (t.body ++ prevTagSize t.body.length).take (k - 11) := by
      unfold writeTag
      rw [List.append_assoc, List.take_append, tagHeader_length, List.take_of_length_le (by simp; omega)]
    rw [e, readTagHeader_tagHeader _ _ _ _ h.1 h.2]
    simp only [bind_ok]
    have : readTag t.body.length ((t.body ++ prevTagSize t.body.length).take (k - 11)) = err .eof := by
      unfold readTag; rw [copyN_short (by simp; omega)]; rfl
    rw [this]; rfl

/-- The tags lying wholly inside the first `k` bytes of `writeTags tags`, in order. -/
def wholeTags : Nat → List Tag → List Tag
  | _, [] => []
  | k, t :: ts => if 15 + t.body.length ≤ k then t :: wholeTags (k - (15 + t.body.length)) ts else []

/-- Cut: on the first `k` bytes of a muxed tag sequence the loop returns exactly the tags wholly
contained in those bytes, in order, then `io.EOF` — nothing truncated, duplicated or fabricated. -/
theorem readTags_cut (tags : List Tag) (hwf : ∀ t ∈ tags, t.WF) :
    ∀ k fuel, ((writeTags tags).take k).length < fuel →
      readTags fuel ((writeTags tags).take k) = (wholeTags k tags, .err .eof) := by
  induction tags with
  | nil =>
    intro k fuel hf
    cases fuel with
    | zero => simp at hf
    | succ f => simp [writeTags, readTags, readTagFull_nil, wholeTags]
  | cons t ts ih =>
    intro k fuel hf
    cases fuel with
    | zero => simp at hf
    | succ f =>
      have ht := hwf t (by simp)
      have hts : ∀ x ∈ ts, x.WF := fun x hx => hwf x (by simp [hx])
      by_cases hk : 15 + t.body.length ≤ k
      · have e : (writeTags (t :: ts)).take k = writeTag t ++ (writeTags ts).take (k - (15 + t.body.length)) := by
          simp only [writeTags]
          rw [List.take_append, writeTag_length, List.take_of_length_le (by simp; omega)]
        rw [e] at hf ⊢
        simp only [List.length_append, writeTag_length] at hf
        simp only [readTags, readTagFull_writeTag t _ ht, wholeTags, if_pos hk]
        rw [ih hts _ f (by omega)]
      · have e : (writeTags (t :: ts)).take k = (writeTag t).take k := by
          simp only [writeTags]
          rw [List.take_append, writeTag_length, show k - (15 + t.body.length) = 0 by omega]
          simp
        rw [e]
        simp only [readTags, readTagFull_cut t ht k (by omega), wholeTags, if_neg hk]

theorem demux_cut (hv ha : Bool) (tags : List Tag) (hwf : ∀ t ∈ tags, t.WF) (k : Nat) :
    demux ((mux hv ha tags).take k) =
      if k < 13 then err .eof
      else ok ({ version := 1, hasVideo := hv, hasAudio := ha }, wholeTags (k - 13) tags, .err .eof) := by
  unfold demux mux
  by_cases hk : k < 13
  · rw [if_pos hk]
    have : readHeader ((writeHeader hv ha ++ writeTags tags).take k) = err .eof := by
      unfold readHeader; rw [copyN_short (by simp; omega)]; rfl
    rw [this]; rfl
  · rw [if_neg hk, List.take_append, writeHeader_length, List.take_of_length_le (by simp; omega),
      readHeader_writeHeader]
    simp only [bind_ok, pure_eq]
    rw [readTags_cut tags hwf _ _ (Nat.lt_succ_self _)]

theorem wholeTags_prefix : ∀ (k : Nat) (tags : List Tag), wholeTags k tags <+: tags
  | _, [] => by simp [wholeTags]
  | k, t :: ts => by
    unfold wholeTags
    split
    · exact (List.prefix_cons_inj t).mpr (wholeTags_prefix _ ts)
    · exact List.nil_prefix

end Oryx.Flv
