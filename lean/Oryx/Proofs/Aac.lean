/-
  Helper lemmas for C11 (AAC / ADTS). Property statements live in Oryx/Props/C11.lean.
-/
import Oryx.Model.Aac
import Oryx.Spec.Adts
namespace Oryx.Aac
open Oryx Oryx.Res Oryx.Spec.Adts

/-! ### accepted configurations and `validate` -/

/-- The property's domain, written with literal numbers (independent of the generated constants):
object types Main(1), LC(2), SSR(3), HE(5), HEv2(29); sampling-frequency index 1..12; channels 1..7. -/
def Accepted (a : Asc) : Prop :=
  (a.object.toNat = 1 ∨ a.object.toNat = 2 ∨ a.object.toNat = 3 ∨ a.object.toNat = 5 ∨ a.object.toNat = 29) ∧
  (1 ≤ a.sampleRate.toNat ∧ a.sampleRate.toNat ≤ 12) ∧ (1 ≤ a.channels.toNat ∧ a.channels.toNat ≤ 7)

instance (a : Asc) : Decidable (Accepted a) := by unfold Accepted; exact inferInstance

theorem validate_eq (a : Asc) : validate a = if Accepted a then ok () else err .generic := by
  have c1 : Gen.Aac.ObjectTypeMain = 1 := rfl
  have c2 : Gen.Aac.ObjectTypeLC = 2 := rfl
  have c3 : Gen.Aac.ObjectTypeSSR = 3 := rfl
  have c4 : Gen.Aac.ObjectTypeHE = 5 := rfl
  have c5 : Gen.Aac.ObjectTypeHEv2 = 29 := rfl
  have c6 : Gen.Aac.SampleRateIndex88kHz = 1 := rfl
  have c7 : Gen.Aac.SampleRateIndex7kHz = 12 := rfl
  have c8 : Gen.Aac.ChannelMono = 1 := rfl
  have c9 : Gen.Aac.Channel7_1 = 7 := rfl
  simp only [validate]
  by_cases hA : Accepted a
  · rw [if_pos hA]; unfold Accepted at hA
    rw [if_neg (by omega), if_neg (by omega), if_neg (by omega)]
  · rw [if_neg hA]; unfold Accepted at hA
    by_cases h1 : ¬(a.object.toNat = Gen.Aac.ObjectTypeMain ∨ a.object.toNat = Gen.Aac.ObjectTypeLC ∨
        a.object.toNat = Gen.Aac.ObjectTypeSSR ∨ a.object.toNat = Gen.Aac.ObjectTypeHE ∨
        a.object.toNat = Gen.Aac.ObjectTypeHEv2)
    · rw [if_pos h1]
    · rw [if_neg h1]
      by_cases h2 : (a.sampleRate.toNat < Gen.Aac.SampleRateIndex88kHz ∨ a.sampleRate.toNat > Gen.Aac.SampleRateIndex7kHz)
      · rw [if_pos h2]
      · rw [if_neg h2, if_pos (by omega)]

theorem validate_ok_iff (a : Asc) : validate a = ok () ↔ Accepted a := by
  rw [validate_eq]; split <;> simp [*]

theorem validate_ne_panic (a : Asc) : validate a ≠ .panic := by
  rw [validate_eq]; split <;> simp


/-! ### the ISO writer's header, byte by byte -/

theorem ofNat_congr {a b : Nat} (h : a % 256 = b % 256) : UInt8.ofNat a = UInt8.ofNat b := by
  apply UInt8.toNat_inj.mp
  simp [UInt8.toNat_ofNat', h]

theorem le_horner (n x b : Nat) (hb : b < 256) : le (n+1) (x * 256 + b) = UInt8.ofNat b :: le n x := by
  have h1 : (x * 256 + b) % 256 = b := by omega
  have h2 : (x * 256 + b) / 256 = x := by omega
  simp only [le, h1, h2]

theorem be7_horner (b0 b1 b2 b3 b4 b5 b6 : Nat) (h0 : b0 < 256) (h1 : b1 < 256) (h2 : b2 < 256)
    (h3 : b3 < 256) (h4 : b4 < 256) (h5 : b5 < 256) (h6 : b6 < 256) :
    be 7 ((((((b0 * 256 + b1) * 256 + b2) * 256 + b3) * 256 + b4) * 256 + b5) * 256 + b6) =
      [UInt8.ofNat b0, UInt8.ofNat b1, UInt8.ofNat b2, UInt8.ofNat b3, UInt8.ofNat b4, UInt8.ofNat b5, UInt8.ofNat b6] := by
  have e0 : le 1 b0 = [UInt8.ofNat b0] := by
    have := le_horner 0 0 b0 h0
    simpa [le] using this
  unfold be
  rw [le_horner _ _ _ h6, le_horner _ _ _ h5, le_horner _ _ _ h4, le_horner _ _ _ h3, le_horner _ _ _ h2,
    le_horner _ _ _ h1, e0]
  rfl

/-- The 7 header bytes of the ISO writer, byte by byte. -/
theorem headerBytes (f : Frame) (h : f.WF) (hl : f.frameLength < 8192) :
    be 7 f.headerBits =
      [0xff,
       UInt8.ofNat (240 + 8 * f.id + f.protectionAbsent),
       UInt8.ofNat (64 * f.profile + 4 * f.sfi + 2 * f.privateBit + f.channels / 4),
       UInt8.ofNat (64 * (f.channels % 4) + 32 * f.original + 16 * f.home + 8 * f.copyrightBit +
                    4 * f.copyrightStart + f.frameLength / 2048),
       UInt8.ofNat (f.frameLength / 8 % 256),
       UInt8.ofNat (32 * (f.frameLength % 8) + f.bufferFullness / 64),
       UInt8.ofNat (4 * (f.bufferFullness % 64))] := by
  obtain ⟨h1, h2, h3, h4, h5, h6, h7, h8, h9, h10, h11, _⟩ := h
  have key : f.headerBits =
      ((((((255 * 256 + (240 + 8 * f.id + f.protectionAbsent)) * 256 +
        (64 * f.profile + 4 * f.sfi + 2 * f.privateBit + f.channels / 4)) * 256 +
        (64 * (f.channels % 4) + 32 * f.original + 16 * f.home + 8 * f.copyrightBit +
                    4 * f.copyrightStart + f.frameLength / 2048)) * 256 +
        (f.frameLength / 8 % 256)) * 256 + (32 * (f.frameLength % 8) + f.bufferFullness / 64)) * 256 +
        (4 * (f.bufferFullness % 64))) := by
    simp only [Frame.headerBits, packBits, Nat.reducePow]
    generalize f.frameLength = fl at *
    omega
  rw [key, be7_horner _ _ _ _ _ _ _ (by omega) (by omega) (by omega) (by omega) (by omega) (by omega) (by omega)]
  rfl


theorem toNat_ofNat_lt {n : Nat} (h : n < 256) : (UInt8.ofNat n).toNat = n := by
  simp [UInt8.toNat_ofNat', Nat.mod_eq_of_lt h]

/-- What `Decode` extracts from the ISO writer's header bytes. -/
theorem parseHdr_spec (f : Frame) (h : f.WF) (hl : f.frameLength < 8192) :
    parseHdr (UInt8.ofNat (240 + 8 * f.id + f.protectionAbsent))
       (UInt8.ofNat (64 * f.profile + 4 * f.sfi + 2 * f.privateBit + f.channels / 4))
       (UInt8.ofNat (64 * (f.channels % 4) + 32 * f.original + 16 * f.home + 8 * f.copyrightBit +
                    4 * f.copyrightStart + f.frameLength / 2048))
       (UInt8.ofNat (f.frameLength / 8 % 256))
       (UInt8.ofNat (32 * (f.frameLength % 8) + f.bufferFullness / 64))
       (UInt8.ofNat (4 * (f.bufferFullness % 64))) =
    { protectionAbsent := UInt8.ofNat f.protectionAbsent, profile := UInt8.ofNat f.profile,
      sfi := UInt8.ofNat f.sfi, channels := UInt8.ofNat f.channels, frameLength := f.frameLength } := by
  obtain ⟨h1, h2, h3, h4, h5, h6, h7, h8, h9, h10, h11, _⟩ := h
  generalize f.frameLength = fl at *
  have pa : ∀ i : Fin 2, ∀ p : Fin 2,
      ((UInt8.ofNat (240 + 8 * i.val + p.val)) &&& 0x0f) &&& 0x01 = UInt8.ofNat p.val := by decide
  have hpa := pa ⟨f.id, h1⟩ ⟨f.protectionAbsent, h2⟩
  simp only at hpa
  simp only [parseHdr, ofBE, ofLE, List.reverse_cons, List.reverse_nil, List.nil_append, List.cons_append,
    Nat.mul_zero, Nat.add_zero, hpa]
  rw [toNat_ofNat_lt (by omega), toNat_ofNat_lt (by omega), toNat_ofNat_lt (by omega), toNat_ofNat_lt (by omega),
    toNat_ofNat_lt (by omega)]
  congr 1
  · exact ofNat_congr (by omega)
  · exact ofNat_congr (by omega)
  · exact ofNat_congr (by omega)
  · omega


/-! ### decoding frames of the ISO writer -/

/-- Frames of the ISO writer inside the property's domain: field widths respected, a profile /
sampling index / channel configuration the library accepts, 1..8184 (8182 with CRC) raw bytes so that
aac_frame_length fits its 13 bits. -/
def Acceptable (f : Frame) : Prop :=
  f.WF ∧ f.profile ≤ 2 ∧ (1 ≤ f.sfi ∧ f.sfi ≤ 12) ∧ (1 ≤ f.channels ∧ f.channels ≤ 7) ∧
  1 ≤ f.raw.length ∧ f.frameLength ≤ 8191

instance (f : Frame) : Decidable (Acceptable f) := by unfold Acceptable; exact inferInstance

/-- The config `Decode` must report for an acceptable frame (object type = profile + 1). -/
def frameAsc (f : Frame) : Asc :=
  { object := UInt8.ofNat (f.profile + 1), sampleRate := UInt8.ofNat f.sfi, channels := UInt8.ofNat f.channels }

theorem toObjectType_profile {p : Nat} (h : p ≤ 2) : toObjectType (UInt8.ofNat p) = ok (UInt8.ofNat (p + 1)) := by
  have : p = 0 ∨ p = 1 ∨ p = 2 := by omega
  rcases this with rfl | rfl | rfl <;> rfl

theorem frameAsc_accepted (f : Frame) (h : Acceptable f) : Accepted (frameAsc f) := by
  obtain ⟨_, hp, hs, hc, _, _⟩ := h
  unfold Accepted frameAsc
  simp only
  rw [toNat_ofNat_lt (by omega), toNat_ofNat_lt (by omega), toNat_ofNat_lt (by omega)]
  omega

/-- A frame of the independent writer, followed by anything, decodes to exactly its raw data block;
the remainder is exactly what followed the frame; the receiver reports the frame's configuration. -/
theorem decode_spec (f : Frame) (h : Acceptable f) (st : Asc) (rest : Bytes) :
    adtsDecode st (f.write ++ rest) = (frameAsc f, ok (f.raw, rest)) := by
  have hacc := frameAsc_accepted f h
  obtain ⟨hwf, hp, hs, hc, hr, hl⟩ := h
  have hl' : f.frameLength < 8192 := by omega
  have hid : f.id < 2 := hwf.1
  have hpa : f.protectionAbsent < 2 := hwf.2.1
  have sync : ∀ i : Fin 2, ∀ p : Fin 2, (UInt8.ofNat (240 + 8 * i.val + p.val)) &&& 0xf0 = 0xf0 := by decide
  have hsync := sync ⟨f.id, hid⟩ ⟨f.protectionAbsent, hpa⟩
  simp only at hsync
  have hv : validate (frameAsc f) = ok () := (validate_ok_iff _).mpr hacc
  unfold frameAsc at hv
  simp only [Frame.write, headerBytes f hwf hl', List.cons_append, List.nil_append, List.append_assoc,
    adtsDecode, parseHdr_spec f hwf hl', hsync, toObjectType_profile hp]
  have hpa2 : f.protectionAbsent = 0 ∨ f.protectionAbsent = 1 := by omega
  rcases hpa2 with h0 | h1
  · have e0 : UInt8.ofNat f.protectionAbsent = (0 : UInt8) := by rw [h0]; rfl
    have hec : f.errorCheck = be 2 f.crc := by simp [Frame.errorCheck, h0]
    have l2 : (be 2 f.crc).length = 2 := be_length 2 _
    have hfl : f.frameLength = 9 + f.raw.length := by simp [Frame.frameLength, Frame.headerSize, h0]
    have hn : (f.frameLength + 65536 - 9) % 65536 = f.raw.length := by omega
    simp only [e0, ↓reduceIte, true_and, hv, hec, hn, drop_append_len _ _ l2, List.length_append, l2,
      take_append_len _ _ rfl, drop_append_len _ _ rfl]
    rw [if_neg (by omega), if_neg (by simp), if_neg (by omega), if_neg (by omega)]
    rfl
  · have e1 : ¬ (UInt8.ofNat f.protectionAbsent = (0 : UInt8)) := by rw [h1]; decide
    have hec : f.errorCheck = [] := by simp [Frame.errorCheck, h1]
    have hfl : f.frameLength = 7 + f.raw.length := by simp [Frame.frameLength, Frame.headerSize, h1]
    have hn : (f.frameLength + 65536 - 7) % 65536 = f.raw.length := by omega
    simp only [e1, ↓reduceIte, false_and, hv, hec, hn, List.nil_append, List.length_append,
      take_append_len _ _ rfl, drop_append_len _ _ rfl]
    rw [if_neg (by omega), if_neg (by simp), if_neg (by omega)]
    rfl


/-! ### the library's encoder writes the ISO layout -/

/-- ADTS profile of an accepted object type: Main → 0, SSR → 2, LC / HE / HEv2 → 1 (LC). -/
def profileOf (o : UInt8) : Nat := if o.toNat = 1 then 0 else if o.toNat = 3 then 2 else 1

/-- The frame the library's encoder writes, as a value of the ISO writer: MPEG-4 id, no CRC, all
don't-care bits 0, adts_buffer_fullness 0x03f (bytes 5..6 = `…00000 111111 00`). -/
def encFrame (a : Asc) (raw : Bytes) : Frame :=
  { id := 0, protectionAbsent := 1, profile := profileOf a.object, sfi := a.sampleRate.toNat, privateBit := 0,
    channels := a.channels.toNat, original := 0, home := 0, copyrightBit := 0, copyrightStart := 0,
    bufferFullness := 63, crc := 0, raw := raw }

theorem toProfile_accepted (a : Asc) (h : Accepted a) : toProfile a.object = ok (UInt8.ofNat (profileOf a.object)) := by
  obtain ⟨ho, _, _⟩ := h
  have : ∀ n : Nat, a.object.toNat = n → a.object = UInt8.ofNat n := by
    intro n hn; rw [← hn]; exact UInt8.ofNat_toNat.symm
  rcases ho with h | h | h | h | h <;> (rw [this _ h]; rfl)

theorem enc_p2 : ∀ p : Fin 3, ∀ s : Fin 16, ∀ c : Fin 8,
    (((UInt8.ofNat p.val <<< (6 : UInt8)) &&& (0xc0 : UInt8)) ||| ((UInt8.ofNat s.val <<< (2 : UInt8)) &&& (0x3c : UInt8)) |||
      ((UInt8.ofNat c.val >>> (2 : UInt8)) &&& (0x01 : UInt8))) = UInt8.ofNat (64 * p.val + 4 * s.val + 2 * 0 + c.val / 4) := by
  decide +kernel

theorem enc_p3 : ∀ c : Fin 8, ∀ x : Fin 4,
    (((UInt8.ofNat c.val <<< (6 : UInt8)) &&& (0xc0 : UInt8)) ||| UInt8.ofNat x.val) =
      UInt8.ofNat (64 * (c.val % 4) + 32 * 0 + 16 * 0 + 8 * 0 + 4 * 0 + x.val) := by
  decide +kernel

theorem and_e0 : ∀ b : UInt8, b &&& 0xe0 = UInt8.ofNat (b.toNat / 32 * 32) := by
  apply forall_u8; decide +kernel

/-- Byte for byte, the library's encoder output is the ISO writer's frame. -/
theorem encode_is_spec (a : Asc) (h : Accepted a) (raw : Bytes) (hl : raw.length ≤ 8184) :
    adtsEncode a raw = ok (encFrame a raw).write := by
  have hv := (validate_ok_iff a).mpr h
  have hp := toProfile_accepted a h
  obtain ⟨ho, hs, hc⟩ := h
  have hpl : profileOf a.object < 3 := by
    unfold profileOf
    repeat' split
    all_goals omega
  have hfl : (encFrame a raw).frameLength = raw.length + 7 := by
    simp [Frame.frameLength, Frame.headerSize, encFrame]; omega
  have hwf : (encFrame a raw).WF := by
    unfold Frame.WF encFrame; simp only; omega
  have hb := headerBytes (encFrame a raw) hwf (by omega)
  rw [hfl] at hb
  have hmod : (raw.length + 7) % 65536 = raw.length + 7 := by omega
  simp only [adtsEncode, hv, hp, Res.bind_ok, Res.pure_eq, hmod, Frame.write, hb, Frame.errorCheck]
  have e2 := enc_p2 ⟨_, hpl⟩ ⟨a.sampleRate.toNat, by omega⟩ ⟨a.channels.toNat, by omega⟩
  have e3 := enc_p3 ⟨a.channels.toNat, by omega⟩ ⟨(raw.length + 7) / 2048, by omega⟩
  simp only [UInt8.ofNat_toNat] at e2 e3
  have e3' : (raw.length + 7) / 2048 % 4 = (raw.length + 7) / 2048 := by omega
  have e5 : UInt8.ofNat ((raw.length + 7) * 32) &&& 0xe0 = UInt8.ofNat (32 * ((raw.length + 7) % 8) + 63 / 64) := by
    rw [and_e0]; apply ofNat_congr; simp only [UInt8.toNat_ofNat']; omega
  have e4 : UInt8.ofNat ((raw.length + 7) / 8) = UInt8.ofNat ((raw.length + 7) / 8 % 256) := ofNat_congr (by omega)
  simp only [encFrame, e3', e2, e3, e4, e5]
  rfl


/-! ### round trip -/

theorem encFrame_acceptable (a : Asc) (h : Accepted a) (raw : Bytes) (h1 : 1 ≤ raw.length) (h2 : raw.length ≤ 8184) :
    Acceptable (encFrame a raw) := by
  obtain ⟨ho, hs, hc⟩ := h
  have hpl : profileOf a.object ≤ 2 := by
    unfold profileOf
    repeat' split
    all_goals omega
  refine ⟨?_, hpl, hs, hc, h1, ?_⟩
  · unfold Frame.WF encFrame; simp only; omega
  · simp [Frame.frameLength, Frame.headerSize, encFrame]; omega

/-- What `Decode` reports after a frame encoded with config `a`: the object type of `a`'s ADTS
profile (HE and HEv2 travel as LC), `a`'s sampling index and channels. -/
def reported (a : Asc) : Asc :=
  { object := UInt8.ofNat (profileOf a.object + 1), sampleRate := a.sampleRate, channels := a.channels }

theorem frameAsc_encFrame (a : Asc) (raw : Bytes) : frameAsc (encFrame a raw) = reported a := by
  simp [frameAsc, encFrame, reported]

/-- The reported object type has the same ADTS profile as the configured one. -/
theorem reported_profile (a : Asc) (h : Accepted a) : toProfile (reported a).object = toProfile a.object := by
  obtain ⟨ho, _, _⟩ := h
  have : ∀ n : Nat, a.object.toNat = n → a.object = UInt8.ofNat n := by
    intro n hn; rw [← hn]; exact UInt8.ofNat_toNat.symm
  rcases ho with h | h | h | h | h <;> (simp only [reported, profileOf, this _ h]; rfl)

theorem encode_decode (a : Asc) (h : Accepted a) (raw : Bytes) (h1 : 1 ≤ raw.length) (h2 : raw.length ≤ 8184)
    (st : Asc) (rest : Bytes) :
    ∃ frame, adtsEncode a raw = ok frame ∧ adtsDecode st (frame ++ rest) = (reported a, ok (raw, rest)) := by
  refine ⟨_, encode_is_spec a h raw h2, ?_⟩
  have := decode_spec _ (encFrame_acceptable a h raw h1 h2) st rest
  rwa [frameAsc_encFrame] at this

/-! ### streams -/

/-- Every frame of the writer starts with the 12-bit sync word. -/
theorem write_sync (f : Frame) (h : f.WF) (hl : f.frameLength < 8192) :
    ∃ b1 tl, f.write = 0xff :: b1 :: tl ∧ b1 &&& 0xf0 = 0xf0 := by
  have sync : ∀ i : Fin 2, ∀ p : Fin 2, (UInt8.ofNat (240 + 8 * i.val + p.val)) &&& 0xf0 = 0xf0 := by decide
  have hsync := sync ⟨f.id, h.1⟩ ⟨f.protectionAbsent, h.2.1⟩
  simp only [Frame.write, headerBytes f h hl, List.cons_append]
  exact ⟨_, _, rfl, hsync⟩

/-- Starts at a sync word (or is empty: end of stream). -/
def AtSync : Bytes → Prop
  | [] => True
  | b0 :: b1 :: _ => b0 = 0xff ∧ b1 &&& 0xf0 = 0xf0
  | _ => False

theorem writeAll_atSync (fs : List Frame) (h : ∀ f ∈ fs, Acceptable f) : AtSync (writeAll fs) := by
  cases fs with
  | nil => simp [writeAll, AtSync]
  | cons f fs =>
    have hf := h f (by simp)
    obtain ⟨b1, tl, e, hb⟩ := write_sync f hf.1 (by have := hf.2.2.2.2.2; omega)
    simp [writeAll, e, AtSync, hb]

theorem decodeStream_step (fuel : Nat) (st : Asc) (data : Bytes) (h : data ≠ []) :
    decodeStream (fuel + 1) st data =
      match adtsDecode st data with
      | (st', .ok (raw, left)) => do
        let rs ← decodeStream fuel st' left
        pure (raw :: rs)
      | (_, .err k) => err k
      | (_, .panic) => .panic := by
  cases data with
  | nil => exact absurd rfl h
  | cons b bs => rfl

theorem write_length (f : Frame) : f.write.length = f.frameLength := by
  simp only [Frame.write, Frame.errorCheck, Frame.frameLength, Frame.headerSize, List.length_append, be_length]
  split <;> simp [be_length] <;> omega

/-- A concatenation of frames decodes one frame at a time, in order, to exactly the raw blocks. -/
theorem decodeStream_writeAll (fs : List Frame) (h : ∀ f ∈ fs, Acceptable f) (st : Asc) (fuel : Nat)
    (hfuel : (writeAll fs).length ≤ fuel) :
    decodeStream fuel st (writeAll fs) = ok (fs.map (·.raw)) := by
  induction fs generalizing st fuel with
  | nil => cases fuel <;> simp [writeAll, decodeStream]
  | cons f fs ih =>
    have hf := h f (by simp)
    have hfs : ∀ g ∈ fs, Acceptable g := fun g hg => h g (by simp [hg])
    have hlen : 8 ≤ f.write.length := by
      rw [write_length]; have := hf.2.2.2.2.1
      simp only [Frame.frameLength, Frame.headerSize]; split <;> omega
    simp only [writeAll, List.length_append] at hfuel ⊢
    obtain ⟨fuel', rfl⟩ : ∃ k, fuel = k + 1 := ⟨fuel - 1, by omega⟩
    have hne : f.write ++ writeAll fs ≠ [] := by
      intro e; have := congrArg List.length e
      rw [List.length_append, List.length_nil] at this; omega
    have hq : (writeAll fs).length ≤ fuel' := by omega
    rw [decodeStream_step _ _ _ hne, decode_spec f hf st (writeAll fs)]
    simp only [ih hfs (frameAsc f) fuel' hq, Res.bind_ok, Res.pure_eq, List.map_cons]


/-! ### panic freedom, termination -/

theorem ne_panic_of_isPanic {r : Res α} (h : r.isPanic = false) : r ≠ .panic := by
  intro e; subst e; simp [Res.isPanic] at h

theorem isOk_iff {r : Res α} : r.isOk = true ↔ ∃ a, r = ok a := by
  cases r <;> simp [Res.isOk]

/-- Enum helpers, all 256 values: `ToProfile`, `ToObjectType` and (with its guard) `ToHz` always return. -/
theorem enum_isOk : ∀ v : UInt8, (toHz v).isOk = true ∧ (toProfile v).isOk = true ∧ (toObjectType v).isOk = true := by
  apply forall_u8; decide +kernel

theorem strings_isOk : ∀ v : UInt8,
    (Gen.Aac.ObjectType_String v.toNat).isOk = true ∧ (Gen.Aac.Profile_String v.toNat).isOk = true ∧
    (Gen.Aac.SampleRateIndex_String v.toNat).isOk = true ∧ (Gen.Aac.Channels_String v.toNat).isOk = true := by
  apply forall_u8; decide +kernel

theorem adtsDecode_ne_panic (st : Asc) (data : Bytes) : (adtsDecode st data).2 ≠ .panic := by
  unfold adtsDecode
  split
  · rename_i b0 b1 b2 b3 b4 b5 b6 p
    obtain ⟨o, ho⟩ := isOk_iff.mp (enum_isOk (parseHdr b1 b2 b3 b4 b5 b6).profile).2.2
    simp only [ho]
    repeat' split
    all_goals first
      | (rename_i heq; exact absurd heq (validate_ne_panic _))
      | simp_all
  · simp

/-- A successful `Decode` consumes at least the 7 header bytes. -/
theorem adtsDecode_left' (st : Asc) (data : Bytes) :
    ∀ r, (adtsDecode st data).2 = ok r → r.2.length + 7 ≤ data.length := by
  unfold adtsDecode
  split
  · rename_i b0 b1 b2 b3 b4 b5 b6 p
    obtain ⟨o, ho⟩ := isOk_iff.mp (enum_isOk (parseHdr b1 b2 b3 b4 b5 b6).profile).2.2
    simp only [ho]
    repeat' split
    all_goals intro r h
    all_goals simp only [reduceCtorEq, ok.injEq] at h
    all_goals (subst h; simp only [List.length_drop, List.length_cons]; omega)
  · intro r h; simp at h

theorem adtsDecode_left (st st' : Asc) (data raw left : Bytes) (h : adtsDecode st data = (st', ok (raw, left))) :
    left.length + 7 ≤ data.length := by
  have := adtsDecode_left' st data (raw, left) (by rw [h])
  exact this

/-- The caller's loop never runs out of fuel (it terminates) and never panics. -/
theorem decodeStream_ne_panic (fuel : Nat) (st : Asc) (data : Bytes) (h : data.length ≤ fuel) :
    decodeStream fuel st data ≠ .panic := by
  induction fuel generalizing st data with
  | zero =>
    have : data = [] := List.eq_nil_of_length_eq_zero (by omega)
    subst this; simp [decodeStream]
  | succ n ih =>
    cases data with
    | nil => simp [decodeStream]
    | cons b bs =>
      rw [decodeStream_step _ _ _ (by simp)]
      split
      · rename_i st' raw left heq
        have := adtsDecode_left _ _ _ _ _ heq
        exact Res.bind_ne_panic (ih _ _ (by omega)) (by intro a _; simp)
      · simp
      · rename_i heq
        exact absurd (congrArg Prod.snd heq) (adtsDecode_ne_panic _ _)

theorem ascUnmarshal_ne_panic (st : Asc) (data : Bytes) : (ascUnmarshal st data).2 ≠ .panic := by
  unfold ascUnmarshal
  split
  · exact validate_ne_panic _
  · simp

theorem ascMarshal_ne_panic (a : Asc) : ascMarshal a ≠ .panic := by
  unfold ascMarshal
  exact Res.bind_ne_panic (validate_ne_panic _) (by intro _ _; simp)

theorem adtsEncode_ne_panic (a : Asc) (raw : Bytes) : adtsEncode a raw ≠ .panic := by
  unfold adtsEncode
  refine Res.bind_ne_panic (validate_ne_panic _) (fun _ _ => ?_)
  obtain ⟨p, hp⟩ := isOk_iff.mp (enum_isOk a.object).2.1
  rw [hp]; simp


/-! ### AudioSpecificConfig: all 65 536 two-byte values -/

/-- AudioSpecificConfig acceptance stated on the two bytes (ISO/IEC 14496-3 §1.6.2.1: audioObjectType 5
bits, samplingFrequencyIndex 4 bits, channelConfiguration 4 bits, MSB first), arithmetic only. -/
def AscOk (t0 t1 : UInt8) : Prop :=
  (t0.toNat / 8 = 1 ∨ t0.toNat / 8 = 2 ∨ t0.toNat / 8 = 3 ∨ t0.toNat / 8 = 5 ∨ t0.toNat / 8 = 29) ∧
  (1 ≤ (t0.toNat % 8) * 2 + t1.toNat / 128 ∧ (t0.toNat % 8) * 2 + t1.toNat / 128 ≤ 12) ∧
  (1 ≤ t1.toNat / 8 % 16 ∧ t1.toNat / 8 % 16 ≤ 7)

instance (t0 t1 : UInt8) : Decidable (AscOk t0 t1) := by unfold AscOk; exact inferInstance

/-! All 65 536 two-byte values are covered by five exhaustive byte-level facts (the object type and the
upper rate bits live in byte 0, the rate's low bit and the channels in byte 1). -/

theorem asc_topbit : ∀ t1 : UInt8, (t1 >>> 7) &&& 0x01 = UInt8.ofNat (t1.toNat / 128) ∧ t1.toNat / 128 < 2 := by
  apply forall_u8; decide +kernel

theorem asc_obj : ∀ t0 : UInt8, ((t0 >>> 3) &&& 0x1f).toNat = t0.toNat / 8 := by
  apply forall_u8; decide +kernel

theorem asc_ch : ∀ t1 : UInt8, ((t1 >>> 3) &&& 0x0f).toNat = t1.toNat / 8 % 16 := by
  apply forall_u8; decide +kernel

/-- byte 0 and the rate's low bit `x`: the 4-bit rate, and re-marshalling gives byte 0 back. -/
theorem asc_b0 : ∀ t0 : UInt8, ∀ x : Fin 2,
    ((((t0 <<< 1) &&& (0x0e : UInt8)) ||| UInt8.ofNat x.val).toNat = (t0.toNat % 8) * 2 + x.val) ∧
    ((((t0 >>> 3) &&& 0x1f) &&& 0x1f) <<< 3) ||| (((((t0 <<< 1) &&& (0x0e : UInt8)) ||| UInt8.ofNat x.val) &&& 0x0e) >>> 1) = t0 ∧
    ((((t0 <<< 1) &&& (0x0e : UInt8)) ||| UInt8.ofNat x.val) &&& 0x01) = UInt8.ofNat x.val := by
  apply forall_u8; decide +kernel

/-- byte 1: re-marshalling gives its 5 significant bits back. -/
theorem asc_b1 : ∀ t1 : UInt8,
    ((UInt8.ofNat (t1.toNat / 128)) <<< 7) ||| ((((t1 >>> 3) &&& 0x0f) &&& 0x0f) <<< 3) = t1 &&& 0xf8 := by
  apply forall_u8; decide +kernel

/-- The fields `UnmarshalBinary` extracts are the ISO bit fields. -/
theorem ascFields_toNat (t0 t1 : UInt8) :
    (ascFields t0 t1).object.toNat = t0.toNat / 8 ∧
    (ascFields t0 t1).sampleRate.toNat = (t0.toNat % 8) * 2 + t1.toNat / 128 ∧
    (ascFields t0 t1).channels.toNat = t1.toNat / 8 % 16 := by
  obtain ⟨e, hx⟩ := asc_topbit t1
  refine ⟨asc_obj t0, ?_, asc_ch t1⟩
  simp only [ascFields, e]
  exact (asc_b0 t0 ⟨_, hx⟩).1

theorem ascFields_accepted_iff (t0 t1 : UInt8) : Accepted (ascFields t0 t1) ↔ AscOk t0 t1 := by
  obtain ⟨h1, h2, h3⟩ := ascFields_toNat t0 t1
  unfold Accepted AscOk
  rw [h1, h2, h3]

theorem ascMarshal_ascFields (t0 t1 : UInt8) (h : AscOk t0 t1) :
    ascMarshal (ascFields t0 t1) = ok [t0, t1 &&& 0xf8] := by
  have hv := (validate_ok_iff _).mpr ((ascFields_accepted_iff t0 t1).mpr h)
  obtain ⟨e, hx⟩ := asc_topbit t1
  obtain ⟨_, e0, e1⟩ := asc_b0 t0 ⟨_, hx⟩
  simp only [ascMarshal, hv, Res.bind_ok, Res.pure_eq]
  simp only [ascFields, e] at e0 e1 ⊢
  simp only [e0, e1, asc_b1 t1]

/-- Marshal then unmarshal: every accepted config comes back (5 × 12 × 7 = 420 configs). -/
theorem asc_marshal_unmarshal (a : Asc) (h : Accepted a) (st : Asc) (rest : Bytes) :
    ∃ b0 b1, ascMarshal a = ok [b0, b1] ∧ ascUnmarshal st (b0 :: b1 :: rest) = (a, ok ()) := by
  have hv := (validate_ok_iff _).mpr h
  have key : ∀ o : Fin 30, ∀ s : Fin 13, ∀ c : Fin 8,
      ascFields (((UInt8.ofNat o.val &&& 0x1f) <<< 3) ||| ((UInt8.ofNat s.val &&& 0x0e) >>> 1))
        (((UInt8.ofNat s.val &&& 0x01) <<< 7) ||| ((UInt8.ofNat c.val &&& 0x0f) <<< 3)) =
      { object := UInt8.ofNat o.val, sampleRate := UInt8.ofNat s.val, channels := UInt8.ofNat c.val } := by
    decide +kernel
  obtain ⟨ho, hs, hc⟩ := h
  have k := key ⟨a.object.toNat, by omega⟩ ⟨a.sampleRate.toNat, by omega⟩ ⟨a.channels.toNat, by omega⟩
  simp only [UInt8.ofNat_toNat] at k
  refine ⟨((a.object &&& 0x1f) <<< 3) ||| ((a.sampleRate &&& 0x0e) >>> 1),
    ((a.sampleRate &&& 0x01) <<< 7) ||| ((a.channels &&& 0x0f) <<< 3), ?_, ?_⟩
  · simp only [ascMarshal, hv, Res.bind_ok, Res.pure_eq]
  · simp only [ascUnmarshal, k, hv]

/-! ### sampling frequency table -/

def hzCheck (v : UInt8) : Bool :=
  match toHz v, samplingFrequency v.toNat with
  | .ok hz, some f => hz == f
  | .ok hz, none => hz == 0
  | _, _ => false

theorem hzCheck_all : ∀ v : UInt8, hzCheck v = true := by
  apply forall_u8; decide +kernel

/-- `ToHz` is the ISO table on every index that has a frequency, 0 on reserved / out-of-table values. -/
theorem toHz_eq (v : UInt8) : toHz v = ok ((samplingFrequency v.toNat).getD 0) := by
  have := hzCheck_all v
  unfold hzCheck at this
  split at this <;> simp_all


/-! ### streams written by the library's own encoder -/

/-- Encode every `(config, raw)` item with the library's encoder and concatenate. -/
def encodeAll : List (Asc × Bytes) → Res Bytes
  | [] => ok []
  | (a, raw) :: rest => do
    let f ← adtsEncode a raw
    let tl ← encodeAll rest
    pure (f ++ tl)

/-- The property's domain for one library-encoded frame. -/
def ItemOk (i : Asc × Bytes) : Prop := Accepted i.1 ∧ 1 ≤ i.2.length ∧ i.2.length ≤ 8184

instance (i : Asc × Bytes) : Decidable (ItemOk i) := by unfold ItemOk; exact inferInstance

theorem encodeAll_eq (items : List (Asc × Bytes)) (h : ∀ i ∈ items, ItemOk i) :
    encodeAll items = ok (writeAll (items.map (fun i => encFrame i.1 i.2))) := by
  induction items with
  | nil => rfl
  | cons i rest ih =>
    obtain ⟨a, raw⟩ := i
    have hi := h (a, raw) (by simp)
    have hr : ∀ j ∈ rest, ItemOk j := fun j hj => h j (by simp [hj])
    simp only [encodeAll, encode_is_spec a hi.1 raw hi.2.2, ih hr, Res.bind_ok, Res.pure_eq, List.map_cons, writeAll]

end Oryx.Aac
