/-
  Helper lemmas for C11 (AAC / ADTS). Property statements live in Oryx/Props/C11.lean.
-/
import Oryx.Model.Aac
import Oryx.Spec.Adts
namespace Oryx.Aac
open Oryx Oryx.Res

end Oryx.Aac
