/-
  C15: the wire invariant of the concurrency model `Oryx.WsConc` is preserved by every step when the
  four structural facts hold.
-/
import Oryx.Model.WsConc
namespace Oryx.WsConc
open Oryx

@[simp] theorem upd_same (f : Nat → Thread) (t : Nat) (th : Thread) : upd f t th t = th := by simp [upd]
theorem upd_other (f : Nat → Thread) (t i : Nat) (th : Thread) (h : i ≠ t) : upd f t th i = f i := by simp [upd, h]

/-- The invariant. -/
structure Inv (s : Sys) : Prop where
  /-- only the holder of `mu` is inside a frame write -/
  holder : ∀ t, (s.threads t).pc ≠ .idle → s.mu = some t
  /-- the wire is the completed frames followed by the frame in progress -/
  wire : s.wire = (s.done.map (·.2)).flatten ++ s.cur
  /-- the frame in progress is what its writer has handed to the transport so far -/
  curWriting : ∀ t k j, (s.threads t).pc = .writing k → (s.threads t).job = some j → s.cur = (j.bufs.take k).flatten
  /-- nobody writing: no partial frame, unless a transport failure cut one -/
  curIdle : (∀ t k, (s.threads t).pc ≠ .writing k) → s.cur = [] ∨ s.latch = some .failed
  /-- once the latch is set nobody is (or gets) inside the transport writes -/
  frozen : s.latch ≠ none → ∀ t k, (s.threads t).pc ≠ .writing k
  /-- per-sender projection of the completed frames -/
  proj : ∀ t, (s.done.filter (fun p => p.1 == t)).map (·.2) = (s.threads t).okFrames
  /-- … which are frames of the sender's program, in program order -/
  order : ∀ t, List.Sublist (s.threads t).okFrames (((s.threads t).prog.take (s.threads t).pos).map Job.bytes)
  /-- a completed Close frame means the latch is set -/
  closeLatch : s.closeDone = true → s.latch ≠ none

theorem init_inv (s : Sys) (h : Init s) : Inv s := by
  obtain ⟨h1, h2, h3, h4, h5, h6, h7⟩ := h
  refine ⟨?_, ?_, ?_, ?_, ?_, ?_, ?_, ?_⟩
  · intro t ht; exact absurd (h7 t).1 ht
  · simp [h3, h4, h5]
  · intro t k j hk; rw [(h7 t).1] at hk; cases hk
  · intro _; exact Or.inl h5
  · intro hl; exact absurd h2 hl
  · intro t; simp [h4, (h7 t).2.2]
  · intro t; rw [(h7 t).2.2]; exact List.nil_sublist _
  · intro hc; rw [h6] at hc; cases hc

theorem two_active {s : Sys} (inv : Inv s) {a b : Nat} (ha : (s.threads a).pc ≠ .idle) (hb : (s.threads b).pc ≠ .idle) : a = b := by
  have h1 := inv.holder a ha
  have h2 := inv.holder b hb
  rw [h1] at h2; exact Option.some.inj h2

theorem others_idle {s : Sys} (inv : Inv s) {t : Nat} (ht : (s.threads t).pc ≠ .idle) {i : Nat} (hi : i ≠ t) :
    (s.threads i).pc = .idle := by
  by_cases h : (s.threads i).pc = .idle
  · exact h
  · exact absurd (two_active inv h ht) hi

theorem take_succ_map {l : List Job} {n : Nat} {j : Job} (h : l[n]? = some j) :
    (l.take (n + 1)).map Job.bytes = (l.take n).map Job.bytes ++ [j.bytes] := by
  rw [List.take_add_one, h]; simp

theorem order_step {th : Thread} (h : List.Sublist th.okFrames ((th.prog.take th.pos).map Job.bytes)) :
    List.Sublist th.okFrames ((th.prog.take (th.pos + 1)).map Job.bytes) := by
  refine h.trans ?_
  apply List.Sublist.map
  rw [List.take_add_one]
  exact List.sublist_append_left _ _

/-- The thread that is inside a write leaves it (fails / finishes): afterwards everybody is idle. -/
theorem all_idle_after {s : Sys} (inv : Inv s) {t : Nat} (ht : (s.threads t).pc ≠ .idle) (th : Thread) (hth : th.pc = .idle) :
    ∀ i, (upd s.threads t th i).pc = .idle := by
  intro i
  by_cases hit : i = t
  · subst hit; simpa using hth
  · rw [upd_other _ _ _ _ hit]; exact others_idle inv ht hit

theorem no_writer_after {s : Sys} (inv : Inv s) {t : Nat} (ht : (s.threads t).pc ≠ .idle) (th : Thread)
    (hth : ∀ k, th.pc ≠ .writing k) : ∀ i k, (upd s.threads t th i).pc ≠ .writing k := by
  intro i k hk
  by_cases hit : i = t
  · subst hit; rw [upd_same] at hk; exact hth k hk
  · rw [upd_other _ _ _ _ hit, others_idle inv ht hit] at hk; cases hk

theorem step_inv {s s' : Sys} (h : Step Facts.allTrue s s') (inv : Inv s) : Inv s' := by
  cases h with
  | acquire t j hmu hpc hjob =>
    have hnone : ∀ i, (s.threads i).pc = .idle := by
      intro i; by_cases hi : (s.threads i).pc = .idle
      · exact hi
      · have := inv.holder i hi; rw [hmu] at this; cases this
    refine ⟨?_, inv.wire, ?_, ?_, ?_, ?_, ?_, inv.closeLatch⟩ <;> dsimp only
    · intro i hi
      by_cases hit : i = t
      · subst hit; rfl
      · rw [upd_other _ _ _ _ hit] at hi; exact absurd (hnone i) hi
    · intro i k j' hk
      by_cases hit : i = t
      · subst hit; simp at hk
      · rw [upd_other _ _ _ _ hit] at hk; rw [hnone i] at hk; cases hk
    · intro _
      apply inv.curIdle
      intro i k hk; rw [hnone i] at hk; cases hk
    · intro hl i k hk
      by_cases hit : i = t
      · subst hit; simp at hk
      · rw [upd_other _ _ _ _ hit] at hk; exact inv.frozen hl i k hk
    · intro i
      by_cases hit : i = t
      · subst hit; simpa using inv.proj i
      · rw [upd_other _ _ _ _ hit]; exact inv.proj i
    · intro i
      by_cases hit : i = t
      · subst hit; simpa using inv.order i
      · rw [upd_other _ _ _ _ hit]; exact inv.order i
  | timeout t j hpc hjob =>
    refine ⟨?_, inv.wire, ?_, ?_, ?_, ?_, ?_, inv.closeLatch⟩ <;> dsimp only
    · intro i hi
      by_cases hit : i = t
      · subst hit; simp [hpc] at hi
      · rw [upd_other _ _ _ _ hit] at hi; exact inv.holder i hi
    · intro i k j' hk hj
      by_cases hit : i = t
      · subst hit; simp [hpc] at hk
      · rw [upd_other _ _ _ _ hit] at hk hj; exact inv.curWriting i k j' hk hj
    · intro hall
      apply inv.curIdle
      intro i k hk
      by_cases hit : i = t
      · subst hit; rw [hpc] at hk; cases hk
      · have := hall i k; rw [upd_other _ _ _ _ hit] at this; exact this hk
    · intro hl i k hk
      by_cases hit : i = t
      · subst hit; simp [hpc] at hk
      · rw [upd_other _ _ _ _ hit] at hk; exact inv.frozen hl i k hk
    · intro i
      by_cases hit : i = t
      · subst hit; simpa using inv.proj i
      · rw [upd_other _ _ _ _ hit]; exact inv.proj i
    · intro i
      by_cases hit : i = t
      · subst hit; simpa using order_step (inv.order i)
      · rw [upd_other _ _ _ _ hit]; exact inv.order i
  | latchErr t hpc hl =>
    have hact : (s.threads t).pc ≠ .idle := by rw [hpc]; intro h; cases h
    have hidle := all_idle_after inv hact { s.threads t with pc := .idle, pos := (s.threads t).pos + 1 } rfl
    have hnw : ∀ i k, (s.threads i).pc ≠ .writing k := by
      intro i k hk
      by_cases hit : i = t
      · subst hit; rw [hpc] at hk; cases hk
      · rw [others_idle inv hact hit] at hk; cases hk
    refine ⟨?_, inv.wire, ?_, ?_, ?_, ?_, ?_, inv.closeLatch⟩ <;> dsimp only
    · intro i hi; exact absurd (hidle i) hi
    · intro i k j' hk; rw [hidle i] at hk; cases hk
    · intro _; exact inv.curIdle hnw
    · intro _ i k hk; rw [hidle i] at hk; cases hk
    · intro i
      by_cases hit : i = t
      · subst hit; simpa using inv.proj i
      · rw [upd_other _ _ _ _ hit]; exact inv.proj i
    · intro i
      by_cases hit : i = t
      · subst hit; simpa using order_step (inv.order i)
      · rw [upd_other _ _ _ _ hit]; exact inv.order i
  | begin t hpc hl =>
    have hact : (s.threads t).pc ≠ .idle := by rw [hpc]; intro h; cases h
    have hnw : ∀ i k, (s.threads i).pc ≠ .writing k := by
      intro i k hk
      by_cases hit : i = t
      · subst hit; rw [hpc] at hk; cases hk
      · rw [others_idle inv hact hit] at hk; cases hk
    have hcur : s.cur = [] := by
      rcases inv.curIdle hnw with h | h
      · exact h
      · rw [hl] at h; cases h
    refine ⟨?_, inv.wire, ?_, ?_, ?_, ?_, ?_, inv.closeLatch⟩ <;> dsimp only
    · intro i hi
      by_cases hit : i = t
      · subst hit; exact inv.holder i hact
      · rw [upd_other _ _ _ _ hit] at hi; exact inv.holder i hi
    · intro i k j' hk hj
      by_cases hit : i = t
      · subst hit
        simp only [upd_same, PC.writing.injEq] at hk
        subst hk; simp [hcur]
      · rw [upd_other _ _ _ _ hit] at hk; rw [others_idle inv hact hit] at hk; cases hk
    · intro hall; exact absurd (by simp) (hall t 0)
    · intro hl'; exact absurd hl hl'
    · intro i
      by_cases hit : i = t
      · subst hit; simpa using inv.proj i
      · rw [upd_other _ _ _ _ hit]; exact inv.proj i
    · intro i
      by_cases hit : i = t
      · subst hit; simpa using inv.order i
      · rw [upd_other _ _ _ _ hit]; exact inv.order i
  | write t j k b hpc hjob hb =>
    have hact : (s.threads t).pc ≠ .idle := by rw [hpc]; intro h; cases h
    have hlatch : s.latch = none := by
      cases hl : s.latch with
      | none => rfl
      | some l => exact absurd hpc (inv.frozen (by rw [hl]; simp) t k)
    refine ⟨?_, ?_, ?_, ?_, ?_, ?_, ?_, inv.closeLatch⟩ <;> dsimp only
    · intro i hi
      by_cases hit : i = t
      · subst hit; exact inv.holder i hact
      · rw [upd_other _ _ _ _ hit] at hi; exact inv.holder i hi
    · rw [inv.wire, List.append_assoc]
    · intro i k' j' hk hj
      by_cases hit : i = t
      · subst hit
        simp only [upd_same, PC.writing.injEq] at hk
        have hj' : (s.threads i).job = some j' := by simpa [Thread.job] using hj
        rw [hjob] at hj'; cases hj'
        subst hk
        rw [inv.curWriting i k j hpc hjob, List.take_add_one, hb]; simp
      · rw [upd_other _ _ _ _ hit] at hk; rw [others_idle inv hact hit] at hk; cases hk
    · intro hall; exact absurd (by simp) (hall t (k + 1))
    · intro hl'; exact absurd hlatch hl'
    · intro i
      by_cases hit : i = t
      · subst hit; simpa using inv.proj i
      · rw [upd_other _ _ _ _ hit]; exact inv.proj i
    · intro i
      by_cases hit : i = t
      · subst hit; simpa using inv.order i
      · rw [upd_other _ _ _ _ hit]; exact inv.order i
  | writeFail t j k b p hpc hjob hb hp =>
    have hact : (s.threads t).pc ≠ .idle := by rw [hpc]; intro h; cases h
    have hidle := all_idle_after inv hact { s.threads t with pc := .idle, pos := (s.threads t).pos + 1 } rfl
    have hlatch : s.latch = none := by
      cases hl : s.latch with
      | none => rfl
      | some l => exact absurd hpc (inv.frozen (by rw [hl]; simp) t k)
    refine ⟨?_, ?_, ?_, ?_, ?_, ?_, ?_, ?_⟩ <;> dsimp only
    · intro i hi; exact absurd (hidle i) hi
    · rw [inv.wire, List.append_assoc]
    · intro i k' j' hk; rw [hidle i] at hk; cases hk
    · intro _; right; rw [hlatch]
    · intro _ i k' hk; rw [hidle i] at hk; cases hk
    · intro i
      by_cases hit : i = t
      · subst hit; simpa using inv.proj i
      · rw [upd_other _ _ _ _ hit]; exact inv.proj i
    · intro i
      by_cases hit : i = t
      · subst hit; simpa using order_step (inv.order i)
      · rw [upd_other _ _ _ _ hit]; exact inv.order i
    · intro _; rw [hlatch]; simp
  | finish t j hpc hjob hnc =>
    have hact : (s.threads t).pc ≠ .idle := by rw [hpc]; intro h; cases h
    have hidle := all_idle_after inv hact
      { s.threads t with pc := .idle, pos := (s.threads t).pos + 1, okFrames := (s.threads t).okFrames ++ [s.cur] } rfl
    have hcur : s.cur = j.bytes := by
      rw [inv.curWriting t _ j hpc hjob, List.take_length]; rfl
    refine ⟨?_, ?_, ?_, ?_, ?_, ?_, ?_, inv.closeLatch⟩ <;> dsimp only
    · intro i hi; exact absurd (hidle i) hi
    · rw [inv.wire]; simp
    · intro i k' j' hk; rw [hidle i] at hk; cases hk
    · intro _; left; rfl
    · intro _ i k' hk; rw [hidle i] at hk; cases hk
    · intro i
      by_cases hit : i = t
      · subst hit; simp [List.filter_append, inv.proj i]
      · rw [upd_other _ _ _ _ hit]
        have : (t == i) = false := by simpa using fun h => hit h.symm
        simp [List.filter_append, this, inv.proj i]
    · intro i
      by_cases hit : i = t
      · subst hit
        simp only [upd_same]
        have hj : (s.threads i).prog[(s.threads i).pos]? = some j := hjob
        rw [take_succ_map hj, hcur]
        exact List.Sublist.append (inv.order i) (List.Sublist.refl _)
      · rw [upd_other _ _ _ _ hit]; exact inv.order i
  | finishClose t j hpc hjob hc =>
    have hact : (s.threads t).pc ≠ .idle := by rw [hpc]; intro h; cases h
    have hlatch : s.latch = none := by
      cases hl : s.latch with
      | none => rfl
      | some l => exact absurd hpc (inv.frozen (by rw [hl]; simp) t _)
    have hcur : s.cur = j.bytes := by
      rw [inv.curWriting t _ j hpc hjob, List.take_length]; rfl
    refine ⟨?_, ?_, ?_, ?_, ?_, ?_, ?_, ?_⟩ <;> dsimp only
    · intro i hi
      by_cases hit : i = t
      · subst hit; exact inv.holder i hact
      · rw [upd_other _ _ _ _ hit] at hi; exact inv.holder i hi
    · rw [inv.wire]; simp
    · intro i k' j' hk; exact absurd hk (no_writer_after inv hact _ (fun k => by simp) i k')
    · intro _; left; rfl
    · intro _; exact no_writer_after inv hact _ (fun k => by simp)
    · intro i
      by_cases hit : i = t
      · subst hit; simp [List.filter_append, inv.proj i]
      · rw [upd_other _ _ _ _ hit]
        have : (t == i) = false := by simpa using fun h => hit h.symm
        simp [List.filter_append, this, inv.proj i]
    · intro i
      by_cases hit : i = t
      · subst hit
        simp only [upd_same]
        have hj : (s.threads i).prog[(s.threads i).pos]? = some j := hjob
        rw [take_succ_map hj, hcur]
        exact List.Sublist.append (inv.order i) (List.Sublist.refl _)
      · rw [upd_other _ _ _ _ hit]; exact inv.order i
    · intro _; rw [hlatch]; simp
  | release t hpc =>
    have hact : (s.threads t).pc ≠ .idle := by rw [hpc]; intro h; cases h
    have hidle := all_idle_after inv hact { s.threads t with pc := .idle } rfl
    have hnw : ∀ i k, (s.threads i).pc ≠ .writing k := by
      intro i k hk
      by_cases hit : i = t
      · subst hit; rw [hpc] at hk; cases hk
      · rw [others_idle inv hact hit] at hk; cases hk
    refine ⟨?_, inv.wire, ?_, ?_, ?_, ?_, ?_, inv.closeLatch⟩ <;> dsimp only
    · intro i hi; exact absurd (hidle i) hi
    · intro i k j' hk; rw [hidle i] at hk; cases hk
    · intro _; exact inv.curIdle hnw
    · intro _ i k hk; rw [hidle i] at hk; cases hk
    · intro i
      by_cases hit : i = t
      · subst hit; simpa using inv.proj i
      · rw [upd_other _ _ _ _ hit]; exact inv.proj i
    · intro i
      by_cases hit : i = t
      · subst hit; simpa using inv.order i
      · rw [upd_other _ _ _ _ hit]; exact inv.order i
  | closeTransport =>
    exact ⟨inv.holder, inv.wire, inv.curWriting, inv.curIdle, inv.frozen, inv.proj, inv.order, inv.closeLatch⟩
  | badNoLock t j hf => simp [Facts.allTrue] at hf
  | badStaleCheck t hf => simp [Facts.allTrue] at hf
  | badLateLatch t j hf => simp [Facts.allTrue] at hf
  | badSplitHold t k hf => simp [Facts.allTrue] at hf


theorem reach_inv {s0 s : Sys} (h0 : Inv s0) (h : Reach Facts.allTrue s0 s) : Inv s := by
  induction h with
  | refl => exact h0
  | step _ hs ih => exact step_inv hs ih

/-- With the latch set, no step changes the wire, the completed frames, the latch or any sender's
record of successful frames: every write attempt ends in `latchErr`. -/
theorem frozen_step {s s' : Sys} (inv : Inv s) (hl : s.latch ≠ none) (h : Step Facts.allTrue s s') :
    s'.wire = s.wire ∧ s'.done = s.done ∧ s'.latch = s.latch ∧ s'.cur = s.cur ∧
    ∀ t, (s'.threads t).okFrames = (s.threads t).okFrames := by
  have hokf : ∀ (t : Nat) (th : Thread), th.okFrames = (s.threads t).okFrames →
      ∀ i, (upd s.threads t th i).okFrames = (s.threads i).okFrames := by
    intro t th hth i
    by_cases hit : i = t
    · subst hit; simpa using hth
    · rw [upd_other _ _ _ _ hit]
  cases h with
  | acquire t j hmu hpc hjob => exact ⟨rfl, rfl, rfl, rfl, hokf t _ rfl⟩
  | timeout t j hpc hjob => exact ⟨rfl, rfl, rfl, rfl, hokf t _ rfl⟩
  | latchErr t hpc _ => exact ⟨rfl, rfl, rfl, rfl, hokf t _ rfl⟩
  | begin t hpc hnone => exact absurd hnone hl
  | write t j k b hpc => exact absurd hpc (inv.frozen hl t k)
  | writeFail t j k b p hpc => exact absurd hpc (inv.frozen hl t k)
  | finish t j hpc => exact absurd hpc (inv.frozen hl t _)
  | finishClose t j hpc => exact absurd hpc (inv.frozen hl t _)
  | release t hpc => exact ⟨rfl, rfl, rfl, rfl, hokf t _ rfl⟩
  | closeTransport => exact ⟨rfl, rfl, rfl, rfl, fun _ => rfl⟩
  | badNoLock t j hf => simp [Facts.allTrue] at hf
  | badStaleCheck t hf => simp [Facts.allTrue] at hf
  | badLateLatch t j hf => simp [Facts.allTrue] at hf
  | badSplitHold t k hf => simp [Facts.allTrue] at hf

theorem frozen_reach {s s' : Sys} (inv : Inv s) (hl : s.latch ≠ none) (h : Reach Facts.allTrue s s') :
    s'.wire = s.wire ∧ s'.done = s.done ∧ s'.latch = s.latch ∧ s'.cur = s.cur ∧
    (∀ t, (s'.threads t).okFrames = (s.threads t).okFrames) ∧ Inv s' := by
  induction h with
  | refl => exact ⟨rfl, rfl, rfl, rfl, fun _ => rfl, inv⟩
  | step _ hs ih =>
    obtain ⟨a, b, c, d, e, i⟩ := ih
    obtain ⟨a', b', c', d', e'⟩ := frozen_step i (by rw [c]; exact hl) hs
    exact ⟨a'.trans a, b'.trans b, c'.trans c, d'.trans d, fun t => (e' t).trans (e t), step_inv hs i⟩

theorem genFacts_allTrue_of (h1 : Gen.Websocket.allConnWritesUnderMu = true)
    (h2 : Gen.Websocket.writeErrCheckedUnderMuBeforeWrite = true)
    (h3 : Gen.Websocket.closeLatchSetBeforeRelease = true)
    (h4 : Gen.Websocket.dataFrameBuffersWrittenInOneLockHold = true) : genFacts = Facts.allTrue := by
  simp [genFacts, Facts.allTrue, h1, h2, h3, h4]

theorem mem_set_frames {senders : List Sender} {i : Nat} {f : Bytes} {rest : List Bytes} {a : Bool}
    (hi : senders[i]? = some ⟨f :: rest, a⟩) {s : Sender} (hs : s ∈ senders.set i ⟨rest, a⟩) {g : Bytes}
    (hg : g ∈ s.frames) : ∃ s' ∈ senders, g ∈ s'.frames := by
  obtain ⟨j, hj⟩ := List.getElem?_of_mem hs
  by_cases hji : j = i
  · subst hji
    have hlt : j < senders.length := by
      have := List.getElem?_eq_some_iff.mp hi; exact this.1
    rw [List.getElem?_set_self hlt] at hj
    cases hj
    exact ⟨_, List.mem_of_getElem? hi, List.mem_cons_of_mem _ hg⟩
  · rw [List.getElem?_set_ne (fun h => hji h.symm)] at hj
    exact ⟨s, List.mem_of_getElem? hj, hg⟩

/-- **Soundness of the acceptance test**: an accepted wire is a concatenation of whole frames, each of
them a frame of one of the senders, optionally followed by a proper prefix of one of the frames whose
write failed. In particular no frame is torn by another one. -/
theorem acceptsF_sound (fuel : Nat) : ∀ (wire : Bytes) (senders : List Sender) (partials : List Bytes),
    acceptsF fuel wire senders partials = true →
    ∃ (frames : List Bytes) (p : Bytes), wire = frames.flatten ++ p ∧
      (∀ f ∈ frames, ∃ s ∈ senders, f ∈ s.frames) ∧
      (p = [] ∨ ∃ f ∈ partials, p.length < f.length ∧ f.take p.length = p) := by
  induction fuel with
  | zero => intro w s p h; simp [acceptsF] at h
  | succ n ih =>
    intro wire senders partials h
    simp only [acceptsF, Bool.or_eq_true] at h
    rcases h with h | h
    · simp only [Bool.and_eq_true, Bool.or_eq_true, List.any_eq_true] at h
      obtain ⟨_, h2⟩ := h
      rcases h2 with h2 | ⟨f, hf, h3⟩
      · have : wire = [] := by simpa using h2
        exact ⟨[], [], by simp [this], by simp, Or.inl rfl⟩
      · simp only [decide_eq_true_eq, beq_iff_eq] at h3
        exact ⟨[], wire, by simp, by simp, Or.inr ⟨f, hf, h3.1, h3.2⟩⟩
    · simp only [List.any_eq_true, List.mem_range] at h
      obtain ⟨i, _, hi⟩ := h
      split at hi
      · rename_i f rest a hsi
        simp only [Bool.and_eq_true, decide_eq_true_eq, beq_iff_eq] at hi
        obtain ⟨⟨hlen, htake⟩, hrec⟩ := hi
        obtain ⟨frames, p, e1, e2, e3⟩ := ih _ _ _ hrec
        refine ⟨f :: frames, p, ?_, ?_, e3⟩
        · have : wire = wire.take f.length ++ wire.drop f.length := (List.take_append_drop _ _).symm
          rw [this, htake, e1]; simp
        · intro g hg
          rcases List.mem_cons.mp hg with rfl | hg'
          · exact ⟨_, List.mem_of_getElem? hsi, by simp⟩
          · obtain ⟨s, hs, hgs⟩ := e2 g hg'
            exact mem_set_frames hsi hs hgs
      · cases hi

theorem accepts_sound (wire : Bytes) (senders : List Sender) (partials : List Bytes)
    (h : accepts wire senders partials = true) :
    ∃ (frames : List Bytes) (p : Bytes), wire = frames.flatten ++ p ∧
      (∀ f ∈ frames, ∃ s ∈ senders, f ∈ s.frames) ∧
      (p = [] ∨ ∃ f ∈ partials, p.length < f.length ∧ f.take p.length = p) :=
  acceptsF_sound _ wire senders partials h

end Oryx.WsConc
