/-
  Helper lemmas for C10 (FLV audio/video tag bodies). Property statements live in Oryx/Props/C10.lean.
  Sub-byte fields are closed by exhaustive sweeps (`decide +kernel` over `Fin` products / `forall_u8`);
  trait byte, rate byte, level, composition time and the raw payload stay universally quantified.
-/
import Oryx.Proofs.Flv
namespace Oryx.Flv
open Oryx Oryx.Res

/-! ### canonical frames: the domain of the round-trip theorems -/

/-- Audio: fields within their bit widths; side fields zero unless something on the wire carries them
(AAC: trait byte; Opus: trait byte, rate byte iff trait has SR, 16-bit level iff trait has AL; every other
format: header byte only). For Opus WITH the SR flag the rate is a whole byte (so 8/12/16/24/48 fit). -/
def AudioFrame.Canonical (f : AudioFrame) : Prop :=
  f.fmt < 16 ∧ f.size < 2 ∧ f.chan < 2 ∧ f.level < 65536 ∧
  (if f.fmt = codecAAC then f.rate < 4 ∧ f.level = 0
   else if f.fmt = codecOpus then
     (f.trait &&& traitOpusSR = traitOpusSR ∨ f.rate = 0) ∧ (f.trait &&& traitOpusAL = traitOpusAL ∨ f.level = 0)
   else f.rate < 4 ∧ f.trait = 0 ∧ f.level = 0)

instance (f : AudioFrame) : Decidable f.Canonical := by unfold AudioFrame.Canonical; exact inferInstance

/-- Video: 4-bit frame type and codec id; AVC/HEVC carry a trait byte and a 24-bit composition time,
every other codec carries neither. -/
def VideoFrame.Canonical (f : VideoFrame) : Prop :=
  f.frameType < 16 ∧ f.codec < 16 ∧
  (if hasCts f.codec then f.cts < 16777216 else f.trait = 0 ∧ f.cts = 0)

instance (f : VideoFrame) : Decidable f.Canonical := by unfold VideoFrame.Canonical; exact inferInstance

/-- Canonical audio tag body: in an Opus body the two (unused) rate bits of the first byte are zero.
Every other accepted body is canonical. -/
def CanonicalAudioTag : Bytes → Prop
  | [] => True
  | b :: _ => (b >>> 4) &&& 0x0f = codecOpus → b &&& 0x0c = 0

instance (t : Bytes) : Decidable (CanonicalAudioTag t) := by
  cases t <;> unfold CanonicalAudioTag <;> exact inferInstance

/-! ### first-byte sweeps -/

/-- All 16·4·2·2 in-range field combinations: the four fields are read back from the packed byte, the
byte is the arithmetic E.4.2.1 value, and masking the rate (fix F8) is the identity on 2-bit rates. -/
theorem audio_byte_fin : ∀ (i : Fin 16) (j : Fin 4) (k l : Fin 2),
    let f := UInt8.ofNat i.val; let r := UInt8.ofNat j.val; let s := UInt8.ofNat k.val; let c := UInt8.ofNat l.val
    let b := (f <<< 4) ||| ((r &&& 0x03) <<< 2) ||| (s <<< 1) ||| c
    (b >>> 4) &&& 0x0f = f ∧ (b >>> 2) &&& 0x03 = r ∧ (b >>> 1) &&& 0x01 = s ∧ b &&& 0x01 = c ∧
    b = UInt8.ofNat (Spec.Flv.audioByte i.val j.val k.val l.val) := by
  decide +kernel

/-- Opus: whatever 2-bit value the masked rate contributes, `&= 0xf3` clears it; codec nibble stays 13. -/
theorem opus_byte_fin : ∀ (j : Fin 4) (k l : Fin 2),
    let r := UInt8.ofNat j.val; let s := UInt8.ofNat k.val; let c := UInt8.ofNat l.val
    let b := (((13 : UInt8) <<< 4) ||| (r <<< 2) ||| (s <<< 1) ||| c) &&& 0xf3
    (b >>> 4) &&& 0x0f = 13 ∧ (b >>> 2) &&& 0x03 = 0 ∧ (b >>> 1) &&& 0x01 = s ∧ b &&& 0x01 = c ∧
    b = UInt8.ofNat (Spec.Flv.audioByte 13 0 k.val l.val) := by
  decide +kernel

theorem and3_lt : ∀ r : UInt8, (r &&& 0x03).toNat < 4 := by
  apply forall_u8; decide +kernel

theorem and3_id : ∀ r : UInt8, r < 4 → r &&& 0x03 = r := by
  apply forall_u8; decide +kernel

/-- All 256 first bytes: re-packing the decoded fields gives the byte back. -/
theorem audio_byte_repack : ∀ b : UInt8,
    ((((b >>> 4) &&& 0x0f) <<< 4) ||| ((((b >>> 2) &&& 0x03) &&& 0x03) <<< 2) |||
      (((b >>> 1) &&& 0x01) <<< 1) ||| (b &&& 0x01)) = b ∧
    (b >>> 4) &&& 0x0f < 16 ∧ (b >>> 2) &&& 0x03 < 4 ∧ (b >>> 1) &&& 0x01 < 2 ∧ b &&& 0x01 < 2 := by
  apply forall_u8; decide +kernel

/-- All 256 first bytes × the 4 values a masked rate can take: an Opus first byte with zero rate bits is
reproduced whatever rate byte follows the trait. -/
theorem opus_byte_repack : ∀ (b : UInt8) (j : Fin 4), (b >>> 4) &&& 0x0f = 13 → b &&& 0x0c = 0 →
    ((((b >>> 4) &&& 0x0f) <<< 4) ||| ((UInt8.ofNat j.val) <<< 2) |||
      (((b >>> 1) &&& 0x01) <<< 1) ||| (b &&& 0x01)) &&& 0xf3 = b := by
  intro b
  revert b
  apply forall_u8; decide +kernel

/-- All 16·16 frame type / codec id pairs. -/
theorem video_byte_fin : ∀ (i j : Fin 16),
    let ft := UInt8.ofNat i.val; let c := UInt8.ofNat j.val
    let b := (ft <<< 4) ||| c
    (b >>> 4) &&& 0x0f = ft ∧ b &&& 0x0f = c ∧ b = UInt8.ofNat (Spec.Flv.videoByte i.val j.val) := by
  decide +kernel

theorem video_byte_repack : ∀ b : UInt8,
    ((((b >>> 4) &&& 0x0f) <<< 4) ||| (b &&& 0x0f)) = b ∧ (b >>> 4) &&& 0x0f < 16 ∧ b &&& 0x0f < 16 := by
  apply forall_u8; decide +kernel

/-- Instantiating the `Fin` sweep at in-range `UInt8`s. -/
theorem audio_byte (f r s c : UInt8) (hf : f < 16) (hr : r < 4) (hs : s < 2) (hc : c < 2) :
    let b := (f <<< 4) ||| ((r &&& 0x03) <<< 2) ||| (s <<< 1) ||| c
    (b >>> 4) &&& 0x0f = f ∧ (b >>> 2) &&& 0x03 = r ∧ (b >>> 1) &&& 0x01 = s ∧ b &&& 0x01 = c ∧
    b = UInt8.ofNat (Spec.Flv.audioByte f.toNat r.toNat s.toNat c.toNat) := by
  have := audio_byte_fin ⟨f.toNat, hf⟩ ⟨r.toNat, hr⟩ ⟨s.toNat, hs⟩ ⟨c.toNat, hc⟩
  simpa using this

theorem opus_byte (r s c : UInt8) (hs : s < 2) (hc : c < 2) :
    let b := (((13 : UInt8) <<< 4) ||| ((r &&& 0x03) <<< 2) ||| (s <<< 1) ||| c) &&& 0xf3
    (b >>> 4) &&& 0x0f = 13 ∧ (b >>> 2) &&& 0x03 = 0 ∧ (b >>> 1) &&& 0x01 = s ∧ b &&& 0x01 = c ∧
    b = UInt8.ofNat (Spec.Flv.audioByte 13 0 s.toNat c.toNat) := by
  have := opus_byte_fin ⟨(r &&& 0x03).toNat, and3_lt r⟩ ⟨s.toNat, hs⟩ ⟨c.toNat, hc⟩
  simpa using this

theorem video_byte (ft c : UInt8) (hf : ft < 16) (hc : c < 16) :
    let b := (ft <<< 4) ||| c
    (b >>> 4) &&& 0x0f = ft ∧ b &&& 0x0f = c ∧ b = UInt8.ofNat (Spec.Flv.videoByte ft.toNat c.toNat) := by
  have := video_byte_fin ⟨ft.toNat, hf⟩ ⟨c.toNat, hc⟩
  simpa using this

/-! ### round trips, canonical re-encoding, first byte, no panic -/


theorem kA : codecAAC = 10 := by decide
theorem kO : codecOpus = 13 := by decide
theorem kS : traitOpusSR = 4 := by decide
theorem kL : traitOpusAL = 8 := by decide



theorem ofBE_be2 {v : Nat} (h : v < 65536) : ofBE [UInt8.ofNat (v / 256), UInt8.ofNat v] = v := by
  rw [← be2_eq]; exact ofBE_be_of_lt (by simpa using h)

theorem ofBE_be3 {v : Nat} (h : v < 16777216) :
    ofBE [UInt8.ofNat (v / 65536), UInt8.ofNat (v / 256), UInt8.ofNat v] = v := by
  rw [← be3_eq]; exact ofBE_be_of_lt (by simpa using h)

theorem audio_rt (f : AudioFrame) (h : f.Canonical) : decodeAudio (encodeAudio f) = ok f := by
  obtain ⟨fmt, rate, size, chan, trait, level, raw⟩ := f
  obtain ⟨hf, hs, hc, hl, hrest⟩ := h
  simp only at hf hs hc hl hrest
  by_cases haac : fmt = codecAAC
  · rw [if_pos haac] at hrest
    obtain ⟨hr, hl0⟩ := hrest
    obtain ⟨e1, e2, e3, e4, _⟩ := audio_byte fmt rate size chan hf hr hs hc
    have hno : ¬ fmt = codecOpus := by rw [haac]; decide
    simp only [encodeAudio, audioFirstByte, if_pos haac, if_neg hno, decodeAudio, e1, e2, e3, e4, hl0]
  · by_cases hop : fmt = codecOpus
    · subst hop
      rw [if_neg haac, if_pos rfl] at hrest
      obtain ⟨hsr, hal⟩ := hrest
      have kA : codecAAC = 10 := by decide
      have kO : codecOpus = 13 := by decide
      have kS : traitOpusSR = 4 := by decide
      have kL : traitOpusAL = 8 := by decide
      have k1 : ¬ (13 : UInt8) = 10 := by decide
      rw [kS] at hsr; rw [kL] at hal
      by_cases sr : trait &&& 4 = 4 <;> by_cases al : trait &&& 8 = 8
      · obtain ⟨e1, e2, e3, e4, _⟩ := opus_byte rate size chan hs hc
        simp only [encodeAudio, audioFirstByte, decodeAudio, kA, kO, kS, kL, k1, if_true, if_false, e1, e2, e3, e4, sr, al,
          be2_eq, List.cons_append, List.nil_append, bind_ok, pure_eq, ofBE_be2 hl]
      · have hl0 : level = 0 := by rcases hal with h | h; exact absurd h al; exact h
        obtain ⟨e1, e2, e3, e4, _⟩ := opus_byte rate size chan hs hc
        simp only [encodeAudio, audioFirstByte, decodeAudio, kA, kO, kS, kL, k1, if_true, if_false, e1, e2, e3, e4, sr, al,
          List.cons_append, List.nil_append, List.append_nil, bind_ok, pure_eq, hl0]
      · have hr0 : rate = 0 := by rcases hsr with h | h; exact absurd h sr; exact h
        subst hr0
        obtain ⟨e1, e2, e3, e4, _⟩ := opus_byte 0 size chan hs hc
        simp only [encodeAudio, audioFirstByte, decodeAudio, kA, kO, kS, kL, k1, if_true, if_false, e1, e2, e3, e4, sr, al,
          be2_eq, List.cons_append, List.nil_append, bind_ok, pure_eq, ofBE_be2 hl]
      · have hl0 : level = 0 := by rcases hal with h | h; exact absurd h al; exact h
        have hr0 : rate = 0 := by rcases hsr with h | h; exact absurd h sr; exact h
        subst hr0
        obtain ⟨e1, e2, e3, e4, _⟩ := opus_byte 0 size chan hs hc
        simp only [encodeAudio, audioFirstByte, decodeAudio, kA, kO, kS, kL, k1, if_true, if_false, e1, e2, e3, e4, sr, al,
          List.nil_append, List.append_nil, bind_ok, pure_eq, hl0]
    · rw [if_neg haac, if_neg hop] at hrest
      obtain ⟨hr, ht0, hl0⟩ := hrest
      obtain ⟨e1, e2, e3, e4, _⟩ := audio_byte fmt rate size chan hf hr hs hc
      simp only [encodeAudio, audioFirstByte, if_neg haac, if_neg hop, decodeAudio, e1, e2, e3, e4, hl0, ht0]


theorem video_rt (f : VideoFrame) (h : f.Canonical) : decodeVideo (encodeVideo f) = ok f := by
  obtain ⟨codec, ft, trait, cts, raw⟩ := f
  obtain ⟨hf, hc, hrest⟩ := h
  simp only at hf hc hrest
  obtain ⟨e1, e2, _⟩ := video_byte ft codec hf hc
  by_cases hk : hasCts codec = true
  · rw [if_pos hk] at hrest
    simp only [encodeVideo, videoFirstByte, decodeVideo, hk, if_true, e1, e2, be3_eq, List.cons_append,
      List.nil_append, ofBE_be3 hrest]
  · rw [if_neg hk] at hrest
    obtain ⟨ht, hc0⟩ := hrest
    subst ht hc0
    simp only [encodeVideo, videoFirstByte, decodeVideo]
    rw [if_neg hk]
    simp only [e1, e2]
    rw [if_neg hk]

/-- Every accepted video body re-encodes to itself (all bits of the first byte are fields). -/
theorem video_tag_rt (t : Bytes) (f : VideoFrame) (h : decodeVideo t = ok f) : encodeVideo f = t := by
  cases t with
  | nil => simp [decodeVideo] at h
  | cons b rest =>
    obtain ⟨e, _, _⟩ := video_byte_repack b
    unfold decodeVideo at h
    simp only at h
    split at h
    · rename_i hk
      split at h
      · rename_i tr c0 c1 c2 raw
        simp only [ok.injEq] at h
        subst h
        have hb : be 3 (ofBE [c0, c1, c2]) = [c0, c1, c2] := be_ofBE' rfl
        simp only [encodeVideo, videoFirstByte, hk, if_true, e, hb, List.cons_append, List.nil_append]
      · simp at h
    · rename_i hk
      simp only [ok.injEq] at h
      subst h
      simp only [encodeVideo, videoFirstByte, hk, e]
      simp

theorem decodeVideo_ne_panic (t : Bytes) : decodeVideo t ≠ .panic := by
  unfold decodeVideo
  split
  · simp
  · simp only
    split
    · split <;> simp
    · simp

theorem decodeVideo_canonical (t : Bytes) (f : VideoFrame) (h : decodeVideo t = ok f) : f.Canonical := by
  cases t with
  | nil => simp [decodeVideo] at h
  | cons b rest =>
    obtain ⟨_, h1, h2⟩ := video_byte_repack b
    unfold decodeVideo at h
    simp only at h
    split at h
    · rename_i hk
      split at h
      · rename_i tr c0 c1 c2 raw
        simp only [ok.injEq] at h
        subst h
        refine ⟨h1, h2, ?_⟩
        simp only [hk, if_true]
        have := ofBE_lt [c0, c1, c2]
        simpa using this
      · simp at h
    · rename_i hk
      simp only [ok.injEq] at h
      subst h
      refine ⟨h1, h2, ?_⟩
      simp [hk]
theorem opus_repack (b r : UInt8) (h13 : (b >>> 4) &&& 0x0f = 13) (h0 : b &&& 0x0c = 0) :
    ((((b >>> 4) &&& 0x0f) <<< 4) ||| ((r &&& 0x03) <<< 2) ||| (((b >>> 1) &&& 0x01) <<< 1) ||| (b &&& 0x01)) &&& 0xf3 = b := by
  have := opus_byte_repack b ⟨(r &&& 0x03).toNat, and3_lt r⟩ h13 h0
  simpa using this

theorem audio_tag_rt (t : Bytes) (f : AudioFrame) (h : decodeAudio t = ok f) (hc : CanonicalAudioTag t) :
    encodeAudio f = t := by
  cases t with
  | nil => simp [decodeAudio] at h
  | cons b rest =>
    obtain ⟨e, _⟩ := audio_byte_repack b
    unfold CanonicalAudioTag at hc
    unfold decodeAudio at h
    simp only [kA, kO, kS, kL] at h hc
    split at h
    · -- AAC
      rename_i hA
      have hno : ¬ (b >>> 4) &&& 0x0f = 13 := by rw [hA]; decide
      split at h
      · simp at h
      · rename_i tr raw
        simp only [ok.injEq] at h
        subst h
        simp only [encodeAudio, audioFirstByte, kA, kO]
        simp only [if_pos hA, if_neg hno, e]
    · rename_i hnA
      split at h
      · -- Opus
        rename_i hO
        have h0 := hc hO
        split at h
        · simp at h
        · rename_i tr p
          have hpack := opus_repack b
          by_cases sr : tr &&& 4 = 4 <;> by_cases al : tr &&& 8 = 8
          · simp only [sr, al, if_true] at h
            split at h
            · simp at h
            · rename_i r p
              simp only [bind_ok] at h
              split at h
              · rename_i a c p
                simp only [pure_eq, ok.injEq] at h
                subst h
                have hb : be 2 (ofBE [a, c]) = [a, c] := be_ofBE' rfl
                simp only [encodeAudio, audioFirstByte, kA, kO, kS, kL]
                simp only [if_neg hnA, if_pos hO, sr, al, if_true, hb, hpack r hO h0, List.cons_append, List.nil_append]
              · simp at h
          · simp only [sr, al, if_true, if_false] at h
            split at h
            · simp at h
            · rename_i r p
              simp only [bind_ok, pure_eq, ok.injEq] at h
              subst h
              simp only [encodeAudio, audioFirstByte, kA, kO, kS, kL]
              simp only [if_neg hnA, if_pos hO, sr, al, if_true, if_false, hpack r hO h0, List.cons_append,
                List.nil_append]
          · simp only [sr, al, if_true, if_false, bind_ok] at h
            split at h
            · rename_i a c p
              simp only [pure_eq, ok.injEq] at h
              subst h
              have hb : be 2 (ofBE [a, c]) = [a, c] := be_ofBE' rfl
              simp only [encodeAudio, audioFirstByte, kA, kO, kS, kL]
              simp only [if_neg hnA, if_pos hO, sr, al, if_true, if_false, hb, hpack _ hO h0, List.cons_append,
                List.nil_append]
            · simp at h
          · simp only [sr, al, if_false, bind_ok, pure_eq, ok.injEq] at h
            subst h
            simp only [encodeAudio, audioFirstByte, kA, kO, kS, kL]
            simp only [if_neg hnA, if_pos hO, sr, al, if_false, hpack _ hO h0, List.nil_append]
      · rename_i hnO
        simp only [ok.injEq] at h
        subst h
        simp only [encodeAudio, audioFirstByte, kA, kO]
        simp only [if_neg hnA, if_neg hnO, e]


theorem decodeAudio_ne_panic (t : Bytes) : decodeAudio t ≠ .panic := by
  unfold decodeAudio
  split
  · simp
  · simp only
    repeat' (first | (simp; done) | split | simp only [bind_ok, bind_err, pure_eq])

/-- The first byte of every encoded audio body is the packed header byte. -/
theorem encodeAudio_head (f : AudioFrame) : (encodeAudio f).head? = some (audioFirstByte f) := by
  unfold encodeAudio
  split
  · rfl
  · split <;> rfl

/-- For a canonical frame the header byte is the E.4.2.1 arithmetic value (rate bits 0 for Opus, whose
rate travels behind the trait byte), and the codec id is readable in its high nibble. -/
theorem audioFirstByte_fields (f : AudioFrame) (h : f.Canonical) :
    audioFirstByte f = UInt8.ofNat
      (Spec.Flv.audioByte f.fmt.toNat (if f.fmt = codecOpus then 0 else f.rate.toNat) f.size.toNat f.chan.toNat) ∧
    (audioFirstByte f >>> 4) &&& 0x0f = f.fmt := by
  obtain ⟨fmt, rate, size, chan, trait, level, raw⟩ := f
  obtain ⟨hf, hs, hc, hl, hrest⟩ := h
  simp only at hf hs hc hl hrest ⊢
  by_cases hop : fmt = codecOpus
  · subst hop
    obtain ⟨e1, _, _, _, e⟩ := opus_byte rate size chan hs hc
    simp only [audioFirstByte, if_true]
    rw [kO]
    exact ⟨e, e1⟩
  · have hr : rate < 4 := by
      by_cases haac : fmt = codecAAC
      · rw [if_pos haac] at hrest; exact hrest.1
      · rw [if_neg haac, if_neg hop] at hrest; exact hrest.1
    obtain ⟨e1, _, _, _, e⟩ := audio_byte fmt rate size chan hf hr hs hc
    simp only [audioFirstByte, if_neg hop]
    exact ⟨e, e1⟩

theorem encodeVideo_head (f : VideoFrame) : (encodeVideo f).head? = some (videoFirstByte f) := by
  unfold encodeVideo
  split <;> rfl

theorem videoFirstByte_fields (f : VideoFrame) (h : f.Canonical) :
    videoFirstByte f = UInt8.ofNat (Spec.Flv.videoByte f.frameType.toNat f.codec.toNat) ∧
    (videoFirstByte f >>> 4) &&& 0x0f = f.frameType ∧ videoFirstByte f &&& 0x0f = f.codec := by
  obtain ⟨codec, ft, trait, cts, raw⟩ := f
  obtain ⟨hf, hc, _⟩ := h
  obtain ⟨e1, e2, e⟩ := video_byte ft codec hf hc
  exact ⟨e, e1, e2⟩

end Oryx.Flv
