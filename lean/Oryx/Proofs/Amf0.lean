/-
  Helper lemmas for C05 (AMF0 model): lengths, the string codec, what a successful decode
  implies (size = consumed, remainder = drop), panic-freedom / fuel sufficiency.
-/
import Oryx.Model.Amf0
namespace Oryx.Amf0
open Oryx Oryx.Res

/-! ### markers: the generated constants, as bytes -/

@[simp] theorem mNumber_eq : mNumber = 0 := rfl
@[simp] theorem mBoolean_eq : mBoolean = 1 := rfl
@[simp] theorem mString_eq : mString = 2 := rfl
@[simp] theorem mObject_eq : mObject = 3 := rfl
@[simp] theorem mNull_eq : mNull = 5 := rfl
@[simp] theorem mUndefined_eq : mUndefined = 6 := rfl
@[simp] theorem mEcmaArray_eq : mEcmaArray = 8 := rfl
@[simp] theorem mObjectEnd_eq : mObjectEnd = 9 := rfl
@[simp] theorem mStrictArray_eq : mStrictArray = 10 := rfl

/-! ### strings -/

@[simp] theorem utf8Enc_length (s : Bytes) : (utf8Enc s).length = utf8Size s := by
  unfold utf8Enc utf8Size
  split <;> simp

theorem utf8Enc_of_le {s : Bytes} (h : s.length ≤ 65535) : utf8Enc s = be 2 s.length ++ s := by
  unfold utf8Enc
  split
  · next h0 =>
    have : s.length = 0 := by omega
    have : s = [] := List.eq_nil_of_length_eq_zero this
    subst this; rfl
  · rfl

theorem utf8Dec_enc {s : Bytes} (h : s.length ≤ 65535) (rest : Bytes) :
    utf8Dec (utf8Enc s ++ rest) = ok (s, rest) := by
  rw [utf8Enc_of_le h]
  have h2 : (be 2 s.length).length = 2 := be_length 2 _
  have hlt : s.length < 256 ^ 2 := by omega
  unfold utf8Dec
  simp only [List.append_assoc]
  rw [take_append_len _ _ h2, drop_append_len _ _ h2, ofBE_be_of_lt hlt]
  have e1 : ¬ (2 + (s.length + rest.length) < 2) := by omega
  have e2 : ¬ (s.length + rest.length < s.length) := by omega
  simp [h2, e1, e2]

theorem utf8Dec_ok {p k r : Bytes} (h : utf8Dec p = ok (k, r)) :
    utf8Size k ≤ p.length ∧ r = p.drop (utf8Size k) ∧ k.length ≤ 65535 := by
  unfold utf8Dec at h
  split at h
  · cases h
  · split at h
    · cases h
    · next h1 h2 =>
      injection h with h; injection h with hk hr
      have hb : ofBE (List.take 2 p) < 256 ^ (List.take 2 p).length := ofBE_lt _
      have hl : (List.take 2 p).length = 2 := by simp; omega
      rw [hl] at hb
      have hkl : k.length = ofBE (List.take 2 p) := by
        rw [← hk]; simp; simp at h2; omega
      refine ⟨?_, ?_, ?_⟩
      · unfold utf8Size; simp at h2; omega
      · unfold utf8Size; rw [← hr, hkl, List.drop_drop]
      · omega

theorem utf8Dec_ne_panic (p : Bytes) : utf8Dec p ≠ .panic := by
  unfold utf8Dec
  split
  · simp
  · split <;> simp

/-! ### (encode v).length = size v -/

mutual
theorem encode_length : ∀ v : Val, (encode v).length = size v
  | .num b => by simp [encode, size]
  | .bool b => by simp [encode, size]
  | .str s => by simp [encode, size]; omega
  | .null => by simp [encode, size]
  | .undef => by simp [encode, size]
  | .obj ps => by simp [encode, size, eofBytes, encodeP_length ps]; omega
  | .ecma c ps => by simp [encode, size, eofBytes, encodeP_length ps]; omega
  | .strict ps => by simp [encode, size, encodeP_length ps]; omega
  | .eof => by simp [encode, size, eofBytes]
theorem encodeP_length : ∀ ps : Props, (encodeP ps).length = sizeP ps
  | .nil => by simp [encodeP, sizeP]
  | .cons k v tl => by simp [encodeP, sizeP, encode_length v, encodeP_length tl]; omega
end

theorem size_pos (v : Val) : 1 ≤ size v := by
  cases v <;> simp [size] <;> omega

/-! ### what a successful decode implies: size = consumed, remainder = drop -/

/-- What every successful value decoder guarantees. -/
def Good (p : Bytes) (a : Val) (r : Bytes) : Prop := size a ≤ p.length ∧ r = p.drop (size a)

theorem numberDec_ok {p a r} (h : numberDec p = ok (a, r)) : Good p a r := by
  unfold numberDec at h
  split at h
  · cases h
  · next hl =>
    cases p with
    | nil => cases h
    | cons m q =>
      simp only at h
      split at h
      · cases h
      · injection h with h; injection h with ha hr
        subst ha; subst hr
        simp [Good, size] at *
        omega

theorem booleanDec_ok {p a r} (h : booleanDec p = ok (a, r)) : Good p a r := by
  unfold booleanDec at h
  split at h
  · split at h
    · cases h
    · injection h with h; injection h with ha hr
      subst ha; subst hr
      simp [Good, size]
  · cases h

theorem stringDec_ok {p a r} (h : stringDec p = ok (a, r)) : Good p a r := by
  unfold stringDec at h
  split at h
  · split at h
    · cases h
    · next m q _ =>
      rw [Res.bind_eq_ok] at h
      obtain ⟨⟨s, r'⟩, h1, h2⟩ := h
      injection h2 with h2; injection h2 with ha hr
      subst ha; subst hr
      obtain ⟨hs, hr, _⟩ := utf8Dec_ok h1
      refine ⟨?_, ?_⟩
      · simp [size]; omega
      · rw [hr]; simp [size]
        rw [show 1 + utf8Size s = utf8Size s + 1 by omega, List.drop_succ_cons]
  · cases h

theorem singleDec_ok {t v p a r} (hv : size v = 1) (h : singleDec t v p = ok (a, r)) : Good p a r := by
  unfold singleDec at h
  split at h
  · split at h
    · cases h
    · injection h with h; injection h with ha hr
      subst ha; subst hr
      simp [Good, hv]
  · cases h

theorem eofDec_ok {p a r} (h : eofDec p = ok (a, r)) : Good p a r := by
  unfold eofDec at h
  split at h
  · split at h
    · cases h
    · injection h with h; injection h with ha hr
      subst ha; subst hr
      simp [Good, size]
  · cases h


def GoodP (p : Bytes) (ps : Props) (r : Bytes) : Prop := sizeP ps + 3 ≤ p.length ∧ r = p.drop (sizeP ps + 3)
def GoodE (n : Nat) (p : Bytes) (ps : Props) (r : Bytes) : Prop :=
  sizeP ps ≤ p.length ∧ r = p.drop (sizeP ps) ∧ ps.length = n

theorem sliceFrom_ok {α} {l r : List α} {n : Nat} (h : sliceFrom l n = ok r) : n ≤ l.length ∧ r = l.drop n := by
  unfold sliceFrom at h
  split at h
  · injection h with h; exact ⟨by assumption, h.symm⟩
  · cases h

/-- One step of the value decoder, given the induction hypotheses for the container loops. -/
theorem decodeVal_step (fuel : Nat)
    (ihP : ∀ p ps r, decodeProps fuel p = ok (ps, r) → GoodP p ps r)
    (ihE : ∀ n p ps r, decodeElems fuel n p = ok (ps, r) → GoodE n p ps r)
    {p a r} (h : decodeVal (fuel+1) p = ok (a, r)) : Good p a r := by
  cases p with
  | nil => simp [decodeVal] at h
  | cons m q =>
    simp only [decodeVal] at h
    split at h
    · exact numberDec_ok h
    · exact booleanDec_ok h
    · exact stringDec_ok h
    · exact singleDec_ok (by simp [size]) h
    · exact singleDec_ok (by simp [size]) h
    · exact eofDec_ok h
    · cases h
    · -- object
      split at h
      · cases h
      · rw [Res.bind_eq_ok] at h
        obtain ⟨⟨ps, r'⟩, h1, h2⟩ := h
        injection h2 with h2; injection h2 with ha hr
        subst ha; subst hr
        obtain ⟨hs, hr⟩ := ihP _ _ _ h1
        refine ⟨by simp [size]; omega, ?_⟩
        rw [hr, show size (.obj ps) = (sizeP ps + 3) + 1 by simp [size]; omega, List.drop_succ_cons]
    · -- ecma
      split at h
      · cases h
      · split at h
        · cases h
        · next hl _ =>
          rw [Res.bind_eq_ok] at h
          obtain ⟨⟨ps, r'⟩, h1, h2⟩ := h
          injection h2 with h2; injection h2 with ha hr
          subst ha; subst hr
          obtain ⟨hs, hr⟩ := ihP _ _ _ h1
          simp at hl hs
          refine ⟨by simp [size]; omega, ?_⟩
          rw [hr, show size (.ecma (ofBE (List.take 4 q)) ps) = (4 + (sizeP ps + 3)) + 1 by simp [size]; omega,
            List.drop_succ_cons, List.drop_drop]
    · -- strict
      split at h
      · cases h
      · split at h
        · cases h
        · next hl _ =>
          simp at hl
          split at h
          · injection h with h; injection h with ha hr
            subst ha; subst hr
            refine ⟨by simp [size, sizeP]; omega, ?_⟩
            simp [size, sizeP]
          · rw [Res.bind_eq_ok] at h
            obtain ⟨⟨ps, r'⟩, h1, h2⟩ := h
            injection h2 with h2; injection h2 with ha hr
            subst ha; subst hr
            obtain ⟨hs, hr, _⟩ := ihE _ _ _ _ h1
            simp at hs
            refine ⟨by simp [size]; omega, ?_⟩
            rw [hr, show size (.strict ps) = (4 + sizeP ps) + 1 by simp [size]; omega,
              List.drop_succ_cons, List.drop_drop]


theorem decodeProps_step (fuel : Nat)
    (ihV : ∀ p a r, decodeVal fuel p = ok (a, r) → Good p a r)
    (ihP : ∀ p ps r, decodeProps fuel p = ok (ps, r) → GoodP p ps r)
    {p ps r} (h : decodeProps (fuel+1) p = ok (ps, r)) : GoodP p ps r := by
  simp only [decodeProps] at h
  rw [Res.bind_eq_ok] at h
  obtain ⟨⟨k, p1⟩, hk, h⟩ := h
  obtain ⟨hks, hkr, _⟩ := utf8Dec_ok hk
  simp only at h
  split at h
  · cases h
  · next m q =>
    split at h
    · next hc =>
      injection h with h; injection h with ha hr
      subst ha; subst hr
      have hk0 : utf8Size k = 2 := by simp [utf8Size, hc.1]
      rw [hk0] at hks hkr
      have hl : (List.drop 2 p).length = q.length + 1 := by rw [← hkr]; simp
      simp at hl
      refine ⟨by simp [sizeP]; omega, ?_⟩
      simp only [sizeP, Nat.zero_add]
      rw [show (3 : Nat) = 2 + 1 by rfl, ← List.drop_drop, ← hkr]
      simp
    · rw [Res.bind_eq_ok] at h
      obtain ⟨⟨a, ra⟩, hv, h⟩ := h
      simp only at h
      rw [Res.bind_eq_ok] at h
      obtain ⟨p2, hs, h⟩ := h
      rw [Res.bind_eq_ok] at h
      obtain ⟨⟨tl, r'⟩, ht, h⟩ := h
      injection h with h; injection h with ha hr
      subst ha; subst hr
      obtain ⟨hva, _⟩ := ihV _ _ _ hv
      obtain ⟨_, hp2⟩ := sliceFrom_ok hs
      obtain ⟨htl, hr⟩ := ihP _ _ _ ht
      have hl : (m :: q).length + utf8Size k = p.length := by rw [hkr, List.length_drop]; omega
      have hl2 : p2.length + size a = (m :: q).length := by rw [hp2, List.length_drop]; omega
      refine ⟨by simp only [sizeP]; omega, ?_⟩
      rw [hr, hp2, hkr, List.drop_drop, List.drop_drop]
      dsimp only
      congr 1
      simp only [sizeP]; omega

theorem decodeElems_step (fuel : Nat)
    (ihV : ∀ p a r, decodeVal fuel p = ok (a, r) → Good p a r)
    (ihE : ∀ n p ps r, decodeElems fuel n p = ok (ps, r) → GoodE n p ps r)
    {n p ps r} (h : decodeElems (fuel+1) n p = ok (ps, r)) : GoodE n p ps r := by
  cases n with
  | zero =>
    simp only [decodeElems] at h
    injection h with h; injection h with ha hr
    subst ha; subst hr
    simp [GoodE, sizeP, Props.length]
  | succ n =>
    simp only [decodeElems] at h
    rw [Res.bind_eq_ok] at h
    obtain ⟨⟨k, p1⟩, hk, h⟩ := h
    obtain ⟨hks, hkr, _⟩ := utf8Dec_ok hk
    simp only at h
    rw [Res.bind_eq_ok] at h
    obtain ⟨⟨a, ra⟩, hv, h⟩ := h
    simp only at h
    rw [Res.bind_eq_ok] at h
    obtain ⟨p2, hs, h⟩ := h
    rw [Res.bind_eq_ok] at h
    obtain ⟨⟨tl, r'⟩, ht, h⟩ := h
    injection h with h; injection h with ha hr
    subst ha; subst hr
    obtain ⟨hva, _⟩ := ihV _ _ _ hv
    obtain ⟨_, hp2⟩ := sliceFrom_ok hs
    obtain ⟨htl, hr, hn⟩ := ihE _ _ _ _ ht
    have hl : p1.length + utf8Size k = p.length := by rw [hkr, List.length_drop]; omega
    have hl2 : p2.length + size a = p1.length := by rw [hp2, List.length_drop]; omega
    refine ⟨by simp only [sizeP]; omega, ?_, by simp [Props.length, hn]⟩
    rw [hr, hp2, hkr, List.drop_drop, List.drop_drop]
    dsimp only
    congr 1
    simp only [sizeP]; omega

theorem decode_good : ∀ fuel : Nat,
    (∀ p a r, decodeVal fuel p = ok (a, r) → Good p a r) ∧
    (∀ p ps r, decodeProps fuel p = ok (ps, r) → GoodP p ps r) ∧
    (∀ n p ps r, decodeElems fuel n p = ok (ps, r) → GoodE n p ps r)
  | 0 => by
    refine ⟨?_, ?_, ?_⟩
    · intro p a r h; simp [decodeVal] at h
    · intro p ps r h; simp [decodeProps] at h
    · intro n p ps r h
      cases n with
      | zero =>
        simp only [decodeElems] at h
        injection h with h; injection h with ha hr
        subst ha; subst hr
        simp [GoodE, sizeP, Props.length]
      | succ n => simp [decodeElems] at h
  | fuel+1 => by
    obtain ⟨ihV, ihP, ihE⟩ := decode_good fuel
    exact ⟨fun _ _ _ h => decodeVal_step fuel ihP ihE h,
           fun _ _ _ h => decodeProps_step fuel ihV ihP h,
           fun _ _ _ _ h => decodeElems_step fuel ihV ihE h⟩


/-! ### panic-freedom; `fuel > length` is always enough -/

theorem numberDec_ne_panic (p : Bytes) : numberDec p ≠ .panic := by
  unfold numberDec; split
  · simp
  · split
    · split <;> simp
    · simp

theorem booleanDec_ne_panic (p : Bytes) : booleanDec p ≠ .panic := by
  unfold booleanDec; split
  · split <;> simp
  · simp

theorem stringDec_ne_panic (p : Bytes) : stringDec p ≠ .panic := by
  unfold stringDec; split
  · split
    · simp
    · apply Res.bind_ne_panic (utf8Dec_ne_panic _)
      intro a _; simp
  · simp

theorem singleDec_ne_panic (t v) (p : Bytes) : singleDec t v p ≠ .panic := by
  unfold singleDec; split
  · split <;> simp
  · simp

theorem eofDec_ne_panic (p : Bytes) : eofDec p ≠ .panic := by
  unfold eofDec; split
  · split <;> simp
  · simp

theorem sliceFrom_ne_panic {α} {l : List α} {n : Nat} (h : n ≤ l.length) : sliceFrom l n ≠ .panic := by
  simp [sliceFrom, h]

theorem decodeVal_np_step (fuel : Nat)
    (ihP : ∀ p : Bytes, p.length < fuel → decodeProps fuel p ≠ .panic)
    (ihE : ∀ n (p : Bytes), p.length < fuel → decodeElems fuel n p ≠ .panic)
    (p : Bytes) (hp : p.length < fuel + 1) : decodeVal (fuel+1) p ≠ .panic := by
  cases p with
  | nil => simp [decodeVal]
  | cons m q =>
    simp only [List.length_cons] at hp
    simp only [decodeVal]
    split
    · exact numberDec_ne_panic _
    · exact booleanDec_ne_panic _
    · exact stringDec_ne_panic _
    · exact singleDec_ne_panic _ _ _
    · exact singleDec_ne_panic _ _ _
    · exact eofDec_ne_panic _
    · simp
    · split
      · simp
      · apply Res.bind_ne_panic (ihP _ (by omega))
        intro a _; simp
    · split
      · simp
      · split
        · simp
        · apply Res.bind_ne_panic (ihP _ (by simp; omega))
          intro a _; simp
    · split
      · simp
      · split
        · simp
        · split
          · simp
          · apply Res.bind_ne_panic (ihE _ _ (by simp; omega))
            intro a _; simp

theorem decodeProps_np_step (fuel : Nat)
    (ihV : ∀ p : Bytes, p.length < fuel → decodeVal fuel p ≠ .panic)
    (ihP : ∀ p : Bytes, p.length < fuel → decodeProps fuel p ≠ .panic)
    (p : Bytes) (hp : p.length < fuel + 1) : decodeProps (fuel+1) p ≠ .panic := by
  simp only [decodeProps]
  apply Res.bind_ne_panic (utf8Dec_ne_panic _)
  intro ⟨k, p1⟩ hk
  obtain ⟨hks, hkr, _⟩ := utf8Dec_ok hk
  have hl : p1.length + utf8Size k = p.length := by rw [hkr, List.length_drop]; omega
  have hk2 : 2 ≤ utf8Size k := by simp [utf8Size]
  simp only
  split
  · simp
  · next m q =>
    split
    · simp
    · apply Res.bind_ne_panic (ihV _ (by omega))
      intro ⟨a, ra⟩ hv
      obtain ⟨hva, _⟩ := (decode_good fuel).1 _ _ _ hv
      simp only
      apply Res.bind_ne_panic (sliceFrom_ne_panic hva)
      intro p2 hs
      obtain ⟨_, hp2⟩ := sliceFrom_ok hs
      have hl2 : p2.length + size a = (m :: q).length := by rw [hp2, List.length_drop]; omega
      apply Res.bind_ne_panic (ihP _ (by omega))
      intro a _; simp

theorem decodeElems_np_step (fuel : Nat)
    (ihV : ∀ p : Bytes, p.length < fuel → decodeVal fuel p ≠ .panic)
    (ihE : ∀ n (p : Bytes), p.length < fuel → decodeElems fuel n p ≠ .panic)
    (n : Nat) (p : Bytes) (hp : p.length < fuel + 1) : decodeElems (fuel+1) n p ≠ .panic := by
  cases n with
  | zero => simp [decodeElems]
  | succ n =>
    simp only [decodeElems]
    apply Res.bind_ne_panic (utf8Dec_ne_panic _)
    intro ⟨k, p1⟩ hk
    obtain ⟨hks, hkr, _⟩ := utf8Dec_ok hk
    have hl : p1.length + utf8Size k = p.length := by rw [hkr, List.length_drop]; omega
    have hk2 : 2 ≤ utf8Size k := by simp [utf8Size]
    simp only
    apply Res.bind_ne_panic (ihV _ (by omega))
    intro ⟨a, ra⟩ hv
    obtain ⟨hva, _⟩ := (decode_good fuel).1 _ _ _ hv
    simp only
    apply Res.bind_ne_panic (sliceFrom_ne_panic hva)
    intro p2 hs
    obtain ⟨_, hp2⟩ := sliceFrom_ok hs
    have hl2 : p2.length + size a = p1.length := by rw [hp2, List.length_drop]; omega
    apply Res.bind_ne_panic (ihE _ _ (by omega))
    intro a _; simp

theorem decode_np : ∀ fuel : Nat,
    (∀ p : Bytes, p.length < fuel → decodeVal fuel p ≠ .panic) ∧
    (∀ p : Bytes, p.length < fuel → decodeProps fuel p ≠ .panic) ∧
    (∀ n (p : Bytes), p.length < fuel → decodeElems fuel n p ≠ .panic)
  | 0 => ⟨fun _ h => absurd h (Nat.not_lt_zero _), fun _ h => absurd h (Nat.not_lt_zero _),
          fun _ _ h => absurd h (Nat.not_lt_zero _)⟩
  | fuel+1 => by
    obtain ⟨ihV, ihP, ihE⟩ := decode_np fuel
    exact ⟨decodeVal_np_step fuel ihP ihE, decodeProps_np_step fuel ihV ihP, decodeElems_np_step fuel ihV ihE⟩

theorem decode_ne_panic (bs : Bytes) : decode bs ≠ .panic :=
  (decode_np (bs.length + 1)).1 bs (Nat.lt_succ_self _)

end Oryx.Amf0
